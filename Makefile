# Top-level build of the verification machinery (all offline).
SHELL := /bin/bash
.PHONY: setup coq driver harness clean

setup: coq driver harness

coq/Makefile: coq/_CoqProject
	cd coq && coq_makefile -f _CoqProject -o Makefile 2>&1 | grep -v WARNING || true

coq: coq/Makefile
	cd coq && timeout 3000 $(MAKE) -j16 2>&1 | grep -v WARNING ; exit $${PIPESTATUS[0]}

driver/model.ml: coq/Extract/Extract.v coq/Run/Dispatch.v coq/Run/SpecCheck.v
	$(MAKE) coq

driver/ohg-model: driver/model.ml driver/main.ml
	cd driver && ocamlfind ocamlopt -package zarith -linkpkg -O2 model.mli model.ml main.ml -o ohg-model 2>&1 | grep -v -e WARNING -e "O2" || true
	test -x driver/ohg-model

driver: coq driver/ohg-model

harness:
	cp -n /repo/Cargo.lock harness/Cargo.lock || true
	cd harness && CARGO_NET_OFFLINE=true cargo build --offline 2>&1 | tail -3
	cd harness && CARGO_NET_OFFLINE=true cargo build --offline --release 2>&1 | tail -3

clean:
	rm -rf build driver/ohg-model driver/model.ml driver/model.mli driver/*.cm* driver/*.o
	cd coq && (test -f Makefile && $(MAKE) clean || true) && rm -f Makefile Makefile.conf
