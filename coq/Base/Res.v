(* Result monad: models Rust panics (index out of bounds, assert!, unwrap on None,
   checked arithmetic in debug builds) and fuel exhaustion explicitly. *)
From Coq Require Export List Arith Bool Lia.
Export ListNotations.

Inductive res (A : Type) : Type :=
| Ok (a : A)
| Panic
| Fuel.
Arguments Ok {A} a.
Arguments Panic {A}.
Arguments Fuel {A}.

Definition bind {A B} (m : res A) (f : A -> res B) : res B :=
  match m with
  | Ok a => f a
  | Panic => Panic
  | Fuel => Fuel
  end.

Definition rmap {A B} (f : A -> B) (m : res A) : res B :=
  match m with Ok a => Ok (f a) | Panic => Panic | Fuel => Fuel end.

Declare Scope res_scope.
Delimit Scope res_scope with res.
Notation "x <- m ;; f" := (bind m (fun x => f))
  (at level 61, m at next level, right associativity) : res_scope.
Notation "' p <- m ;; f" := (bind m (fun p => f))
  (at level 61, p pattern, m at next level, right associativity) : res_scope.
Open Scope res_scope.

(* assert!(b) *)
Definition assert (b : bool) : res unit := if b then Ok tt else Panic.

(* Option::unwrap / expect *)
Definition unwrap {A} (o : option A) : res A :=
  match o with Some a => Ok a | None => Panic end.

(* checked subtraction: debug-build semantics of usize `-` *)
Definition sub_chk (a b : nat) : res nat :=
  if b <=? a then Ok (a - b) else Panic.

Fixpoint mapM {A B} (f : A -> res B) (l : list A) : res (list B) :=
  match l with
  | [] => Ok []
  | x :: xs => y <- f x ;; ys <- mapM f xs ;; Ok (y :: ys)
  end.

Fixpoint foldM {A S} (f : S -> A -> res S) (l : list A) (s : S) : res S :=
  match l with
  | [] => Ok s
  | x :: xs => s' <- f s x ;; foldM f xs s'
  end.

Lemma bind_ok {A B} (m : res A) (f : A -> res B) b :
  bind m f = Ok b <-> exists a, m = Ok a /\ f a = Ok b.
Proof.
  destruct m; simpl; split; intros H; try discriminate.
  - eauto.
  - destruct H as (a' & Ha & Hf). inversion Ha; subst; auto.
  - destruct H as (? & ? & _); discriminate.
  - destruct H as (? & ? & _); discriminate.
Qed.

Lemma mapM_ok {A B} (f : A -> res B) (g : A -> B) l :
  (forall x, In x l -> f x = Ok (g x)) -> mapM f l = Ok (map g l).
Proof.
  induction l as [|x xs IH]; simpl; intros H; auto.
  rewrite H by auto. simpl. rewrite IH by auto. reflexivity.
Qed.
