(* Extraction of the executable model + dispatcher.  Directives used: those of ExtrOcamlBasic
   (bool, option, unit, list, prod, sumbool mapped to OCaml's own types).  nat stays Peano,
   Z/positive/string/ascii stay the Coq inductives. *)
Require Extraction.
Require ExtrOcamlBasic.
From OHG Require Import Run.Dispatch Run.SpecCheck.
Extraction Language OCaml.
Extraction "../driver/model.ml" run_case spec_case.
