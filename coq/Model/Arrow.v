(* Hypergraph morphisms: model of src/strict/hypergraph/arrow.rs. *)
From OHG Require Export Model.Graph.

Set Implicit Arguments.

Inductive invalid_arrow :=
| TypeMismatchW | TypeMismatchX | NotNaturalW | NotNaturalX | NotNaturalS | NotNaturalT.

Definition ff_eqb (f g : ff) : bool :=
  list_eqb Nat.eqb (table f) (table g) && (target f =? target g).
Definition icf_eqb (c d : icf) : bool :=
  ff_eqb (ic_sources c) (ic_sources d) && ff_eqb (ic_values c) (ic_values d).

Section Types.
  Variables O A : Type.
  Variable eqO : O -> O -> bool.
  Variable eqA : A -> A -> bool.

  Record hg_arrow := mkArrow {
    ar_source : hg O A; ar_target : hg O A; ar_w : ff; ar_x : ff }.

  Definition arrow_validate (m : hg_arrow) : res (hg_arrow + invalid_arrow) :=
    let g := ar_source m in let h := ar_target m in
    cw <- ff_compose_semi (ar_w m) (h_w h) ;;
    match cw with None => Ok (inr TypeMismatchW) | Some composed_w =>
    if negb (list_eqb eqO (h_w g) composed_w) then Ok (inr NotNaturalW) else
    cx <- ff_compose_semi (ar_x m) (h_x h) ;;
    match cx with None => Ok (inr TypeMismatchX) | Some composed_x =>
    if negb (list_eqb eqA (h_x g) composed_x) then Ok (inr NotNaturalX) else
    sl <- icf_map_values (h_s g) (ar_w m) ;;
    match sl with None => Ok (inr NotNaturalS) | Some s_lhs =>
    sr <- ic_map_indexes ff_vops (h_s h) (ar_x m) ;;
    match sr with None => Ok (inr NotNaturalS) | Some s_rhs =>
    if negb (icf_eqb s_lhs s_rhs) then Ok (inr NotNaturalS) else
    tl <- icf_map_values (h_t g) (ar_w m) ;;
    match tl with None => Ok (inr NotNaturalT) | Some t_lhs =>
    tr <- ic_map_indexes ff_vops (h_t h) (ar_x m) ;;
    match tr with None => Ok (inr NotNaturalT) | Some t_rhs =>
    if negb (icf_eqb t_lhs t_rhs) then Ok (inr NotNaturalT) else
    Ok (inl m)
    end end end end end end.

  Definition arrow_new (g h : hg O A) (w x : ff) := arrow_validate (mkArrow g h w x).

  Definition arrow_is_monomorphism (m : hg_arrow) : res bool :=
    a <- ff_is_injective (ar_w m) ;;
    if a then ff_is_injective (ar_x m) else Ok false.

  Section WithBackend.
    Variable B : Backend.

    Definition successors (adj : icf) (frontier : list nat) : res (list nat) :=
      match frontier with
      | [] => Ok []
      | _ =>
          f <- unwrap (ff_new frontier (ic_len adj)) ;;
          '(g, _) <- sparse_relative_indegree B adj f ;;
          Ok (table g)
      end.

    Definition filter_unvisited (visited candidates : list nat) : res (list nat) :=
      match candidates with
      | [] => Ok []
      | _ =>
          cr <- get_range candidates RFull ;;
          voc <- gather visited cr ;;
          let u := azero voc in
          ur <- get_range u RFull ;;
          gather candidates ur
      end.

    Record cstate := mkC { c_v0 : list nat; c_v1 : list nat; c_f0 : list nat; c_f1 : list nat }.

    (* one iteration of the BFS loop; None = `break` or loop condition false *)
    Definition convex_step (adj_in adj_out adj_all : icf) (st : cstate) : res (option cstate) :=
      match c_f0 st, c_f1 st with
      | [], [] => Ok None
      | _, _ =>
          n0 <- successors adj_in (c_f0 st) ;;
          n10 <- successors adj_out (c_f0 st) ;;
          n11 <- successors adj_all (c_f1 st) ;;
          next0 <- filter_unvisited (c_v0 st) n0 ;;
          next1 <- (match n10 ++ n11 with
                    | [] => Ok []
                    | merged => filter_unvisited (c_v1 st) (fst (b_sparse_bincount B merged))
                    end) ;;
          match next0, next1 with
          | [], [] => Ok None
          | _, _ =>
              v0 <- scatter_assign_constant (c_v0 st) next0 1 ;;
              v1 <- scatter_assign_constant (c_v1 st) next1 1 ;;
              Ok (Some (mkC v0 v1 next0 next1))
          end
      end.

    Fixpoint convex_loop (adj_in adj_out adj_all : icf) (fuel : nat) (st : cstate) : res cstate :=
      match fuel with
      | 0 => Fuel
      | S fuel' =>
          r <- convex_step adj_in adj_out adj_all st ;;
          match r with
          | None => Ok st
          | Some st' => convex_loop adj_in adj_out adj_all fuel' st'
          end
      end.

    Definition arrow_is_convex_subgraph (m : hg_arrow) : res bool :=
      mono <- arrow_is_monomorphism m ;;
      if negb mono then Ok false else
      let g := ar_target m in
      let n_nodes := length (h_w g) in
      let n_edges := length (h_x g) in
      edge_mask <- scatter_assign_constant (fill 0 n_edges) (table (ar_x m)) 1 ;;
      let outside_ix := azero edge_mask in
      outside <- unwrap (ff_new outside_ix n_edges) ;;
      s_in0 <- ic_map_indexes ff_vops (h_s g) (ar_x m) ;; s_in <- unwrap s_in0 ;;
      t_in0 <- ic_map_indexes ff_vops (h_t g) (ar_x m) ;; t_in <- unwrap t_in0 ;;
      adj_in <- node_adjacency_from_incidence B s_in t_in ;;
      s_out0 <- ic_map_indexes ff_vops (h_s g) outside ;; s_out <- unwrap s_out0 ;;
      t_out0 <- ic_map_indexes ff_vops (h_t g) outside ;; t_out <- unwrap t_out0 ;;
      adj_out <- node_adjacency_from_incidence B s_out t_out ;;
      adj_all <- node_adjacency B g ;;
      let f0 := table (ar_w m) in
      v0 <- scatter_assign_constant (fill 0 n_nodes) f0 1 ;;
      let st0 := mkC v0 (fill 0 n_nodes) f0 [] in
      st <- convex_loop adj_in adj_out adj_all (2 * n_nodes + 2) st0 ;;
      wr <- get_range (table (ar_w m)) RFull ;;
      reached <- gather (c_v1 st) wr ;;
      Ok (negb (match amax reached with Some mx => 1 <=? mx | None => false end)).
  End WithBackend.
End Types.
