(* Finite functions: model of src/finite_function/arrow.rs, src/semifinite/types.rs,
   src/semifinite/arrow.rs.  A SemifiniteFunction<T> is just a list T. *)
From OHG Require Export Model.Prims.

Set Implicit Arguments.

Record ff := mkFF { table : list nat; target : nat }.

Definition ff_source (f : ff) : nat := length (table f).

(* FiniteFunction::new *)
Definition ff_new (t : list nat) (n : nat) : option ff :=
  match amax t with
  | Some m => if n <=? m then None else Some (mkFF t n)
  | None => Some (mkFF t n)
  end.

Definition ff_terminal (a : nat) : ff := mkFF (fill 0 a) 1.
Definition ff_constant (a x b : nat) : ff := mkFF (fill x a) (x + b + 1).
Definition ff_inject0 (f : ff) (b : nat) : ff := mkFF (table f) (b + target f).
Definition ff_inject1 (f : ff) (a : nat) : ff := mkFF (add_scalar a (table f)) (a + target f).
Definition ff_initial (a : nat) : ff := mkFF [] a.
Definition ff_to_initial (f : ff) : ff := ff_initial (target f).

Definition ff_identity (a : nat) : res ff := t <- arange 0 a ;; Ok (mkFF t a).

(* Arrow::compose *)
Definition ff_compose (f g : ff) : res (option ff) :=
  if target f =? ff_source g then
    r <- get_range (table f) RFull ;;
    t <- gather (table g) r ;;
    Ok (Some (mkFF t (target g)))
  else Ok None.

(* compose_semifinite / `>>` with a label array *)
Definition ff_compose_semi {T} (f : ff) (u : list T) : res (option (list T)) :=
  if target f =? length u then
    r <- get_range (table f) RFull ;;
    t <- gather u r ;;
    Ok (Some t)
  else Ok None.

Definition ff_coproduct (f g : ff) : option ff :=
  if target f =? target g then Some (mkFF (table f ++ table g) (target f)) else None.

Definition ff_inj0 (a b : nat) : res ff := t <- arange 0 a ;; Ok (mkFF t (a + b)).
Definition ff_inj1 (a b : nat) : res ff := t <- arange a (a + b) ;; Ok (mkFF t (a + b)).

Definition ff_tensor (f g : ff) : ff :=
  mkFF (table f ++ add_scalar (target f) (table g)) (target f + target g).

Definition ff_twist (a b : nat) : res ff :=
  lhs <- arange b (a + b) ;;
  rhs <- arange 0 b ;;
  Ok (mkFF (lhs ++ rhs) (a + b)).

Definition ff_transpose (a b : nat) : res ff :=
  if a =? 0 then Ok (ff_initial a)
  else
    let n := b * a in
    i <- arange 0 n ;;
    '(q, r) <- quot_rem i a ;;
    t <- mul_constant_add r b q ;;
    Ok (mkFF t n).

(* FiniteFunction::injections *)
Definition ff_injections (s a : ff) : res (option ff) :=
  let p := cumulative_sum (table s) in
  ok <- ff_compose a s ;;
  match ok with
  | None => Ok None
  | Some k =>
      r <- segmented_arange (table k) ;;
      ar <- get_range (table a) RFull ;;
      values <- gather p ar ;;
      vr <- get_range values RFull ;;
      z <- arepeat (table k) vr ;;
      t <- aadd r z ;;
      pl <- sub_chk (length p) 1 ;;
      tg <- get p pl ;;
      Ok (Some (mkFF t tg))
  end.

Definition ff_cumulative_sum (f : ff) : res ff :=
  let ext := cumulative_sum (table f) in
  tg <- get ext (ff_source f) ;;
  t <- get_range ext (RTo (ff_source f)) ;;
  Ok (mkFF t tg).

Definition ff_is_injective (f : ff) : res bool :=
  if ff_source f =? 0 then Ok true
  else
    counts <- bincount (table f) (target f) ;;
    Ok (match amax counts with Some m => m <=? 1 | None => true end).

Section WithBackend.
  Variable B : Backend.

  Definition ff_coequalizer (f g : ff) : res (option ff) :=
    if negb (ff_source f =? ff_source g) || negb (target f =? target g) then Ok None
    else
      '(t, k) <- connected_components B (table f) (table g) (target f) ;;
      Ok (Some (mkFF t k)).

  (* free function coequalizer_universal<K, T> *)
  Definition coequalizer_universal {T} (eqb : T -> T -> bool) (q : ff) (f : list T)
    : res (option (list T)) :=
    if negb (ff_source q =? length f) then Ok None
    else
      qr <- get_range (table q) RFull ;;
      u <- b_scatter B f qr (target q) ;;
      c <- ff_compose_semi q u ;;
      f' <- unwrap c ;;   (* .expect("by construction") *)
      Ok (if list_eqb eqb f' f then Some u else None).

  (* method FiniteFunction::coequalizer_universal *)
  Definition ff_coequalizer_universal (q f : ff) : res (option ff) :=
    r <- coequalizer_universal Nat.eqb q (table f) ;;
    Ok (option_map (fun t => mkFF t (target f)) r).
End WithBackend.

(* ---- SemifiniteArrow (src/semifinite/arrow.rs): only source/target/identity/compose exist;
   the Coproduct methods are todo!() (= Panic) and outside the properties ---- *)
Inductive sf_arrow (T : Type) :=
| SFIdentity
| SFFinite (f : ff)
| SFSemi (u : list T).
Arguments SFIdentity {T}.
Arguments SFFinite {T} f.
Arguments SFSemi {T} u.

(* objects: Some n = Finite n, None = Set *)
Definition sf_source {T} (a : sf_arrow T) : option nat :=
  match a with SFFinite f => Some (ff_source f) | SFSemi u => Some (length u) | SFIdentity => None end.
Definition sf_target {T} (a : sf_arrow T) : option nat :=
  match a with SFFinite f => Some (target f) | _ => None end.
Definition sf_identity {T} (o : option nat) : res (sf_arrow T) :=
  match o with Some a => f <- ff_identity a ;; Ok (SFFinite f) | None => Ok SFIdentity end.
Definition sf_compose {T} (a b : sf_arrow T) : res (option (sf_arrow T)) :=
  match a with
  | SFFinite f =>
      match b with
      | SFFinite g => r <- ff_compose f g ;; Ok (option_map (@SFFinite T) r)
      | SFSemi u => r <- ff_compose_semi f u ;; Ok (option_map (@SFSemi T) r)
      | SFIdentity => Ok None
      end
  | _ => Ok None
  end.
