(* Strict functors and optics: model of src/strict/functor/{traits,identity,optic}.rs. *)
From OHG Require Export Model.Arrow.

Set Implicit Arguments.

Section Functor.
  Variables O1 A1 O2 A2 : Type.
  Variable B : Backend.
  Variable eqO2 : O2 -> O2 -> bool.

  (* a strict functor is its two user-supplied maps; map_arrow is define_map_arrow *)
  Record sfunctor := mkSF {
    sf_map_object : list O1 -> res (ic (list O2));
    sf_map_operations : operations O1 A1 -> res (ohg O2 A2);
  }.

  Definition map_half_spider (w : ic (list O2)) (f : ff) : res ff :=
    r <- ff_injections (ic_sources w) f ;; unwrap r.

  Definition to_operations (f : ohg O1 A1) : res (operations O1 A1) :=
    a0 <- icf_map_semifinite (h_s (o_h f)) (h_w (o_h f)) ;; a <- unwrap a0 ;;
    b0 <- icf_map_semifinite (h_t (o_h f)) (h_w (o_h f)) ;; b <- unwrap b0 ;;
    Ok (mkOps (h_x (o_h f)) a b).

  Definition spider_map_arrow (f : ohg O1 A1) (fw : ic (list O2)) (fx : ohg O2 A2) : res (ohg O2 A2) :=
    i <- ohg_identity A2 (ic_values fw) ;;
    fs <- map_half_spider fw (o_s f) ;;
    e_s <- map_half_spider fw (ic_values (h_s (o_h f))) ;;
    sxt <- unwrap (ff_coproduct (o_t i) e_s) ;;
    sx <- unwrap (ohg_spider A2 fs sxt (h_w (o_h i))) ;;
    ft <- map_half_spider fw (o_t f) ;;
    fe_t <- map_half_spider fw (ic_values (h_t (o_h f))) ;;
    yts <- unwrap (ff_coproduct (o_s i) fe_t) ;;
    yt <- unwrap (ohg_spider A2 yts ft (h_w (o_h i))) ;;
    ifx <- ohg_tensor i fx ;;
    c1 <- ohg_compose B eqO2 sx ifx ;; c1' <- unwrap c1 ;;
    c2 <- ohg_compose B eqO2 c1' yt ;; unwrap c2.

  Definition define_map_arrow (F : sfunctor) (f : ohg O1 A1) : res (ohg O2 A2) :=
    ops <- to_operations f ;;
    fx <- sf_map_operations F ops ;;
    fw <- sf_map_object F (h_w (o_h f)) ;;
    spider_map_arrow f fw fx.

  (* ---- optic ---- *)
  Definition interleave_blocks (a b : ic (list O2)) : res (ohg O2 A2) :=
    _ <- assert (ic_len a =? ic_len b) ;;
    ab0 <- ic_coproduct (semi_vops O2) a b ;; ab <- unwrap ab0 ;;
    s <- ff_identity (length (ic_values ab)) ;;
    p <- ff_transpose 2 (ic_len a) ;;
    t0 <- ff_injections (ic_sources ab) p ;; t <- unwrap t0 ;;
    unwrap (ohg_spider A2 s t (ic_values ab)).

  Definition partial_dagger (c : ohg O2 A2) (fa fb ra rb : ic (list O2)) : res (ohg O2 A2) :=
    let n v := length (ic_values v) in
    i0 <- ff_inj0 (n fa) (n rb) ;; si0 <- ff_compose i0 (o_s c) ;; s_i <- unwrap si0 ;;
    i1 <- ff_inj1 (n fb) (n ra) ;; so0 <- ff_compose i1 (o_t c) ;; s_o <- unwrap so0 ;;
    s <- unwrap (ff_coproduct s_i s_o) ;;
    j0 <- ff_inj0 (n fb) (n ra) ;; ti0 <- ff_compose j0 (o_t c) ;; t_i <- unwrap ti0 ;;
    j1 <- ff_inj1 (n fa) (n rb) ;; to0 <- ff_compose j1 (o_s c) ;; t_o <- unwrap to0 ;;
    t <- unwrap (ff_coproduct t_i t_o) ;;
    match ohg_new s t (o_h c) with inl r => Ok r | inr _ => Panic end.

  Record optic := mkOptic {
    op_fwd : sfunctor;
    op_rev : sfunctor;
    op_residual : operations O1 A1 -> res (ic (list O2));
  }.

  Definition optic_map_object (P : optic) (a : list O1) : res (ic (list O2)) :=
    fa <- sf_map_object (op_fwd P) a ;;
    ra <- sf_map_object (op_rev P) a ;;
    _ <- assert (ic_len fa =? ic_len ra) ;;
    let n := ic_len fa in
    p0 <- ic_coproduct (semi_vops O2) fa ra ;; paired <- unwrap p0 ;;
    p <- ff_transpose 2 n ;;
    st <- aadd (table (ic_sources fa)) (table (ic_sources ra)) ;;
    tg <- sub_chk (target (ic_sources fa) + target (ic_sources ra)) 1 ;;
    sources <- unwrap (ff_new st tg) ;;
    v0 <- ic_indexed_values (semi_vops O2) paired p ;; values <- unwrap v0 ;;
    r <- ic_new (semi_vops O2) sources values ;; unwrap r.

  Definition compose_unwrap (f g : ohg O2 A2) : res (ohg O2 A2) :=
    r <- ohg_compose B eqO2 f g ;; unwrap r.

  Definition optic_map_operations (P : optic) (ops : operations O1 A1) : res (ohg O2 A2) :=
    fwd <- sf_map_operations (op_fwd P) ops ;;
    rev <- sf_map_operations (op_rev P) ops ;;
    fa <- sf_map_object (op_fwd P) (ic_values (ops_a ops)) ;;
    fb <- sf_map_object (op_fwd P) (ic_values (ops_b ops)) ;;
    ra <- sf_map_object (op_rev P) (ic_values (ops_a ops)) ;;
    rb <- sf_map_object (op_rev P) (ic_values (ops_b ops)) ;;
    m <- op_residual P ops ;;
    bfb <- ic_flatmap_sources (semi_vops O1) (ops_b ops) fb ;;
    fi0 <- interleave_blocks bfb m ;;
    let fwd_interleave := ohg_dagger fi0 in
    brb <- ic_flatmap_sources (semi_vops O1) (ops_b ops) rb ;;
    rev_cointerleave <- interleave_blocks m brb ;;
    (* debug_assert_eq!(fwd.target(), fwd_interleave.source()) and its twin *)
    ft <- ohg_target fwd ;; fis <- ohg_source fwd_interleave ;;
    _ <- assert (list_eqb eqO2 ft fis) ;;
    rct <- ohg_target rev_cointerleave ;; rs <- ohg_source rev ;;
    _ <- assert (list_eqb eqO2 rct rs) ;;
    i_fb <- ohg_identity A2 (ic_values fb) ;;
    i_rb <- ohg_identity A2 (ic_values rb) ;;
    l0 <- compose_unwrap fwd fwd_interleave ;;
    lhs <- ohg_tensor l0 i_rb ;;
    r0 <- compose_unwrap rev_cointerleave rev ;;
    rhs <- ohg_tensor i_fb r0 ;;
    c <- compose_unwrap lhs rhs ;;
    d <- partial_dagger c fa fb ra rb ;;
    l1 <- interleave_blocks fa ra ;;
    rhs1 <- interleave_blocks fb rb ;;
    e <- compose_unwrap (ohg_dagger l1) d ;;
    compose_unwrap e rhs1.

  Definition optic_as_functor (P : optic) : sfunctor :=
    mkSF (optic_map_object P) (optic_map_operations P).

  Definition optic_map_arrow (P : optic) (f : ohg O1 A1) : res (ohg O2 A2) :=
    define_map_arrow (optic_as_functor P) f.

  Definition optic_adapt (P : optic) (c : ohg O2 A2) (a b : list O1) : res (ohg O2 A2) :=
    fa <- sf_map_object (op_fwd P) a ;;
    fb <- sf_map_object (op_fwd P) b ;;
    ra <- sf_map_object (op_rev P) a ;;
    rb <- sf_map_object (op_rev P) b ;;
    lhs <- interleave_blocks fa ra ;;
    r0 <- interleave_blocks fb rb ;;
    d0 <- compose_unwrap lhs c ;;
    d <- compose_unwrap d0 (ohg_dagger r0) ;;
    ds <- ohg_source d ;; far0 <- ic_coproduct (semi_vops O2) fa ra ;; far <- unwrap far0 ;;
    _ <- assert (list_eqb eqO2 ds (ic_values far)) ;;
    dt <- ohg_target d ;; fbr0 <- ic_coproduct (semi_vops O2) fb rb ;; fbr <- unwrap fbr0 ;;
    _ <- assert (list_eqb eqO2 dt (ic_values fbr)) ;;
    partial_dagger d fa fb rb ra.
End Functor.

(* the strict Identity functor *)
Definition identity_functor (O A : Type) : sfunctor O A O A :=
  mkSF (fun a => ic_elements (semi_vops O) a) (fun ops => ohg_tensor_operations ops).
