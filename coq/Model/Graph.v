(* Graph algorithms, layering, acyclicity, evaluation: model of src/strict/graph.rs,
   src/strict/layer.rs, src/strict/hypergraph/acyclic.rs, src/strict/eval.rs. *)
From OHG Require Export Model.Hyper.

Set Implicit Arguments.

Section WithBackend.
  Variable B : Backend.

  Definition converse (r : icf) : res icf :=
    ar <- arange 0 (ff_source (ic_sources r)) ;;
    arr <- get_range ar RFull ;;
    unsorted <- arepeat (table (ic_sources r)) arr ;;
    values_table <- sort_by B unsorted (table (ic_values r)) ;;
    sources_table <- bincount (table (ic_values r)) (target (ic_values r)) ;;
    sources <- unwrap (ff_new sources_table (length (table (ic_values r)) + 1)) ;;
    values <- unwrap (ff_new values_table (ic_len r)) ;;
    c <- ic_new ff_vops sources values ;;
    unwrap c.

  Definition node_adjacency_from_incidence (s t : icf) : res icf :=
    c <- converse s ;; icf_flatmap c t.

  Definition operation_adjacency {O A} (h : hg O A) : res icf :=
    c <- converse (h_s h) ;; icf_flatmap (h_t h) c.

  Definition node_adjacency {O A} (h : hg O A) : res icf :=
    node_adjacency_from_incidence (h_s h) (h_t h).

  Definition dense_relative_indegree (adj : icf) (f : ff) : res ff :=
    _ <- assert (ic_len adj =? target f) ;;
    r0 <- ic_indexed_values ff_vops adj f ;;
    reached <- unwrap r0 ;;
    let tg := ff_source reached + 1 in
    t <- bincount (table reached) (ic_len adj) ;;
    unwrap (ff_new t tg).

  Definition sparse_relative_indegree (a : icf) (f : ff) : res (ff * ff) :=
    _ <- assert (ic_len a =? target f) ;;
    g0 <- ic_indexed_values ff_vops a f ;;
    g <- unwrap g0 ;;
    let tg := ff_source g + 1 in
    let '(i, c) := b_sparse_bincount B (table g) in
    fi <- unwrap (ff_new i (ic_len a)) ;;
    fc <- unwrap (ff_new c tg) ;;
    Ok (fi, fc).

  Definition indegree (adj : icf) : res ff :=
    i <- ff_identity (ic_len adj) ;;
    dense_relative_indegree adj i.

  Definition filter (values predicate : list nat) : res (list nat) :=
    vr <- get_range values RFull ;;
    arepeat predicate vr.

  Record kstate := mkK {
    k_order : list nat; k_unvisited : list nat; k_indegree : list nat;
    k_frontier : list nat; k_depth : nat }.

  Definition kahn_body (adj : icf) (st : kstate) : res kstate :=
    unv <- scatter_assign_constant (k_unvisited st) (k_frontier st) 0 ;;
    ord <- scatter_assign_constant (k_order st) (k_frontier st) (k_depth st) ;;
    fr <- unwrap (ff_new (k_frontier st) (ic_len adj)) ;;
    '(rix, rcount) <- sparse_relative_indegree adj fr ;;
    ind <- scatter_sub_assign (k_indegree st) (table rix) (table rcount) ;;
    rr <- get_range (table rix) RFull ;;
    gi <- gather ind rr ;;
    let z := azero gi in
    zr <- get_range z RFull ;;
    fr1 <- gather (table rix) zr ;;
    fr1r <- get_range fr1 RFull ;;
    p <- gather unv fr1r ;;
    fr2 <- filter fr1 p ;;
    Ok (mkK ord unv ind fr2 (k_depth st + 1)).

  (* while !frontier.is_empty() && depth <= n : at most n+1 iterations; [k] counts them down *)
  Fixpoint kahn_loop (adj : icf) (k : nat) (st : kstate) : res kstate :=
    match k with
    | 0 => Ok st
    | S k' =>
        match k_frontier st with
        | [] => Ok st
        | _ => st' <- kahn_body adj st ;; kahn_loop adj k' st'
        end
    end.

  Definition kahn (adj : icf) : res (list nat * list nat) :=
    let n := ic_len adj in
    ind <- indegree adj ;;
    let st0 := mkK (fill 0 n) (fill 1 n) (table ind) (azero (table ind)) 0 in
    st <- kahn_loop adj (n + 1) st0 ;;
    Ok (k_order st, k_unvisited st).

  Definition layer {O A} (f : ohg O A) : res (ff * list nat) :=
    a <- operation_adjacency (o_h f) ;;
    '(ordering, completed) <- kahn a ;;
    o <- unwrap (ff_new ordering (length (h_x (o_h f)))) ;;
    Ok (o, completed).

  Definition converse_iter (order : ff) : res (list (list nat)) :=
    e <- ic_elements ff_vops order ;;
    c <- converse e ;;
    l <- icf_collect c ;;
    Ok (map table l).

  Definition layered_operations {O A} (f : ohg O A) : res (list (list nat) * list nat) :=
    '(order, unvisited) <- layer f ;;
    l <- converse_iter order ;;
    Ok (l, unvisited).

  Definition hg_is_acyclic {O A} (h : hg O A) : res bool :=
    if length (h_w h) =? 0 then Ok true
    else
      adj <- node_adjacency h ;;
      '(_, unvisited) <- kahn adj ;;
      s <- asum unvisited ;;
      Ok (s =? 0).

  Definition ohg_is_acyclic {O A} (f : ohg O A) : res bool := hg_is_acyclic (o_h f).

  (* ---- evaluation ---- *)
  Section Eval.
    Variables O A T : Type.
    Variable default : T.
    (* the user-supplied interpreter: labels of a batch + its segmented inputs -> segmented outputs *)
    Variable apply : list A -> ic (list T) -> res (ic (list T)).

    Definition layer_function_to_layers (f : ff) : res (list ff) :=
      e <- ic_elements ff_vops f ;;
      c <- converse e ;;
      icf_collect c.

    Definition eval_step (f : ohg O A) (mem : list T) (op_ix : ff) : res (list T) :=
      l0 <- ff_compose_semi op_ix (h_x (o_h f)) ;; op_labels <- unwrap l0 ;;
      ii0 <- ic_map_indexes ff_vops (h_s (o_h f)) op_ix ;; input_indexes <- unwrap ii0 ;;
      iv0 <- icf_map_semifinite input_indexes mem ;; input_values <- unwrap iv0 ;;
      outputs <- apply op_labels input_values ;;
      oi0 <- ic_map_indexes ff_vops (h_t (o_h f)) op_ix ;; output_indexes <- unwrap oi0 ;;
      scatter_assign mem (table (ic_values output_indexes)) (ic_values outputs).

    Definition eval_order (f : ohg O A) (s : list T) (order : list ff) : res (list T * list T) :=
      let mem0 := fill default (length (h_w (o_h f))) in
      mem1 <- scatter_assign mem0 (table (o_s f)) s ;;
      mem <- foldM (eval_step f) order mem1 ;;
      tr <- get_range (table (o_t f)) RFull ;;
      out <- gather mem tr ;;
      Ok (mem, out).

    Definition eval (f : ohg O A) (s : list T) : res (option (list T)) :=
      '(order, unvisited) <- layer f ;;
      layering <- layer_function_to_layers order ;;
      if match amax unvisited with Some m => m | None => 0 end =? 0 then
        '(_, out) <- eval_order f s layering ;; Ok (Some out)
      else Ok None.
  End Eval.
End WithBackend.
