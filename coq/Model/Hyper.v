(* Strict hypergraphs and open hypergraphs: model of src/strict/hypergraph/object.rs and
   src/strict/open_hypergraph/arrow.rs. *)
From OHG Require Export Model.IC.

Set Implicit Arguments.

Section Types.
  Variables O A : Type.

  Record hg := mkHG { h_s : icf; h_t : icf; h_w : list O; h_x : list A }.
  Record ohg := mkOHG { o_s : ff; o_t : ff; o_h : hg }.

  Inductive invalid_hg :=
  | SourcesCount (a b : nat) | TargetsCount (a b : nat)
  | SourcesSet (a b : nat) | TargetsSet (a b : nat).

  Inductive invalid_ohg :=
  | CospanSourceType (a b : nat) | CospanTargetType (a b : nat)
  | InvalidHypergraph (e : invalid_hg).

  Definition hg_validate (h : hg) : hg + invalid_hg :=
    let n_x := length (h_x h) in
    let n_w := length (h_w h) in
    if negb (ic_len (h_s h) =? n_x) then inr (SourcesCount (ic_len (h_s h)) n_x)
    else if negb (ic_len (h_t h) =? n_x) then inr (TargetsCount (ic_len (h_t h)) n_x)
    else if negb (target (ic_values (h_s h)) =? n_w) then inr (SourcesSet (target (ic_values (h_s h))) n_w)
    else if negb (target (ic_values (h_t h)) =? n_w) then inr (TargetsSet (target (ic_values (h_t h))) n_w)
    else inl h.

  Definition hg_new (s t : icf) (w : list O) (x : list A) := hg_validate (mkHG s t w x).

  Definition hg_empty : hg := mkHG (icf_initial 0) (icf_initial 0) [] [].
  Definition hg_discrete (w : list O) : hg :=
    mkHG (icf_initial (length w)) (icf_initial (length w)) w [].

  Definition hg_is_discrete (h : hg) : bool :=
    (ic_len (h_s h) =? 0) && (ic_len (h_t h) =? 0) && (length (h_x h) =? 0).

  Definition hg_coproduct (g h : hg) : res hg :=
    s <- icf_tensor (h_s g) (h_s h) ;;
    t <- icf_tensor (h_t g) (h_t h) ;;
    Ok (mkHG s t (h_w g ++ h_w h) (h_x g ++ h_x h)).

  Definition hg_tensor_operations (p : operations O A) : res hg :=
    let a := ops_a p in let b := ops_b p in
    i0 <- ff_inj0 (length (ic_values a)) (length (ic_values b)) ;;
    i1 <- ff_inj1 (length (ic_values a)) (length (ic_values b)) ;;
    s0 <- ic_new ff_vops (ic_sources a) i0 ;; s <- unwrap s0 ;;
    t0 <- ic_new ff_vops (ic_sources b) i1 ;; t <- unwrap t0 ;;
    Ok (mkHG s t (ic_values a ++ ic_values b) (ops_x p)).

  Definition hg_in_degree (h : hg) (node : nat) : res nat :=
    _ <- assert (node <? length (h_w h)) ;;
    counts <- bincount (table (ic_values (h_t h))) (length (h_w h)) ;;
    get counts node.

  Definition hg_out_degree (h : hg) (node : nat) : res nat :=
    _ <- assert (node <? length (h_w h)) ;;
    counts <- bincount (table (ic_values (h_s h))) (length (h_w h)) ;;
    get counts node.

  (* ---- open hypergraphs ---- *)
  Definition ohg_validate (f : ohg) : ohg + invalid_ohg :=
    match hg_validate (o_h f) with
    | inr e => inr (InvalidHypergraph e)
    | inl h =>
        let w := length (h_w h) in
        if negb (target (o_s f) =? w) then inr (CospanSourceType (target (o_s f)) w)
        else if negb (target (o_t f) =? w) then inr (CospanTargetType (target (o_t f)) w)
        else inl (mkOHG (o_s f) (o_t f) h)
    end.

  Definition ohg_new (s t : ff) (h : hg) := ohg_validate (mkOHG s t h).

  Definition ohg_tensor_operations (p : operations O A) : res ohg :=
    h <- hg_tensor_operations p ;;
    Ok (mkOHG (ic_values (h_s h)) (ic_values (h_t h)) h).

  Definition ohg_singleton (x : A) (a b : list O) : res ohg :=
    ohg_tensor_operations (ops_singleton x a b).

  (* source()/target(): `.expect(..)` *)
  Definition ohg_source (f : ohg) : res (list O) :=
    r <- ff_compose_semi (o_s f) (h_w (o_h f)) ;; unwrap r.
  Definition ohg_target (f : ohg) : res (list O) :=
    r <- ff_compose_semi (o_t f) (h_w (o_h f)) ;; unwrap r.

  Definition ohg_identity (w : list O) : res ohg :=
    s <- ff_identity (length w) ;;
    t <- ff_identity (length w) ;;
    Ok (mkOHG s t (hg_discrete w)).

  Definition ohg_spider (s t : ff) (w : list O) : option ohg :=
    if negb (target s =? length w) || negb (target t =? length w) then None
    else Some (mkOHG s t (hg_discrete w)).

  (* Spider::half_spider default method *)
  Definition ohg_half_spider (s : ff) (w : list O) : res (option ohg) :=
    t <- ff_identity (target s) ;; Ok (ohg_spider s t w).

  Definition ohg_tensor (f g : ohg) : res ohg :=
    h <- hg_coproduct (o_h f) (o_h g) ;;
    Ok (mkOHG (ff_tensor (o_s f) (o_s g)) (ff_tensor (o_t f) (o_t g)) h).

  Definition ohg_twist (a b : list O) : res ohg :=
    s <- ff_twist (length a) (length b) ;;
    t <- ff_identity (length a + length b) ;;
    Ok (mkOHG s t (hg_discrete (b ++ a))).

  Definition ohg_dagger (f : ohg) : ohg := mkOHG (o_t f) (o_s f) (o_h f).

  Definition ohg_is_monogamous (f : ohg) : res bool :=
    let n := length (h_w (o_h f)) in
    in_counts <- bincount (table (o_s f)) n ;;
    if match amax in_counts with Some m => 1 <? m | None => false end then Ok false else
    out_counts <- bincount (table (o_t f)) n ;;
    if match amax out_counts with Some m => 1 <? m | None => false end then Ok false else
    in_degrees <- bincount (table (ic_values (h_t (o_h f)))) n ;;
    out_degrees <- bincount (table (ic_values (h_s (o_h f)))) n ;;
    let ones := fill 1 n in
    a <- aadd in_degrees in_counts ;;
    b <- aadd out_degrees out_counts ;;
    Ok (list_eqb Nat.eqb a ones && list_eqb Nat.eqb b ones).

  Section WithBackend.
    Variable B : Backend.
    Variable eqO : O -> O -> bool.

    Definition hg_coequalize_vertices (h : hg) (q : ff) : res (option hg) :=
      s0 <- icf_map_values (h_s h) q ;;
      match s0 with None => Ok None | Some s =>
      t0 <- icf_map_values (h_t h) q ;;
      match t0 with None => Ok None | Some t =>
      w0 <- coequalizer_universal B eqO q (h_w h) ;;
      match w0 with None => Ok None | Some w =>
      Ok (Some (mkHG s t w (h_x h)))
      end end end.

    Definition ohg_compose (f g : ohg) : res (option ohg) :=
      tf <- ohg_target f ;;
      sg <- ohg_source g ;;
      if negb (list_eqb eqO tf sg) then Ok None else
      let q_lhs := ff_inject0 (o_t f) (length (h_w (o_h g))) in
      let q_rhs := ff_inject1 (o_s g) (length (h_w (o_h f))) in
      q0 <- ff_coequalizer B q_lhs q_rhs ;;
      q <- unwrap q0 ;;
      s0 <- ff_compose (ff_inject0 (o_s f) (length (h_w (o_h g)))) q ;; s <- unwrap s0 ;;
      t0 <- ff_compose (ff_inject1 (o_t g) (length (h_w (o_h f)))) q ;; t <- unwrap t0 ;;
      fg <- ohg_tensor f g ;;
      h0 <- hg_coequalize_vertices (o_h fg) q ;; h <- unwrap h0 ;;
      Ok (Some (mkOHG s t h)).
  End WithBackend.
End Types.

Arguments hg_empty {O A}.
