(* Segmented arrays: model of src/indexed_coproduct/{arrow,iterator,semifinite_iterator}.rs
   and src/operations.rs. *)
From OHG Require Export Model.FinFun.

Set Implicit Arguments.

Record ic (V : Type) := mkIC { ic_sources : ff; ic_values : V }.

(* what the generic impls need of the value type F (HasLen, `>>`, `+`) *)
Record VOps (V : Type) := {
  vlen : V -> nat;
  vpre : ff -> V -> res (option V);     (* &FiniteFunction >> &F *)
  vadd : V -> V -> option V;            (* &F + &F *)
}.

Definition ff_vops : VOps ff := {|
  vlen := ff_source;
  vpre := ff_compose;
  vadd := ff_coproduct;
|}.

Definition semi_vops (T : Type) : VOps (list T) := {|
  vlen := @length T;
  vpre := @ff_compose_semi T;
  vadd := fun a b => Some (a ++ b);
|}.

Section Generic.
  Variable V : Type.
  Variable O : VOps V.

  Definition ic_len (c : ic V) : nat := ff_source (ic_sources c).

  Definition ic_validate (c : ic V) : res (option (ic V)) :=
    sum <- asum (table (ic_sources c)) ;;
    if negb (target (ic_sources c) =? sum + 1) then Ok None
    else if negb (sum =? vlen O (ic_values c)) then Ok None
    else Ok (Some c).

  Definition ic_new (sources : ff) (values : V) : res (option (ic V)) :=
    ic_validate (mkIC sources values).

  Definition ic_from_semifinite (sources : list nat) (values : V) : res (option (ic V)) :=
    match ff_new sources (vlen O values + 1) with
    | None => Ok None
    | Some s => ic_validate (mkIC s values)
    end.

  Definition ic_singleton (values : V) : ic V :=
    mkIC (ff_constant 1 (vlen O values) 0) values.

  Definition ic_elements (values : V) : res (ic V) :=
    let n := vlen O values in
    s <- unwrap (ff_new (fill 1 n) (n + 1)) ;;
    r <- ic_new s values ;;
    unwrap r.

  Definition ic_flatmap_sources {W} (c : ic V) (d : ic W) : res (ic W) :=
    _ <- assert (vlen O (ic_values c) =? ff_source (ic_sources d)) ;;
    t <- segmented_sum (table (ic_sources c)) (table (ic_sources d)) ;;
    Ok (mkIC (mkFF t (target (ic_sources d))) (ic_values d)).

  Definition ic_coproduct (c d : ic V) : res (option (ic V)) :=
    let tb := table (ic_sources c) ++ table (ic_sources d) in
    tg <- sub_chk (target (ic_sources c) + target (ic_sources d)) 1 ;;
    Ok (option_map (fun v => mkIC (mkFF tb tg) v) (vadd O (ic_values c) (ic_values d))).

  Definition ic_indexed_values (c : ic V) (x : ff) : res (option V) :=
    inj <- ff_injections (ic_sources c) x ;;
    match inj with
    | None => Ok None
    | Some i => vpre O i (ic_values c)
    end.

  Definition ic_map_indexes (c : ic V) (x : ff) : res (option (ic V)) :=
    s <- ff_compose x (ic_sources c) ;;
    match s with
    | None => Ok None
    | Some sources =>
        v <- ic_indexed_values c x ;;
        match v with
        | None => Ok None
        | Some values => ic_from_semifinite (table sources) values
        end
    end.
End Generic.

(* ---- values are finite functions ---- *)
Definition icf := ic ff.

Definition icf_initial (tg : nat) : icf := mkIC (ff_initial 1) (ff_initial tg).

Definition icf_tensor (c d : icf) : res icf :=
  let tb := table (ic_sources c) ++ table (ic_sources d) in
  tg <- sub_chk (target (ic_sources c) + target (ic_sources d)) 1 ;;
  Ok (mkIC (mkFF tb tg) (ff_tensor (ic_values c) (ic_values d))).

Definition icf_map_values (c : icf) (x : ff) : res (option icf) :=
  v <- ff_compose (ic_values c) x ;;
  Ok (option_map (fun v' => mkIC (ic_sources c) v') v).

Definition icf_map_semifinite {T} (c : icf) (x : list T) : res (option (ic (list T))) :=
  v <- ff_compose_semi (ic_values c) x ;;
  Ok (option_map (fun v' => mkIC (ic_sources c) v') v).

Definition icf_flatmap (c d : icf) : res icf :=
  _ <- assert (target (ic_values c) =? ic_len d) ;;
  k0 <- ff_compose (ic_values c) (ic_sources d) ;;
  k <- unwrap k0 ;;
  st <- segmented_sum (table (ic_sources c)) (table k) ;;
  i0 <- ff_injections (ic_sources d) (ic_values c) ;;
  i <- unwrap i0 ;;
  v0 <- ff_compose i (ic_values d) ;;
  v <- unwrap v0 ;;
  r <- ic_from_semifinite ff_vops st v ;;
  unwrap r.

(* ---- iterators (IntoIterator for both value kinds; state machine) ---- *)
Record ic_iter (V : Type) := mkIter { it_pointers : list nat; it_values : V; it_index : nat }.

Definition ic_into_iter {V} (c : ic V) : ic_iter V :=
  mkIter (cumulative_sum (table (ic_sources c))) (ic_values c) 0.

(* next() for FiniteFunction values *)
Definition icf_iter_next (it : ic_iter ff) : res (option ff * ic_iter ff) :=
  n1 <- sub_chk (length (it_pointers it)) 1 ;;
  if n1 <=? it_index it then Ok (None, it)
  else
    s <- get (it_pointers it) (it_index it) ;;
    e <- get (it_pointers it) (it_index it + 1) ;;
    v <- get_range (table (it_values it)) (RFromTo s e) ;;
    Ok (Some (mkFF v (target (it_values it))),
        mkIter (it_pointers it) (it_values it) (it_index it + 1)).

(* next() for label-array values *)
Definition ics_iter_next {T} (it : ic_iter (list T)) : res (option (list T) * ic_iter (list T)) :=
  n1 <- sub_chk (length (it_pointers it)) 1 ;;
  if n1 <=? it_index it then Ok (None, it)
  else
    s <- get (it_pointers it) (it_index it) ;;
    e <- get (it_pointers it) (it_index it + 1) ;;
    v <- get_range (it_values it) (RFromTo s e) ;;
    Ok (Some v, mkIter (it_pointers it) (it_values it) (it_index it + 1)).

(* len() / size_hint(): number of slices still to come *)
Definition ic_iter_len {V} (it : ic_iter V) : res nat :=
  n1 <- sub_chk (length (it_pointers it)) 1 ;;
  sub_chk n1 (it_index it).

(* run an iterator to exhaustion, recording (item, len-after) — fuel = number of segments + 1 *)
Fixpoint icf_iter_run (fuel : nat) (it : ic_iter ff) : res (list (ff * nat)) :=
  match fuel with
  | 0 => Fuel
  | S fuel' =>
      '(o, it') <- icf_iter_next it ;;
      match o with
      | None => Ok []
      | Some x => l <- ic_iter_len it' ;; rest <- icf_iter_run fuel' it' ;; Ok ((x, l) :: rest)
      end
  end.

Fixpoint ics_iter_run {T} (fuel : nat) (it : ic_iter (list T)) : res (list (list T * nat)) :=
  match fuel with
  | 0 => Fuel
  | S fuel' =>
      '(o, it') <- ics_iter_next it ;;
      match o with
      | None => Ok []
      | Some x => l <- ic_iter_len it' ;; rest <- ics_iter_run fuel' it' ;; Ok ((x, l) :: rest)
      end
  end.

Definition icf_collect (c : icf) : res (list ff) :=
  r <- icf_iter_run (ic_len c + 1) (ic_into_iter c) ;; Ok (map fst r).
Definition ics_collect {T} (c : ic (list T)) : res (list (list T)) :=
  r <- ics_iter_run (ic_len c + 1) (ic_into_iter c) ;; Ok (map fst r).

(* IndexedCoproduct<VecKind, SemifiniteFunction<T>>::iter — borrowed slices *)
Definition ics_iter_slices {T} (c : ic (list T)) : res (list (list T)) :=
  let p := cumulative_sum (table (ic_sources c)) in
  n <- sub_chk (length p) 1 ;;
  mapM (fun i => s <- get p i ;; e <- get p (i + 1) ;; slice (ic_values c) s e) (seq 0 n).

(* ---- Operations (src/operations.rs) ---- *)
Record operations (O A : Type) := mkOps {
  ops_x : list A;
  ops_a : ic (list O);
  ops_b : ic (list O);
}.

Definition ops_validate {O A} (p : operations O A) : option (operations O A) :=
  let n := length (ops_x p) in
  if negb (n =? ic_len (ops_a p)) || negb (n =? ic_len (ops_b p)) then None else Some p.

Definition ops_new {O A} (x : list A) (a b : ic (list O)) : option (operations O A) :=
  ops_validate (mkOps x a b).

Definition ops_singleton {O A} (x : A) (a b : list O) : operations O A :=
  mkOps [x] (ic_singleton (semi_vops O) a) (ic_singleton (semi_vops O) b).

Definition ops_len {O A} (p : operations O A) : nat := length (ops_x p).

(* Operations<VecKind,..>::iter — zip of three iterators *)
Definition ops_iter {O A} (p : operations O A) : res (list (A * list O * list O)) :=
  a <- ics_iter_slices (ops_a p) ;;
  b <- ics_iter_slices (ops_b p) ;;
  Ok (combine (combine (ops_x p) a) b).
