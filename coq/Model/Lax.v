(* Lax (list-based, imperative) hypergraphs: model of src/lax/{hypergraph,open_hypergraph,
   category,mut_category}.rs.  `&mut self` methods return the new state; a panic is [Panic]. *)
From OHG Require Export Model.Functor.

Set Implicit Arguments.

Section Types.
  Variables O A : Type.

  Definition hyperedge := (list nat * list nat)%type.   (* sources, targets *)

  Record lhg := mkLHG {
    l_nodes : list O;
    l_edges : list A;
    l_adj : list hyperedge;
    l_q : list nat * list nat;        (* pending unifications *)
  }.

  Record lohg := mkLOHG { lo_sources : list nat; lo_targets : list nat; lo_h : lhg }.

  Definition lhg_empty : lhg := mkLHG [] [] [] ([], []).
  Definition lhg_is_strict (h : lhg) : bool := match fst (l_q h) with [] => true | _ => false end.
  Definition lhg_discrete (nodes : list O) : lhg := mkLHG nodes [] [] ([], []).

  Definition lhg_new_node (h : lhg) (w : O) : lhg * nat :=
    (mkLHG (l_nodes h ++ [w]) (l_edges h) (l_adj h) (l_q h), length (l_nodes h)).

  Definition lhg_new_edge (h : lhg) (x : A) (e : hyperedge) : lhg * nat :=
    (mkLHG (l_nodes h) (l_edges h ++ [x]) (l_adj h ++ [e]) (l_q h), length (l_edges h)).

  Fixpoint lhg_new_nodes (h : lhg) (ws : list O) : lhg * list nat :=
    match ws with
    | [] => (h, [])
    | w :: ws' => let '(h1, i) := lhg_new_node h w in
                  let '(h2, is) := lhg_new_nodes h1 ws' in (h2, i :: is)
    end.

  Definition lhg_new_operation (h : lhg) (x : A) (st tt : list O) : lhg * (nat * (list nat * list nat)) :=
    let '(h1, s) := lhg_new_nodes h st in
    let '(h2, t) := lhg_new_nodes h1 tt in
    let '(h3, e) := lhg_new_edge h2 x (s, t) in
    (h3, (e, (s, t))).

  Definition lhg_unify (h : lhg) (v w : nat) : lhg :=
    mkLHG (l_nodes h) (l_edges h) (l_adj h) (fst (l_q h) ++ [v], snd (l_q h) ++ [w]).

  Definition upd_adj (adj : list hyperedge) (e : nat) (f : hyperedge -> hyperedge) : res (list hyperedge) :=
    x <- get adj e ;; assign adj e (f x).

  Definition lhg_add_edge_source (h : lhg) (e : nat) (w : O) : res (lhg * nat) :=
    let '(h1, n) := lhg_new_node h w in
    adj <- upd_adj (l_adj h1) e (fun x => (fst x ++ [n], snd x)) ;;
    Ok (mkLHG (l_nodes h1) (l_edges h1) adj (l_q h1), n).

  Definition lhg_add_edge_target (h : lhg) (e : nat) (w : O) : res (lhg * nat) :=
    let '(h1, n) := lhg_new_node h w in
    adj <- upd_adj (l_adj h1) e (fun x => (fst x, snd x ++ [n])) ;;
    Ok (mkLHG (l_nodes h1) (l_edges h1) adj (l_q h1), n).

  (* keep the entries of l whose index is not flagged *)
  Fixpoint filter_flags {X} (flags : list bool) (l : list X) : list X :=
    match flags, l with
    | r :: flags', x :: l' => if r then filter_flags flags' l' else x :: filter_flags flags' l'
    | _, _ => []
    end.

  (* the `remove` bit-vector loop: asserts every id in range *)
  Definition mark_removed (n : nat) (ids : list nat) : res (list bool) :=
    foldM (fun acc i => _ <- assert (i <? n) ;; assign acc i true) ids (repeat false n).

  Definition lhg_delete_edges (h : lhg) (ids : list nat) : res lhg :=
    let n := length (l_edges h) in
    _ <- assert (n =? length (l_adj h)) ;;
    match ids with
    | [] => Ok h
    | _ =>
        remove <- mark_removed n ids ;;
        (* zip(edges.drain(..), adjacency.drain(..)).enumerate() *)
        Ok (mkLHG (l_nodes h) (filter_flags remove (l_edges h)) (filter_flags remove (l_adj h)) (l_q h))
    end.

  (* new_index: None for removed nodes, Some(rank among survivors) otherwise *)
  Fixpoint new_index_from (next : nat) (flags : list bool) : list (option nat) :=
    match flags with
    | [] => []
    | true :: fl => None :: new_index_from next fl
    | false :: fl => Some next :: new_index_from (S next) fl
    end.

  (* filter_map(|node| new_index[node.0].map(NodeId)) — indexing panics when out of range *)
  Definition remap (ni : list (option nat)) (l : list nat) : res (list nat) :=
    r <- mapM (get ni) l ;;
    Ok (flat_map (fun o => match o with Some x => [x] | None => [] end) r).

  Definition lhg_delete_nodes_witness (h : lhg) (ids : list nat) : res (lhg * list (option nat)) :=
    match ids with
    | [] => Ok (h, map Some (seq 0 (length (l_nodes h))))
    | _ =>
        let n := length (l_nodes h) in
        remove <- mark_removed n ids ;;
        let ni := new_index_from 0 remove in
        adj <- mapM (fun e => s <- remap ni (fst e) ;; t <- remap ni (snd e) ;; Ok (s, t)) (l_adj h) ;;
        (* quotient pairs survive iff both ends survive; zip truncates *)
        qp <- mapM (fun p => a <- get ni (fst p) ;; b <- get ni (snd p) ;; Ok (a, b))
                   (combine (fst (l_q h)) (snd (l_q h))) ;;
        let kept := flat_map (fun p => match p with (Some a, Some b) => [(a, b)] | _ => [] end) qp in
        Ok (mkLHG (filter_flags remove (l_nodes h)) (l_edges h) adj (map fst kept, map snd kept), ni)
    end.

  Definition lhg_delete_nodes (h : lhg) (ids : list nat) : res lhg :=
    r <- lhg_delete_nodes_witness h ids ;; Ok (fst r).

  (* with_nodes / with_edges: the closure is modelled by its result *)
  Definition lhg_with_nodes {O'} (h : lhg) (nodes : list O') : option (list O') :=
    if length nodes =? length (l_nodes h) then Some nodes else None.

  Section WithBackend.
    Variable B : Backend.
    Variable eqO : O -> O -> bool.

    Definition lhg_coequalizer (h : lhg) : res ff :=
      let s := mkFF (fst (l_q h)) (length (l_nodes h)) in
      let t := mkFF (snd (l_q h)) (length (l_nodes h)) in
      r <- ff_coequalizer B s t ;; unwrap r.

    Definition map_q (q : ff) (l : list nat) : res (list nat) := mapM (get (table q)) l.

    (* Ok (h', inl q) = Ok(q); Ok (h', inr q) = Err(q) *)
    Definition lhg_quotient (h : lhg) : res (lhg * (ff + ff)) :=
      q <- lhg_coequalizer h ;;
      u <- coequalizer_universal B eqO q (l_nodes h) ;;
      match u with
      | None => Ok (h, inr q)
      | Some nodes =>
          adj <- mapM (fun e => s <- map_q q (fst e) ;; t <- map_q q (snd e) ;; Ok (s, t)) (l_adj h) ;;
          Ok (mkLHG nodes (l_edges h) adj ([], []), inl q)
      end.

    Definition lohg_quotient (f : lohg) : res (lohg * (ff + ff)) :=
      '(h, r) <- lhg_quotient (lo_h f) ;;
      match r with
      | inr q => Ok (mkLOHG (lo_sources f) (lo_targets f) h, inr q)
      | inl q =>
          s <- map_q q (lo_sources f) ;;
          t <- map_q q (lo_targets f) ;;
          Ok (mkLOHG s t h, inl q)
      end.
  End WithBackend.

  (* make_hypergraph *)
  Definition lhg_to_hypergraph (h : lhg) : res (hg O A) :=
    let mk (proj : hyperedge -> list nat) :=
      let lengths := map (fun e => length (proj e)) (l_adj h) in
      let values := flat_map proj (l_adj h) in
      v <- unwrap (ff_new values (length (l_nodes h))) ;;
      r <- ic_from_semifinite ff_vops lengths v ;; unwrap r in
    s <- mk fst ;;
    t <- mk snd ;;
    Ok (mkHG s t (l_nodes h) (l_edges h)).

  Definition lhg_from_strict (h : hg O A) : res lhg :=
    ss <- icf_collect (h_s h) ;;
    ts <- icf_collect (h_t h) ;;
    Ok (mkLHG (h_w h) (h_x h) (map (fun p => (table (fst p), table (snd p))) (combine ss ts)) ([], [])).

  Definition shift (n : nat) (l : list nat) : list nat := map (fun x => x + n) l.

  Definition lhg_coproduct (g h : lhg) : lhg :=
    let n := length (l_nodes g) in
    mkLHG (l_nodes g ++ l_nodes h) (l_edges g ++ l_edges h)
          (l_adj g ++ map (fun e => (shift n (fst e), shift n (snd e))) (l_adj h))
          (fst (l_q g) ++ shift n (fst (l_q h)), snd (l_q g) ++ shift n (snd (l_q h))).

  (* ---- open ---- *)
  Definition lohg_empty : lohg := mkLOHG [] [] lhg_empty.

  Definition lohg_from_strict (f : ohg O A) : res lohg :=
    h <- lhg_from_strict (o_h f) ;; Ok (mkLOHG (table (o_s f)) (table (o_t f)) h).

  Definition lohg_singleton (x : A) (st tt : list O) : lohg :=
    let '(h, (_, (s, t))) := lhg_new_operation lhg_empty x st tt in mkLOHG s t h.

  Definition lohg_delete_nodes (f : lohg) (ids : list nat) : res lohg :=
    '(h, ni) <- lhg_delete_nodes_witness (lo_h f) ids ;;
    s <- remap ni (lo_sources f) ;;
    t <- remap ni (lo_targets f) ;;
    Ok (mkLOHG s t h).

  Definition lohg_identity (a : list O) : lohg :=
    mkLOHG (seq 0 (length a)) (seq 0 (length a)) (lhg_discrete a).

  Definition lohg_spider (s t : ff) (w : list O) : option lohg :=
    if negb (target s =? target t) || negb (target s =? length w) then None
    else Some (mkLOHG (table s) (table t) (lhg_discrete w)).

  Definition lohg_tensor (f g : lohg) : lohg :=
    let n := length (l_nodes (lo_h f)) in
    mkLOHG (lo_sources f ++ shift n (lo_sources g)) (lo_targets f ++ shift n (lo_targets g))
           (lhg_coproduct (lo_h f) (lo_h g)).

  Definition lohg_source (f : lohg) : res (list O) := mapM (get (l_nodes (lo_h f))) (lo_sources f).
  Definition lohg_target (f : lohg) : res (list O) := mapM (get (l_nodes (lo_h f))) (lo_targets f).

  Definition lohg_lax_compose (f g : lohg) : option lohg :=
    if negb (length (lo_targets f) =? length (lo_sources g)) then None else
    let n := length (l_nodes (lo_h f)) in
    let fg := lohg_tensor f g in
    let h := fold_left (fun h p => lhg_unify h (fst p) (snd p + n))
                       (combine (lo_targets f) (lo_sources g)) (lo_h fg) in
    Some (mkLOHG (firstn (length (lo_sources f)) (lo_sources fg))
                 (skipn (length (lo_targets f)) (lo_targets fg)) h).

  Definition lohg_dagger (f : lohg) : lohg := mkLOHG (lo_targets f) (lo_sources f) (lo_h f).

  (* mut_category.rs *)
  Definition lhg_coproduct_assign (g h : lhg) : lhg := lhg_coproduct g h.
  Definition lohg_append (f g : lohg) : lohg * (list nat * list nat) :=
    let n := length (l_nodes (lo_h f)) in
    (mkLOHG (lo_sources f) (lo_targets f) (lhg_coproduct_assign (lo_h f) (lo_h g)),
     (shift n (lo_sources g), shift n (lo_targets g))).
  Definition lohg_tensor_assign (f g : lohg) : lohg :=
    let '(f', (s, t)) := lohg_append f g in
    mkLOHG (lo_sources f' ++ s) (lo_targets f' ++ t) (lo_h f').

  Section WithBackend2.
    Variable B : Backend.
    Variable eqO : O -> O -> bool.

    Definition lohg_compose (f g : lohg) : res (option lohg) :=
      tf <- lohg_target f ;;
      sg <- lohg_source g ;;
      if negb (list_eqb eqO tf sg) then Ok None else Ok (lohg_lax_compose f g).

    Definition lohg_to_strict (f : lohg) : res (ohg O A) :=
      '(f', r) <- lohg_quotient B eqO f ;;
      match r with
      | inr _ => Panic                     (* self.quotient().unwrap() *)
      | inl _ =>
          let tg := length (l_nodes (lo_h f')) in
          s <- unwrap (ff_new (lo_sources f') tg) ;;
          t <- unwrap (ff_new (lo_targets f') tg) ;;
          h <- lhg_to_hypergraph (lo_h f') ;;
          match ohg_new s t h with inl r => Ok r | inr _ => Panic end
      end.

    Definition lohg_twist (a b : list O) : res lohg :=
      f <- ohg_twist A a b ;; lohg_from_strict f.
  End WithBackend2.
End Types.

Arguments lhg_empty {O A}.
Arguments lohg_empty {O A}.
