(* Lax functors (native path + witness), DynFunctor bridge, lax optics, Var builder and Forget:
   model of src/lax/functor/{traits,dyn_functor}.rs, src/lax/optic.rs, src/lax/var/*.rs. *)
From OHG Require Export Model.Lax.

Set Implicit Arguments.

Section LaxFunctor.
  Variables O1 A1 O2 A2 : Type.

  Record lfunctor := mkLF {
    lf_map_object : O1 -> list O2;
    lf_map_operation : A1 -> list O1 -> list O1 -> lohg O2 A2;
  }.

  Variable F : lfunctor.

  Definition l_map_objects (f : lohg O1 A1) : list (list O2) :=
    map (lf_map_object F) (l_nodes (lo_h f)).

  (* for (i, a) in edges.iter().enumerate() { adjacency[i] ... nodes[nid.0] ... tensor_assign } *)
  Definition l_map_operations (f : lohg O1 A1) : res (lohg O2 A2) :=
    let h := lo_h f in
    foldM (fun acc p =>
             let '(i, a) := p in
             e <- get (l_adj h) i ;;
             s <- mapM (get (l_nodes h)) (fst e) ;;
             t <- mapM (get (l_nodes h)) (snd e) ;;
             Ok (lohg_tensor_assign acc (lf_map_operation F a s t)))
          (combine (seq 0 (length (l_edges h))) (l_edges h)) lohg_empty.

  Definition l_map_half_spider (fw : list (list O2)) (ids : list nat) : res (option ff) :=
    let sizes := map (@length O2) fw in
    let total := fold_right Nat.add 0 sizes in
    match ff_new sizes (total + 1) with None => Ok None | Some fw_sizes =>
    match ff_new ids (length fw) with None => Ok None | Some f =>
    ff_injections fw_sizes f end end.

  Definition l_spider_map_arrow (f : lohg O1 A1) (fw : list (list O2)) (fx : lohg O2 A2)
    : res (option (lohg O2 A2)) :=
    let fw_flat := concat fw in
    let fw_total := length fw_flat in
    fs0 <- l_map_half_spider fw (lo_sources f) ;;
    match fs0 with None => Ok None | Some fs =>
    ft0 <- l_map_half_spider fw (lo_targets f) ;;
    match ft0 with None => Ok None | Some ft =>
    let all_s := flat_map fst (l_adj (lo_h f)) in
    let all_t := flat_map snd (l_adj (lo_h f)) in
    es0 <- l_map_half_spider fw all_s ;;
    match es0 with None => Ok None | Some e_s =>
    et0 <- l_map_half_spider fw all_t ;;
    match et0 with None => Ok None | Some e_t =>
    id_fn <- ff_identity fw_total ;;
    let i := lohg_identity A2 fw_flat in
    match ff_coproduct id_fn e_s with None => Ok None | Some sxt =>
    match lohg_spider A2 fs sxt fw_flat with None => Ok None | Some sx =>
    match ff_coproduct id_fn e_t with None => Ok None | Some yts =>
    match lohg_spider A2 yts ft fw_flat with None => Ok None | Some yt =>
    match lohg_lax_compose sx (lohg_tensor i fx) with None => Ok None | Some c =>
    Ok (lohg_lax_compose c yt)
    end end end end end end end end end.

  Definition l_try_define_map_arrow (f : lohg O1 A1) : res (option (lohg O2 A2)) :=
    if negb (lhg_is_strict (lo_h f)) then Ok None else
    fx <- l_map_operations f ;;
    l_spider_map_arrow f (l_map_objects f) fx.

  Definition l_map_arrow_witness (f : lohg O1 A1) : res (option (lohg O2 A2 * icf)) :=
    if negb (lhg_is_strict (lo_h f)) then Ok None else
    fx <- l_map_operations f ;;
    let fw := l_map_objects f in
    r <- l_spider_map_arrow f fw fx ;;
    match r with None => Ok None | Some result =>
    let sizes := map (@length O2) fw in
    let n := fold_right Nat.add 0 sizes in
    let total := length (l_nodes (lo_h result)) in
    match ff_new (seq n (2 * n - n)) total with None => Ok None | Some wv =>
    match ff_new sizes (n + 1) with None => Ok None | Some fw_sizes =>
    w <- ic_new ff_vops fw_sizes wv ;;
    Ok (option_map (fun w' => (result, w')) w)
    end end end.

  (* ---- DynFunctor: the strict functor induced by a lax functor (VecKind only) ---- *)
  Variable B : Backend.
  Variable eqO1 : O1 -> O1 -> bool.
  Variable eqO2 : O2 -> O2 -> bool.

  Definition dyn_map_object (a : list O1) : res (ic (list O2)) :=
    let imgs := map (lf_map_object F) a in
    r <- ic_from_semifinite (semi_vops O2) (map (@length O2) imgs) (concat imgs) ;; unwrap r.

  Definition dyn_map_operations (ops : operations O1 A1) : res (ohg O2 A2) :=
    srcs <- ics_collect (ops_a ops) ;;
    tgts <- ics_collect (ops_b ops) ;;
    let acc := fold_left (fun acc p => let '(x, (s, t)) := p in
                            lohg_tensor_assign acc (lf_map_operation F x s t))
                         (combine (ops_x ops) (combine srcs tgts)) lohg_empty in
    lohg_to_strict B eqO2 acc.

  Definition dyn_functor : sfunctor O1 A1 O2 A2 := mkSF dyn_map_object dyn_map_operations.

  (* lax::functor::dyn_functor::define_map_arrow *)
  Definition dyn_define_map_arrow (f : lohg O1 A1) : res (lohg O2 A2) :=
    sf <- lohg_to_strict B eqO1 f ;;
    g <- define_map_arrow B eqO2 dyn_functor sf ;;
    lohg_from_strict g.
End LaxFunctor.

(* lax Identity functor *)
Definition l_identity_functor (O A : Type) : lfunctor O A O A :=
  mkLF (fun o => [o]) (fun a s t => lohg_singleton a s t).

(* ---- lax optics (src/lax/optic.rs) ---- *)
Section LaxOptic.
  Variables O1 A1 O2 A2 : Type.
  Variable B : Backend.
  Variable eqO1 : O1 -> O1 -> bool.
  Variable eqO2 : O2 -> O2 -> bool.

  Record loptic := mkLOptic {
    lop_fwd_object : O1 -> list O2;
    lop_fwd_operation : A1 -> list O1 -> list O1 -> lohg O2 A2;
    lop_rev_object : O1 -> list O2;
    lop_rev_operation : A1 -> list O1 -> list O1 -> lohg O2 A2;
    lop_residual : A1 -> list O2;
  }.

  Definition to_strict_optic (P : loptic) : optic O1 A1 O2 A2 :=
    mkOptic
      (dyn_functor (mkLF (lop_fwd_object P) (lop_fwd_operation P)) B eqO2)
      (dyn_functor (mkLF (lop_rev_object P) (lop_rev_operation P)) B eqO2)
      (fun ops =>
         it <- ops_iter ops ;;   (* for (op, _, _) in ops.iter() *)
         let ms := map (fun p => lop_residual P (fst (fst p))) it in
         r <- ic_from_semifinite (semi_vops O2) (map (@length O2) ms) (concat ms) ;; unwrap r).

  Definition loptic_map_arrow (P : loptic) (term : lohg O1 A1) : res (lohg O2 A2) :=
    s <- lohg_to_strict B eqO1 term ;;
    g <- optic_map_arrow B eqO2 (to_strict_optic P) s ;;
    lohg_from_strict g.

  Definition loptic_map_adapted (P : loptic) (term : lohg O1 A1) : res (lohg O2 A2) :=
    s <- lohg_to_strict B eqO1 term ;;
    g <- optic_map_arrow B eqO2 (to_strict_optic P) s ;;
    a <- ohg_source s ;; b <- ohg_target s ;;
    d <- optic_adapt B eqO2 (to_strict_optic P) g a b ;;
    lohg_from_strict d.
End LaxOptic.

(* ---- Var builder and Forget (src/lax/var) ---- *)
Section Var.
  Variables O A : Type.
  Variable var_label : A.          (* HasVar::var() *)

  Definition var := (nat * O)%type.   (* edge_id, label *)

  Definition var_new (st : lohg O A) (l : O) : lohg O A * var :=
    let '(h, (e, _)) := lhg_new_operation (lo_h st) var_label [] [] in
    (mkLOHG (lo_sources st) (lo_targets st) h, (e, l)).

  Definition var_new_source (st : lohg O A) (v : var) : res (lohg O A * nat) :=
    '(h, n) <- lhg_add_edge_source (lo_h st) (fst v) (snd v) ;;
    Ok (mkLOHG (lo_sources st) (lo_targets st) h, n).

  Definition var_new_target (st : lohg O A) (v : var) : res (lohg O A * nat) :=
    '(h, n) <- lhg_add_edge_target (lo_h st) (fst v) (snd v) ;;
    Ok (mkLOHG (lo_sources st) (lo_targets st) h, n).

  Fixpoint thread {X Y} (f : lohg O A -> X -> res (lohg O A * Y)) (st : lohg O A) (l : list X)
    : res (lohg O A * list Y) :=
    match l with
    | [] => Ok (st, [])
    | x :: l' => '(st1, y) <- f st x ;; '(st2, ys) <- thread f st1 l' ;; Ok (st2, y :: ys)
    end.

  (* operators::operation *)
  Definition var_operation (st : lohg O A) (vars : list var) (result_types : list O) (op : A)
    : res (lohg O A * list var) :=
    '(st1, nodes) <- thread var_new_target st vars ;;
    '(st2, rvars) <- thread (fun s t => Ok (var_new s t)) st1 result_types ;;
    '(st3, rnodes) <- thread var_new_source st2 rvars ;;
    let '(h, _) := lhg_new_edge (lo_h st3) op (nodes, rnodes) in
    Ok (mkLOHG (lo_sources st3) (lo_targets st3) h, rvars).

  (* an expression program over variable handles (numbered in creation order) *)
  Inductive vcmd :=
  | CNew (l : O)
  | CApply (op : A) (args : list nat) (result_types : list O).

  Definition run_cmd (sv : lohg O A * list var) (c : vcmd) : res (lohg O A * list var) :=
    let '(st, vs) := sv in
    match c with
    | CNew l => let '(st', v) := var_new st l in Ok (st', vs ++ [v])
    | CApply op args rts =>
        avs <- mapM (get vs) args ;;
        '(st', rv) <- var_operation st avs rts op ;;
        Ok (st', vs ++ rv)
    end.

  (* var::build: run the closure, then wire the declared inputs/outputs.
     [leaked] abstracts "a Var handle outlives the closure" (Rc strong count > 1). *)
  Definition var_build (prog : list vcmd) (ins outs : list nat) (leaked : bool)
    : res (option (lohg O A)) :=
    '(st, vs) <- foldM run_cmd prog (lohg_empty, []) ;;
    ivs <- mapM (get vs) ins ;;
    ovs <- mapM (get vs) outs ;;
    '(st1, s) <- thread var_new_source st ivs ;;
    let st1' := mkLOHG s (lo_targets st1) (lo_h st1) in
    '(st2, t) <- thread var_new_target st1' ovs ;;
    let st2' := mkLOHG (lo_sources st2) t (lo_h st2) in
    Ok (if leaked then None else Some st2').

  (* ---- forget ---- *)
  Variable eqO : O -> O -> bool.
  Variable eqA : A -> A -> bool.

  Definition all_elements_equal (a b : list O) : bool :=
    match a ++ b with
    | [] => true
    | x :: rest => forallb (fun y => eqO y x) rest
    end.

  (* the spider a uniform var hyperedge is replaced by.  `spider(..).unwrap()` cannot fail here:
     both legs are terminal maps into the one-element node list (lemma forget_spider_some). *)
  Definition forget_spider (s t : list O) : lohg O A :=
    match s ++ t with
    | [] => lohg_empty
    | label :: _ =>        (* source[0] if there is one, else target[0] *)
        match lohg_spider A (ff_terminal (length s)) (ff_terminal (length t)) [label] with
        | Some f => f
        | None => lohg_empty
        end
    end.

  Definition forget_map_operation (a : A) (s t : list O) : lohg O A :=
    if eqA a var_label && all_elements_equal s t then forget_spider s t
    else lohg_singleton a s t.

  Definition forget_mono_map_operation (a : A) (s t : list O) : lohg O A :=
    if negb (length s =? 1) || negb (length t =? 1) then lohg_singleton a s t
    else forget_map_operation a s t.

  Definition forget_functor : lfunctor O A O A := mkLF (fun o => [o]) forget_map_operation.
  Definition forget_mono_functor : lfunctor O A O A := mkLF (fun o => [o]) forget_mono_map_operation.

  Variable B : Backend.
  Definition forget (f : lohg O A) : res (lohg O A) := dyn_define_map_arrow forget_functor B eqO eqO f.
  Definition forget_monogamous (f : lohg O A) : res (lohg O A) :=
    dyn_define_map_arrow forget_mono_functor B eqO eqO f.
End Var.
