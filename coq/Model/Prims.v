(* Array primitives: model of src/array/traits.rs (default methods) and
   src/array/vec/vec_array.rs.  Arrays are lists, usize is nat (unbounded),
   every Rust panic is the value [Panic]. *)
From OHG Require Export Base.Res.

Set Implicit Arguments.

Section Generic.
  Variable T : Type.

  (* Array::get — self[i].clone() *)
  Definition get (xs : list T) (i : nat) : res T := unwrap (nth_error xs i).

  (* Array::gather — idx.iter().map(|i| self[*i].clone()) *)
  Definition gather (xs : list T) (idx : list nat) : res (list T) := mapM (get xs) idx.

  Definition concatenate (xs ys : list T) : list T := xs ++ ys.

  Definition fill (x : T) (n : nat) : list T := repeat x n.

  (* slice indexing self[a..b]: panics when a > b or b > len *)
  Definition slice (xs : list T) (a b : nat) : res (list T) :=
    if (a <=? b) && (b <=? length xs) then Ok (firstn (b - a) (skipn a xs)) else Panic.

  (* write y at position i (no-op when out of range; callers check) *)
  Fixpoint set_nth (xs : list T) (i : nat) (y : T) : list T :=
    match xs, i with
    | [], _ => []
    | _ :: xs', 0 => y :: xs'
    | x :: xs', S i' => x :: set_nth xs' i' y
    end.

  (* self[i] = y, panicking when out of bounds *)
  Definition assign (xs : list T) (i : nat) (y : T) : res (list T) :=
    if i <? length xs then Ok (set_nth xs i y) else Panic.

  (* Array::scatter_assign — for (i, x) in ixs.iter().zip(values.iter()) { self[*i] = x } *)
  Definition scatter_assign (xs : list T) (ixs : list nat) (values : list T) : res (list T) :=
    foldM (fun acc p => assign acc (fst p) (snd p)) (combine ixs values) xs.

  (* Array::scatter_assign_constant *)
  Definition scatter_assign_constant (xs : list T) (ixs : list nat) (c : T) : res (list T) :=
    foldM (fun acc i => assign acc i c) ixs xs.

  (* set_range: self[r].clone_from_slice(v) panics on a length mismatch *)
  Definition set_range (xs : list T) (a b : nat) (v : list T) : res (list T) :=
    _ <- slice xs a b ;;
    _ <- assert (length v =? b - a) ;;
    Ok (firstn a xs ++ v ++ skipn b xs).

  (* VecArray::scatter: filler is self[0], later writes win; idx[i] is read for every i < len(self) *)
  Definition vec_scatter (xs : list T) (idx : list nat) (n : nat) : res (list T) :=
    match xs with
    | [] => _ <- assert (match idx with [] => true | _ => false end) ;; Ok []
    | x0 :: _ =>
        _ <- assert (length xs <=? length idx) ;;
        foldM (fun acc p => assign acc (fst p) (snd p)) (combine idx xs) (repeat x0 n)
    end.
End Generic.

Fixpoint list_eqb {T} (eqb : T -> T -> bool) (a b : list T) : bool :=
  match a, b with
  | [], [] => true
  | x :: a', y :: b' => eqb x y && list_eqb eqb a' b'
  | _, _ => false
  end.

(* ---- range forms (Array::to_range).  The five RangeBounds forms used by the API. ---- *)
Inductive range :=
| RFull                    (* ..      *)
| RFrom (a : nat)          (* a..     *)
| RTo (b : nat)            (* ..b     *)
| RFromTo (a b : nat)      (* a..b    *)
| RToIncl (b : nat)        (* ..=b    *)
| RFromToIncl (a b : nat). (* a..=b   *)

Definition to_range (len : nat) (r : range) : nat * nat :=
  match r with
  | RFull => (0, len)
  | RFrom a => (a, len)
  | RTo b => (0, b)
  | RFromTo a b => (a, b)
  | RToIncl b => (0, b + 1)
  | RFromToIncl a b => (a, b + 1)
  end.

Definition get_range {T} (xs : list T) (r : range) : res (list T) :=
  let '(a, b) := to_range (length xs) r in slice xs a b.

Definition set_range_r {T} (xs : list T) (r : range) (v : list T) : res (list T) :=
  let '(a, b) := to_range (length xs) r in set_range xs a b v.

(* ---- natural arrays ---- *)

Definition amax (xs : list nat) : option nat :=
  match xs with
  | [] => None
  | x :: xs' => Some (fold_left Nat.max xs' x)
  end.

(* inclusive-and-exclusive cumulative sum: length n+1 *)
Fixpoint cumsum_from (a : nat) (xs : list nat) : list nat :=
  match xs with
  | [] => [a]
  | x :: xs' => a :: cumsum_from (a + x) xs'
  end.
Definition cumulative_sum (xs : list nat) : list nat := cumsum_from 0 xs.

(* NaturalArray::sum default method *)
Definition asum (xs : list nat) : res nat :=
  if length xs =? 0 then Ok 0 else get (cumulative_sum xs) (length xs).

(* arange(start, stop): assert!(stop >= start) *)
Definition arange (start stop : nat) : res (list nat) :=
  _ <- assert (start <=? stop) ;; Ok (seq start (stop - start)).

(* repeat: assert_eq!(self.len(), x.len()) *)
Definition arepeat (ks xs : list nat) : res (list nat) :=
  _ <- assert (length ks =? length xs) ;;
  Ok (flat_map (fun p => repeat (snd p) (fst p)) (combine ks xs)).

Definition quot_rem (xs : list nat) (d : nat) : res (list nat * list nat) :=
  _ <- assert (negb (d =? 0)) ;;
  Ok (map (fun x => x / d) xs, map (fun x => x mod d) xs).

Definition mul_constant_add (xs : list nat) (c : nat) (ys : list nat) : res (list nat) :=
  _ <- assert (length xs =? length ys) ;;
  Ok (map (fun p => fst p * c + snd p) (combine xs ys)).

(* elementwise +, - : assert_eq! lengths; `-` is checked (debug semantics) *)
Definition aadd (xs ys : list nat) : res (list nat) :=
  _ <- assert (length xs =? length ys) ;;
  Ok (map (fun p => fst p + snd p) (combine xs ys)).

Definition asub (xs ys : list nat) : res (list nat) :=
  _ <- assert (length xs =? length ys) ;;
  mapM (fun p => sub_chk (fst p) (snd p)) (combine xs ys).

(* scalar + array *)
Definition add_scalar (a : nat) (xs : list nat) : list nat := map (fun x => x + a) xs.

(* bincount: counts[idx] += 1 *)
Definition bincount (xs : list nat) (size : nat) : res (list nat) :=
  foldM (fun acc i => c <- get acc i ;; assign acc i (c + 1)) xs (repeat 0 size).

(* zero(): indices of zero entries *)
Fixpoint zero_from (i : nat) (xs : list nat) : list nat :=
  match xs with
  | [] => []
  | x :: xs' => if x =? 0 then i :: zero_from (S i) xs' else zero_from (S i) xs'
  end.
Definition azero (xs : list nat) : list nat := zero_from 0 xs.

(* scatter_sub_assign: for i in 0..ixs.len() { self[ixs[i]] -= rhs[i] } *)
Fixpoint scatter_sub_assign (xs ixs rhs : list nat) : res (list nat) :=
  match ixs with
  | [] => Ok xs
  | i :: ixs' =>
      match rhs with
      | [] => Panic
      | r :: rhs' =>
          c <- get xs i ;;
          d <- sub_chk c r ;;
          xs' <- assign xs i d ;;
          scatter_sub_assign xs' ixs' rhs'
      end
  end.

(* segmented_sum default method *)
Definition segmented_sum (sizes xs : list nat) : res (list nat) :=
  let ptr := cumulative_sum sizes in
  let sum := cumulative_sum xs in
  let n := length ptr in
  hi_ix <- get_range ptr (RFrom 1) ;;
  hi <- gather sum hi_ix ;;
  n1 <- sub_chk n 1 ;;
  lo_ix <- get_range ptr (RTo n1) ;;
  lo <- gather sum lo_ix ;;
  asub hi lo.

(* segmented_arange default method *)
Definition segmented_arange (sizes : list nat) : res (list nat) :=
  let p := cumulative_sum sizes in
  last_idx <- sub_chk (length p) 1 ;;
  sum <- get p last_idx ;;
  pr <- get_range p (RTo last_idx) ;;
  r <- arepeat sizes pr ;;
  i <- arange 0 sum ;;
  asub i r.

(* ---- sorting: VecArray::argsort is sort_by_key on indices, i.e. THE stable sort ---- *)
(* indices are inserted from last to first, each before the first strictly larger key
   — so equal keys keep increasing index order *)
Definition vec_argsort (xs : list nat) : list nat :=
  fold_right (fun i acc =>
    (* insert i in front of everything with key >= key i, i.e. i precedes equal keys *)
    (fix ins (l : list nat) : list nat :=
       match l with
       | [] => [i]
       | j :: l' => if nth i xs 0 <=? nth j xs 0 then i :: l else j :: ins l'
       end) acc) [] (seq 0 (length xs)).

(* ---- sparse_bincount of VecKind: sorted unique values with their counts ---- *)
Fixpoint insert_sorted (x : nat) (l : list nat) : list nat :=
  match l with
  | [] => [x]
  | y :: l' => if x <? y then x :: l else if x =? y then l else y :: insert_sorted x l'
  end.
Definition sort_dedup (xs : list nat) : list nat := fold_right insert_sorted [] xs.

Definition vec_sparse_bincount (xs : list nat) : list nat * list nat :=
  let u := sort_dedup xs in (u, map (fun v => count_occ Nat.eq_dec xs v) u).

(* ---- connected components of VecKind.
   Modelling note (DESIGN §7 C07): relabel-merge followed by [to_dense]; the Rust code is
   union-find with path compression followed by the same [to_dense].  Because [to_dense]
   numbers classes by first occurrence, the output is a function of the partition alone. ---- *)
Definition relabel (a b : nat) (ls : list nat) : list nat :=
  map (fun l => if l =? a then b else l) ls.

Definition merge_step (ls : list nat) (e : nat * nat) : list nat :=
  relabel (nth (fst e) ls 0) (nth (snd e) ls 0) ls.

Fixpoint index_of (x : nat) (l : list nat) : option nat :=
  match l with
  | [] => None
  | y :: l' => if x =? y then Some 0 else option_map S (index_of x l')
  end.

(* to_dense: first-occurrence numbering; [seen] lists representatives in order of appearance *)
Fixpoint to_dense_from (seen : list nat) (sparse : list nat) : list nat * nat :=
  match sparse with
  | [] => ([], length seen)
  | a :: rest =>
      match index_of a seen with
      | Some c => let '(d, k) := to_dense_from seen rest in (c :: d, k)
      | None => let '(d, k) := to_dense_from (seen ++ [a]) rest in (length seen :: d, k)
      end
  end.
Definition to_dense (sparse : list nat) : list nat * nat := to_dense_from [] sparse.

Definition cc_pure (s t : list nat) (n : nat) : list nat * nat :=
  to_dense (fold_left merge_step (combine s t) (seq 0 n)).

(* ---- the back-end record: the operations whose contract leaves a choice open ---- *)
Record Backend := {
  b_argsort : list nat -> list nat;
  b_conn_comp : list nat -> list nat -> nat -> list nat * nat;
  b_sparse_bincount : list nat -> list nat * list nat;
  b_scatter : forall T : Type, list T -> list nat -> nat -> res (list T);
}.

Definition VecBackend : Backend := {|
  b_argsort := vec_argsort;
  b_conn_comp := cc_pure;
  b_sparse_bincount := vec_sparse_bincount;
  b_scatter := vec_scatter;
|}.

Section WithBackend.
  Variable B : Backend.

  (* NaturalArray::connected_components: the documented panics (unequal lengths, index >= n)
     are checked here; the numbering itself is the back-end's *)
  Definition connected_components (s t : list nat) (n : nat) : res (list nat * nat) :=
    _ <- assert (length s =? length t) ;;
    _ <- assert (forallb (fun x => x <? n) s && forallb (fun x => x <? n) t) ;;
    Ok (b_conn_comp B s t n).

  (* OrdArray::sort_by default method *)
  Definition sort_by {T} (xs : list T) (key : list nat) : res (list T) :=
    gather xs (b_argsort B key).
End WithBackend.

(* ---- an adversarial conforming back-end: every open choice resolved the other way ---- *)
Definition adv_argsort (xs : list nat) : list nat :=
  (* sorts, but equal keys appear in DEcreasing index order *)
  fold_left (fun acc i =>
    (fix ins (l : list nat) : list nat :=
       match l with
       | [] => [i]
       | j :: l' => if nth i xs 0 <=? nth j xs 0 then i :: l else j :: ins l'
       end) acc) (seq 0 (length xs)) [].

Definition adv_conn_comp (s t : list nat) (n : nat) : list nat * nat :=
  let '(c, k) := cc_pure s t n in (map (fun x => k - 1 - x) c, k).

Definition adv_sparse_bincount (xs : list nat) : list nat * list nat :=
  let '(u, c) := vec_sparse_bincount xs in (rev u, rev c).

(* filler = last element, FIRST write to a position wins *)
Definition adv_scatter (T : Type) (xs : list T) (idx : list nat) (n : nat) : res (list T) :=
  match xs with
  | [] => _ <- assert (match idx with [] => true | _ => false end) ;; Ok []
  | x0 :: _ =>
      _ <- assert (length xs <=? length idx) ;;
      foldM (fun acc p => assign acc (fst p) (snd p)) (rev (combine idx xs)) (repeat (last xs x0) n)
  end.

(* ---- a second adversarial conforming back-end: argsort keeps the FIRST of a group of equal keys in
   front and lists the others in decreasing index order; component numbering reversed; the other
   two choices as on Vec ---- *)
Definition adv2_argsort (xs : list nat) : list nat :=
  fold_left (fun acc i =>
    (fix ins (l : list nat) : list nat :=
       match l with
       | [] => [i]
       | j :: l' => if nth i xs 0 <? nth j xs 0 then i :: l
                    else if nth i xs 0 =? nth j xs 0 then j :: i :: l'
                    else j :: ins l'
       end) acc) (seq 0 (length xs)) [].

Definition Adv2Backend : Backend := {|
  b_argsort := adv2_argsort;
  b_conn_comp := adv_conn_comp;
  b_sparse_bincount := vec_sparse_bincount;
  b_scatter := vec_scatter;
|}.

Definition AdvBackend : Backend := {|
  b_argsort := adv_argsort;
  b_conn_comp := adv_conn_comp;
  b_sparse_bincount := adv_sparse_bincount;
  b_scatter := adv_scatter;
|}.
