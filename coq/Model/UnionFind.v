(* Faithful model of the union-find of src/array/vec/connected_components.rs: parent/rank arrays,
   recursive `find` with path compression (explicit fuel: the recursion depth of the Rust function),
   union by rank, then one `find` per node and `to_dense`.  Proofs/UnionFindThm.v shows that this
   computes exactly `cc_pure` (the simpler relabel-merge model used elsewhere). *)
From OHG Require Export Model.Prims.

Record uf := mkUF { uf_parent : list nat; uf_rank : list nat }.

Definition uf_new (n : nat) : uf := mkUF (seq 0 n) (repeat 0 n).

(* fn find(&mut self, x) { if self.parent[x] != x { self.parent[x] = self.find(self.parent[x]); } self.parent[x] } *)
Fixpoint uf_find (fuel : nat) (u : uf) (x : nat) : res (uf * nat) :=
  match fuel with
  | 0 => Fuel
  | S fuel' =>
      p <- get (uf_parent u) x ;;
      if negb (p =? x) then
        '(u', r) <- uf_find fuel' u p ;;
        parent' <- assign (uf_parent u') x r ;;
        Ok (mkUF parent' (uf_rank u'), r)
      else Ok (u, p)
  end.

Definition uf_union (fuel : nat) (u : uf) (x y : nat) : res uf :=
  '(u1, rx) <- uf_find fuel u x ;;
  '(u2, ry) <- uf_find fuel u1 y ;;
  if negb (rx =? ry) then
    kx <- get (uf_rank u2) rx ;;
    ky <- get (uf_rank u2) ry ;;
    if ky <? kx then p <- assign (uf_parent u2) ry rx ;; Ok (mkUF p (uf_rank u2))
    else if kx <? ky then p <- assign (uf_parent u2) rx ry ;; Ok (mkUF p (uf_rank u2))
    else p <- assign (uf_parent u2) ry rx ;; r <- assign (uf_rank u2) rx (kx + 1) ;; Ok (mkUF p r)
  else Ok u2.

(* connected_components: asserts, unions, one find per node, to_dense *)
Definition uf_connected_components (s t : list nat) (n : nat) : res (list nat * nat) :=
  _ <- assert (length s =? length t) ;;
  _ <- assert ((0 <? n) || (length s =? 0)) ;;
  let fuel := n + 1 in
  u <- foldM (fun u e => uf_union fuel u (fst e) (snd e)) (combine s t) (uf_new n) ;;
  '(_, roots) <- foldM (fun ur i => let '(u, acc) := ur in
                                   '(u', r) <- uf_find fuel u i ;; Ok (u', acc ++ [r]))
                        (seq 0 n) (u, []) ;;
  Ok (to_dense roots).
