(* The adjacency constructions of src/strict/graph.rs: [converse], [operation_adjacency],
   [node_adjacency_from_incidence] (Model/Graph.v), for every back-end satisfying [BackendOK].

   Section 1: list facts (counting pairs, classes of a list sorted by key).
   Section 2: [converse_ok].
   Section 3: [adj_ops_ok] (= GraphSpec.adj_spec_ops), [adj_nodes_ok] (= GraphSpec.adj_spec_nodes).
   Section 4: examples. *)
From OHG Require Import Spec.Plain Spec.GraphSpec Proofs.PrimsThm Proofs.SegThm Proofs.C07aThm
  Proofs.C08Thm Proofs.BackendInst Proofs.KahnThm.
From Coq Require Import Permutation Sorted.

Set Implicit Arguments.

Arguments Nat.sub : simpl never.

(* the two [succs] (GraphSpec, KahnThm) are the same function *)
Lemma succs_same adj v : GraphSpec.succs adj v = KahnThm.succs adj v.
Proof. reflexivity. Qed.

(* ================================================================== *)
(** * Section 1: list facts *)
(* ================================================================== *)

Definition pair_dec (p q : nat * nat) : {p = q} + {p <> q}.
Proof. decide equality; apply Nat.eq_dec. Defined.

(* pairs (value, owner) of one segment *)
Lemma count_combine_repeat a q x : forall l,
  count_occ pair_dec (combine l (repeat a (length l))) (q, x)
  = if x =? a then count_occ Nat.eq_dec l q else 0.
Proof.
  induction l as [|y l IH]; cbn [length repeat combine count_occ].
  - destruct (x =? a); reflexivity.
  - rewrite IH.
    destruct (pair_dec (y, a) (q, x)) as [E|E]; destruct (Nat.eq_dec y q) as [E1|E1];
      destruct (x =? a) eqn:E2; try reflexivity.
    + apply Nat.eqb_neq in E2. inversion E. congruence.
    + inversion E. congruence.
    + inversion E. congruence.
    + apply Nat.eqb_eq in E2. subst. exfalso. apply E. reflexivity.
Qed.

(* the pairs (value, owning segment) of a segmented array count the values of each segment *)
Lemma count_pairs_segs q x : forall sizes (vals : list nat) a, list_sum sizes <= length vals ->
  count_occ pair_dec
    (combine vals (flat_map (fun p => repeat (snd p) (fst p)) (combine sizes (seq a (length sizes))))) (q, x)
  = if (a <=? x) && (x <? a + length sizes)
    then count_occ Nat.eq_dec (nth (x - a) (segs sizes vals) []) q else 0.
Proof.
  induction sizes as [|k s IH]; intros vals a H.
  - cbn [length seq combine flat_map]. rewrite combine_nil. cbn [count_occ].
    destruct (a <=? x) eqn:E1; destruct (x <? a + 0) eqn:E2; try reflexivity.
    apply Nat.leb_le in E1. apply Nat.ltb_lt in E2. lia.
  - cbn [length seq combine flat_map fst snd segs].
    change (k + list_sum s <= length vals) in H.
    rewrite <- (firstn_skipn k vals) at 1.
    assert (Hk : length (firstn k vals) = k) by (rewrite firstn_length; lia).
    rewrite SegThm.combine_app by (rewrite repeat_length; exact Hk).
    rewrite count_occ_app.
    rewrite <- Hk at 2. rewrite count_combine_repeat.
    rewrite IH by (rewrite skipn_length; lia).
    destruct (Nat.lt_trichotomy x a) as [Hlt|[->|Hgt]].
    + assert (E0 : (x =? a) = false) by (apply Nat.eqb_neq; lia).
      assert (E1 : (a <=? x) = false) by (apply Nat.leb_gt; lia).
      assert (E2 : (S a <=? x) = false) by (apply Nat.leb_gt; lia).
      rewrite E0, E1, E2. reflexivity.
    + assert (E1 : (a <=? a) = true) by (apply Nat.leb_le; lia).
      assert (E2 : (S a <=? a) = false) by (apply Nat.leb_gt; lia).
      assert (E3 : (a <? a + S (length s)) = true) by (apply Nat.ltb_lt; lia).
      rewrite Nat.eqb_refl, E1, E2, E3, Nat.sub_diag. cbn [andb nth]. lia.
    + assert (E0 : (x =? a) = false) by (apply Nat.eqb_neq; lia).
      assert (E1 : (a <=? x) = true) by (apply Nat.leb_le; lia).
      assert (E2 : (S a <=? x) = true) by (apply Nat.leb_le; lia).
      rewrite E0, E1, E2. cbn [andb Nat.add].
      replace (x - a) with (S (x - S a)) by lia. cbn [nth].
      replace (a + S (length s)) with (S (a + length s)) by lia. reflexivity.
Qed.

Section Keyed.
  Variable T : Type.
  Implicit Types L : list (nat * T).

  Definition cls L (q : nat) : list (nat * T) := List.filter (fun p => fst p =? q) L.
  Definition ncls L (q : nat) : list (nat * T) := List.filter (fun p => negb (fst p =? q)) L.

  Lemma count_fst_cls q : forall L, count_occ Nat.eq_dec (map fst L) q = length (cls L q).
  Proof.
    induction L as [|p L IH]; cbn [map count_occ cls List.filter]. reflexivity.
    fold (cls L q). destruct (Nat.eq_dec (fst p) q) as [E|E].
    - apply Nat.eqb_eq in E. rewrite E. cbn [length]. rewrite IH. reflexivity.
    - apply Nat.eqb_neq in E. rewrite E. exact IH.
  Qed.

  Lemma cls_Permutation q L L' : Permutation L L' -> Permutation (cls L q) (cls L' q).
  Proof.
    unfold cls. induction 1 as [|p l l' _ IH|p p' l|l l' l'' _ IH1 _ IH2]; cbn [List.filter].
    - constructor.
    - destruct (fst p =? q); auto.
    - destruct (fst p =? q); destruct (fst p' =? q); auto. apply perm_swap.
    - eapply Permutation_trans; eauto.
  Qed.

  Lemma SS_filter (f : nat * T -> bool) : forall L,
    StronglySorted le (map fst L) -> StronglySorted le (map fst (List.filter f L)).
  Proof.
    induction L as [|p L IH]; intros H; cbn [List.filter map] in *. constructor.
    inversion H as [|k ks Hs Hall]; subst.
    destruct (f p); auto. cbn [map]. constructor; auto.
    apply Forall_forall. intros k Hk. apply in_map_iff in Hk. destruct Hk as (p' & <- & Hp').
    apply filter_In in Hp'. destruct Hp' as (Hp' & _).
    rewrite Forall_forall in Hall. apply Hall. apply in_map. exact Hp'.
  Qed.

  Lemma cls_ncls q a L : q <> a -> cls (ncls L a) q = cls L q.
  Proof.
    intros Hne. unfold cls, ncls. induction L as [|p L IH]; cbn [List.filter]. reflexivity.
    destruct (fst p =? a) eqn:E1; cbn [negb List.filter]; destruct (fst p =? q) eqn:E2; rewrite ?IH; auto.
    apply Nat.eqb_eq in E1, E2. congruence.
  Qed.

  Lemma cls_none q L : Forall (fun p => fst p <> q) L -> cls L q = [].
  Proof.
    unfold cls. induction L as [|p L IH]; intros H; cbn [List.filter]. reflexivity.
    inversion H as [|p' L' Hp HL]; subst. apply Nat.eqb_neq in Hp. rewrite Hp. auto.
  Qed.

  Lemma ncls_all q L : Forall (fun p => fst p <> q) L -> ncls L q = L.
  Proof.
    unfold ncls. induction L as [|p L IH]; intros H; cbn [List.filter]. reflexivity.
    inversion H as [|p' L' Hp HL]; subst. apply Nat.eqb_neq in Hp. rewrite Hp. cbn [negb]. f_equal. auto.
  Qed.

  (* in a list sorted by key whose keys are >= a, the class of a comes first *)
  Lemma sorted_partition a : forall L, StronglySorted le (map fst L) ->
    Forall (fun p => a <= fst p) L -> L = cls L a ++ ncls L a.
  Proof.
    induction L as [|p L IH]; intros HS HF. reflexivity.
    cbn [map] in HS. inversion HS as [|k ks Hs Hall]; subst.
    inversion HF as [|p' L' Hp HL]; subst.
    destruct (Nat.eq_dec (fst p) a) as [E|E].
    - unfold cls, ncls. cbn [List.filter]. apply Nat.eqb_eq in E. rewrite E. cbn [negb app].
      f_equal. apply IH; auto.
    - assert (Hgt : Forall (fun p' => fst p' <> a) (p :: L)).
      { constructor; auto. apply Forall_forall. intros p' Hp'.
        rewrite Forall_forall in Hall. specialize (Hall (fst p') (in_map fst _ _ Hp')). lia. }
      rewrite cls_none, ncls_all by exact Hgt. reflexivity.
  Qed.

  (* a list sorted by key is the concatenation of its classes, in key order *)
  Lemma sorted_classes : forall t a L, StronglySorted le (map fst L) ->
    Forall (fun p => a <= fst p < a + t) L ->
    concat (map (cls L) (seq a t)) = L.
  Proof.
    induction t as [|t IH]; intros a L HS HF.
    - destruct L as [|p L]; auto. inversion HF as [|p' L' Hp HL]; subst. lia.
    - cbn [seq map concat].
      assert (Hge : Forall (fun p => a <= fst p) L).
      { eapply Forall_impl; [|exact HF]. cbv beta. intros p Hp. lia. }
      rewrite (sorted_partition HS Hge) at 3. f_equal.
      rewrite <- (IH (S a) (ncls L a)).
      + f_equal. apply map_ext_in. intros q Hq. apply in_seq in Hq.
        symmetry. apply cls_ncls. lia.
      + apply SS_filter. exact HS.
      + apply Forall_forall. intros p Hp. apply filter_In in Hp. destruct Hp as (Hp & Hne).
        rewrite Forall_forall in HF. specialize (HF p Hp).
        destruct (fst p =? a) eqn:E; try discriminate. apply Nat.eqb_neq in E. lia.
  Qed.

  (* hence: cutting the second components by the class sizes yields the classes *)
  Lemma sorted_segs t L : StronglySorted le (map fst L) -> Forall (fun p => fst p < t) L ->
    segs (map (fun q => length (cls L q)) (seq 0 t)) (map snd L)
    = map (fun q => map snd (cls L q)) (seq 0 t).
  Proof.
    intros HS HF.
    assert (HC : concat (map (cls L) (seq 0 t)) = L).
    { apply sorted_classes; auto. eapply Forall_impl; [|exact HF]. cbv beta. intros p Hp. lia. }
    rewrite segs_map. rewrite <- (map_map (cls L) (map snd)). f_equal.
    rewrite <- (map_map (cls L) (@length _)).
    rewrite <- HC at 2. apply segs_of_concat.
  Qed.

  Lemma sorted_classes_sum t L : StronglySorted le (map fst L) -> Forall (fun p => fst p < t) L ->
    list_sum (map (fun q => length (cls L q)) (seq 0 t)) = length L.
  Proof.
    intros HS HF.
    assert (HC : concat (map (cls L) (seq 0 t)) = L).
    { apply sorted_classes; auto. eapply Forall_impl; [|exact HF]. cbv beta. intros p Hp. lia. }
    rewrite <- (map_map (cls L) (@length _)), list_sum_map_length, HC. reflexivity.
  Qed.
End Keyed.

Lemma count_snd_cls q x : forall L : list (nat * nat),
  count_occ Nat.eq_dec (map snd (cls L q)) x = count_occ pair_dec L (q, x).
Proof.
  unfold cls. induction L as [|[k y] L IH]; cbn [List.filter count_occ fst]. reflexivity.
  destruct (k =? q) eqn:E1; cbn [map count_occ snd]; rewrite IH.
  - apply Nat.eqb_eq in E1. subst k.
    destruct (Nat.eq_dec y x) as [E2|E2]; destruct (pair_dec (q, y) (q, x)) as [E3|E3]; try reflexivity.
    + exfalso. apply E3. congruence.
    + inversion E3. congruence.
  - apply Nat.eqb_neq in E1. destruct (pair_dec (k, y) (q, x)) as [E3|E3]; try reflexivity.
    inversion E3. congruence.
Qed.

Lemma map_fst_combine {X Y} : forall (l : list X) (m : list Y), length l = length m -> map fst (combine l m) = l.
Proof. induction l as [|x l IH]; intros [|y m] H; simpl in *; try lia; auto. f_equal. apply IH. lia. Qed.

Lemma map_snd_combine {X Y} : forall (l : list X) (m : list Y), length l = length m -> map snd (combine l m) = m.
Proof. induction l as [|x l IH]; intros [|y m] H; simpl in *; try lia; auto. f_equal. apply IH. lia. Qed.

Lemma nth_map_nil {X Y} (f : list X -> list Y) (l : list (list X)) i : f [] = [] ->
  nth i (map f l) [] = f (nth i l []).
Proof. intros E. rewrite <- E at 1. apply map_nth. Qed.

(* ================================================================== *)
(** * Section 2: converse *)
(* ================================================================== *)

(* the segment index ("owner") of every value position *)
Definition owners (r : icf) : list nat :=
  flat_map (fun p => repeat (snd p) (fst p)) (combine (table (ic_sources r)) (seq 0 (ic_len r))).

Lemma owners_length r : length (owners r) = list_sum (table (ic_sources r)).
Proof.
  unfold owners. apply (@rep_pairs_length (table (ic_sources r)) (seq 0 (ic_len r))).
  rewrite seq_length. reflexivity.
Qed.

Lemma owners_lt r : all_lt (ic_len r) (owners r).
Proof.
  apply Forall_forall. intros y Hy. unfold owners in Hy. apply in_flat_map in Hy.
  destruct Hy as ([k o] & Hp & Hy). cbn [fst snd] in Hy. apply repeat_spec in Hy. subst y.
  apply in_combine_r in Hp. apply in_seq in Hp. lia.
Qed.

(* a list of numbers < n is determined up to order by its occurrence counts *)
Lemma count_occ_repeat_nat u k x : count_occ Nat.eq_dec (repeat u k) x = if u =? x then k else 0.
Proof.
  induction k as [|k IH]; cbn [repeat count_occ]. destruct (u =? x); reflexivity.
  rewrite IH. destruct (Nat.eq_dec u x) as [E|E].
  - apply Nat.eqb_eq in E. rewrite E. reflexivity.
  - apply Nat.eqb_neq in E. rewrite E. reflexivity.
Qed.

Lemma count_flat_repeat (g : nat -> nat) n x :
  count_occ Nat.eq_dec (flat_map (fun u => repeat u (g u)) (seq 0 n)) x = if x <? n then g x else 0.
Proof.
  rewrite count_occ_flat_map.
  assert (Hz : list_sum (map (fun u => if u =? x then 0 else count_occ Nat.eq_dec (repeat u (g u)) x) (seq 0 n)) = 0).
  { apply list_sum_map_zero. intros u _. rewrite count_occ_repeat_nat. destruct (u =? x); reflexivity. }
  destruct (x <? n) eqn:E.
  - apply Nat.ltb_lt in E.
    rewrite (list_sum_extract (fun u => count_occ Nat.eq_dec (repeat u (g u)) x) E), Hz.
    rewrite count_occ_repeat_nat, Nat.eqb_refl. lia.
  - apply Nat.ltb_ge in E. apply list_sum_map_zero. intros u Hu. apply in_seq in Hu.
    rewrite count_occ_repeat_nat. destruct (u =? x) eqn:E1; auto. apply Nat.eqb_eq in E1. lia.
Qed.

Lemma count_to_perm l n (g : nat -> nat) : (forall x, In x l -> x < n) ->
  (forall x, x < n -> count_occ Nat.eq_dec l x = g x) ->
  Permutation l (flat_map (fun x => repeat x (g x)) (seq 0 n)).
Proof.
  intros Hlt Hc. apply (Permutation_count_occ Nat.eq_dec). intros x. rewrite count_flat_repeat.
  destruct (x <? n) eqn:E.
  - apply Nat.ltb_lt in E. auto.
  - apply Nat.ltb_ge in E. apply count_occ_not_In. intros Hin. apply Hlt in Hin. lia.
Qed.

Section Adj.
  Variable B : Backend.
  Hypothesis OK : BackendOK B.

  Lemma sort_by_length {T} (xs r : list T) key : sort_by B xs key = Ok r -> length r = length key.
  Proof.
    unfold sort_by. intros H. apply gather_ok_inv in H. destruct H as (_ & H). rewrite H.
    rewrite (Permutation_length (bk_argsort_perm B OK key)). apply seq_length.
  Qed.

  (* [converse r] succeeds on every well-formed r; segment q of the result holds, in some order,
     the index x of every segment of r once for each occurrence of q in that segment *)
  Theorem converse_ok r : wf_icf r ->
    exists c, converse B r = Ok c /\ wf_icf c /\
      ic_len c = target (ic_values r) /\ target (ic_values c) = ic_len r /\
      (forall q x, q < target (ic_values r) -> x < ic_len r ->
         count_occ Nat.eq_dec (nth q (decode_f c) []) x
         = count_occ Nat.eq_dec (nth x (decode_f r) []) q) /\
      (forall q x, In x (nth q (decode_f c) []) -> x < ic_len r).
  Proof.
    intros [[W1 W2] W3]. unfold ff_source in W2.
    set (key := table (ic_values r)) in *. set (t := target (ic_values r)) in *.
    assert (Hlen : length (owners r) = length key).
    { rewrite owners_length. exact W2. }
    destruct (sort_by_ok_sorted OK (owners r) key Hlen) as (r' & ks & Hs1 & Hs2 & HP & HS).
    pose proof (sort_by_length _ _ Hs1) as Hlr. pose proof (sort_by_length _ _ Hs2) as Hlk.
    set (L := combine ks r') in *. set (L0 := combine key (owners r)) in *.
    assert (HfL : map fst L = ks) by (apply map_fst_combine; lia).
    assert (HsL : map snd L = r') by (apply map_snd_combine; lia).
    assert (HfL0 : map fst L0 = key) by (apply map_fst_combine; lia).
    assert (HsL0 : map snd L0 = owners r) by (apply map_snd_combine; lia).
    assert (HLlen : length L = length key).
    { rewrite <- HfL0, map_length. apply Permutation_length. exact HP. }
    assert (HLlt : Forall (fun p => fst p < t) L).
    { eapply Permutation_Forall. apply Permutation_sym. exact HP.
      apply Forall_forall. intros p Hp. assert (Hk : In (fst p) key) by (rewrite <- HfL0; apply in_map; auto).
      unfold wf_ff, all_lt in W3. rewrite Forall_forall in W3. apply W3. exact Hk. }
    assert (HSL : StronglySorted le (map fst L)) by (rewrite HfL; exact HS).
    assert (Hcnt : bincount_pure key t = map (fun q => length (cls L q)) (seq 0 t)).
    { unfold bincount_pure. apply map_ext. intros q.
      rewrite <- HfL0, count_fst_cls. apply Permutation_length, cls_Permutation, Permutation_sym. exact HP. }
    assert (Hsum : list_sum (bincount_pure key t) = length key).
    { rewrite Hcnt, sorted_classes_sum by auto. exact HLlen. }
    assert (Hr'lt : all_lt (ic_len r) r').
    { rewrite <- HsL. eapply Permutation_Forall. apply Permutation_sym, Permutation_map. exact HP.
      rewrite HsL0. apply owners_lt. }
    set (c := mkIC (mkFF (bincount_pure key t) (length key + 1)) (mkFF r' (ic_len r))).
    assert (Hdec : forall q, q < t -> nth q (decode_f c) [] = map snd (cls L q)).
    { intros q Hq. unfold decode_f, c. cbn [ic_sources ic_values table].
      rewrite Hcnt, <- HsL, sorted_segs by auto.
      rewrite (nth_map_seq _ 0 [] Hq). reflexivity. }
    assert (Wc : wf_icf c).
    { split; [split|exact Hr'lt]; unfold c, ff_source; cbn [ic_sources ic_values table target];
        rewrite Hsum; lia. }
    exists c. split; [|split; [exact Wc|split; [|split; [reflexivity|split]]]].
    - unfold converse. rewrite arange_ok by lia. cbn [bind]. rewrite get_range_full. cbn [bind].
      rewrite Nat.sub_0_r. rewrite arepeat_ok by (rewrite seq_length; reflexivity). cbn [bind].
      change (flat_map _ _) with (owners r). fold key. rewrite Hs1. cbn [bind]. fold t.
      rewrite bincount_ok by exact W3. cbn [bind].
      rewrite ff_new_ok. cbn [unwrap bind]. rewrite ff_new_ok by exact Hr'lt. cbn [unwrap bind].
      + rewrite C08_new_some. reflexivity. destruct Wc as [Wc _]. exact Wc.
      + apply Forall_forall. intros k Hk. unfold bincount_pure in Hk. apply in_map_iff in Hk.
        destruct Hk as (v & <- & _). pose proof (count_occ_bound Nat.eq_dec v key). lia.
    - unfold ic_len, ff_source, c. cbn [ic_sources table]. apply bincount_pure_length.
    - intros q x Hq Hx. rewrite Hdec by exact Hq. rewrite count_snd_cls.
      assert (E : count_occ pair_dec L (q, x) = count_occ pair_dec L0 (q, x)).
      { apply Permutation_count_occ. exact HP. }
      rewrite E. unfold L0, owners, decode_f, ic_len, ff_source. unfold ic_len, ff_source in Hx.
      rewrite (@count_pairs_segs q x (table (ic_sources r)) key 0) by lia.
      assert (E1 : (0 <=? x) = true) by (apply Nat.leb_le; lia).
      assert (E2 : (x <? 0 + length (table (ic_sources r))) = true) by (apply Nat.ltb_lt; exact Hx).
      rewrite E1, E2, Nat.sub_0_r. reflexivity.
    - intros q x Hin. unfold decode_f in Hin. apply In_seg in Hin.
      unfold all_lt in Hr'lt. rewrite Forall_forall in Hr'lt. apply Hr'lt. exact Hin.
  Qed.

  (* the same, as a permutation: segment q lists every x < ic_len r, repeated as often as q occurs
     in segment x of r *)
  Corollary converse_ok_perm r : wf_icf r ->
    exists c, converse B r = Ok c /\ wf_icf c /\
      ic_len c = target (ic_values r) /\ target (ic_values c) = ic_len r /\
      forall q, q < target (ic_values r) ->
        Permutation (nth q (decode_f c) [])
          (flat_map (fun x => repeat x (count_occ Nat.eq_dec (nth x (decode_f r) []) q)) (seq 0 (ic_len r))).
  Proof.
    intros W. destruct (converse_ok W) as (c & Hc & Wc & Hl & Ht & Hcnt & Hlt).
    exists c. repeat (split; auto). intros q Hq. apply count_to_perm.
    - intros x Hx. eapply Hlt; eauto.
    - intros x Hx. apply Hcnt; auto.
  Qed.

  (* ================================================================== *)
  (** * Section 3: the adjacency specifications *)
  (* ================================================================== *)

  Lemma in_count_pos l (x : nat) : In x l <-> 0 < count_occ Nat.eq_dec l x.
  Proof. apply count_occ_In. Qed.

  (* operation_adjacency: X -> X*;  adjacency(x) = the consumers of the target nodes of x *)
  Theorem adj_ops_mult O A (h : hg O A) : wf_hg h ->
    exists adj, operation_adjacency B h = Ok adj /\ wf_icf adj /\
      ic_len adj = length (h_x h) /\ target (ic_values adj) = length (h_x h) /\
      forall x y, x < length (h_x h) -> y < length (h_x h) ->
        count_occ Nat.eq_dec (GraphSpec.succs adj x) y
        = list_sum (map (fun v => count_occ Nat.eq_dec (op_src h y) v) (op_tgt h x)).
  Proof.
    intros (Ws & Wt & Hls & Hlt & Hts & Htt).
    destruct (converse_ok Ws) as (c & Hc & Wc & Hlc & Htc & Hcnt & _).
    assert (Ht : target (ic_values (h_t h)) = ic_len c) by lia.
    destruct (C08_flatmap Wt Wc Ht) as (adj & Hf & Wa & Hta & Hla & Hdec).
    exists adj. split; [|split; [exact Wa|split; [lia|split; [lia|]]]].
    - unfold operation_adjacency. rewrite Hc. cbn [bind]. exact Hf.
    - intros x y Hx Hy. unfold GraphSpec.succs. rewrite Hdec.
      rewrite nth_map_nil by reflexivity. fold (op_tgt h x).
      rewrite count_occ_flat_map. f_equal. apply map_ext_in. intros v Hv.
      unfold op_src. apply Hcnt; try lia.
      rewrite Hts, <- Htt. unfold op_tgt, decode_f in Hv. apply In_seg in Hv.
      destruct Wt as (_ & Wt). unfold wf_ff, all_lt in Wt. rewrite Forall_forall in Wt. auto.
  Qed.

  Theorem adj_ops_ok : adj_spec_ops B.
  Proof.
    intros O A h W. destruct (adj_ops_mult W) as (adj & Ha & Wa & Hl & Ht & Hm).
    exists adj. split; [exact Ha|split; [exact Wa|split; [exact Hl|split; [exact Ht|]]]].
    intros x y Hx Hy. unfold dep.
    set (g := fun v => count_occ Nat.eq_dec (op_src h y) v).
    pose proof (list_sum_map_zero g (op_tgt h x)) as Hz.
    rewrite in_count_pos, Hm by auto. fold g. split.
    - intros Hpos.
      assert (Hnz : ~ (forall v, In v (op_tgt h x) -> g v = 0)).
      { intros Hall. pose proof (proj2 Hz Hall). lia. }
      clear Hz Hpos.
      induction (op_tgt h x) as [|v l IH].
      + exfalso. apply Hnz. intros v [].
      + destruct (in_dec Nat.eq_dec v (op_src h y)) as [Hi|Hi].
        * exists v. split; auto. left; auto.
        * destruct IH as (v' & H1 & H2).
          -- intros Hall. apply Hnz. intros v' [<-|Hv']. apply count_occ_not_In; auto. auto.
          -- exists v'. split; auto. right; auto.
    - intros (v & Hv1 & Hv2).
      destruct (Nat.eq_dec (list_sum (map g (op_tgt h x))) 0) as [E|E]; [|lia].
      pose proof (proj1 Hz E v Hv1) as E'. apply count_occ_not_In in E'. contradiction.
  Qed.

  (* node_adjacency_from_incidence: W -> W* *)
  Theorem adj_nodes_ok : adj_spec_nodes B.
  Proof.
    intros s t n Ws Wt Hlen Hts Htt.
    destruct (converse_ok Ws) as (c & Hc & Wc & Hlc & Htc & Hcnt & Hclt).
    assert (Ht : target (ic_values c) = ic_len t) by lia.
    destruct (C08_flatmap Wc Wt Ht) as (adj & Hf & Wa & Hta & Hla & Hdec).
    exists adj. split; [|split; [exact Wa|split; [lia|split; [lia|]]]].
    - unfold node_adjacency_from_incidence. rewrite Hc. cbn [bind]. exact Hf.
    - intros u v Hu Hv. unfold GraphSpec.succs. rewrite Hdec.
      rewrite nth_map_nil by reflexivity. rewrite in_flat_map. split.
      + intros (e & He & Hve). pose proof (Hclt _ _ He) as Hes.
        exists e. split; auto. split; auto.
        apply in_count_pos. rewrite <- Hcnt by lia. apply in_count_pos. exact He.
      + intros (e & Hes & Hue & Hve). exists e. split; auto.
        apply in_count_pos. rewrite Hcnt by lia. apply in_count_pos. exact Hue.
  Qed.

  (* node_adjacency of a hypergraph: u -> v iff some hyperedge has u as a source and v as a target *)
  Corollary node_adjacency_ok O A (h : hg O A) : wf_hg h ->
    exists adj, node_adjacency B h = Ok adj /\ wf_icf adj /\
      ic_len adj = length (h_w h) /\ target (ic_values adj) = length (h_w h) /\
      forall u v, u < length (h_w h) -> v < length (h_w h) ->
        (In v (GraphSpec.succs adj u) <-> nedge h u v).
  Proof.
    intros (Ws & Wt & Hls & Hlt & Hts & Htt).
    destruct (@adj_nodes_ok (h_s h) (h_t h) (length (h_w h))) as (adj & Ha & Wa & Hl & Ht & Hiff); auto. lia.
    exists adj. repeat (split; auto).
    - intros Hin. apply Hiff in Hin; auto. destruct Hin as (e & He & H1 & H2).
      exists e. split. lia. split; auto.
    - intros (e & He & H1 & H2). apply Hiff; auto. exists e. split. lia. split; auto.
  Qed.
End Adj.

(* ================================================================== *)
(** * Section 4: examples *)
(* ================================================================== *)

(* 8 operations over 10 nodes:
     op0 : []      -> [0;1;2]     zero-arity (no inputs)
     op1 : [0;1;2] -> [3]         depends on op0 with multiplicity 3
     op2 : [3;4]   -> [4]         depends on op1 and on itself
     op3 : [5]     -> [6]         cycle op3 -> op4 -> op3
     op4 : [6]     -> [5;7]
     op5 : [7]     -> [8]         tail of the cycle
     op6 : []      -> []          zero-arity, no outputs
     op7 : [3]     -> [9]         depends on op1 (node 3 has two consumers) *)
Definition ex_hs : icf := mkIC (mkFF [0;3;2;1;1;1;0;1] 10) (mkFF [0;1;2;3;4;5;6;7;3] 10).
Definition ex_ht : icf := mkIC (mkFF [3;1;1;1;2;1;0;1] 11) (mkFF [0;1;2;3;4;6;5;7;8;9] 10).
Definition ex_h : hg nat nat := mkHG ex_hs ex_ht (repeat 0 10) [10;11;12;13;14;15;16;17].
Definition ex_f : ohg nat nat := mkOHG (mkFF [] 10) (mkFF [] 10) ex_h.

Example ex_h_decode :
  decode_f ex_hs = [[]; [0;1;2]; [3;4]; [5]; [6]; [7]; []; [3]] /\
  decode_f ex_ht = [[0;1;2]; [3]; [4]; [6]; [5;7]; [8]; []; [9]].
Proof. split; reflexivity. Qed.

(* the hypotheses of the theorems are satisfiable *)
Example ex_h_wf : wf_hg ex_h.
Proof.
  repeat split; try reflexivity; unfold wf_ff, all_lt; cbn; repeat constructor.
Qed.

Example ex_f_wf : wf_ohg ex_f.
Proof.
  split. exact ex_h_wf. repeat split; try reflexivity; unfold wf_ff, all_lt; cbn; constructor.
Qed.

(* converse: only the multiset of each segment is determined (node 3 is consumed by op2 and op7) *)
Example ex_converse_vec : rmap decode_f (converse VecBackend ex_hs)
  = Ok [[1]; [1]; [1]; [2; 7]; [2]; [3]; [4]; [5]; []; []].
Proof. vm_compute. reflexivity. Qed.

Example ex_converse_adv : rmap decode_f (converse AdvBackend ex_hs)
  = Ok [[1]; [1]; [1]; [7; 2]; [2]; [3]; [4]; [5]; []; []].
Proof. vm_compute. reflexivity. Qed.

Example ex_op_adj_vec : rmap decode_f (operation_adjacency VecBackend ex_h)
  = Ok [[1; 1; 1]; [2; 7]; [2]; [4]; [3; 5]; []; []; []].
Proof. vm_compute. reflexivity. Qed.

Example ex_op_adj_adv : rmap decode_f (operation_adjacency AdvBackend ex_h)
  = Ok [[1; 1; 1]; [7; 2]; [2]; [4]; [3; 5]; []; []; []].
Proof. vm_compute. reflexivity. Qed.

Example ex_node_adj_vec : rmap decode_f (node_adjacency VecBackend ex_h)
  = Ok [[3]; [3]; [3]; [4; 9]; [4]; [6]; [5; 7]; [8]; []; []].
Proof. vm_compute. reflexivity. Qed.

Example ex_node_adj_adv : rmap decode_f (node_adjacency AdvBackend ex_h)
  = Ok [[3]; [3]; [3]; [9; 4]; [4]; [6]; [5; 7]; [8]; []; []].
Proof. vm_compute. reflexivity. Qed.

(* the dependencies of the example, from the definition *)
Example ex_dep_mult3 : dep ex_h 0 1 /\
  list_sum (map (fun v => count_occ Nat.eq_dec (op_src ex_h 1) v) (op_tgt ex_h 0)) = 3.
Proof. split. exists 0. split; vm_compute; auto. reflexivity. Qed.

Example ex_dep_self : dep ex_h 2 2.
Proof. exists 4. split; vm_compute; auto. Qed.

Example ex_dep_cycle_tail : dep ex_h 3 4 /\ dep ex_h 4 3 /\ dep ex_h 4 5.
Proof.
  split; [|split]; [exists 6|exists 5|exists 7]; split; vm_compute; auto.
Qed.

Example ex_zero_arity : op_src ex_h 0 = [] /\ op_src ex_h 6 = [] /\ op_tgt ex_h 6 = [] /\
  forall x, ~ dep ex_h x 0.
Proof.
  repeat split; try reflexivity. intros x (v & _ & Hv). vm_compute in Hv. exact Hv.
Qed.

(* the theorems instantiated with both concrete back-ends *)
Example ex_adj_ops_vec :
  exists adj, operation_adjacency VecBackend ex_h = Ok adj /\
    (forall x y, x < 8 -> y < 8 -> (In y (GraphSpec.succs adj x) <-> dep ex_h x y)) /\
    count_occ Nat.eq_dec (GraphSpec.succs adj 0) 1 = 3.
Proof.
  destruct (adj_ops_mult VecBackend_ok ex_h_wf) as (adj & Ha & _ & _ & _ & Hm).
  destruct (adj_ops_ok VecBackend_ok ex_h_wf) as (adj' & Ha' & _ & _ & _ & Hiff).
  rewrite Ha in Ha'. inversion Ha'; subst adj'.
  exists adj. split; auto. split. exact Hiff.
  rewrite (Hm 0 1) by (cbn; lia). reflexivity.
Qed.

Example ex_adj_ops_adv :
  exists adj, operation_adjacency AdvBackend ex_h = Ok adj /\
    (forall x y, x < 8 -> y < 8 -> (In y (GraphSpec.succs adj x) <-> dep ex_h x y)) /\
    count_occ Nat.eq_dec (GraphSpec.succs adj 0) 1 = 3.
Proof.
  destruct (adj_ops_mult AdvBackend_ok ex_h_wf) as (adj & Ha & _ & _ & _ & Hm).
  destruct (adj_ops_ok AdvBackend_ok ex_h_wf) as (adj' & Ha' & _ & _ & _ & Hiff).
  rewrite Ha in Ha'. inversion Ha'; subst adj'.
  exists adj. split; auto. split. exact Hiff.
  rewrite (Hm 0 1) by (cbn; lia). reflexivity.
Qed.

Print Assumptions converse_ok.
Print Assumptions converse_ok_perm.
Print Assumptions adj_ops_mult.
Print Assumptions adj_ops_ok.
Print Assumptions adj_nodes_ok.
Print Assumptions node_adjacency_ok.
Print Assumptions ex_adj_ops_adv.
