(* The second adversarial back-end ([Adv2Backend]: the first of a group of equal keys stays in front,
   the others follow in decreasing index order) meets the documented array contract. *)
From Coq Require Import List Arith Lia Bool Permutation Sorted.
From OHG Require Import Base.Res Model.Prims Spec.Backend Proofs.CCThm Proofs.C07aThm Proofs.BackendInst.
Import ListNotations.

Definition ins2 (xs : list nat) (i : nat) : list nat -> list nat :=
  fix ins (l : list nat) : list nat :=
    match l with
    | [] => [i]
    | j :: l' => if nth i xs 0 <? nth j xs 0 then i :: l
                 else if nth i xs 0 =? nth j xs 0 then j :: i :: l'
                 else j :: ins l'
    end.

Lemma adv2_argsort_eq xs :
  adv2_argsort xs = fold_left (fun acc i => ins2 xs i acc) (seq 0 (length xs)) [].
Proof. reflexivity. Qed.

Lemma ins2_perm xs i l : Permutation (ins2 xs i l) (i :: l).
Proof.
  induction l as [|j l IH]; cbn [ins2].
  - apply Permutation_refl.
  - destruct (nth i xs 0 <? nth j xs 0). apply Permutation_refl.
    destruct (nth i xs 0 =? nth j xs 0). apply perm_swap.
    eapply Permutation_trans. apply perm_skip. exact IH. apply perm_swap.
Qed.

Lemma fold_left_ins2_perm xs l : forall acc,
  Permutation (fold_left (fun acc i => ins2 xs i acc) l acc) (l ++ acc).
Proof.
  induction l as [|i l IH]; intros acc; cbn [fold_left app].
  - apply Permutation_refl.
  - eapply Permutation_trans. apply IH.
    eapply Permutation_trans. apply Permutation_app_head. apply ins2_perm.
    apply Permutation_sym. apply Permutation_middle.
Qed.

Theorem adv2_argsort_perm xs : Permutation (adv2_argsort xs) (seq 0 (length xs)).
Proof.
  rewrite adv2_argsort_eq. eapply Permutation_trans. apply fold_left_ins2_perm.
  rewrite app_nil_r. apply Permutation_refl.
Qed.

Lemma ins2_sorted xs i l :
  StronglySorted le (map (fun i => nth i xs 0) l) ->
  StronglySorted le (map (fun i => nth i xs 0) (ins2 xs i l)).
Proof.
  induction l as [|j l IH]; intros HS; cbn [ins2 map].
  - constructor. constructor. constructor.
  - cbn [map] in HS. inversion HS as [|a b HS' HF]; subst.
    destruct (Nat.ltb_spec (nth i xs 0) (nth j xs 0)) as [Hlt|Hge].
    + cbn [map]. constructor. exact HS. constructor. lia.
      eapply Forall_impl. 2: exact HF. intros x Hx. cbv beta in Hx. lia.
    + destruct (Nat.eqb_spec (nth i xs 0) (nth j xs 0)) as [Heq|Hne].
      * cbn [map]. constructor.
        -- constructor. exact HS'. rewrite Heq. exact HF.
        -- constructor. lia. exact HF.
      * cbn [map]. constructor. apply IH. exact HS'.
        assert (HP : Permutation (map (fun i0 => nth i0 xs 0) (ins2 xs i l))
                                 (map (fun i0 => nth i0 xs 0) (i :: l))).
        { apply Permutation_map. apply ins2_perm. }
        eapply Permutation_Forall. apply Permutation_sym. exact HP.
        cbn [map]. constructor. lia. exact HF.
Qed.

Lemma fold_left_ins2_sorted xs l : forall acc,
  StronglySorted le (map (fun i => nth i xs 0) acc) ->
  StronglySorted le (map (fun i => nth i xs 0) (fold_left (fun acc i => ins2 xs i acc) l acc)).
Proof.
  induction l as [|i l IH]; intros acc HS; cbn [fold_left].
  - exact HS.
  - apply IH. apply ins2_sorted. exact HS.
Qed.

Theorem adv2_argsort_sorted xs :
  StronglySorted le (map (fun i => nth i xs 0) (adv2_argsort xs)).
Proof. rewrite adv2_argsort_eq. apply fold_left_ins2_sorted. constructor. Qed.

(* the tie order differs from both other back-ends: first stays, the rest decreasing *)
Example adv2_argsort_ex : adv2_argsort [3; 1; 3; 0; 1; 1; 3] = [3; 1; 5; 4; 0; 6; 2].
Proof. vm_compute. reflexivity. Qed.
Example adv2_differs :
  vec_argsort [1; 1; 1; 1] = [0; 1; 2; 3] /\ adv_argsort [1; 1; 1; 1] = [3; 2; 1; 0]
  /\ adv2_argsort [1; 1; 1; 1] = [0; 3; 2; 1].
Proof. vm_compute. repeat split. Qed.

Theorem Adv2Backend_ok : BackendOK Adv2Backend.
Proof.
  pose proof VecBackend_ok as HV. pose proof AdvBackend_ok as HA.
  constructor; cbn [Adv2Backend b_argsort b_conn_comp b_sparse_bincount b_scatter].
  - exact adv2_argsort_perm.
  - exact adv2_argsort_sorted.
  - exact (bk_cc _ HA).
  - exact (bk_sparse _ HV).
  - exact (bk_scatter _ HV).
  - exact (bk_scatter_nil _ HV).
Qed.

Print Assumptions Adv2Backend_ok.
