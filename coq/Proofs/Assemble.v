(* Assembly: the remaining explicit premises of the graph-algorithm theorems are discharged for every
   back-end satisfying [BackendOK], the final premise-free theorems are stated, and the
   back-end independence corollaries (property C20) are derived.

   Section 1: list facts.
   Section 2: [conv_layers_ok : conv_layers_spec B].
   Section 3: premise-free C16 (evaluation) and C18 (convexity).
   Section 4: C20 -- results do not depend on unspecified back-end choices.
   Section 5: examples. *)
From OHG Require Import Spec.Plain Spec.GraphSpec Proofs.PrimsThm Proofs.SegThm Proofs.C08Thm
  Proofs.BackendInst Proofs.KahnThm Proofs.AdjThm Proofs.C15Thm Proofs.C16Lemmas Proofs.C16Thm
  Proofs.C16Iso Proofs.C01Thm Proofs.C18cThm.
From Coq Require Import List Arith Lia Bool Permutation Relation_Operators ZArith.
Import ListNotations.

Set Implicit Arguments.

Arguments Nat.sub : simpl never.

(* ================================================================== *)
(** * Section 1: list facts *)
(* ================================================================== *)

(* repeat-form with multiplicities 0/1 = filter-form *)
Lemma flat_repeat_filter (p : nat -> bool) : forall l : list nat,
  flat_map (fun x => repeat x (if p x then 1 else 0)) l = List.filter p l.
Proof.
  induction l as [|a l IH]; cbn [flat_map List.filter]. reflexivity.
  rewrite IH. destruct (p a); reflexivity.
Qed.

Lemma flat_map_ext_in {X Y} (f g : X -> list Y) : forall l : list X,
  (forall x, In x l -> f x = g x) -> flat_map f l = flat_map g l.
Proof.
  induction l as [|a l IH]; intros H; cbn [flat_map]. reflexivity.
  rewrite (H a) by (left; reflexivity). rewrite IH. reflexivity.
  intros x Hx. apply H. right. exact Hx.
Qed.

Lemma flat_repeat_filter_seq (k : nat -> nat) (q n : nat) :
  flat_map (fun x => repeat x (if k x =? q then 1 else 0)) (seq 0 n)
  = List.filter (fun x => k x =? q) (seq 0 n).
Proof. apply (flat_repeat_filter (fun x => k x =? q)). Qed.

Lemma count_occ_single (a q : nat) : count_occ Nat.eq_dec [a] q = if a =? q then 1 else 0.
Proof.
  cbn [count_occ]. destruct (Nat.eq_dec a q) as [E|E].
  - apply Nat.eqb_eq in E. rewrite E. reflexivity.
  - apply Nat.eqb_neq in E. rewrite E. reflexivity.
Qed.

(* two lists with the same occurrence counts are permutations of each other *)
Lemma count_occ_eq_perm (l1 l2 : list nat) :
  (forall x, count_occ Nat.eq_dec l1 x = count_occ Nat.eq_dec l2 x) -> Permutation l1 l2.
Proof. intros H. apply (Permutation_count_occ Nat.eq_dec). exact H. Qed.

Lemma bool_eq_of_iff (b1 b2 : bool) (P : Prop) : (b1 = true <-> P) -> (b2 = true <-> P) -> b1 = b2.
Proof.
  intros H1 H2. destruct b1, b2; auto.
  - symmetry. apply H2. apply H1. reflexivity.
  - apply H1. apply H2. reflexivity.
Qed.

(* ================================================================== *)
(** * Section 2: layer_function_to_layers *)
(* ================================================================== *)

Theorem conv_layers_ok : forall B, BackendOK B -> conv_layers_spec B.
Proof.
  intros B OK ord Wo.
  destruct (C08_elements_f Wo) as (e & He & We & Hde).
  pose proof (C08_elements_ok ff_vops ord) as He'. rewrite He in He'. inversion He' as [Ee]. clear He'.
  assert (Hle : ic_len e = ff_source ord).
  { rewrite Ee. unfold ic_len, ff_source. cbn [ic_sources table vlen ff_vops]. apply repeat_length. }
  assert (Hte : target (ic_values e) = target ord) by (rewrite Ee; reflexivity).
  destruct (converse_ok_perm OK We) as (c & Hc & Wc & Hlc & Htc & Hperm).
  destruct (C08_iter_f Wc) as (_ & _ & _ & _ & _ & _ & _ & _ & Hcol).
  set (F := fun t => mkFF t (target (ic_values c))) in *.
  assert (Hlen : length (decode_f c) = target ord).
  { unfold decode_f. rewrite SegThm.segs_length.
    change (length (table (ic_sources c))) with (ic_len c). lia. }
  exists (map F (decode_f c)). split; [|split].
  - unfold layer_function_to_layers. rewrite He. cbn [bind]. rewrite Hc. cbn [bind]. exact Hcol.
  - rewrite map_length. exact Hlen.
  - intros l Hl.
    assert (En : nth l (map F (decode_f c)) (mkFF [] 0) = F (nth l (decode_f c) [])).
    { rewrite (nth_indep _ (mkFF [] 0) (F [])) by (rewrite map_length; lia).
      apply (map_nth F). }
    rewrite En. unfold F. cbn [table target]. split. lia.
    eapply Permutation_trans. apply Hperm. lia.
    rewrite Hle. rewrite <- flat_repeat_filter_seq.
    rewrite (@flat_map_ext_in _ _
      (fun x => repeat x (count_occ Nat.eq_dec (nth x (decode_f e) []) l))
      (fun x => repeat x (if nth x (table ord) 0 =? l then 1 else 0))).
    apply Permutation_refl.
    intros x Hx. apply in_seq in Hx. f_equal. rewrite Hde.
    rewrite (nth_indep _ [] [0]) by (rewrite map_length; unfold ff_source in Hx; lia).
    rewrite (map_nth (fun y => [y]) (table ord) 0). apply count_occ_single.
Qed.

(* ================================================================== *)
(** * Section 3: premise-free C16 and C18 *)
(* ================================================================== *)

Section Final.
  Variable B : Backend.
  Hypothesis OK : BackendOK B.

  Section C16f.
    Variables O A T : Type.
    Variable default : T.
    Variable interp : A -> list T -> list T.
    Variable apply : list A -> ic (list T) -> res (ic (list T)).
    Hypothesis AP : apply_spec interp apply.

    Theorem C16f_total (f : ohg O A) inp : wf_ohg f ->
      eval B default apply f inp = Ok None \/ exists out, eval B default apply f inp = Ok (Some out).
    Proof. apply (C16_total OK (adj_ops_ok OK) (conv_layers_ok OK) default AP). Qed.

    Theorem C16f_refuses_iff_cyclic (f : ohg O A) inp : wf_ohg f ->
      length inp = length (table (o_s f)) ->
      (eval B default apply f inp = Ok None <-> ~ acyclic_ops f).
    Proof. apply (C16_refuses_iff_cyclic OK (adj_ops_ok OK) (conv_layers_ok OK) default AP). Qed.

    Theorem C16f_computes (f : ohg O A) inp : wf_ohg f -> acyclic_ops f -> single_writer f ->
      arity_ok interp f -> length inp = length (table (o_s f)) ->
      exists out mem, eval B default apply f inp = Ok (Some out) /\
        Valuation default interp f inp mem /\ length mem = length (h_w (o_h f)) /\
        out = map (fun v => nth v mem default) (table (o_t f)).
    Proof. apply (C16_computes OK (adj_ops_ok OK) (conv_layers_ok OK) default AP). Qed.

    Theorem C16f_any_order (f : ohg O A) inp sigma : wf_ohg f -> single_writer f ->
      arity_ok interp f -> length inp = length (table (o_s f)) ->
      Permutation sigma (seq 0 (length (h_x (o_h f)))) -> respects f sigma ->
      let mem := seq_interp default interp f sigma (init_mem default f inp) in
      Valuation default interp f inp mem /\ length mem = length (h_w (o_h f)) /\
      eval B default apply f inp = Ok (Some (map (fun v => nth v mem default) (table (o_t f)))).
    Proof. apply (C16_any_order OK (adj_ops_ok OK) (conv_layers_ok OK) default AP). Qed.

    Theorem C16f_numbering_independent (f f' : ohg O A) inp : wf_ohg f -> wf_ohg f' ->
      Iso (abs f) (abs f') -> acyclic_ops f -> single_writer f -> arity_ok interp f ->
      length inp = length (table (o_s f)) ->
      eval B default apply f inp = eval B default apply f' inp.
    Proof.
      apply (C16_numbering_independent OK (adj_ops_ok OK) (conv_layers_ok OK) default AP).
    Qed.
  End C16f.

  Section C18f.
    Variables O A : Type.
    Variables g h : hg O A.
    Variables w x : ff.

    Theorem C18f_convex :
      wf_hg h -> wf_ff w -> target w = length (h_w h) -> wf_ff x -> target x = length (h_x h) ->
      NoDup (table w) -> NoDup (table x) ->
      exists b, arrow_is_convex_subgraph B (mkArrow g h w x) = Ok b /\
                (b = true <-> Convex_arrow (mkArrow g h w x)).
    Proof. apply (C18_convex OK (adj_nodes_ok OK)). Qed.

    Theorem C18f_convex_iff :
      wf_hg h -> wf_ff w -> target w = length (h_w h) -> wf_ff x -> target x = length (h_x h) ->
      exists b, arrow_is_convex_subgraph B (mkArrow g h w x) = Ok b /\
                (b = true <->
                 (NoDup (table w) /\ NoDup (table x)) /\ Convex_arrow (mkArrow g h w x)).
    Proof. apply (C18_convex_iff OK (adj_nodes_ok OK)). Qed.
  End C18f.
End Final.

(* ================================================================== *)
(** * Section 4: C20 -- independence of unspecified back-end choices *)
(* ================================================================== *)

(* Only the operations below take a back-end argument.  Tensor, dagger, the degree functions,
   monogamy, morphism validation and the monomorphism test do not take a back-end argument at all
   (their model functions have no [Backend] parameter), so there is nothing to prove for them:
   their results are the same whatever back-end the rest of the program uses. *)

Section C20.
  Variables B1 B2 : Backend.
  Hypothesis OK1 : BackendOK B1.
  Hypothesis OK2 : BackendOK B2.

  (* ---------- composition ---------- *)
  Section Compose.
    Variables O A : Type.
    Variable eqO : O -> O -> bool.
    Hypothesis eqO_spec : forall x y, eqO x y = true <-> x = y.

    Lemma eqO_dec (x y : O) : {x = y} + {x <> y}.
    Proof.
      destruct (eqO x y) eqn:E.
      - left. apply eqO_spec. exact E.
      - right. intros H. apply eqO_spec in H. congruence.
    Defined.

    Lemma types_dec (l1 l2 : list (option O)) : {l1 = l2} + {l1 <> l2}.
    Proof. apply list_eq_dec. intros a b. decide equality. apply eqO_dec. Defined.

    Lemma compose_cases B (OKB : BackendOK B) (f g : ohg O A) : wf_ohg f -> wf_ohg g ->
      (tgt_type (abs f) <> src_type (abs g) /\ ohg_compose B eqO f g = Ok None) \/
      (tgt_type (abs f) = src_type (abs g) /\
       exists h, ohg_compose B eqO f g = Ok (Some h) /\ IsCompose (abs f) (abs g) (abs h)).
    Proof.
      intros Wf Wg. destruct (types_dec (tgt_type (abs f)) (src_type (abs g))) as [E|E].
      - right. split. exact E.
        destruct (C01_compose_is_gluing OKB eqO eqO_spec Wf Wg E) as (h & Hc & _ & Hi).
        exists h. split; assumption.
      - left. split. exact E. apply (C01_mismatch_is_none B eqO eqO_spec Wf Wg E).
    Qed.

    Theorem C20_compose (f g : ohg O A) : wf_ohg f -> wf_ohg g ->
      (ohg_compose B1 eqO f g = Ok None <-> ohg_compose B2 eqO f g = Ok None) /\
      (forall h1 h2, ohg_compose B1 eqO f g = Ok (Some h1) -> ohg_compose B2 eqO f g = Ok (Some h2) ->
         NIso (abs h1) (abs h2)).
    Proof.
      intros Wf Wg.
      destruct (compose_cases OK1 Wf Wg) as [(E1 & H1)|(E1 & h1' & H1 & I1)];
      destruct (compose_cases OK2 Wf Wg) as [(E2 & H2)|(E2 & h2' & H2 & I2)]; try contradiction.
      - split. split; intros _; assumption.
        intros h1 h2 K1 K2. rewrite H1 in K1. discriminate.
      - split. split; intros K; [rewrite H1 in K|rewrite H2 in K]; discriminate.
        intros h1 h2 K1 K2. rewrite H1 in K1. rewrite H2 in K2.
        inversion K1; inversion K2; subst h1' h2'.
        apply (C01_gluing_unique_wf Wf Wg I1 I2).
    Qed.
  End Compose.

  (* ---------- layering ---------- *)
  Section Layer.
    Variables O A : Type.

    Theorem C20_layer (f : ohg O A) : wf_ohg f -> layer B1 f = layer B2 f.
    Proof.
      intros W. set (m := length (h_x (o_h f))).
      destruct (C15_returns OK1 W) as (o1 & u1 & L1 & S1 & T1 & Lu1 & _ & Hb1 & Hz1 & _).
      destruct (C15_returns OK2 W) as (o2 & u2 & L2 & S2 & T2 & Lu2 & _ & Hb2 & Hz2 & _).
      fold m in S1, T1, Lu1, Hb1, Hz1, S2, T2, Lu2, Hb2, Hz2.
      destruct (layer_levels OK1 W L1) as (V1 & D1). destruct (layer_levels OK2 W L2) as (V2 & D2).
      fold m in V1, D1, V2, D2.
      assert (Eu : u1 = u2).
      { apply nth_ext with (d := 0) (d' := 0). lia. intros x Hx. rewrite Lu1 in Hx.
        destruct (Hb1 x Hx) as [Z1|Z1].
        - rewrite Z1. symmetry. apply V2. exact Hx. apply V1. exact Hx. exact Z1.
        - destruct (Hb2 x Hx) as [Z2|Z2]; [|lia].
          assert (Z1' : nth x u1 0 = 0) by (apply V1; [exact Hx|apply V2; [exact Hx|exact Z2]]). lia. }
      assert (Eo : table o1 = table o2).
      { unfold ff_source in S1, S2. apply nth_ext with (d := 0) (d' := 0). lia.
        intros x Hx. rewrite S1 in Hx.
        change (C08Thm.ff_app o1 x = C08Thm.ff_app o2 x).
        destruct (Hb1 x Hx) as [Z1|Z1].
        - destruct (proj1 (V1 x Hx) Z1) as (d & Hd).
          rewrite (D1 x d Hx Hd), (D2 x d Hx Hd). reflexivity.
        - rewrite (Hz1 x Hx Z1). rewrite Eu in Z1. rewrite (Hz2 x Hx Z1). reflexivity. }
      rewrite L1, L2. destruct o1 as [t1 g1], o2 as [t2 g2]. cbn [table target] in *.
      subst. reflexivity.
    Qed.

    Theorem C20_layered_operations (f : ohg O A) g1 u1 g2 u2 : wf_ohg f ->
      layered_operations B1 f = Ok (g1, u1) -> layered_operations B2 f = Ok (g2, u2) ->
      u1 = u2 /\ length g1 = length g2 /\ forall l, Permutation (nth l g1 []) (nth l g2 []).
    Proof.
      intros W H1 H2. set (m := length (h_x (o_h f))).
      destruct (C15_grouped OK1 W H1) as (o1 & L1 & Lg1 & C1 & In1 & _).
      destruct (C15_grouped OK2 W H2) as (o2 & L2 & Lg2 & C2 & In2 & _).
      fold m in Lg1, C1, In1, Lg2, C2, In2.
      pose proof (C20_layer W) as E. rewrite L1, L2 in E. inversion E as [[Eo Eu]]. subst o2 u2. clear E.
      split; [reflexivity|split; [lia|]].
      intros l. apply count_occ_eq_perm. intros x.
      assert (G : forall (gr : list (list nat)),
                (forall y, y < m ->
                   count_occ Nat.eq_dec (nth (C08Thm.ff_app o1 y) gr []) y = 1 /\
                   (forall l', l' <> C08Thm.ff_app o1 y -> ~ In y (nth l' gr [])) /\
                   count_occ Nat.eq_dec (concat gr) y = 1) ->
                (forall l' y, In y (nth l' gr []) -> y < m) ->
                count_occ Nat.eq_dec (nth l gr []) x
                = if (x <? m) && (C08Thm.ff_app o1 x =? l) then 1 else 0).
      { intros gr Hc Hin. destruct (x <? m) eqn:Ex; cbn [andb].
        - apply Nat.ltb_lt in Ex. destruct (Hc x Ex) as (Hone & Hnot & _).
          destruct (C08Thm.ff_app o1 x =? l) eqn:El.
          + apply Nat.eqb_eq in El. rewrite <- El. exact Hone.
          + apply Nat.eqb_neq in El. apply count_occ_not_In. apply Hnot. congruence.
        - apply Nat.ltb_ge in Ex. apply count_occ_not_In. intros Hi. apply Hin in Hi. lia. }
      rewrite (G g1 C1 In1), (G g2 C2 In2). reflexivity.
    Qed.
  End Layer.

  (* ---------- evaluation ---------- *)
  Theorem C20_eval O A T (default : T) (interp : A -> list T -> list T)
      (apply : list A -> ic (list T) -> res (ic (list T))) (f : ohg O A) inp :
    apply_spec interp apply -> wf_ohg f -> single_writer f -> arity_ok interp f ->
    length inp = length (table (o_s f)) ->
    eval B1 default apply f inp = eval B2 default apply f inp.
  Proof.
    intros AP W SW AR Hl.
    apply (C16_backend_independent OK1 (adj_ops_ok OK1) (conv_layers_ok OK1)
             OK2 (adj_ops_ok OK2) (conv_layers_ok OK2) default AP); assumption.
  Qed.

  (* refusal needs neither single-writer nor arity nor the length of the input *)
  Theorem C20_eval_refusal O A T (default : T) (interp : A -> list T -> list T)
      (apply : list A -> ic (list T) -> res (ic (list T))) (f : ohg O A) inp :
    apply_spec interp apply -> wf_ohg f ->
    (eval B1 default apply f inp = Ok None <-> eval B2 default apply f inp = Ok None).
  Proof.
    intros AP W.
    apply (C16_backend_independent_refusal OK1 (adj_ops_ok OK1) (conv_layers_ok OK1)
             OK2 (adj_ops_ok OK2) (conv_layers_ok OK2) default AP); assumption.
  Qed.

  (* ---------- acyclicity ---------- *)
  Theorem C20_acyclic O A (h : hg O A) : wf_hg h -> hg_is_acyclic B1 h = hg_is_acyclic B2 h.
  Proof.
    intros W. destruct (C17_acyclic OK1 W) as (b1 & H1 & I1). destruct (C17_acyclic OK2 W) as (b2 & H2 & I2).
    rewrite H1, H2. f_equal. exact (bool_eq_of_iff I1 I2).
  Qed.

  Corollary C20_acyclic_ohg O A (f : ohg O A) : wf_ohg f -> ohg_is_acyclic B1 f = ohg_is_acyclic B2 f.
  Proof. intros (W & _). apply (C20_acyclic W). Qed.

  (* ---------- convexity ---------- *)
  Theorem C20_convex O A (m : hg_arrow O A) :
    wf_hg (ar_target m) -> wf_ff (ar_w m) -> target (ar_w m) = length (h_w (ar_target m)) ->
    wf_ff (ar_x m) -> target (ar_x m) = length (h_x (ar_target m)) ->
    arrow_is_convex_subgraph B1 m = arrow_is_convex_subgraph B2 m.
  Proof.
    destruct m as [g h w x]. cbn [ar_target ar_w ar_x]. intros Wh Ww Tw Wx Tx.
    destruct (C18_convex_iff OK1 (adj_nodes_ok OK1) g Wh Ww Tw Wx Tx) as (b1 & H1 & I1).
    destruct (C18_convex_iff OK2 (adj_nodes_ok OK2) g Wh Ww Tw Wx Tx) as (b2 & H2 & I2).
    rewrite H1, H2. f_equal. exact (bool_eq_of_iff I1 I2).
  Qed.
End C20.

(* the two back-ends that the correspondence check runs *)
Theorem C20_instances : BackendOK VecBackend /\ BackendOK AdvBackend.
Proof. split. exact VecBackend_ok. exact AdvBackend_ok. Qed.

(* ================================================================== *)
(** * Section 5: examples -- the hypotheses are satisfiable, the statements are not vacuous *)
(* ================================================================== *)

(* conv_layers: the layering [3;0;2;1;2] of [C16Thm.ex_f] *)
Example ex_conv_layers_hyp : wf_ff (mkFF [3; 0; 2; 1; 2] 5).
Proof. unfold wf_ff, all_lt. cbn. repeat constructor. Qed.

Example ex_conv_layers :
  exists layers, layer_function_to_layers AdvBackend (mkFF [3; 0; 2; 1; 2] 5) = Ok layers /\
    length layers = 5 /\
    Permutation (table (nth 2 layers (mkFF [] 0))) [2; 4].
Proof.
  destruct (conv_layers_ok AdvBackend_ok ex_conv_layers_hyp) as (layers & H & Hl & Hp).
  exists layers. split; [exact H|split; [exact Hl|]].
  destruct (Hp 2) as (_ & P). cbn. lia. exact P.
Qed.

(* premise-free C16 on the arithmetic circuit of C16Thm.v, adversarial back-end *)
Example ex_C16f_computes :
  exists out mem,
    eval AdvBackend 0%Z (batch_apply C16Thm.ex_interp) C16Thm.ex_f [3%Z; 4%Z] = Ok (Some out) /\
    Valuation 0%Z C16Thm.ex_interp C16Thm.ex_f [3%Z; 4%Z] mem /\
    length mem = length (h_w (o_h C16Thm.ex_f)) /\
    out = map (fun v => nth v mem 0%Z) (table (o_t C16Thm.ex_f)).
Proof.
  apply (C16f_computes AdvBackend_ok 0%Z (batch_apply_spec C16Thm.ex_interp)
           [3%Z; 4%Z] C16Thm.ex_wf C16Thm.ex_acyclic C16Thm.ex_single_writer C16Thm.ex_arity).
  reflexivity.
Qed.

Example ex_C16f_refuses :
  eval AdvBackend 0%Z (batch_apply C16Thm.ex_interp) C16Thm.ex_cyc [3%Z] = Ok None.
Proof.
  destruct C16Thm.ex_cyc_wf_cyclic as (W & _ & Hc).
  apply (C16f_refuses_iff_cyclic AdvBackend_ok 0%Z (batch_apply_spec C16Thm.ex_interp) [3%Z] W).
  reflexivity. exact Hc.
Qed.

(* C20_eval *)
Example ex_C20_eval :
  eval VecBackend 0%Z (batch_apply C16Thm.ex_interp) C16Thm.ex_f [3%Z; 4%Z]
  = eval AdvBackend 0%Z (batch_apply C16Thm.ex_interp) C16Thm.ex_f [3%Z; 4%Z].
Proof.
  apply (C20_eval VecBackend_ok AdvBackend_ok 0%Z [3%Z; 4%Z] (batch_apply_spec C16Thm.ex_interp)
           C16Thm.ex_wf C16Thm.ex_single_writer C16Thm.ex_arity).
  reflexivity.
Qed.

(* C20_compose: the two back-ends number the nodes of the composite differently
   (C01Thm.ex_compose_vec / ex_compose_adv), the composites are isomorphic *)
Lemma nat_eqb_spec : forall x y : nat, Nat.eqb x y = true <-> x = y.
Proof. intros x y. apply Nat.eqb_eq. Qed.

Example ex_C20_compose :
  (ohg_compose VecBackend Nat.eqb C01Thm.ex_f C01Thm.ex_g = Ok None <->
   ohg_compose AdvBackend Nat.eqb C01Thm.ex_f C01Thm.ex_g = Ok None) /\
  (forall h1 h2, ohg_compose VecBackend Nat.eqb C01Thm.ex_f C01Thm.ex_g = Ok (Some h1) ->
     ohg_compose AdvBackend Nat.eqb C01Thm.ex_f C01Thm.ex_g = Ok (Some h2) -> NIso (abs h1) (abs h2)).
Proof.
  exact (C20_compose VecBackend_ok AdvBackend_ok Nat.eqb nat_eqb_spec C01Thm.ex_f_wf C01Thm.ex_g_wf).
Qed.

Example ex_C20_compose_some :
  exists h1 h2, ohg_compose VecBackend Nat.eqb C01Thm.ex_f C01Thm.ex_g = Ok (Some h1) /\
    ohg_compose AdvBackend Nat.eqb C01Thm.ex_f C01Thm.ex_g = Ok (Some h2) /\ h1 <> h2.
Proof. eexists. eexists. split; [vm_compute; reflexivity|split; [vm_compute; reflexivity|discriminate]]. Qed.

(* C20_layer / C20_layered_operations on the 8-operation example of AdjThm.v (with cycles,
   zero-arity operations and a self-dependent operation); the groups differ in order *)
Example ex_C20_layer : layer VecBackend AdjThm.ex_f = layer AdvBackend AdjThm.ex_f.
Proof. exact (C20_layer VecBackend_ok AdvBackend_ok AdjThm.ex_f_wf). Qed.

Example ex_C20_layered :
  forall l, Permutation (nth l [[0; 2; 3; 4; 5; 6]; [1]; [7]; []; []; []; []; []] [])
                        (nth l [[6; 5; 4; 3; 2; 0]; [1]; [7]; []; []; []; []; []] []).
Proof.
  apply (C20_layered_operations VecBackend_ok AdvBackend_ok AdjThm.ex_f_wf
           C15Thm.ex_layered_vec C15Thm.ex_layered_adv).
Qed.

(* C20_acyclic *)
Example ex_C20_acyclic : hg_is_acyclic VecBackend AdjThm.ex_h = hg_is_acyclic AdvBackend AdjThm.ex_h.
Proof. exact (C20_acyclic VecBackend_ok AdvBackend_ok AdjThm.ex_h_wf). Qed.

(* C20_convex / C18f_convex_iff on the shortcut example of C18cThm.v *)
Example ex_C20_convex :
  arrow_is_convex_subgraph VecBackend C18cExamples.sc_m
  = arrow_is_convex_subgraph AdvBackend C18cExamples.sc_m.
Proof.
  destruct C18cExamples.sc_w_wf as (Ww & Tw & _). destruct C18cExamples.sc_x_wf as (Wx & Tx & _).
  exact (C20_convex VecBackend_ok AdvBackend_ok C18cExamples.sc_m C18cExamples.sc_h_wf Ww Tw Wx Tx).
Qed.

Example ex_C18f_convex :
  exists b, arrow_is_convex_subgraph AdvBackend C18cExamples.sc_m = Ok b /\
            (b = true <-> Convex_arrow C18cExamples.sc_m).
Proof.
  destruct C18cExamples.sc_w_wf as (Ww & Tw & Nw). destruct C18cExamples.sc_x_wf as (Wx & Tx & Nx).
  exact (C18f_convex AdvBackend_ok C18cExamples.sc_g C18cExamples.sc_h_wf Ww Tw Wx Tx Nw Nx).
Qed.
