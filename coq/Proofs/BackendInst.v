(* Both concrete back-ends meet the documented array contract. *)
From OHG Require Import Spec.Backend Proofs.CCThm Proofs.C07aThm.

Theorem VecBackend_ok : BackendOK VecBackend.
Proof. exact (VecBackend_ok_from_cc cc_pure_ok). Qed.

Theorem AdvBackend_ok : BackendOK AdvBackend.
Proof. exact (AdvBackend_ok_from_cc adv_cc_ok). Qed.
