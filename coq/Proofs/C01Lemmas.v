(* Helper lemmas for property C01 (composition is gluing): list facts, total characterisations
   of gather / compose without a default element, decoding of segmented arrays, and the
   plain-model facts about quotients (uniqueness up to node renumbering, types). *)
From OHG Require Import Spec.Plain Proofs.PrimsThm.

Set Implicit Arguments.
Arguments Nat.sub : simpl never.

(* ---------- generic list facts ---------- *)
Lemma nth_error_ext {T} (l1 l2 : list T) :
  (forall i, nth_error l1 i = nth_error l2 i) -> l1 = l2.
Proof.
  revert l2; induction l1 as [|x l1 IH]; intros [|y l2] H; auto.
  - specialize (H 0); discriminate.
  - specialize (H 0); discriminate.
  - f_equal.
    + specialize (H 0); simpl in H; congruence.
    + apply IH. intros i. apply (H (S i)).
Qed.

Lemma map_Some_inj {T} (a b : list T) : map Some a = map Some b -> a = b.
Proof.
  revert b; induction a as [|x a IH]; intros [|y b] H; simpl in H; try discriminate; auto.
  inversion H; subst. f_equal; auto.
Qed.

Lemma list_eqb_spec {T} (eqb : T -> T -> bool) :
  (forall x y, eqb x y = true <-> x = y) ->
  forall a b, list_eqb eqb a b = true <-> a = b.
Proof.
  intros Hs. induction a as [|x a IH]; intros [|y b]; simpl; split; intros H;
    try discriminate; auto.
  - apply andb_true_iff in H. destruct H as [H1 H2].
    apply Hs in H1. apply IH in H2. subst; reflexivity.
  - inversion H; subst. apply andb_true_iff. split. apply Hs; reflexivity. apply IH; reflexivity.
Qed.

Lemma all_lt_app n l1 l2 : all_lt n l1 -> all_lt n l2 -> all_lt n (l1 ++ l2).
Proof. unfold all_lt. intros H1 H2. apply Forall_app. split; assumption. Qed.

Lemma all_lt_mono n m l : n <= m -> all_lt n l -> all_lt m l.
Proof. unfold all_lt. intros H F. eapply Forall_impl; [|exact F]. simpl. intros a Ha. lia. Qed.

Lemma all_lt_shiftl n m l : all_lt n l -> all_lt (m + n) (shiftl m l).
Proof.
  unfold all_lt, shiftl. intros F. apply Forall_forall. intros x Hx.
  apply in_map_iff in Hx. destruct Hx as (y & <- & Hy).
  rewrite Forall_forall in F. specialize (F y Hy). lia.
Qed.

Lemma all_lt_map n k (q : nat -> nat) l :
  (forall i, i < n -> q i < k) -> all_lt n l -> all_lt k (map q l).
Proof.
  unfold all_lt. intros Hq F. apply Forall_forall. intros x Hx.
  apply in_map_iff in Hx. destruct Hx as (y & <- & Hy).
  rewrite Forall_forall in F. auto.
Qed.

Lemma all_lt_In n l x : all_lt n l -> In x l -> x < n.
Proof. unfold all_lt. rewrite Forall_forall. auto. Qed.

Lemma all_lt_nil_0 l : all_lt 0 l -> l = [].
Proof. destruct l as [|x l]; auto. intros H. inversion H; lia. Qed.

Lemma all_lt_forallb n l : all_lt n l -> forallb (fun x => x <? n) l = true.
Proof.
  intros H. apply forallb_forall. intros x Hx. apply Nat.ltb_lt. eapply all_lt_In; eauto.
Qed.

Lemma NoDup_map_inj_on {X Y} (f : X -> Y) l :
  (forall x y, In x l -> In y l -> f x = f y -> x = y) -> NoDup l -> NoDup (map f l).
Proof.
  induction l as [|a l IH]; intros Hinj Hnd; simpl. constructor.
  inversion Hnd as [|a' l' Hnotin Hnd']; subst. constructor.
  - intros Hin. apply in_map_iff in Hin. destruct Hin as (b & Hb & Hbin).
    assert (b = a) by (apply Hinj; simpl; auto). subst. contradiction.
  - apply IH; auto. intros x y Hx Hy. apply Hinj; simpl; auto.
Qed.

(* pigeonhole: an injection of [0,k) into [0,k') *)
Lemma inj_on_le k k' (p : nat -> nat) :
  (forall j, j < k -> p j < k') ->
  (forall i j, i < k -> j < k -> p i = p j -> i = j) -> k <= k'.
Proof.
  intros Hr Hi.
  assert (Hnd : NoDup (map p (seq 0 k))).
  { apply NoDup_map_inj_on. 2: apply seq_NoDup.
    intros x y Hx Hy. apply in_seq in Hx, Hy. apply Hi; lia. }
  assert (Hinc : incl (map p (seq 0 k)) (seq 0 k')).
  { intros y Hy. apply in_map_iff in Hy. destruct Hy as (x & <- & Hx).
    apply in_seq in Hx. apply in_seq. specialize (Hr x). lia. }
  pose proof (NoDup_incl_length Hnd Hinc) as H.
  rewrite map_length, !seq_length in H. exact H.
Qed.

(* ---------- gather / compose without a default element ---------- *)
Lemma gather_total {T} (xs : list T) idx : all_lt (length xs) idx ->
  exists r, gather xs idx = Ok r /\ map Some r = map (nth_error xs) idx.
Proof.
  unfold all_lt. induction idx as [|i idx IH]; intros H.
  - exists []. split; reflexivity.
  - inversion H as [|i' idx' Hi Hrest]; subst.
    destruct (IH Hrest) as (r & Hr & Hm).
    destruct (nth_error xs i) as [x|] eqn:E.
    2: { apply nth_error_None in E. lia. }
    exists (x :: r). split.
    + unfold gather in *. cbn [mapM]. unfold get at 1. rewrite E. cbn [unwrap bind].
      rewrite Hr. reflexivity.
    + cbn [map]. rewrite E, Hm. reflexivity.
Qed.

Lemma ff_compose_ok (f g : ff) : target f = ff_source g -> wf_ff f ->
  ff_compose f g = Ok (Some (mkFF (map (fun i => nth i (table g) 0) (table f)) (target g))).
Proof.
  intros Ht Hw. unfold ff_compose. rewrite Ht, Nat.eqb_refl, get_range_full. cbn [bind].
  rewrite (gather_ok _ 0). reflexivity.
  unfold wf_ff, all_lt in Hw. rewrite Ht in Hw. exact Hw.
Qed.

Lemma ff_compose_semi_ok {T} (f : ff) (u : list T) : target f = length u -> wf_ff f ->
  exists r, ff_compose_semi f u = Ok (Some r) /\ map Some r = map (nth_error u) (table f).
Proof.
  intros Ht Hw. unfold ff_compose_semi. rewrite Ht, Nat.eqb_refl, get_range_full. cbn [bind].
  unfold wf_ff in Hw. rewrite Ht in Hw.
  destruct (gather_total u Hw) as (r & Hr & Hm).
  exists r. rewrite Hr. split; [reflexivity|exact Hm].
Qed.

(* ---------- segmented arrays ---------- *)
Lemma segs_length {T} sizes : forall (vals : list T), length (segs sizes vals) = length sizes.
Proof. induction sizes as [|k rest IH]; intros vals; simpl; auto. Qed.

Lemma segs_map {T U} (f : T -> U) sizes : forall vals,
  segs sizes (map f vals) = map (map f) (segs sizes vals).
Proof.
  induction sizes as [|k rest IH]; intros vals; simpl. reflexivity.
  rewrite firstn_map, skipn_map, IH. reflexivity.
Qed.

Lemma segs_app {T} s1 s2 : forall (v1 v2 : list T), length v1 = list_sum s1 ->
  segs (s1 ++ s2) (v1 ++ v2) = segs s1 v1 ++ segs s2 v2.
Proof.
  induction s1 as [|k rest IH]; intros v1 v2 H; simpl in *.
  - destruct v1; simpl in *; [reflexivity|discriminate].
  - rewrite firstn_app, skipn_app.
    replace (k - length v1) with 0 by lia. simpl. rewrite app_nil_r.
    f_equal. apply IH. rewrite skipn_length. lia.
Qed.

Lemma In_firstn {T} k (l : list T) x : In x (firstn k l) -> In x l.
Proof. intros H. rewrite <- (firstn_skipn k l). apply in_or_app. auto. Qed.

Lemma In_skipn {T} k (l : list T) x : In x (skipn k l) -> In x l.
Proof. intros H. rewrite <- (firstn_skipn k l). apply in_or_app. auto. Qed.

Lemma segs_incl {T} sizes : forall (vals l : list T), In l (segs sizes vals) -> incl l vals.
Proof.
  induction sizes as [|k rest IH]; intros vals l H; simpl in H. contradiction.
  destruct H as [<-|H].
  - intros x Hx. eapply In_firstn; eauto.
  - intros x Hx. eapply In_skipn. eapply IH; eauto.
Qed.

(* ---------- zip3 ---------- *)
Section Zip.
  Variable A : Type.

  Lemma zip3_app (xs1 xs2 : list A) : forall S1 S2 T1 T2,
    length S1 = length xs1 -> length T1 = length xs1 ->
    zip3 (xs1 ++ xs2) (S1 ++ S2) (T1 ++ T2) = zip3 xs1 S1 T1 ++ zip3 xs2 S2 T2.
  Proof.
    induction xs1 as [|x xs1 IH]; intros [|s S1] S2 [|t T1] T2 H1 H2; simpl in *; try discriminate.
    - reflexivity.
    - f_equal. apply IH; lia.
  Qed.

  Lemma zip3_map_edge (q : nat -> nat) (xs : list A) : forall S T,
    zip3 xs (map (map q) S) (map (map q) T) = map (map_edge q) (zip3 xs S T).
  Proof.
    induction xs as [|x xs IH]; intros [|s S] [|t T]; simpl; try reflexivity.
    rewrite IH. reflexivity.
  Qed.

  Lemma zip3_shift n (xs : list A) : forall S T,
    zip3 xs (map (shiftl n) S) (map (shiftl n) T) = map (shift_edge n) (zip3 xs S T).
  Proof.
    induction xs as [|x xs IH]; intros [|s S] [|t T]; simpl; try reflexivity.
    rewrite IH. reflexivity.
  Qed.

  Lemma zip3_In (e : pedge A) (xs : list A) : forall S T,
    In e (zip3 xs S T) -> In (pe_src e) S /\ In (pe_tgt e) T.
  Proof.
    induction xs as [|x xs IH]; intros [|s S] [|t T] H; simpl in H; try contradiction.
    destruct H as [<-|H]; simpl; auto.
    apply IH in H. tauto.
  Qed.
End Zip.

(* ---------- plain model: quotients ---------- *)
Section PlainFacts.
  Variables O A : Type.
  Implicit Types D f g h : pohg O A.

  Lemma conn_glue_impl (P : list (nat * nat)) (R : nat -> nat -> Prop) :
    (forall x, R x x) -> (forall x y, R x y -> R y x) -> (forall x y z, R x y -> R y z -> R x z) ->
    (forall x y, In (x, y) P -> R x y) ->
    forall i j, conn P i j -> R i j.
  Proof.
    intros Hr Hs Ht Hp i j H. induction H as [x|x y Hin|x y _ IH|x y z _ IH1 _ IH2]; eauto.
  Qed.

  Lemma pwf_pjoin f g : pwf f -> pwf g -> pwf (pjoin f g).
  Proof.
    intros (Hef & Hif & Hof) (Heg & Hig & Hog). unfold pwf, pjoin. cbn [p_nodes p_edges p_ins p_outs].
    rewrite app_length. split; [|split].
    - intros e H. apply in_app_or in H. destruct H as [H|H].
      + split; apply all_lt_mono with (n := length (p_nodes f)); try lia; apply Hef; auto.
      + apply in_map_iff in H. destruct H as (e' & <- & He'). cbn [shift_edge pe_src pe_tgt].
        split; apply all_lt_shiftl; apply Heg; auto.
    - apply all_lt_mono with (n := length (p_nodes f)). lia. exact Hif.
    - apply all_lt_shiftl. exact Hog.
  Qed.

  (* the renumbering between two quotients with the same kernel *)
  Definition renum (n : nat) (q q' : nat -> nat) (j : nat) : nat :=
    match find (fun i => q i =? j) (seq 0 n) with
    | Some i => q' i
    | None => 0
    end.

  Lemma renum_spec n q q' :
    (forall i j, i < n -> j < n -> q i = q j -> q' i = q' j) ->
    forall i, i < n -> renum n q q' (q i) = q' i.
  Proof.
    intros Hk i Hi. unfold renum.
    destruct (find (fun i0 => q i0 =? q i) (seq 0 n)) as [i0|] eqn:E.
    - apply find_some in E. destruct E as [Hin Heq].
      apply in_seq in Hin. apply Nat.eqb_eq in Heq. apply Hk; auto; lia.
    - exfalso. pose proof (find_none _ _ E i) as Hn.
      cbv beta in Hn. rewrite Nat.eqb_refl in Hn.
      assert (In i (seq 0 n)) by (apply in_seq; lia). specialize (Hn H). discriminate.
  Qed.

  Lemma quot_nodes_le D q q' h h' :
    IsQuot D q h -> IsQuot D q' h' ->
    (forall i j, i < length (p_nodes D) -> j < length (p_nodes D) -> (q i = q j <-> q' i = q' j)) ->
    length (p_nodes h) <= length (p_nodes h').
  Proof.
    intros (Hr & Hs & _) (Hr' & _) Hk.
    pose (n := length (p_nodes D)).
    assert (Hspec : forall i, i < n -> renum n q q' (q i) = q' i).
    { apply renum_spec. intros i j Hi Hj. apply Hk; auto. }
    apply inj_on_le with (p := renum n q q').
    - intros j Hj. destruct (Hs j Hj) as (i & Hi & <-). rewrite Hspec by exact Hi. auto.
    - intros j1 j2 Hj1 Hj2. destruct (Hs j1 Hj1) as (i1 & Hi1 & <-).
      destruct (Hs j2 Hj2) as (i2 & Hi2 & <-).
      rewrite !Hspec by assumption. intros E. apply Hk; auto.
  Qed.

  Theorem quot_unique D q q' h h' :
    pwf D -> IsQuot D q h -> IsQuot D q' h' ->
    (forall i j, i < length (p_nodes D) -> j < length (p_nodes D) -> (q i = q j <-> q' i = q' j)) ->
    NIso h h'.
  Proof.
    intros Hwf HQ HQ' Hk.
    assert (Hlen : length (p_nodes h) = length (p_nodes h')).
    { apply Nat.le_antisymm.
      - eapply quot_nodes_le; eauto.
      - eapply quot_nodes_le; eauto. intros i j Hi Hj. symmetry. apply Hk; auto. }
    destruct HQ as (Hr & Hs & Hl & He & Hi & Ho).
    destruct HQ' as (Hr' & Hs' & Hl' & He' & Hi' & Ho').
    destruct Hwf as (Hwe & Hwi & Hwo).
    pose (n := length (p_nodes D)).
    assert (Hspec : forall i, i < n -> renum n q q' (q i) = q' i).
    { apply renum_spec. intros i j Hi0 Hj0. apply Hk; auto. }
    assert (Hmap : forall l, all_lt n l -> map (renum n q q') (map q l) = map q' l).
    { intros l Hlt. rewrite map_map. apply map_ext_in. intros a Ha.
      apply Hspec. eapply all_lt_In; eauto. }
    split. exact Hlen.
    exists (renum n q q'). split; [|split; [|split; [|split]]].
    - split.
      + intros j Hj. destruct (Hs j Hj) as (i & Hi0 & <-). rewrite Hspec by exact Hi0.
        rewrite Hlen. auto.
      + intros j1 j2 Hj1 Hj2. destruct (Hs j1 Hj1) as (i1 & Hi1 & <-).
        destruct (Hs j2 Hj2) as (i2 & Hi2 & <-).
        rewrite !Hspec by assumption. intros E. apply Hk; auto.
    - intros j Hj. destruct (Hs j Hj) as (i & Hi0 & <-). rewrite Hspec by exact Hi0.
      rewrite Hl', Hl by exact Hi0. reflexivity.
    - rewrite He', He, map_map. apply map_ext_in. intros e Hin.
      destruct (Hwe e Hin) as [Hsrc Htgt].
      unfold map_edge. cbn [pe_lbl pe_src pe_tgt].
      rewrite !Hmap by assumption. reflexivity.
    - rewrite Hi', Hi. symmetry. apply Hmap. exact Hwi.
    - rewrite Ho', Ho. symmetry. apply Hmap. exact Hwo.
  Qed.

  (* the types of a quotient are those of the diagram it is a quotient of *)
  Lemma quot_type D q h l : IsQuot D q h -> all_lt (length (p_nodes D)) l ->
    type_of h (map q l) = type_of D l.
  Proof.
    intros (_ & _ & Hl & _) Hlt. unfold type_of. rewrite map_map.
    apply map_ext_in. intros a Ha. apply Hl. eapply all_lt_In; eauto.
  Qed.

  Lemma type_pjoin_l f g l : all_lt (length (p_nodes f)) l -> type_of (pjoin f g) l = type_of f l.
  Proof.
    intros H. unfold type_of, pjoin. cbn [p_nodes]. apply map_ext_in. intros a Ha.
    apply nth_error_app1. eapply all_lt_In; eauto.
  Qed.

  Lemma type_pjoin_r f g l :
    type_of (pjoin f g) (shiftl (length (p_nodes f)) l) = type_of g l.
  Proof.
    unfold type_of, pjoin, shiftl. cbn [p_nodes]. rewrite map_map. apply map_ext. intros a.
    rewrite nth_error_app2 by lia. f_equal. lia.
  Qed.

  Theorem compose_types f g h : pwf f -> pwf g -> IsCompose f g h ->
    src_type h = src_type f /\ tgt_type h = tgt_type g.
  Proof.
    intros Hf Hg (q & HQ & _).
    pose proof (pwf_pjoin Hf Hg) as (_ & Hi & Ho).
    destruct HQ as (Hr & Hs & Hl & He & Hins & Houts).
    assert (HQ : IsQuot (pjoin f g) q h) by (repeat split; assumption).
    unfold src_type, tgt_type. rewrite Hins, Houts. split.
    - rewrite (quot_type HQ Hi). cbn [pjoin p_ins]. apply type_pjoin_l. apply Hf.
    - rewrite (quot_type HQ Ho). cbn [pjoin p_outs]. apply type_pjoin_r.
  Qed.

  Theorem compose_unique_pwf f g h h' : pwf f -> pwf g ->
    IsCompose f g h -> IsCompose f g h' -> NIso h h'.
  Proof.
    intros Hf Hg (q & HQ & Hk) (q' & HQ' & Hk').
    apply quot_unique with (D := pjoin f g) (q := q) (q' := q'); auto using pwf_pjoin.
    cbn [pjoin p_nodes]. rewrite app_length. intros i j Hi Hj.
    rewrite Hk, Hk' by assumption. tauto.
  Qed.
End PlainFacts.
