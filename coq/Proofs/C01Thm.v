(* Property C01: sequential composition of open hypergraphs is the gluing of f's outputs to g's
   inputs; it fails (None, no panic) exactly on a type mismatch. *)
From OHG Require Import Spec.Plain Proofs.PrimsThm Proofs.C01Lemmas.

Set Implicit Arguments.
Arguments Nat.sub : simpl never.

(* ---------- back-end independent facts about the encoding ---------- *)
Section Encoding.
  Variables O A : Type.

  Lemma ohg_source_ok (f : ohg O A) : wf_ohg f ->
    exists r, ohg_source f = Ok r /\ map Some r = src_type (abs f).
  Proof.
    intros (_ & Hs & _ & Hts & _). unfold ohg_source.
    destruct (ff_compose_semi_ok _ Hts Hs) as (r & Hr & Hm).
    rewrite Hr. cbn [bind unwrap]. exists r. split; [reflexivity|exact Hm].
  Qed.

  Lemma ohg_target_ok (f : ohg O A) : wf_ohg f ->
    exists r, ohg_target f = Ok r /\ map Some r = tgt_type (abs f).
  Proof.
    intros (_ & _ & Ht & _ & Htt). unfold ohg_target.
    destruct (ff_compose_semi_ok _ Htt Ht) as (r & Hr & Hm).
    rewrite Hr. cbn [bind unwrap]. exists r. split; [reflexivity|exact Hm].
  Qed.

  Lemma decode_all_lt (c : icf) l : wf_ff (ic_values c) -> In l (decode_f c) ->
    all_lt (target (ic_values c)) l.
  Proof.
    intros Hw Hin. unfold decode_f in Hin. apply segs_incl in Hin.
    unfold all_lt. apply Forall_forall. intros x Hx. apply Hin in Hx.
    eapply all_lt_In; eauto.
  Qed.

  Lemma wf_abs_pwf (f : ohg O A) : wf_ohg f -> pwf (abs f).
  Proof.
    intros (((_ & Hws) & (_ & Hwt) & _ & _ & Hts & Htt) & Hs & Ht & Hss & Htt').
    unfold pwf, abs. cbn [p_nodes p_edges p_ins p_outs]. split; [|split].
    - intros e He. unfold abs_hg_edges in He. apply zip3_In in He. destruct He as [H1 H2].
      split.
      + rewrite <- Hts. apply decode_all_lt; auto.
      + rewrite <- Htt. apply decode_all_lt; auto.
    - rewrite <- Hss. exact Hs.
    - rewrite <- Htt'. exact Ht.
  Qed.

  Lemma icf_tensor_ok (c d : icf) : wf_icf c ->
    icf_tensor c d =
    Ok (mkIC (mkFF (table (ic_sources c) ++ table (ic_sources d))
                   (target (ic_sources c) + target (ic_sources d) - 1))
             (ff_tensor (ic_values c) (ic_values d))).
  Proof.
    intros ((Ht & _) & _). unfold icf_tensor, sub_chk.
    replace (1 <=? target (ic_sources c) + target (ic_sources d)) with true.
    reflexivity. symmetry. apply Nat.leb_le. lia.
  Qed.

  Lemma icf_map_values_ok (c : icf) (q : ff) : target (ic_values c) = ff_source q ->
    wf_ff (ic_values c) ->
    icf_map_values c q =
    Ok (Some (mkIC (ic_sources c)
                   (mkFF (map (fun i => nth i (table q) 0) (table (ic_values c))) (target q)))).
  Proof.
    intros Ht Hw. unfold icf_map_values. rewrite ff_compose_ok by assumption. reflexivity.
  Qed.

  (* decoding of the tensored-then-quotiented segmented array *)
  Lemma decode_glue (q : nat -> nat) n (c d : icf) tg k : wf_icf c ->
    decode_f (mkIC (mkFF (table (ic_sources c) ++ table (ic_sources d)) tg)
                   (mkFF (map q (table (ic_values c) ++ add_scalar n (table (ic_values d)))) k)) =
    map (map q) (decode_f c ++ map (shiftl n) (decode_f d)).
  Proof.
    intros ((_ & Hsum) & _). unfold decode_f. cbn [ic_sources ic_values table].
    rewrite segs_map. f_equal. rewrite segs_app by (symmetry; exact Hsum).
    f_equal. unfold add_scalar. rewrite segs_map. reflexivity.
  Qed.

  (* position-wise equality of two interface types *)
  Lemma combine_types (w1 w2 : list O) n : forall l1 l2 : list nat,
    map (nth_error w1) l1 = map (nth_error w2) l2 ->
    forall x y, In (x, y) (combine l1 (shiftl n l2)) ->
      exists y', y = y' + n /\ nth_error w1 x = nth_error w2 y'.
  Proof.
    induction l1 as [|a l1 IH]; intros [|b l2] H x y Hin; simpl in *; try contradiction.
    inversion H as [[H1 H2]]. destruct Hin as [E|Hin].
    - inversion E; subst. exists b. split; auto.
    - eapply IH; eauto.
  Qed.

  Lemma labels_const (f g : ohg O A) : wf_ohg f -> wf_ohg g ->
    tgt_type (abs f) = src_type (abs g) ->
    forall i j, conn (glue_pairs (abs f) (abs g)) i j ->
      nth_error (h_w (o_h f) ++ h_w (o_h g)) i = nth_error (h_w (o_h f) ++ h_w (o_h g)) j.
  Proof.
    intros Hf Hg Hty.
    apply conn_glue_impl; try congruence.
    intros x y Hin. unfold glue_pairs, abs in Hin. cbn [p_outs p_ins p_nodes] in Hin.
    pose proof Hin as Hin2. apply in_combine_l in Hin2.
    destruct (combine_types _ _ _ _ _ Hty _ _ Hin) as (y' & -> & E).
    destruct Hf as (_ & _ & Ht & _ & Htt). unfold wf_ff in Ht. rewrite Htt in Ht.
    rewrite nth_error_app1 by (eapply all_lt_In; eauto).
    rewrite nth_error_app2 by lia. cbn [abs p_nodes] in E. rewrite E. f_equal. lia.
  Qed.
End Encoding.

(* ---------- the computation ---------- *)
Section C01.
  Variable B : Backend.
  Hypothesis OK : BackendOK B.
  Variables O A : Type.
  Variable eqO : O -> O -> bool.
  Hypothesis eqO_spec : forall x y, eqO x y = true <-> x = y.

  Implicit Types f g h : ohg O A.

  (* the back-end's answer for the boundary identification *)
  Definition cc_of f g : list nat * nat :=
    b_conn_comp B (table (o_t f)) (add_scalar (length (h_w (o_h f))) (table (o_s g)))
                (length (h_w (o_h g)) + length (h_w (o_h f))).
  Definition qfun f g (i : nat) : nat := nth i (fst (cc_of f g)) 0.
  Definition qk f g : nat := snd (cc_of f g).

  Definition glue_ic f g (c d : icf) : icf :=
    mkIC (mkFF (table (ic_sources c) ++ table (ic_sources d))
               (target (ic_sources c) + target (ic_sources d) - 1))
         (mkFF (map (qfun f g)
                    (table (ic_values c) ++ add_scalar (length (h_w (o_h f))) (table (ic_values d))))
               (qk f g)).

  (* what compose computes, given the label array [u] produced by the scatter *)
  Definition compose_pure f g (u : list O) : ohg O A :=
    mkOHG (mkFF (map (qfun f g) (table (o_s f))) (qk f g))
          (mkFF (map (qfun f g) (add_scalar (length (h_w (o_h f))) (table (o_t g)))) (qk f g))
          (mkHG (glue_ic f g (h_s (o_h f)) (h_s (o_h g)))
                (glue_ic f g (h_t (o_h f)) (h_t (o_h g)))
                u (h_x (o_h f) ++ h_x (o_h g))).

  Lemma cc_facts f g : wf_ohg f -> wf_ohg g ->
    length (table (o_t f)) = length (table (o_s g)) ->
    length (fst (cc_of f g)) = length (h_w (o_h g)) + length (h_w (o_h f)) /\
    all_lt (qk f g) (fst (cc_of f g)) /\
    (forall j, j < qk f g -> In j (fst (cc_of f g))) /\
    (forall i j, i < length (h_w (o_h g)) + length (h_w (o_h f)) ->
                 j < length (h_w (o_h g)) + length (h_w (o_h f)) ->
                 (qfun f g i = qfun f g j <-> conn (glue_pairs (abs f) (abs g)) i j)).
  Proof.
    intros (_ & _ & Ht & _ & Htt) (_ & Hs & _ & Hss & _) Hlen.
    unfold wf_ff in Ht, Hs. rewrite Htt in Ht. rewrite Hss in Hs.
    apply (@bk_cc B OK).
    - unfold add_scalar. rewrite map_length. exact Hlen.
    - eapply all_lt_mono; [|exact Ht]. lia.
    - rewrite Nat.add_comm. apply all_lt_shiftl. exact Hs.
  Qed.

  Lemma coeq_ok f g : wf_ohg f -> wf_ohg g ->
    length (table (o_t f)) = length (table (o_s g)) ->
    ff_coequalizer B (ff_inject0 (o_t f) (length (h_w (o_h g))))
                     (ff_inject1 (o_s g) (length (h_w (o_h f)))) =
    Ok (Some (mkFF (fst (cc_of f g)) (qk f g))).
  Proof.
    intros (_ & _ & Ht & _ & Htt) (_ & Hs & _ & Hss & _) Hlen.
    unfold wf_ff in Ht, Hs. rewrite Htt in Ht. rewrite Hss in Hs.
    unfold ff_coequalizer, ff_inject0, ff_inject1, ff_source. cbn [table target].
    rewrite Htt, Hss. unfold add_scalar at 1. rewrite map_length, Hlen, Nat.eqb_refl.
    replace (length (h_w (o_h g)) + length (h_w (o_h f)) =?
             length (h_w (o_h f)) + length (h_w (o_h g))) with true
      by (symmetry; apply Nat.eqb_eq; lia).
    cbn [negb orb]. unfold connected_components.
    unfold add_scalar at 1. rewrite map_length, Hlen, Nat.eqb_refl. cbn [assert bind].
    rewrite all_lt_forallb by (eapply all_lt_mono; [|exact Ht]; lia).
    rewrite all_lt_forallb by (rewrite Nat.add_comm; apply all_lt_shiftl; exact Hs).
    cbn [andb assert bind]. unfold qk, cc_of.
    destruct (b_conn_comp B (table (o_t f)) (add_scalar (length (h_w (o_h f))) (table (o_s g)))
                (length (h_w (o_h g)) + length (h_w (o_h f)))) as [c k].
    reflexivity.
  Qed.

  (* the universal map of the coequalizer on labels *)
  Lemma coeq_univ_ok (c : list nat) k (xs : list O) :
    length c = length xs -> all_lt k c -> (forall j, j < k -> In j c) ->
    (forall i j, i < length xs -> j < length xs -> nth i c 0 = nth j c 0 ->
                 nth_error xs i = nth_error xs j) ->
    exists u, coequalizer_universal B eqO (mkFF c k) xs = Ok (Some u) /\ length u = k /\
              forall i, i < length xs -> nth_error u (nth i c 0) = nth_error xs i.
  Proof.
    intros Hlen Hlt Hsurj Hconst.
    unfold coequalizer_universal, ff_source. cbn [table target].
    rewrite Hlen, Nat.eqb_refl. cbn [negb]. rewrite get_range_full. cbn [bind].
    destruct xs as [|x0 xs'].
    - destruct c as [|c0 c']; [|discriminate].
      assert (k = 0).
      { destruct k as [|k']; auto. exfalso. apply (Hsurj 0). lia. }
      subst k. rewrite (@bk_scatter_nil B OK). cbn [bind].
      exists []. split; [|split].
      + reflexivity.
      + reflexivity.
      + simpl. intros i Hi. lia.
    - assert (Hne : x0 :: xs' <> []) by discriminate.
      remember (x0 :: xs') as xs eqn:Exs. clear Exs x0 xs'.
      destruct (@bk_scatter B OK O xs c k Hlen Hlt Hne) as (y & Hy & Hleny & Hprop).
      rewrite Hy. cbn [bind].
      assert (Hkey : forall i, i < length xs -> nth_error y (nth i c 0) = nth_error xs i).
      { intros i Hi.
        destruct (Hprop (nth i c 0)) as (i' & Hi' & Hyi).
        { apply nth_In. lia. }
        rewrite Hyi.
        assert (Hi'lt : i' < length c) by (apply nth_error_Some; congruence).
        apply Hconst; try lia.
        apply nth_error_nth with (d := 0) in Hi'. exact Hi'. }
      destruct (@ff_compose_semi_ok O (mkFF c k) y) as (r & Hr & Hm).
      { cbn [target]. symmetry. exact Hleny. }
      { exact Hlt. }
      rewrite Hr. cbn [bind unwrap]. cbn [table] in Hm.
      assert (Hrx : r = xs).
      { apply map_Some_inj. rewrite Hm. apply nth_error_ext. intros i.
        rewrite !nth_error_map.
        destruct (lt_dec i (length xs)) as [Hi|Hi].
        - rewrite (nth_error_nth' c 0) by lia. cbn [option_map]. rewrite Hkey by exact Hi.
          destruct (nth_error xs i) as [x|] eqn:E; [reflexivity|].
          apply nth_error_None in E. lia.
        - replace (nth_error c i) with (@None nat) by (symmetry; apply nth_error_None; lia).
          replace (nth_error xs i) with (@None O) by (symmetry; apply nth_error_None; lia).
          reflexivity. }
      subst r.
      replace (list_eqb eqO xs xs) with true
        by (symmetry; apply (list_eqb_spec eqO eqO_spec); reflexivity).
      exists y. split; [reflexivity|]. split; [exact Hleny|exact Hkey].
  Qed.

  Lemma type_eq_length f g : tgt_type (abs f) = src_type (abs g) ->
    length (table (o_t f)) = length (table (o_s g)).
  Proof.
    intros H. apply (f_equal (@length _)) in H.
    unfold tgt_type, src_type, type_of, abs in H. cbn [p_outs p_ins] in H.
    rewrite !map_length in H. exact H.
  Qed.

  Lemma compose_ok f g : wf_ohg f -> wf_ohg g -> tgt_type (abs f) = src_type (abs g) ->
    exists u, ohg_compose B eqO f g = Ok (Some (compose_pure f g u)) /\
      length u = qk f g /\
      forall i, i < length (h_w (o_h f)) + length (h_w (o_h g)) ->
        nth_error u (qfun f g i) = nth_error (h_w (o_h f) ++ h_w (o_h g)) i.
  Proof.
    intros Hf Hg Hty.
    destruct (ohg_target_ok Hf) as (tf & Htf & Htf').
    destruct (ohg_source_ok Hg) as (sg & Hsg & Hsg').
    assert (Heq : tf = sg) by (apply map_Some_inj; congruence).
    pose proof (type_eq_length _ _ Hty) as Hlen.
    pose proof (cc_facts Hf Hg Hlen) as (Hc1 & Hc2 & Hc3 & Hc4).
    pose proof (labels_const Hf Hg Hty) as Hlab.
    destruct (@coeq_univ_ok (fst (cc_of f g)) (qk f g) (h_w (o_h f) ++ h_w (o_h g)))
      as (u & Hu & Hlenu & Hkey).
    { rewrite Hc1, app_length. lia. }
    { exact Hc2. }
    { exact Hc3. }
    { rewrite app_length. intros i j Hi Hj E. apply Hlab. apply Hc4; try lia. exact E. }
    rewrite app_length in Hkey.
    exists u. split; [|split; [exact Hlenu|exact Hkey]].
    unfold ohg_compose. rewrite Htf, Hsg. cbn [bind].
    replace (list_eqb eqO tf sg) with true
      by (symmetry; apply (list_eqb_spec eqO eqO_spec); exact Heq).
    cbn [negb]. rewrite (coeq_ok Hf Hg Hlen). cbn [bind unwrap].
    destruct Hf as ((Hfs & Hft & Hfxs & Hfxt & Hfws & Hfwt) & Hfi & Hfo & Hfit & Hfot).
    destruct Hg as ((Hgs & Hgt & Hgxs & Hgxt & Hgws & Hgwt) & Hgi & Hgo & Hgit & Hgot).
    rewrite ff_compose_ok.
    2: { unfold ff_inject0, ff_source. cbn [target table]. rewrite Hc1, Hfit. reflexivity. }
    2: { unfold wf_ff, ff_inject0. cbn [target table]. eapply all_lt_mono; [|exact Hfi]. lia. }
    cbn [bind unwrap].
    rewrite ff_compose_ok.
    2: { unfold ff_inject1, ff_source. cbn [target table]. rewrite Hc1, Hgot. lia. }
    2: { unfold wf_ff, ff_inject1. cbn [target table]. apply all_lt_shiftl. exact Hgo. }
    cbn [bind unwrap].
    unfold ohg_tensor, hg_coproduct.
    rewrite !icf_tensor_ok by assumption. cbn [bind o_h].
    unfold hg_coequalize_vertices. cbn [h_s h_t h_w h_x].
    rewrite icf_map_values_ok.
    2: { unfold ff_tensor, ff_source. cbn [ic_values target table]. rewrite Hc1, Hfws, Hgws. lia. }
    2: { unfold wf_ff, ff_tensor. cbn [ic_values target table]. apply all_lt_app.
         - eapply all_lt_mono; [|apply Hfs]. lia.
         - apply all_lt_shiftl. apply Hgs. }
    cbn [bind].
    rewrite icf_map_values_ok.
    2: { unfold ff_tensor, ff_source. cbn [ic_values target table]. rewrite Hc1, Hfwt, Hgwt. lia. }
    2: { unfold wf_ff, ff_tensor. cbn [ic_values target table]. apply all_lt_app.
         - eapply all_lt_mono; [|apply Hft]. lia.
         - apply all_lt_shiftl. apply Hgt. }
    cbn [bind].
    rewrite Hu. cbn [bind unwrap].
    unfold compose_pure, glue_ic, ff_tensor, ff_inject0, ff_inject1.
    cbn [ic_sources ic_values table target]. rewrite Hfws, Hfwt.
    reflexivity.
  Qed.

  Lemma qfun_lt f g : wf_ohg f -> wf_ohg g ->
    length (table (o_t f)) = length (table (o_s g)) ->
    forall i, i < length (h_w (o_h f)) + length (h_w (o_h g)) -> qfun f g i < qk f g.
  Proof.
    intros Hf Hg Hlen i Hi.
    pose proof (cc_facts Hf Hg Hlen) as (Hc1 & Hc2 & _).
    eapply all_lt_In; [exact Hc2|]. unfold qfun. apply nth_In. lia.
  Qed.

  Lemma wf_glue_ic f g (c d : icf) : wf_ohg f -> wf_ohg g ->
    length (table (o_t f)) = length (table (o_s g)) ->
    wf_icf c -> wf_icf d ->
    target (ic_values c) = length (h_w (o_h f)) -> target (ic_values d) = length (h_w (o_h g)) ->
    wf_icf (glue_ic f g c d).
  Proof.
    intros Hf Hg Hlen ((Hc1 & Hc2) & Hc3) ((Hd1 & Hd2) & Hd3) Hct Hdt.
    unfold wf_icf, wf_ic, wf_ff, glue_ic, ff_source in *.
    cbn [ic_sources ic_values table target]. rewrite Hct in Hc3. rewrite Hdt in Hd3.
    split; [split|].
    - rewrite list_sum_app. lia.
    - rewrite list_sum_app, map_length, app_length. unfold add_scalar. rewrite map_length. lia.
    - apply all_lt_map with (n := length (h_w (o_h f)) + length (h_w (o_h g))).
      + apply qfun_lt; assumption.
      + apply all_lt_app.
        * eapply all_lt_mono; [|exact Hc3]. lia.
        * apply all_lt_shiftl. exact Hd3.
  Qed.

  Lemma wf_compose_pure f g u : wf_ohg f -> wf_ohg g ->
    length (table (o_t f)) = length (table (o_s g)) ->
    length u = qk f g -> wf_ohg (compose_pure f g u).
  Proof.
    intros Hf Hg Hlen Hu.
    pose proof (qfun_lt Hf Hg Hlen) as Hq.
    pose proof (fun c d => @wf_glue_ic f g c d Hf Hg Hlen) as Hglue.
    destruct Hf as ((Hfs & Hft & Hfxs & Hfxt & Hfws & Hfwt) & Hfi & Hfo & Hfit & Hfot).
    destruct Hg as ((Hgs & Hgt & Hgxs & Hgxt & Hgws & Hgwt) & Hgi & Hgo & Hgit & Hgot).
    unfold wf_ohg, wf_hg, compose_pure. cbn [o_h o_s o_t h_s h_t h_w h_x target].
    split; [split; [|split; [|split; [|split; [|split]]]]|split; [|split; [|split]]].
    - apply Hglue; assumption.
    - apply Hglue; assumption.
    - unfold ic_len, ff_source, glue_ic in *. cbn [ic_sources table].
      rewrite !app_length. lia.
    - unfold ic_len, ff_source, glue_ic in *. cbn [ic_sources table].
      rewrite !app_length. lia.
    - unfold glue_ic. cbn [ic_values target]. lia.
    - unfold glue_ic. cbn [ic_values target]. lia.
    - unfold wf_ff. cbn [table target].
      apply all_lt_map with (n := length (h_w (o_h f)) + length (h_w (o_h g))); [exact Hq|].
      eapply all_lt_mono; [|exact Hfi]. lia.
    - unfold wf_ff. cbn [table target].
      apply all_lt_map with (n := length (h_w (o_h f)) + length (h_w (o_h g))); [exact Hq|].
      apply all_lt_shiftl. rewrite <- Hgot. exact Hgo.
    - lia.
    - lia.
  Qed.

  Lemma abs_compose_pure_edges f g u : wf_ohg f -> wf_ohg g ->
    p_edges (abs (compose_pure f g u)) =
    map (map_edge (qfun f g)) (p_edges (pjoin (abs f) (abs g))).
  Proof.
    intros ((Hfs & Hft & Hfxs & Hfxt & _) & _) _.
    unfold abs, compose_pure, abs_hg_edges, pjoin. cbn [p_edges p_nodes o_h h_s h_t h_x].
    unfold glue_ic. rewrite !decode_glue by assumption.
    rewrite zip3_map_edge. f_equal.
    rewrite zip3_app.
    - rewrite zip3_shift. reflexivity.
    - unfold decode_f. rewrite segs_length. exact Hfxs.
    - unfold decode_f. rewrite segs_length. exact Hfxt.
  Qed.

  Lemma compose_pure_is_compose f g u : wf_ohg f -> wf_ohg g ->
    length (table (o_t f)) = length (table (o_s g)) ->
    length u = qk f g ->
    (forall i, i < length (h_w (o_h f)) + length (h_w (o_h g)) ->
       nth_error u (qfun f g i) = nth_error (h_w (o_h f) ++ h_w (o_h g)) i) ->
    IsCompose (abs f) (abs g) (abs (compose_pure f g u)).
  Proof.
    intros Hf Hg Hlen Hu Hkey.
    pose proof (qfun_lt Hf Hg Hlen) as Hq.
    pose proof (cc_facts Hf Hg Hlen) as (Hc1 & Hc2 & Hc3 & Hc4).
    exists (qfun f g). split.
    - unfold IsQuot. rewrite (abs_compose_pure_edges u Hf Hg).
      unfold pjoin at 1 2 3. cbn [p_nodes abs compose_pure o_h h_w p_ins p_outs o_s o_t table].
      rewrite app_length, Hu.
      split; [exact Hq|]. split; [|split; [exact Hkey|]].
      + intros j Hj. destruct (In_nth _ _ 0 (Hc3 j Hj)) as (i & Hi & E).
        exists i. split. lia. exact E.
      + split; [reflexivity|]. split; reflexivity.
    - cbn [abs p_nodes]. intros i j Hi Hj. apply Hc4; lia.
  Qed.

  (* ---------- the theorems ---------- *)
  Theorem C01_compose_is_gluing : forall f g : ohg O A, wf_ohg f -> wf_ohg g ->
    tgt_type (abs f) = src_type (abs g) ->
    exists h, ohg_compose B eqO f g = Ok (Some h) /\ wf_ohg h /\ IsCompose (abs f) (abs g) (abs h).
  Proof.
    intros f g Hf Hg Hty.
    destruct (compose_ok Hf Hg Hty) as (u & Hc & Hu & Hkey).
    pose proof (type_eq_length _ _ Hty) as Hlen.
    exists (compose_pure f g u). split; [exact Hc|]. split.
    - apply wf_compose_pure; assumption.
    - apply compose_pure_is_compose; assumption.
  Qed.

  Theorem C01_mismatch_is_none : forall f g : ohg O A, wf_ohg f -> wf_ohg g ->
    tgt_type (abs f) <> src_type (abs g) -> ohg_compose B eqO f g = Ok None.
  Proof.
    intros f g Hf Hg Hty.
    destruct (ohg_target_ok Hf) as (tf & Htf & Htf').
    destruct (ohg_source_ok Hg) as (sg & Hsg & Hsg').
    unfold ohg_compose. rewrite Htf, Hsg. cbn [bind].
    destruct (list_eqb eqO tf sg) eqn:E; [|reflexivity].
    exfalso. apply Hty. apply (list_eqb_spec eqO eqO_spec) in E. congruence.
  Qed.

  (* composition never panics on well-formed inputs, whatever the types *)
  Corollary C01_no_panic : forall f g : ohg O A, wf_ohg f -> wf_ohg g ->
    exists r, ohg_compose B eqO f g = Ok r.
  Proof.
    intros f g Hf Hg.
    destruct (ohg_target_ok Hf) as (tf & _ & Htf').
    destruct (ohg_source_ok Hg) as (sg & _ & Hsg').
    destruct (list_eqb eqO tf sg) eqn:E.
    - apply (list_eqb_spec eqO eqO_spec) in E.
      destruct (@C01_compose_is_gluing f g Hf Hg) as (h & Hh & _). congruence. eauto.
    - exists None. apply C01_mismatch_is_none; auto. intros Hty.
      assert (tf = sg) by (apply map_Some_inj; congruence). subst.
      assert (list_eqb eqO sg sg = true) by (apply (list_eqb_spec eqO eqO_spec); reflexivity).
      congruence.
  Qed.

  (* the composite's source type is f's, its target type is g's *)
  Corollary C01_types : forall f g h : ohg O A, wf_ohg f -> wf_ohg g ->
    IsCompose (abs f) (abs g) (abs h) ->
    src_type (abs h) = src_type (abs f) /\ tgt_type (abs h) = tgt_type (abs g).
  Proof.
    intros f g h Hf Hg Hc. apply compose_types; auto using wf_abs_pwf.
  Qed.

  Corollary C01_compose_types : forall f g h : ohg O A, wf_ohg f -> wf_ohg g ->
    ohg_compose B eqO f g = Ok (Some h) ->
    src_type (abs h) = src_type (abs f) /\ tgt_type (abs h) = tgt_type (abs g).
  Proof.
    intros f g h Hf Hg Hc.
    assert (Hty : tgt_type (abs f) = src_type (abs g)).
    { destruct (ohg_target_ok Hf) as (tf & Htf & Htf').
      destruct (ohg_source_ok Hg) as (sg & Hsg & Hsg').
      destruct (list_eqb eqO tf sg) eqn:E.
      - apply (list_eqb_spec eqO eqO_spec) in E. congruence.
      - exfalso. unfold ohg_compose in Hc. rewrite Htf, Hsg in Hc. cbn [bind] in Hc.
        rewrite E in Hc. discriminate. }
    destruct (C01_compose_is_gluing Hf Hg Hty) as (h' & Hh' & _ & Hic).
    assert (h' = h) by congruence. subst h'.
    eapply C01_types; eauto.
  Qed.
End C01.

(* ---------- uniqueness of the gluing up to renumbering of nodes ---------- *)
Section Unique.
  Variables O A : Type.

  (* The statement exactly as given in the task.  It is FALSE as stated (see
     [C01_gluing_unique_full_false]): [IsQuot] constrains the quotient map only on node indices
     below the number of nodes, so dangling references in f or g (indices >= number of nodes)
     may be sent anywhere.  It holds as soon as f and g are [pwf] — in particular for the
     abstraction of well-formed encodings. *)
  Definition C01_gluing_unique_full : Prop :=
    forall (f g h h' : pohg O A), IsCompose f g h -> IsCompose f g h' -> NIso h h'.

  Theorem C01_gluing_unique_partial : forall (f g h h' : pohg O A), pwf f -> pwf g ->
    IsCompose f g h -> IsCompose f g h' -> NIso h h'.
  Proof. intros f g h h'. apply compose_unique_pwf. Qed.

  Theorem C01_gluing_unique_wf : forall (f g : ohg O A) (h h' : pohg O A), wf_ohg f -> wf_ohg g ->
    IsCompose (abs f) (abs g) h -> IsCompose (abs f) (abs g) h' -> NIso h h'.
  Proof.
    intros f g h h' Hf Hg. apply C01_gluing_unique_partial; apply wf_abs_pwf; assumption.
  Qed.

  Theorem C01_gluing_unique_full_false : ~ C01_gluing_unique_full.
  Proof.
    intros H.
    pose (f := mkP (@nil O) (@nil (pedge A)) [0; 1] []).
    pose (g := mkP (@nil O) (@nil (pedge A)) [] []).
    pose (h := mkP (@nil O) (@nil (pedge A)) [0; 0] []).
    pose (h' := mkP (@nil O) (@nil (pedge A)) [0; 1] []).
    assert (H1 : IsCompose f g h).
    { exists (fun _ => 0). split.
      - unfold IsQuot. cbn. repeat split; try (intros; lia).
      - cbn. intros i j Hi. lia. }
    assert (H2 : IsCompose f g h').
    { exists (fun i => i). split.
      - unfold IsQuot. cbn. repeat split; try (intros; lia).
      - cbn. intros i j Hi. lia. }
    destruct (H f g h h' H1 H2) as (_ & pn & _ & _ & _ & Hins & _).
    subst h h'. cbn [p_ins map] in Hins. injection Hins as E0 E1. congruence.
  Qed.
End Unique.

(* ---------- the hypotheses are satisfiable: a concrete composite (Vec back-end) ---------- *)
(* f : one edge 10 : [n0] -> [n1], inputs [n0], outputs [n0; n1; n1]   (nodes n0 n1 : 5)
   g : one edge 11 : [m0; m1] -> [m2], inputs [m0; m0; m1], outputs [m2] (m0 m1 : 5, m2 : 6)
   gluing identifies n0~m0, n1~m0, n1~m1: the chain collapses n0 n1 m0 m1 into one node. *)
Definition ex_f : ohg nat nat :=
  mkOHG (mkFF [0] 2) (mkFF [0; 1; 1] 2)
        (mkHG (mkIC (mkFF [1] 2) (mkFF [0] 2)) (mkIC (mkFF [1] 2) (mkFF [1] 2)) [5; 5] [10]).
Definition ex_g : ohg nat nat :=
  mkOHG (mkFF [0; 0; 1] 3) (mkFF [2] 3)
        (mkHG (mkIC (mkFF [2] 3) (mkFF [0; 1] 3)) (mkIC (mkFF [1] 2) (mkFF [2] 3)) [5; 5; 6] [11]).

Example ex_f_wf : wf_ohg ex_f.
Proof.
  unfold wf_ohg, wf_hg, wf_icf, wf_ic, wf_ff, all_lt, ic_len, ff_source; cbn.
  repeat split; repeat constructor.
Qed.

Example ex_g_wf : wf_ohg ex_g.
Proof.
  unfold wf_ohg, wf_hg, wf_icf, wf_ic, wf_ff, all_lt, ic_len, ff_source; cbn.
  repeat split; repeat constructor.
Qed.

Example ex_types_match : tgt_type (abs ex_f) = src_type (abs ex_g).
Proof. vm_compute. reflexivity. Qed.

Example ex_types_mismatch : tgt_type (abs ex_g) <> src_type (abs ex_f).
Proof. vm_compute. discriminate. Qed.

Example ex_compose_vec :
  option_map (@abs nat nat)
    (match ohg_compose VecBackend Nat.eqb ex_f ex_g with Ok r => r | _ => None end) =
  Some (mkP [5; 6] [mkPE 10 [0] [0]; mkPE 11 [0; 0] [1]] [0] [1]).
Proof. vm_compute. reflexivity. Qed.

Example ex_compose_adv :
  option_map (@abs nat nat)
    (match ohg_compose AdvBackend Nat.eqb ex_f ex_g with Ok r => r | _ => None end) =
  Some (mkP [6; 5] [mkPE 10 [1] [1]; mkPE 11 [1; 1] [0]] [1] [0]).
Proof. vm_compute. reflexivity. Qed.

Example ex_mismatch_vec : ohg_compose VecBackend Nat.eqb ex_g ex_f = Ok None.
Proof. vm_compute. reflexivity. Qed.

(* the two back-ends' composites differ by the renumbering 0 <-> 1 *)
Example ex_niso :
  NIso (mkP [5; 6] [mkPE 10 [0] [0]; mkPE 11 [0; 0] [1]] [0] [1])
       (mkP [6; 5] [mkPE 10 [1] [1]; mkPE 11 [1; 1] [0]] [1] [0]).
Proof.
  split. reflexivity. exists (fun i => 1 - i). cbn. split; [|split; [|split; [|split]]].
  - split.
    + intros i Hi. lia.
    + intros i j Hi Hj E. lia.
  - intros i Hi. destruct i as [|[|i]]; try reflexivity. lia.
  - reflexivity.
  - reflexivity.
  - reflexivity.
Qed.

Example ex_pwf : pwf (abs ex_f) /\ pwf (abs ex_g).
Proof. split; apply wf_abs_pwf; [apply ex_f_wf|apply ex_g_wf]. Qed.
