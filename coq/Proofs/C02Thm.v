(* C02: the tensor product is strict juxtaposition (lax and strict representations).
   Rust: src/lax/hypergraph.rs (coproduct), src/lax/open_hypergraph.rs (tensor),
         src/strict/hypergraph/object.rs (coproduct), src/strict/open_hypergraph/arrow.rs (tensor),
         src/indexed_coproduct/arrow.rs (tensor), src/finite_function/arrow.rs (tensor). *)
From OHG Require Import Spec.Plain Proofs.PrimsThm.

Set Implicit Arguments.
Arguments Nat.sub : simpl never.

(* ====================================================================== *)
(* generic list facts                                                      *)
(* ====================================================================== *)
Lemma shift_0 l : shift 0 l = l.
Proof.
  unfold shift. induction l as [|x l IH]; cbn [map]. reflexivity.
  rewrite IH, Nat.add_0_r. reflexivity.
Qed.

Lemma shift_shift n m l : shift n (shift m l) = shift (n + m) l.
Proof. unfold shift. rewrite map_map. apply map_ext. intros x. lia. Qed.

Lemma shift_app n l1 l2 : shift n (l1 ++ l2) = shift n l1 ++ shift n l2.
Proof. apply map_app. Qed.

Lemma shift_length n l : length (shift n l) = length l.
Proof. apply map_length. Qed.

Definition shift_he (n : nat) (e : list nat * list nat) : list nat * list nat :=
  (shift n (fst e), shift n (snd e)).

Lemma shift_he_0 l : map (shift_he 0) l = l.
Proof.
  induction l as [|[a b] l IH]; cbn [map]. reflexivity.
  unfold shift_he at 1. cbn [fst snd]. rewrite !shift_0, IH. reflexivity.
Qed.

Lemma shift_he_shift_he n m l : map (shift_he n) (map (shift_he m) l) = map (shift_he (n + m)) l.
Proof.
  rewrite map_map. apply map_ext. intros [a b]. unfold shift_he. cbn [fst snd].
  rewrite !shift_shift. reflexivity.
Qed.

Lemma combine_app {X Y} (a a' : list X) (b b' : list Y) :
  length a = length b -> combine (a ++ a') (b ++ b') = combine a b ++ combine a' b'.
Proof.
  revert b. induction a as [|x a IH]; intros [|y b] H; cbn in *; try discriminate. reflexivity.
  f_equal. apply IH. lia.
Qed.

Lemma combine_map_both {X Y X' Y'} (f : X -> X') (g : Y -> Y') (a : list X) (b : list Y) :
  combine (map f a) (map g b) = map (fun p => (f (fst p), g (snd p))) (combine a b).
Proof.
  revert b. induction a as [|x a IH]; intros [|y b]; cbn; try reflexivity.
  f_equal. apply IH.
Qed.

Lemma combine_map_r {X Y Y'} (g : Y -> Y') (a : list X) (b : list Y) :
  combine a (map g b) = map (fun p => (fst p, g (snd p))) (combine a b).
Proof.
  revert b. induction a as [|x a IH]; intros [|y b]; cbn; try reflexivity.
  f_equal. apply IH.
Qed.

(* ====================================================================== *)
(* LAX                                                                     *)
(* ====================================================================== *)
Section Lax.
  Variables O A : Type.
  Implicit Types f g k : lohg O A.
  Implicit Types G H K : lhg O A.

  Definition shift_pair (n : nat) (p : nat * nat) : nat * nat := (fst p + n, snd p + n).

  (* ---- hypergraph level ---- *)
  Lemma lhg_coproduct_juxt G H :
    let n := length (l_nodes G) in
    l_nodes (lhg_coproduct G H) = l_nodes G ++ l_nodes H /\
    l_edges (lhg_coproduct G H) = l_edges G ++ l_edges H /\
    l_adj (lhg_coproduct G H) = l_adj G ++ map (shift_he n) (l_adj H) /\
    fst (l_q (lhg_coproduct G H)) = fst (l_q G) ++ shift n (fst (l_q H)) /\
    snd (l_q (lhg_coproduct G H)) = snd (l_q G) ++ shift n (snd (l_q H)).
  Proof. cbn. repeat split; reflexivity. Qed.

  Lemma lhg_coproduct_assoc G H K :
    lhg_coproduct (lhg_coproduct G H) K = lhg_coproduct G (lhg_coproduct H K).
  Proof.
    unfold lhg_coproduct. cbn [l_nodes l_edges l_adj l_q fst snd].
    rewrite app_length.
    fold (shift_he (length (l_nodes G))). fold (shift_he (length (l_nodes H))).
    fold (shift_he (length (l_nodes G) + length (l_nodes H))).
    rewrite <- !app_assoc, !map_app, !shift_app, !shift_shift, shift_he_shift_he.
    reflexivity.
  Qed.

  Lemma lhg_coproduct_empty_l H : lhg_coproduct lhg_empty H = H.
  Proof.
    destruct H as [n e a [q1 q2]]. unfold lhg_coproduct, lhg_empty.
    cbn [l_nodes l_edges l_adj l_q fst snd length app].
    fold (shift_he 0). rewrite shift_he_0, !shift_0. reflexivity.
  Qed.

  Lemma lhg_coproduct_empty_r H : lhg_coproduct H lhg_empty = H.
  Proof.
    destruct H as [n e a [q1 q2]]. unfold lhg_coproduct, lhg_empty.
    cbn [l_nodes l_edges l_adj l_q fst snd length app map shift].
    rewrite !app_nil_r. reflexivity.
  Qed.

  (* ---- open level ---- *)
  (* juxtaposition, field by field: everything of f first, everything of g after it with node
     indices shifted by f's node count.  Holds for ALL f g. *)
  Theorem C02_lax_tensor_juxtaposition f g :
    let n := length (l_nodes (lo_h f)) in
    l_nodes (lo_h (lohg_tensor f g)) = l_nodes (lo_h f) ++ l_nodes (lo_h g) /\
    l_edges (lo_h (lohg_tensor f g)) = l_edges (lo_h f) ++ l_edges (lo_h g) /\
    l_adj (lo_h (lohg_tensor f g)) = l_adj (lo_h f) ++ map (shift_he n) (l_adj (lo_h g)) /\
    lo_sources (lohg_tensor f g) = lo_sources f ++ shift n (lo_sources g) /\
    lo_targets (lohg_tensor f g) = lo_targets f ++ shift n (lo_targets g) /\
    fst (l_q (lo_h (lohg_tensor f g))) = fst (l_q (lo_h f)) ++ shift n (fst (l_q (lo_h g))) /\
    snd (l_q (lo_h (lohg_tensor f g))) = snd (l_q (lo_h f)) ++ shift n (snd (l_q (lo_h g))).
  Proof. cbn. repeat split; reflexivity. Qed.

  (* the pending PAIRS are juxtaposed as soon as f's two pending arrays have the same length
     (always the case for values built through the API: [unify] pushes to both) *)
  Theorem C02_lax_tensor_pending f g :
    length (fst (l_q (lo_h f))) = length (snd (l_q (lo_h f))) ->
    pending (lohg_tensor f g)
    = pending f ++ map (shift_pair (length (l_nodes (lo_h f)))) (pending g).
  Proof.
    intros Hl. unfold pending, lohg_tensor, lhg_coproduct. cbn [lo_h l_q fst snd].
    rewrite combine_app by exact Hl. f_equal.
    unfold shift. rewrite combine_map_both. reflexivity.
  Qed.

  Theorem C02_lax_tensor_assoc f g k :
    lohg_tensor (lohg_tensor f g) k = lohg_tensor f (lohg_tensor g k).
  Proof.
    unfold lohg_tensor. cbn [lo_h lo_sources lo_targets].
    rewrite lhg_coproduct_assoc.
    destruct (lhg_coproduct_juxt (lo_h f) (lo_h g)) as (Hn & _). rewrite Hn, app_length.
    rewrite <- !app_assoc, !shift_app, !shift_shift. reflexivity.
  Qed.

  Theorem C02_lax_tensor_unit_l f : lohg_tensor lohg_empty f = f.
  Proof.
    destruct f as [s t h]. unfold lohg_tensor, lohg_empty. cbn [lo_h lo_sources lo_targets].
    rewrite lhg_coproduct_empty_l. cbn [lhg_empty l_nodes length app]. rewrite !shift_0. reflexivity.
  Qed.

  Theorem C02_lax_tensor_unit_r f : lohg_tensor f lohg_empty = f.
  Proof.
    destruct f as [s t h]. unfold lohg_tensor, lohg_empty. cbn [lo_h lo_sources lo_targets].
    rewrite lhg_coproduct_empty_r. cbn [shift map]. rewrite !app_nil_r. reflexivity.
  Qed.

  Theorem C02_lax_tensor_abs f g :
    length (l_edges (lo_h f)) = length (l_adj (lo_h f)) ->
    labs (lohg_tensor f g) = ptensor (labs f) (labs g).
  Proof.
    intros Hl. unfold labs, ptensor, lohg_tensor, lhg_coproduct.
    cbn [lo_h lo_sources lo_targets l_nodes l_edges l_adj p_nodes p_edges p_ins p_outs].
    f_equal.
    rewrite combine_app by exact Hl. rewrite map_app. f_equal.
    rewrite combine_map_r, !map_map. apply map_ext. intros [x [a b]]. reflexivity.
  Qed.

  (* everything together, as in the property sheet *)
  Theorem C02_lax_tensor f g k :
    (let n := length (l_nodes (lo_h f)) in
     l_nodes (lo_h (lohg_tensor f g)) = l_nodes (lo_h f) ++ l_nodes (lo_h g) /\
     l_edges (lo_h (lohg_tensor f g)) = l_edges (lo_h f) ++ l_edges (lo_h g) /\
     l_adj (lo_h (lohg_tensor f g)) = l_adj (lo_h f) ++ map (shift_he n) (l_adj (lo_h g)) /\
     lo_sources (lohg_tensor f g) = lo_sources f ++ shift n (lo_sources g) /\
     lo_targets (lohg_tensor f g) = lo_targets f ++ shift n (lo_targets g) /\
     fst (l_q (lo_h (lohg_tensor f g))) = fst (l_q (lo_h f)) ++ shift n (fst (l_q (lo_h g))) /\
     snd (l_q (lo_h (lohg_tensor f g))) = snd (l_q (lo_h f)) ++ shift n (snd (l_q (lo_h g))) /\
     (length (fst (l_q (lo_h f))) = length (snd (l_q (lo_h f))) ->
      pending (lohg_tensor f g) = pending f ++ map (shift_pair n) (pending g)) /\
     (length (l_edges (lo_h f)) = length (l_adj (lo_h f)) ->
      labs (lohg_tensor f g) = ptensor (labs f) (labs g))) /\
    lohg_tensor (lohg_tensor f g) k = lohg_tensor f (lohg_tensor g k) /\
    lohg_tensor lohg_empty f = f /\
    lohg_tensor f lohg_empty = f.
  Proof.
    split; [|split; [|split]].
    - pose proof (C02_lax_tensor_juxtaposition f g) as J. cbv zeta in *.
      destruct J as (J1 & J2 & J3 & J4 & J5 & J6 & J7).
      repeat (split; [assumption|]). split.
      + apply C02_lax_tensor_pending.
      + apply C02_lax_tensor_abs.
    - apply C02_lax_tensor_assoc.
    - apply C02_lax_tensor_unit_l.
    - apply C02_lax_tensor_unit_r.
  Qed.

  (* the in-place variant of mut_category.rs computes the same value *)
  Lemma lohg_tensor_assign_eq f g : lohg_tensor_assign f g = lohg_tensor f g.
  Proof. reflexivity. Qed.
End Lax.

(* without the length hypothesis the PAIR statement is false (the arrays are public fields in Rust):
   zip re-pairs the entries across the seam *)
Example C02_lax_pending_needs_equal_lengths :
  let f : lohg nat nat := mkLOHG [] [] (mkLHG [0] [] [] ([0], [])) in
  let g : lohg nat nat := mkLOHG [] [] (mkLHG [0] [] [] ([0], [0])) in
  pending (lohg_tensor f g) = [(0, 1)] /\
  pending f ++ map (shift_pair 1) (pending g) = [(1, 1)].
Proof. split; reflexivity. Qed.

(* likewise for the plain abstraction when edges and adjacency have different lengths *)
Example C02_lax_abs_needs_equal_lengths :
  let f : lohg nat nat := mkLOHG [] [] (mkLHG [0] [7] [] ([], [])) in
  let g : lohg nat nat := mkLOHG [] [] (mkLHG [0] [8] [([0], [0])] ([], [])) in
  p_edges (labs (lohg_tensor f g)) = [mkPE 7 [1] [1]] /\
  p_edges (ptensor (labs f) (labs g)) = [mkPE 8 [1] [1]].
Proof. split; reflexivity. Qed.

(* ====================================================================== *)
(* STRICT                                                                  *)
(* ====================================================================== *)

(* ---------- segmented decoding ---------- *)
Lemma list_sum_cons k r : list_sum (k :: r) = k + list_sum r.
Proof. reflexivity. Qed.

Lemma segs_length {T} sizes : forall (v : list T), length (segs sizes v) = length sizes.
Proof. induction sizes as [|k r IH]; intros v; cbn [segs length]; auto. Qed.

Lemma segs_app {T} s1 s2 : forall (v1 v2 : list T),
  list_sum s1 = length v1 -> segs (s1 ++ s2) (v1 ++ v2) = segs s1 v1 ++ segs s2 v2.
Proof.
  induction s1 as [|k r IH]; intros v1 v2 H.
  - destruct v1; [reflexivity|discriminate].
  - rewrite list_sum_cons in H. cbn [app segs]. f_equal.
    + rewrite firstn_app. replace (k - length v1) with 0 by lia.
      cbn [firstn]. apply app_nil_r.
    + rewrite skipn_app. replace (k - length v1) with 0 by lia. cbn [skipn].
      apply IH. rewrite skipn_length. lia.
Qed.

Lemma segs_map {T U} (f : T -> U) sizes : forall v,
  segs sizes (map f v) = map (map f) (segs sizes v).
Proof.
  induction sizes as [|k r IH]; intros v; cbn [segs map]. reflexivity.
  rewrite firstn_map, skipn_map, IH. reflexivity.
Qed.

Lemma sub_chk_ok a b : b <= a -> sub_chk a b = Ok (a - b).
Proof. intros H. unfold sub_chk. apply Nat.leb_le in H. rewrite H. reflexivity. Qed.

Lemma sub_chk_panic a b : a < b -> sub_chk a b = Panic.
Proof. intros H. unfold sub_chk. destruct (b <=? a) eqn:E; auto. apply Nat.leb_le in E. lia. Qed.

Lemma add_scalar_0 l : add_scalar 0 l = l.
Proof. exact (shift_0 l). Qed.

Lemma all_lt_app n l1 l2 : all_lt n l1 -> all_lt n l2 -> all_lt n (l1 ++ l2).
Proof. intros H1 H2. apply Forall_app. split; assumption. Qed.

Lemma all_lt_mono n m l : n <= m -> all_lt n l -> all_lt m l.
Proof. intros H F. eapply Forall_impl; [|exact F]. cbn. intros; lia. Qed.

Lemma all_lt_add_scalar n a l : all_lt n l -> all_lt (a + n) (add_scalar a l).
Proof.
  intros F. unfold add_scalar, all_lt. apply Forall_forall. intros y Hy.
  apply in_map_iff in Hy. destruct Hy as (x & <- & Hx).
  unfold all_lt in F. rewrite Forall_forall in F. specialize (F x Hx). lia.
Qed.

(* ---------- finite functions ---------- *)
Lemma ff_tensor_assoc a b c : ff_tensor (ff_tensor a b) c = ff_tensor a (ff_tensor b c).
Proof.
  unfold ff_tensor, add_scalar. cbn [table target].
  rewrite <- app_assoc, map_app, map_map. f_equal.
  - do 2 f_equal. apply map_ext. intros x. lia.
  - lia.
Qed.

Lemma ff_tensor_initial_l s : ff_tensor (ff_initial 0) s = s.
Proof.
  destruct s as [tb tg]. unfold ff_tensor, ff_initial. cbn [table target app].
  rewrite add_scalar_0. reflexivity.
Qed.

Lemma ff_tensor_initial_r s : ff_tensor s (ff_initial 0) = s.
Proof.
  destruct s as [tb tg]. unfold ff_tensor, ff_initial, add_scalar. cbn [table target map].
  rewrite app_nil_r, Nat.add_0_r. reflexivity.
Qed.

Lemma wf_ff_tensor a b : wf_ff a -> wf_ff b -> wf_ff (ff_tensor a b).
Proof.
  unfold wf_ff, ff_tensor. cbn [table target]. intros Ha Hb. apply all_lt_app.
  - eapply all_lt_mono; [|exact Ha]. lia.
  - apply all_lt_add_scalar. exact Hb.
Qed.

(* ---------- indexed coproducts of finite functions ---------- *)
Definition icf_tensor_pure (c d : icf) : icf :=
  mkIC (mkFF (table (ic_sources c) ++ table (ic_sources d))
             (target (ic_sources c) + target (ic_sources d) - 1))
       (ff_tensor (ic_values c) (ic_values d)).

Lemma icf_tensor_ok c d :
  1 <= target (ic_sources c) + target (ic_sources d) -> icf_tensor c d = Ok (icf_tensor_pure c d).
Proof. intros H. unfold icf_tensor. rewrite sub_chk_ok by exact H. reflexivity. Qed.

(* outside that precondition the checked subtraction panics *)
Lemma icf_tensor_panic c d :
  target (ic_sources c) + target (ic_sources d) = 0 -> icf_tensor c d = Panic.
Proof. intros H. unfold icf_tensor. rewrite sub_chk_panic by lia. reflexivity. Qed.

Lemma icf_tensor_pure_assoc a b c :
  1 <= target (ic_sources a) -> 1 <= target (ic_sources b) -> 1 <= target (ic_sources c) ->
  icf_tensor_pure (icf_tensor_pure a b) c = icf_tensor_pure a (icf_tensor_pure b c).
Proof.
  intros Ha Hb Hc. unfold icf_tensor_pure. cbn [ic_sources ic_values table target].
  rewrite ff_tensor_assoc, <- app_assoc. do 2 f_equal. lia.
Qed.

Lemma icf_tensor_initial_l c : icf_tensor (icf_initial 0) c = Ok c.
Proof.
  rewrite icf_tensor_ok by (cbn; lia).
  destruct c as [[tb tg] v]. unfold icf_tensor_pure, icf_initial.
  cbn [ic_sources ic_values ff_initial table target app].
  rewrite ff_tensor_initial_l. replace (1 + tg - 1) with tg by lia. reflexivity.
Qed.

Lemma icf_tensor_initial_r c : icf_tensor c (icf_initial 0) = Ok c.
Proof.
  rewrite icf_tensor_ok by (cbn; lia).
  destruct c as [[tb tg] v]. unfold icf_tensor_pure, icf_initial.
  cbn [ic_sources ic_values ff_initial table target].
  rewrite ff_tensor_initial_r, app_nil_r. replace (tg + 1 - 1) with tg by lia. reflexivity.
Qed.

Lemma wf_icf_pos c : wf_icf c -> 1 <= target (ic_sources c).
Proof. intros ((H & _) & _). lia. Qed.

Lemma wf_icf_tensor c d : wf_icf c -> wf_icf d -> wf_icf (icf_tensor_pure c d).
Proof.
  intros ((Hc1 & Hc2) & Hc3) ((Hd1 & Hd2) & Hd3).
  unfold wf_icf, wf_ic, icf_tensor_pure. cbn [ic_sources ic_values table target].
  split; [split|].
  - rewrite list_sum_app. lia.
  - rewrite list_sum_app. unfold ff_source, ff_tensor, add_scalar in *. cbn [table].
    rewrite app_length, map_length. lia.
  - apply wf_ff_tensor; assumption.
Qed.

(* the segments of a tensor: those of c, then those of d shifted by c's codomain *)
Lemma decode_f_tensor c d :
  list_sum (table (ic_sources c)) = ff_source (ic_values c) ->
  decode_f (icf_tensor_pure c d)
  = decode_f c ++ map (shiftl (target (ic_values c))) (decode_f d).
Proof.
  intros H. unfold decode_f, icf_tensor_pure, ff_tensor. cbn [ic_sources ic_values table].
  rewrite segs_app by exact H. f_equal.
  unfold add_scalar, shiftl. apply segs_map.
Qed.

Section Strict.
  Variables O A : Type.
  Implicit Types f g k h : ohg O A.
  Implicit Types G H K : hg O A.

  (* ---------- zip3 ---------- *)
  Lemma zip3_app (x1 x2 : list A) s1 s2 t1 t2 :
    length s1 = length x1 -> length t1 = length x1 ->
    zip3 (x1 ++ x2) (s1 ++ s2) (t1 ++ t2) = zip3 x1 s1 t1 ++ zip3 x2 s2 t2.
  Proof.
    revert s1 t1. induction x1 as [|x x1 IH]; intros [|s s1] [|t t1] Hs Ht;
      cbn [length] in *; try discriminate.
    - reflexivity.
    - cbn [app zip3]. f_equal. apply IH; lia.
  Qed.

  Lemma zip3_shift n (x : list A) : forall s t,
    map (shift_edge n) (zip3 x s t) = zip3 x (map (shiftl n) s) (map (shiftl n) t).
  Proof.
    induction x as [|x0 x IH]; intros [|s ss] [|t ts]; cbn [zip3 map]; try reflexivity.
    f_equal. apply IH.
  Qed.

  Lemma zip3_length (x : list A) : forall s t,
    length s = length x -> length t = length x -> length (zip3 x s t) = length x.
  Proof.
    induction x as [|x0 x IH]; intros [|s ss] [|t ts] Hs Ht; cbn [length zip3] in *;
      try discriminate; auto.
  Qed.

  (* ---------- hypergraph coproduct ---------- *)
  Definition hg_coproduct_pure G H : hg O A :=
    mkHG (icf_tensor_pure (h_s G) (h_s H)) (icf_tensor_pure (h_t G) (h_t H))
         (h_w G ++ h_w H) (h_x G ++ h_x H).

  (* what the checked subtractions need: the two [sources] codomains are not 0 *)
  Definition pos_hg G : Prop :=
    1 <= target (ic_sources (h_s G)) /\ 1 <= target (ic_sources (h_t G)).

  Lemma wf_hg_pos G : wf_hg G -> pos_hg G.
  Proof. intros (Hs & Ht & _). split; apply wf_icf_pos; assumption. Qed.

  Lemma hg_coproduct_ok G H : pos_hg G -> hg_coproduct G H = Ok (hg_coproduct_pure G H).
  Proof.
    intros (Hs & Ht). unfold hg_coproduct.
    rewrite icf_tensor_ok by lia. cbn [bind].
    rewrite icf_tensor_ok by lia. reflexivity.
  Qed.

  Lemma pos_hg_coproduct G H : pos_hg G -> pos_hg H -> pos_hg (hg_coproduct_pure G H).
  Proof.
    intros (G1 & G2) (H1 & H2). unfold pos_hg, hg_coproduct_pure, icf_tensor_pure.
    cbn [h_s h_t ic_sources target]. lia.
  Qed.

  Lemma hg_coproduct_pure_assoc G H K : pos_hg G -> pos_hg H -> pos_hg K ->
    hg_coproduct_pure (hg_coproduct_pure G H) K = hg_coproduct_pure G (hg_coproduct_pure H K).
  Proof.
    intros (G1 & G2) (H1 & H2) (K1 & K2). unfold hg_coproduct_pure. cbn [h_s h_t h_w h_x].
    rewrite !icf_tensor_pure_assoc by assumption. rewrite <- !app_assoc. reflexivity.
  Qed.

  Lemma hg_coproduct_empty_l H : hg_coproduct hg_empty H = Ok H.
  Proof.
    destruct H as [s t w x]. unfold hg_coproduct, hg_empty. cbn [h_s h_t h_w h_x].
    rewrite !icf_tensor_initial_l. reflexivity.
  Qed.

  Lemma hg_coproduct_empty_r H : hg_coproduct H hg_empty = Ok H.
  Proof.
    destruct H as [s t w x]. unfold hg_coproduct, hg_empty. cbn [h_s h_t h_w h_x].
    rewrite !icf_tensor_initial_r. cbn [bind]. rewrite !app_nil_r. reflexivity.
  Qed.

  Lemma wf_hg_coproduct G H : wf_hg G -> wf_hg H -> wf_hg (hg_coproduct_pure G H).
  Proof.
    intros (Gs & Gt & Gcs & Gct & Gws & Gwt) (Hs & Ht & Hcs & Hct & Hws & Hwt).
    unfold wf_hg, hg_coproduct_pure. cbn [h_s h_t h_w h_x].
    split; [apply wf_icf_tensor; assumption|].
    split; [apply wf_icf_tensor; assumption|].
    unfold ic_len, ff_source, icf_tensor_pure, ff_tensor in *.
    cbn [ic_sources ic_values table target]. rewrite !app_length.
    repeat split; lia.
  Qed.

  Lemma decode_length_s G : ic_len (h_s G) = length (h_x G) -> length (decode_f (h_s G)) = length (h_x G).
  Proof. intros H. unfold decode_f. rewrite segs_length. exact H. Qed.

  Lemma decode_length_t G : ic_len (h_t G) = length (h_x G) -> length (decode_f (h_t G)) = length (h_x G).
  Proof. intros H. unfold decode_f. rewrite segs_length. exact H. Qed.

  Lemma abs_hg_edges_coproduct G H : wf_hg G ->
    abs_hg_edges (hg_coproduct_pure G H)
    = abs_hg_edges G ++ map (shift_edge (length (h_w G))) (abs_hg_edges H).
  Proof.
    intros (((_ & Gs2) & _) & ((_ & Gt2) & _) & Gcs & Gct & Gws & Gwt).
    unfold abs_hg_edges, hg_coproduct_pure. cbn [h_s h_t h_w h_x].
    rewrite !decode_f_tensor by assumption. rewrite Gws, Gwt.
    rewrite zip3_app by (apply decode_length_s || apply decode_length_t; assumption).
    rewrite zip3_shift. reflexivity.
  Qed.

  (* C02 for hypergraphs: juxtaposition of the records and of the decoded hyperedges *)
  Theorem C02_hg_coproduct G H : wf_hg G -> wf_hg H ->
    exists K, hg_coproduct G H = Ok K /\ wf_hg K /\
      h_w K = h_w G ++ h_w H /\ h_x K = h_x G ++ h_x H /\
      decode_f (h_s K) = decode_f (h_s G) ++ map (shiftl (length (h_w G))) (decode_f (h_s H)) /\
      decode_f (h_t K) = decode_f (h_t G) ++ map (shiftl (length (h_w G))) (decode_f (h_t H)) /\
      abs_hg_edges K = abs_hg_edges G ++ map (shift_edge (length (h_w G))) (abs_hg_edges H).
  Proof.
    intros WG WH. exists (hg_coproduct_pure G H).
    split; [apply hg_coproduct_ok, wf_hg_pos; exact WG|].
    split; [apply wf_hg_coproduct; assumption|].
    split; [reflexivity|]. split; [reflexivity|].
    pose proof WG as (((_ & Gs2) & _) & ((_ & Gt2) & _) & _ & _ & Gws & Gwt).
    split; [|split].
    - cbn [hg_coproduct_pure h_s]. rewrite decode_f_tensor by assumption. rewrite Gws. reflexivity.
    - cbn [hg_coproduct_pure h_t]. rewrite decode_f_tensor by assumption. rewrite Gwt. reflexivity.
    - apply abs_hg_edges_coproduct. exact WG.
  Qed.

  (* ---------- open hypergraphs ---------- *)
  Definition ohg_tensor_pure f g : ohg O A :=
    mkOHG (ff_tensor (o_s f) (o_s g)) (ff_tensor (o_t f) (o_t g)) (hg_coproduct_pure (o_h f) (o_h g)).

  Lemma ohg_tensor_ok f g : pos_hg (o_h f) -> ohg_tensor f g = Ok (ohg_tensor_pure f g).
  Proof. intros H. unfold ohg_tensor. rewrite hg_coproduct_ok by exact H. reflexivity. Qed.

  Lemma wf_ohg_pos f : wf_ohg f -> pos_hg (o_h f).
  Proof. intros (H & _). apply wf_hg_pos. exact H. Qed.

  Lemma wf_ohg_tensor f g : wf_ohg f -> wf_ohg g -> wf_ohg (ohg_tensor_pure f g).
  Proof.
    intros (Fh & Fs & Ft & Fws & Fwt) (Gh & Gs & Gt & Gws & Gwt).
    unfold wf_ohg, ohg_tensor_pure. cbn [o_s o_t o_h].
    split; [apply wf_hg_coproduct; assumption|].
    split; [apply wf_ff_tensor; assumption|].
    split; [apply wf_ff_tensor; assumption|].
    unfold hg_coproduct_pure, ff_tensor. cbn [target h_w]. rewrite app_length. split; lia.
  Qed.

  Lemma abs_ohg_tensor f g : wf_ohg f -> abs (ohg_tensor_pure f g) = ptensor (abs f) (abs g).
  Proof.
    intros (Fh & _ & _ & Fws & Fwt). unfold abs, ptensor, ohg_tensor_pure.
    cbn [o_s o_t o_h p_nodes p_edges p_ins p_outs].
    rewrite abs_hg_edges_coproduct by exact Fh.
    unfold ff_tensor. cbn [table hg_coproduct_pure h_w]. rewrite Fws, Fwt. reflexivity.
  Qed.

  Theorem C02_tensor_is_juxtaposition f g : wf_ohg f -> wf_ohg g ->
    exists h, ohg_tensor f g = Ok h /\ wf_ohg h /\ abs h = ptensor (abs f) (abs g).
  Proof.
    intros Wf Wg. exists (ohg_tensor_pure f g).
    split; [apply ohg_tensor_ok, wf_ohg_pos; exact Wf|].
    split; [apply wf_ohg_tensor; assumption|].
    apply abs_ohg_tensor. exact Wf.
  Qed.

  (* the result as a record: legs are the finite-function tensors, the hypergraph the coproduct *)
  Theorem C02_tensor_record f g : wf_ohg f -> wf_ohg g ->
    exists h, ohg_tensor f g = Ok h /\
      o_s h = ff_tensor (o_s f) (o_s g) /\ o_t h = ff_tensor (o_t f) (o_t g) /\
      hg_coproduct (o_h f) (o_h g) = Ok (o_h h).
  Proof.
    intros Wf Wg. exists (ohg_tensor_pure f g).
    split; [apply ohg_tensor_ok, wf_ohg_pos; exact Wf|].
    split; [reflexivity|]. split; [reflexivity|].
    apply hg_coproduct_ok, wf_ohg_pos. exact Wf.
  Qed.

  (* ---------- boundary types of a juxtaposition ---------- *)
  Lemma type_of_ptensor (F G : pohg O A) l1 l2 :
    all_lt (length (p_nodes F)) l1 ->
    type_of (ptensor F G) (l1 ++ shiftl (length (p_nodes F)) l2) = type_of F l1 ++ type_of G l2.
  Proof.
    intros H1. unfold type_of, ptensor, shiftl. cbn [p_nodes].
    rewrite map_app, map_map. f_equal.
    - apply map_ext_in. intros x Hx. unfold all_lt in H1. rewrite Forall_forall in H1.
      apply nth_error_app1. auto.
    - apply map_ext. intros x. rewrite nth_error_app2 by lia. f_equal. lia.
  Qed.

  Theorem C02_tensor_types f g : wf_ohg f -> wf_ohg g ->
    exists h, ohg_tensor f g = Ok h /\
      src_type (abs h) = src_type (abs f) ++ src_type (abs g) /\
      tgt_type (abs h) = tgt_type (abs f) ++ tgt_type (abs g).
  Proof.
    intros Wf Wg. destruct (C02_tensor_is_juxtaposition Wf Wg) as (h & Hh & _ & Habs).
    exists h. split; [exact Hh|]. rewrite Habs.
    destruct Wf as (_ & Fs & Ft & Fws & Fwt). unfold wf_ff in Fs, Ft.
    unfold src_type, tgt_type. cbn [ptensor p_ins p_outs].
    split; apply type_of_ptensor; cbn [abs p_nodes]; [rewrite <- Fws|rewrite <- Fwt]; assumption.
  Qed.

  (* ---------- associativity: equality of the records ---------- *)
  Lemma ohg_tensor_pure_assoc f g k : pos_hg (o_h f) -> pos_hg (o_h g) -> pos_hg (o_h k) ->
    ohg_tensor_pure (ohg_tensor_pure f g) k = ohg_tensor_pure f (ohg_tensor_pure g k).
  Proof.
    intros Pf Pg Pk. unfold ohg_tensor_pure. cbn [o_s o_t o_h].
    rewrite !ff_tensor_assoc, hg_coproduct_pure_assoc by assumption. reflexivity.
  Qed.

  (* needs only that the four-plus-two [sources] codomains are >= 1 (a consequence of wf) *)
  Lemma ohg_tensor_assoc_pos f g k : pos_hg (o_h f) -> pos_hg (o_h g) -> pos_hg (o_h k) ->
    (fg <- ohg_tensor f g ;; ohg_tensor fg k) = (gk <- ohg_tensor g k ;; ohg_tensor f gk) /\
    (fg <- ohg_tensor f g ;; ohg_tensor fg k) = Ok (ohg_tensor_pure (ohg_tensor_pure f g) k).
  Proof.
    intros Pf Pg Pk.
    rewrite (ohg_tensor_ok f g Pf), (ohg_tensor_ok g k Pg). cbn [bind].
    rewrite (ohg_tensor_ok f (ohg_tensor_pure g k) Pf).
    rewrite ohg_tensor_ok by (cbn [ohg_tensor_pure o_h]; apply pos_hg_coproduct; assumption).
    rewrite ohg_tensor_pure_assoc by assumption. split; reflexivity.
  Qed.

  Theorem C02_tensor_assoc f g k : wf_ohg f -> wf_ohg g -> wf_ohg k ->
    (fg <- ohg_tensor f g ;; ohg_tensor fg k) = (gk <- ohg_tensor g k ;; ohg_tensor f gk) /\
    exists r, (fg <- ohg_tensor f g ;; ohg_tensor fg k) = Ok r /\ wf_ohg r.
  Proof.
    intros Wf Wg Wk.
    destruct (ohg_tensor_assoc_pos f g k (wf_ohg_pos Wf) (wf_ohg_pos Wg) (wf_ohg_pos Wk)) as (E1 & E2).
    split; [exact E1|]. eexists. split; [exact E2|].
    apply wf_ohg_tensor; [apply wf_ohg_tensor|]; assumption.
  Qed.

  (* ---------- unit ---------- *)
  Definition ohg_empty : ohg O A := mkOHG (ff_initial 0) (ff_initial 0) hg_empty.

  (* this is the identity on the unit object ([]), i.e. what Rust's identity(unit()) builds *)
  Lemma ohg_empty_is_identity_unit : ohg_identity A (@nil O) = Ok ohg_empty.
  Proof. reflexivity. Qed.

  Lemma ohg_empty_wf : wf_ohg ohg_empty.
  Proof.
    unfold wf_ohg, wf_hg, wf_icf, wf_ic, wf_ff, all_lt, ohg_empty, hg_empty, icf_initial, ff_initial,
      ic_len, ff_source.
    cbn [o_s o_t o_h h_s h_t h_w h_x ic_sources ic_values table target length list_sum fold_right].
    repeat split; auto.
  Qed.

  (* holds for every f, well-formed or not *)
  Theorem C02_tensor_unit_any f : ohg_tensor ohg_empty f = Ok f /\ ohg_tensor f ohg_empty = Ok f.
  Proof.
    destruct f as [s t h]. unfold ohg_tensor, ohg_empty. cbn [o_s o_t o_h].
    rewrite hg_coproduct_empty_l, hg_coproduct_empty_r. cbn [bind].
    rewrite !ff_tensor_initial_l, !ff_tensor_initial_r. split; reflexivity.
  Qed.

  Theorem C02_tensor_unit f : wf_ohg f ->
    ohg_tensor (mkOHG (ff_initial 0) (ff_initial 0) hg_empty) f = Ok f /\
    ohg_tensor f (mkOHG (ff_initial 0) (ff_initial 0) hg_empty) = Ok f.
  Proof. intros _. exact (C02_tensor_unit_any f). Qed.
End Strict.

(* ---------- concrete instances ---------- *)
Module C02Examples.
  (* "m" : [1;1] -> [2], all three nodes on the boundary *)
  Definition f0 : ohg nat nat :=
    mkOHG (mkFF [0; 1] 3) (mkFF [2] 3)
      (mkHG (mkIC (mkFF [2] 3) (mkFF [0; 1] 3)) (mkIC (mkFF [1] 2) (mkFF [2] 3)) [1; 1; 2] [7]).
  (* two operations "a" : [] -> [5], "b" : [5;5] -> [] *)
  Definition g0 : ohg nat nat :=
    mkOHG (mkFF [1] 2) (mkFF [0; 0] 2)
      (mkHG (mkIC (mkFF [0; 2] 3) (mkFF [1; 0] 2)) (mkIC (mkFF [1; 0] 2) (mkFF [0] 2)) [5; 5] [8; 9]).

  Example f0_wf : wf_ohg f0.
  Proof. unfold wf_ohg, wf_hg, wf_icf, wf_ic, wf_ff, all_lt; cbn. repeat split; repeat constructor. Qed.
  Example g0_wf : wf_ohg g0.
  Proof. unfold wf_ohg, wf_hg, wf_icf, wf_ic, wf_ff, all_lt; cbn. repeat split; repeat constructor. Qed.

  Example tensor_f0_g0 :
    rmap (@abs nat nat) (ohg_tensor f0 g0)
    = Ok (mkP [1; 1; 2; 5; 5]
              [mkPE 7 [0; 1] [2]; mkPE 8 [] [3]; mkPE 9 [4; 3] []]
              [0; 1; 4] [2; 3; 3]).
  Proof. vm_compute. reflexivity. Qed.

  Example tensor_f0_g0_spec :
    rmap (@abs nat nat) (ohg_tensor f0 g0) = Ok (ptensor (abs f0) (abs g0)).
  Proof. vm_compute. reflexivity. Qed.

  (* the theorems apply to these values *)
  Example juxtaposition_applies :
    exists h, ohg_tensor f0 g0 = Ok h /\ wf_ohg h /\ abs h = ptensor (abs f0) (abs g0).
  Proof. exact (C02_tensor_is_juxtaposition f0_wf g0_wf). Qed.

  Example types_apply :
    exists h, ohg_tensor f0 g0 = Ok h /\
      src_type (abs h) = [Some 1; Some 1; Some 5] /\ tgt_type (abs h) = [Some 2; Some 5; Some 5].
  Proof. exact (C02_tensor_types f0_wf g0_wf). Qed.

  Example assoc_applies :
    (fg <- ohg_tensor f0 g0 ;; ohg_tensor fg f0) = (gk <- ohg_tensor g0 f0 ;; ohg_tensor f0 gk).
  Proof. exact (proj1 (C02_tensor_assoc f0_wf g0_wf f0_wf)). Qed.

  Example tensor_assoc_ex :
    (fg <- ohg_tensor f0 g0 ;; ohg_tensor fg f0) = (gk <- ohg_tensor g0 f0 ;; ohg_tensor f0 gk).
  Proof. vm_compute. reflexivity. Qed.

  (* associativity really needs the codomain of [sources] to be >= 1: with 0, 0, 2 one side
     panics on the checked subtraction and the other does not *)
  Definition bad (n : nat) : ohg nat nat :=
    mkOHG (ff_initial 0) (ff_initial 0) (mkHG (mkIC (ff_initial n) (ff_initial 0)) (icf_initial 0) [] []).
  Example tensor_assoc_needs_wf :
    (fg <- ohg_tensor (bad 0) (bad 0) ;; ohg_tensor fg (bad 2)) = Panic /\
    exists r, (gk <- ohg_tensor (bad 0) (bad 2) ;; ohg_tensor (bad 0) gk) = Ok r.
  Proof. split. reflexivity. eexists. vm_compute. reflexivity. Qed.

  (* lax *)
  Definition lf0 : lohg nat nat := mkLOHG [0; 1] [2] (mkLHG [1; 1; 2] [7] [([0; 1], [2])] ([0], [1])).
  Definition lg0 : lohg nat nat := mkLOHG [1] [0; 0] (mkLHG [5; 5] [8; 9] [([], [0]); ([1; 0], [])] ([1], [0])).
  Example lax_tensor_ex :
    lohg_tensor lf0 lg0
    = mkLOHG [0; 1; 4] [2; 3; 3]
        (mkLHG [1; 1; 2; 5; 5] [7; 8; 9] [([0; 1], [2]); ([], [3]); ([4; 3], [])] ([0; 4], [1; 3])).
  Proof. vm_compute. reflexivity. Qed.

  Example lax_pending_ex : pending (lohg_tensor lf0 lg0) = [(0, 1); (4, 3)].
  Proof. rewrite C02_lax_tensor_pending by reflexivity. reflexivity. Qed.

  Example lax_abs_ex : labs (lohg_tensor lf0 lg0) = ptensor (labs lf0) (labs lg0).
  Proof. apply C02_lax_tensor_abs. reflexivity. Qed.
End C02Examples.
