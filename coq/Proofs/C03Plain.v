(* Property C03 on the plain model: the laws of a symmetric monoidal category hold up to Iso for
   ANY diagrams satisfying the IsCompose (gluing) specification. *)
From OHG Require Import Spec.Plain Proofs.PrimsThm Proofs.CCThm Proofs.C01Lemmas Proofs.QuotThm.

Set Implicit Arguments.
Arguments Nat.sub : simpl never.

Section C03Plain.
  Variables O A : Type.
  Implicit Types f g h : pohg O A.

  (* ---------- bookkeeping ---------- *)
  Lemma shiftl_shiftl a b (xs : list nat) : shiftl a (shiftl b xs) = shiftl (b + a) xs.
  Proof. unfold shiftl. rewrite map_map. apply map_ext. intros x. lia. Qed.

  Lemma shiftl_app a (xs ys : list nat) : shiftl a (xs ++ ys) = shiftl a xs ++ shiftl a ys.
  Proof. apply map_app. Qed.

  Lemma shiftl_length a (xs : list nat) : length (shiftl a xs) = length xs.
  Proof. apply map_length. Qed.

  Lemma shift_edge_shift_edge a b (e : pedge A) : shift_edge a (shift_edge b e) = shift_edge (b + a) e.
  Proof. unfold shift_edge. cbn [pe_lbl pe_src pe_tgt]. rewrite !shiftl_shiftl. reflexivity. Qed.

  Lemma pjoin_len f g : length (p_nodes (pjoin f g)) = length (p_nodes f) + length (p_nodes g).
  Proof. cbn. apply app_length. Qed.

  Lemma ptensor_len f g : length (p_nodes (ptensor f g)) = length (p_nodes f) + length (p_nodes g).
  Proof. cbn. apply app_length. Qed.

  Lemma pjoin_assoc f g k : pjoin (pjoin f g) k = pjoin f (pjoin g k).
  Proof.
    unfold pjoin. cbn [p_nodes p_edges p_ins p_outs]. rewrite app_length. f_equal.
    - symmetry. apply app_assoc.
    - rewrite map_app, map_map, <- app_assoc. f_equal. f_equal. apply map_ext. intros e.
      rewrite shift_edge_shift_edge. f_equal. lia.
    - rewrite shiftl_shiftl. f_equal. lia.
  Qed.

  Lemma glue_pairs_lt f g : pwf f -> pwf g ->
    pairs_lt (length (p_nodes f) + length (p_nodes g)) (glue_pairs f g).
  Proof.
    intros (_ & _ & Wo) (_ & Wi & _). unfold glue_pairs. apply pairs_lt_combine.
    - eapply all_lt_mono; [|exact Wo]. lia.
    - apply all_lt_shiftl. exact Wi.
  Qed.

  Lemma pairs_lt_shift n m P : pairs_lt n P -> pairs_lt (m + n) (shift_pairs m P).
  Proof. intros H. eapply pairs_lt_pmap; [|exact H]. intros i Hi. cbv beta. lia. Qed.

  Lemma KerIs_eqn n n' q P : n = n' -> KerIs n q P -> KerIs n' q P.
  Proof. intros ->. auto. Qed.

  (* IsCompose in terms of KerIs *)
  Lemma IsCompose_ker f g h : IsCompose f g h <->
    exists q, IsQuot (pjoin f g) q h /\ KerIs (length (p_nodes (pjoin f g))) q (glue_pairs f g).
  Proof.
    unfold IsCompose, KerIs. rewrite pjoin_len. tauto.
  Qed.

  Lemma IsCompose_pwf f g h : pwf f -> pwf g -> IsCompose f g h -> pwf h.
  Proof. intros Wf Wg (q & Q & _). eapply quot_pwf; [|exact Q]. apply pwf_pjoin; auto. Qed.

  (* ---------- associativity ---------- *)
  (* (f;g);k is the quotient of f+g+k by the union of the two families of gluing pairs *)
  Lemma glue_left f g k fg l : pwf f -> pwf g -> pwf k ->
    IsCompose f g fg -> IsCompose fg k l ->
    exists Q, IsQuot (pjoin (pjoin f g) k) Q l /\
      KerIs (length (p_nodes (pjoin (pjoin f g) k))) Q
            (glue_pairs f g ++ shift_pairs (length (p_nodes f)) (glue_pairs g k)).
  Proof.
    intros Wf Wg Wk C1 C2.
    apply IsCompose_ker in C1. apply IsCompose_ker in C2.
    destruct C1 as (q1 & Q1 & K1). destruct C2 as (q2 & Q2 & K2).
    pose proof (pwf_pjoin Wf Wg) as W0.
    pose proof (IsQuot_pjoin W0 Q1 (IsQuot_id k)) as QL1.
    set (QQ := qsum (length (p_nodes (pjoin f g))) (length (p_nodes fg)) q1 (fun i => i)) in *.
    exists (fun i => q2 (QQ i)). split; [exact (quot_trans QL1 Q2)|].
    assert (HP1 : pairs_lt (length (p_nodes (pjoin f g))) (glue_pairs f g)).
    { rewrite pjoin_len. apply glue_pairs_lt; auto. }
    assert (KL1 : KerIs (length (p_nodes (pjoin (pjoin f g) k))) QQ
                        (glue_pairs f g ++ shift_pairs (length (p_nodes (pjoin f g))) [])).
    { rewrite (pjoin_len (pjoin f g) k). apply ker_sum; auto.
      - apply KerIs_id.
      - apply Q1. }
    cbn [shift_pairs pmap map] in KL1. rewrite app_nil_r in KL1.
    apply ker_trans with (m := length (p_nodes (pjoin fg k))) (P' := glue_pairs fg k); auto.
    - apply QL1.
    - apply QL1.
    - eapply pairs_lt_mono; [|exact HP1]. rewrite (pjoin_len (pjoin f g) k). lia.
    - rewrite (pjoin_len (pjoin f g) k), (pjoin_len f g), <- Nat.add_assoc.
      apply pairs_lt_shift. apply glue_pairs_lt; auto.
    - assert (E : pmap QQ (shift_pairs (length (p_nodes f)) (glue_pairs g k)) = glue_pairs fg k).
      { unfold glue_pairs. rewrite <- combine_shift, <- combine_pmap. f_equal.
        - unfold QQ. rewrite map_qsum_l.
          + destruct Q1 as (_ & _ & _ & _ & _ & Ho). rewrite Ho. reflexivity.
          + rewrite pjoin_len. apply all_lt_shiftl. apply Wg.
        - rewrite shiftl_shiftl. replace (length (p_nodes g) + length (p_nodes f))
            with (length (p_nodes (pjoin f g))) by (rewrite pjoin_len; lia).
          unfold QQ. rewrite map_qsum_r, map_id. reflexivity. }
      rewrite E. tauto.
  Qed.

  Lemma glue_right f g k gk r : pwf f -> pwf g -> pwf k ->
    IsCompose g k gk -> IsCompose f gk r ->
    exists Q, IsQuot (pjoin f (pjoin g k)) Q r /\
      KerIs (length (p_nodes (pjoin f (pjoin g k)))) Q
            (shift_pairs (length (p_nodes f)) (glue_pairs g k) ++ glue_pairs f g).
  Proof.
    intros Wf Wg Wk C1 C2.
    apply IsCompose_ker in C1. apply IsCompose_ker in C2.
    destruct C1 as (q1 & Q1 & K1). destruct C2 as (q2 & Q2 & K2).
    pose proof (IsQuot_pjoin Wf (IsQuot_id f) Q1) as QR1.
    set (QQ := qsum (length (p_nodes f)) (length (p_nodes f)) (fun i => i) q1) in *.
    exists (fun i => q2 (QQ i)). split; [exact (quot_trans QR1 Q2)|].
    assert (KR1 : KerIs (length (p_nodes (pjoin f (pjoin g k)))) QQ
                        ([] ++ shift_pairs (length (p_nodes f)) (glue_pairs g k))).
    { rewrite (pjoin_len f (pjoin g k)). apply ker_sum; auto.
      - apply KerIs_id.
      - constructor. }
    cbn [app] in KR1.
    apply ker_trans with (m := length (p_nodes (pjoin f gk))) (P' := glue_pairs f gk); auto.
    - apply QR1.
    - apply QR1.
    - rewrite (pjoin_len f (pjoin g k)), (pjoin_len g k).
      apply pairs_lt_shift. apply glue_pairs_lt; auto.
    - eapply pairs_lt_mono; [|apply glue_pairs_lt; auto].
      rewrite (pjoin_len f (pjoin g k)), (pjoin_len g k). lia.
    - assert (E : pmap QQ (glue_pairs f g) = glue_pairs f gk).
      { unfold glue_pairs. rewrite <- combine_pmap. f_equal.
        - unfold QQ. rewrite map_qsum_l by apply Wf. apply map_id.
        - unfold QQ. rewrite map_qsum_r.
          destruct Q1 as (_ & _ & _ & _ & Hi & _). rewrite Hi. reflexivity. }
      rewrite E. tauto.
  Qed.

  Theorem C03p_assoc_niso f g k fg gk l r : pwf f -> pwf g -> pwf k ->
    IsCompose f g fg -> IsCompose fg k l -> IsCompose g k gk -> IsCompose f gk r -> NIso l r.
  Proof.
    intros Wf Wg Wk C1 C2 C3 C4.
    destruct (glue_left Wf Wg Wk C1 C2) as (QL & HQL & KL).
    destruct (glue_right Wf Wg Wk C3 C4) as (QR & HQR & KR).
    rewrite pjoin_assoc in HQL, KL.
    apply (quot_unique (pwf_pjoin Wf (pwf_pjoin Wg Wk)) HQL HQR).
    intros i j Hi Hj. rewrite (KL i j Hi Hj), (KR i j Hi Hj). apply conn_app_comm.
  Qed.

  Theorem C03p_assoc f g k fg gk l r : pwf f -> pwf g -> pwf k ->
    IsCompose f g fg -> IsCompose fg k l -> IsCompose g k gk -> IsCompose f gk r -> Iso l r.
  Proof.
    intros Wf Wg Wk C1 C2 C3 C4. apply NIso_Iso.
    exact (C03p_assoc_niso Wf Wg Wk C1 C2 C3 C4).
  Qed.
  (* ---------- wirings: diagrams without hyperedges ---------- *)
  Definition pwire (w : list O) (I Ou : list nat) : pohg O A := mkP w [] I Ou.
  Definition pid (a : list O) : pohg O A := pwire a (seq 0 (length a)) (seq 0 (length a)).
  (* the symmetry a (x) b -> b (x) a, as built by OpenHypergraph::twist *)
  Definition ptwist (a b : list O) : pohg O A :=
    pwire (b ++ a) (seq (length b) (length a) ++ seq 0 (length b)) (seq 0 (length a + length b)).

  Lemma pwf_pwire w I Ou : all_lt (length w) I -> all_lt (length w) Ou -> pwf (pwire w I Ou).
  Proof. intros H1 H2. unfold pwf, pwire. cbn. split; [intros e []|auto]. Qed.

  Lemma all_lt_seq s k n : s + k <= n -> all_lt n (seq s k).
  Proof. intros H. apply Forall_forall. intros x Hx. apply in_seq in Hx. lia. Qed.

  Lemma pwf_pid a : pwf (pid a).
  Proof. apply pwf_pwire; apply all_lt_seq; lia. Qed.

  Lemma pwf_ptwist a b : pwf (ptwist a b).
  Proof.
    apply pwf_pwire; rewrite app_length.
    - apply all_lt_app; apply all_lt_seq; lia.
    - apply all_lt_seq. lia.
  Qed.

  Lemma shiftl_0 (xs : list nat) : shiftl 0 xs = xs.
  Proof. unfold shiftl. rewrite <- (map_id xs) at 2. apply map_ext. intros x. lia. Qed.

  Lemma shift_edge_0 (e : pedge A) : shift_edge 0 e = e.
  Proof. destruct e as [x s t]. unfold shift_edge. cbn [pe_lbl pe_src pe_tgt]. rewrite !shiftl_0. reflexivity. Qed.

  Lemma shiftl_seq n s k : shiftl n (seq s k) = seq (s + n) k.
  Proof.
    revert s. induction k as [|k IH]; intros s; [reflexivity|].
    cbn [seq]. unfold shiftl in *. cbn [map]. f_equal. apply (IH (S s)).
  Qed.

  Lemma nth_shiftl n (xs : list nat) i : i < length xs -> nth i (shiftl n xs) 0 = nth i xs 0 + n.
  Proof.
    intros H. unfold shiftl. rewrite (nth_indep _ 0 (0 + n)) by (rewrite map_length; exact H).
    apply (map_nth (fun x => x + n)).
  Qed.

  Lemma in_combine_nth (xs ys : list nat) x y : In (x, y) (combine xs ys) ->
    exists i, i < length xs /\ i < length ys /\ x = nth i xs 0 /\ y = nth i ys 0.
  Proof.
    revert ys. induction xs as [|a xs IH]; intros [|b ys] H; cbn in H; try contradiction.
    destruct H as [E|H].
    - inversion E; subst. exists 0. cbn. repeat split; lia.
    - destruct (IH ys H) as (i & H1 & H2 & H3 & H4). exists (S i). cbn. repeat split; auto; lia.
  Qed.

  Lemma nth_in_combine (xs ys : list nat) i : i < length xs -> i < length ys ->
    In (nth i xs 0, nth i ys 0) (combine xs ys).
  Proof.
    revert ys i. induction xs as [|a xs IH]; intros [|b ys] [|i] H1 H2; cbn in *; try lia; auto.
    right. apply IH; lia.
  Qed.

  (* position-wise equality of types *)
  Lemma type_nth (n1 n2 : list O) : forall (l1 l2 : list nat),
    map (nth_error n1) l1 = map (nth_error n2) l2 ->
    forall i, i < length l1 -> nth_error n1 (nth i l1 0) = nth_error n2 (nth i l2 0).
  Proof.
    induction l1 as [|x l1 IH]; intros [|y l2] H i Hi; cbn in *; try discriminate; try lia.
    inversion H as [[H1 H2]]. destruct i as [|i]; auto. apply IH; auto. lia.
  Qed.

  Lemma map_nth_error_seq (a : list O) : map (nth_error a) (seq 0 (length a)) = map Some a.
  Proof.
    apply nth_error_ext. intros i. rewrite !nth_error_map.
    destruct (lt_dec i (length a)) as [L|L].
    - rewrite (nth_error_nth' (seq 0 (length a)) 0) by (rewrite seq_length; exact L).
      rewrite seq_nth by exact L. cbn [option_map plus].
      destruct (nth_error a i) as [x|] eqn:E; [reflexivity|]. apply nth_error_None in E. lia.
    - replace (nth_error (seq 0 (length a)) i) with (@None nat)
        by (symmetry; apply nth_error_None; rewrite seq_length; lia).
      replace (nth_error a i) with (@None O) by (symmetry; apply nth_error_None; lia).
      reflexivity.
  Qed.

  Lemma type_length g (xs : list nat) (a : list O) : type_of g xs = map Some a -> length xs = length a.
  Proof. intros H. apply (f_equal (@length _)) in H. unfold type_of in H. rewrite !map_length in H. exact H. Qed.

  (* reading a block of a concatenation *)
  Lemma map_nth_mid (L M R : list nat) s k : s = length L -> k = length M ->
    map (fun i => nth i (L ++ M ++ R) 0) (seq s k) = M.
  Proof.
    intros -> ->. apply nth_ext with 0 0.
    - rewrite map_length, seq_length. reflexivity.
    - intros i Hi. rewrite map_length, seq_length in Hi. rewrite nth_map_seq by exact Hi.
      rewrite app_nth2 by lia. rewrite app_nth1 by lia. f_equal. lia.
  Qed.

  Lemma map_nth_all (M : list nat) : map (fun i => nth i M 0) (seq 0 (length M)) = M.
  Proof.
    pose proof (@map_nth_mid [] M [] 0 (length M) eq_refl eq_refl) as H.
    cbn [app] in H. rewrite app_nil_r in H. exact H.
  Qed.

  (* composing with a wiring on the left whose outputs are the identity: re-index the inputs *)
  Theorem wire_left w I Ou f : pwf f -> all_lt (length w) I -> Ou = seq 0 (length w) ->
    src_type f = map Some w ->
    IsCompose (pwire w I Ou) f
              (mkP (p_nodes f) (p_edges f) (map (fun i => nth i (p_ins f) 0) I) (p_outs f)).
  Proof.
    intros Wf HI -> Hty. pose proof Wf as (We & Wi & Wo).
    pose proof (type_length _ _ _ Hty) as Hlen.
    set (nw := length w). set (q := qsum nw 0 (fun i => nth i (p_ins f) 0) (fun i => i)).
    assert (Hq1 : forall i, i < nw -> q i = nth i (p_ins f) 0) by (intros i Hi; unfold q; rewrite qsum_l by auto; reflexivity).
    assert (Hq2 : forall i, q (i + nw) = i) by (intros i; unfold q; rewrite qsum_r'; lia).
    assert (Hin : forall i, i < nw -> nth i (p_ins f) 0 < length (p_nodes f)).
    { intros i Hi. eapply all_lt_In; [exact Wi|]. apply nth_In. fold nw in Hlen. lia. }
    exists q. split.
    - unfold IsQuot, pjoin, pwire. cbn [p_nodes p_edges p_ins p_outs app map]. fold nw.
      rewrite app_length. fold nw. split; [|split; [|split; [|split; [|split]]]].
      + intros i Hi. destruct (lt_dec i nw) as [L|L].
        * rewrite Hq1 by auto. auto.
        * replace i with (i - nw + nw) by lia. rewrite Hq2. lia.
      + intros j Hj. exists (j + nw). split; [lia|apply Hq2].
      + intros i Hi. destruct (lt_dec i nw) as [L|L].
        * rewrite Hq1 by auto. rewrite nth_error_app1 by exact L.
          unfold src_type, type_of in Hty. rewrite <- map_nth_error_seq in Hty.
          rewrite (type_nth _ _ _ _ Hty) by (fold nw in Hlen; lia).
          rewrite seq_nth by exact L. reflexivity.
        * replace i with (i - nw + nw) at 1 by lia. rewrite Hq2.
          rewrite nth_error_app2 by (fold nw; lia). reflexivity.
      + rewrite map_map. rewrite <- (map_id (p_edges f)) at 1. apply map_ext. intros e.
        unfold q. rewrite map_edge_qsum_r, shift_edge_0, map_edge_id. reflexivity.
      + unfold q. symmetry. apply map_qsum_l. exact HI.
      + unfold q. rewrite map_qsum_r, shiftl_0, map_id. reflexivity.
    - cbn [pwire p_nodes]. fold nw. apply ker_by_rep with (rep := fun j => j + nw).
      + intros x y Hxy. unfold glue_pairs, pwire in Hxy. cbn [p_nodes p_ins p_outs] in Hxy.
        apply in_combine_nth in Hxy. destruct Hxy as (i & H1 & H2 & -> & ->).
        rewrite seq_length in H1. rewrite shiftl_length in H2.
        rewrite seq_nth by exact H1. cbn [plus]. rewrite nth_shiftl by exact H2.
        rewrite Hq1, Hq2 by exact H1. reflexivity.
      + intros i Hi. destruct (lt_dec i nw) as [L|L].
        * rewrite Hq1 by exact L. apply conn_step. unfold glue_pairs, pwire.
          cbn [p_nodes p_ins p_outs]. fold nw.
          replace i with (nth i (seq 0 nw) 0) at 1 by (rewrite seq_nth; auto).
          rewrite <- nth_shiftl by (fold nw in Hlen; lia).
          apply nth_in_combine; [rewrite seq_length|rewrite shiftl_length; fold nw in Hlen]; lia.
        * replace i with (i - nw + nw) at 2 by lia. rewrite Hq2.
          replace (i - nw + nw) with i by lia. apply conn_refl.
  Qed.

  (* composing with a wiring on the right whose inputs are a permutation with inverse J:
     re-index the outputs *)
  Theorem wire_right w I J Ou f : pwf f -> length J = length w ->
    (forall j, j < length w -> nth j J 0 < length I /\ nth (nth j J 0) I 0 = j) ->
    (forall i, i < length I -> nth (nth i I 0) J 0 = i) ->
    tgt_type f = map (nth_error w) I ->
    IsCompose f (pwire w I Ou)
              (mkP (p_nodes f) (p_edges f) (p_ins f)
                   (map (fun i => nth i (p_outs f) 0) (map (fun j => nth j J 0) Ou))).
  Proof.
    intros Wf HJ Hinv1 Hinv2 Hty. pose proof Wf as (We & Wi & Wo).
    assert (Hlen : length (p_outs f) = length I).
    { apply (f_equal (@length _)) in Hty. unfold tgt_type, type_of in Hty.
      rewrite !map_length in Hty. exact Hty. }
    set (nf := length (p_nodes f)).
    set (q := qsum nf 0 (fun i => i) (fun j => nth (nth j J 0) (p_outs f) 0)).
    assert (Hq1 : forall i, i < nf -> q i = i) by (intros i Hi; unfold q; rewrite qsum_l by auto; reflexivity).
    assert (Hq2 : forall j, q (j + nf) = nth (nth j J 0) (p_outs f) 0)
      by (intros j; unfold q; rewrite qsum_r'; lia).
    assert (Hout : forall i, i < length I -> nth i (p_outs f) 0 < nf).
    { intros i Hi. eapply all_lt_In; [exact Wo|]. apply nth_In. lia. }
    exists q. split.
    - unfold IsQuot, pjoin, pwire. cbn [p_nodes p_edges p_ins p_outs app map]. fold nf.
      rewrite app_length. fold nf. split; [|split; [|split; [|split; [|split]]]].
      + intros i Hi. destruct (lt_dec i nf) as [L|L].
        * rewrite Hq1 by auto. auto.
        * replace i with (i - nf + nf) by lia. rewrite Hq2. apply Hout. apply Hinv1. lia.
      + intros j Hj. exists j. split; [lia|apply Hq1; auto].
      + intros i Hi. destruct (lt_dec i nf) as [L|L].
        * rewrite Hq1 by auto. rewrite nth_error_app1 by exact L. reflexivity.
        * replace i with (i - nf + nf) at 1 by lia. rewrite Hq2.
          rewrite nth_error_app2 by (fold nf; lia). fold nf.
          destruct (Hinv1 (i - nf)) as [H1 H2]; [lia|].
          unfold tgt_type, type_of in Hty.
          rewrite (type_nth _ _ _ _ Hty) by lia. rewrite H2. reflexivity.
      + rewrite app_nil_r. symmetry. apply map_edges_id; auto.
      + symmetry. apply map_id_lt with nf; auto.
      + unfold q. rewrite map_qsum_r, shiftl_0, !map_map. reflexivity.
    - cbn [pwire p_nodes]. fold nf. apply ker_by_rep with (rep := fun j => j).
      + intros x y Hxy. unfold glue_pairs, pwire in Hxy. cbn [p_nodes p_ins p_outs] in Hxy.
        apply in_combine_nth in Hxy. destruct Hxy as (i & H1 & H2 & -> & ->).
        rewrite shiftl_length in H2. fold nf. rewrite nth_shiftl by exact H2.
        rewrite Hq1 by (apply Hout; exact H2). rewrite Hq2, Hinv2 by exact H2. reflexivity.
      + intros i Hi. destruct (lt_dec i nf) as [L|L].
        * rewrite Hq1 by exact L. apply conn_refl.
        * replace i with (i - nf + nf) at 2 by lia. rewrite Hq2.
          destruct (Hinv1 (i - nf)) as [H1 H2]; [lia|].
          apply conn_sym. apply conn_step. unfold glue_pairs, pwire.
          cbn [p_nodes p_ins p_outs]. fold nf.
          replace i with (nth (nth (i - nf) J 0) (shiftl nf I) 0) at 2
            by (rewrite nth_shiftl by exact H1; lia).
          apply nth_in_combine; [|rewrite shiftl_length]; lia.
  Qed.
  (* ---------- more bookkeeping: blocks ---------- *)
  Lemma pohg_eta f : mkP (p_nodes f) (p_edges f) (p_ins f) (p_outs f) = f.
  Proof. destruct f; reflexivity. Qed.

  Lemma map_nth_all' (M : list nat) n : n = length M -> map (fun i => nth i M 0) (seq 0 n) = M.
  Proof. intros ->. apply map_nth_all. Qed.

  Lemma map_nth_app_l (M R : list nat) k : k = length M ->
    map (fun i => nth i (M ++ R) 0) (seq 0 k) = M.
  Proof. intros E. apply (@map_nth_mid [] M R 0 k); auto. Qed.

  Lemma map_nth_app_r (L M : list nat) s k : s = length L -> k = length M ->
    map (fun i => nth i (L ++ M) 0) (seq s k) = M.
  Proof.
    intros E1 E2. pose proof (@map_nth_mid L M [] s k E1 E2) as H. rewrite app_nil_r in H. exact H.
  Qed.

  Lemma type_mid (L M R : list O) s k : s = length L -> k = length M ->
    map (nth_error (L ++ M ++ R)) (seq s k) = map Some M.
  Proof.
    intros -> ->. rewrite <- map_nth_error_seq.
    replace (seq (length L) (length M)) with (shiftl (length L) (seq 0 (length M)))
      by (rewrite shiftl_seq; reflexivity).
    unfold shiftl. rewrite map_map. apply map_ext_in. intros i Hi. apply in_seq in Hi.
    rewrite nth_error_app2 by lia. replace (i + length L - length L) with i by lia.
    apply nth_error_app1. lia.
  Qed.

  Lemma type_app_l (M R : list O) k : k = length M ->
    map (nth_error (M ++ R)) (seq 0 k) = map Some M.
  Proof. intros E. apply (@type_mid [] M R 0 k); auto. Qed.

  Lemma type_app_r (L M : list O) s k : s = length L -> k = length M ->
    map (nth_error (L ++ M)) (seq s k) = map Some M.
  Proof.
    intros E1 E2. pose proof (@type_mid L M [] s k E1 E2) as H. rewrite app_nil_r in H. exact H.
  Qed.

  Lemma src_type_pid a : src_type (pid a) = map Some a.
  Proof. apply map_nth_error_seq. Qed.
  Lemma tgt_type_pid a : tgt_type (pid a) = map Some a.
  Proof. apply map_nth_error_seq. Qed.

  Lemma src_type_ptwist a b : src_type (ptwist a b) = map Some (a ++ b).
  Proof.
    unfold src_type, type_of, ptwist, pwire. cbn [p_nodes p_ins].
    rewrite !map_app, type_app_r, type_app_l; auto.
  Qed.

  Lemma tgt_type_ptwist a b : tgt_type (ptwist a b) = map Some (b ++ a).
  Proof.
    unfold tgt_type, type_of, ptwist, pwire. cbn [p_nodes p_outs].
    rewrite <- map_nth_error_seq. rewrite app_length. f_equal. f_equal. lia.
  Qed.

  (* ---------- identities ---------- *)
  Theorem C03p_unit_left a f h : pwf f -> src_type f = map Some a ->
    IsCompose (pid a) f h -> Iso h f.
  Proof.
    intros Wf Hty C.
    assert (HI : all_lt (length a) (seq 0 (length a))) by (apply all_lt_seq; lia).
    pose proof (@wire_left a (seq 0 (length a)) (seq 0 (length a)) f Wf HI eq_refl Hty) as C'.
    rewrite (map_nth_all' (p_ins f)) in C' by (symmetry; apply (type_length _ _ _ Hty)).
    rewrite pohg_eta in C'.
    apply NIso_Iso. exact (compose_unique_pwf (pwf_pid a) Wf C C').
  Qed.

  Theorem C03p_unit_right a f h : pwf f -> tgt_type f = map Some a ->
    IsCompose f (pid a) h -> Iso h f.
  Proof.
    intros Wf Hty C.
    assert (C' : IsCompose f (pid a)
              (mkP (p_nodes f) (p_edges f) (p_ins f)
                   (map (fun i => nth i (p_outs f) 0)
                        (map (fun j => nth j (seq 0 (length a)) 0) (seq 0 (length a)))))).
    { apply wire_right.
      - exact Wf.
      - apply seq_length.
      - intros j Hj. rewrite seq_length, !seq_nth by (rewrite ?seq_nth; lia). cbn. auto.
      - intros i Hi. rewrite seq_length in Hi. rewrite !seq_nth by (rewrite ?seq_nth; lia).
        reflexivity.
      - rewrite map_nth_error_seq. exact Hty. }
    rewrite (map_nth_all' (seq 0 (length a))) in C' by (rewrite seq_length; reflexivity).
    rewrite (map_nth_all' (p_outs f)) in C' by (symmetry; apply (type_length _ _ _ Hty)).
    rewrite pohg_eta in C'.
    apply NIso_Iso. exact (compose_unique_pwf Wf (pwf_pid a) C C').
  Qed.

  (* ---------- the symmetry is self-inverse ---------- *)
  Theorem C03p_twist_inverse a b h : IsCompose (ptwist a b) (ptwist b a) h -> Iso h (pid (a ++ b)).
  Proof.
    intros C.
    assert (C' : IsCompose (ptwist a b) (ptwist b a) (pid (a ++ b))).
    { assert (HI : all_lt (length (b ++ a)) (seq (length b) (length a) ++ seq 0 (length b))).
      { rewrite app_length. apply all_lt_app; apply all_lt_seq; lia. }
      assert (HO : seq 0 (length a + length b) = seq 0 (length (b ++ a))).
      { rewrite app_length. f_equal. lia. }
      pose proof (@wire_left (b ++ a) _ _ (ptwist b a) (pwf_ptwist b a) HI HO
                             (src_type_ptwist b a)) as H.
      unfold ptwist at 2 3 4 5 in H. unfold pwire at 2 3 4 5 in H.
      cbn [p_nodes p_edges p_ins p_outs] in H.
      rewrite map_app, map_nth_app_r, map_nth_app_l in H by (rewrite ?seq_length; reflexivity).
      rewrite <- seq_app in H.
      unfold pid, pwire. rewrite app_length.
      replace (length b + length a) with (length a + length b) in H by lia.
      exact H. }
    apply NIso_Iso. exact (compose_unique_pwf (pwf_ptwist a b) (pwf_ptwist b a) C C').
  Qed.
  (* ---------- block permutations ---------- *)
  Lemma map_on_shift (p : nat -> nat) N s s' (xs : list nat) :
    (forall x, x < N -> p (x + s) = x + s') -> all_lt N xs -> map p (shiftl s xs) = shiftl s' xs.
  Proof.
    intros H Hx. unfold shiftl. rewrite map_map. apply map_ext_in. intros x Hin.
    apply H. eapply all_lt_In; eauto.
  Qed.

  Lemma map_edges_on_shift (p : nat -> nat) s s' g : pwf g ->
    (forall x, x < length (p_nodes g) -> p (x + s) = x + s') ->
    map (map_edge p) (map (shift_edge s) (p_edges g)) = map (shift_edge s') (p_edges g).
  Proof.
    intros (We & _) H. rewrite map_map. apply map_ext_in. intros e Hin.
    destruct (We e Hin) as [H1 H2]. unfold map_edge, shift_edge. cbn [pe_lbl pe_src pe_tgt].
    rewrite !(@map_on_shift p (length (p_nodes g)) s s'); auto.
  Qed.

  Lemma map_shift_edges s s' (es : list (pedge A)) :
    map (shift_edge s) (map (shift_edge s') es) = map (shift_edge (s' + s)) es.
  Proof. rewrite map_map. apply map_ext. intros e. apply shift_edge_shift_edge. Qed.

  (* swap of the two middle blocks of a + b + c + d *)
  Definition mid4 (a b c : nat) (i : nat) : nat :=
    if i <? a then i else if i <? a + b then i + c else if i <? a + b + c then i - b else i.

  Ltac ltb_cases :=
    repeat match goal with
           | |- context [?x <? ?y] => destruct (Nat.ltb_spec x y)
           | H : context [?x <? ?y] |- _ => destruct (Nat.ltb_spec x y)
           end.

  Lemma mid4_1 a b c x : x < a -> mid4 a b c x = x.
  Proof. intros H. unfold mid4. ltb_cases; lia. Qed.
  Lemma mid4_2 a b c x : x < b -> mid4 a b c (x + a) = x + (a + c).
  Proof. intros H. unfold mid4. ltb_cases; lia. Qed.
  Lemma mid4_3 a b c x : x < c -> mid4 a b c (x + (a + b)) = x + a.
  Proof. intros H. unfold mid4. ltb_cases; lia. Qed.
  Lemma mid4_4 a b c x : mid4 a b c (x + (a + b + c)) = x + (a + b + c).
  Proof. unfold mid4. ltb_cases; lia. Qed.

  Lemma bij_on_mid4 a b c d : bij_on (a + b + c + d) (mid4 a b c).
  Proof.
    split.
    - intros i H. unfold mid4. ltb_cases; lia.
    - intros i j H1 H2. unfold mid4. ltb_cases; lia.
  Qed.

  Lemma nth_error_app_shift {T} (L X : list T) i n : n = length L ->
    nth_error (L ++ X) (i + n) = nth_error X i.
  Proof. intros ->. rewrite nth_error_app2 by lia. f_equal. lia. Qed.

  Lemma mid4_labels (F F' G G' : list O) i :
    nth_error ((F ++ G) ++ (F' ++ G')) (mid4 (length F) (length F') (length G) i) =
    nth_error ((F ++ F') ++ (G ++ G')) i.
  Proof.
    destruct (lt_dec i (length F)) as [L1|L1].
    { rewrite mid4_1 by exact L1. rewrite !nth_error_app1 by (rewrite ?app_length; lia). reflexivity. }
    destruct (lt_dec i (length F + length F')) as [L2|L2].
    { replace i with (i - length F + length F) by lia.
      rewrite mid4_2 by lia.
      rewrite (nth_error_app1 (F ++ F')) by (rewrite app_length; lia).
      rewrite (nth_error_app_shift F F') by reflexivity.
      rewrite (nth_error_app_shift (F ++ G)) by (rewrite app_length; reflexivity).
      rewrite nth_error_app1 by lia. reflexivity. }
    destruct (lt_dec i (length F + length F' + length G)) as [L3|L3].
    { replace i with (i - (length F + length F') + (length F + length F')) by lia.
      rewrite mid4_3 by lia.
      rewrite (nth_error_app_shift (F ++ F')) by (rewrite app_length; reflexivity).
      rewrite (nth_error_app1 (F ++ G)) by (rewrite app_length; lia).
      rewrite (nth_error_app_shift F G) by reflexivity.
      rewrite nth_error_app1 by lia. reflexivity. }
    replace i with (i - (length F + length F' + length G) + (length F + length F' + length G)) by lia.
    rewrite mid4_4.
    replace (i - (length F + length F' + length G) + (length F + length F' + length G))
      with ((i - (length F + length F' + length G) + length G) + length (F ++ F'))
      by (rewrite app_length; lia).
    rewrite (nth_error_app_shift (F ++ F')) by reflexivity.
    rewrite (nth_error_app_shift G G') by reflexivity.
    replace (i - (length F + length F' + length G) + length G + length (F ++ F'))
      with ((i - (length F + length F' + length G) + length F') + length (F ++ G))
      by (rewrite !app_length; lia).
    rewrite (nth_error_app_shift (F ++ G)) by reflexivity.
    rewrite (nth_error_app_shift F' G') by reflexivity. reflexivity.
  Qed.

  Lemma pwf_ptensor f g : pwf f -> pwf g -> pwf (ptensor f g).
  Proof.
    intros Wf Wg. pose proof (pwf_pjoin Wf Wg) as (E & _ & _).
    destruct Wf as (_ & I1 & O1). destruct Wg as (_ & I2 & O2).
    split; [exact E|]. cbn [ptensor p_nodes p_ins p_outs]. rewrite app_length.
    split; apply all_lt_app.
    - eapply all_lt_mono; [|exact I1]. lia.
    - apply all_lt_shiftl. exact I2.
    - eapply all_lt_mono; [|exact O1]. lia.
    - apply all_lt_shiftl. exact O2.
  Qed.

  (* ---------- interchange ---------- *)
  Theorem C03p_interchange f f' g g' h1 h2 L : pwf f -> pwf f' -> pwf g -> pwf g' ->
    length (p_outs f) = length (p_ins g) ->
    IsCompose f g h1 -> IsCompose f' g' h2 -> IsCompose (ptensor f f') (ptensor g g') L ->
    Iso L (ptensor h1 h2).
  Proof.
    intros Wf Wf' Wg Wg' Hlen C1 C2 C3.
    apply IsCompose_ker in C1. apply IsCompose_ker in C2. apply IsCompose_ker in C3.
    destruct C1 as (q1 & Q1 & K1). destruct C2 as (q2 & Q2 & K2). destruct C3 as (qL & QL & KL).
    pose proof (pwf_pjoin Wf Wg) as W1. pose proof (pwf_pjoin Wf' Wg') as W2.
    pose proof (IsQuot_ptensor W1 Q1 Q2) as QR.
    set (QQ := qsum (length (p_nodes (pjoin f g))) (length (p_nodes h1)) q1 q2) in *.
    assert (HP1 : pairs_lt (length (p_nodes (pjoin f g))) (glue_pairs f g))
      by (rewrite pjoin_len; apply glue_pairs_lt; auto).
    assert (KR : KerIs (length (p_nodes (pjoin f g)) + length (p_nodes (pjoin f' g'))) QQ
                   (glue_pairs f g ++ shift_pairs (length (p_nodes (pjoin f g))) (glue_pairs f' g'))).
    { apply ker_sum; auto. apply Q1. }
    pose proof (pwf_ptensor Wf Wf') as Wt1. pose proof (pwf_ptensor Wg Wg') as Wt2.
    pose proof (pwf_pjoin Wt1 Wt2) as WD.
    set (nf := length (p_nodes f)) in *. set (nf' := length (p_nodes f')) in *.
    set (ng := length (p_nodes g)) in *. set (ng' := length (p_nodes g')) in *.
    set (pn := mid4 nf nf' ng).
    assert (EnD : length (p_nodes (pjoin (ptensor f f') (ptensor g g'))) = nf + nf' + ng + ng').
    { rewrite pjoin_len, !ptensor_len. unfold nf, nf', ng, ng'. lia. }
    assert (En1 : length (p_nodes (pjoin f g)) = nf + ng) by apply pjoin_len.
    assert (En2 : length (p_nodes (pjoin f' g')) = nf' + ng') by apply pjoin_len.
    assert (Hb : bij_on (length (p_nodes (pjoin (ptensor f f') (ptensor g g')))) pn).
    { rewrite EnD. apply bij_on_mid4. }
    destruct Wf as (Ef & If & Of). destruct Wf' as (Ef' & If' & Of').
    destruct Wg as (Eg & Ig & Og). destruct Wg' as (Eg' & Ig' & Og').
    fold nf in If, Of. fold nf' in If', Of'. fold ng in Ig, Og. fold ng' in Ig', Og'.
    assert (M1 : forall xs, all_lt nf xs -> map pn xs = xs).
    { intros xs H. apply map_id_lt with nf; auto. intros x Hx. apply mid4_1. exact Hx. }
    assert (M2 : forall xs, all_lt nf' xs -> map pn (shiftl nf xs) = shiftl (nf + ng) xs).
    { intros xs H. apply map_on_shift with nf'; auto. intros x Hx. apply mid4_2. exact Hx. }
    assert (M3 : forall xs, all_lt ng xs -> map pn (shiftl (nf + nf') xs) = shiftl nf xs).
    { intros xs H. apply map_on_shift with ng; auto. intros x Hx. apply mid4_3. exact Hx. }
    assert (M4 : forall xs, map pn (shiftl (nf + nf' + ng) xs) = shiftl (nf + nf' + ng) xs).
    { intros xs. apply map_on_shift with (S (list_max xs)).
      - intros x _. apply mid4_4.
      - apply Forall_forall. intros x Hx. apply in_le_list_max in Hx. lia. }
    apply (@quot_iso O A (pjoin (ptensor f f') (ptensor g g')) (ptensor (pjoin f g) (pjoin f' g'))
             pn qL QQ L (ptensor h1 h2) WD); auto.
    - rewrite EnD, ptensor_len, En1, En2. lia.
    - intros i _. unfold pn, nf, nf', ng. apply mid4_labels.
    - cbn [pjoin ptensor p_nodes p_edges]. rewrite !app_length. fold nf nf' ng ng'.
      rewrite !map_app, !map_shift_edges.
      rewrite (map_edges_id pn (conj Ef (conj If Of)))
        by (intros x Hx; apply mid4_1; exact Hx).
      rewrite (@map_edges_on_shift pn nf (nf + ng) f' (conj Ef' (conj If' Of')))
        by (intros x Hx; apply mid4_2; exact Hx).
      rewrite (@map_edges_on_shift pn (nf + nf') nf g (conj Eg (conj Ig Og)))
        by (intros x Hx; apply mid4_3; exact Hx).
      replace (ng + (nf + nf')) with (nf + nf' + ng) by lia.
      rewrite (@map_edges_on_shift pn (nf + nf' + ng) (nf + nf' + ng) g' (conj Eg' (conj Ig' Og')))
        by (intros x Hx; apply mid4_4).
      replace (nf' + (nf + ng)) with (nf + nf' + ng) by lia.
      rewrite <- !app_assoc. apply Permutation_app_head.
      rewrite !app_assoc. apply Permutation_app_tail. apply Permutation_app_comm.
    - cbn [pjoin ptensor p_nodes p_ins]. rewrite !app_length. fold nf nf' ng ng'.
      rewrite map_app, M1, M2 by assumption. reflexivity.
    - cbn [pjoin ptensor p_nodes p_outs]. rewrite !app_length. fold nf nf' ng ng'.
      rewrite !shiftl_app, !shiftl_shiftl, map_app.
      rewrite M3 by assumption.
      replace (ng + (nf + nf')) with (nf + nf' + ng) by lia. rewrite M4.
      f_equal. f_equal. lia.
    - intros i j Hi Hj. rewrite (KL i j Hi Hj).
      assert (HPL : pairs_lt (length (p_nodes (pjoin (ptensor f f') (ptensor g g'))))
                             (glue_pairs (ptensor f f') (ptensor g g'))).
      { rewrite pjoin_len. apply glue_pairs_lt; auto. }
      rewrite (conn_pmap_bij Hb HPL Hi Hj).
      assert (E : pmap pn (glue_pairs (ptensor f f') (ptensor g g')) =
                  glue_pairs f g ++ shift_pairs (length (p_nodes (pjoin f g))) (glue_pairs f' g')).
      { unfold glue_pairs. cbn [ptensor p_nodes p_ins p_outs]. rewrite En1, app_length.
        fold nf nf' ng ng'. rewrite <- combine_shift, <- combine_pmap.
        rewrite !shiftl_app, !shiftl_shiftl, !map_app.
        rewrite M1, M2, M3 by assumption.
        replace (ng + (nf + nf')) with (nf + nf' + ng) by lia. rewrite M4.
        rewrite combine_app_eq by (rewrite shiftl_length; exact Hlen).
        f_equal. f_equal. f_equal. lia. }
      rewrite E. symmetry. apply KR.
      + destruct Hb as [Hr _]. specialize (Hr i Hi). rewrite EnD in Hr. rewrite En1, En2. fold pn. lia.
      + destruct Hb as [Hr _]. specialize (Hr j Hj). rewrite EnD in Hr. rewrite En1, En2. fold pn. lia.
  Qed.
  (* ---------- types of a tensor ---------- *)
  Lemma src_type_ptensor f g : pwf f -> src_type (ptensor f g) = src_type f ++ src_type g.
  Proof.
    intros (_ & Wi & _). unfold src_type. cbn [ptensor p_ins]. unfold type_of at 1.
    rewrite map_app. f_equal.
    - apply (type_pjoin_l f g Wi).
    - apply (type_pjoin_r f g).
  Qed.

  Lemma tgt_type_ptensor f g : pwf f -> tgt_type (ptensor f g) = tgt_type f ++ tgt_type g.
  Proof.
    intros (_ & _ & Wo). unfold tgt_type. cbn [ptensor p_outs]. unfold type_of at 1.
    rewrite map_app. f_equal.
    - apply (type_pjoin_l f g Wo).
    - apply (type_pjoin_r f g).
  Qed.
  (* ---------- naturality of the symmetry ---------- *)
  Lemma twist_nth na nb j :
    nth j (seq nb na ++ seq 0 nb) 0 = if j <? na then j + nb else if j <? na + nb then j - na else 0.
  Proof.
    destruct (Nat.ltb_spec j na) as [L|L].
    - rewrite app_nth1 by (rewrite seq_length; exact L). rewrite seq_nth by exact L. lia.
    - rewrite app_nth2 by (rewrite seq_length; exact L). rewrite seq_length.
      destruct (Nat.ltb_spec j (na + nb)) as [L'|L'].
      + rewrite seq_nth by lia. lia.
      + apply nth_overflow. rewrite seq_length. lia.
  Qed.

  Lemma twist_inv_props na nb :
    length (seq na nb ++ seq 0 na) = nb + na /\
    (forall j, j < nb + na ->
       nth j (seq na nb ++ seq 0 na) 0 < length (seq nb na ++ seq 0 nb) /\
       nth (nth j (seq na nb ++ seq 0 na) 0) (seq nb na ++ seq 0 nb) 0 = j) /\
    (forall i, i < length (seq nb na ++ seq 0 nb) ->
       nth (nth i (seq nb na ++ seq 0 nb) 0) (seq na nb ++ seq 0 na) 0 = i).
  Proof.
    rewrite !app_length, !seq_length. split; [reflexivity|]. split.
    - intros j Hj. rewrite !twist_nth. ltb_cases; lia.
    - intros i Hi. rewrite !twist_nth. ltb_cases; lia.
  Qed.

  Definition swap2 (a b : nat) (i : nat) : nat := if i <? a then i + b else i - a.

  Lemma bij_on_swap2 a b : bij_on (a + b) (swap2 a b).
  Proof.
    split.
    - intros i H. unfold swap2. ltb_cases; lia.
    - intros i j H1 H2. unfold swap2. ltb_cases; lia.
  Qed.

  Lemma map_to_shift (p : nat -> nat) N s' (xs : list nat) :
    (forall x, x < N -> p x = x + s') -> all_lt N xs -> map p xs = shiftl s' xs.
  Proof. intros H Hx. unfold shiftl. apply map_ext_lt with N; auto. Qed.

  Lemma map_edges_to_shift (p : nat -> nat) s' g : pwf g ->
    (forall x, x < length (p_nodes g) -> p x = x + s') ->
    map (map_edge p) (p_edges g) = map (shift_edge s') (p_edges g).
  Proof.
    intros (We & _) H. apply map_ext_in. intros e Hin.
    destruct (We e Hin) as [H1 H2]. unfold map_edge, shift_edge.
    rewrite !(@map_to_shift p (length (p_nodes g)) s'); auto.
  Qed.

  (* f (x) g with the two output blocks exchanged is isomorphic to g (x) f with the two input
     blocks exchanged *)
  Lemma swap_iso f g : pwf f -> pwf g ->
    Iso (mkP (p_nodes f ++ p_nodes g) (p_edges (ptensor f g)) (p_ins (ptensor f g))
             (shiftl (length (p_nodes f)) (p_outs g) ++ p_outs f))
        (mkP (p_nodes g ++ p_nodes f) (p_edges (ptensor g f))
             (shiftl (length (p_nodes g)) (p_ins f) ++ p_ins g) (p_outs (ptensor g f))).
  Proof.
    intros Wf Wg. pose proof Wf as (Ef & If & Of). pose proof Wg as (Eg & Ig & Og).
    set (nf := length (p_nodes f)) in *. set (ng := length (p_nodes g)) in *.
    assert (S1 : forall x, x < nf -> swap2 nf ng x = x + ng)
      by (intros x Hx; unfold swap2; ltb_cases; lia).
    assert (S2 : forall x, x < ng -> swap2 nf ng (x + nf) = x + 0)
      by (intros x Hx; unfold swap2; ltb_cases; lia).
    apply Iso_of_perm with (swap2 nf ng); cbn [p_nodes p_edges p_ins p_outs ptensor].
    - rewrite !app_length. lia.
    - rewrite app_length. apply bij_on_swap2.
    - rewrite app_length. fold nf ng. intros i Hi. destruct (lt_dec i nf) as [L|L].
      + rewrite S1 by exact L. rewrite (nth_error_app_shift (p_nodes g)) by reflexivity.
        rewrite !nth_error_app1 by (fold nf; lia). reflexivity.
      + replace i with (i - nf + nf) by lia. rewrite S2 by lia.
        rewrite (nth_error_app_shift (p_nodes f)) by reflexivity.
        rewrite nth_error_app1 by (fold ng; lia). f_equal. lia.
    - fold nf ng. rewrite map_app.
      rewrite (@map_edges_to_shift (swap2 nf ng) ng f Wf S1).
      rewrite (@map_edges_on_shift (swap2 nf ng) nf 0 g Wg S2).
      rewrite (map_ext _ _ shift_edge_0), map_id. apply Permutation_app_comm.
    - fold nf ng. rewrite map_app.
      rewrite (@map_to_shift (swap2 nf ng) nf ng (p_ins f)) by assumption.
      rewrite (@map_on_shift (swap2 nf ng) ng nf 0 (p_ins g)) by assumption.
      rewrite shiftl_0. reflexivity.
    - fold nf ng. rewrite map_app.
      rewrite (@map_to_shift (swap2 nf ng) nf ng (p_outs f)) by assumption.
      rewrite (@map_on_shift (swap2 nf ng) ng nf 0 (p_outs g)) by assumption.
      rewrite shiftl_0. reflexivity.
  Qed.

  Theorem C03p_twist_natural a b c d f g h1 h2 : pwf f -> pwf g ->
    src_type f = map Some a -> tgt_type f = map Some b ->
    src_type g = map Some c -> tgt_type g = map Some d ->
    IsCompose (ptensor f g) (ptwist b d) h1 -> IsCompose (ptwist a c) (ptensor g f) h2 ->
    Iso h1 h2.
  Proof.
    intros Wf Wg Sf Tf Sg Tg C1 C2.
    pose proof (pwf_ptensor Wf Wg) as Wfg. pose proof (pwf_ptensor Wg Wf) as Wgf.
    pose proof (type_length _ _ _ Sf) as Lsf. pose proof (type_length _ _ _ Tf) as Ltf.
    pose proof (type_length _ _ _ Sg) as Lsg. pose proof (type_length _ _ _ Tg) as Ltg.
    (* left-hand side: f (x) g with exchanged outputs *)
    assert (CX : IsCompose (ptensor f g) (ptwist b d)
               (mkP (p_nodes f ++ p_nodes g) (p_edges (ptensor f g)) (p_ins (ptensor f g))
                    (shiftl (length (p_nodes f)) (p_outs g) ++ p_outs f))).
    { destruct (twist_inv_props (length b) (length d)) as (P1 & P2 & P3).
      pose proof (@wire_right (d ++ b) (seq (length d) (length b) ++ seq 0 (length d))
                    (seq (length b) (length d) ++ seq 0 (length b)) (seq 0 (length b + length d))
                    (ptensor f g) Wfg) as H.
      assert (P1' : length (seq (length b) (length d) ++ seq 0 (length b)) = length (d ++ b))
        by (rewrite P1, app_length; reflexivity).
      assert (P2' : forall j, j < length (d ++ b) ->
                nth j (seq (length b) (length d) ++ seq 0 (length b)) 0 <
                length (seq (length d) (length b) ++ seq 0 (length d)) /\
                nth (nth j (seq (length b) (length d) ++ seq 0 (length b)) 0)
                    (seq (length d) (length b) ++ seq 0 (length d)) 0 = j)
        by (intros j Hj; apply P2; rewrite app_length in Hj; exact Hj).
      specialize (H P1' P2' P3).
      assert (Hty : tgt_type (ptensor f g) =
                    map (nth_error (d ++ b)) (seq (length d) (length b) ++ seq 0 (length d))).
      { rewrite (tgt_type_ptensor g Wf), Tf, Tg, <- map_app. symmetry. apply (src_type_ptwist b d). }
      specialize (H Hty).
      rewrite (map_nth_all' (seq (length b) (length d) ++ seq 0 (length b))) in H
        by (rewrite app_length, !seq_length; lia).
      cbn [ptensor p_nodes p_outs] in H. rewrite map_app in H.
      rewrite map_nth_app_r, map_nth_app_l in H by (rewrite ?shiftl_length; lia).
      exact H. }
    (* right-hand side: g (x) f with exchanged inputs *)
    assert (CY : IsCompose (ptwist a c) (ptensor g f)
               (mkP (p_nodes g ++ p_nodes f) (p_edges (ptensor g f))
                    (shiftl (length (p_nodes g)) (p_ins f) ++ p_ins g) (p_outs (ptensor g f)))).
    { assert (HI : all_lt (length (c ++ a)) (seq (length c) (length a) ++ seq 0 (length c))).
      { rewrite app_length. apply all_lt_app; apply all_lt_seq; lia. }
      assert (HO : seq 0 (length a + length c) = seq 0 (length (c ++ a))).
      { rewrite app_length. f_equal. lia. }
      assert (Hty : src_type (ptensor g f) = map Some (c ++ a)).
      { rewrite (src_type_ptensor f Wg), Sf, Sg, <- map_app. reflexivity. }
      pose proof (@wire_left (c ++ a) _ _ (ptensor g f) Wgf HI HO Hty) as H.
      cbn [ptensor p_nodes p_ins] in H. rewrite map_app in H.
      rewrite map_nth_app_r, map_nth_app_l in H by (rewrite ?shiftl_length; lia).
      exact H. }
    apply Iso_trans with (1 := NIso_Iso (compose_unique_pwf Wfg (pwf_ptwist b d) C1 CX)).
    apply Iso_trans with (1 := swap_iso Wf Wg).
    exact (NIso_Iso (compose_unique_pwf (pwf_ptwist a c) Wgf CY C2)).
  Qed.
  (* ---------- hexagons ---------- *)
  Lemma ptensor_pwire w I Ou w' I' Ou' :
    ptensor (pwire w I Ou) (pwire w' I' Ou') =
    pwire (w ++ w') (I ++ shiftl (length w) I') (Ou ++ shiftl (length w) Ou').
  Proof. reflexivity. Qed.

  Lemma map_nth_last (L1 L2 M : list nat) s k : s = length L1 + length L2 -> k = length M ->
    map (fun i => nth i (L1 ++ L2 ++ M) 0) (seq s k) = M.
  Proof.
    intros E1 E2. rewrite app_assoc. apply map_nth_app_r; [rewrite app_length|]; assumption.
  Qed.

  (* sigma_{a, b (x) c} = (sigma_{a,b} (x) id_c) ; (id_b (x) sigma_{a,c}) *)
  Theorem C03p_hexagon1 a b c h :
    IsCompose (ptensor (ptwist a b) (pid c)) (ptensor (pid b) (ptwist a c)) h ->
    Iso h (ptwist a (b ++ c)).
  Proof.
    intros C.
    pose proof (pwf_ptensor (pwf_ptwist a b) (pwf_pid c)) as W1.
    pose proof (pwf_ptensor (pwf_pid b) (pwf_ptwist a c)) as W2.
    assert (C' : IsCompose (ptensor (ptwist a b) (pid c)) (ptensor (pid b) (ptwist a c))
                           (ptwist a (b ++ c))).
    { assert (Hty : src_type (ptensor (pid b) (ptwist a c)) = map Some ((b ++ a) ++ c)).
      { rewrite (src_type_ptensor _ (pwf_pid b)), src_type_pid, src_type_ptwist, <- map_app.
        rewrite app_assoc. reflexivity. }
      pose proof W1 as (_ & HI & _).
      assert (HO : seq 0 (length a + length b) ++ shiftl (length (b ++ a)) (seq 0 (length c)) =
                   seq 0 (length ((b ++ a) ++ c))).
      { rewrite shiftl_seq, !app_length.
        replace (0 + (length b + length a)) with (0 + (length a + length b)) by lia.
        rewrite <- seq_app. f_equal. lia. }
      pose proof (@wire_left ((b ++ a) ++ c)
                    ((seq (length b) (length a) ++ seq 0 (length b)) ++
                     shiftl (length (b ++ a)) (seq 0 (length c)))
                    (seq 0 (length a + length b) ++ shiftl (length (b ++ a)) (seq 0 (length c)))
                    (ptensor (pid b) (ptwist a c)) W2 HI HO Hty) as H.
      change (p_nodes (ptensor (pid b) (ptwist a c))) with (b ++ (c ++ a)) in H.
      change (p_edges (ptensor (pid b) (ptwist a c))) with (@nil (pedge A)) in H.
      change (p_ins (ptensor (pid b) (ptwist a c)))
        with (seq 0 (length b) ++ shiftl (length b) (seq (length c) (length a) ++ seq 0 (length c)))
        in H.
      change (p_outs (ptensor (pid b) (ptwist a c)))
        with (seq 0 (length b) ++ shiftl (length b) (seq 0 (length a + length c))) in H.
      assert (Eins :
        map (fun i => nth i (seq 0 (length b) ++
                             shiftl (length b) (seq (length c) (length a) ++ seq 0 (length c))) 0)
            ((seq (length b) (length a) ++ seq 0 (length b)) ++
             shiftl (length (b ++ a)) (seq 0 (length c))) =
        seq (length (b ++ c)) (length a) ++ seq 0 (length (b ++ c))).
      { rewrite !shiftl_app, !shiftl_seq, !map_app.
        rewrite (@map_nth_mid (seq 0 (length b))) by (rewrite seq_length; lia).
        rewrite (@map_nth_app_l (seq 0 (length b))) by (rewrite seq_length; lia).
        rewrite (@map_nth_last (seq 0 (length b))) by (rewrite ?app_length, !seq_length; lia).
        rewrite !app_length, (seq_app (length b) (length c) 0), <- app_assoc.
        f_equal. f_equal. lia. }
      assert (Eouts : seq 0 (length b) ++ shiftl (length b) (seq 0 (length a + length c)) =
                      seq 0 (length a + length (b ++ c))).
      { rewrite shiftl_seq, <- seq_app, app_length. f_equal. lia. }
      rewrite Eins, Eouts, (app_assoc b c a) in H. exact H. }
    apply NIso_Iso. exact (compose_unique_pwf W1 W2 C C').
  Qed.
  (* sigma_{a (x) b, c} = (id_a (x) sigma_{b,c}) ; (sigma_{a,c} (x) id_b) *)
  Theorem C03p_hexagon2 a b c h :
    IsCompose (ptensor (pid a) (ptwist b c)) (ptensor (ptwist a c) (pid b)) h ->
    Iso h (ptwist (a ++ b) c).
  Proof.
    intros C.
    pose proof (pwf_ptensor (pwf_pid a) (pwf_ptwist b c)) as W1.
    pose proof (pwf_ptensor (pwf_ptwist a c) (pwf_pid b)) as W2.
    assert (C' : IsCompose (ptensor (pid a) (ptwist b c)) (ptensor (ptwist a c) (pid b))
                           (ptwist (a ++ b) c)).
    { assert (Hty : src_type (ptensor (ptwist a c) (pid b)) = map Some (a ++ (c ++ b))).
      { rewrite (src_type_ptensor _ (pwf_ptwist a c)), src_type_pid, src_type_ptwist, <- map_app.
        rewrite <- app_assoc. reflexivity. }
      pose proof W1 as (_ & HI & _).
      assert (HO : seq 0 (length a) ++ shiftl (length a) (seq 0 (length b + length c)) =
                   seq 0 (length (a ++ (c ++ b)))).
      { rewrite shiftl_seq, <- seq_app, !app_length. f_equal. lia. }
      pose proof (@wire_left (a ++ (c ++ b))
                    (seq 0 (length a) ++
                     shiftl (length a) (seq (length c) (length b) ++ seq 0 (length c)))
                    (seq 0 (length a) ++ shiftl (length a) (seq 0 (length b + length c)))
                    (ptensor (ptwist a c) (pid b)) W2 HI HO Hty) as H.
      change (p_nodes (ptensor (ptwist a c) (pid b))) with ((c ++ a) ++ b) in H.
      change (p_edges (ptensor (ptwist a c) (pid b))) with (@nil (pedge A)) in H.
      change (p_ins (ptensor (ptwist a c) (pid b)))
        with ((seq (length c) (length a) ++ seq 0 (length c)) ++
              shiftl (length (c ++ a)) (seq 0 (length b))) in H.
      change (p_outs (ptensor (ptwist a c) (pid b)))
        with (seq 0 (length a + length c) ++ shiftl (length (c ++ a)) (seq 0 (length b))) in H.
      assert (Eins :
        map (fun i => nth i ((seq (length c) (length a) ++ seq 0 (length c)) ++
                             shiftl (length (c ++ a)) (seq 0 (length b))) 0)
            (seq 0 (length a) ++
             shiftl (length a) (seq (length c) (length b) ++ seq 0 (length c))) =
        seq (length c) (length (a ++ b)) ++ seq 0 (length c)).
      { rewrite !shiftl_app, !shiftl_seq, !map_app, <- !app_assoc.
        rewrite (@map_nth_app_l (seq (length c) (length a))) by (rewrite seq_length; lia).
        rewrite (@map_nth_last (seq (length c) (length a))) by (rewrite ?app_length, !seq_length; lia).
        rewrite (@map_nth_mid (seq (length c) (length a))) by (rewrite seq_length; lia).
        rewrite !app_length, (seq_app (length a) (length b) (length c)), <- app_assoc.
        reflexivity. }
      assert (Eouts : seq 0 (length a + length c) ++ shiftl (length (c ++ a)) (seq 0 (length b)) =
                      seq 0 (length (a ++ b) + length c)).
      { rewrite shiftl_seq, !app_length.
        replace (0 + (length c + length a)) with (0 + (length a + length c)) by lia.
        rewrite <- seq_app. f_equal. lia. }
      rewrite Eins, Eouts, <- (app_assoc c a b) in H. exact H. }
    apply NIso_Iso. exact (compose_unique_pwf W1 W2 C C').
  Qed.
End C03Plain.

(* The arity hypothesis of [C03p_interchange] is necessary on the plain model (IsCompose does not
   ask for matching interfaces: [combine] truncates).  With f : 0 -> 1, g : 0 -> 0, f' : 0 -> 0,
   g' : 1 -> 0 the left-hand side glues f's output to g''s input, the right-hand side glues nothing.
   (For the implementation the hypothesis follows from the type check of compose.) *)
Example C03p_interchange_needs_arity :
  exists f f' g g' h1 h2 L : pohg nat nat,
    pwf f /\ pwf f' /\ pwf g /\ pwf g' /\
    IsCompose f g h1 /\ IsCompose f' g' h2 /\ IsCompose (ptensor f f') (ptensor g g') L /\
    ~ Iso L (ptensor h1 h2).
Proof.
  exists (mkP [7] [] [] [0]), (mkP [] [] [] []), (mkP [] [] [] []), (mkP [7] [] [0] []),
         (mkP [7] [] [] []), (mkP [7] [] [] []), (mkP [7] [] [] []).
  assert (Hp : forall w I Ou, all_lt (length w) I -> all_lt (length w) Ou ->
                 pwf (@mkP nat nat w [] I Ou)).
  { intros w I Ou H1 H2. apply (@pwf_pwire nat nat w I Ou); assumption. }
  split; [apply Hp; repeat constructor|]. split; [apply Hp; repeat constructor|].
  split; [apply Hp; repeat constructor|]. split; [apply Hp; repeat constructor|].
  split; [|split; [|split]].
  - exists (fun i => i). split.
    + unfold IsQuot. cbn. repeat split; try (intros; lia); eauto.
    + cbn. intros i j Hi Hj. assert (i = 0) by lia. assert (j = 0) by lia. subst.
      split; intros _; [apply conn_refl|reflexivity].
  - exists (fun i => i). split.
    + unfold IsQuot. cbn. repeat split; try (intros; lia); eauto.
    + cbn. intros i j Hi Hj. assert (i = 0) by lia. assert (j = 0) by lia. subst.
      split; intros _; [apply conn_refl|reflexivity].
  - exists (fun _ => 0). split.
    + unfold IsQuot. cbn. repeat split; try (intros; lia).
      * intros j Hj. exists 0. split; lia.
      * intros [|[|i]] Hi; try reflexivity. lia.
    + cbn. intros i j Hi Hj. split; [intros _|reflexivity].
      assert (E : conn [(0, 1)] 0 1) by (apply conn_step; left; reflexivity).
      destruct i as [|[|i]]; destruct j as [|[|j]]; try lia.
      * apply conn_refl.
      * exact E.
      * apply conn_sym. exact E.
      * apply conn_refl.
  - intros (Hn & _). cbn in Hn. discriminate.
Qed.
