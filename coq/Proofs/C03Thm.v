(* Property C03: open hypergraphs form a symmetric monoidal category up to isomorphism.
   Transfer of the plain-model laws (Proofs/C03Plain.v) to the implementation: for well-formed
   operands with matching types every composite is defined (Ok (Some _)) and the two sides of each
   law have isomorphic abstractions. *)
From OHG Require Import Spec.Plain Proofs.PrimsThm Proofs.CCThm Proofs.C01Lemmas Proofs.C01Thm
  Proofs.QuotThm Proofs.C03Plain Proofs.BackendInst.

Set Implicit Arguments.
Arguments Nat.sub : simpl never.

(* ---------- pure views of identity, twist, tensor (back-end independent) ---------- *)
Section Encoding.
  Variables O A : Type.
  Implicit Types f g : ohg O A.

  Definition id_pure (w : list O) : ohg O A :=
    mkOHG (mkFF (seq 0 (length w)) (length w)) (mkFF (seq 0 (length w)) (length w)) (hg_discrete A w).

  Definition twist_pure (a b : list O) : ohg O A :=
    mkOHG (mkFF (seq (length b) (length a) ++ seq 0 (length b)) (length a + length b))
          (mkFF (seq 0 (length a + length b)) (length a + length b)) (hg_discrete A (b ++ a)).

  Definition tens_ic (c d : icf) : icf :=
    mkIC (mkFF (table (ic_sources c) ++ table (ic_sources d))
               (target (ic_sources c) + target (ic_sources d) - 1))
         (ff_tensor (ic_values c) (ic_values d)).

  Definition tensor_pure f g : ohg O A :=
    mkOHG (ff_tensor (o_s f) (o_s g)) (ff_tensor (o_t f) (o_t g))
          (mkHG (tens_ic (h_s (o_h f)) (h_s (o_h g))) (tens_ic (h_t (o_h f)) (h_t (o_h g)))
                (h_w (o_h f) ++ h_w (o_h g)) (h_x (o_h f) ++ h_x (o_h g))).

  Lemma ohg_identity_ok w : ohg_identity A w = Ok (id_pure w).
  Proof.
    unfold ohg_identity, ff_identity. rewrite arange_ok by lia. cbn [bind].
    rewrite Nat.sub_0_r. reflexivity.
  Qed.

  Lemma ohg_twist_ok a b : ohg_twist A a b = Ok (twist_pure a b).
  Proof.
    unfold ohg_twist, ff_twist, ff_identity. rewrite !arange_ok by lia. cbn [bind].
    rewrite !Nat.sub_0_r. replace (length a + length b - length b) with (length a) by lia.
    reflexivity.
  Qed.

  Lemma ohg_tensor_ok f g : wf_ohg f -> ohg_tensor f g = Ok (tensor_pure f g).
  Proof.
    intros ((Hs & Ht & _) & _). unfold ohg_tensor, hg_coproduct.
    rewrite !icf_tensor_ok by assumption. reflexivity.
  Qed.

  Lemma wf_discrete (w : list O) : wf_hg (hg_discrete A w).
  Proof.
    unfold wf_hg, hg_discrete, wf_icf, wf_ic, wf_ff, icf_initial, ff_initial, ic_len, ff_source.
    cbn. repeat split; constructor.
  Qed.

  Lemma wf_id_pure w : wf_ohg (id_pure w).
  Proof.
    unfold wf_ohg, id_pure. cbn [o_h o_s o_t]. split; [apply wf_discrete|].
    unfold wf_ff. cbn. repeat split; apply all_lt_seq; lia.
  Qed.

  Lemma wf_twist_pure a b : wf_ohg (twist_pure a b).
  Proof.
    unfold wf_ohg, twist_pure. cbn [o_h o_s o_t]. split; [apply wf_discrete|].
    unfold wf_ff. cbn [table target hg_discrete h_w]. rewrite app_length.
    split; [|split; [|split; lia]].
    - apply all_lt_app; apply all_lt_seq; lia.
    - apply all_lt_seq. lia.
  Qed.

  Lemma abs_id_pure w : abs (id_pure w) = pid A w.
  Proof. reflexivity. Qed.

  Lemma abs_twist_pure a b : abs (twist_pure a b) = ptwist A a b.
  Proof. reflexivity. Qed.

  Lemma wf_tens_ic c d : wf_icf c -> wf_icf d -> wf_icf (tens_ic c d).
  Proof.
    intros ((Hc1 & Hc2) & Hc3) ((Hd1 & Hd2) & Hd3).
    unfold wf_icf, wf_ic, wf_ff, tens_ic, ff_tensor, ff_source in *.
    cbn [ic_sources ic_values table target]. split; [split|].
    - rewrite list_sum_app. lia.
    - rewrite list_sum_app, app_length. unfold add_scalar. rewrite map_length. lia.
    - apply all_lt_app.
      + eapply all_lt_mono; [|exact Hc3]. lia.
      + apply all_lt_shiftl. exact Hd3.
  Qed.

  Lemma wf_tensor_pure f g : wf_ohg f -> wf_ohg g -> wf_ohg (tensor_pure f g).
  Proof.
    intros ((Hfs & Hft & Hfxs & Hfxt & Hfws & Hfwt) & Hfi & Hfo & Hfit & Hfot)
           ((Hgs & Hgt & Hgxs & Hgxt & Hgws & Hgwt) & Hgi & Hgo & Hgit & Hgot).
    unfold wf_ohg, wf_hg, tensor_pure. cbn [o_h o_s o_t h_s h_t h_w h_x].
    split; [split; [|split; [|split; [|split; [|split]]]]|split; [|split; [|split]]].
    - apply wf_tens_ic; assumption.
    - apply wf_tens_ic; assumption.
    - unfold ic_len, ff_source, tens_ic in *. cbn [ic_sources table]. rewrite !app_length. lia.
    - unfold ic_len, ff_source, tens_ic in *. cbn [ic_sources table]. rewrite !app_length. lia.
    - unfold tens_ic, ff_tensor. cbn [ic_values target]. rewrite app_length. lia.
    - unfold tens_ic, ff_tensor. cbn [ic_values target]. rewrite app_length. lia.
    - unfold wf_ff, ff_tensor. cbn [table target]. apply all_lt_app.
      + eapply all_lt_mono; [|exact Hfi]. lia.
      + apply all_lt_shiftl. exact Hgi.
    - unfold wf_ff, ff_tensor. cbn [table target]. apply all_lt_app.
      + eapply all_lt_mono; [|exact Hfo]. lia.
      + apply all_lt_shiftl. exact Hgo.
    - unfold ff_tensor. cbn [target]. rewrite app_length. lia.
    - unfold ff_tensor. cbn [target]. rewrite app_length. lia.
  Qed.

  Lemma decode_tensor c d : wf_icf c ->
    decode_f (tens_ic c d) = decode_f c ++ map (shiftl (target (ic_values c))) (decode_f d).
  Proof.
    intros ((_ & Hsum) & _). unfold decode_f, tens_ic, ff_tensor. cbn [ic_sources ic_values table].
    rewrite segs_app by (symmetry; exact Hsum). f_equal.
    unfold add_scalar. rewrite segs_map. reflexivity.
  Qed.

  Lemma abs_tensor_pure f g : wf_ohg f -> abs (tensor_pure f g) = ptensor (abs f) (abs g).
  Proof.
    intros ((Hfs & Hft & Hfxs & Hfxt & Hfws & Hfwt) & Hfi & Hfo & Hfit & Hfot).
    unfold abs, ptensor, tensor_pure, abs_hg_edges.
    cbn [o_h o_s o_t h_s h_t h_w h_x p_nodes p_edges p_ins p_outs].
    rewrite !decode_tensor by assumption. rewrite Hfws, Hfwt.
    rewrite zip3_app.
    - rewrite zip3_shift. unfold ff_tensor. cbn [table]. rewrite Hfit, Hfot. reflexivity.
    - unfold decode_f. rewrite segs_length. exact Hfxs.
    - unfold decode_f. rewrite segs_length. exact Hfxt.
  Qed.
End Encoding.

(* ---------- the laws for the implementation ---------- *)
Section C03.
  Variable B : Backend.
  Hypothesis OK : BackendOK B.
  Variables O A : Type.
  Variable eqO : O -> O -> bool.
  Hypothesis eqO_spec : forall x y, eqO x y = true <-> x = y.

  Implicit Types f g h k : ohg O A.

  Definition cmp f g : res (option (ohg O A)) := ohg_compose B eqO f g.

  (* sequencing a partial composite with a continuation (None = type mismatch is propagated) *)
  Definition and_then (x : res (option (ohg O A))) (c : ohg O A -> res (option (ohg O A)))
    : res (option (ohg O A)) :=
    r <- x ;; match r with Some h => c h | None => Ok None end.

  Lemma and_then_ok x c h : x = Ok (Some h) -> and_then x c = c h.
  Proof. intros ->. reflexivity. Qed.

  (* everything C01 says about a well-typed composite *)
  Lemma compose_spec f g : wf_ohg f -> wf_ohg g -> tgt_type (abs f) = src_type (abs g) ->
    exists h, cmp f g = Ok (Some h) /\ wf_ohg h /\ IsCompose (abs f) (abs g) (abs h) /\
              src_type (abs h) = src_type (abs f) /\ tgt_type (abs h) = tgt_type (abs g).
  Proof.
    intros Hf Hg Hty.
    destruct (C01_compose_is_gluing OK eqO eqO_spec Hf Hg Hty) as (h & E & Wh & C).
    exists h. split; [exact E|]. split; [exact Wh|]. split; [exact C|].
    exact (C01_types Hf Hg C).
  Qed.

  (* composition is associative *)
  Theorem C03_assoc : forall f g k, wf_ohg f -> wf_ohg g -> wf_ohg k ->
    tgt_type (abs f) = src_type (abs g) -> tgt_type (abs g) = src_type (abs k) ->
    exists l r,
      and_then (cmp f g) (fun fg => cmp fg k) = Ok (Some l) /\
      and_then (cmp g k) (fun gk => cmp f gk) = Ok (Some r) /\
      wf_ohg l /\ wf_ohg r /\ Iso (abs l) (abs r).
  Proof.
    intros f g k Hf Hg Hk T1 T2.
    destruct (compose_spec Hf Hg T1) as (fg & E1 & Wfg & C1 & S1 & Tg1).
    destruct (@compose_spec fg k Wfg Hk) as (l & E2 & Wl & C2 & _); [congruence|].
    destruct (compose_spec Hg Hk T2) as (gk & E3 & Wgk & C3 & S3 & Tg3).
    destruct (@compose_spec f gk Hf Wgk) as (r & E4 & Wr & C4 & _); [congruence|].
    exists l, r. rewrite (and_then_ok _ E1), (and_then_ok _ E3).
    split; [exact E2|]. split; [exact E4|]. split; [exact Wl|]. split; [exact Wr|].
    exact (C03p_assoc (wf_abs_pwf Hf) (wf_abs_pwf Hg) (wf_abs_pwf Hk) C1 C2 C3 C4).
  Qed.

  (* identities are left and right units *)
  Theorem C03_id_left : forall f (a : list O), wf_ohg f -> src_type (abs f) = map Some a ->
    exists h, (i <- ohg_identity A a ;; cmp i f) = Ok (Some h) /\ wf_ohg h /\ Iso (abs h) (abs f).
  Proof.
    intros f a Hf Hty. rewrite ohg_identity_ok. cbn [bind].
    destruct (@compose_spec (id_pure A a) f (wf_id_pure A a) Hf) as (h & E & Wh & C & _).
    { rewrite abs_id_pure, tgt_type_pid. symmetry. exact Hty. }
    exists h. split; [exact E|]. split; [exact Wh|].
    rewrite abs_id_pure in C. exact (C03p_unit_left (wf_abs_pwf Hf) Hty C).
  Qed.

  Theorem C03_id_right : forall f (a : list O), wf_ohg f -> tgt_type (abs f) = map Some a ->
    exists h, (i <- ohg_identity A a ;; cmp f i) = Ok (Some h) /\ wf_ohg h /\ Iso (abs h) (abs f).
  Proof.
    intros f a Hf Hty. rewrite ohg_identity_ok. cbn [bind].
    destruct (@compose_spec f (id_pure A a) Hf (wf_id_pure A a)) as (h & E & Wh & C & _).
    { rewrite abs_id_pure, src_type_pid. exact Hty. }
    exists h. split; [exact E|]. split; [exact Wh|].
    rewrite abs_id_pure in C. exact (C03p_unit_right (wf_abs_pwf Hf) Hty C).
  Qed.

  (* the symmetry is self-inverse *)
  Theorem C03_twist_inverse : forall a b : list O,
    exists h i, (s <- ohg_twist A a b ;; t <- ohg_twist A b a ;; cmp s t) = Ok (Some h) /\
                ohg_identity A (a ++ b) = Ok i /\ wf_ohg h /\ Iso (abs h) (abs i).
  Proof.
    intros a b. rewrite !ohg_twist_ok, ohg_identity_ok. cbn [bind].
    destruct (@compose_spec (twist_pure A a b) (twist_pure A b a)
                (wf_twist_pure A a b) (wf_twist_pure A b a)) as (h & E & Wh & C & _).
    { rewrite !abs_twist_pure, tgt_type_ptwist, src_type_ptwist. reflexivity. }
    exists h, (id_pure A (a ++ b)). split; [exact E|]. split; [reflexivity|]. split; [exact Wh|].
    rewrite !abs_twist_pure in C. rewrite abs_id_pure. exact (C03p_twist_inverse C).
  Qed.

  (* interchange: (f (x) f') ; (g (x) g')  ~  (f ; g) (x) (f' ; g') *)
  Theorem C03_interchange : forall f f' g g', wf_ohg f -> wf_ohg f' -> wf_ohg g -> wf_ohg g' ->
    tgt_type (abs f) = src_type (abs g) -> tgt_type (abs f') = src_type (abs g') ->
    exists l r,
      (ff <- ohg_tensor f f' ;; gg <- ohg_tensor g g' ;; cmp ff gg) = Ok (Some l) /\
      and_then (cmp f g) (fun h1 => and_then (cmp f' g')
                 (fun h2 => t <- ohg_tensor h1 h2 ;; Ok (Some t))) = Ok (Some r) /\
      wf_ohg l /\ wf_ohg r /\ Iso (abs l) (abs r).
  Proof.
    intros f f' g g' Hf Hf' Hg Hg' T1 T2.
    rewrite (ohg_tensor_ok f' Hf), (ohg_tensor_ok g' Hg). cbn [bind].
    destruct (compose_spec Hf Hg T1) as (h1 & E1 & W1 & C1 & _).
    destruct (compose_spec Hf' Hg' T2) as (h2 & E2 & W2 & C2 & _).
    destruct (@compose_spec (tensor_pure f f') (tensor_pure g g')
                (wf_tensor_pure Hf Hf') (wf_tensor_pure Hg Hg')) as (l & E3 & Wl & C3 & _).
    { rewrite !abs_tensor_pure by assumption.
      rewrite tgt_type_ptensor, src_type_ptensor by (apply wf_abs_pwf; assumption).
      rewrite T1, T2. reflexivity. }
    exists l, (tensor_pure h1 h2).
    rewrite (and_then_ok _ E1), (and_then_ok _ E2), (ohg_tensor_ok h2 W1). cbn [bind].
    split; [exact E3|]. split; [reflexivity|]. split; [exact Wl|].
    split; [apply wf_tensor_pure; assumption|].
    rewrite !abs_tensor_pure in * by assumption.
    apply (C03p_interchange (wf_abs_pwf Hf) (wf_abs_pwf Hf') (wf_abs_pwf Hg) (wf_abs_pwf Hg'));
      auto.
    apply (f_equal (@length _)) in T1. unfold tgt_type, src_type, type_of in T1.
    rewrite !map_length in T1. exact T1.
  Qed.
  (* the symmetry is natural in both arguments: (f (x) g) ; sigma_{b,d} ~ sigma_{a,c} ; (g (x) f) *)
  Theorem C03_twist_natural : forall f g (a b c d : list O), wf_ohg f -> wf_ohg g ->
    src_type (abs f) = map Some a -> tgt_type (abs f) = map Some b ->
    src_type (abs g) = map Some c -> tgt_type (abs g) = map Some d ->
    exists l r,
      (fg <- ohg_tensor f g ;; s <- ohg_twist A b d ;; cmp fg s) = Ok (Some l) /\
      (s <- ohg_twist A a c ;; gf <- ohg_tensor g f ;; cmp s gf) = Ok (Some r) /\
      wf_ohg l /\ wf_ohg r /\ Iso (abs l) (abs r).
  Proof.
    intros f g a b c d Hf Hg Sf Tf Sg Tg.
    rewrite (ohg_tensor_ok g Hf), (ohg_tensor_ok f Hg), !ohg_twist_ok. cbn [bind].
    pose proof (wf_abs_pwf Hf) as Pf. pose proof (wf_abs_pwf Hg) as Pg.
    destruct (@compose_spec (tensor_pure f g) (twist_pure A b d)
                (wf_tensor_pure Hf Hg) (wf_twist_pure A b d)) as (l & E1 & Wl & C1 & _).
    { rewrite abs_tensor_pure, abs_twist_pure by assumption.
      rewrite (tgt_type_ptensor _ Pf), src_type_ptwist, Tf, Tg, map_app. reflexivity. }
    destruct (@compose_spec (twist_pure A a c) (tensor_pure g f)
                (wf_twist_pure A a c) (wf_tensor_pure Hg Hf)) as (r & E2 & Wr & C2 & _).
    { rewrite abs_tensor_pure, abs_twist_pure by assumption.
      rewrite (src_type_ptensor _ Pg), tgt_type_ptwist, Sf, Sg, map_app. reflexivity. }
    exists l, r. split; [exact E1|]. split; [exact E2|]. split; [exact Wl|]. split; [exact Wr|].
    rewrite abs_tensor_pure, abs_twist_pure in C1, C2 by assumption.
    exact (C03p_twist_natural Pf Pg Sf Tf Sg Tg C1 C2).
  Qed.

  (* hexagon identities *)
  Theorem C03_hexagon1 : forall a b c : list O,
    exists h s,
      (t1 <- ohg_twist A a b ;; i1 <- ohg_identity A c ;; x <- ohg_tensor t1 i1 ;;
       i2 <- ohg_identity A b ;; t2 <- ohg_twist A a c ;; y <- ohg_tensor i2 t2 ;;
       cmp x y) = Ok (Some h) /\
      ohg_twist A a (b ++ c) = Ok s /\ wf_ohg h /\ Iso (abs h) (abs s).
  Proof.
    intros a b c. rewrite !ohg_twist_ok, !ohg_identity_ok. cbn [bind].
    rewrite (ohg_tensor_ok (id_pure A c) (wf_twist_pure A a b)). cbn [bind].
    rewrite (ohg_tensor_ok (twist_pure A a c) (wf_id_pure A b)). cbn [bind].
    destruct (@compose_spec (tensor_pure (twist_pure A a b) (id_pure A c))
                            (tensor_pure (id_pure A b) (twist_pure A a c))) as (h & E & Wh & C & _).
    { apply wf_tensor_pure; [apply wf_twist_pure|apply wf_id_pure]. }
    { apply wf_tensor_pure; [apply wf_id_pure|apply wf_twist_pure]. }
    { rewrite !abs_tensor_pure by (apply wf_twist_pure || apply wf_id_pure).
      rewrite !abs_twist_pure, !abs_id_pure.
      rewrite (tgt_type_ptensor _ (pwf_ptwist A a b)), (src_type_ptensor _ (pwf_pid A b)).
      rewrite tgt_type_ptwist, tgt_type_pid, src_type_pid, src_type_ptwist.
      rewrite <- !map_app, app_assoc. reflexivity. }
    exists h, (twist_pure A a (b ++ c)). split; [exact E|]. split; [reflexivity|].
    split; [exact Wh|].
    rewrite !abs_tensor_pure in C by (apply wf_twist_pure || apply wf_id_pure).
    rewrite !abs_twist_pure, !abs_id_pure in C. rewrite abs_twist_pure.
    exact (C03p_hexagon1 C).
  Qed.

  Theorem C03_hexagon2 : forall a b c : list O,
    exists h s,
      (i1 <- ohg_identity A a ;; t1 <- ohg_twist A b c ;; x <- ohg_tensor i1 t1 ;;
       t2 <- ohg_twist A a c ;; i2 <- ohg_identity A b ;; y <- ohg_tensor t2 i2 ;;
       cmp x y) = Ok (Some h) /\
      ohg_twist A (a ++ b) c = Ok s /\ wf_ohg h /\ Iso (abs h) (abs s).
  Proof.
    intros a b c. rewrite !ohg_twist_ok, !ohg_identity_ok. cbn [bind].
    rewrite (ohg_tensor_ok (twist_pure A b c) (wf_id_pure A a)). cbn [bind].
    rewrite (ohg_tensor_ok (id_pure A b) (wf_twist_pure A a c)). cbn [bind].
    destruct (@compose_spec (tensor_pure (id_pure A a) (twist_pure A b c))
                            (tensor_pure (twist_pure A a c) (id_pure A b))) as (h & E & Wh & C & _).
    { apply wf_tensor_pure; [apply wf_id_pure|apply wf_twist_pure]. }
    { apply wf_tensor_pure; [apply wf_twist_pure|apply wf_id_pure]. }
    { rewrite !abs_tensor_pure by (apply wf_twist_pure || apply wf_id_pure).
      rewrite !abs_twist_pure, !abs_id_pure.
      rewrite (tgt_type_ptensor _ (pwf_pid A a)), (src_type_ptensor _ (pwf_ptwist A a c)).
      rewrite tgt_type_ptwist, tgt_type_pid, src_type_pid, src_type_ptwist.
      rewrite <- !map_app, app_assoc. reflexivity. }
    exists h, (twist_pure A (a ++ b) c). split; [exact E|]. split; [reflexivity|].
    split; [exact Wh|].
    rewrite !abs_tensor_pure in C by (apply wf_twist_pure || apply wf_id_pure).
    rewrite !abs_twist_pure, !abs_id_pure in C. rewrite abs_twist_pure.
    exact (C03p_hexagon2 C).
  Qed.
End C03.

(* ---------- the hypotheses are satisfiable: concrete diagrams (non-monogamous, cyclic) ---------- *)
(* ex_f : [5] -> [5;5;5] and ex_g : [5;5;5] -> [6] are those of C01Thm (repeated boundary nodes);
   ex_k : [6] -> [6;6] has one node with a loop hyperedge 12 : [n0] -> [n0] (cyclic). *)
Definition ex_k : ohg nat nat :=
  mkOHG (mkFF [0] 1) (mkFF [0; 0] 1)
        (mkHG (mkIC (mkFF [1] 2) (mkFF [0] 1)) (mkIC (mkFF [1] 2) (mkFF [0] 1)) [6] [12]).

Example ex_k_wf : wf_ohg ex_k.
Proof.
  unfold wf_ohg, wf_hg, wf_icf, wf_ic, wf_ff, all_lt, ic_len, ff_source; cbn.
  repeat split; repeat constructor.
Qed.

Example ex_gk_types : tgt_type (abs ex_g) = src_type (abs ex_k).
Proof. vm_compute. reflexivity. Qed.

Definition getp (x : res (option (ohg nat nat))) : option (pohg nat nat) :=
  option_map (@abs nat nat) (match x with Ok r => r | _ => None end).
Definition cv := @cmp VecBackend nat nat Nat.eqb.
Definition ca := @cmp AdvBackend nat nat Nat.eqb.

Example C03_assoc_ex : exists l r,
  and_then (cv ex_f ex_g) (fun fg => cv fg ex_k) = Ok (Some l) /\
  and_then (cv ex_g ex_k) (fun gk => cv ex_f gk) = Ok (Some r) /\
  wf_ohg l /\ wf_ohg r /\ Iso (abs l) (abs r).
Proof.
  exact (C03_assoc VecBackend_ok Nat.eqb Nat.eqb_eq ex_f_wf ex_g_wf ex_k_wf ex_types_match ex_gk_types).
Qed.

Example ex_assoc_vec :
  getp (and_then (cv ex_f ex_g) (fun fg => cv fg ex_k)) =
    Some (mkP [5; 6] [mkPE 10 [0] [0]; mkPE 11 [0; 0] [1]; mkPE 12 [1] [1]] [0] [1; 1]) /\
  getp (and_then (cv ex_g ex_k) (fun gk => cv ex_f gk)) =
    Some (mkP [5; 6] [mkPE 10 [0] [0]; mkPE 11 [0; 0] [1]; mkPE 12 [1] [1]] [0] [1; 1]).
Proof. split; vm_compute; reflexivity. Qed.

(* with the adversarial back-end the two bracketings differ by a genuine renumbering *)
Example ex_assoc_adv :
  getp (and_then (ca ex_f ex_g) (fun fg => ca fg ex_k)) =
    Some (mkP [5; 6] [mkPE 10 [0] [0]; mkPE 11 [0; 0] [1]; mkPE 12 [1] [1]] [0] [1; 1]) /\
  getp (and_then (ca ex_g ex_k) (fun gk => ca ex_f gk)) =
    Some (mkP [6; 5] [mkPE 10 [1] [1]; mkPE 11 [1; 1] [0]; mkPE 12 [0] [0]] [1] [0; 0]).
Proof. split; vm_compute; reflexivity. Qed.

Example ex_f_src : src_type (abs ex_f) = map Some [5].
Proof. vm_compute. reflexivity. Qed.
Example ex_f_tgt : tgt_type (abs ex_f) = map Some [5; 5; 5].
Proof. vm_compute. reflexivity. Qed.
Example ex_g_src : src_type (abs ex_g) = map Some [5; 5; 5].
Proof. vm_compute. reflexivity. Qed.
Example ex_g_tgt : tgt_type (abs ex_g) = map Some [6].
Proof. vm_compute. reflexivity. Qed.

Example C03_id_left_ex : exists h,
  (i <- ohg_identity nat [5] ;; cv i ex_f) = Ok (Some h) /\ wf_ohg h /\ Iso (abs h) (abs ex_f).
Proof. exact (C03_id_left VecBackend_ok Nat.eqb Nat.eqb_eq [5] ex_f_wf ex_f_src). Qed.

Example C03_id_right_ex : exists h,
  (i <- ohg_identity nat [5; 5; 5] ;; cv ex_f i) = Ok (Some h) /\ wf_ohg h /\ Iso (abs h) (abs ex_f).
Proof. exact (C03_id_right VecBackend_ok Nat.eqb Nat.eqb_eq [5; 5; 5] ex_f_wf ex_f_tgt). Qed.

Example ex_units_vec :
  getp (i <- ohg_identity nat [5] ;; cv i ex_f) = Some (abs ex_f) /\
  getp (i <- ohg_identity nat [5; 5; 5] ;; cv ex_f i) = Some (abs ex_f).
Proof. split; vm_compute; reflexivity. Qed.

Example ex_twist_inverse_vec :
  getp (s <- ohg_twist nat [5; 6] [7] ;; t <- ohg_twist nat [7] [5; 6] ;; cv s t) =
  Some (mkP [7; 5; 6] [] [1; 2; 0] [1; 2; 0]).
Proof. vm_compute. reflexivity. Qed.

Example C03_interchange_ex : exists l r,
  (ff <- ohg_tensor ex_f ex_g ;; gg <- ohg_tensor ex_g ex_k ;; cv ff gg) = Ok (Some l) /\
  and_then (cv ex_f ex_g) (fun h1 => and_then (cv ex_g ex_k)
             (fun h2 => t <- ohg_tensor h1 h2 ;; Ok (Some t))) = Ok (Some r) /\
  wf_ohg l /\ wf_ohg r /\ Iso (abs l) (abs r).
Proof.
  exact (C03_interchange VecBackend_ok Nat.eqb Nat.eqb_eq ex_f_wf ex_g_wf ex_g_wf ex_k_wf
           ex_types_match ex_gk_types).
Qed.

(* the two sides differ by a renumbering of nodes AND a permutation of the hyperedges *)
Example ex_interchange_vec :
  getp (ff <- ohg_tensor ex_f ex_g ;; gg <- ohg_tensor ex_g ex_k ;; cv ff gg) =
    Some (mkP [5; 5; 5; 6; 6]
              [mkPE 10 [0] [0]; mkPE 11 [1; 2] [3]; mkPE 11 [0; 0] [4]; mkPE 12 [3] [3]]
              [0; 1; 1; 2] [4; 3; 3]) /\
  getp (and_then (cv ex_f ex_g) (fun h1 => and_then (cv ex_g ex_k)
             (fun h2 => t <- ohg_tensor h1 h2 ;; Ok (Some t)))) =
    Some (mkP [5; 6; 5; 5; 6]
              [mkPE 10 [0] [0]; mkPE 11 [0; 0] [1]; mkPE 11 [2; 3] [4]; mkPE 12 [4] [4]]
              [0; 2; 2; 3] [1; 4; 4]).
Proof. split; vm_compute; reflexivity. Qed.

Example C03_twist_natural_ex : exists l r,
  (fg <- ohg_tensor ex_f ex_g ;; s <- ohg_twist nat [5; 5; 5] [6] ;; cv fg s) = Ok (Some l) /\
  (s <- ohg_twist nat [5] [5; 5; 5] ;; gf <- ohg_tensor ex_g ex_f ;; cv s gf) = Ok (Some r) /\
  wf_ohg l /\ wf_ohg r /\ Iso (abs l) (abs r).
Proof.
  exact (C03_twist_natural VecBackend_ok Nat.eqb Nat.eqb_eq [5] [5; 5; 5] [5; 5; 5] [6]
           ex_f_wf ex_g_wf ex_f_src ex_f_tgt ex_g_src ex_g_tgt).
Qed.

Example ex_twist_natural_vec :
  getp (fg <- ohg_tensor ex_f ex_g ;; s <- ohg_twist nat [5; 5; 5] [6] ;; cv fg s) =
    Some (mkP [5; 5; 5; 5; 6] [mkPE 10 [0] [1]; mkPE 11 [2; 3] [4]] [0; 2; 2; 3] [4; 0; 1; 1]) /\
  getp (s <- ohg_twist nat [5] [5; 5; 5] ;; gf <- ohg_tensor ex_g ex_f ;; cv s gf) =
    Some (mkP [5; 5; 5; 6; 5] [mkPE 11 [0; 1] [3]; mkPE 10 [2] [4]] [2; 0; 0; 1] [3; 2; 4; 4]).
Proof. split; vm_compute; reflexivity. Qed.

Example ex_hexagon1_vec :
  getp (t1 <- ohg_twist nat [1] [2; 3] ;; i1 <- ohg_identity nat [4] ;; x <- ohg_tensor t1 i1 ;;
        i2 <- ohg_identity nat [2; 3] ;; t2 <- ohg_twist nat [1] [4] ;; y <- ohg_tensor i2 t2 ;;
        cv x y) = Some (mkP [2; 3; 1; 4] [] [2; 0; 1; 3] [0; 1; 3; 2]) /\
  rmap (@abs nat nat) (ohg_twist nat [1] [2; 3; 4]) = Ok (mkP [2; 3; 4; 1] [] [3; 0; 1; 2] [0; 1; 2; 3]).
Proof. split; vm_compute; reflexivity. Qed.

(* the plain-model hypotheses (pwf operands, four IsCompose facts) are satisfiable *)
Example C03p_assoc_hyps_ex : exists fg l gk r : pohg nat nat,
  pwf (abs ex_f) /\ pwf (abs ex_g) /\ pwf (abs ex_k) /\
  IsCompose (abs ex_f) (abs ex_g) fg /\ IsCompose fg (abs ex_k) l /\
  IsCompose (abs ex_g) (abs ex_k) gk /\ IsCompose (abs ex_f) gk r.
Proof.
  destruct (compose_spec VecBackend_ok Nat.eqb Nat.eqb_eq ex_f_wf ex_g_wf ex_types_match)
    as (fg & _ & Wfg & C1 & _ & T1).
  destruct (@compose_spec VecBackend VecBackend_ok nat nat Nat.eqb Nat.eqb_eq fg ex_k Wfg ex_k_wf)
    as (l & _ & _ & C2 & _). { rewrite T1. exact ex_gk_types. }
  destruct (compose_spec VecBackend_ok Nat.eqb Nat.eqb_eq ex_g_wf ex_k_wf ex_gk_types)
    as (gk & _ & Wgk & C3 & S3 & _).
  destruct (@compose_spec VecBackend VecBackend_ok nat nat Nat.eqb Nat.eqb_eq ex_f gk ex_f_wf Wgk)
    as (r & _ & _ & C4 & _). { rewrite S3. exact ex_types_match. }
  exists (abs fg), (abs l), (abs gk), (abs r).
  repeat split; try assumption; apply wf_abs_pwf; auto using ex_f_wf, ex_g_wf, ex_k_wf.
Qed.

Print Assumptions quot_iso.
Print Assumptions Iso_sym.
Print Assumptions Iso_ptensor.
Print Assumptions C03p_assoc.
Print Assumptions C03p_unit_left.
Print Assumptions C03p_unit_right.
Print Assumptions C03p_interchange.
Print Assumptions C03p_twist_inverse.
Print Assumptions C03p_twist_natural.
Print Assumptions C03p_hexagon1.
Print Assumptions C03p_hexagon2.
Print Assumptions C03_assoc.
Print Assumptions C03_id_left.
Print Assumptions C03_id_right.
Print Assumptions C03_interchange.
Print Assumptions C03_twist_inverse.
Print Assumptions C03_twist_natural.
Print Assumptions C03_hexagon1.
Print Assumptions C03_hexagon2.
Print Assumptions C03_assoc_ex.
Print Assumptions ex_interchange_vec.
Print Assumptions ker_trans.
Print Assumptions ker_sum.
Print Assumptions quot_trans.
Print Assumptions NIso_sym.
Print Assumptions conn_pmap_bij.
Print Assumptions wire_left.
Print Assumptions wire_right.
Print Assumptions C03p_assoc_niso.
Print Assumptions C03p_interchange_needs_arity.
