(* C04: dagger and spiders (strict and lax).
   Rust: src/strict/open_hypergraph/arrow.rs (dagger, spider, identity, twist),
         src/category/spider.rs (half_spider), src/lax/open_hypergraph.rs, src/lax/category.rs. *)
From OHG Require Import Spec.Plain Proofs.PrimsThm.

Set Implicit Arguments.
Arguments Nat.sub : simpl never.

(* ---------- the two finite functions the constructors build ---------- *)
Definition ff_id (n : nat) : ff := mkFF (seq 0 n) n.
Definition ff_tw (a b : nat) : ff := mkFF (seq b a ++ seq 0 b) (a + b).

Lemma ff_identity_ok n : ff_identity n = Ok (ff_id n).
Proof.
  unfold ff_identity, ff_id. rewrite arange_ok by lia. cbn [bind].
  rewrite Nat.sub_0_r. reflexivity.
Qed.

Lemma ff_twist_ok a b : ff_twist a b = Ok (ff_tw a b).
Proof.
  unfold ff_twist, ff_tw. rewrite arange_ok by lia. cbn [bind].
  rewrite arange_ok by lia. cbn [bind].
  replace (a + b - b) with a by lia. rewrite Nat.sub_0_r. reflexivity.
Qed.

Lemma wf_ff_id n : wf_ff (ff_id n).
Proof.
  unfold wf_ff, all_lt, ff_id. cbn [table target].
  apply Forall_forall. intros x Hx. apply in_seq in Hx. lia.
Qed.

Lemma wf_ff_tw a b : wf_ff (ff_tw a b).
Proof.
  unfold wf_ff, all_lt, ff_tw. cbn [table target].
  apply Forall_forall. intros x Hx. apply in_app_or in Hx.
  destruct Hx as [Hx|Hx]; apply in_seq in Hx; lia.
Qed.

(* ---------- reading the labels of a run of consecutive nodes ---------- *)
Lemma map_nth_error_seq {T} (l1 w l2 : list T) :
  map (nth_error (l1 ++ w ++ l2)) (seq (length l1) (length w)) = map Some w.
Proof.
  revert l1. induction w as [|x w IH]; intros l1; cbn [length seq map app]. reflexivity.
  f_equal.
  - rewrite nth_error_app2 by lia. rewrite Nat.sub_diag. reflexivity.
  - specialize (IH (l1 ++ [x])). rewrite app_length in IH. cbn [length] in IH.
    replace (length l1 + 1) with (S (length l1)) in IH by lia.
    rewrite <- app_assoc in IH. cbn [app] in IH. exact IH.
Qed.

Lemma map_nth_error_seq0 {T} (w l2 : list T) :
  map (nth_error (w ++ l2)) (seq 0 (length w)) = map Some w.
Proof. exact (map_nth_error_seq [] w l2). Qed.

Lemma map_nth_error_seq_all {T} (w : list T) :
  map (nth_error w) (seq 0 (length w)) = map Some w.
Proof. pose proof (map_nth_error_seq0 w []) as H. rewrite app_nil_r in H. exact H. Qed.

Lemma map_nth_error_seq_tail {T} (l1 w : list T) :
  map (nth_error (l1 ++ w)) (seq (length l1) (length w)) = map Some w.
Proof. pose proof (map_nth_error_seq l1 w []) as H. rewrite app_nil_r in H. exact H. Qed.

Section C04.
  Variables O A : Type.
  Implicit Types f g h : ohg O A.

  (* ================= strict dagger ================= *)
  Theorem C04_dagger_swaps f :
    abs (ohg_dagger f) = swap_io (abs f) /\ o_h (ohg_dagger f) = o_h f.
  Proof. split; reflexivity. Qed.

  Theorem C04_dagger_involutive f : ohg_dagger (ohg_dagger f) = f.
  Proof. destruct f as [s t h]. reflexivity. Qed.

  Theorem C04_dagger_wf f : wf_ohg f -> wf_ohg (ohg_dagger f).
  Proof.
    intros (Hh & Hs & Ht & Hts & Htt). unfold wf_ohg, ohg_dagger. cbn [o_s o_t o_h].
    split; [exact Hh|]. split; [exact Ht|]. split; [exact Hs|]. split; [exact Htt|exact Hts].
  Qed.

  (* wf is also reflected: dagger is an involution on wf diagrams *)
  Corollary C04_dagger_wf_iff f : wf_ohg (ohg_dagger f) <-> wf_ohg f.
  Proof.
    split; intros H. 2: apply C04_dagger_wf; exact H.
    apply C04_dagger_wf in H. rewrite C04_dagger_involutive in H. exact H.
  Qed.

  (* the boundary types are exchanged *)
  Corollary C04_dagger_types f :
    src_type (abs (ohg_dagger f)) = tgt_type (abs f) /\
    tgt_type (abs (ohg_dagger f)) = src_type (abs f).
  Proof. split; reflexivity. Qed.

  Theorem C04_dagger_tensor f g :
    ohg_tensor (ohg_dagger f) (ohg_dagger g) = rmap (@ohg_dagger O A) (ohg_tensor f g).
  Proof.
    unfold ohg_tensor, ohg_dagger. cbn [o_s o_t o_h].
    destruct (hg_coproduct (o_h f) (o_h g)) as [k| |]; reflexivity.
  Qed.

  (* ================= strict spiders ================= *)
  Theorem C04_spider_iff (s t : ff) (w : list O) h :
    ohg_spider A s t w = Some h <->
    target s = length w /\ target t = length w /\ h = mkOHG s t (hg_discrete A w).
  Proof.
    unfold ohg_spider.
    destruct (Nat.eqb_spec (target s) (length w)) as [Es|Es];
      destruct (Nat.eqb_spec (target t) (length w)) as [Et|Et];
      cbn [negb orb];
      split; intros H; try discriminate.
    - inversion H; subst h. auto.
    - destruct H as (_ & _ & ->). reflexivity.
    - destruct H as (_ & H & _). contradiction.
    - destruct H as (H & _). contradiction.
    - destruct H as (H & _). contradiction.
  Qed.

  Corollary C04_spider_none_iff (s t : ff) (w : list O) :
    ohg_spider A s t w = None <-> target s <> length w \/ target t <> length w.
  Proof.
    unfold ohg_spider.
    destruct (Nat.eqb_spec (target s) (length w)) as [Es|Es];
      destruct (Nat.eqb_spec (target t) (length w)) as [Et|Et];
      cbn [negb orb];
      split; intros H; try discriminate; auto.
    destruct H as [H|H]; contradiction.
  Qed.

  Lemma wf_icf_initial n : wf_icf (icf_initial n).
  Proof.
    unfold wf_icf, wf_ic, wf_ff, all_lt, icf_initial, ff_initial, ff_source.
    cbn [ic_sources ic_values table target list_sum fold_right length].
    repeat split; auto.
  Qed.

  Lemma wf_hg_discrete (w : list O) : wf_hg (hg_discrete A w).
  Proof.
    unfold wf_hg, hg_discrete. cbn [h_s h_t h_w h_x].
    repeat split; try apply wf_icf_initial; reflexivity.
  Qed.

  Lemma abs_discrete (s t : ff) (w : list O) :
    abs (mkOHG s t (hg_discrete A w)) = mkP w [] (table s) (table t).
  Proof. reflexivity. Qed.

  (* the spider is discrete: no hyperedges at all, node labels w, legs s and t; it is wf when the legs are *)
  Theorem C04_spider_discrete (s t : ff) (w : list O) h :
    ohg_spider A s t w = Some h ->
    hg_is_discrete (o_h h) = true /\ h_x (o_h h) = [] /\
    abs h = mkP w [] (table s) (table t) /\
    (wf_ff s -> wf_ff t -> wf_ohg h).
  Proof.
    intros H. apply C04_spider_iff in H. destruct H as (Hs & Ht & ->).
    split; [reflexivity|]. split; [reflexivity|]. split; [reflexivity|].
    intros Wfs Wft. unfold wf_ohg. cbn [o_s o_t o_h].
    split; [apply wf_hg_discrete|]. split; [exact Wfs|]. split; [exact Wft|].
    split; [exact Hs|exact Ht].
  Qed.

  (* and conversely the legs of a wf spider are wf *)
  Corollary C04_spider_wf_iff (s t : ff) (w : list O) h :
    ohg_spider A s t w = Some h -> (wf_ohg h <-> wf_ff s /\ wf_ff t).
  Proof.
    intros H. split.
    - apply C04_spider_iff in H. destruct H as (_ & _ & ->).
      intros (_ & Hs & Ht & _). cbn [o_s o_t] in *. auto.
    - intros (Hs & Ht). apply C04_spider_discrete in H. destruct H as (_ & _ & _ & H).
      apply H; assumption.
  Qed.

  Theorem C04_half_spider (s : ff) (w : list O) :
    ohg_half_spider A s w = Ok (ohg_spider A s (ff_id (target s)) w).
  Proof. unfold ohg_half_spider. rewrite ff_identity_ok. reflexivity. Qed.

  (* ================= identity and twist are spiders ================= *)
  Theorem C04_identity_is_spider (w : list O) :
    exists h, ohg_identity A w = Ok h /\
      ohg_spider A (ff_id (length w)) (ff_id (length w)) w = Some h /\
      wf_ohg h /\
      src_type (abs h) = map Some w /\ tgt_type (abs h) = map Some w.
  Proof.
    exists (mkOHG (ff_id (length w)) (ff_id (length w)) (hg_discrete A w)).
    split; [|split; [|split; [|split]]].
    - unfold ohg_identity. rewrite ff_identity_ok. reflexivity.
    - apply C04_spider_iff. auto.
    - unfold wf_ohg. cbn [o_s o_t o_h].
      split; [apply wf_hg_discrete|]. split; [apply wf_ff_id|]. split; [apply wf_ff_id|].
      split; reflexivity.
    - unfold src_type, type_of. cbn. apply map_nth_error_seq_all.
    - unfold tgt_type, type_of. cbn. apply map_nth_error_seq_all.
  Qed.

  Theorem C04_twist_is_spider (a b : list O) :
    exists h, ohg_twist A a b = Ok h /\
      ohg_spider A (ff_tw (length a) (length b)) (ff_id (length a + length b)) (b ++ a) = Some h /\
      wf_ohg h /\
      src_type (abs h) = map Some (a ++ b) /\ tgt_type (abs h) = map Some (b ++ a).
  Proof.
    exists (mkOHG (ff_tw (length a) (length b)) (ff_id (length a + length b)) (hg_discrete A (b ++ a))).
    split; [|split; [|split; [|split]]].
    - unfold ohg_twist. rewrite ff_twist_ok. cbn [bind]. rewrite ff_identity_ok. reflexivity.
    - apply C04_spider_iff. rewrite app_length. cbn [ff_tw ff_id target]. repeat split; lia.
    - unfold wf_ohg. cbn [o_s o_t o_h hg_discrete h_w].
      rewrite app_length. cbn [ff_tw ff_id target].
      split; [apply wf_hg_discrete|]. split; [apply wf_ff_tw|]. split; [apply wf_ff_id|].
      split; lia.
    - unfold src_type, type_of. cbn [abs p_nodes p_ins o_h o_s hg_discrete h_w ff_tw table].
      rewrite !map_app. f_equal.
      + apply map_nth_error_seq_tail.
      + apply map_nth_error_seq0.
    - unfold tgt_type, type_of. cbn [abs p_nodes p_outs o_h o_t hg_discrete h_w ff_id table].
      replace (length a + length b) with (length (b ++ a)) by (rewrite app_length; lia).
      apply map_nth_error_seq_all.
  Qed.

  (* the two statements packaged as in the property sheet *)
  Theorem C04_id_twist_are_spiders (w a b : list O) :
    ohg_identity A w = Ok (mkOHG (ff_id (length w)) (ff_id (length w)) (hg_discrete A w)) /\
    ohg_spider A (ff_id (length w)) (ff_id (length w)) w
      = Some (mkOHG (ff_id (length w)) (ff_id (length w)) (hg_discrete A w)) /\
    ohg_twist A a b
      = Ok (mkOHG (ff_tw (length a) (length b)) (ff_id (length a + length b)) (hg_discrete A (b ++ a))) /\
    ohg_spider A (ff_tw (length a) (length b)) (ff_id (length a + length b)) (b ++ a)
      = Some (mkOHG (ff_tw (length a) (length b)) (ff_id (length a + length b)) (hg_discrete A (b ++ a))).
  Proof.
    destruct (C04_identity_is_spider w) as (h & H1 & H2 & _).
    destruct (C04_twist_is_spider a b) as (k & K1 & K2 & _).
    pose proof H2 as H2'. apply C04_spider_iff in H2'. destruct H2' as (_ & _ & ->).
    pose proof K2 as K2'. apply C04_spider_iff in K2'. destruct K2' as (_ & _ & ->).
    auto.
  Qed.

  (* ================= lax ================= *)
  Implicit Types lf lg : lohg O A.

  Theorem C04_lax_dagger_swaps lf :
    labs (lohg_dagger lf) = swap_io (labs lf) /\ lo_h (lohg_dagger lf) = lo_h lf /\
    pending (lohg_dagger lf) = pending lf.
  Proof. repeat split; reflexivity. Qed.

  Theorem C04_lax_dagger_involutive lf : lohg_dagger (lohg_dagger lf) = lf.
  Proof. destruct lf as [s t h]. reflexivity. Qed.

  Theorem C04_lax_dagger_tensor lf lg :
    lohg_tensor (lohg_dagger lf) (lohg_dagger lg) = lohg_dagger (lohg_tensor lf lg).
  Proof. reflexivity. Qed.

  Theorem C04_lax_spider_iff (s t : ff) (w : list O) lh :
    lohg_spider A s t w = Some lh <->
    target s = target t /\ target s = length w /\
    lh = mkLOHG (table s) (table t) (lhg_discrete A w).
  Proof.
    unfold lohg_spider.
    destruct (Nat.eqb_spec (target s) (target t)) as [Es|Es];
      destruct (Nat.eqb_spec (target s) (length w)) as [Et|Et];
      cbn [negb orb];
      split; intros H; try discriminate.
    - inversion H; subst lh. auto.
    - destruct H as (_ & _ & ->). reflexivity.
    - destruct H as (_ & H & _). contradiction.
    - destruct H as (H & _). contradiction.
    - destruct H as (H & _). contradiction.
  Qed.

  (* the lax spider is discrete: no edges, no adjacency, nothing pending *)
  Theorem C04_lax_spider_discrete (s t : ff) (w : list O) lh :
    lohg_spider A s t w = Some lh ->
    l_edges (lo_h lh) = [] /\ l_adj (lo_h lh) = [] /\ pending lh = [] /\
    lhg_is_strict (lo_h lh) = true /\
    labs lh = mkP w [] (table s) (table t) /\
    (wf_ff s -> wf_ff t -> pwf (labs lh)).
  Proof.
    intros H. apply C04_lax_spider_iff in H. destruct H as (Hst & Hs & ->).
    split; [reflexivity|]. split; [reflexivity|]. split; [reflexivity|].
    split; [reflexivity|]. split; [reflexivity|].
    intros Wfs Wft. unfold pwf. cbn [labs lo_h lo_sources lo_targets lhg_discrete l_nodes l_edges l_adj
      combine map p_edges p_nodes p_ins p_outs].
    split; [intros e He; destruct He|].
    unfold wf_ff in Wfs, Wft. rewrite <- Hs. split; [exact Wfs|]. rewrite Hst. exact Wft.
  Qed.

  (* the strict and the lax spider describe the same plain diagram *)
  Corollary C04_spider_strict_lax_agree (s t : ff) (w : list O) h lh :
    ohg_spider A s t w = Some h -> lohg_spider A s t w = Some lh -> abs h = labs lh.
  Proof.
    intros H1 H2. apply C04_spider_iff in H1. apply C04_lax_spider_iff in H2.
    destruct H1 as (_ & _ & ->). destruct H2 as (_ & _ & ->). reflexivity.
  Qed.

  Theorem C04_lax_identity_is_spider (w : list O) :
    lohg_spider A (ff_id (length w)) (ff_id (length w)) w = Some (lohg_identity A w) /\
    src_type (labs (lohg_identity A w)) = map Some w /\
    tgt_type (labs (lohg_identity A w)) = map Some w.
  Proof.
    split; [|split].
    - apply C04_lax_spider_iff. auto.
    - unfold src_type, type_of. cbn. apply map_nth_error_seq_all.
    - unfold tgt_type, type_of. cbn. apply map_nth_error_seq_all.
  Qed.
End C04.

(* ---------- the hypotheses are satisfiable: concrete diagrams ---------- *)
Module C04Examples.
  (* one binary operation "m" : [1;1] -> [2] next to an identity wire *)
  Definition f0 : ohg nat nat :=
    mkOHG (mkFF [0; 1] 3) (mkFF [2] 3)
      (mkHG (mkIC (mkFF [2] 3) (mkFF [0; 1] 3)) (mkIC (mkFF [1] 2) (mkFF [2] 3)) [1; 1; 2] [7]).

  Example f0_wf : wf_ohg f0.
  Proof. unfold wf_ohg, wf_hg, wf_icf, wf_ic, wf_ff, all_lt; cbn. repeat split; repeat constructor. Qed.

  Example dagger_f0 :
    abs (ohg_dagger f0) = mkP [1; 1; 2] [mkPE 7 [0; 1] [2]] [2] [0; 1] /\ wf_ohg (ohg_dagger f0).
  Proof. split. reflexivity. apply C04_dagger_wf, f0_wf. Qed.

  Example spider_ok :
    ohg_spider nat (mkFF [0; 0; 1] 2) (mkFF [1] 2) [5; 6]
    = Some (mkOHG (mkFF [0; 0; 1] 2) (mkFF [1] 2) (hg_discrete nat [5; 6])).
  Proof. vm_compute. reflexivity. Qed.

  Example spider_legs_wf : wf_ff (mkFF [0; 0; 1] 2) /\ wf_ff (mkFF [1] 2).
  Proof. unfold wf_ff, all_lt; cbn. split; repeat constructor. Qed.

  Example spider_bad : ohg_spider nat (mkFF [0] 3) (mkFF [1] 2) [5; 6] = None.
  Proof. vm_compute. reflexivity. Qed.

  (* the lax spider compares the two legs with each other first: (3, 2, 2) is rejected by both,
     (2, 3, 2) too *)
  Example lax_spider_bad : lohg_spider nat (mkFF [0] 2) (mkFF [1] 3) [5; 6] = None.
  Proof. vm_compute. reflexivity. Qed.

  Example twist_12 :
    ohg_twist nat [10] [20; 30]
    = Ok (mkOHG (mkFF [2; 0; 1] 3) (mkFF [0; 1; 2] 3) (hg_discrete nat [20; 30; 10])).
  Proof. vm_compute. reflexivity. Qed.

  Example twist_12_types :
    exists h, ohg_twist nat [10] [20; 30] = Ok h /\
      src_type (abs h) = [Some 10; Some 20; Some 30] /\ tgt_type (abs h) = [Some 20; Some 30; Some 10].
  Proof. eexists. split. vm_compute. reflexivity. split; reflexivity. Qed.

  Example half_spider_ex :
    ohg_half_spider nat (mkFF [1; 1] 2) [5; 6]
    = Ok (Some (mkOHG (mkFF [1; 1] 2) (mkFF [0; 1] 2) (hg_discrete nat [5; 6]))).
  Proof. vm_compute. reflexivity. Qed.
End C04Examples.
