(* Property C04 (second part): the dagger reverses composition (up to isomorphism of the plain
   model) and spider fusion (the composite of two spiders is the spider on the glued nodes). *)
From OHG Require Import Spec.Plain Proofs.PrimsThm Proofs.C09Thm Proofs.C01Lemmas Proofs.C01Thm Proofs.BackendInst.

Set Implicit Arguments.
Arguments Nat.sub : simpl never.

(* ---------- the block swap  [0,a) + [0,b)  ->  [0,b) + [0,a) ---------- *)
Definition bswap (a b i : nat) : nat := if i <? a then i + b else i - a.

Lemma bswap_lt a b i : i < a + b -> bswap a b i < a + b.
Proof. intros H. unfold bswap. destruct (i <? a) eqn:E; [apply Nat.ltb_lt in E|apply Nat.ltb_ge in E]; lia. Qed.

Lemma bswap_inv a b i : i < a + b -> bswap b a (bswap a b i) = i.
Proof.
  intros H. unfold bswap. destruct (i <? a) eqn:E; [apply Nat.ltb_lt in E|apply Nat.ltb_ge in E].
  - replace (i + b <? b) with false by (symmetry; apply Nat.ltb_ge; lia). lia.
  - replace (i - a <? b) with true by (symmetry; apply Nat.ltb_lt; lia). lia.
Qed.

Lemma bswap_low a b i : i < a -> bswap a b i = i + b.
Proof. intros H. unfold bswap. apply Nat.ltb_lt in H. rewrite H. reflexivity. Qed.

Lemma bswap_high a b i : bswap a b (i + a) = i.
Proof.
  unfold bswap. replace (i + a <? a) with false by (symmetry; apply Nat.ltb_ge; lia). lia.
Qed.

Lemma bswap_bij a b : bij_on (a + b) (bswap a b).
Proof.
  split.
  - intros i Hi. apply bswap_lt. exact Hi.
  - intros i j Hi Hj E. rewrite <- (@bswap_inv a b i Hi), <- (@bswap_inv a b j Hj), E. reflexivity.
Qed.

Lemma map_bswap_low a b l : all_lt a l -> map (bswap a b) l = shiftl b l.
Proof.
  intros H. unfold shiftl. apply map_ext_in. intros x Hx. apply bswap_low.
  eapply all_lt_In; eauto.
Qed.

Lemma map_bswap_high a b l : map (bswap a b) (shiftl a l) = l.
Proof.
  unfold shiftl. rewrite map_map. rewrite <- (map_id l) at 2. apply map_ext. intros x. apply bswap_high.
Qed.

Lemma nth_error_bswap {T} (X1 X2 : list T) e : e < length X1 + length X2 ->
  nth_error (X2 ++ X1) (bswap (length X1) (length X2) e) = nth_error (X1 ++ X2) e.
Proof.
  intros H. unfold bswap. destruct (e <? length X1) eqn:E; [apply Nat.ltb_lt in E|apply Nat.ltb_ge in E].
  - rewrite nth_error_app2 by lia. rewrite nth_error_app1 by exact E. f_equal. lia.
  - rewrite nth_error_app1 by lia. rewrite nth_error_app2 by exact E. reflexivity.
Qed.

(* ---------- pairs ---------- *)
Lemma in_combine_shiftl n : forall (l1 l2 : list nat) x y,
  In (x, y) (combine l1 (shiftl n l2)) <-> exists b, y = b + n /\ In (x, b) (combine l1 l2).
Proof.
  induction l1 as [|a l1 IH]; intros [|c l2] x y; simpl; split; try tauto.
  - intros (b & _ & []).
  - intros (b & _ & []).
  - intros (b & _ & []).
  - intros [E|H].
    + inversion E; subst. exists c. split; auto.
    + apply IH in H. destruct H as (b & Hb & Hin). exists b. split; auto.
  - intros (b & Hb & [E|Hin]).
    + inversion E; subst. left; reflexivity.
    + right. apply IH. exists b. split; auto.
Qed.

Lemma in_combine_flip {X Y} : forall (l1 : list X) (l2 : list Y) x y,
  In (x, y) (combine l1 l2) -> In (y, x) (combine l2 l1).
Proof.
  induction l1 as [|a l1 IH]; intros [|c l2] x y; simpl; try tauto.
  intros [E|H].
  - inversion E; subst. left; reflexivity.
  - right. apply IH. exact H.
Qed.

(* ---------- plain model ---------- *)
Section PlainDagger.
  Variables O A : Type.
  Implicit Types D F G H K : pohg O A.

  Lemma map_edge_map_edge (p r : nat -> nat) (e : pedge A) :
    map_edge p (map_edge r e) = map_edge (fun i => p (r i)) e.
  Proof. unfold map_edge. cbn [pe_lbl pe_src pe_tgt]. rewrite !map_map. reflexivity. Qed.

  Lemma map_edge_bswap_low a b (e : pedge A) : all_lt a (pe_src e) -> all_lt a (pe_tgt e) ->
    map_edge (bswap a b) e = shift_edge b e.
  Proof.
    intros Hs Ht. unfold map_edge, shift_edge. rewrite !map_bswap_low by assumption. reflexivity.
  Qed.

  Lemma map_edge_bswap_high a b (e : pedge A) : map_edge (bswap a b) (shift_edge a e) = e.
  Proof.
    unfold map_edge, shift_edge. cbn [pe_lbl pe_src pe_tgt]. rewrite !map_bswap_high.
    destruct e; reflexivity.
  Qed.

  Lemma pwf_swap_io D : pwf D -> pwf (swap_io D).
  Proof. intros (He & Hi & Ho). unfold pwf, swap_io. cbn [p_nodes p_edges p_ins p_outs]. auto. Qed.

  Lemma isquot_swap_io D q H : IsQuot D q H -> IsQuot (swap_io D) q (swap_io H).
  Proof.
    intros (Hr & Hs & Hl & He & Hi & Ho). unfold IsQuot, swap_io. cbn [p_nodes p_edges p_ins p_outs].
    auto 10.
  Qed.

  (* Uniqueness of quotients along a node bijection: if [sg] (with inverse [tu]) transports the
     nodes and both interfaces of D to those of D', the hyperedge lists of D and D' agree up to
     [sg] and a swap of two blocks, and the kernels correspond, then the quotients are isomorphic.
     The block swap of the hyperedge lists is why the conclusion is [Iso] and not [NIso]. *)
  Lemma quot_iso D D' H H' (q q' sg tu : nat -> nat) (E1 E2 : list (pedge A)) :
    pwf D -> IsQuot D q H -> IsQuot D' q' H' ->
    length (p_nodes D') = length (p_nodes D) ->
    (forall i, i < length (p_nodes D) -> sg i < length (p_nodes D)) ->
    (forall j, j < length (p_nodes D) -> tu j < length (p_nodes D) /\ sg (tu j) = j) ->
    (forall i, i < length (p_nodes D) -> nth_error (p_nodes D') (sg i) = nth_error (p_nodes D) i) ->
    p_edges D = E1 ++ E2 ->
    p_edges D' = map (map_edge sg) E2 ++ map (map_edge sg) E1 ->
    p_ins D' = map sg (p_ins D) -> p_outs D' = map sg (p_outs D) ->
    (forall i j, i < length (p_nodes D) -> j < length (p_nodes D) ->
                 (q i = q j <-> q' (sg i) = q' (sg j))) ->
    Iso H H'.
  Proof.
    intros Hwf HQ HQ' Hn Hsg Htu Hlab HE HE' Hins Houts Hker.
    pose (q2 := fun i => q' (sg i)).
    pose (H2 := mkP (p_nodes H') (map (map_edge q2) (p_edges D)) (p_ins H') (p_outs H')).
    assert (HQ2 : IsQuot D q2 H2).
    { destruct HQ' as (Hr' & Hs' & Hl' & He' & Hi' & Ho').
      unfold IsQuot, H2, q2. cbn [p_nodes p_edges p_ins p_outs].
      split; [|split; [|split; [|split; [|split]]]].
      - intros i Hi. apply Hr'. rewrite Hn. apply Hsg. exact Hi.
      - intros j Hj. destruct (Hs' j Hj) as (i' & Hi'lt & Hq'). rewrite Hn in Hi'lt.
        destruct (Htu i' Hi'lt) as (Ht1 & Ht2). exists (tu i'). split; [exact Ht1|].
        rewrite Ht2. exact Hq'.
      - intros i Hi. rewrite Hl' by (rewrite Hn; apply Hsg; exact Hi). apply Hlab. exact Hi.
      - reflexivity.
      - rewrite Hi', Hins, map_map. reflexivity.
      - rewrite Ho', Houts, map_map. reflexivity. }
    destruct (quot_unique Hwf HQ HQ2 Hker) as (Hlen & pn & Hbij & Hpl & Hpe & Hpi & Hpo).
    cbn [H2 p_nodes p_edges p_ins p_outs] in Hlen, Hpl, Hpe, Hpi, Hpo.
    destruct HQ as (_ & _ & _ & He & _ & _).
    destruct HQ' as (_ & _ & _ & He' & _ & _).
    assert (HeH : length (p_edges H) = length E1 + length E2).
    { rewrite He, HE, map_length, app_length. reflexivity. }
    assert (HeH' : p_edges H' = map (map_edge q2) E2 ++ map (map_edge q2) E1).
    { rewrite He', HE', map_app, !map_map.
      apply f_equal2; apply map_ext; intros e; unfold q2; apply map_edge_map_edge. }
    split; [exact Hlen|]. split.
    { rewrite HeH, HeH', app_length, !map_length. lia. }
    exists pn, (bswap (length E1) (length E2)).
    split; [exact Hbij|]. split; [rewrite HeH; apply bswap_bij|].
    split; [exact Hpl|]. split; [|split; [exact Hpi|exact Hpo]].
    intros e He0. rewrite HeH in He0.
    rewrite <- nth_error_map, <- Hpe, HE, map_app, HeH'.
    rewrite <- (map_length (map_edge q2) E1) at 1. rewrite <- (map_length (map_edge q2) E2) at 1.
    apply nth_error_bswap. rewrite !map_length. exact He0.
  Qed.

  (* the glue pairs of the reversed composite are the same pairs, swapped and re-shifted *)
  Lemma conn_glue_swap F G : pwf F -> pwf G ->
    forall i j, i < length (p_nodes F) + length (p_nodes G) -> j < length (p_nodes F) + length (p_nodes G) ->
      (conn (glue_pairs F G) i j <->
       conn (glue_pairs (swap_io G) (swap_io F))
            (bswap (length (p_nodes F)) (length (p_nodes G)) i)
            (bswap (length (p_nodes F)) (length (p_nodes G)) j)).
  Proof.
    intros (_ & _ & HoF) (_ & HiG & _) i j Hi Hj.
    set (nf := length (p_nodes F)) in *. set (ng := length (p_nodes G)) in *.
    unfold glue_pairs, swap_io. cbn [p_nodes p_ins p_outs]. fold nf ng.
    split.
    - clear Hi Hj. revert i j.
      apply (conn_glue_impl (fun i j => conn (combine (p_ins G) (shiftl ng (p_outs F)))
                                           (bswap nf ng i) (bswap nf ng j))).
      + intros x. apply conn_refl.
      + intros x y Hxy. apply conn_sym. exact Hxy.
      + intros x y z Hxy Hyz. eapply conn_trans; eauto.
      + intros x y Hin. apply in_combine_shiftl in Hin. destruct Hin as (b & -> & Hin).
        rewrite bswap_high. rewrite bswap_low.
        2:{ eapply all_lt_In; [exact HoF|]. eapply in_combine_l; eauto. }
        apply conn_sym, conn_step. apply in_combine_shiftl. exists x. split; [reflexivity|].
        apply in_combine_flip. exact Hin.
    - intros Hc.
      rewrite <- (@bswap_inv nf ng i Hi), <- (@bswap_inv nf ng j Hj).
      revert Hc. generalize (bswap nf ng i) (bswap nf ng j). clear i j Hi Hj.
      apply (conn_glue_impl (fun x y => conn (combine (p_outs F) (shiftl nf (p_ins G)))
                                           (bswap ng nf x) (bswap ng nf y))).
      + intros x. apply conn_refl.
      + intros x y Hxy. apply conn_sym. exact Hxy.
      + intros x y z Hxy Hyz. eapply conn_trans; eauto.
      + intros x y Hin. apply in_combine_shiftl in Hin. destruct Hin as (b & -> & Hin).
        rewrite bswap_high. rewrite bswap_low.
        2:{ eapply all_lt_In; [exact HiG|]. eapply in_combine_l; eauto. }
        apply conn_sym, conn_step. apply in_combine_shiftl. exists x. split; [reflexivity|].
        apply in_combine_flip. exact Hin.
  Qed.

  (* on the plain model: the composite of the daggers (in reverse order) is the dagger of the
     composite, up to a renumbering of nodes and a block swap of the hyperedge list *)
  Theorem compose_dagger_plain F G H K : pwf F -> pwf G ->
    IsCompose F G H -> IsCompose (swap_io G) (swap_io F) K -> Iso (swap_io H) K.
  Proof.
    intros HF HG (q & HQ & Hk) (q' & HQ' & Hk').
    set (nf := length (p_nodes F)) in *. set (ng := length (p_nodes G)) in *.
    cbn [swap_io p_nodes] in Hk'. fold nf ng in Hk'.
    pose proof (pwf_swap_io (pwf_pjoin HF HG)) as HwfD.
    apply isquot_swap_io in HQ.
    assert (Hnodes : length (p_nodes (swap_io (pjoin F G))) = nf + ng).
    { unfold swap_io, pjoin. cbn [p_nodes]. rewrite app_length. reflexivity. }
    apply (@quot_iso (swap_io (pjoin F G)) (pjoin (swap_io G) (swap_io F)) (swap_io H) K
                     q q' (bswap nf ng) (bswap ng nf)
                     (p_edges F) (map (shift_edge nf) (p_edges G))); try assumption.
    - rewrite Hnodes. unfold swap_io, pjoin. cbn [p_nodes]. rewrite app_length. fold nf ng. lia.
    - rewrite Hnodes. apply bswap_lt.
    - rewrite Hnodes. intros j Hj. split.
      + replace (nf + ng) with (ng + nf) by lia. apply bswap_lt. lia.
      + apply bswap_inv. lia.
    - rewrite Hnodes. intros i Hi. unfold swap_io, pjoin. cbn [p_nodes]. fold nf ng.
      unfold bswap. destruct (i <? nf) eqn:E; [apply Nat.ltb_lt in E|apply Nat.ltb_ge in E].
      + rewrite nth_error_app2 by (fold ng; lia). rewrite nth_error_app1 by exact E.
        f_equal. fold ng. lia.
      + rewrite nth_error_app1 by (fold ng; lia). rewrite nth_error_app2 by exact E. reflexivity.
    - reflexivity.
    - unfold swap_io, pjoin. cbn [p_nodes p_edges]. fold nf ng. f_equal.
      + rewrite map_map. rewrite <- (map_id (p_edges G)) at 1. apply map_ext. intros e.
        symmetry. apply map_edge_bswap_high.
      + apply map_ext_in. intros e He. symmetry. destruct HF as (HeF & _).
        apply map_edge_bswap_low; apply (HeF e He).
    - unfold swap_io, pjoin. cbn [p_nodes p_ins p_outs]. fold nf ng.
      symmetry. apply map_bswap_high.
    - unfold swap_io, pjoin. cbn [p_nodes p_ins p_outs]. fold nf ng.
      symmetry. apply map_bswap_low. apply HF.
    - rewrite Hnodes. intros i j Hi Hj.
      rewrite Hk by assumption.
      rewrite Hk'.
      2:{ replace (ng + nf) with (nf + ng) by lia. apply bswap_lt; exact Hi. }
      2:{ replace (ng + nf) with (nf + ng) by lia. apply bswap_lt; exact Hj. }
      apply conn_glue_swap; assumption.
  Qed.

  (* and such a composite of the daggers always exists (plain model) *)
  Theorem compose_dagger_exists F G H : pwf F -> pwf G -> IsCompose F G H ->
    exists K, IsCompose (swap_io G) (swap_io F) K /\ Iso (swap_io H) K.
  Proof.
    intros HF HG HC. pose proof HC as (q & HQ & Hk).
    set (nf := length (p_nodes F)) in *. set (ng := length (p_nodes G)) in *.
    pose (q' := fun x => q (bswap ng nf x)).
    pose (D' := pjoin (swap_io G) (swap_io F)).
    pose (K := mkP (p_nodes H) (map (map_edge q') (p_edges D')) (map q' (p_ins D')) (map q' (p_outs D'))).
    assert (HK : IsCompose (swap_io G) (swap_io F) K).
    { exists q'. destruct HQ as (Hr & Hs & Hl & _).
      cbn [pjoin p_nodes] in Hr, Hs, Hl. rewrite app_length in Hr, Hs, Hl. fold nf ng in Hr, Hs, Hl.
      split.
      - unfold IsQuot. fold D'. unfold K. cbn [p_nodes p_edges p_ins p_outs].
        assert (HnD' : length (p_nodes D') = ng + nf).
        { unfold D', pjoin, swap_io. cbn [p_nodes]. apply app_length. }
        rewrite HnD'. split; [|split; [|split; [|auto]]].
        + intros x Hx. unfold q'. apply Hr. replace (nf + ng) with (ng + nf) by lia.
          apply bswap_lt. exact Hx.
        + intros j Hj. destruct (Hs j Hj) as (i & Hi & E). exists (bswap nf ng i). split.
          * replace (ng + nf) with (nf + ng) by lia. apply bswap_lt. exact Hi.
          * unfold q'. rewrite bswap_inv by exact Hi. exact E.
        + intros x Hx. unfold q'. rewrite Hl.
          2:{ replace (nf + ng) with (ng + nf) by lia. apply bswap_lt. exact Hx. }
          unfold D', pjoin, swap_io. cbn [p_nodes]. apply nth_error_bswap. exact Hx.
      - cbn [swap_io p_nodes]. fold nf ng. intros x y Hx Hy. unfold q'.
        assert (Hx' : bswap ng nf x < nf + ng)
          by (replace (nf + ng) with (ng + nf) by lia; apply bswap_lt; exact Hx).
        assert (Hy' : bswap ng nf y < nf + ng)
          by (replace (nf + ng) with (ng + nf) by lia; apply bswap_lt; exact Hy).
        rewrite (Hk _ _ Hx' Hy'). rewrite (conn_glue_swap HF HG Hx' Hy'). fold nf ng.
        rewrite !bswap_inv by assumption. tauto. }
    exists K. split; [exact HK|]. exact (compose_dagger_plain HF HG HC HK).
  Qed.
End PlainDagger.

(* ---------- the computation ---------- *)
Section C04b.
  Variable B : Backend.
  Hypothesis OK : BackendOK B.
  Variables O A : Type.
  Variable eqO : O -> O -> bool.
  Hypothesis eqO_spec : forall x y, eqO x y = true <-> x = y.

  Implicit Types f g h k : ohg O A.

  Lemma wf_dagger f : wf_ohg f -> wf_ohg (ohg_dagger f).
  Proof.
    intros (Hh & Hs & Ht & Hss & Htt). unfold wf_ohg, ohg_dagger. cbn [o_h o_s o_t]. auto 10.
  Qed.

  Lemma abs_dagger f : abs (ohg_dagger f) = swap_io (abs f).
  Proof. reflexivity. Qed.

  Lemma dagger_involutive f : ohg_dagger (ohg_dagger f) = f.
  Proof. destruct f; reflexivity. Qed.

  (* a successful composition had matching boundary types *)
  Lemma compose_some_types f g h : wf_ohg f -> wf_ohg g ->
    ohg_compose B eqO f g = Ok (Some h) -> tgt_type (abs f) = src_type (abs g).
  Proof.
    intros Hf Hg Hc.
    destruct (ohg_target_ok Hf) as (tf & Htf & Htf').
    destruct (ohg_source_ok Hg) as (sg & Hsg & Hsg').
    destruct (list_eqb eqO tf sg) eqn:E.
    - apply (list_eqb_spec eqO eqO_spec) in E. congruence.
    - exfalso. unfold ohg_compose in Hc. rewrite Htf, Hsg in Hc. cbn [bind] in Hc.
      rewrite E in Hc. discriminate.
  Qed.

  (* ---------- the dagger reverses composition ---------- *)
  Theorem C04_dagger_compose : forall f g h : ohg O A, wf_ohg f -> wf_ohg g ->
    ohg_compose B eqO f g = Ok (Some h) ->
    exists k, ohg_compose B eqO (ohg_dagger g) (ohg_dagger f) = Ok (Some k) /\
              Iso (abs (ohg_dagger h)) (abs k).
  Proof.
    intros f g h Hf Hg Hc.
    pose proof (compose_some_types Hf Hg Hc) as Hty.
    destruct (C01_compose_is_gluing OK eqO eqO_spec Hf Hg Hty) as (h0 & Hh0 & _ & Hic).
    assert (h0 = h) by congruence. subst h0.
    assert (Hty' : tgt_type (abs (ohg_dagger g)) = src_type (abs (ohg_dagger f))).
    { rewrite !abs_dagger. unfold tgt_type, src_type, swap_io, type_of in *.
      cbn [p_nodes p_ins p_outs] in *. symmetry. exact Hty. }
    destruct (C01_compose_is_gluing OK eqO eqO_spec (wf_dagger Hg) (wf_dagger Hf) Hty')
      as (k & Hk & _ & Hick).
    exists k. split; [exact Hk|].
    rewrite abs_dagger. rewrite !abs_dagger in Hick.
    apply compose_dagger_plain with (F := abs f) (G := abs g); auto using wf_abs_pwf.
  Qed.

  (* the same statement with the roles exchanged: dagger of the reversed composite *)
  Corollary C04_dagger_compose_wf : forall f g h : ohg O A, wf_ohg f -> wf_ohg g ->
    ohg_compose B eqO f g = Ok (Some h) ->
    exists k, ohg_compose B eqO (ohg_dagger g) (ohg_dagger f) = Ok (Some k) /\ wf_ohg k /\
              wf_ohg (ohg_dagger h) /\ Iso (abs (ohg_dagger h)) (abs k).
  Proof.
    intros f g h Hf Hg Hc.
    destruct (C04_dagger_compose Hf Hg Hc) as (k & Hk & Hiso).
    pose proof (compose_some_types Hf Hg Hc) as Hty.
    destruct (C01_compose_is_gluing OK eqO eqO_spec Hf Hg Hty) as (h0 & Hh0 & Hwh & _).
    assert (h0 = h) by congruence. subst h0.
    pose proof (compose_some_types (wf_dagger Hg) (wf_dagger Hf) Hk) as Hty'.
    destruct (C01_compose_is_gluing OK eqO eqO_spec (wf_dagger Hg) (wf_dagger Hf) Hty')
      as (k0 & Hk0 & Hwk & _).
    assert (k0 = k) by congruence. subst k0.
    exists k. auto using wf_dagger.
  Qed.

  (* ---------- spider fusion ---------- *)
  Lemma wf_icf_initial n : wf_icf (icf_initial n).
  Proof.
    unfold wf_icf, wf_ic, wf_ff, icf_initial, ff_initial, ff_source, all_lt.
    cbn [ic_sources ic_values table target list_sum length]. repeat split; auto.
  Qed.

  Lemma ohg_spider_ok (s t : ff) (w : list O) : target s = length w -> target t = length w ->
    ohg_spider A s t w = Some (mkOHG s t (hg_discrete A w)).
  Proof. intros Hs Ht. unfold ohg_spider. rewrite Hs, Ht, Nat.eqb_refl. reflexivity. Qed.

  Lemma ohg_spider_none (s t : ff) (w : list O) : target s <> length w \/ target t <> length w ->
    ohg_spider A s t w = None.
  Proof.
    intros H. unfold ohg_spider.
    destruct (target s =? length w) eqn:E1; [|reflexivity].
    destruct (target t =? length w) eqn:E2; [|reflexivity].
    apply Nat.eqb_eq in E1, E2. lia.
  Qed.

  Lemma wf_spider (s t : ff) (w : list O) : wf_ff s -> wf_ff t ->
    target s = length w -> target t = length w -> wf_ohg (mkOHG s t (hg_discrete A w)).
  Proof.
    intros Hs Ht Hss Htt. unfold wf_ohg, wf_hg, hg_discrete.
    cbn [o_h o_s o_t h_s h_t h_w h_x].
    repeat split; try apply wf_icf_initial; auto.
  Qed.

  (* The composite of two spiders is discrete and is the spider on the glued node set: with
     q the coequalizer of (t ; inl) and (s' ; inr) on |w| + |w'| nodes (a surjection whose kernel
     is the equivalence generated by the pairs (t i, s' i + |w|)), the legs of the composite are
     s ; q and t' ; inr ; q, and every new node carries the common label of its class. *)
  Theorem C04_spider_fusion : forall (s t s' t' : ff) (w w' : list O),
    wf_ff s -> wf_ff t -> wf_ff s' -> wf_ff t' ->
    target s = length w -> target t = length w -> target s' = length w' -> target t' = length w' ->
    map (nth_error w) (table t) = map (nth_error w') (table s') ->
    exists (f g h : ohg O A) (q : nat -> nat),
      ohg_spider A s t w = Some f /\ ohg_spider A s' t' w' = Some g /\
      ohg_compose B eqO f g = Ok (Some h) /\
      wf_ohg h /\ hg_is_discrete (o_h h) = true /\ h_x (o_h h) = [] /\
      ohg_spider A (o_s h) (o_t h) (h_w (o_h h)) = Some h /\
      (forall i, i < length w + length w' -> q i < length (h_w (o_h h))) /\
      (forall j, j < length (h_w (o_h h)) -> exists i, i < length w + length w' /\ q i = j) /\
      (forall i j, i < length w + length w' -> j < length w + length w' ->
         (q i = q j <-> conn (combine (table t) (map (fun x => x + length w) (table s'))) i j)) /\
      table (o_s h) = map q (table s) /\
      table (o_t h) = map (fun x => q (x + length w)) (table t') /\
      (forall i, i < length w + length w' -> nth_error (h_w (o_h h)) (q i) = nth_error (w ++ w') i).
  Proof.
    intros s t s' t' w w' Hs Ht Hs' Ht' Hss Htt Hss' Htt' Hty.
    pose (f := mkOHG s t (hg_discrete A w)). pose (g := mkOHG s' t' (hg_discrete A w')).
    assert (Hf : wf_ohg f) by (apply wf_spider; assumption).
    assert (Hg : wf_ohg g) by (apply wf_spider; assumption).
    assert (Hty' : tgt_type (abs f) = src_type (abs g)) by exact Hty.
    destruct (compose_ok OK eqO eqO_spec Hf Hg Hty') as (u & Hc & Hu & Hkey).
    pose proof (type_eq_length _ _ Hty') as Hlen.
    pose proof (cc_facts OK Hf Hg Hlen) as (Hc1 & Hc2 & Hc3 & Hc4).
    cbn [f g o_h hg_discrete h_w] in Hkey, Hc1, Hc4.
    exists f, g, (compose_pure B f g u), (qfun B f g).
    split; [apply ohg_spider_ok; assumption|].
    split; [apply ohg_spider_ok; assumption|].
    split; [exact Hc|].
    split; [apply (wf_compose_pure OK); assumption|].
    split; [reflexivity|].
    split; [reflexivity|].
    split.
    { unfold ohg_spider. cbn [compose_pure o_s o_t o_h h_w target].
      rewrite Hu, Nat.eqb_refl. cbn [negb orb]. unfold hg_discrete. rewrite Hu. reflexivity. }
    cbn [compose_pure o_s o_t o_h h_w table]. rewrite Hu.
    split.
    { intros i Hi. apply (qfun_lt OK Hf Hg Hlen). exact Hi. }
    split.
    { intros j Hj. destruct (In_nth _ _ 0 (Hc3 j Hj)) as (i & Hi & E).
      exists i. split; [lia|exact E]. }
    split.
    { intros i j Hi Hj. apply Hc4; lia. }
    split; [reflexivity|].
    split.
    { unfold add_scalar. rewrite map_map. reflexivity. }
    exact Hkey.
  Qed.
End C04b.

(* ---------- spider fusion on the lax representation ---------- *)
Section C04bLax.
  Variable B : Backend.
  Hypothesis OK : BackendOK B.
  Variables O A : Type.
  Variable eqO : O -> O -> bool.
  Hypothesis eqO_spec : forall x y, eqO x y = true <-> x = y.

  Lemma fold_unify n (ps : list (nat * nat)) : forall h : lhg O A,
    fold_left (fun h p => lhg_unify h (fst p) (snd p + n)) ps h =
    mkLHG (l_nodes h) (l_edges h) (l_adj h)
          (fst (l_q h) ++ map fst ps, snd (l_q h) ++ map (fun p => snd p + n) ps).
  Proof.
    induction ps as [|p ps IH]; intros h; cbn [fold_left map].
    - rewrite !app_nil_r. destruct h as [a b c [q1 q2]]; reflexivity.
    - rewrite IH. unfold lhg_unify. cbn [l_nodes l_edges l_adj l_q fst snd].
      rewrite <- !app_assoc. reflexivity.
  Qed.

  Lemma map_fst_combine_eq {X Y} : forall (a : list X) (b : list Y), length a = length b ->
    map fst (combine a b) = a.
  Proof.
    induction a as [|x a IH]; intros [|y b] H; simpl in *; try discriminate; auto.
    f_equal. apply IH. lia.
  Qed.

  Lemma map_snd_combine_eq {X Y Z} (g : Y -> Z) : forall (a : list X) (b : list Y),
    length a = length b -> map (fun p => g (snd p)) (combine a b) = map g b.
  Proof.
    induction a as [|x a IH]; intros [|y b] H; simpl in *; try discriminate; auto.
    f_equal. apply IH. lia.
  Qed.

  (* what lax composition of two spiders builds: the disjoint union of the node sets with one
     pending pair per boundary position *)
  Definition lax_spider_compose (s t s' t' : ff) (w w' : list O) : lohg O A :=
    mkLOHG (table s) (shift (length w) (table t'))
           (mkLHG (w ++ w') [] [] (table t, shift (length w) (table s'))).

  Lemma lohg_spider_ok (s t : ff) (w : list O) : target s = length w -> target t = length w ->
    lohg_spider A s t w = Some (mkLOHG (table s) (table t) (lhg_discrete A w)).
  Proof. intros Hs Ht. unfold lohg_spider. rewrite Hs, Ht, !Nat.eqb_refl. reflexivity. Qed.

  Lemma lax_compose_spiders (s t s' t' : ff) (w w' : list O) :
    length (table t) = length (table s') ->
    lohg_lax_compose (mkLOHG (table s) (table t) (lhg_discrete A w))
                     (mkLOHG (table s') (table t') (lhg_discrete A w')) =
    Some (lax_spider_compose s t s' t' w w').
  Proof.
    intros Hlen. unfold lohg_lax_compose. cbn [lo_targets lo_sources].
    rewrite Hlen, Nat.eqb_refl. cbn [negb]. unfold lax_spider_compose, lohg_tensor.
    cbn [lo_sources lo_targets lo_h lhg_discrete l_nodes].
    rewrite fold_unify. unfold lhg_coproduct. cbn [l_nodes l_edges l_adj l_q fst snd lhg_discrete map app].
    rewrite firstn_app, Nat.sub_diag, firstn_all, firstn_O, app_nil_r.
    rewrite <- Hlen. rewrite skipn_app, skipn_all, Nat.sub_diag, skipn_O. cbn [app].
    rewrite map_fst_combine_eq by exact Hlen.
    rewrite (map_snd_combine_eq (fun y => y + length w)) by exact Hlen.
    reflexivity.
  Qed.

  Lemma gather_types (w : list O) l r : gather w l = Ok r -> map Some r = map (nth_error w) l.
  Proof.
    unfold gather. intros H. apply mapM_ok_iff in H.
    induction H as [|x y l r Hxy _ IH]; [reflexivity|]. cbn [map]. rewrite IH. f_equal.
    apply get_ok_inv in Hxy. symmetry. apply Hxy.
  Qed.

  Theorem C04_spider_fusion_lax : forall (s t s' t' : ff) (w w' : list O),
    wf_ff s -> wf_ff t -> wf_ff s' -> wf_ff t' ->
    target s = length w -> target t = length w -> target s' = length w' -> target t' = length w' ->
    map (nth_error w) (table t) = map (nth_error w') (table s') ->
    exists (F G C C' : lohg O A) (q : ff),
      lohg_spider A s t w = Some F /\ lohg_spider A s' t' w' = Some G /\
      lohg_compose eqO F G = Ok (Some C) /\
      C = lax_spider_compose s t s' t' w w' /\
      pending C = combine (table t) (map (fun x => x + length w) (table s')) /\
      lohg_quotient B eqO C = Ok (C', inl q) /\
      l_edges (lo_h C') = [] /\ l_adj (lo_h C') = [] /\ l_q (lo_h C') = ([], []) /\ lwf C' /\
      IsQuot (labs C) (C09Thm.app q) (labs C') /\
      (forall i j, i < length w + length w' -> j < length w + length w' ->
         (C09Thm.app q i = C09Thm.app q j <->
          conn (combine (table t) (map (fun x => x + length w) (table s'))) i j)) /\
      lo_sources C' = map (C09Thm.app q) (table s) /\
      lo_targets C' = map (fun x => C09Thm.app q (x + length w)) (table t') /\
      (* it is the strict composite of the strict spiders, up to a renumbering of the nodes *)
      (forall f g h : ohg O A, ohg_spider A s t w = Some f -> ohg_spider A s' t' w' = Some g ->
         ohg_compose B eqO f g = Ok (Some h) -> NIso (abs h) (labs C')).
  Proof.
    intros s t s' t' w w' Hs Ht Hs' Ht' Hss Htt Hss' Htt' Hty.
    pose (F := mkLOHG (table s) (table t) (lhg_discrete A w)).
    pose (G := mkLOHG (table s') (table t') (lhg_discrete A w')).
    pose (C := lax_spider_compose s t s' t' w w').
    assert (Hlen : length (table t) = length (table s')).
    { apply (f_equal (@length _)) in Hty. rewrite !map_length in Hty. exact Hty. }
    (* strict counterparts, for the label argument and the comparison *)
    pose (f := mkOHG s t (hg_discrete A w)). pose (g := mkOHG s' t' (hg_discrete A w')).
    assert (Hf : wf_ohg f) by (apply wf_spider; assumption).
    assert (Hg : wf_ohg g) by (apply wf_spider; assumption).
    assert (Hty' : tgt_type (abs f) = src_type (abs g)) by exact Hty.
    assert (HtW : all_lt (length w) (table t)) by (unfold wf_ff in Ht; rewrite Htt in Ht; exact Ht).
    assert (HsW : all_lt (length w) (table s)) by (unfold wf_ff in Hs; rewrite Hss in Hs; exact Hs).
    assert (HsW' : all_lt (length w') (table s')) by (unfold wf_ff in Hs'; rewrite Hss' in Hs'; exact Hs').
    assert (HtW' : all_lt (length w') (table t')) by (unfold wf_ff in Ht'; rewrite Htt' in Ht'; exact Ht').
    assert (HC : lohg_compose eqO F G = Ok (Some C)).
    { unfold lohg_compose, lohg_target, lohg_source. cbn [F G lo_h lo_targets lo_sources lhg_discrete l_nodes].
      destruct (gather_total w HtW) as (r1 & Hr1 & Hm1).
      destruct (gather_total w' HsW') as (r2 & Hr2 & Hm2).
      unfold gather in Hr1, Hr2. rewrite Hr1, Hr2. cbn [bind].
      assert (r1 = r2) by (apply map_Some_inj; congruence). subst r2.
      replace (list_eqb eqO r1 r1) with true
        by (symmetry; apply (C01Lemmas.list_eqb_spec eqO eqO_spec); reflexivity).
      cbn [negb]. f_equal. apply lax_compose_spiders. exact Hlen. }
    assert (HP : pending C = glue_pairs (abs f) (abs g)) by reflexivity.
    assert (Hnn : nn C = length w + length w').
    { unfold nn, C, lax_spider_compose. cbn [lo_h l_nodes]. apply app_length. }
    assert (HW : lwf C).
    { unfold lwf, hwf, hn. rewrite Hnn. unfold C, lax_spider_compose.
      cbn [lo_h lo_sources lo_targets l_nodes l_adj l_q fst snd]. rewrite app_length.
      split; [split; [|split; [|split]]|split].
      - intros e [].
      - eapply all_lt_mono; [|exact HtW]. lia.
      - apply all_lt_shiftl. exact HsW'.
      - unfold shift. rewrite map_length. exact Hlen.
      - eapply all_lt_mono; [|exact HsW]. lia.
      - apply all_lt_shiftl. exact HtW'. }
    assert (HL : labels_consistent C).
    { intros i j _ _ Hc. rewrite HP in Hc. exact (labels_const Hf Hg Hty' Hc). }
    destruct (@C09_success B OK O A eqO eqO_spec C HW HL)
      as (q & C' & HQ & Hsrc & Htg & Hsurj & Hker & HIQ & Hedges & _ & Hq0 & HW').
    destruct (@quotient_inl_inv B OK O A eqO eqO_spec C C' q HW HQ) as (Hqe & _ & _ & _ & u & HC' & Hu).
    exists F, G, C, C', q.
    split; [apply lohg_spider_ok; assumption|].
    split; [apply lohg_spider_ok; assumption|].
    split; [exact HC|]. split; [reflexivity|]. split; [reflexivity|].
    split; [exact HQ|].
    split; [rewrite Hedges; reflexivity|].
    split; [rewrite HC'; reflexivity|].
    split; [exact Hq0|]. split; [exact HW'|]. split; [exact HIQ|].
    split.
    { intros i j Hi Hj. rewrite <- Hnn in Hi, Hj. apply (Hker i j Hi Hj). }
    split.
    { rewrite HC', Hqe. reflexivity. }
    split.
    { rewrite HC', Hqe. unfold quot_result, C, lax_spider_compose, shift.
      cbn [lo_targets lo_h]. rewrite map_map. reflexivity. }
    intros f0 g0 h Hf0 Hg0 Hh.
    rewrite (ohg_spider_ok A s t w Hss Htt) in Hf0. rewrite (ohg_spider_ok A s' t' w' Hss' Htt') in Hg0.
    inversion Hf0; subst f0. inversion Hg0; subst g0. fold f g in Hh.
    destruct (C01_compose_is_gluing OK eqO eqO_spec Hf Hg Hty') as (h0 & Hh0 & _ & (qs & HQs & Hks)).
    assert (h0 = h) by congruence. subst h0.
    apply quot_unique with (D := pjoin (abs f) (abs g)) (q := qs) (q' := C09Thm.app q).
    - apply pwf_pjoin; apply wf_abs_pwf; assumption.
    - exact HQs.
    - exact HIQ.
    - cbn [pjoin p_nodes abs f g o_h hg_discrete h_w]. rewrite app_length.
      intros i j Hi Hj. cbn [abs f g o_h hg_discrete h_w p_nodes] in Hks.
      rewrite (Hks i j Hi Hj). rewrite <- Hnn in Hi, Hj. rewrite (Hker i j Hi Hj), HP. tauto.
  Qed.
End C04bLax.

Print Assumptions compose_dagger_plain.
Print Assumptions C04_spider_fusion_lax.
Print Assumptions C04_dagger_compose.
Print Assumptions C04_spider_fusion.

(* the boundary-type hypothesis of spider fusion stated with [nth] and an arbitrary default *)
Lemma map_nth_error_nth {T} (w : list T) d l : all_lt (length w) l ->
  map (nth_error w) l = map Some (map (fun i => nth i w d) l).
Proof.
  intros H. rewrite map_map. apply map_ext_in. intros i Hi.
  apply nth_error_nth'. eapply all_lt_In; eauto.
Qed.

Corollary C04_spider_fusion_nth B (OK : BackendOK B) O A (eqO : O -> O -> bool)
  (eqO_spec : forall x y, eqO x y = true <-> x = y) (d : O) :
  forall (s t s' t' : ff) (w w' : list O),
    wf_ff s -> wf_ff t -> wf_ff s' -> wf_ff t' ->
    target s = length w -> target t = length w -> target s' = length w' -> target t' = length w' ->
    map (fun i => nth i w d) (table t) = map (fun i => nth i w' d) (table s') ->
    exists (f g h : ohg O A) (q : nat -> nat),
      ohg_spider A s t w = Some f /\ ohg_spider A s' t' w' = Some g /\
      ohg_compose B eqO f g = Ok (Some h) /\
      wf_ohg h /\ hg_is_discrete (o_h h) = true /\ h_x (o_h h) = [] /\
      ohg_spider A (o_s h) (o_t h) (h_w (o_h h)) = Some h /\
      (forall i, i < length w + length w' -> q i < length (h_w (o_h h))) /\
      (forall j, j < length (h_w (o_h h)) -> exists i, i < length w + length w' /\ q i = j) /\
      (forall i j, i < length w + length w' -> j < length w + length w' ->
         (q i = q j <-> conn (combine (table t) (map (fun x => x + length w) (table s'))) i j)) /\
      table (o_s h) = map q (table s) /\
      table (o_t h) = map (fun x => q (x + length w)) (table t') /\
      (forall i, i < length w + length w' -> nth_error (h_w (o_h h)) (q i) = nth_error (w ++ w') i).
Proof.
  intros s t s' t' w w' Hs Ht Hs' Ht' Hss Htt Hss' Htt' Hty.
  apply (C04_spider_fusion OK A eqO eqO_spec); try assumption.
  rewrite (map_nth_error_nth w d), (map_nth_error_nth w' d), Hty.
  - reflexivity.
  - unfold wf_ff in Hs'. rewrite Hss' in Hs'. exact Hs'.
  - unfold wf_ff in Ht. rewrite Htt in Ht. exact Ht.
Qed.

(* ---------- examples (Vec and adversarial back-ends) ---------- *)
Lemma nat_eqb_spec : forall x y, Nat.eqb x y = true <-> x = y.
Proof. intros x y. apply Nat.eqb_eq. Qed.

(* dagger: the composite ex_f ; ex_g of C01Thm.v *)
Definition ex_h : ohg nat nat :=
  Eval vm_compute in
    match ohg_compose VecBackend Nat.eqb ex_f ex_g with Ok (Some h) => h | _ => ex_f end.
Definition ex_k : ohg nat nat :=
  Eval vm_compute in
    match ohg_compose VecBackend Nat.eqb (ohg_dagger ex_g) (ohg_dagger ex_f) with
    | Ok (Some h) => h | _ => ex_f end.

Example ex_h_compose : ohg_compose VecBackend Nat.eqb ex_f ex_g = Ok (Some ex_h).
Proof. vm_compute. reflexivity. Qed.

Example ex_k_compose :
  ohg_compose VecBackend Nat.eqb (ohg_dagger ex_g) (ohg_dagger ex_f) = Ok (Some ex_k).
Proof. vm_compute. reflexivity. Qed.

(* the two sides differ: the hyperedge list is swapped (with the Vec back-end the node numbering
   happens to coincide; see ex_dagger_adv_sides for a renumbering) *)
Example ex_dagger_sides :
  abs (ohg_dagger ex_h) = mkP [5; 6] [mkPE 10 [0] [0]; mkPE 11 [0; 0] [1]] [1] [0] /\
  abs ex_k = mkP [5; 6] [mkPE 11 [0; 0] [1]; mkPE 10 [0] [0]] [1] [0].
Proof. split; vm_compute; reflexivity. Qed.

Example ex_dagger_iso : Iso (abs (ohg_dagger ex_h)) (abs ex_k).
Proof.
  destruct (C04_dagger_compose VecBackend_ok Nat.eqb nat_eqb_spec ex_f_wf ex_g_wf ex_h_compose)
    as (k & Hk & Hiso).
  rewrite ex_k_compose in Hk. inversion Hk; subst k. exact Hiso.
Qed.

Example ex_dagger_adv : exists h k,
  ohg_compose AdvBackend Nat.eqb ex_f ex_g = Ok (Some h) /\
  ohg_compose AdvBackend Nat.eqb (ohg_dagger ex_g) (ohg_dagger ex_f) = Ok (Some k) /\
  Iso (abs (ohg_dagger h)) (abs k).
Proof.
  destruct (C01_compose_is_gluing AdvBackend_ok Nat.eqb nat_eqb_spec ex_f_wf ex_g_wf ex_types_match)
    as (h & Hh & _).
  destruct (C04_dagger_compose AdvBackend_ok Nat.eqb nat_eqb_spec ex_f_wf ex_g_wf Hh) as (k & Hk & Hiso).
  exists h, k. auto.
Qed.

(* with the adversarial back-end the nodes are renumbered as well *)
Example ex_dagger_adv_sides :
  option_map (fun h => abs (ohg_dagger h))
    (match ohg_compose AdvBackend Nat.eqb ex_f ex_g with Ok r => r | _ => None end) =
  Some (mkP [6; 5] [mkPE 10 [1] [1]; mkPE 11 [1; 1] [0]] [0] [1]) /\
  option_map (@abs nat nat)
    (match ohg_compose AdvBackend Nat.eqb (ohg_dagger ex_g) (ohg_dagger ex_f) with Ok r => r | _ => None end) =
  Some (mkP [6; 5] [mkPE 11 [1; 1] [0]; mkPE 10 [1] [1]] [0] [1]).
Proof. split; vm_compute; reflexivity. Qed.

(* spiders: s is neither injective nor surjective (misses node 1), s' is constant, t' is not
   injective; labels 5 | 6 6 and 6 | 7; gluing (1 ~ 3), (2 ~ 3) merges nodes 1 2 3 *)
Definition sp_s : ff := mkFF [0; 0; 2] 3.
Definition sp_t : ff := mkFF [1; 2] 3.
Definition sp_s' : ff := mkFF [0; 0] 2.
Definition sp_t' : ff := mkFF [1; 1; 0] 2.
Definition sp_w : list nat := [5; 6; 6].
Definition sp_w' : list nat := [6; 7].

Example sp_hyps :
  wf_ff sp_s /\ wf_ff sp_t /\ wf_ff sp_s' /\ wf_ff sp_t' /\
  target sp_s = length sp_w /\ target sp_t = length sp_w /\
  target sp_s' = length sp_w' /\ target sp_t' = length sp_w' /\
  map (nth_error sp_w) (table sp_t) = map (nth_error sp_w') (table sp_s').
Proof. unfold wf_ff, all_lt. cbn. repeat split; repeat constructor. Qed.

Example sp_fusion_vec :
  match ohg_spider nat sp_s sp_t sp_w, ohg_spider nat sp_s' sp_t' sp_w' with
  | Some f, Some g => ohg_compose VecBackend Nat.eqb f g
  | _, _ => Panic
  end = Ok (ohg_spider nat (mkFF [0; 0; 1] 3) (mkFF [2; 2; 1] 3) [5; 6; 7]).
Proof. vm_compute. reflexivity. Qed.

Example sp_fusion_adv :
  match ohg_spider nat sp_s sp_t sp_w, ohg_spider nat sp_s' sp_t' sp_w' with
  | Some f, Some g =>
      match ohg_compose AdvBackend Nat.eqb f g with
      | Ok (Some h) => hg_is_discrete (o_h h) && (length (h_w (o_h h)) =? 3)
      | _ => false
      end
  | _, _ => false
  end = true.
Proof. vm_compute. reflexivity. Qed.

(* empty node sets: all four legs are the empty function *)
Example sp_fusion_empty :
  match ohg_spider nat (mkFF [] 0) (mkFF [] 0) (@nil nat), ohg_spider nat (mkFF [] 0) (mkFF [] 0) (@nil nat) with
  | Some f, Some g => ohg_compose VecBackend Nat.eqb f g
  | _, _ => Panic
  end = Ok (ohg_spider nat (mkFF [] 0) (mkFF [] 0) (@nil nat)).
Proof. vm_compute. reflexivity. Qed.

(* a boundary-type mismatch is refused without a panic *)
Example sp_fusion_mismatch :
  match ohg_spider nat sp_s sp_t sp_w, ohg_spider nat (mkFF [1; 0] 2) sp_t' sp_w' with
  | Some f, Some g => ohg_compose VecBackend Nat.eqb f g
  | _, _ => Panic
  end = Ok None.
Proof. vm_compute. reflexivity. Qed.

(* the lax path on the same spiders: one pending pair per boundary position, then the quotient *)
Example sp_fusion_lax_vec :
  match lohg_spider nat sp_s sp_t sp_w, lohg_spider nat sp_s' sp_t' sp_w' with
  | Some F, Some G =>
      match lohg_compose Nat.eqb F G with
      | Ok (Some C) =>
          (pending C, match lohg_quotient VecBackend Nat.eqb C with
                      | Ok (C', inl q) => Some (C', table q)
                      | _ => None
                      end)
      | _ => ([], None)
      end
  | _, _ => ([], None)
  end =
  ([(1, 3); (2, 3)],
   Some (mkLOHG [0; 0; 1] [2; 2; 1] (mkLHG [5; 6; 7] (@nil nat) [] ([], [])), [0; 1; 1; 1; 2])).
Proof. vm_compute. reflexivity. Qed.
