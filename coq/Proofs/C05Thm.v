(* C05: well-formedness and typing.  The checked constructors accept exactly the documented data
   (and report the first failing condition); every construction returns a well-formed diagram of
   the declared type; source()/target() never panic on well-formed diagrams.
   Rust: src/strict/hypergraph/object.rs (new/validate, tensor_operations),
         src/strict/open_hypergraph/arrow.rs (new/validate, singleton, tensor_operations, source, target),
         src/indexed_coproduct/arrow.rs (new/validate, singleton), src/operations.rs. *)
From OHG Require Import Spec.Plain Proofs.PrimsThm Proofs.C02Thm Proofs.C04Thm.

Set Implicit Arguments.
Arguments Nat.sub : simpl never.

(* ====================================================================== *)
(* IndexedCoproduct::new / validate                                        *)
(* ====================================================================== *)
Section ICNew.
  Variable V : Type.
  Variable Ov : VOps V.

  (* never panics; accepts exactly the segmented arrays whose [sources] sum to the number of values
     and whose [sources] codomain is that sum + 1 *)
  Theorem C05_ic_validate_iff (c : ic V) :
    (wf_ic (vlen Ov) c -> ic_validate Ov c = Ok (Some c)) /\
    (~ wf_ic (vlen Ov) c -> ic_validate Ov c = Ok None).
  Proof.
    unfold ic_validate, wf_ic. rewrite asum_ok. cbn [bind].
    destruct (Nat.eqb_spec (target (ic_sources c)) (list_sum (table (ic_sources c)) + 1)) as [E1|E1];
      cbn [negb].
    - destruct (Nat.eqb_spec (list_sum (table (ic_sources c))) (vlen Ov (ic_values c))) as [E2|E2];
        cbn [negb]; split; intros H; try reflexivity.
      + exfalso. apply H. split; assumption.
      + destruct H as (_ & H). contradiction.
    - split; intros H; try reflexivity. destruct H as (H & _). contradiction.
  Qed.

  Corollary C05_ic_new_iff (s : ff) (v : V) c :
    ic_new Ov s v = Ok (Some c) <-> c = mkIC s v /\ wf_ic (vlen Ov) (mkIC s v).
  Proof.
    unfold ic_new. destruct (C05_ic_validate_iff (mkIC s v)) as (H1 & H2). split.
    - intros H. assert (W : wf_ic (vlen Ov) (mkIC s v)).
      { destruct (Nat.eq_dec (target s) (list_sum (table s) + 1)) as [E1|E1];
          [destruct (Nat.eq_dec (list_sum (table s)) (vlen Ov v)) as [E2|E2]|].
        - split; assumption.
        - rewrite H2 in H by (intros (_ & W); cbn in W; contradiction). discriminate.
        - rewrite H2 in H by (intros (W & _); cbn in W; contradiction). discriminate. }
      split; [|exact W]. rewrite (H1 W) in H. inversion H. reflexivity.
    - intros (-> & W). apply H1. exact W.
  Qed.
End ICNew.

(* ====================================================================== *)
(* small list facts                                                        *)
(* ====================================================================== *)
Lemma concat_segs {T} sizes : forall (v : list T),
  list_sum sizes = length v -> concat (segs sizes v) = v.
Proof.
  induction sizes as [|k r IH]; intros v H.
  - destruct v; [reflexivity|discriminate].
  - rewrite list_sum_cons in H. cbn [segs concat].
    rewrite IH by (rewrite skipn_length; lia). apply firstn_skipn.
Qed.

Section Zip3.
  Variable A : Type.

  Lemma zip3_lbl (x : list A) : forall s t,
    length s = length x -> length t = length x -> map (@pe_lbl A) (zip3 x s t) = x.
  Proof.
    induction x as [|x0 x IH]; intros [|s ss] [|t ts] Hs Ht; cbn [length zip3 map] in *;
      try discriminate; auto.
    f_equal. apply IH; lia.
  Qed.

  Lemma zip3_src (x : list A) : forall s t,
    length s = length x -> length t = length x -> map (@pe_src A) (zip3 x s t) = s.
  Proof.
    induction x as [|x0 x IH]; intros [|s ss] [|t ts] Hs Ht; cbn [length zip3 map] in *;
      try discriminate; auto.
    f_equal. apply IH; lia.
  Qed.

  Lemma zip3_tgt (x : list A) : forall s t,
    length s = length x -> length t = length x -> map (@pe_tgt A) (zip3 x s t) = t.
  Proof.
    induction x as [|x0 x IH]; intros [|s ss] [|t ts] Hs Ht; cbn [length zip3 map] in *;
      try discriminate; auto.
    f_equal. apply IH; lia.
  Qed.
End Zip3.

Lemma wf_ff_seq a n m : a + n <= m -> wf_ff (mkFF (seq a n) m).
Proof.
  intros H. unfold wf_ff, all_lt. cbn [table target]. apply Forall_forall.
  intros x Hx. apply in_seq in Hx. lia.
Qed.

Section C05.
  Variables O A : Type.
  Implicit Types f g h : ohg O A.
  Implicit Types G H : hg O A.

  (* ====================================================================== *)
  (* Hypergraph::new / validate                                              *)
  (* ====================================================================== *)
  Definition hg_counts_ok H : Prop :=
    ic_len (h_s H) = length (h_x H) /\ ic_len (h_t H) = length (h_x H) /\
    target (ic_values (h_s H)) = length (h_w H) /\ target (ic_values (h_t H)) = length (h_w H).

  Lemma hg_validate_iff H H' : hg_validate H = inl H' <-> H' = H /\ hg_counts_ok H.
  Proof.
    unfold hg_validate, hg_counts_ok.
    destruct (Nat.eqb_spec (ic_len (h_s H)) (length (h_x H))) as [E1|E1]; cbn [negb].
    2: { split; [discriminate|]. intros (_ & K & _). contradiction. }
    destruct (Nat.eqb_spec (ic_len (h_t H)) (length (h_x H))) as [E2|E2]; cbn [negb].
    2: { split; [discriminate|]. intros (_ & _ & K & _). contradiction. }
    destruct (Nat.eqb_spec (target (ic_values (h_s H))) (length (h_w H))) as [E3|E3]; cbn [negb].
    2: { split; [discriminate|]. intros (_ & _ & _ & K & _). contradiction. }
    destruct (Nat.eqb_spec (target (ic_values (h_t H))) (length (h_w H))) as [E4|E4]; cbn [negb].
    2: { split; [discriminate|]. intros (_ & _ & _ & _ & K). contradiction. }
    split.
    - intros K. inversion K; subst H'. repeat split; assumption.
    - intros (-> & _). reflexivity.
  Qed.

  (* the error is the FIRST failing condition, with the two numbers that were compared *)
  Lemma hg_validate_error H e : hg_validate H = inr e <->
    (ic_len (h_s H) <> length (h_x H) /\ e = SourcesCount (ic_len (h_s H)) (length (h_x H))) \/
    (ic_len (h_s H) = length (h_x H) /\ ic_len (h_t H) <> length (h_x H) /\
     e = TargetsCount (ic_len (h_t H)) (length (h_x H))) \/
    (ic_len (h_s H) = length (h_x H) /\ ic_len (h_t H) = length (h_x H) /\
     target (ic_values (h_s H)) <> length (h_w H) /\
     e = SourcesSet (target (ic_values (h_s H))) (length (h_w H))) \/
    (ic_len (h_s H) = length (h_x H) /\ ic_len (h_t H) = length (h_x H) /\
     target (ic_values (h_s H)) = length (h_w H) /\ target (ic_values (h_t H)) <> length (h_w H) /\
     e = TargetsSet (target (ic_values (h_t H))) (length (h_w H))).
  Proof.
    unfold hg_validate.
    destruct (Nat.eqb_spec (ic_len (h_s H)) (length (h_x H))) as [E1|E1]; cbn [negb].
    2: { split.
         - intros K. inversion K. left. auto.
         - intros [(_ & ->)|[(K & _)|[(K & _)|(K & _)]]]; try contradiction. reflexivity. }
    destruct (Nat.eqb_spec (ic_len (h_t H)) (length (h_x H))) as [E2|E2]; cbn [negb].
    2: { split.
         - intros K. inversion K. right; left. auto.
         - intros [(K & _)|[(_ & _ & ->)|[(_ & K & _)|(_ & K & _)]]]; try contradiction. reflexivity. }
    destruct (Nat.eqb_spec (target (ic_values (h_s H))) (length (h_w H))) as [E3|E3]; cbn [negb].
    2: { split.
         - intros K. inversion K. right; right; left. auto.
         - intros [(K & _)|[(_ & K & _)|[(_ & _ & _ & ->)|(_ & _ & K & _)]]]; try contradiction.
           reflexivity. }
    destruct (Nat.eqb_spec (target (ic_values (h_t H))) (length (h_w H))) as [E4|E4]; cbn [negb].
    2: { split.
         - intros K. inversion K. right; right; right. auto.
         - intros [(K & _)|[(_ & K & _)|[(_ & _ & K & _)|(_ & _ & _ & _ & ->)]]]; try contradiction.
           reflexivity. }
    split; [discriminate|].
    intros [(K & _)|[(_ & K & _)|[(_ & _ & K & _)|(_ & _ & _ & K & _)]]]; contradiction.
  Qed.

  Theorem C05_hg_new_iff (s t : icf) (w : list O) (x : list A) H :
    hg_new s t w x = inl H <->
    (H = mkHG s t w x /\ ic_len s = length x /\ ic_len t = length x /\
     target (ic_values s) = length w /\ target (ic_values t) = length w).
  Proof. unfold hg_new. rewrite hg_validate_iff. reflexivity. Qed.

  Theorem C05_hg_new_error (s t : icf) (w : list O) (x : list A) e :
    hg_new s t w x = inr e <->
    (ic_len s <> length x /\ e = SourcesCount (ic_len s) (length x)) \/
    (ic_len s = length x /\ ic_len t <> length x /\ e = TargetsCount (ic_len t) (length x)) \/
    (ic_len s = length x /\ ic_len t = length x /\ target (ic_values s) <> length w /\
     e = SourcesSet (target (ic_values s)) (length w)) \/
    (ic_len s = length x /\ ic_len t = length x /\ target (ic_values s) = length w /\
     target (ic_values t) <> length w /\ e = TargetsSet (target (ic_values t)) (length w)).
  Proof. unfold hg_new. rewrite hg_validate_error. reflexivity. Qed.

  Lemma wf_hg_counts H : wf_hg H -> hg_counts_ok H.
  Proof. intros (_ & _ & K). exact K. Qed.

  Lemma wf_hg_iff H : wf_hg H <-> wf_icf (h_s H) /\ wf_icf (h_t H) /\ hg_validate H = inl H.
  Proof.
    rewrite hg_validate_iff. unfold wf_hg, hg_counts_ok. split.
    - intros (K1 & K2 & K). auto.
    - intros (K1 & K2 & _ & K). auto.
  Qed.

  (* ====================================================================== *)
  (* OpenHypergraph::new / validate                                          *)
  (* ====================================================================== *)
  Lemma ohg_validate_iff f f' : ohg_validate f = inl f' <->
    f' = f /\ hg_counts_ok (o_h f) /\
    target (o_s f) = length (h_w (o_h f)) /\ target (o_t f) = length (h_w (o_h f)).
  Proof.
    unfold ohg_validate. destruct (hg_validate (o_h f)) as [H'|e] eqn:EV.
    - apply hg_validate_iff in EV. destruct EV as (-> & Hc).
      destruct (Nat.eqb_spec (target (o_s f)) (length (h_w (o_h f)))) as [E1|E1]; cbn [negb].
      2: { split; [discriminate|]. intros (_ & _ & K & _). contradiction. }
      destruct (Nat.eqb_spec (target (o_t f)) (length (h_w (o_h f)))) as [E2|E2]; cbn [negb].
      2: { split; [discriminate|]. intros (_ & _ & _ & K). contradiction. }
      destruct f as [s t H]. cbn [o_s o_t o_h] in *. split.
      + intros K. inversion K. auto.
      + intros (-> & _). reflexivity.
    - split; [discriminate|]. intros (_ & Hc & _).
      assert (K : hg_validate (o_h f) = inl (o_h f)) by (apply hg_validate_iff; auto).
      rewrite K in EV. discriminate.
  Qed.

  Lemma ohg_validate_error f e : ohg_validate f = inr e <->
    (exists e', hg_validate (o_h f) = inr e' /\ e = InvalidHypergraph e') \/
    (hg_counts_ok (o_h f) /\ target (o_s f) <> length (h_w (o_h f)) /\
     e = CospanSourceType (target (o_s f)) (length (h_w (o_h f)))) \/
    (hg_counts_ok (o_h f) /\ target (o_s f) = length (h_w (o_h f)) /\
     target (o_t f) <> length (h_w (o_h f)) /\
     e = CospanTargetType (target (o_t f)) (length (h_w (o_h f)))).
  Proof.
    unfold ohg_validate. destruct (hg_validate (o_h f)) as [H'|e0] eqn:EV.
    - apply hg_validate_iff in EV. destruct EV as (-> & Hc).
      destruct (Nat.eqb_spec (target (o_s f)) (length (h_w (o_h f)))) as [E1|E1]; cbn [negb].
      2: { split.
           - intros K. inversion K. right; left. auto.
           - intros [(e' & K & _)|[(_ & _ & ->)|(_ & K & _)]]; try discriminate; try contradiction.
             reflexivity. }
      destruct (Nat.eqb_spec (target (o_t f)) (length (h_w (o_h f)))) as [E2|E2]; cbn [negb].
      2: { split.
           - intros K. inversion K. right; right. auto.
           - intros [(e' & K & _)|[(_ & K & _)|(_ & _ & _ & ->)]]; try discriminate; try contradiction.
             reflexivity. }
      split; [discriminate|].
      intros [(e' & K & _)|[(_ & K & _)|(_ & _ & K & _)]]; try discriminate; contradiction.
    - split.
      + intros K. inversion K. left. exists e0. auto.
      + intros [(e' & K & ->)|[(Hc & _)|(Hc & _)]].
        * inversion K. reflexivity.
        * assert (K : hg_validate (o_h f) = inl (o_h f)) by (apply hg_validate_iff; auto).
          rewrite K in EV. discriminate.
        * assert (K : hg_validate (o_h f) = inl (o_h f)) by (apply hg_validate_iff; auto).
          rewrite K in EV. discriminate.
  Qed.

  Theorem C05_ohg_new_iff (s t : ff) H f :
    ohg_new s t H = inl f <->
    (f = mkOHG s t H /\
     ic_len (h_s H) = length (h_x H) /\ ic_len (h_t H) = length (h_x H) /\
     target (ic_values (h_s H)) = length (h_w H) /\ target (ic_values (h_t H)) = length (h_w H) /\
     target s = length (h_w H) /\ target t = length (h_w H)).
  Proof.
    unfold ohg_new. rewrite ohg_validate_iff. unfold hg_counts_ok. cbn [o_s o_t o_h]. tauto.
  Qed.

  (* InvalidHypergraph (with the hypergraph's own first error) comes first, then the source leg,
     then the target leg *)
  Theorem C05_ohg_new_error (s t : ff) H e :
    ohg_new s t H = inr e <->
    (exists e', hg_validate H = inr e' /\ e = InvalidHypergraph e') \/
    (hg_validate H = inl H /\ target s <> length (h_w H) /\
     e = CospanSourceType (target s) (length (h_w H))) \/
    (hg_validate H = inl H /\ target s = length (h_w H) /\ target t <> length (h_w H) /\
     e = CospanTargetType (target t) (length (h_w H))).
  Proof.
    unfold ohg_new. rewrite ohg_validate_error. cbn [o_s o_t o_h].
    assert (K : hg_validate H = inl H <-> hg_counts_ok H).
    { rewrite hg_validate_iff. tauto. }
    rewrite K. reflexivity.
  Qed.

  Lemma wf_ohg_iff f : wf_ohg f <->
    wf_icf (h_s (o_h f)) /\ wf_icf (h_t (o_h f)) /\ wf_ff (o_s f) /\ wf_ff (o_t f) /\
    ohg_validate f = inl f.
  Proof.
    rewrite ohg_validate_iff. unfold wf_ohg, wf_hg, hg_counts_ok. tauto.
  Qed.

  (* ====================================================================== *)
  (* source() / target() are total on well-formed diagrams                    *)
  (* ====================================================================== *)
  Lemma ff_compose_semi_ok (s : ff) (w : list O) d :
    wf_ff s -> target s = length w ->
    ff_compose_semi s w = Ok (Some (map (fun i => nth i w d) (table s))).
  Proof.
    intros Ws Ht. unfold ff_compose_semi. rewrite Ht, Nat.eqb_refl.
    rewrite get_range_full. cbn [bind].
    rewrite (gather_ok w d) by (unfold wf_ff, all_lt in Ws; rewrite <- Ht; exact Ws).
    reflexivity.
  Qed.

  Theorem C05_source_target_total f d : wf_ohg f ->
    ohg_source f = Ok (map (fun i => nth i (h_w (o_h f)) d) (table (o_s f))) /\
    ohg_target f = Ok (map (fun i => nth i (h_w (o_h f)) d) (table (o_t f))).
  Proof.
    intros (_ & Ws & Wt & Hs & Ht). unfold ohg_source, ohg_target.
    rewrite (@ff_compose_semi_ok (o_s f) _ d Ws Hs), (@ff_compose_semi_ok (o_t f) _ d Wt Ht).
    split; reflexivity.
  Qed.

  Lemma type_of_wf (P : pohg O A) l d : all_lt (length (p_nodes P)) l ->
    type_of P l = map Some (map (fun i => nth i (p_nodes P) d) l).
  Proof.
    intros H. unfold type_of. rewrite map_map. apply map_ext_in. intros i Hi.
    unfold all_lt in H. rewrite Forall_forall in H. apply nth_error_nth'. auto.
  Qed.

  (* the same without a default element: the boundary objects are the boundary types *)
  Theorem C05_source_target_types f : wf_ohg f ->
    exists a b, ohg_source f = Ok a /\ ohg_target f = Ok b /\
      src_type (abs f) = map Some a /\ tgt_type (abs f) = map Some b.
  Proof.
    intros W. pose proof W as (_ & Ws & Wt & Hs & Ht).
    destruct (h_w (o_h f)) as [|d w'] eqn:Ew.
    - (* no nodes: both legs are empty *)
      unfold wf_ff, all_lt in Ws, Wt. rewrite Hs in Ws. rewrite Ht in Wt. cbn [length] in Ws, Wt.
      assert (Es : table (o_s f) = []).
      { destruct (table (o_s f)) as [|i l]; [reflexivity|]. inversion Ws; lia. }
      assert (Et : table (o_t f) = []).
      { destruct (table (o_t f)) as [|i l]; [reflexivity|]. inversion Wt; lia. }
      exists [], []. unfold ohg_source, ohg_target, ff_compose_semi, src_type, tgt_type, type_of.
      rewrite Ew, Hs, Ht. cbn [length Nat.eqb]. rewrite !get_range_full. cbn [bind abs p_ins p_outs].
      rewrite Es, Et. repeat split; reflexivity.
    - destruct (C05_source_target_total d W) as (E1 & E2).
      eexists. eexists. split; [exact E1|]. split; [exact E2|].
      unfold src_type, tgt_type. rewrite <- Ew in *.
      split; apply type_of_wf; cbn [abs p_nodes p_ins p_outs];
        [rewrite <- Hs; exact Ws|rewrite <- Ht; exact Wt].
  Qed.

  (* ====================================================================== *)
  (* identity, twist, spider, dagger, tensor                                  *)
  (* ====================================================================== *)
  Theorem C05_identity_wf_typed (w : list O) :
    exists h, ohg_identity A w = Ok h /\ wf_ohg h /\
      src_type (abs h) = map Some w /\ tgt_type (abs h) = map Some w.
  Proof.
    destruct (C04_identity_is_spider A w) as (h & H1 & _ & H2 & H3 & H4).
    exists h. auto.
  Qed.

  Theorem C05_twist_wf_typed (a b : list O) :
    exists h, ohg_twist A a b = Ok h /\ wf_ohg h /\
      src_type (abs h) = map Some (a ++ b) /\ tgt_type (abs h) = map Some (b ++ a).
  Proof.
    destruct (C04_twist_is_spider A a b) as (h & H1 & _ & H2 & H3 & H4).
    exists h. auto.
  Qed.

  (* spider(s, t, w) exists exactly when both legs land in w; it is then well-formed as soon as the
     legs are in range, and its boundary types are read off w through the legs *)
  Theorem C05_spider_wf (s t : ff) (w : list O) :
    wf_ff s -> wf_ff t ->
    (target s = length w -> target t = length w ->
     exists h, ohg_spider A s t w = Some h /\ wf_ohg h /\
       src_type (abs h) = map (nth_error w) (table s) /\
       tgt_type (abs h) = map (nth_error w) (table t)) /\
    (forall h, ohg_spider A s t w = Some h -> wf_ohg h).
  Proof.
    intros Ws Wt. split.
    - intros Hs Ht. exists (mkOHG s t (hg_discrete A w)).
      assert (E : ohg_spider A s t w = Some (mkOHG s t (hg_discrete A w))).
      { apply C04_spider_iff. auto. }
      split; [exact E|]. split.
      + apply C04_spider_discrete in E. destruct E as (_ & _ & _ & E). apply E; assumption.
      + split; reflexivity.
    - intros h E. apply C04_spider_discrete in E. destruct E as (_ & _ & _ & E). apply E; assumption.
  Qed.

  Theorem C05_dagger_wf_typed f : wf_ohg f ->
    wf_ohg (ohg_dagger f) /\
    src_type (abs (ohg_dagger f)) = tgt_type (abs f) /\
    tgt_type (abs (ohg_dagger f)) = src_type (abs f).
  Proof. intros W. split; [apply C04_dagger_wf; exact W|]. split; reflexivity. Qed.

  Theorem C05_tensor_wf_typed f g : wf_ohg f -> wf_ohg g ->
    exists h, ohg_tensor f g = Ok h /\ wf_ohg h /\
      src_type (abs h) = src_type (abs f) ++ src_type (abs g) /\
      tgt_type (abs h) = tgt_type (abs f) ++ tgt_type (abs g).
  Proof.
    intros Wf Wg.
    destruct (C02_tensor_is_juxtaposition Wf Wg) as (h & E & W & _).
    destruct (C02_tensor_types Wf Wg) as (h' & E' & Ts & Tt).
    rewrite E in E'. inversion E'; subst h'. exists h. auto.
  Qed.

  (* ====================================================================== *)
  (* tensor_operations and singleton                                          *)
  (* ====================================================================== *)
  Definition tensor_ops_pure (p : operations O A) : ohg O A :=
    let na := length (ic_values (ops_a p)) in
    let nb := length (ic_values (ops_b p)) in
    let i0 := mkFF (seq 0 na) (na + nb) in
    let i1 := mkFF (seq na nb) (na + nb) in
    mkOHG i0 i1
      (mkHG (mkIC (ic_sources (ops_a p)) i0) (mkIC (ic_sources (ops_b p)) i1)
            (ic_values (ops_a p) ++ ic_values (ops_b p)) (ops_x p)).

  Lemma ff_inj0_ok a b : ff_inj0 a b = Ok (mkFF (seq 0 a) (a + b)).
  Proof. unfold ff_inj0. rewrite arange_ok by lia. cbn [bind]. rewrite Nat.sub_0_r. reflexivity. Qed.

  Lemma ff_inj1_ok a b : ff_inj1 a b = Ok (mkFF (seq a b) (a + b)).
  Proof.
    unfold ff_inj1. rewrite arange_ok by lia. cbn [bind].
    replace (a + b - a) with b by lia. reflexivity.
  Qed.

  Lemma ohg_tensor_operations_ok (p : operations O A) :
    wf_ics (ops_a p) -> wf_ics (ops_b p) -> ohg_tensor_operations p = Ok (tensor_ops_pure p).
  Proof.
    intros (Wa1 & Wa2) (Wb1 & Wb2).
    unfold ohg_tensor_operations, hg_tensor_operations.
    rewrite ff_inj0_ok, ff_inj1_ok. cbn [bind].
    unfold ic_new.
    destruct (C05_ic_validate_iff ff_vops
                (mkIC (ic_sources (ops_a p))
                      (mkFF (seq 0 (length (ic_values (ops_a p))))
                            (length (ic_values (ops_a p)) + length (ic_values (ops_b p))))))
      as (Va & _).
    rewrite Va. 2: { split; cbn [ic_sources ic_values ff_vops vlen]; [exact Wa1|].
                     unfold ff_source. cbn [table]. rewrite seq_length. exact Wa2. }
    cbn [bind unwrap].
    destruct (C05_ic_validate_iff ff_vops
                (mkIC (ic_sources (ops_b p))
                      (mkFF (seq (length (ic_values (ops_a p))) (length (ic_values (ops_b p))))
                            (length (ic_values (ops_a p)) + length (ic_values (ops_b p))))))
      as (Vb & _).
    rewrite Vb. 2: { split; cbn [ic_sources ic_values ff_vops vlen]; [exact Wb1|].
                     unfold ff_source. cbn [table]. rewrite seq_length. exact Wb2. }
    reflexivity.
  Qed.

  Lemma tensor_ops_pure_wf (p : operations O A) :
    wf_ics (ops_a p) -> wf_ics (ops_b p) ->
    ic_len (ops_a p) = length (ops_x p) -> ic_len (ops_b p) = length (ops_x p) ->
    wf_ohg (tensor_ops_pure p).
  Proof.
    intros (Wa1 & Wa2) (Wb1 & Wb2) Ca Cb.
    unfold wf_ohg, wf_hg, wf_icf, wf_ic, tensor_ops_pure.
    cbn [o_s o_t o_h h_s h_t h_w h_x ic_sources ic_values target].
    unfold ic_len, ff_source in *. cbn [ic_sources table]. rewrite !seq_length, app_length.
    repeat match goal with |- _ /\ _ => split end;
      try assumption; try reflexivity; apply wf_ff_seq; lia.
  Qed.

  (* for a well-formed batch of operations: well-formed result, one hyperedge per operation, in order,
     with the operation's label and its declared source / target TYPES; the boundary is all declared
     source types, resp. all declared target types, concatenated *)
  Theorem C05_tensor_operations_wf_typed (p : operations O A) :
    wf_ics (ops_a p) -> wf_ics (ops_b p) ->
    ic_len (ops_a p) = length (ops_x p) -> ic_len (ops_b p) = length (ops_x p) ->
    exists h, ohg_tensor_operations p = Ok h /\ wf_ohg h /\
      p_nodes (abs h) = ic_values (ops_a p) ++ ic_values (ops_b p) /\
      length (p_edges (abs h)) = length (ops_x p) /\
      map (@pe_lbl A) (p_edges (abs h)) = ops_x p /\
      map (fun e => type_of (abs h) (pe_src e)) (p_edges (abs h)) = map (map Some) (decode_s (ops_a p)) /\
      map (fun e => type_of (abs h) (pe_tgt e)) (p_edges (abs h)) = map (map Some) (decode_s (ops_b p)) /\
      src_type (abs h) = map Some (ic_values (ops_a p)) /\
      tgt_type (abs h) = map Some (ic_values (ops_b p)) /\
      concat (decode_s (ops_a p)) = ic_values (ops_a p) /\
      concat (decode_s (ops_b p)) = ic_values (ops_b p).
  Proof.
    intros Wa Wb Ca Cb. exists (tensor_ops_pure p).
    split; [apply ohg_tensor_operations_ok; assumption|].
    split; [apply tensor_ops_pure_wf; assumption|].
    destruct Wa as (Wa1 & Wa2). destruct Wb as (Wb1 & Wb2).
    set (va := ic_values (ops_a p)) in *. set (vb := ic_values (ops_b p)) in *.
    set (ta := table (ic_sources (ops_a p))) in *. set (tb := table (ic_sources (ops_b p))) in *.
    assert (Ls : length (segs ta (seq 0 (length va))) = length (ops_x p)).
    { rewrite segs_length. exact Ca. }
    assert (Lt : length (segs tb (seq (length va) (length vb))) = length (ops_x p)).
    { rewrite segs_length. exact Cb. }
    assert (Ed : p_edges (abs (tensor_ops_pure p))
                 = zip3 (ops_x p) (segs ta (seq 0 (length va))) (segs tb (seq (length va) (length vb))))
      by reflexivity.
    assert (Nd : p_nodes (abs (tensor_ops_pure p)) = va ++ vb) by reflexivity.
    split; [exact Nd|].
    split; [rewrite Ed; apply zip3_length; assumption|].
    split; [rewrite Ed; apply zip3_lbl; assumption|].
    split; [|split; [|split; [|split; [|split]]]].
    - rewrite <- (map_map (@pe_src A) (type_of (abs (tensor_ops_pure p)))).
      rewrite Ed, zip3_src by assumption.
      unfold type_of. rewrite Nd, <- segs_map, map_nth_error_seq0, segs_map. reflexivity.
    - rewrite <- (map_map (@pe_tgt A) (type_of (abs (tensor_ops_pure p)))).
      rewrite Ed, zip3_tgt by assumption.
      unfold type_of. rewrite Nd, <- segs_map, map_nth_error_seq_tail, segs_map. reflexivity.
    - unfold src_type, type_of. rewrite Nd. apply map_nth_error_seq0.
    - unfold tgt_type, type_of. rewrite Nd. apply map_nth_error_seq_tail.
    - apply concat_segs. exact Wa2.
    - apply concat_segs. exact Wb2.
  Qed.

  (* the hyperedges themselves: consecutive runs of node indices, sources first then targets *)
  Theorem C05_tensor_operations_edges (p : operations O A) :
    wf_ics (ops_a p) -> wf_ics (ops_b p) ->
    exists h, ohg_tensor_operations p = Ok h /\
      p_edges (abs h)
      = zip3 (ops_x p)
             (segs (table (ic_sources (ops_a p))) (seq 0 (length (ic_values (ops_a p)))))
             (segs (table (ic_sources (ops_b p)))
                   (seq (length (ic_values (ops_a p))) (length (ic_values (ops_b p))))).
  Proof.
    intros Wa Wb. exists (tensor_ops_pure p).
    split; [apply ohg_tensor_operations_ok; assumption|reflexivity].
  Qed.

  Lemma wf_ics_singleton (a : list O) : wf_ics (ic_singleton (semi_vops O) a).
  Proof.
    unfold wf_ics, wf_ic, ic_singleton, ff_constant, fill.
    cbn [ic_sources ic_values semi_vops vlen table target repeat list_sum fold_right]. split; lia.
  Qed.

  Theorem C05_singleton_wf_typed (x : A) (a b : list O) :
    exists h, ohg_singleton x a b = Ok h /\ wf_ohg h /\
      p_nodes (abs h) = a ++ b /\
      p_edges (abs h) = [mkPE x (seq 0 (length a)) (seq (length a) (length b))] /\
      src_type (abs h) = map Some a /\ tgt_type (abs h) = map Some b.
  Proof.
    unfold ohg_singleton.
    pose proof (wf_ics_singleton a) as Wa. pose proof (wf_ics_singleton b) as Wb.
    exists (tensor_ops_pure (ops_singleton x a b)).
    split; [apply ohg_tensor_operations_ok; assumption|].
    split; [apply tensor_ops_pure_wf; try assumption; reflexivity|].
    split; [reflexivity|]. split; [|split].
    - cbn. rewrite !firstn_all2 by (rewrite seq_length; lia). reflexivity.
    - unfold src_type, type_of. cbn. apply map_nth_error_seq0.
    - unfold tgt_type, type_of. cbn. apply map_nth_error_seq_tail.
  Qed.
End C05.

(* ---------- concrete instances ---------- *)
Module C05Examples.
  Definition sA : icf := mkIC (mkFF [2] 3) (mkFF [0; 1] 3).
  Definition tA : icf := mkIC (mkFF [1] 2) (mkFF [2] 3).

  Example hg_new_ok : hg_new sA tA [1; 1; 2] [7] = inl (mkHG sA tA [1; 1; 2] [7]).
  Proof. reflexivity. Qed.

  (* two conditions fail (targets count and sources set): the first in the documented order wins *)
  Example hg_new_first_error : hg_new sA tA [1; 1] [7; 8] = inr (SourcesCount 1 2).
  Proof. reflexivity. Qed.
  Example hg_new_third_error : hg_new sA tA [1; 1] [7] = inr (SourcesSet 3 2).
  Proof. reflexivity. Qed.

  Example ohg_new_errors :
    ohg_new (mkFF [0] 2) (mkFF [0] 1) (mkHG sA tA [1; 1] [7]) = inr (InvalidHypergraph (SourcesSet 3 2)) /\
    ohg_new (mkFF [0] 2) (mkFF [0] 1) (mkHG sA tA [1; 1; 2] [7]) = inr (CospanSourceType 2 3) /\
    ohg_new (mkFF [0] 3) (mkFF [0] 1) (mkHG sA tA [1; 1; 2] [7]) = inr (CospanTargetType 1 3).
  Proof. repeat split; reflexivity. Qed.

  (* validation is shallow: it compares counts and codomains only, so a leg with an out-of-range
     entry is accepted, and source() then panics -- wf_ohg (which C05_source_target_total assumes)
     is strictly stronger than validate *)
  Example validate_is_shallow :
    let f := mkOHG (mkFF [5] 3) (mkFF [2] 3) (mkHG sA tA [1; 1; 2] [7]) in
    ohg_new (mkFF [5] 3) (mkFF [2] 3) (mkHG sA tA [1; 1; 2] [7]) = inl f /\
    ohg_source f = Panic /\ ~ wf_ohg f.
  Proof.
    repeat split; try reflexivity.
    intros (_ & W & _). unfold wf_ff, all_lt in W. cbn in W. inversion W; lia.
  Qed.

  (* a well-formed batch of three operations:  u : [1;2] -> [3],  v : [] -> [4;4],  z : [5] -> [] *)
  Definition ops0 : operations nat nat :=
    mkOps [10; 11; 12] (mkIC (mkFF [2; 0; 1] 4) [1; 2; 5]) (mkIC (mkFF [1; 2; 0] 4) [3; 4; 4]).

  Example ops0_wf :
    wf_ics (ops_a ops0) /\ wf_ics (ops_b ops0) /\
    ic_len (ops_a ops0) = length (ops_x ops0) /\ ic_len (ops_b ops0) = length (ops_x ops0).
  Proof. repeat split; reflexivity. Qed.

  Example ops0_result :
    rmap (@abs nat nat) (ohg_tensor_operations ops0)
    = Ok (mkP [1; 2; 5; 3; 4; 4]
              [mkPE 10 [0; 1] [3]; mkPE 11 [] [4; 5]; mkPE 12 [2] []]
              [0; 1; 2] [3; 4; 5]).
  Proof. vm_compute. reflexivity. Qed.

  Example ops0_applies :
    exists h, ohg_tensor_operations ops0 = Ok h /\ wf_ohg h /\
      map (fun e => type_of (abs h) (pe_src e)) (p_edges (abs h))
      = [[Some 1; Some 2]; []; [Some 5]] /\
      map (fun e => type_of (abs h) (pe_tgt e)) (p_edges (abs h))
      = [[Some 3]; [Some 4; Some 4]; []].
  Proof.
    destruct ops0_wf as (Wa & Wb & Ca & Cb).
    destruct (C05_tensor_operations_wf_typed ops0 Wa Wb Ca Cb)
      as (h & E & W & _ & _ & _ & Ts & Tt & _).
    exists h. split; [exact E|]. split; [exact W|]. split; [exact Ts|exact Tt].
  Qed.

  Example singleton_ex :
    rmap (@abs nat nat) (ohg_singleton 7 [1; 1] [2])
    = Ok (mkP [1; 1; 2] [mkPE 7 [0; 1] [2]] [0; 1] [2]).
  Proof. vm_compute. reflexivity. Qed.

  Example source_target_ex :
    ohg_source C02Examples.f0 = Ok [1; 1] /\ ohg_target C02Examples.f0 = Ok [2].
  Proof. split; vm_compute; reflexivity. Qed.
End C05Examples.
