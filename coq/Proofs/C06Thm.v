(* C06: finite functions (src/finite_function/arrow.rs, src/semifinite/{types,arrow}.rs) behave
   as functions between finite sets.  Everything that involves the array back-end is proved
   for an arbitrary back-end [B] satisfying the documented contract [BackendOK B]. *)
From OHG Require Import Model.FinFun Spec.Backend Spec.Plain Proofs.PrimsThm.
From Coq Require Import Permutation.

Set Implicit Arguments.

#[local] Arguments Nat.sub : simpl never.
#[local] Arguments Nat.div : simpl never.
#[local] Arguments Nat.modulo : simpl never.

(* application of a finite function to an index *)
Definition app (f : ff) (i : nat) : nat := nth i (table f) 0.

(* ---------- generic list helpers ---------- *)
Lemma all_lt_forall n l : all_lt n l <-> forall x, In x l -> x < n.
Proof. unfold all_lt. apply Forall_forall. Qed.

Lemma all_lt_nth n l i : all_lt n l -> i < length l -> nth i l 0 < n.
Proof. intros H Hi. rewrite all_lt_forall in H. apply H. apply nth_In. exact Hi. Qed.

Lemma nth_map_lt {A C} (F : A -> C) l i d d' : i < length l -> nth i (map F l) d' = F (nth i l d).
Proof.
  intros H. rewrite nth_indep with (d' := F d) by (rewrite map_length; exact H).
  apply map_nth.
Qed.

Lemma map_nth_seq {A} (l : list A) d : map (fun i => nth i l d) (seq 0 (length l)) = l.
Proof.
  apply nth_ext with (d := d) (d' := d).
  - rewrite map_length, seq_length. reflexivity.
  - intros i Hi. rewrite map_length, seq_length in Hi.
    rewrite (nth_map_seq (fun i => nth i l d)) by exact Hi. reflexivity.
Qed.

Lemma map_id_on {A} (F : A -> A) l : (forall x, In x l -> F x = x) -> map F l = l.
Proof.
  intros H. rewrite <- (map_id l) at 2. apply map_ext_in. exact H.
Qed.

Lemma combine_app_eq {A C} (l1 l2 : list A) (r1 r2 : list C) : length l1 = length r1 ->
  combine (l1 ++ l2) (r1 ++ r2) = combine l1 r1 ++ combine l2 r2.
Proof.
  revert r1; induction l1 as [|x l1 IH]; intros [|y r1] H; simpl in *; try discriminate; auto.
  rewrite IH by lia. reflexivity.
Qed.

Lemma combine_map_map {A C D} (F : A -> C) (G : A -> D) l :
  combine (map F l) (map G l) = map (fun x => (F x, G x)) l.
Proof. induction l as [|x l IH]; simpl; auto. rewrite IH. reflexivity. Qed.

Lemma mapM_app {A C} (F : A -> res C) l1 l2 r1 r2 :
  mapM F l1 = Ok r1 -> mapM F l2 = Ok r2 -> mapM F (l1 ++ l2) = Ok (r1 ++ r2).
Proof.
  revert r1; induction l1 as [|x l1 IH]; intros r1 H1 H2; simpl in *.
  - inversion H1; subst. exact H2.
  - destruct (F x) as [y| |] eqn:E; simpl in *; try discriminate.
    destruct (mapM F l1) as [ys| |] eqn:E1; simpl in *; try discriminate.
    inversion H1; subst. rewrite (IH ys eq_refl H2). reflexivity.
Qed.

Lemma nth_error_ext {A} (l l' : list A) :
  length l = length l' -> (forall i, i < length l -> nth_error l i = nth_error l' i) -> l = l'.
Proof.
  revert l'; induction l as [|x l IH]; intros [|y l'] HL H; simpl in *; try discriminate; auto.
  f_equal.
  - specialize (H 0 ltac:(lia)). simpl in H. inversion H; reflexivity.
  - apply IH. lia. intros i Hi. apply (H (S i)). lia.
Qed.

(* ---------- amax ---------- *)
Lemma fold_max_spec l : forall a,
  (fold_left Nat.max l a = a \/ In (fold_left Nat.max l a) l) /\
  a <= fold_left Nat.max l a /\ Forall (fun x => x <= fold_left Nat.max l a) l.
Proof.
  induction l as [|x l IH]; intros a; simpl.
  - split; [left; reflexivity|split; [lia|constructor]].
  - destruct (IH (Nat.max a x)) as (H1 & H2 & H3). split; [|split].
    + destruct H1 as [H1|H1]; [|right; right; exact H1].
      rewrite H1. destruct (Nat.max_spec a x) as [[_ E]|[_ E]]; rewrite E; auto.
    + lia.
    + constructor; [lia|exact H3].
Qed.

Lemma amax_none l : amax l = None <-> l = [].
Proof. destruct l; simpl; split; intros H; try discriminate; auto. Qed.

Lemma amax_some l m : amax l = Some m -> In m l /\ Forall (fun x => x <= m) l.
Proof.
  destruct l as [|a l]; simpl; intros H; inversion H; subst. clear H.
  destruct (fold_max_spec l a) as (H1 & H2 & H3). split.
  - destruct H1 as [H1|H1]; [left; symmetry; exact H1|right; exact H1].
  - constructor; assumption.
Qed.

(* ================= C06_new ================= *)
Theorem C06_new t n :
  (forall f, ff_new t n = Some f <-> all_lt n t /\ f = mkFF t n) /\
  (ff_new t n = None <-> ~ all_lt n t).
Proof.
  unfold ff_new. destruct (amax t) as [m|] eqn:E.
  - apply amax_some in E. destruct E as (Hin & Hle).
    destruct (n <=? m) eqn:L; [apply Nat.leb_le in L|apply Nat.leb_gt in L].
    + assert (Hn : ~ all_lt n t).
      { intros H. rewrite all_lt_forall in H. specialize (H m Hin). lia. }
      split.
      * intros f. split; [discriminate|]. intros (H & _). contradiction.
      * split; auto.
    + assert (Hy : all_lt n t).
      { unfold all_lt. eapply Forall_impl; [|exact Hle]. simpl. intros x Hx. lia. }
      split.
      * intros f. split.
        -- intros H. inversion H. auto.
        -- intros (_ & ->). reflexivity.
      * split; [discriminate|]. intros H. contradiction.
  - apply amax_none in E. subst t. split.
    + intros f. split.
      * intros H. inversion H. split; [constructor|reflexivity].
      * intros (_ & ->). reflexivity.
    + split; [discriminate|]. intros H. exfalso. apply H. constructor.
Qed.

Example C06_new_ex :
  ff_new [2;0;1] 3 = Some (mkFF [2;0;1] 3) /\ ff_new [2;0;3] 3 = None /\ all_lt 3 [2;0;1].
Proof. split; [reflexivity|split; [reflexivity|]]. repeat constructor. Qed.

(* ================= C06_compose ================= *)
Lemma ff_compose_ok f g : wf_ff f -> target f = ff_source g ->
  ff_compose f g = Ok (Some (mkFF (map (app g) (table f)) (target g))).
Proof.
  intros W E. unfold ff_compose. rewrite E, Nat.eqb_refl, get_range_full. cbn [bind].
  rewrite (gather_ok (table g) 0).
  - reflexivity.
  - unfold wf_ff, all_lt in W. rewrite E in W. exact W.
Qed.

Lemma ff_compose_none f g : target f <> ff_source g -> ff_compose f g = Ok None.
Proof. intros E. unfold ff_compose. apply Nat.eqb_neq in E. rewrite E. reflexivity. Qed.

Lemma wf_compose f g : wf_ff f -> wf_ff g -> target f = ff_source g ->
  wf_ff (mkFF (map (app g) (table f)) (target g)).
Proof.
  intros Wf Wg E. unfold wf_ff, all_lt in *. cbn [table target].
  apply Forall_map. eapply Forall_impl; [|exact Wf]. simpl. intros i Hi.
  apply all_lt_nth; [exact Wg|]. unfold ff_source in E. lia.
Qed.

Theorem C06_compose f g : wf_ff f ->
  (forall h, ff_compose f g = Ok (Some h) <->
             target f = ff_source g /\ h = mkFF (map (app g) (table f)) (target g)) /\
  (ff_compose f g = Ok None <-> target f <> ff_source g) /\
  ff_compose f g <> Panic /\ ff_compose f g <> Fuel /\
  (forall h, wf_ff g -> ff_compose f g = Ok (Some h) -> wf_ff h).
Proof.
  intros W. destruct (Nat.eq_dec (target f) (ff_source g)) as [E|E].
  - rewrite (ff_compose_ok g W E). split; [|split; [|split; [|split]]]; try discriminate.
    + intros h. split.
      * intros H. inversion H. split; [exact E|reflexivity].
      * intros (_ & ->). reflexivity.
    + split; [discriminate|]. intros H. contradiction.
    + intros h Wg H. inversion H. apply wf_compose; assumption.
  - rewrite (ff_compose_none f g E). split; [|split; [|split; [|split]]]; try discriminate.
    + intros h. split; [discriminate|]. intros (H & _). contradiction.
    + split; auto.
Qed.

Example C06_compose_ex :
  wf_ff (mkFF [1;1;0] 2) /\ wf_ff (mkFF [4;2] 5) /\
  ff_compose (mkFF [1;1;0] 2) (mkFF [4;2] 5) = Ok (Some (mkFF [2;2;4] 5)) /\
  ff_compose (mkFF [1;1;0] 3) (mkFF [4;2] 5) = Ok None /\
  ff_compose (mkFF [1;7;0] 2) (mkFF [4;2] 5) = Panic.
Proof. repeat split; try reflexivity; repeat constructor. Qed.

(* ================= C06_compose_semi ================= *)
Section ComposeSemi.
  Variable T : Type.

  Lemma ff_compose_semi_ok f (u : list T) d : wf_ff f -> target f = length u ->
    ff_compose_semi f u = Ok (Some (map (fun i => nth i u d) (table f))).
  Proof.
    intros W E. unfold ff_compose_semi. rewrite E, Nat.eqb_refl, get_range_full. cbn [bind].
    rewrite (gather_ok u d).
    - reflexivity.
    - unfold wf_ff, all_lt in W. rewrite E in W. exact W.
  Qed.

  Lemma ff_compose_semi_none f (u : list T) : target f <> length u -> ff_compose_semi f u = Ok None.
  Proof. intros E. unfold ff_compose_semi. apply Nat.eqb_neq in E. rewrite E. reflexivity. Qed.

  Theorem C06_compose_semi f (u : list T) (d : T) : wf_ff f ->
    (forall v, ff_compose_semi f u = Ok (Some v) <->
               target f = length u /\ v = map (fun i => nth i u d) (table f)) /\
    (ff_compose_semi f u = Ok None <-> target f <> length u) /\
    ff_compose_semi f u <> Panic /\ ff_compose_semi f u <> Fuel.
  Proof.
    intros W. destruct (Nat.eq_dec (target f) (length u)) as [E|E].
    - rewrite (ff_compose_semi_ok u d W E). split; [|split; [|split]]; try discriminate.
      + intros v. split.
        * intros H. inversion H. split; [exact E|reflexivity].
        * intros (_ & ->). reflexivity.
      + split; [discriminate|]. intros H. contradiction.
    - rewrite (ff_compose_semi_none f u E). split; [|split; [|split]]; try discriminate.
      + intros v. split; [discriminate|]. intros (H & _). contradiction.
      + split; auto.
  Qed.
End ComposeSemi.

Example C06_compose_semi_ex :
  wf_ff (mkFF [1;1;0] 2) /\
  ff_compose_semi (mkFF [1;1;0] 2) [true;false] = Ok (Some [false;false;true]) /\
  ff_compose_semi (mkFF [1;1;0] 3) [true;false] = Ok None.
Proof. repeat split; try reflexivity; repeat constructor. Qed.

(* ================= C06_identity ================= *)
Definition idf (a : nat) : ff := mkFF (seq 0 a) a.

Lemma ff_identity_ok a : ff_identity a = Ok (idf a).
Proof. unfold ff_identity. rewrite arange_ok by lia. rewrite Nat.sub_0_r. reflexivity. Qed.

Lemma wf_idf a : wf_ff (idf a).
Proof. unfold wf_ff, idf. cbn [table target]. apply all_lt_forall. intros x Hx. apply in_seq in Hx. lia. Qed.

Lemma app_idf a i : i < a -> app (idf a) i = i.
Proof. intros H. unfold app, idf. cbn [table]. rewrite seq_nth by exact H. reflexivity. Qed.

Theorem C06_identity a :
  ff_identity a = Ok (idf a) /\
  wf_ff (idf a) /\ ff_source (idf a) = a /\ target (idf a) = a /\
  (forall i, i < a -> app (idf a) i = i) /\
  (forall f, ff_source f = a -> ff_compose (idf a) f = Ok (Some f)) /\
  (forall f, wf_ff f -> target f = a -> ff_compose f (idf a) = Ok (Some f)).
Proof.
  split; [apply ff_identity_ok|]. split; [apply wf_idf|].
  split; [unfold ff_source, idf; cbn [table]; apply seq_length|]. split; [reflexivity|].
  split; [intros i Hi; apply app_idf; exact Hi|]. split.
  - intros f E. rewrite ff_compose_ok.
    + destruct f as [tf nf]. unfold ff_source, idf, app in *. cbn [table target] in *.
      subst a. rewrite map_nth_seq. reflexivity.
    + apply wf_idf.
    + rewrite E. reflexivity.
  - intros f W E. rewrite ff_compose_ok.
    + destruct f as [tf nf]. unfold idf, wf_ff in *. cbn [table target] in *. subst a.
      rewrite map_id_on; [reflexivity|].
      intros x Hx. rewrite all_lt_forall in W. apply (app_idf (W x Hx)).
    + exact W.
    + rewrite E. unfold ff_source, idf. cbn [table]. rewrite seq_length. reflexivity.
Qed.

Example C06_identity_ex :
  ff_identity 3 = Ok (mkFF [0;1;2] 3) /\
  ff_compose (idf 3) (mkFF [4;2;2] 5) = Ok (Some (mkFF [4;2;2] 5)) /\
  ff_compose (mkFF [4;2;2] 5) (idf 5) = Ok (Some (mkFF [4;2;2] 5)).
Proof. repeat split. Qed.

(* ================= C06_initial_terminal_constant ================= *)
Theorem C06_initial_terminal_constant :
  (forall a, table (ff_initial a) = [] /\ target (ff_initial a) = a /\ ff_source (ff_initial a) = 0 /\
             wf_ff (ff_initial a)) /\
  (forall a, table (ff_terminal a) = repeat 0 a /\ target (ff_terminal a) = 1 /\
             ff_source (ff_terminal a) = a /\ wf_ff (ff_terminal a) /\
             (forall i, app (ff_terminal a) i = 0)) /\
  (forall a x b, table (ff_constant a x b) = repeat x a /\ target (ff_constant a x b) = x + b + 1 /\
             ff_source (ff_constant a x b) = a /\ wf_ff (ff_constant a x b) /\
             (forall i, i < a -> app (ff_constant a x b) i = x)) /\
  (forall f, ff_to_initial f = ff_initial (target f)).
Proof.
  split; [|split; [|split]].
  - intros a. repeat split. constructor.
  - intros a. unfold ff_terminal, ff_source, wf_ff, app, fill. cbn [table target].
    split; [reflexivity|]. split; [reflexivity|]. split; [apply repeat_length|]. split.
    + apply all_lt_forall. intros y Hy. apply repeat_spec in Hy. lia.
    + intros i. apply nth_repeat.
  - intros a x b. unfold ff_constant, ff_source, wf_ff, app, fill. cbn [table target].
    split; [reflexivity|]. split; [reflexivity|]. split; [apply repeat_length|]. split.
    + apply all_lt_forall. intros y Hy. apply repeat_spec in Hy. lia.
    + intros i Hi. rewrite nth_indep with (d' := x) by (rewrite repeat_length; exact Hi).
      apply nth_repeat.
  - intros f. reflexivity.
Qed.

Example C06_initial_terminal_constant_ex :
  ff_terminal 3 = mkFF [0;0;0] 1 /\ ff_constant 3 2 2 = mkFF [2;2;2] 5 /\ ff_initial 4 = mkFF [] 4.
Proof. repeat split. Qed.

(* ================= C06_coproduct ================= *)
Lemma ff_inj0_ok a b : ff_inj0 a b = Ok (mkFF (seq 0 a) (a + b)).
Proof. unfold ff_inj0. rewrite arange_ok by lia. rewrite Nat.sub_0_r. reflexivity. Qed.

Lemma ff_inj1_ok a b : ff_inj1 a b = Ok (mkFF (seq a b) (a + b)).
Proof.
  unfold ff_inj1. rewrite arange_ok by lia. replace (a + b - a) with b by lia. reflexivity.
Qed.

Lemma wf_inj0 a b : wf_ff (mkFF (seq 0 a) (a + b)).
Proof. apply all_lt_forall. cbn [table target]. intros x Hx. apply in_seq in Hx. lia. Qed.

Lemma wf_inj1 a b : wf_ff (mkFF (seq a b) (a + b)).
Proof. apply all_lt_forall. cbn [table target]. intros x Hx. apply in_seq in Hx. lia. Qed.

Lemma map_nth_app_l {A} (l1 l2 : list A) d :
  map (fun i => nth i (l1 ++ l2) d) (seq 0 (length l1)) = l1.
Proof.
  transitivity (map (fun i => nth i l1 d) (seq 0 (length l1))); [|apply map_nth_seq].
  apply map_ext_in. intros i Hi. apply in_seq in Hi. apply app_nth1. lia.
Qed.

Lemma map_nth_app_r {A} (l1 l2 : list A) d :
  map (fun i => nth i (l1 ++ l2) d) (seq (length l1) (length l2)) = l2.
Proof.
  apply nth_ext with (d := d) (d' := d).
  - rewrite map_length, seq_length. reflexivity.
  - intros i Hi. rewrite map_length, seq_length in Hi.
    rewrite (nth_map_seq (fun i => nth i (l1 ++ l2) d)) by exact Hi.
    rewrite app_nth2 by lia. f_equal. lia.
Qed.

Theorem C06_coproduct f g :
  (forall h, ff_coproduct f g = Some h <->
             target f = target g /\ h = mkFF (table f ++ table g) (target f)) /\
  (ff_coproduct f g = None <-> target f <> target g) /\
  (forall h, ff_coproduct f g = Some h ->
     ff_source h = ff_source f + ff_source g /\
     (wf_ff f -> wf_ff g -> wf_ff h) /\
     exists i0 i1, ff_inj0 (ff_source f) (ff_source g) = Ok i0 /\
                   ff_inj1 (ff_source f) (ff_source g) = Ok i1 /\
                   ff_compose i0 h = Ok (Some f) /\ ff_compose i1 h = Ok (Some g) /\
                   (forall k, ff_source k = ff_source f + ff_source g ->
                      ff_compose i0 k = Ok (Some f) -> ff_compose i1 k = Ok (Some g) -> k = h)).
Proof.
  unfold ff_coproduct.
  destruct (target f =? target g) eqn:E; [apply Nat.eqb_eq in E|apply Nat.eqb_neq in E].
  2:{ split; [|split].
      - intros h. split; [discriminate|]. intros (H & _). contradiction.
      - split; auto.
      - intros h H. discriminate. }
  split; [|split].
  - intros h. split.
    + intros H. inversion H. auto.
    + intros (_ & ->). reflexivity.
  - split; [discriminate|]. intros H. contradiction.
  - intros h H. inversion H as [Hh]. clear H.
    destruct f as [tf nf], g as [tg ng]. unfold ff_source. cbn [table target] in *. subst ng.
    split; [apply app_length|]. split.
    + unfold wf_ff, all_lt. cbn [table target]. intros Wf Wg. apply Forall_app. auto.
    + exists (mkFF (seq 0 (length tf)) (length tf + length tg)),
             (mkFF (seq (length tf) (length tg)) (length tf + length tg)).
      split; [apply ff_inj0_ok|]. split; [apply ff_inj1_ok|].
      split; [|split; [|]].
      * rewrite ff_compose_ok; [|apply wf_inj0|unfold ff_source; cbn [table target]; rewrite app_length; reflexivity].
        unfold app. cbn [table target]. rewrite map_nth_app_l. reflexivity.
      * rewrite ff_compose_ok; [|apply wf_inj1|unfold ff_source; cbn [table target]; rewrite app_length; reflexivity].
        unfold app. cbn [table target]. rewrite map_nth_app_r. reflexivity.
      * intros [tk nk] Hk. unfold ff_source in Hk. cbn [table] in Hk.
        rewrite ff_compose_ok; [|apply wf_inj0|unfold ff_source; cbn [table target]; lia].
        rewrite ff_compose_ok; [|apply wf_inj1|unfold ff_source; cbn [table target]; lia].
        unfold app. cbn [table target]. intros H0 H1.
        assert (E0 : map (fun i => nth i tk 0) (seq 0 (length tf)) = tf) by congruence.
        assert (E1 : map (fun i => nth i tk 0) (seq (length tf) (length tg)) = tg) by congruence.
        assert (En : nk = nf) by congruence.
        subst h nk. f_equal.
        transitivity (map (fun i => nth i tk 0) (seq 0 (length tk))); [symmetry; apply map_nth_seq|].
        rewrite Hk, seq_app, map_app. cbn [Nat.add]. rewrite E0, E1. reflexivity.
Qed.

Example C06_coproduct_ex :
  ff_coproduct (mkFF [1;0] 3) (mkFF [2;2;1] 3) = Some (mkFF [1;0;2;2;1] 3) /\
  ff_coproduct (mkFF [1;0] 3) (mkFF [2;2;1] 4) = None /\
  ff_compose (mkFF [0;1] 5) (mkFF [1;0;2;2;1] 3) = Ok (Some (mkFF [1;0] 3)) /\
  ff_compose (mkFF [2;3;4] 5) (mkFF [1;0;2;2;1] 3) = Ok (Some (mkFF [2;2;1] 3)).
Proof. repeat split. Qed.

(* ================= C06_inj ================= *)
Lemma compose_inj0 f b : wf_ff f ->
  ff_compose f (mkFF (seq 0 (target f)) (target f + b)) = Ok (Some (mkFF (table f) (target f + b))).
Proof.
  intros W. rewrite ff_compose_ok;
    [|exact W|unfold ff_source; cbn [table]; rewrite seq_length; reflexivity].
  unfold app. cbn [table target]. rewrite map_id_on; [reflexivity|].
  intros x Hx. unfold wf_ff in W. rewrite all_lt_forall in W. rewrite seq_nth by (apply W; exact Hx). reflexivity.
Qed.

Lemma compose_inj1 f a : wf_ff f ->
  ff_compose f (mkFF (seq a (target f)) (a + target f)) =
  Ok (Some (mkFF (map (fun x => x + a) (table f)) (a + target f))).
Proof.
  intros W. rewrite ff_compose_ok;
    [|exact W|unfold ff_source; cbn [table]; rewrite seq_length; reflexivity].
  unfold app. cbn [table target]. do 3 f_equal. apply map_ext_in.
  intros x Hx. unfold wf_ff in W. rewrite all_lt_forall in W. rewrite seq_nth by (apply W; exact Hx). lia.
Qed.

Theorem C06_inj :
  (forall a b, ff_inj0 a b = Ok (mkFF (seq 0 a) (a + b))) /\
  (forall a b, ff_inj1 a b = Ok (mkFF (seq a b) (a + b))) /\
  (forall a b, wf_ff (mkFF (seq 0 a) (a + b)) /\ wf_ff (mkFF (seq a b) (a + b))) /\
  (forall f b, wf_ff f ->
     exists i0, ff_inj0 (target f) b = Ok i0 /\ ff_compose f i0 = Ok (Some (ff_inject0 f b))) /\
  (forall f a, wf_ff f ->
     exists i1, ff_inj1 a (target f) = Ok i1 /\ ff_compose f i1 = Ok (Some (ff_inject1 f a))) /\
  (forall f b, wf_ff f -> wf_ff (ff_inject0 f b)) /\
  (forall f a, wf_ff f -> wf_ff (ff_inject1 f a)).
Proof.
  split; [exact ff_inj0_ok|]. split; [exact ff_inj1_ok|].
  split; [intros a b; split; [apply wf_inj0|apply wf_inj1]|].
  split; [|split; [|split]].
  - intros f b W. eexists. split; [apply ff_inj0_ok|].
    rewrite (compose_inj0 b W). unfold ff_inject0. rewrite (Nat.add_comm b). reflexivity.
  - intros f a W. eexists. split; [apply ff_inj1_ok|].
    rewrite (compose_inj1 a W). reflexivity.
  - intros f b W. unfold wf_ff, all_lt, ff_inject0 in *. cbn [table target].
    eapply Forall_impl; [|exact W]. simpl. intros x Hx. lia.
  - intros f a W. unfold wf_ff, all_lt, ff_inject1, add_scalar in *. cbn [table target].
    apply Forall_map. eapply Forall_impl; [|exact W]. simpl. intros x Hx. lia.
Qed.

Example C06_inj_ex :
  ff_inj0 2 3 = Ok (mkFF [0;1] 5) /\ ff_inj1 2 3 = Ok (mkFF [2;3;4] 5) /\
  wf_ff (mkFF [1;0;1] 2) /\
  ff_inject0 (mkFF [1;0;1] 2) 3 = mkFF [1;0;1] 5 /\ ff_inject1 (mkFF [1;0;1] 2) 3 = mkFF [4;3;4] 5.
Proof. repeat split; repeat constructor. Qed.

(* ================= C06_tensor ================= *)
Theorem C06_tensor f g :
  table (ff_tensor f g) = table f ++ map (fun x => x + target f) (table g) /\
  target (ff_tensor f g) = target f + target g /\
  ff_source (ff_tensor f g) = ff_source f + ff_source g /\
  (wf_ff f -> wf_ff g ->
     wf_ff (ff_tensor f g) /\
     exists i0 i1 fi gi,
       ff_inj0 (target f) (target g) = Ok i0 /\ ff_inj1 (target f) (target g) = Ok i1 /\
       ff_compose f i0 = Ok (Some fi) /\ ff_compose g i1 = Ok (Some gi) /\
       ff_coproduct fi gi = Some (ff_tensor f g)).
Proof.
  split; [reflexivity|]. split; [reflexivity|]. split.
  - unfold ff_source, ff_tensor, add_scalar. cbn [table]. rewrite app_length, map_length. reflexivity.
  - intros Wf Wg. split.
    + unfold wf_ff, all_lt, ff_tensor, add_scalar in *. cbn [table target]. apply Forall_app. split.
      * eapply Forall_impl; [|exact Wf]. simpl. intros x Hx. lia.
      * apply Forall_map. eapply Forall_impl; [|exact Wg]. simpl. intros x Hx. lia.
    + do 4 eexists. split; [apply ff_inj0_ok|]. split; [apply ff_inj1_ok|].
      split; [apply (compose_inj0 (target g) Wf)|]. split; [apply (compose_inj1 (target f) Wg)|].
      unfold ff_coproduct. cbn [table target]. rewrite Nat.eqb_refl. reflexivity.
Qed.

Example C06_tensor_ex :
  ff_tensor (mkFF [1;0] 2) (mkFF [2;2;1] 3) = mkFF [1;0;4;4;3] 5 /\
  wf_ff (mkFF [1;0] 2) /\ wf_ff (mkFF [2;2;1] 3).
Proof. repeat split; repeat constructor. Qed.

(* ================= C06_twist ================= *)
Lemma ff_twist_ok a b : ff_twist a b = Ok (mkFF (seq b a ++ seq 0 b) (a + b)).
Proof.
  unfold ff_twist. rewrite arange_ok by lia. cbn [bind]. rewrite arange_ok by lia. cbn [bind].
  replace (a + b - b) with a by lia. rewrite Nat.sub_0_r. reflexivity.
Qed.

Lemma wf_twist a b : wf_ff (mkFF (seq b a ++ seq 0 b) (a + b)).
Proof.
  apply all_lt_forall. cbn [table target]. intros x Hx. apply in_app_or in Hx.
  destruct Hx as [Hx|Hx]; apply in_seq in Hx; lia.
Qed.

Lemma NoDup_app_disj {A} (l1 l2 : list A) :
  NoDup l1 -> NoDup l2 -> (forall x, In x l1 -> ~ In x l2) -> NoDup (l1 ++ l2).
Proof.
  induction l1 as [|x l1 IH]; simpl; intros N1 N2 D; [exact N2|].
  inversion N1 as [|y l N1a N1b]; subst. constructor.
  - intros Hin. apply in_app_or in Hin. destruct Hin as [Hin|Hin]; [contradiction|].
    apply (D x); auto.
  - apply IH; auto.
Qed.

Theorem C06_twist a b :
  ff_twist a b = Ok (mkFF (seq b a ++ seq 0 b) (a + b)) /\
  wf_ff (mkFF (seq b a ++ seq 0 b) (a + b)) /\
  NoDup (seq b a ++ seq 0 b) /\
  exists tab tba, ff_twist a b = Ok tab /\ ff_twist b a = Ok tba /\
                  ff_compose tab tba = Ok (Some (idf (a + b))).
Proof.
  split; [apply ff_twist_ok|]. split; [apply wf_twist|]. split.
  - apply NoDup_app_disj; try apply seq_NoDup.
    intros x H1 H2. apply in_seq in H1, H2. lia.
  - do 2 eexists. split; [apply ff_twist_ok|]. split; [apply ff_twist_ok|].
    rewrite ff_compose_ok;
      [|apply wf_twist|unfold ff_source; cbn [table target]; rewrite app_length, !seq_length; lia].
    unfold app, idf. cbn [table target]. rewrite (Nat.add_comm b a). do 3 f_equal.
    apply nth_ext with (d := 0) (d' := 0).
    + rewrite map_length, app_length, !seq_length. lia.
    + intros i Hi. rewrite map_length, app_length, !seq_length in Hi.
      rewrite nth_map_lt with (d := 0) by (rewrite app_length, !seq_length; lia).
      rewrite seq_nth by lia. simpl.
      destruct (Nat.lt_ge_cases i a) as [L|L].
      * rewrite (app_nth1 (seq b a)) by (rewrite seq_length; lia). rewrite seq_nth by lia.
        rewrite app_nth2 by (rewrite seq_length; lia). rewrite seq_length, seq_nth by lia. lia.
      * rewrite (app_nth2 (seq b a)) by (rewrite seq_length; lia). rewrite seq_length, seq_nth by lia.
        rewrite app_nth1 by (rewrite seq_length; lia). rewrite seq_nth by lia. lia.
Qed.

Example C06_twist_ex :
  ff_twist 2 3 = Ok (mkFF [3;4;0;1;2] 5) /\ ff_twist 3 2 = Ok (mkFF [2;3;4;0;1] 5) /\
  ff_compose (mkFF [3;4;0;1;2] 5) (mkFF [2;3;4;0;1] 5) = Ok (Some (idf 5)).
Proof. repeat split. Qed.

(* ================= C06_is_injective ================= *)
Lemma count_occ_out n l v : all_lt n l -> n <= v -> count_occ Nat.eq_dec l v = 0.
Proof.
  intros W H. apply count_occ_not_In. intros Hin. rewrite all_lt_forall in W.
  specialize (W v Hin). lia.
Qed.

Theorem C06_is_injective f : wf_ff f ->
  exists b, ff_is_injective f = Ok b /\ (b = true <-> NoDup (table f)).
Proof.
  intros W. unfold wf_ff in W. unfold ff_is_injective, ff_source.
  destruct (length (table f) =? 0) eqn:E.
  - exists true. split; [reflexivity|]. split; [|reflexivity]. intros _.
    apply Nat.eqb_eq in E. destruct (table f); [constructor|discriminate].
  - rewrite bincount_ok by exact W. cbn [bind]. eexists. split; [reflexivity|].
    destruct (amax (bincount_pure (table f) (target f))) as [m|] eqn:A.
    + apply amax_some in A. destruct A as (Hin & Hle).
      rewrite Nat.leb_le. rewrite (NoDup_count_occ Nat.eq_dec). split.
      * intros Hm x. destruct (Nat.lt_ge_cases x (target f)) as [L|L].
           rewrite <- (nth_bincount_pure (table f) (n := target f)) by exact L.
           rewrite Forall_forall in Hle.
           assert (Hx : nth x (bincount_pure (table f) (target f)) 0 <= m).
           { apply Hle. apply nth_In. rewrite bincount_pure_length. exact L. }
           lia.
        -- rewrite (count_occ_out W L). lia.
      * intros H. unfold bincount_pure in Hin. apply in_map_iff in Hin.
        destruct Hin as (v & Hv & _). rewrite <- Hv. apply H.
    + apply amax_none in A. split; [|reflexivity]. intros _.
      assert (Z : target f = 0).
      { rewrite <- (bincount_pure_length (table f) (target f)), A. reflexivity. }
      destruct (table f) as [|x t]; [constructor|].
      inversion W as [|y l Hy Hl]; subst. lia.
Qed.

Example C06_is_injective_ex :
  wf_ff (mkFF [2;0;3] 4) /\ ff_is_injective (mkFF [2;0;3] 4) = Ok true /\
  wf_ff (mkFF [2;0;2] 4) /\ ff_is_injective (mkFF [2;0;2] 4) = Ok false.
Proof. repeat split; repeat constructor. Qed.

(* ================= back-end dependent part ================= *)
Lemma forallb_ltb n l : all_lt n l -> forallb (fun x => x <? n) l = true.
Proof.
  intros H. apply forallb_forall. intros x Hx. rewrite all_lt_forall in H.
  apply Nat.ltb_lt. apply H. exact Hx.
Qed.

Section WithB.
  Variable B : Backend.
  Hypothesis OK : BackendOK B.

  (* ================= C06_coequalizer ================= *)
  Theorem C06_coequalizer f g :
    (wf_ff f -> wf_ff g -> ff_source f = ff_source g -> target f = target g ->
       exists q, ff_coequalizer B f g = Ok (Some q) /\ ff_source q = target f /\ wf_ff q /\
         (forall j, j < target q -> In j (table q)) /\
         (forall x y, x < target f -> y < target f ->
            (app q x = app q y <-> conn (combine (table f) (table g)) x y))) /\
    (ff_source f <> ff_source g \/ target f <> target g -> ff_coequalizer B f g = Ok None).
  Proof.
    split.
    - intros Wf Wg Es Et. unfold ff_coequalizer. rewrite Es, Et, !Nat.eqb_refl. cbn [negb orb].
      unfold connected_components. unfold ff_source in Es. rewrite Es, Nat.eqb_refl. cbn [assert bind].
      unfold wf_ff in Wf, Wg. rewrite <- Et in *.
      rewrite (forallb_ltb Wf), (forallb_ltb Wg). cbn [andb assert bind].
      pose proof (@bk_cc B OK (table f) (table g) (target f) Es Wf Wg) as H. cbv zeta in H.
      destruct (b_conn_comp B (table f) (table g) (target f)) as [c k]. cbn [fst snd] in H.
      destruct H as (H1 & H2 & H3 & H4).
      exists (mkFF c k). split; [reflexivity|]. split; [exact H1|]. split; [exact H2|].
      split; [exact H3|]. intros x y Hx Hy. unfold app. cbn [table]. apply H4; assumption.
    - intros H. unfold ff_coequalizer.
      destruct H as [H|H]; apply Nat.eqb_neq in H; rewrite H; cbn [negb orb].
      + reflexivity.
      + rewrite orb_true_r. reflexivity.
  Qed.

  (* ================= C06_universal ================= *)
  Section Universal.
    Variable T : Type.
    Variable eqb : T -> T -> bool.
    Hypothesis eqb_spec : forall x y, eqb x y = true <-> x = y.

    Lemma list_eqb_true (a b : list T) : list_eqb eqb a b = true <-> a = b.
    Proof.
      revert b; induction a as [|x a IH]; intros [|y b]; simpl; split; intros H;
        try discriminate; try reflexivity.
      - apply andb_true_iff in H. destruct H as (H1 & H2).
        apply eqb_spec in H1. apply IH in H2. subst. reflexivity.
      - inversion H; subst. apply andb_true_iff. split; [apply eqb_spec; reflexivity|].
        apply IH. reflexivity.
    Qed.

    Lemma list_eqb_false (a b : list T) : length a = length b -> list_eqb eqb a b = false ->
      exists k, k < length a /\ nth_error a k <> nth_error b k.
    Proof.
      revert b; induction a as [|x a IH]; intros [|y b] HL H; simpl in *; try discriminate.
      destruct (eqb x y) eqn:E; simpl in H.
      - destruct (IH b ltac:(lia) H) as (k & Hk & Hne). exists (S k). split; [lia|exact Hne].
      - exists 0. split; [lia|]. simpl. intros Heq. inversion Heq as [Hxy].
        apply eqb_spec in Hxy. congruence.
    Qed.

    Variable q : ff.
    Variable u : list T.
    Hypothesis Wq : wf_ff q.
    Hypothesis Sq : forall j, j < target q -> In j (table q).

    (* the shape of the computation inside the precondition *)
    Lemma cu_core : length u = ff_source q ->
      exists y f',
        coequalizer_universal B eqb q u = Ok (if list_eqb eqb f' u then Some y else None) /\
        length y = target q /\ length f' = length u /\
        (forall i, i < length u -> nth_error f' i = nth_error y (app q i)) /\
        (forall j, j < target q ->
           exists i, i < length u /\ app q i = j /\ nth_error y j = nth_error u i).
    Proof.
      intros HL. unfold coequalizer_universal.
      replace (ff_source q =? length u) with true by (symmetry; apply Nat.eqb_eq; auto).
      cbn [negb].
      rewrite get_range_full. cbn [bind]. unfold ff_source in HL.
      destruct u as [|d u'] eqn:Eu.
      - (* corner case: q : 0 -> 0 *)
        simpl in HL. destruct (table q) as [|x t] eqn:Et; [|discriminate].
        assert (Z : target q = 0).
        { destruct (target q) as [|n] eqn:En; [reflexivity|]. exfalso. apply (Sq (j := 0)). lia. }
        rewrite (@bk_scatter_nil B OK). cbn [bind].
        unfold ff_compose_semi. rewrite Z. cbn [length Nat.eqb]. rewrite Et, get_range_full.
        cbn [bind gather mapM unwrap].
        exists [], []. split; [reflexivity|]. split; [reflexivity|]. split; [reflexivity|]. split.
        + intros i Hi. simpl in Hi. lia.
        + intros j Hj. lia.
      - rewrite <- Eu in *. assert (Hne : u <> []) by (rewrite Eu; discriminate).
        destruct (@bk_scatter B OK T u (table q) (target q) (eq_sym HL) Wq Hne)
          as (y & Hy & Hly & Hsc).
        rewrite Hy. cbn [bind].
        rewrite (ff_compose_semi_ok y d Wq (eq_sym Hly)). cbn [bind unwrap].
        exists y, (map (fun i => nth i y d) (table q)).
        split; [reflexivity|]. split; [exact Hly|]. split; [rewrite map_length; lia|]. split.
        + intros i Hi. rewrite nth_error_map.
          rewrite (nth_error_nth' (table q) 0) by lia. cbn [option_map]. fold (app q i).
          symmetry. apply nth_error_nth'. rewrite Hly. apply all_lt_nth; [exact Wq|lia].
        + intros j Hj. destruct (Hsc j (Sq Hj)) as (i & Hi1 & Hi2).
          exists i. split; [|split].
          * rewrite HL. apply nth_error_Some. congruence.
          * unfold app. apply nth_error_nth. exact Hi1.
          * exact Hi2.
    Qed.

    Theorem C06_universal_sec :
      (* (a) *)
      coequalizer_universal B eqb q u <> Panic /\ coequalizer_universal B eqb q u <> Fuel /\
      (* (b) *)
      (length u = ff_source q ->
       forall v, coequalizer_universal B eqb q u = Ok (Some v) <->
                 length v = target q /\
                 forall i, i < length u -> nth_error v (app q i) = nth_error u i) /\
      (* (c) *)
      (length u = ff_source q ->
       (coequalizer_universal B eqb q u = Ok None <->
        exists i j, i < length u /\ j < length u /\ app q i = app q j /\
                    nth_error u i <> nth_error u j)) /\
      (* (d) *)
      (length u <> ff_source q -> coequalizer_universal B eqb q u = Ok None).
    Proof.
      assert (D : length u <> ff_source q -> coequalizer_universal B eqb q u = Ok None).
      { intros H. unfold coequalizer_universal.
        assert (H' : ff_source q <> length u) by congruence.
        apply Nat.eqb_neq in H'. rewrite H'. reflexivity. }
      destruct (Nat.eq_dec (length u) (ff_source q)) as [HL|HL].
      2:{ rewrite (D HL). split; [discriminate|]. split; [discriminate|].
          split; [intros H; contradiction|]. split; [intros H; contradiction|]. auto. }
      destruct (cu_core HL) as (y & f' & Hres & Hly & Hlf & Hf & Hy).
      split; [|split; [|split; [|split]]].
      - rewrite Hres. discriminate.
      - rewrite Hres. discriminate.
      - intros _ v. rewrite Hres. split.
        + intros H. destruct (list_eqb eqb f' u) eqn:E; [|discriminate].
          apply list_eqb_true in E. inversion H; subst v. subst f'.
          split; [exact Hly|]. intros i Hi. symmetry. apply Hf. exact Hi.
        + intros (Hlv & Hv).
          assert (Eyv : y = v).
          { apply nth_error_ext; [lia|]. intros j Hj. rewrite Hly in Hj.
            destruct (Hy j Hj) as (i & Hi & Hij & Hyj).
            rewrite Hyj, <- (Hv i Hi), Hij. reflexivity. }
          assert (Efu : f' = u).
          { apply nth_error_ext; [exact Hlf|]. intros i Hi. rewrite Hlf in Hi.
            rewrite (Hf i Hi), Eyv. apply Hv. exact Hi. }
          apply list_eqb_true in Efu. rewrite Efu, Eyv. reflexivity.
      - intros _. rewrite Hres. split.
        + intros H. destruct (list_eqb eqb f' u) eqn:E; [discriminate|].
          destruct (list_eqb_false _ _ Hlf E) as (k & Hk & Hne). rewrite Hlf in Hk.
          assert (Hj : app q k < target q).
          { apply all_lt_nth; [exact Wq|]. unfold ff_source in HL. lia. }
          destruct (Hy _ Hj) as (i & Hi & Hij & Hyj).
          exists i, k. split; [exact Hi|]. split; [exact Hk|]. split; [exact Hij|].
          rewrite <- Hyj, <- (Hf k Hk). exact Hne.
        + intros (i & j & Hi & Hj & Hij & Hne).
          destruct (list_eqb eqb f' u) eqn:E; [|reflexivity].
          apply list_eqb_true in E. subst f'. exfalso. apply Hne.
          rewrite (Hf i Hi), (Hf j Hj), Hij. reflexivity.
      - exact D.
    Qed.
  End Universal.

  Theorem C06_universal (T : Type) (eqb : T -> T -> bool) (q : ff) (u : list T) :
    (forall x y, eqb x y = true <-> x = y) ->
    wf_ff q -> (forall j, j < target q -> In j (table q)) ->
    coequalizer_universal B eqb q u <> Panic /\ coequalizer_universal B eqb q u <> Fuel /\
    (length u = ff_source q ->
     forall v, coequalizer_universal B eqb q u = Ok (Some v) <->
               length v = target q /\
               forall i, i < length u -> nth_error v (app q i) = nth_error u i) /\
    (length u = ff_source q ->
     (coequalizer_universal B eqb q u = Ok None <->
      exists i j, i < length u /\ j < length u /\ app q i = app q j /\
                  nth_error u i <> nth_error u j)) /\
    (length u <> ff_source q -> coequalizer_universal B eqb q u = Ok None).
  Proof. intros H1 H2 H3. apply C06_universal_sec; assumption. Qed.
End WithB.

Example C06_coequalizer_ex :
  wf_ff (mkFF [0;1;3] 5) /\ wf_ff (mkFF [1;2;4] 5) /\
  ff_coequalizer VecBackend (mkFF [0;1;3] 5) (mkFF [1;2;4] 5) = Ok (Some (mkFF [0;0;0;1;1] 2)) /\
  ff_coequalizer VecBackend (mkFF [0;1;3] 5) (mkFF [1;2] 5) = Ok None.
Proof. repeat split; repeat constructor. Qed.

(* the hypotheses of C06_universal are satisfiable; outside the surjectivity hypothesis the
   "by construction" expect() does panic (q : 0 -> 1 is not surjective) *)
Example C06_universal_ex :
  wf_ff (mkFF [0;0;0;1;1] 2) /\ (forall j, j < 2 -> In j [0;0;0;1;1]) /\
  coequalizer_universal VecBackend Nat.eqb (mkFF [0;0;0;1;1] 2) [7;7;7;9;9] = Ok (Some [7;9]) /\
  coequalizer_universal VecBackend Nat.eqb (mkFF [0;0;0;1;1] 2) [7;7;8;9;9] = Ok None /\
  coequalizer_universal VecBackend Nat.eqb (mkFF [0;0;0;1;1] 2) [7;7;7;9] = Ok None /\
  coequalizer_universal VecBackend Nat.eqb (mkFF [] 0) [] = Ok (Some []) /\
  coequalizer_universal VecBackend Nat.eqb (mkFF [] 1) [] = Panic.
Proof.
  split; [repeat constructor|]. split.
  - intros j Hj. destruct j as [|[|j]]; simpl; auto. lia.
  - repeat split.
Qed.

(* ================= C06_cumulative_sum ================= *)
Definition prefix_sums (l : list nat) : list nat :=
  map (fun i => list_sum (firstn i l)) (seq 0 (length l)).

Lemma nth_firstn_lt {A} (l : list A) : forall n i d, i < n -> nth i (firstn n l) d = nth i l d.
Proof.
  induction l as [|x l IH]; intros [|n] [|i] d H; simpl; try lia; auto.
  apply IH. lia.
Qed.

Lemma firstn_cumsum l : firstn (length l) (cumulative_sum l) = prefix_sums l.
Proof.
  apply nth_ext with (d := 0) (d' := 0).
  - unfold prefix_sums. rewrite firstn_length, cumulative_sum_length, map_length, seq_length. lia.
  - intros i Hi. rewrite firstn_length, cumulative_sum_length in Hi.
    rewrite nth_firstn_lt by lia. rewrite nth_cumulative_sum by lia.
    unfold prefix_sums. rewrite (nth_map_seq (fun i => list_sum (firstn i l))) by lia. reflexivity.
Qed.

Lemma get_range_to {A} (xs : list A) n : n <= length xs -> get_range xs (RTo n) = Ok (firstn n xs).
Proof.
  intros H. unfold get_range, to_range. rewrite slice_ok by lia.
  rewrite Nat.sub_0_r. reflexivity.
Qed.

Lemma ff_cumulative_sum_ok f :
  ff_cumulative_sum f = Ok (mkFF (prefix_sums (table f)) (list_sum (table f))).
Proof.
  unfold ff_cumulative_sum, ff_source.
  rewrite (get_ok _ 0) by (rewrite cumulative_sum_length; lia). cbn [bind].
  rewrite get_range_to by (rewrite cumulative_sum_length; lia). cbn [bind].
  rewrite nth_cumulative_sum by lia. rewrite firstn_all, firstn_cumsum. reflexivity.
Qed.

Lemma list_sum_firstn_le l i : list_sum (firstn i l) <= list_sum l.
Proof.
  revert i; induction l as [|x l IH]; intros [|i]; simpl; try lia. specialize (IH i). lia.
Qed.

Theorem C06_cumulative_sum f :
  exists g, ff_cumulative_sum f = Ok g /\
    table g = prefix_sums (table f) /\ ff_source g = ff_source f /\
    target g = list_sum (table f) /\
    (forall i, i < ff_source f -> app g i = list_sum (firstn i (table f))) /\
    Forall (fun x => x <= target g) (table g).
Proof.
  eexists. split; [apply ff_cumulative_sum_ok|]. unfold ff_source, app. cbn [table target].
  split; [reflexivity|]. split; [unfold prefix_sums; rewrite map_length, seq_length; reflexivity|].
  split; [reflexivity|]. split.
  - intros i Hi. unfold prefix_sums.
    rewrite (nth_map_seq (fun i => list_sum (firstn i (table f)))) by exact Hi. reflexivity.
  - unfold prefix_sums. apply Forall_map. apply Forall_forall. intros i _.
    apply list_sum_firstn_le.
Qed.

(* the result need not be a well-formed finite function: a table of zeros has sum 0 *)
Example C06_cumulative_sum_ex :
  ff_cumulative_sum (mkFF [3;0;1;4] 5) = Ok (mkFF [0;3;3;4] 8) /\
  ff_cumulative_sum (mkFF [] 5) = Ok (mkFF [] 0) /\
  wf_ff (mkFF [0;0] 1) /\ ff_cumulative_sum (mkFF [0;0] 1) = Ok (mkFF [0;0] 0) /\
  ~ wf_ff (mkFF [0;0] 0).
Proof.
  repeat split; try (repeat constructor).
  intros H. inversion H as [|x l Hx Hl]. cbn [target] in Hx. lia.
Qed.

(* ================= C06_injections ================= *)
Lemma length_flat_rep ks : forall vs : list nat, length ks = length vs ->
  length (flat_map (fun p => repeat (snd p) (fst p)) (combine ks vs)) = list_sum ks.
Proof.
  induction ks as [|k ks IH]; intros [|v vs] H; simpl in *; try discriminate; auto.
  rewrite app_length, repeat_length, IH by lia. reflexivity.
Qed.

Lemma length_flat_seq ks : length (flat_map (seq 0) ks) = list_sum ks.
Proof.
  induction ks as [|k ks IH]; simpl; auto. rewrite app_length, seq_length, IH. reflexivity.
Qed.

Lemma sub_seq_repeat a k : forall j,
  mapM (fun p => sub_chk (fst p) (snd p)) (combine (seq (a + j) k) (repeat a k)) = Ok (seq j k).
Proof.
  induction k as [|k IH]; intros j; simpl; [reflexivity|].
  unfold sub_chk at 1. replace (a <=? a + j) with true by (symmetry; apply Nat.leb_le; lia).
  cbn [bind]. replace (S (a + j)) with (a + S j) by lia. rewrite IH. cbn [bind].
  replace (a + j - a) with j by lia. reflexivity.
Qed.

Lemma seg_sub sizes : forall a,
  mapM (fun p => sub_chk (fst p) (snd p))
       (combine (seq a (list_sum sizes))
                (flat_map (fun p => repeat (snd p) (fst p))
                          (combine sizes (firstn (length sizes) (cumsum_from a sizes)))))
  = Ok (flat_map (seq 0) sizes).
Proof.
  induction sizes as [|k rest IH]; intros a.
  - reflexivity.
  - cbn [list_sum cumsum_from length firstn combine flat_map fst snd].
    change (list_sum (k :: rest)) with (k + list_sum rest).
    rewrite seq_app. rewrite combine_app_eq by (rewrite seq_length, repeat_length; reflexivity).
    apply mapM_app.
    + pose proof (sub_seq_repeat a k 0) as H. rewrite Nat.add_0_r in H. exact H.
    + apply IH.
Qed.

Lemma segmented_arange_ok sizes : segmented_arange sizes = Ok (flat_map (seq 0) sizes).
Proof.
  unfold segmented_arange. rewrite cumulative_sum_length.
  unfold sub_chk at 1. cbn [Nat.leb bind]. replace (S (length sizes) - 1) with (length sizes) by lia.
  rewrite (get_ok _ 0) by (rewrite cumulative_sum_length; lia). cbn [bind].
  rewrite get_range_to by (rewrite cumulative_sum_length; lia). cbn [bind].
  rewrite nth_cumulative_sum by lia. rewrite firstn_all.
  assert (HL : length sizes = length (firstn (length sizes) (cumulative_sum sizes))).
  { rewrite firstn_length, cumulative_sum_length. lia. }
  rewrite arepeat_ok by exact HL. cbn [bind].
  rewrite arange_ok by lia. cbn [bind]. rewrite Nat.sub_0_r.
  unfold asub. rewrite seq_length, length_flat_rep by exact HL. rewrite Nat.eqb_refl. cbn [assert bind].
  apply seg_sub.
Qed.

Lemma add_seq_repeat v k : forall j,
  map (fun p => fst p + snd p) (combine (seq j k) (repeat v k)) = seq (j + v) k.
Proof.
  induction k as [|k IH]; intros j; simpl; [reflexivity|]. rewrite IH. reflexivity.
Qed.

Lemma add_blocks {A} (sz off : A -> nat) (l : list A) :
  map (fun p => fst p + snd p)
      (combine (flat_map (seq 0) (map sz l))
               (flat_map (fun p => repeat (snd p) (fst p)) (combine (map sz l) (map off l))))
  = flat_map (fun x => seq (off x) (sz x)) l.
Proof.
  induction l as [|x l IH]; [reflexivity|].
  cbn [map combine flat_map fst snd].
  rewrite combine_app_eq by (rewrite seq_length, repeat_length; reflexivity).
  rewrite map_app, IH, add_seq_repeat. reflexivity.
Qed.

Theorem C06_injections s a :
  (wf_ff a -> target a = ff_source s ->
     exists r, ff_injections s a = Ok (Some r) /\
       table r = flat_map (fun x => seq (list_sum (firstn x (table s))) (nth x (table s) 0)) (table a) /\
       target r = list_sum (table s)) /\
  (target a <> ff_source s -> ff_injections s a = Ok None).
Proof.
  split.
  - intros W E. unfold ff_injections. rewrite (ff_compose_ok s W E). cbn [bind table].
    rewrite segmented_arange_ok. cbn [bind]. rewrite get_range_full. cbn [bind].
    unfold wf_ff in W. rewrite E in W. unfold ff_source in W.
    rewrite (gather_ok (cumulative_sum (table s)) 0).
    2:{ eapply Forall_impl; [|exact W]. simpl. intros x Hx. rewrite cumulative_sum_length. lia. }
    cbn [bind]. rewrite get_range_full. cbn [bind].
    rewrite arepeat_ok by (rewrite !map_length; reflexivity). cbn [bind].
    rewrite aadd_ok by (rewrite length_flat_seq, length_flat_rep by (rewrite !map_length; reflexivity);
                        reflexivity).
    cbn [bind]. rewrite cumulative_sum_length.
    unfold sub_chk. cbn [Nat.leb bind]. replace (S (length (table s)) - 1) with (length (table s)) by lia.
    rewrite (get_ok _ 0) by (rewrite cumulative_sum_length; lia). cbn [bind].
    rewrite nth_cumulative_sum by lia. rewrite firstn_all.
    eexists. split; [reflexivity|]. cbn [table target]. split; [|reflexivity].
    rewrite add_blocks. unfold app.
    rewrite all_lt_forall in W.
    induction (table a) as [|x l IH]; [reflexivity|]. cbn [flat_map].
    rewrite nth_cumulative_sum by (specialize (W x (or_introl eq_refl)); lia).
    rewrite IH by (intros y Hy; apply W; right; exact Hy). reflexivity.
  - intros E. unfold ff_injections. rewrite (ff_compose_none a s E). reflexivity.
Qed.

Example C06_injections_ex :
  wf_ff (mkFF [2;0;2] 3) /\
  ff_injections (mkFF [2;1;3] 4) (mkFF [2;0;2] 3) = Ok (Some (mkFF [3;4;5;0;1;3;4;5] 6)) /\
  ff_injections (mkFF [2;1;3] 4) (mkFF [2;0;2] 4) = Ok None.
Proof. repeat split; repeat constructor. Qed.

(* ================= C06_transpose ================= *)
Definition tr_fun (a b i : nat) : nat := (i mod a) * b + i / a.

Lemma ff_transpose_ok a b : a > 0 ->
  ff_transpose a b = Ok (mkFF (map (tr_fun a b) (seq 0 (b * a))) (b * a)).
Proof.
  intros Ha. unfold ff_transpose.
  destruct (a =? 0) eqn:E; [apply Nat.eqb_eq in E; lia|].
  cbv zeta. rewrite arange_ok by lia. cbn [bind]. rewrite Nat.sub_0_r.
  unfold quot_rem. rewrite E. cbn [negb assert bind].
  unfold mul_constant_add. rewrite !map_length, Nat.eqb_refl. cbn [assert bind].
  rewrite combine_map_map, map_map. reflexivity.
Qed.

Lemma tr_fun_lt a b i : i < b * a -> tr_fun a b i < b * a.
Proof.
  intros Hi. assert (Ha : a <> 0) by (intros ->; lia).
  pose proof (Nat.mod_upper_bound i a Ha) as Hm.
  assert (Hd : i / a < b) by (apply Nat.div_lt_upper_bound; [exact Ha|lia]).
  unfold tr_fun. nia.
Qed.

Lemma tr_fun_inj a b i j : i < b * a -> j < b * a -> tr_fun a b i = tr_fun a b j -> i = j.
Proof.
  intros Hi Hj E. assert (Ha : a <> 0) by (intros ->; lia).
  assert (Hdi : i / a < b) by (apply Nat.div_lt_upper_bound; [exact Ha|lia]).
  assert (Hdj : j / a < b) by (apply Nat.div_lt_upper_bound; [exact Ha|lia]).
  unfold tr_fun in E.
  destruct (Nat.div_mod_unique b (i mod a) (j mod a) (i / a) (j / a) Hdi Hdj) as (E1 & E2); [lia|].
  rewrite (Nat.div_mod i a Ha), (Nat.div_mod j a Ha), E1, E2. reflexivity.
Qed.

Lemma NoDup_map_inj_on {A C} (F : A -> C) l :
  (forall x y, In x l -> In y l -> F x = F y -> x = y) -> NoDup l -> NoDup (map F l).
Proof.
  induction l as [|x l IH]; simpl; intros Hinj N; [constructor|].
  inversion N as [|y l' Hx Hl]; subst. constructor.
  - intros Hin. apply in_map_iff in Hin. destruct Hin as (z & Hz & Hzin).
    assert (z = x) by (apply Hinj; auto). subst z. contradiction.
  - apply IH; [|exact Hl]. intros y z Hy Hz. apply Hinj; auto.
Qed.

Theorem C06_transpose a b :
  (a > 0 -> exists f, ff_transpose a b = Ok f /\
     target f = b * a /\ length (table f) = b * a /\
     (forall i, i < b * a -> app f i = (i mod a) * b + i / a) /\
     wf_ff f /\ NoDup (table f) /\ Permutation (table f) (seq 0 (b * a))) /\
  ff_transpose 0 b = Ok (ff_initial 0).
Proof.
  split; [|reflexivity]. intros Ha. eexists. split; [apply (ff_transpose_ok b Ha)|].
  unfold app, wf_ff. cbn [table target].
  assert (W : all_lt (b * a) (map (tr_fun a b) (seq 0 (b * a)))).
  { apply Forall_map. apply Forall_forall. intros i Hi. apply in_seq in Hi. apply tr_fun_lt. lia. }
  assert (N : NoDup (map (tr_fun a b) (seq 0 (b * a)))).
  { apply NoDup_map_inj_on; [|apply seq_NoDup]. intros i j Hi Hj. apply in_seq in Hi, Hj.
    apply tr_fun_inj; lia. }
  split; [reflexivity|]. split; [rewrite map_length, seq_length; reflexivity|]. split.
  - intros i Hi. rewrite (nth_map_seq (tr_fun a b)) by exact Hi. reflexivity.
  - split; [exact W|]. split; [exact N|].
    apply NoDup_Permutation_bis; [exact N|rewrite map_length, !seq_length; lia|].
    intros x Hx. rewrite all_lt_forall in W. apply in_seq. specialize (W x Hx). lia.
Qed.

Example C06_transpose_ex :
  ff_transpose 2 3 = Ok (mkFF [0;3;1;4;2;5] 6) /\ ff_transpose 3 2 = Ok (mkFF [0;2;4;1;3;5] 6) /\
  ff_transpose 0 5 = Ok (mkFF [] 0).
Proof. repeat split. Qed.

(* ================= C06_compose_assoc ================= *)
Theorem C06_compose_assoc f g h :
  wf_ff f -> wf_ff g -> target f = ff_source g -> target g = ff_source h ->
  exists fg gh r,
    ff_compose f g = Ok (Some fg) /\ ff_compose g h = Ok (Some gh) /\
    ff_compose fg h = Ok (Some r) /\ ff_compose f gh = Ok (Some r) /\
    r = mkFF (map (fun i => app h (app g i)) (table f)) (target h).
Proof.
  intros Wf Wg Efg Egh. do 3 eexists.
  split; [apply (ff_compose_ok g Wf Efg)|]. split; [apply (ff_compose_ok h Wg Egh)|].
  split; [|split].
  - rewrite ff_compose_ok; [|apply wf_compose; assumption|exact Egh].
    cbn [table target]. rewrite map_map. reflexivity.
  - rewrite ff_compose_ok; [|exact Wf|unfold ff_source; cbn [table]; rewrite map_length; exact Efg].
    cbn [table target]. do 3 f_equal. apply map_ext_in. intros x Hx.
    unfold wf_ff in Wf. rewrite all_lt_forall in Wf. specialize (Wf x Hx).
    unfold app at 1. cbn [table]. apply nth_map_lt. unfold ff_source in Efg. lia.
  - reflexivity.
Qed.

Example C06_compose_assoc_ex :
  wf_ff (mkFF [1;1;0] 2) /\ wf_ff (mkFF [2;0] 3) /\
  ff_compose (mkFF [1;1;0] 2) (mkFF [2;0] 3) = Ok (Some (mkFF [0;0;2] 3)) /\
  ff_compose (mkFF [2;0] 3) (mkFF [5;6;7] 9) = Ok (Some (mkFF [7;5] 9)) /\
  ff_compose (mkFF [0;0;2] 3) (mkFF [5;6;7] 9) = Ok (Some (mkFF [5;5;7] 9)) /\
  ff_compose (mkFF [1;1;0] 2) (mkFF [7;5] 9) = Ok (Some (mkFF [5;5;7] 9)).
Proof. repeat split; repeat constructor. Qed.

(* ================= C06_sfa ================= *)
Theorem C06_sfa (T : Type) :
  (* source / target: None is the object "Set", Some n the finite object n *)
  (forall f, sf_source (@SFFinite T f) = Some (ff_source f) /\ sf_target (@SFFinite T f) = Some (target f)) /\
  (forall u : list T, sf_source (SFSemi u) = Some (length u) /\ sf_target (SFSemi u) = None) /\
  (sf_source (@SFIdentity T) = None /\ sf_target (@SFIdentity T) = None) /\
  (* identity *)
  (forall a, @sf_identity T (Some a) = Ok (SFFinite (idf a))) /\
  @sf_identity T None = Ok SFIdentity /\
  (forall o, exists i, @sf_identity T o = Ok i /\ sf_source i = o /\ sf_target i = o) /\
  (* compose: only a finite left operand composes *)
  (forall f g, wf_ff f ->
     (forall k, sf_compose (@SFFinite T f) (SFFinite g) = Ok (Some k) <->
                target f = ff_source g /\ k = SFFinite (mkFF (map (app g) (table f)) (target g))) /\
     (sf_compose (@SFFinite T f) (SFFinite g) = Ok None <-> target f <> ff_source g)) /\
  (forall f (u : list T) d, wf_ff f ->
     (forall k, sf_compose (SFFinite f) (SFSemi u) = Ok (Some k) <->
                target f = length u /\ k = SFSemi (map (fun i => nth i u d) (table f))) /\
     (sf_compose (SFFinite f) (SFSemi u) = Ok None <-> target f <> length u)) /\
  (forall f, sf_compose (@SFFinite T f) SFIdentity = Ok None) /\
  (forall b : sf_arrow T, sf_compose SFIdentity b = Ok None) /\
  (forall (u : list T) b, sf_compose (SFSemi u) b = Ok None) /\
  (* summary: for a well-formed finite left operand the composite is defined exactly when the
     objects match, and then has the expected source and target; never a panic *)
  (forall f (b : sf_arrow T), wf_ff f ->
     (exists k, sf_compose (SFFinite f) b = Ok (Some k) /\
                sf_source k = Some (ff_source f) /\ sf_target k = sf_target b) \/
     (sf_compose (SFFinite f) b = Ok None /\ sf_target (@SFFinite T f) <> sf_source b)).
Proof.
  split; [intros f; split; reflexivity|]. split; [intros u; split; reflexivity|].
  split; [split; reflexivity|].
  split; [intros a; unfold sf_identity; rewrite ff_identity_ok; reflexivity|].
  split; [reflexivity|]. split.
  { intros [a|].
    - eexists. unfold sf_identity. rewrite ff_identity_ok. cbn [bind]. split; [reflexivity|].
      unfold sf_source, sf_target, ff_source, idf. cbn [table target]. rewrite seq_length.
      split; reflexivity.
    - eexists. split; [reflexivity|]. split; reflexivity. }
  split.
  { intros f g W. unfold sf_compose.
    destruct (Nat.eq_dec (target f) (ff_source g)) as [E|E].
    - rewrite (ff_compose_ok g W E). cbn [bind option_map]. split.
      + intros k. split.
        * intros H. inversion H. split; [exact E|reflexivity].
        * intros (_ & ->). reflexivity.
      + split; [discriminate|]. intros H. contradiction.
    - rewrite (ff_compose_none f g E). cbn [bind option_map]. split.
      + intros k. split; [discriminate|]. intros (H & _). contradiction.
      + split; auto. }
  split.
  { intros f u d W. unfold sf_compose.
    destruct (Nat.eq_dec (target f) (length u)) as [E|E].
    - rewrite (ff_compose_semi_ok u d W E). cbn [bind option_map]. split.
      + intros k. split.
        * intros H. inversion H. split; [exact E|reflexivity].
        * intros (_ & ->). reflexivity.
      + split; [discriminate|]. intros H. contradiction.
    - rewrite (ff_compose_semi_none f u E). cbn [bind option_map]. split.
      + intros k. split; [discriminate|]. intros (H & _). contradiction.
      + split; auto. }
  split; [reflexivity|]. split; [reflexivity|]. split; [reflexivity|].
  intros f b W. destruct b as [|g|u]; unfold sf_compose.
  - right. split; [reflexivity|discriminate].
  - destruct (Nat.eq_dec (target f) (ff_source g)) as [E|E].
    + left. rewrite (ff_compose_ok g W E). cbn [bind option_map]. eexists. split; [reflexivity|].
      unfold sf_source, sf_target, ff_source. cbn [table target]. rewrite map_length. split; reflexivity.
    + right. rewrite (ff_compose_none f g E). split; [reflexivity|].
      unfold sf_source, sf_target. congruence.
  - destruct (Nat.eq_dec (target f) (length u)) as [E|E].
    + left. destruct u as [|d u'] eqn:Eu.
      * unfold ff_compose_semi. rewrite E, get_range_full. cbn [length Nat.eqb bind].
        unfold wf_ff in W. rewrite E in W.
        destruct (table f) as [|x t] eqn:Et; [|inversion W as [|y l Hy Hl]; simpl in Hy; lia].
        cbn [gather mapM bind option_map]. eexists. split; [reflexivity|].
        unfold sf_source, sf_target, ff_source. rewrite Et. split; reflexivity.
      * rewrite <- Eu in *. rewrite (ff_compose_semi_ok u d W E). cbn [bind option_map].
        eexists. split; [reflexivity|].
        unfold sf_source, sf_target, ff_source. rewrite map_length. split; reflexivity.
    + right. rewrite (ff_compose_semi_none f u E). split; [reflexivity|].
      unfold sf_source, sf_target. congruence.
Qed.

Example C06_sfa_ex :
  wf_ff (mkFF [1;1;0] 2) /\
  sf_compose (SFFinite (mkFF [1;1;0] 2)) (SFSemi [true;false]) = Ok (Some (SFSemi [false;false;true])) /\
  sf_compose (@SFFinite bool (mkFF [1;1;0] 2)) (SFFinite (mkFF [4;2] 5)) = Ok (Some (SFFinite (mkFF [2;2;4] 5))) /\
  sf_compose (SFSemi [true;false]) SFIdentity = Ok None /\
  @sf_identity bool (Some 2) = Ok (SFFinite (mkFF [0;1] 2)).
Proof. repeat split; repeat constructor. Qed.

(* ================= the method form of the universal property ================= *)
Lemma nth_of_nth_error_eq {A} (l l' : list A) i j d :
  nth_error l i = nth_error l' j -> nth i l d = nth j l' d.
Proof.
  intros H. destruct (nth_error l i) as [x|] eqn:E1; symmetry in H.
  - rewrite (nth_error_nth _ _ d E1), (nth_error_nth _ _ d H). reflexivity.
  - apply nth_error_None in E1, H. rewrite !nth_overflow by assumption. reflexivity.
Qed.

Section WithB2.
  Variable B : Backend.
  Hypothesis OK : BackendOK B.

  (* for a surjection q and f with the same source: the method returns h exactly when h is the
     (unique) finite function B/~ -> target f with q ; h = f *)
  Theorem C06_universal_ff q f :
    wf_ff q -> (forall j, j < target q -> In j (table q)) -> ff_source f = ff_source q ->
    (forall h, ff_coequalizer_universal B q f = Ok (Some h) <->
               ff_source h = target q /\ target h = target f /\ ff_compose q h = Ok (Some f)) /\
    ff_coequalizer_universal B q f <> Panic /\ ff_coequalizer_universal B q f <> Fuel.
  Proof.
    intros Wq Sq HL.
    destruct (@C06_universal B OK nat Nat.eqb q (table f) Nat.eqb_eq Wq Sq)
      as (Hp & Hf & Hb & _ & _).
    specialize (Hb HL).
    assert (Back : forall h, ff_source h = target q -> target h = target f ->
              ff_compose q h = Ok (Some f) ->
              coequalizer_universal B Nat.eqb q (table f) = Ok (Some (table h))).
    { intros h Hs Ht Hc. destruct (C06_compose h Wq) as (Hc1 & _).
      apply Hc1 in Hc. destruct Hc as (_ & Hfeq).
      apply Hb. split; [exact Hs|]. intros i Hi. rewrite Hfeq. cbn [table].
      rewrite Hfeq in Hi. cbn [table] in Hi. rewrite map_length in Hi.
      rewrite nth_error_map, (nth_error_nth' (table q) 0) by exact Hi. cbn [option_map].
      fold (app q i). apply nth_error_nth'. unfold ff_source in Hs. rewrite Hs.
      apply all_lt_nth; [exact Wq|exact Hi]. }
    unfold ff_coequalizer_universal.
    destruct (coequalizer_universal B Nat.eqb q (table f)) as [[v|]| |] eqn:R; cbn [bind option_map].
    - destruct (proj1 (Hb v) eq_refl) as (Hlv & Hv).
      split; [|split; discriminate]. intros h. split.
      + intros H. inversion H as [Hh]. unfold ff_source. cbn [table target].
        split; [exact Hlv|]. split; [reflexivity|].
        rewrite ff_compose_ok; [|exact Wq|unfold ff_source; cbn [table]; lia].
        destruct f as [tf nf]. unfold ff_source in HL. cbn [table target] in *. do 3 f_equal.
        apply nth_ext with (d := 0) (d' := 0); [rewrite map_length; lia|].
        intros i Hi. rewrite map_length in Hi.
        rewrite nth_map_lt with (d := 0) by exact Hi. unfold app at 1. cbn [table].
        apply nth_of_nth_error_eq. apply Hv. lia.
      + intros (Hs & Ht & Hc). pose proof (Back h Hs Ht Hc) as E. inversion E as [Ev].
        destruct h as [th nh]. cbn [table target] in *. subst. reflexivity.
    - split; [|split; discriminate]. intros h. split; [discriminate|].
      intros (Hs & Ht & Hc). pose proof (Back h Hs Ht Hc) as E. discriminate.
    - exfalso. apply Hp. reflexivity.
    - exfalso. apply Hf. reflexivity.
  Qed.
End WithB2.

Example C06_universal_ff_ex :
  ff_coequalizer_universal VecBackend (mkFF [0;0;0;1;1] 2) (mkFF [3;3;3;1;1] 4) = Ok (Some (mkFF [3;1] 4)) /\
  ff_compose (mkFF [0;0;0;1;1] 2) (mkFF [3;1] 4) = Ok (Some (mkFF [3;3;3;1;1] 4)).
Proof. repeat split. Qed.
