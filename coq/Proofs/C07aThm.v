(* C07a: the derived (default-method) array primitives meet their scalar meaning, and the two
   concrete back-ends (Vec, adversarial) meet the documented contract [BackendOK] for
   argsort, sparse_bincount and scatter (the connected-components field is a hypothesis of the
   two assembly lemmas at the end of part B). *)
From OHG Require Import Model.Prims Spec.Backend Spec.Plain Proofs.PrimsThm.
From Coq Require Import Permutation Sorted.

Set Implicit Arguments.

#[local] Arguments Nat.sub : simpl never.
#[local] Arguments Nat.div : simpl never.
#[local] Arguments Nat.modulo : simpl never.

(* ====================================================================================== *)
(* Part B.1  argsort                                                                       *)
(* ====================================================================================== *)

(* the insertion step shared by [vec_argsort] and [adv_argsort], named *)
Definition ins (xs : list nat) (i : nat) : list nat -> list nat :=
  fix ins (l : list nat) : list nat :=
    match l with
    | [] => [i]
    | j :: l' => if nth i xs 0 <=? nth j xs 0 then i :: l else j :: ins l'
    end.

Lemma ins_nil xs i : ins xs i [] = [i].
Proof. reflexivity. Qed.

Lemma ins_cons xs i j l :
  ins xs i (j :: l) = if nth i xs 0 <=? nth j xs 0 then i :: j :: l else j :: ins xs i l.
Proof. reflexivity. Qed.

Lemma vec_argsort_eq xs : vec_argsort xs = fold_right (ins xs) [] (seq 0 (length xs)).
Proof. reflexivity. Qed.

Lemma adv_argsort_eq xs :
  adv_argsort xs = fold_left (fun acc i => ins xs i acc) (seq 0 (length xs)) [].
Proof. reflexivity. Qed.

Lemma ins_perm xs i l : Permutation (ins xs i l) (i :: l).
Proof.
  induction l as [|j l IH]; [rewrite ins_nil|rewrite ins_cons].
  - apply Permutation_refl.
  - destruct (nth i xs 0 <=? nth j xs 0).
    + apply Permutation_refl.
    + eapply Permutation_trans. apply perm_skip. exact IH. apply perm_swap.
Qed.

Section InsSorted.
  Variable xs : list nat.
  (* tie-break relation on indices with equal keys *)
  Variable P : nat -> nat -> Prop.

  Definition key_lt (i j : nat) : Prop :=
    nth i xs 0 < nth j xs 0 \/ (nth i xs 0 = nth j xs 0 /\ P i j).

  Lemma ins_sorted i l :
    StronglySorted key_lt l -> Forall (P i) l -> StronglySorted key_lt (ins xs i l).
  Proof.
    induction l as [|j l IH]; intros HS HP; [rewrite ins_nil|rewrite ins_cons].
    - constructor; constructor.
    - apply StronglySorted_inv in HS. destruct HS as [HS Hj].
      inversion HP as [|j' l' HPj HPl]; subst.
      destruct (nth i xs 0 <=? nth j xs 0) eqn:E.
      + apply Nat.leb_le in E. constructor.
        * constructor; assumption.
        * constructor.
          -- unfold key_lt. destruct (Nat.eq_dec (nth i xs 0) (nth j xs 0)) as [Heq|Hne].
             right; split; assumption. left; lia.
          -- rewrite Forall_forall in *. intros m Hm.
             specialize (Hj m Hm). specialize (HPl m Hm). unfold key_lt in *.
             destruct Hj as [Hlt|[Heq _]].
             left; lia.
             destruct (Nat.eq_dec (nth i xs 0) (nth j xs 0)) as [Heq2|Hne].
             right; split; [congruence|assumption]. left; lia.
      + apply Nat.leb_gt in E. constructor.
        * apply IH; assumption.
        * eapply Permutation_Forall. apply Permutation_sym. apply ins_perm.
          constructor. left; exact E. exact Hj.
  Qed.

  Lemma key_lt_sorted_le l :
    StronglySorted key_lt l -> StronglySorted le (map (fun i => nth i xs 0) l).
  Proof.
    induction 1 as [|j l HS IH Hj]; cbn [map]; constructor; auto.
    rewrite Forall_map. eapply Forall_impl. 2: exact Hj.
    intros m Hm. cbv beta. unfold key_lt in Hm. lia.
  Qed.

  Lemma key_lt_sorted_tie l :
    StronglySorted key_lt l -> StronglySorted (fun i j => nth i xs 0 = nth j xs 0 -> P i j) l.
  Proof.
    induction 1 as [|j l HS IH Hj]; constructor; auto.
    eapply Forall_impl. 2: exact Hj.
    intros m Hm Heq. unfold key_lt in Hm. destruct Hm as [Hlt|[_ HP]]. lia. exact HP.
  Qed.
End InsSorted.

(* ---- Vec ---- *)
Lemma fold_right_ins_perm xs l : Permutation (fold_right (ins xs) [] l) l.
Proof.
  induction l as [|i l IH]; cbn [fold_right].
  - apply Permutation_refl.
  - eapply Permutation_trans. apply ins_perm. apply perm_skip. exact IH.
Qed.

Theorem vec_argsort_perm xs : Permutation (vec_argsort xs) (seq 0 (length xs)).
Proof. rewrite vec_argsort_eq. apply fold_right_ins_perm. Qed.

Lemma fold_right_ins_sorted xs n : forall a,
  StronglySorted (key_lt xs lt) (fold_right (ins xs) [] (seq a n)).
Proof.
  induction n as [|n IH]; intros a; cbn [seq fold_right].
  - constructor.
  - apply ins_sorted. apply IH.
    eapply Permutation_Forall. apply Permutation_sym. apply fold_right_ins_perm.
    rewrite Forall_forall. intros m Hm. apply in_seq in Hm. lia.
Qed.

Theorem vec_argsort_key_lt xs : StronglySorted (key_lt xs lt) (vec_argsort xs).
Proof. rewrite vec_argsort_eq. apply fold_right_ins_sorted. Qed.

Theorem vec_argsort_sorted xs :
  StronglySorted le (map (fun i => nth i xs 0) (vec_argsort xs)).
Proof. eapply key_lt_sorted_le. apply vec_argsort_key_lt. Qed.

(* stability: indices with equal keys appear in increasing order *)
Theorem vec_argsort_stable xs :
  StronglySorted (fun i j => nth i xs 0 = nth j xs 0 -> i < j) (vec_argsort xs).
Proof. apply key_lt_sorted_tie. apply vec_argsort_key_lt. Qed.

Lemma StronglySorted_nth {A} (R : A -> A -> Prop) l d :
  StronglySorted R l -> forall p q, p < q -> q < length l -> R (nth p l d) (nth q l d).
Proof.
  induction 1 as [|x l HS IH Hx]; intros p q Hpq Hq; cbn [length] in Hq. lia.
  destruct q as [|q]. lia. destruct p as [|p]; cbn [nth].
  - rewrite Forall_forall in Hx. apply Hx. apply nth_In. lia.
  - apply IH; lia.
Qed.

(* the same, by positions *)
Corollary vec_argsort_stable_pos xs p q :
  p < q -> q < length xs ->
  nth (nth p (vec_argsort xs) 0) xs 0 = nth (nth q (vec_argsort xs) 0) xs 0 ->
  nth p (vec_argsort xs) 0 < nth q (vec_argsort xs) 0.
Proof.
  intros Hpq Hq. apply (StronglySorted_nth 0 (vec_argsort_stable xs)). exact Hpq.
  rewrite (Permutation_length (vec_argsort_perm xs)), seq_length. exact Hq.
Qed.

Example vec_argsort_ex : vec_argsort [3; 1; 3; 0; 1] = [3; 1; 4; 0; 2].
Proof. vm_compute. reflexivity. Qed.

(* ---- Adv ---- *)
Lemma fold_left_ins_perm xs l : forall acc,
  Permutation (fold_left (fun acc i => ins xs i acc) l acc) (l ++ acc).
Proof.
  induction l as [|i l IH]; intros acc; cbn [fold_left app].
  - apply Permutation_refl.
  - eapply Permutation_trans. apply IH.
    eapply Permutation_trans. apply Permutation_app_head. apply ins_perm.
    apply Permutation_sym. apply Permutation_middle.
Qed.

Theorem adv_argsort_perm xs : Permutation (adv_argsort xs) (seq 0 (length xs)).
Proof.
  rewrite adv_argsort_eq. eapply Permutation_trans. apply fold_left_ins_perm.
  rewrite app_nil_r. apply Permutation_refl.
Qed.

Lemma fold_left_ins_sorted xs n : forall a acc,
  StronglySorted (key_lt xs gt) acc -> Forall (fun j => j < a) acc ->
  StronglySorted (key_lt xs gt) (fold_left (fun acc i => ins xs i acc) (seq a n) acc).
Proof.
  induction n as [|n IH]; intros a acc HS HF; cbn [seq fold_left].
  - exact HS.
  - apply IH.
    + apply ins_sorted. exact HS. eapply Forall_impl. 2: exact HF. intros j Hj. unfold gt. exact Hj.
    + eapply Permutation_Forall. apply Permutation_sym. apply ins_perm.
      constructor. lia. eapply Forall_impl. 2: exact HF. intros j Hj. cbv beta in *. lia.
Qed.

Theorem adv_argsort_key_lt xs : StronglySorted (key_lt xs gt) (adv_argsort xs).
Proof. rewrite adv_argsort_eq. apply fold_left_ins_sorted; constructor. Qed.

Theorem adv_argsort_sorted xs :
  StronglySorted le (map (fun i => nth i xs 0) (adv_argsort xs)).
Proof. eapply key_lt_sorted_le. apply adv_argsort_key_lt. Qed.

(* anti-stability: indices with equal keys appear in DEcreasing order *)
Theorem adv_argsort_antistable xs :
  StronglySorted (fun i j => nth i xs 0 = nth j xs 0 -> j < i) (adv_argsort xs).
Proof. apply (key_lt_sorted_tie (P := gt)). apply adv_argsort_key_lt. Qed.

Example adv_argsort_ex : adv_argsort [3; 1; 3; 0; 1] = [3; 4; 1; 2; 0].
Proof. vm_compute. reflexivity. Qed.

(* ====================================================================================== *)
(* Part B.2  sparse_bincount                                                               *)
(* ====================================================================================== *)

Lemma insert_sorted_in x l v : In v (insert_sorted x l) <-> v = x \/ In v l.
Proof.
  induction l as [|y l IH]; cbn [insert_sorted].
  - cbn [In]. intuition.
  - destruct (x <? y) eqn:E1.
    + cbn [In]. intuition.
    + destruct (x =? y) eqn:E2.
      * apply Nat.eqb_eq in E2. subst y. cbn [In]. intuition.
      * cbn [In]. rewrite IH. intuition.
Qed.

Lemma insert_sorted_sorted x l : StronglySorted lt l -> StronglySorted lt (insert_sorted x l).
Proof.
  induction l as [|y l IH]; intros HS; cbn [insert_sorted].
  - constructor; constructor.
  - apply StronglySorted_inv in HS. destruct HS as [HS Hy].
    destruct (x <? y) eqn:E1.
    + apply Nat.ltb_lt in E1. constructor. constructor; assumption.
      constructor. exact E1. eapply Forall_impl. 2: exact Hy. intros m Hm. cbv beta in *. lia.
    + apply Nat.ltb_ge in E1. destruct (x =? y) eqn:E2.
      * constructor; assumption.
      * apply Nat.eqb_neq in E2. constructor. apply IH; exact HS.
        rewrite Forall_forall in *. intros m Hm. apply insert_sorted_in in Hm.
        destruct Hm as [->|Hm]. lia. apply Hy; exact Hm.
Qed.

Lemma sort_dedup_in xs v : In v (sort_dedup xs) <-> In v xs.
Proof.
  unfold sort_dedup. induction xs as [|x xs IH]; cbn [fold_right In].
  - tauto.
  - rewrite insert_sorted_in, IH. intuition.
Qed.

Lemma sort_dedup_sorted xs : StronglySorted lt (sort_dedup xs).
Proof.
  unfold sort_dedup. induction xs as [|x xs IH]; cbn [fold_right].
  - constructor.
  - apply insert_sorted_sorted. exact IH.
Qed.

Lemma StronglySorted_lt_NoDup l : StronglySorted lt l -> NoDup l.
Proof.
  induction 1 as [|x l HS IH Hx]; constructor; auto.
  intros Hin. rewrite Forall_forall in Hx. specialize (Hx x Hin). lia.
Qed.

(* exactly the [bk_sparse] statement *)
Theorem vec_sparse_ok xs :
  let u := fst (vec_sparse_bincount xs) in
  let c := snd (vec_sparse_bincount xs) in
  NoDup u /\ (forall v, In v u <-> In v xs) /\ c = map (count_occ Nat.eq_dec xs) u.
Proof.
  unfold vec_sparse_bincount. cbn [fst snd]. split; [|split].
  - apply StronglySorted_lt_NoDup. apply sort_dedup_sorted.
  - intros v. apply sort_dedup_in.
  - reflexivity.
Qed.

(* additionally for Vec: the keys come out strictly increasing *)
Theorem vec_sparse_increasing xs : StronglySorted lt (fst (vec_sparse_bincount xs)).
Proof. unfold vec_sparse_bincount. cbn [fst]. apply sort_dedup_sorted. Qed.

Theorem adv_sparse_ok xs :
  let u := fst (adv_sparse_bincount xs) in
  let c := snd (adv_sparse_bincount xs) in
  NoDup u /\ (forall v, In v u <-> In v xs) /\ c = map (count_occ Nat.eq_dec xs) u.
Proof.
  unfold adv_sparse_bincount, vec_sparse_bincount. cbn [fst snd]. split; [|split].
  - apply NoDup_rev. apply StronglySorted_lt_NoDup. apply sort_dedup_sorted.
  - intros v. rewrite <- in_rev. apply sort_dedup_in.
  - rewrite map_rev. reflexivity.
Qed.

(* additionally for Adv: the keys come out strictly DEcreasing *)
Theorem adv_sparse_decreasing xs : StronglySorted lt (rev (fst (adv_sparse_bincount xs))).
Proof.
  unfold adv_sparse_bincount, vec_sparse_bincount. cbn [fst]. rewrite rev_involutive.
  apply sort_dedup_sorted.
Qed.

Example vec_sparse_ex : vec_sparse_bincount [5; 2; 5; 0; 2; 5] = ([0; 2; 5], [1; 2; 3]).
Proof. vm_compute. reflexivity. Qed.
Example adv_sparse_ex : adv_sparse_bincount [5; 2; 5; 0; 2; 5] = ([5; 2; 0], [3; 2; 1]).
Proof. vm_compute. reflexivity. Qed.

(* ====================================================================================== *)
(* Part B.3  scatter (and the pure view of the assign-loop shared with scatter_assign)     *)
(* ====================================================================================== *)

Section AssignLoop.
  Variable T : Type.

  Lemma nth_error_set_nth_eq (xs : list T) i y :
    i < length xs -> nth_error (set_nth xs i y) i = Some y.
  Proof.
    revert i; induction xs as [|x xs IH]; intros [|i] H; cbn [length] in H; try lia.
    - reflexivity.
    - cbn [set_nth nth_error]. apply IH. lia.
  Qed.

  Lemma nth_error_set_nth_neq (xs : list T) i j y :
    i <> j -> nth_error (set_nth xs i y) j = nth_error xs j.
  Proof.
    revert i j; induction xs as [|x xs IH]; intros [|i] [|j] H; try reflexivity; try lia.
    cbn [set_nth nth_error]. apply IH. lia.
  Qed.

  (* the loop  for (i, x) in ps { acc[i] = x }  without the bounds checks *)
  Definition sa_pure (xs : list T) (ps : list (nat * T)) : list T :=
    fold_left (fun acc p => set_nth acc (fst p) (snd p)) ps xs.

  Lemma sa_pure_nil xs : sa_pure xs [] = xs.
  Proof. reflexivity. Qed.

  Lemma sa_pure_cons xs p ps : sa_pure xs (p :: ps) = sa_pure (set_nth xs (fst p) (snd p)) ps.
  Proof. reflexivity. Qed.

  Lemma sa_pure_app xs ps qs : sa_pure xs (ps ++ qs) = sa_pure (sa_pure xs ps) qs.
  Proof. unfold sa_pure. apply fold_left_app. Qed.

  Lemma sa_pure_length ps : forall xs, length (sa_pure xs ps) = length xs.
  Proof.
    induction ps as [|p ps IH]; intros xs. reflexivity.
    rewrite sa_pure_cons, IH. apply set_nth_length.
  Qed.

  Definition in_bounds (n : nat) (ps : list (nat * T)) : Prop := Forall (fun p => fst p < n) ps.

  Lemma foldM_assign_ok ps : forall xs, in_bounds (length xs) ps ->
    foldM (fun acc p => assign acc (fst p) (snd p)) ps xs = Ok (sa_pure xs ps).
  Proof.
    induction ps as [|p ps IH]; intros xs H; cbn [foldM]. reflexivity.
    inversion H as [|p' ps' Hp Hps]; subst.
    rewrite assign_ok by exact Hp. cbn [bind]. rewrite sa_pure_cons. apply IH.
    unfold in_bounds. rewrite set_nth_length. exact Hps.
  Qed.

  Lemma foldM_assign_panic ps : forall xs, ~ in_bounds (length xs) ps ->
    foldM (fun acc p => assign acc (fst p) (snd p)) ps xs = Panic.
  Proof.
    induction ps as [|p ps IH]; intros xs H; cbn [foldM].
    - exfalso. apply H. constructor.
    - destruct (Nat.lt_ge_cases (fst p) (length xs)) as [Hlt|Hge].
      + rewrite assign_ok by exact Hlt. cbn [bind]. apply IH. rewrite set_nth_length.
        intros Hps. apply H. constructor; assumption.
      + rewrite assign_panic by exact Hge. reflexivity.
  Qed.

  Lemma foldM_assign_ok_iff ps xs :
    (exists ys, foldM (fun acc p => assign acc (fst p) (snd p)) ps xs = Ok ys) <->
    in_bounds (length xs) ps.
  Proof.
    split.
    - intros (ys & Hys).
      destruct (Forall_dec (fun p : nat * T => fst p < length xs)
                  (fun p => lt_dec (fst p) (length xs)) ps) as [HF|HF].
      exact HF. rewrite foldM_assign_panic in Hys by exact HF. discriminate.
    - intros H. eexists. apply foldM_assign_ok. exact H.
  Qed.

  (* positions never written keep their value *)
  Lemma sa_pure_unhit ps : forall xs j, ~ In j (map fst ps) ->
    nth_error (sa_pure xs ps) j = nth_error xs j.
  Proof.
    induction ps as [|p ps IH]; intros xs j H. reflexivity.
    rewrite sa_pure_cons. cbn [map In] in H. rewrite IH by tauto.
    apply nth_error_set_nth_neq. tauto.
  Qed.

  (* the LAST write to a position wins (split form) *)
  Lemma sa_pure_split xs ps1 j v ps2 :
    in_bounds (length xs) (ps1 ++ (j, v) :: ps2) -> ~ In j (map fst ps2) ->
    nth_error (sa_pure xs (ps1 ++ (j, v) :: ps2)) j = Some v.
  Proof.
    intros HB Hn. rewrite sa_pure_app, sa_pure_cons. cbn [fst snd].
    rewrite sa_pure_unhit by exact Hn. apply nth_error_set_nth_eq.
    rewrite sa_pure_length. unfold in_bounds in HB. rewrite Forall_app in HB.
    destruct HB as [_ HB]. inversion HB as [|p ps Hp Hps]; subst. exact Hp.
  Qed.

  (* positional -> split, last occurrence *)
  Lemma split_last_occ (ps : list (nat * T)) k j v :
    nth_error ps k = Some (j, v) ->
    (forall k' v', k < k' -> nth_error ps k' <> Some (j, v')) ->
    exists ps1 ps2, ps = ps1 ++ (j, v) :: ps2 /\ ~ In j (map fst ps2).
  Proof.
    intros Hk Hlast. destruct (nth_error_split _ _ Hk) as (ps1 & ps2 & -> & Hlen).
    exists ps1, ps2. split. reflexivity.
    intros Hin. apply in_map_iff in Hin. destruct Hin as ([j' v'] & Hfst & Hin).
    cbn [fst] in Hfst. subst j'. apply In_nth_error in Hin. destruct Hin as (m & Hm).
    apply (Hlast (length ps1 + S m) v'). lia.
    rewrite nth_error_app2 by lia. replace (length ps1 + S m - length ps1) with (S m) by lia.
    exact Hm.
  Qed.

  (* positional -> split, first occurrence *)
  Lemma split_first_occ (ps : list (nat * T)) k j v :
    nth_error ps k = Some (j, v) ->
    (forall k' v', k' < k -> nth_error ps k' <> Some (j, v')) ->
    exists ps1 ps2, ps = ps1 ++ (j, v) :: ps2 /\ ~ In j (map fst ps1).
  Proof.
    intros Hk Hfirst. destruct (nth_error_split _ _ Hk) as (ps1 & ps2 & -> & Hlen).
    exists ps1, ps2. split. reflexivity.
    intros Hin. apply in_map_iff in Hin. destruct Hin as ([j' v'] & Hfst & Hin).
    cbn [fst] in Hfst. subst j'. apply In_nth_error in Hin. destruct Hin as (m & Hm).
    assert (Hml : m < length ps1) by (apply nth_error_Some; congruence).
    apply (Hfirst m v'). lia. rewrite nth_error_app1 by exact Hml. exact Hm.
  Qed.

  (* the LAST write wins, positional form *)
  Lemma sa_pure_last_wins xs ps k j v :
    in_bounds (length xs) ps -> nth_error ps k = Some (j, v) ->
    (forall k' v', k < k' -> nth_error ps k' <> Some (j, v')) ->
    nth_error (sa_pure xs ps) j = Some v.
  Proof.
    intros HB Hk Hlast. destruct (split_last_occ _ Hk Hlast) as (ps1 & ps2 & -> & Hn).
    apply sa_pure_split; assumption.
  Qed.

  (* running the loop over the reversed list: the FIRST pair wins *)
  Lemma sa_pure_rev_first_wins xs ps k j v :
    in_bounds (length xs) ps -> nth_error ps k = Some (j, v) ->
    (forall k' v', k' < k -> nth_error ps k' <> Some (j, v')) ->
    nth_error (sa_pure xs (rev ps)) j = Some v.
  Proof.
    intros HB Hk Hfirst. destruct (split_first_occ _ Hk Hfirst) as (ps1 & ps2 & -> & Hn).
    rewrite rev_app_distr. cbn [rev]. rewrite <- app_assoc. cbn [app].
    apply sa_pure_split.
    - replace (rev ps2 ++ (j, v) :: rev ps1) with (rev (ps1 ++ (j, v) :: ps2)).
      apply Forall_rev. exact HB.
      rewrite rev_app_distr. cbn [rev]. rewrite <- app_assoc. reflexivity.
    - rewrite map_rev, <- in_rev. exact Hn.
  Qed.

  (* ---- combine ---- *)
  Lemma nth_error_combine {U} (a : list U) (b : list T) k x y :
    nth_error (combine a b) k = Some (x, y) <-> nth_error a k = Some x /\ nth_error b k = Some y.
  Proof.
    revert b k; induction a as [|a0 a IH]; intros [|b0 b] [|k]; cbn [combine nth_error];
      try (split; [discriminate | intros [H1 H2]; discriminate]).
    - split. intros H; inversion H; auto. intros [H1 H2]; inversion H1; inversion H2; auto.
    - apply IH.
  Qed.

  Lemma map_fst_combine_in {U} (a : list U) (b : list T) x :
    In x (map fst (combine a b)) -> In x a.
  Proof.
    intros H. apply in_map_iff in H. destruct H as ([x' y] & Hf & Hin). cbn [fst] in Hf. subst x'.
    eapply in_combine_l. exact Hin.
  Qed.

  Lemma in_bounds_combine n idx (xs : list T) : all_lt n idx -> in_bounds n (combine idx xs).
  Proof.
    intros H. unfold in_bounds, all_lt in *. rewrite Forall_forall in *. intros [i x] Hp.
    cbn [fst]. apply H. eapply in_combine_l. exact Hp.
  Qed.

  (* every occurring index has a last and a first occurrence *)
  Lemma last_occ (l : list nat) j : In j l ->
    exists i, nth_error l i = Some j /\ forall i', i < i' -> nth_error l i' <> Some j.
  Proof.
    induction l as [|x l IH]; intros H. contradiction.
    destruct (in_dec Nat.eq_dec j l) as [Hin|Hnin].
    - destruct (IH Hin) as (i & Hi & Hl). exists (S i). split. exact Hi.
      intros [|i'] Hlt. lia. cbn [nth_error]. apply Hl. lia.
    - destruct H as [->|H]. 2: contradiction.
      exists 0. split. reflexivity. intros [|i'] Hlt. lia. cbn [nth_error].
      intros Hc. apply Hnin. eapply nth_error_In. exact Hc.
  Qed.

  Lemma first_occ (l : list nat) j : In j l ->
    exists i, nth_error l i = Some j /\ forall i', i' < i -> nth_error l i' <> Some j.
  Proof.
    induction l as [|x l IH]; intros H. contradiction.
    destruct (Nat.eq_dec x j) as [->|Hne].
    - exists 0. split. reflexivity. intros i' Hlt. lia.
    - destruct H as [H|H]. contradiction.
      destruct (IH H) as (i & Hi & Hf). exists (S i). split. exact Hi.
      intros [|i'] Hlt; cbn [nth_error]. congruence. apply Hf. lia.
  Qed.

  (* ---------------- VecArray::scatter ---------------- *)
  Definition vec_scatter_pure (xs : list T) (idx : list nat) (n : nat) : list T :=
    match xs with
    | [] => []
    | x0 :: _ => sa_pure (repeat x0 n) (combine idx xs)
    end.

  Lemma vec_scatter_eq (xs : list T) idx n :
    length idx = length xs -> all_lt n idx ->
    vec_scatter xs idx n = Ok (vec_scatter_pure xs idx n).
  Proof.
    intros Hlen Hlt. destruct xs as [|x0 xs'].
    - destruct idx; [reflexivity | discriminate].
    - unfold vec_scatter, vec_scatter_pure. rewrite Hlen, Nat.leb_refl. cbn [assert bind].
      apply foldM_assign_ok. rewrite repeat_length. apply in_bounds_combine. exact Hlt.
  Qed.

  Lemma vec_scatter_pure_length (xs : list T) idx n : xs <> [] ->
    length (vec_scatter_pure xs idx n) = n.
  Proof.
    intros Hne. destruct xs as [|x0 xs']. congruence.
    unfold vec_scatter_pure. rewrite sa_pure_length. apply repeat_length.
  Qed.

  (* the LAST write wins *)
  Lemma vec_scatter_last_wins (xs : list T) idx n i j :
    length idx = length xs -> all_lt n idx ->
    nth_error idx i = Some j -> (forall i', i < i' -> nth_error idx i' <> Some j) ->
    nth_error (vec_scatter_pure xs idx n) j = nth_error xs i.
  Proof.
    intros Hlen Hlt Hi Hlast.
    assert (Hil : i < length xs) by (rewrite <- Hlen; apply nth_error_Some; congruence).
    destruct (nth_error xs i) as [v|] eqn:Hv. 2: apply nth_error_None in Hv; lia.
    destruct xs as [|x0 xs']. cbn [length] in Hil; lia.
    unfold vec_scatter_pure. apply sa_pure_last_wins with (k := i).
    - rewrite repeat_length. apply in_bounds_combine. exact Hlt.
    - apply nth_error_combine. split; assumption.
    - intros k' v' Hk' Hc. apply nth_error_combine in Hc. destruct Hc as [Hc _].
      exact (Hlast k' Hk' Hc).
  Qed.

  (* positions that are not hit hold the first element *)
  Lemma vec_scatter_unhit (xs : list T) x0 idx n j :
    nth_error xs 0 = Some x0 -> j < n -> ~ In j idx ->
    nth_error (vec_scatter_pure xs idx n) j = Some x0.
  Proof.
    intros H0 Hj Hn. destruct xs as [|x xs']. discriminate. cbn [nth_error] in H0.
    inversion H0; subst x. unfold vec_scatter_pure. rewrite sa_pure_unhit.
    apply nth_error_repeat. exact Hj.
    intros Hc. apply Hn. eapply map_fst_combine_in. exact Hc.
  Qed.

  (* exactly the [bk_scatter] statement *)
  Theorem vec_scatter_ok (xs : list T) idx n :
    length idx = length xs -> all_lt n idx -> xs <> [] ->
    exists y, vec_scatter xs idx n = Ok y /\ length y = n /\
      forall j, In j idx -> exists i, nth_error idx i = Some j /\ nth_error y j = nth_error xs i.
  Proof.
    intros Hlen Hlt Hne. exists (vec_scatter_pure xs idx n). split; [|split].
    - apply vec_scatter_eq; assumption.
    - apply vec_scatter_pure_length. exact Hne.
    - intros j Hj. destruct (last_occ _ _ Hj) as (i & Hi & Hlast). exists i. split. exact Hi.
      apply vec_scatter_last_wins; assumption.
  Qed.

  Theorem vec_scatter_nil n : vec_scatter (@nil T) [] n = Ok [].
  Proof. reflexivity. Qed.

  (* ---------------- adversarial scatter ---------------- *)
  Definition adv_scatter_pure (xs : list T) (idx : list nat) (n : nat) : list T :=
    match xs with
    | [] => []
    | x0 :: _ => sa_pure (repeat (last xs x0) n) (rev (combine idx xs))
    end.

  Lemma adv_scatter_eq (xs : list T) idx n :
    length idx = length xs -> all_lt n idx ->
    adv_scatter xs idx n = Ok (adv_scatter_pure xs idx n).
  Proof.
    intros Hlen Hlt. destruct xs as [|x0 xs'].
    - destruct idx; [reflexivity | discriminate].
    - unfold adv_scatter, adv_scatter_pure. rewrite Hlen, Nat.leb_refl. cbn [assert bind].
      apply foldM_assign_ok. rewrite repeat_length. apply Forall_rev.
      apply in_bounds_combine. exact Hlt.
  Qed.

  Lemma adv_scatter_pure_length (xs : list T) idx n : xs <> [] ->
    length (adv_scatter_pure xs idx n) = n.
  Proof.
    intros Hne. destruct xs as [|x0 xs']. congruence.
    unfold adv_scatter_pure. rewrite sa_pure_length. apply repeat_length.
  Qed.

  (* the FIRST write wins *)
  Lemma adv_scatter_first_wins (xs : list T) idx n i j :
    length idx = length xs -> all_lt n idx ->
    nth_error idx i = Some j -> (forall i', i' < i -> nth_error idx i' <> Some j) ->
    nth_error (adv_scatter_pure xs idx n) j = nth_error xs i.
  Proof.
    intros Hlen Hlt Hi Hfirst.
    assert (Hil : i < length xs) by (rewrite <- Hlen; apply nth_error_Some; congruence).
    destruct (nth_error xs i) as [v|] eqn:Hv. 2: apply nth_error_None in Hv; lia.
    destruct xs as [|x0 xs']. cbn [length] in Hil; lia.
    unfold adv_scatter_pure. apply sa_pure_rev_first_wins with (k := i).
    - rewrite repeat_length. apply in_bounds_combine. exact Hlt.
    - apply nth_error_combine. split; assumption.
    - intros k' v' Hk' Hc. apply nth_error_combine in Hc. destruct Hc as [Hc _].
      exact (Hfirst k' Hk' Hc).
  Qed.

  (* positions that are not hit hold the last element *)
  Lemma adv_scatter_unhit (xs : list T) d idx n j :
    xs <> [] -> j < n -> ~ In j idx ->
    nth_error (adv_scatter_pure xs idx n) j = Some (last xs d).
  Proof.
    intros Hne Hj Hn. destruct xs as [|x xs']. congruence.
    unfold adv_scatter_pure. rewrite sa_pure_unhit.
    - rewrite nth_error_repeat by exact Hj. f_equal.
      generalize (x :: xs') (@nil_cons _ x xs'). intros l Hl.
      induction l as [|a l IH]. congruence.
      destruct l as [|b l]. reflexivity.
      change (last (a :: b :: l) x) with (last (b :: l) x).
      change (last (a :: b :: l) d) with (last (b :: l) d). apply IH. discriminate.
    - rewrite map_rev, <- in_rev. intros Hc. apply Hn. eapply map_fst_combine_in. exact Hc.
  Qed.

  Theorem adv_scatter_ok (xs : list T) idx n :
    length idx = length xs -> all_lt n idx -> xs <> [] ->
    exists y, adv_scatter xs idx n = Ok y /\ length y = n /\
      forall j, In j idx -> exists i, nth_error idx i = Some j /\ nth_error y j = nth_error xs i.
  Proof.
    intros Hlen Hlt Hne. exists (adv_scatter_pure xs idx n). split; [|split].
    - apply adv_scatter_eq; assumption.
    - apply adv_scatter_pure_length. exact Hne.
    - intros j Hj. destruct (first_occ _ _ Hj) as (i & Hi & Hfirst). exists i. split. exact Hi.
      apply adv_scatter_first_wins; assumption.
  Qed.

  Theorem adv_scatter_nil n : adv_scatter (@nil T) [] n = Ok [].
  Proof. reflexivity. Qed.
End AssignLoop.

Example vec_scatter_ex : vec_scatter [10; 20; 30; 40] [2; 1; 0; 2] 4 = Ok [30; 20; 40; 10].
Proof. vm_compute. reflexivity. Qed.
Example adv_scatter_ex : adv_scatter [10; 20; 30; 40] [2; 1; 0; 2] 4 = Ok [30; 20; 10; 40].
Proof. vm_compute. reflexivity. Qed.
Example vec_scatter_hyps_ex :
  length [2; 1; 0; 2] = length [10; 20; 30; 40] /\ all_lt 4 [2; 1; 0; 2] /\ [10; 20; 30; 40] <> [].
Proof. split. reflexivity. split. repeat constructor. discriminate. Qed.

(* ====================================================================================== *)
(* Part B.4  assembly: both back-ends meet the contract, given the cc field                *)
(* ====================================================================================== *)

Definition cc_contract (cc : list nat -> list nat -> nat -> list nat * nat) : Prop :=
  forall s t n, length s = length t -> all_lt n s -> all_lt n t ->
    let c := fst (cc s t n) in
    let k := snd (cc s t n) in
    length c = n /\ all_lt k c /\ (forall j, j < k -> In j c) /\
    (forall i j, i < n -> j < n -> (nth i c 0 = nth j c 0 <-> conn (combine s t) i j)).

Theorem VecBackend_ok_from_cc :
  (forall s t n, length s = length t -> all_lt n s -> all_lt n t ->
    let c := fst (cc_pure s t n) in
    let k := snd (cc_pure s t n) in
    length c = n /\ all_lt k c /\ (forall j, j < k -> In j c) /\
    (forall i j, i < n -> j < n -> (nth i c 0 = nth j c 0 <-> conn (combine s t) i j))) ->
  BackendOK VecBackend.
Proof.
  intros Hcc. constructor; cbn [VecBackend b_argsort b_conn_comp b_sparse_bincount b_scatter].
  - exact vec_argsort_perm.
  - exact vec_argsort_sorted.
  - exact Hcc.
  - exact vec_sparse_ok.
  - intros T xs idx n. apply vec_scatter_ok.
  - intros T n. apply vec_scatter_nil.
Qed.

Theorem AdvBackend_ok_from_cc :
  (forall s t n, length s = length t -> all_lt n s -> all_lt n t ->
    let c := fst (adv_conn_comp s t n) in
    let k := snd (adv_conn_comp s t n) in
    length c = n /\ all_lt k c /\ (forall j, j < k -> In j c) /\
    (forall i j, i < n -> j < n -> (nth i c 0 = nth j c 0 <-> conn (combine s t) i j))) ->
  BackendOK AdvBackend.
Proof.
  intros Hcc. constructor; cbn [AdvBackend b_argsort b_conn_comp b_sparse_bincount b_scatter].
  - exact adv_argsort_perm.
  - exact adv_argsort_sorted.
  - exact Hcc.
  - exact adv_sparse_ok.
  - intros T xs idx n. apply adv_scatter_ok.
  - intros T n. apply adv_scatter_nil.
Qed.

(* the same with the hypothesis folded *)
Corollary VecBackend_ok_from_cc' : cc_contract cc_pure -> BackendOK VecBackend.
Proof. exact VecBackend_ok_from_cc. Qed.
Corollary AdvBackend_ok_from_cc' : cc_contract adv_conn_comp -> BackendOK AdvBackend.
Proof. exact AdvBackend_ok_from_cc. Qed.

(* ====================================================================================== *)
(* Part A.1  get_range                                                                     *)
(* ====================================================================================== *)

Lemma get_range_spec {T} (xs : list T) r :
  get_range xs r =
  (let '(a, b) := to_range (length xs) r in
   if (a <=? b) && (b <=? length xs) then Ok (firstn (b - a) (skipn a xs)) else Panic).
Proof. unfold get_range, slice. destruct (to_range (length xs) r) as [a b]. reflexivity. Qed.

Section GetRange.
  Variable T : Type.
  Implicit Types xs : list T.

  (* ..  : everything *)
  Lemma get_range_RFull xs : get_range xs RFull = Ok xs.
  Proof. apply get_range_full. Qed.

  (* a.. : indices a, a+1, ..., len-1 *)
  Lemma get_range_RFrom xs a : a <= length xs -> get_range xs (RFrom a) = Ok (skipn a xs).
  Proof.
    intros H. unfold get_range, to_range. rewrite slice_ok by lia. f_equal.
    apply firstn_all2. rewrite skipn_length. lia.
  Qed.
  Lemma get_range_RFrom_panic xs a : length xs < a -> get_range xs (RFrom a) = Panic.
  Proof. intros H. unfold get_range, to_range. apply slice_panic. lia. Qed.

  (* ..b : indices 0, ..., b-1 *)
  Lemma get_range_RTo xs b : b <= length xs -> get_range xs (RTo b) = Ok (firstn b xs).
  Proof.
    intros H. unfold get_range, to_range. rewrite slice_ok by lia.
    rewrite Nat.sub_0_r. reflexivity.
  Qed.
  Lemma get_range_RTo_panic xs b : length xs < b -> get_range xs (RTo b) = Panic.
  Proof. intros H. unfold get_range, to_range. apply slice_panic. lia. Qed.

  (* a..b : indices a, ..., b-1 *)
  Lemma get_range_RFromTo xs a b : a <= b -> b <= length xs ->
    get_range xs (RFromTo a b) = Ok (firstn (b - a) (skipn a xs)).
  Proof. intros H1 H2. unfold get_range, to_range. apply slice_ok; assumption. Qed.
  Lemma get_range_RFromTo_panic xs a b : b < a \/ length xs < b ->
    get_range xs (RFromTo a b) = Panic.
  Proof. intros H. unfold get_range, to_range. apply slice_panic. exact H. Qed.

  (* ..=b : indices 0, ..., b inclusive *)
  Lemma get_range_RToIncl xs b : b < length xs ->
    get_range xs (RToIncl b) = Ok (firstn (S b) xs).
  Proof.
    intros H. unfold get_range, to_range. rewrite slice_ok by lia.
    rewrite Nat.sub_0_r, Nat.add_1_r. reflexivity.
  Qed.
  Lemma get_range_RToIncl_panic xs b : length xs <= b -> get_range xs (RToIncl b) = Panic.
  Proof. intros H. unfold get_range, to_range. apply slice_panic. lia. Qed.

  (* a..=b : indices a, ..., b inclusive (a = b+1 gives the empty slice, as in Rust) *)
  Lemma get_range_RFromToIncl xs a b : a <= S b -> b < length xs ->
    get_range xs (RFromToIncl a b) = Ok (firstn (S b - a) (skipn a xs)).
  Proof.
    intros H1 H2. unfold get_range, to_range. rewrite slice_ok by lia.
    rewrite Nat.add_1_r. reflexivity.
  Qed.
  Lemma get_range_RFromToIncl_panic xs a b : S b < a \/ length xs <= b ->
    get_range xs (RFromToIncl a b) = Panic.
  Proof. intros H. unfold get_range, to_range. apply slice_panic. lia. Qed.

  (* element view of a successful slice: element i of the result is element a+i of xs *)
  Lemma nth_error_firstn_skipn xs a n i : i < n ->
    nth_error (firstn n (skipn a xs)) i = nth_error xs (a + i).
  Proof.
    intros H. revert xs; induction a as [|a IH]; intros xs.
    - cbn [skipn Nat.add]. revert n i H. induction xs as [|x xs IHx]; intros [|n] [|i] H; try lia;
        try reflexivity. cbn [firstn nth_error]. apply IHx. lia.
    - destruct xs as [|x xs]. cbn [skipn]. rewrite firstn_nil. destruct i; reflexivity.
      cbn [skipn Nat.add nth_error]. apply IH.
  Qed.
End GetRange.

Example get_range_ex :
  get_range [10; 11; 12; 13; 14] (RToIncl 2) = Ok [10; 11; 12] /\
  get_range [10; 11; 12; 13; 14] (RFromToIncl 1 3) = Ok [11; 12; 13] /\
  get_range [10; 11; 12; 13; 14] (RFromTo 1 3) = Ok [11; 12] /\
  get_range [10; 11; 12; 13; 14] (RFrom 5) = Ok [] /\
  get_range [10; 11; 12; 13; 14] (RToIncl 5) = Panic.
Proof. vm_compute. repeat split. Qed.

(* ====================================================================================== *)
(* Part A.2  quot_rem, mul_constant_add, amax                                              *)
(* ====================================================================================== *)

Lemma quot_rem_eq xs d : d <> 0 ->
  quot_rem xs d = Ok (map (fun x => x / d) xs, map (fun x => x mod d) xs).
Proof.
  intros H. unfold quot_rem. apply Nat.eqb_neq in H. rewrite H. reflexivity.
Qed.

Lemma quot_rem_panic xs : quot_rem xs 0 = Panic.
Proof. reflexivity. Qed.

(* pointwise meaning *)
Theorem quot_rem_ok xs d : d <> 0 ->
  exists q r, quot_rem xs d = Ok (q, r) /\ length q = length xs /\ length r = length xs /\
    forall i, i < length xs ->
      nth i xs 0 = d * nth i q 0 + nth i r 0 /\ nth i r 0 < d.
Proof.
  intros H. exists (map (fun x => x / d) xs), (map (fun x => x mod d) xs).
  split. apply quot_rem_eq; exact H. rewrite !map_length. split; [reflexivity|split; [reflexivity|]].
  intros i Hi.
  rewrite (nth_indep (map (fun x => x / d) xs) 0 (0 / d)) by (rewrite map_length; exact Hi).
  rewrite (nth_indep (map (fun x => x mod d) xs) 0 (0 mod d)) by (rewrite map_length; exact Hi).
  rewrite (map_nth (fun x => x / d)), (map_nth (fun x => x mod d)). split.
  - apply Nat.div_mod. exact H.
  - apply Nat.mod_upper_bound. exact H.
Qed.

Theorem quot_rem_ok_iff xs d : (exists qr, quot_rem xs d = Ok qr) <-> d <> 0.
Proof.
  split.
  - intros (qr & H) ->. rewrite quot_rem_panic in H. discriminate.
  - intros H. eexists. apply quot_rem_eq. exact H.
Qed.

Example quot_rem_ex : quot_rem [7; 8; 9] 4 = Ok ([1; 2; 2], [3; 0; 1]).
Proof. vm_compute. reflexivity. Qed.

Lemma mul_constant_add_eq xs c ys : length xs = length ys ->
  mul_constant_add xs c ys = Ok (map (fun p => fst p * c + snd p) (combine xs ys)).
Proof. intros H. unfold mul_constant_add. apply Nat.eqb_eq in H. rewrite H. reflexivity. Qed.

Lemma mul_constant_add_panic xs c ys : length xs <> length ys ->
  mul_constant_add xs c ys = Panic.
Proof. intros H. unfold mul_constant_add. apply Nat.eqb_neq in H. rewrite H. reflexivity. Qed.

Lemma nth_combine {A B} (l : list A) (l' : list B) i da db :
  length l = length l' -> nth i (combine l l') (da, db) = (nth i l da, nth i l' db).
Proof.
  revert l' i; induction l as [|a l IH]; intros [|b l'] [|i] H; cbn [length] in H; try lia;
    try reflexivity.
  cbn [combine nth]. apply IH. lia.
Qed.

Theorem mul_constant_add_ok xs c ys : length xs = length ys ->
  exists r, mul_constant_add xs c ys = Ok r /\ length r = length xs /\
    forall i, i < length xs -> nth i r 0 = nth i xs 0 * c + nth i ys 0.
Proof.
  intros H. eexists. split. apply mul_constant_add_eq; exact H.
  rewrite map_length, combine_length, <- H, Nat.min_id. split. reflexivity.
  intros i Hi.
  rewrite (nth_indep _ 0 ((fun p => fst p * c + snd p) (0, 0)))
    by (rewrite map_length, combine_length; lia).
  rewrite (map_nth (fun p => fst p * c + snd p)). rewrite nth_combine by exact H. reflexivity.
Qed.

Theorem mul_constant_add_ok_iff xs c ys :
  (exists r, mul_constant_add xs c ys = Ok r) <-> length xs = length ys.
Proof.
  split.
  - intros (r & H). destruct (Nat.eq_dec (length xs) (length ys)) as [E|E]. exact E.
    rewrite mul_constant_add_panic in H by exact E. discriminate.
  - intros H. eexists. apply mul_constant_add_eq. exact H.
Qed.

Example mul_constant_add_ex : mul_constant_add [1; 2; 3] 10 [4; 5; 6] = Ok [14; 25; 36].
Proof. vm_compute. reflexivity. Qed.

(* ---- amax ---- *)
Lemma fold_left_max_spec l : forall a,
  In (fold_left Nat.max l a) (a :: l) /\ Forall (fun x => x <= fold_left Nat.max l a) (a :: l).
Proof.
  induction l as [|x l IH]; intros a; cbn [fold_left].
  - split. left; reflexivity. constructor. lia. constructor.
  - destruct (IH (Nat.max a x)) as [Hin Hall]. split.
    + destruct Hin as [Heq|Hin].
      * destruct (Nat.max_dec a x) as [E|E].
        left; congruence. right; left; congruence.
      * right; right; exact Hin.
    + inversion Hall as [|y l' Hm Hl]; subst. constructor. lia. constructor. lia. exact Hl.
Qed.

Theorem amax_spec xs m : amax xs = Some m <-> In m xs /\ Forall (fun x => x <= m) xs.
Proof.
  destruct xs as [|x xs]; cbn [amax].
  - split. discriminate. intros [[] _].
  - destruct (fold_left_max_spec xs x) as [Hin Hall]. split.
    + intros H. inversion H; subst. split; assumption.
    + intros [Hm Hub]. f_equal. rewrite Forall_forall in Hall, Hub.
      specialize (Hall m Hm). specialize (Hub _ Hin). cbv beta in *. lia.
Qed.

Theorem amax_none xs : amax xs = None <-> xs = [].
Proof. destruct xs as [|x xs]; cbn [amax]; split; intros H; try reflexivity; discriminate. Qed.

Example amax_ex : amax [3; 9; 2] = Some 9 /\ (In 9 [3; 9; 2] /\ Forall (fun x => x <= 9) [3; 9; 2]).
Proof. split. reflexivity. split. cbn [In]. auto. repeat constructor; lia. Qed.

(* ====================================================================================== *)
(* Part A.3  scatter_assign                                                                *)
(* ====================================================================================== *)

Section ScatterAssign.
  Variable T : Type.

  (* "every index used is in range": the indices used are those at positions < length values *)
  Lemma in_bounds_combine_iff n ixs (values : list T) :
    in_bounds n (combine ixs values) <->
    (forall k i, k < length values -> nth_error ixs k = Some i -> i < n).
  Proof.
    unfold in_bounds. rewrite Forall_forall. split.
    - intros H k i Hk Hi. destruct (nth_error values k) as [v|] eqn:Hv.
      2: apply nth_error_None in Hv; lia.
      apply (H (i, v)). eapply nth_error_In. apply nth_error_combine. split; eassumption.
    - intros H [i v] Hin. cbn [fst]. apply In_nth_error in Hin. destruct Hin as (k & Hk).
      apply nth_error_combine in Hk. destruct Hk as [Hi Hv]. apply (H k i). 2: exact Hi.
      apply nth_error_Some. congruence.
  Qed.

  Lemma scatter_assign_eq (xs : list T) ixs values :
    in_bounds (length xs) (combine ixs values) ->
    scatter_assign xs ixs values = Ok (sa_pure xs (combine ixs values)).
  Proof. intros H. unfold scatter_assign. apply foldM_assign_ok. exact H. Qed.

  Lemma scatter_assign_panic (xs : list T) ixs values :
    ~ in_bounds (length xs) (combine ixs values) -> scatter_assign xs ixs values = Panic.
  Proof. intros H. unfold scatter_assign. apply foldM_assign_panic. exact H. Qed.

  (* Ok exactly when every index used is < length xs *)
  Theorem scatter_assign_ok_iff (xs : list T) ixs values :
    (exists ys, scatter_assign xs ixs values = Ok ys) <->
    (forall k i, k < length values -> nth_error ixs k = Some i -> i < length xs).
  Proof.
    rewrite <- in_bounds_combine_iff. unfold scatter_assign. apply foldM_assign_ok_iff.
  Qed.

  (* the pure view: the LAST pair (i, v) of the zip with i = j determines position j,
     positions that are never written keep their old value *)
  Theorem scatter_assign_ok (xs : list T) ixs values :
    (forall k i, k < length values -> nth_error ixs k = Some i -> i < length xs) ->
    exists ys, scatter_assign xs ixs values = Ok ys /\ length ys = length xs /\
      (forall k j v, nth_error ixs k = Some j -> nth_error values k = Some v ->
         (forall k', k < k' -> k' < length values -> nth_error ixs k' <> Some j) ->
         nth_error ys j = Some v) /\
      (forall j, (forall k, k < length values -> nth_error ixs k <> Some j) ->
         nth_error ys j = nth_error xs j).
  Proof.
    intros HB. apply in_bounds_combine_iff in HB.
    exists (sa_pure xs (combine ixs values)). split; [|split; [|split]].
    - apply scatter_assign_eq. exact HB.
    - apply sa_pure_length.
    - intros k j v Hj Hv Hlast. apply sa_pure_last_wins with (k := k).
      + exact HB.
      + apply nth_error_combine. split; assumption.
      + intros k' v' Hk' Hc. apply nth_error_combine in Hc. destruct Hc as [Hc1 Hc2].
        apply (Hlast k'); try assumption. apply nth_error_Some. congruence.
    - intros j Hun. apply sa_pure_unhit. intros Hin. apply in_map_iff in Hin.
      destruct Hin as ([j' v'] & Hf & Hin). cbn [fst] in Hf. subst j'.
      apply In_nth_error in Hin. destruct Hin as (k & Hk). apply nth_error_combine in Hk.
      destruct Hk as [Hk1 Hk2]. apply (Hun k). apply nth_error_Some. congruence. exact Hk1.
  Qed.
End ScatterAssign.

Example scatter_assign_ex :
  scatter_assign [0; 0; 0; 0] [2; 1; 2] [7; 8; 9] = Ok [0; 8; 9; 0] /\
  scatter_assign [0; 0; 0; 0] [2; 4; 2] [7; 8; 9] = Panic /\
  scatter_assign [0; 0; 0; 0] [2; 1; 4] [7; 8] = Ok [0; 8; 7; 0].
Proof. vm_compute. repeat split. Qed.

(* ====================================================================================== *)
(* Part A.4  scatter_sub_assign                                                            *)
(* ====================================================================================== *)

(* the total subtracted from position j:  sum of rhs[i] over positions i with ixs[i] = j *)
Definition ssum (j : nat) (ixs rhs : list nat) : nat :=
  list_sum (map snd (filter (fun p => fst p =? j) (combine ixs rhs))).

Lemma ssum_nil j rhs : ssum j [] rhs = 0.
Proof. reflexivity. Qed.

Lemma ssum_cons j i ixs r rhs :
  ssum j (i :: ixs) (r :: rhs) = (if i =? j then r else 0) + ssum j ixs rhs.
Proof.
  unfold ssum. cbn [combine filter fst]. destruct (i =? j); reflexivity.
Qed.

Lemma ssum_notin j ixs : forall rhs, ~ In j ixs -> ssum j ixs rhs = 0.
Proof.
  induction ixs as [|i ixs IH]; intros rhs H. reflexivity.
  destruct rhs as [|r rhs]. reflexivity.
  rewrite ssum_cons. cbn [In] in H. rewrite IH by tauto.
  destruct (i =? j) eqn:E. apply Nat.eqb_eq in E. tauto. reflexivity.
Qed.

(* general form: no underflow happens exactly when, for every position, the total does not
   exceed the old value (all quantities are naturals, so partial sums are below the total) *)
Theorem scatter_sub_assign_ok_gen ixs : forall xs rhs,
  length ixs <= length rhs -> Forall (fun i => i < length xs) ixs ->
  (forall j, ssum j ixs rhs <= nth j xs 0) ->
  exists ys, scatter_sub_assign xs ixs rhs = Ok ys /\ length ys = length xs /\
    forall j, nth j ys 0 + ssum j ixs rhs = nth j xs 0.
Proof.
  induction ixs as [|i ixs IH]; intros xs rhs Hlen HF Hsum.
  - exists xs. split. reflexivity. split. reflexivity. intros j. rewrite ssum_nil. lia.
  - destruct rhs as [|r rhs]. cbn [length] in Hlen; lia.
    inversion HF as [|i' ixs' Hi HF']; subst.
    cbn [scatter_sub_assign]. rewrite (get_ok xs 0 Hi). cbn [bind].
    assert (Hr : r + ssum i ixs rhs <= nth i xs 0).
    { specialize (Hsum i). rewrite ssum_cons, Nat.eqb_refl in Hsum. exact Hsum. }
    unfold sub_chk. replace (r <=? nth i xs 0) with true by (symmetry; apply Nat.leb_le; lia).
    cbn [bind]. rewrite assign_ok by exact Hi. cbn [bind].
    destruct (IH (set_nth xs i (nth i xs 0 - r)) rhs) as (ys & Hys & Hl & Hv).
    + cbn [length] in Hlen. lia.
    + rewrite set_nth_length. exact HF'.
    + intros j. rewrite nth_set_nth by exact Hi. specialize (Hsum j). rewrite ssum_cons in Hsum.
      destruct (j =? i) eqn:E.
      * apply Nat.eqb_eq in E. subst j. lia.
      * rewrite Nat.eqb_sym, E in Hsum. lia.
    + exists ys. split. exact Hys. split. rewrite Hl. apply set_nth_length.
      intros j. specialize (Hv j). rewrite nth_set_nth in Hv by exact Hi. rewrite ssum_cons.
      rewrite (Nat.eqb_sym i j). destruct (j =? i) eqn:E.
      * apply Nat.eqb_eq in E. subst j. lia.
      * lia.
Qed.

(* the convenient sufficient condition: distinct indices, each rhs[i] <= xs[ixs[i]] *)
Lemma ssum_le_NoDup ixs : forall xs rhs,
  NoDup ixs -> (forall i, i < length ixs -> nth i rhs 0 <= nth (nth i ixs 0) xs 0) ->
  forall j, ssum j ixs rhs <= nth j xs 0.
Proof.
  induction ixs as [|i ixs IH]; intros xs rhs Hnd Hle j.
  - rewrite ssum_nil. lia.
  - destruct rhs as [|r rhs]. unfold ssum. cbn [combine filter map]. exact (Nat.le_0_l _).
    inversion Hnd as [|i' ixs' Hnin Hnd']; subst. rewrite ssum_cons.
    destruct (i =? j) eqn:E.
    + apply Nat.eqb_eq in E. subst j. rewrite ssum_notin by exact Hnin.
      specialize (Hle 0). cbn [nth length] in Hle. lia.
    + cbn [Nat.add]. apply IH. exact Hnd'. intros k Hk. specialize (Hle (S k)).
      cbn [nth length] in Hle. apply Hle. lia.
Qed.

Theorem scatter_sub_assign_ok xs ixs rhs :
  length ixs <= length rhs -> Forall (fun i => i < length xs) ixs ->
  NoDup ixs -> (forall i, i < length ixs -> nth i rhs 0 <= nth (nth i ixs 0) xs 0) ->
  exists ys, scatter_sub_assign xs ixs rhs = Ok ys /\ length ys = length xs /\
    forall j, nth j ys 0 + ssum j ixs rhs = nth j xs 0.
Proof.
  intros Hlen HF Hnd Hle. apply scatter_sub_assign_ok_gen; try assumption.
  apply ssum_le_NoDup; assumption.
Qed.

Example scatter_sub_assign_ex :
  scatter_sub_assign [5; 6; 7] [2; 0; 2] [3; 1; 4] = Ok [4; 6; 0] /\
  (forall j, ssum j [2; 0; 2] [3; 1; 4] <= nth j [5; 6; 7] 0) /\
  scatter_sub_assign [5; 6; 7] [2; 0; 2] [3; 1; 5] = Panic.
Proof.
  split. vm_compute; reflexivity. split. 2: vm_compute; reflexivity.
  intros [|[|[|j]]]; vm_compute; lia.
Qed.

Example scatter_sub_assign_hyps_ex :
  length [2; 0] <= length [3; 1; 9] /\ Forall (fun i => i < length [5; 6; 7]) [2; 0] /\ NoDup [2; 0] /\
  (forall i, i < length [2; 0] -> nth i [3; 1; 9] 0 <= nth (nth i [2; 0] 0) [5; 6; 7] 0).
Proof.
  split. cbn [length]; lia. split. repeat constructor. split.
  repeat constructor; cbn [In]; intuition discriminate.
  intros [|[|i]] H; cbn [length] in H; try lia; vm_compute; lia.
Qed.

(* ====================================================================================== *)
(* Part A.5  sort_by                                                                       *)
(* ====================================================================================== *)

Lemma map_nth_seq_id {T} (xs : list T) d : map (fun i => nth i xs d) (seq 0 (length xs)) = xs.
Proof.
  apply nth_ext with (d := d) (d' := d).
  - rewrite map_length, seq_length. reflexivity.
  - rewrite map_length, seq_length. intros i Hi. rewrite nth_map_seq by exact Hi. reflexivity.
Qed.

Theorem sort_by_ok B (OK : BackendOK B) {T} (xs : list T) key :
  length xs = length key ->
  exists r, sort_by B xs key = Ok r /\ Permutation r xs.
Proof.
  intros Hlen. pose proof (@bk_argsort_perm _ OK key) as HP. unfold sort_by.
  destruct xs as [|d xs'].
  - destruct key as [|k key]. 2: discriminate. cbn [length seq] in HP.
    apply Permutation_sym, Permutation_nil in HP. rewrite HP. exists []. split. reflexivity. constructor.
  - rewrite <- Hlen in HP. set (xs := d :: xs') in *.
    exists (map (fun i => nth i xs d) (b_argsort B key)). split.
    + apply gather_ok. eapply Permutation_Forall. apply Permutation_sym. exact HP.
      rewrite Forall_forall. intros i Hi. apply in_seq in Hi. lia.
    + eapply Permutation_trans. apply Permutation_map. exact HP.
      rewrite map_nth_seq_id. apply Permutation_refl.
Qed.

(* the keys, gathered in the same order, come out sorted *)
Theorem sort_by_keys_sorted B (OK : BackendOK B) key :
  exists ks, sort_by B key key = Ok ks /\ StronglySorted le ks /\ Permutation ks key.
Proof.
  pose proof (@bk_argsort_perm _ OK key) as HP.
  exists (map (fun i => nth i key 0) (b_argsort B key)). split; [|split].
  - unfold sort_by. apply gather_ok. eapply Permutation_Forall. apply Permutation_sym. exact HP.
    rewrite Forall_forall. intros i Hi. apply in_seq in Hi. lia.
  - apply (@bk_argsort_sorted _ OK).
  - eapply Permutation_trans. apply Permutation_map. exact HP.
    rewrite map_nth_seq_id. apply Permutation_refl.
Qed.

(* both at once: xs and key are rearranged by the same index list, and the keys end up sorted *)
Theorem sort_by_ok_sorted B (OK : BackendOK B) {T} (xs : list T) key :
  length xs = length key ->
  exists r ks, sort_by B xs key = Ok r /\ sort_by B key key = Ok ks /\
    Permutation (combine ks r) (combine key xs) /\ StronglySorted le ks.
Proof.
  intros Hlen. pose proof (@bk_argsort_perm _ OK key) as HP.
  destruct xs as [|d xs'].
  - destruct key as [|k key]. 2: discriminate. cbn [length seq] in HP.
    apply Permutation_sym, Permutation_nil in HP. unfold sort_by. rewrite HP. exists [], []. repeat split; constructor.
  - set (xs := d :: xs') in *.
    assert (HF : Forall (fun i => i < length key) (b_argsort B key)).
    { eapply Permutation_Forall. apply Permutation_sym. exact HP.
      rewrite Forall_forall. intros i Hi. apply in_seq in Hi. lia. }
    exists (map (fun i => nth i xs d) (b_argsort B key)), (map (fun i => nth i key 0) (b_argsort B key)).
    split; [|split; [|split]].
    + apply gather_ok. rewrite Hlen. exact HF.
    + apply gather_ok. exact HF.
    + assert (Hc : forall l, combine (map (fun i => nth i key 0) l) (map (fun i => nth i xs d) l)
                           = map (fun i => (nth i key 0, nth i xs d)) l).
      { induction l as [|a l IHl]. reflexivity. cbn [map combine]. rewrite IHl. reflexivity. }
      rewrite Hc. eapply Permutation_trans. apply Permutation_map. exact HP.
      rewrite <- Hc. rewrite map_nth_seq_id. rewrite <- Hlen. rewrite map_nth_seq_id.
      apply Permutation_refl.
    + apply (@bk_argsort_sorted _ OK).
Qed.

Example sort_by_ex :
  sort_by VecBackend [(30, true); (10, false); (40, true); (20, false)] [2; 0; 3; 1]
  = Ok [(10, false); (20, false); (30, true); (40, true)].
Proof. vm_compute. reflexivity. Qed.

(* ====================================================================================== *)
(* Part A.6  segmented_sum, segmented_arange                                               *)
(* ====================================================================================== *)

Lemma list_sum_cons k l : list_sum (k :: l) = k + list_sum l.
Proof. reflexivity. Qed.

Lemma skipn_skipn' {T} a : forall k (l : list T), skipn k (skipn a l) = skipn (a + k) l.
Proof.
  induction a as [|a IH]; intros k l. reflexivity.
  destruct l as [|x l]. cbn [skipn Nat.add]. apply skipn_nil.
  cbn [skipn Nat.add]. apply IH.
Qed.

Lemma firstn_add {T} a : forall k (l : list T), firstn (a + k) l = firstn a l ++ firstn k (skipn a l).
Proof.
  induction a as [|a IH]; intros k l. reflexivity.
  destruct l as [|x l]. cbn [skipn Nat.add firstn]. rewrite firstn_nil. reflexivity.
  cbn [skipn Nat.add firstn app]. rewrite IH. reflexivity.
Qed.

Lemma combine_app {A B} (l1 l2 : list A) (r1 r2 : list B) :
  length l1 = length r1 -> combine (l1 ++ l2) (r1 ++ r2) = combine l1 r1 ++ combine l2 r2.
Proof.
  revert r1; induction l1 as [|a l1 IH]; intros [|b r1] H; cbn [length] in H; try lia.
  reflexivity. cbn [app combine]. rewrite IH by lia. reflexivity.
Qed.

Lemma skipn_1_tl {T} (l : list T) : skipn 1 l = tl l.
Proof. destruct l; reflexivity. Qed.

(* the two index lists read off the pointer array *)
Definition hi_ix (a : nat) (sizes : list nat) : list nat := tl (cumsum_from a sizes).
Definition lo_ix (a : nat) (sizes : list nat) : list nat := removelast (cumsum_from a sizes).

Lemma hi_ix_nil a : hi_ix a [] = [].
Proof. reflexivity. Qed.
Lemma lo_ix_nil a : lo_ix a [] = [].
Proof. reflexivity. Qed.
Lemma hi_ix_cons a k rest : hi_ix a (k :: rest) = (a + k) :: hi_ix (a + k) rest.
Proof. unfold hi_ix. destruct rest; reflexivity. Qed.
Lemma lo_ix_cons a k rest : lo_ix a (k :: rest) = a :: lo_ix (a + k) rest.
Proof. unfold lo_ix. destruct rest; reflexivity. Qed.

Lemma hi_ix_length sizes : forall a, length (hi_ix a sizes) = length sizes.
Proof.
  induction sizes as [|k rest IH]; intros a. reflexivity.
  rewrite hi_ix_cons. cbn [length]. rewrite IH. reflexivity.
Qed.
Lemma lo_ix_length sizes : forall a, length (lo_ix a sizes) = length sizes.
Proof.
  induction sizes as [|k rest IH]; intros a. reflexivity.
  rewrite lo_ix_cons. cbn [length]. rewrite IH. reflexivity.
Qed.

Section SegSum.
  Variable xs : list nat.
  Let f (i : nat) : nat := nth i (cumulative_sum xs) 0.

  Lemma f_diff a k : a + k <= length xs ->
    f a <= f (a + k) /\ f (a + k) - f a = list_sum (firstn k (skipn a xs)).
  Proof.
    intros H. unfold f. rewrite !nth_cumulative_sum by lia.
    rewrite firstn_add, list_sum_app. lia.
  Qed.

  Lemma seg_core sizes : forall a, a + list_sum sizes <= length xs ->
    Forall (fun i => i <= length xs) (hi_ix a sizes) /\
    Forall (fun i => i <= length xs) (lo_ix a sizes) /\
    Forall (fun p => snd p <= fst p) (combine (map f (hi_ix a sizes)) (map f (lo_ix a sizes))) /\
    map (fun p => fst p - snd p) (combine (map f (hi_ix a sizes)) (map f (lo_ix a sizes)))
    = map (@list_sum) (segs sizes (skipn a xs)).
  Proof.
    induction sizes as [|k rest IH]; intros a H.
    - rewrite hi_ix_nil, lo_ix_nil. cbn [map combine segs]. repeat split; constructor.
    - rewrite list_sum_cons in H. rewrite hi_ix_cons, lo_ix_cons.
      destruct (IH (a + k)) as (H1 & H2 & H3 & H4). lia.
      destruct (f_diff a k) as [Hle Hd]. lia.
      cbn [map combine segs]. split; [|split; [|split]].
      + constructor. lia. exact H1.
      + constructor. lia. exact H2.
      + constructor. exact Hle. exact H3.
      + cbn [fst snd]. rewrite Hd, H4, skipn_skipn'. reflexivity.
  Qed.
End SegSum.

Theorem segmented_sum_ok sizes xs : list_sum sizes = length xs ->
  segmented_sum sizes xs = Ok (map (@list_sum) (segs sizes xs)).
Proof.
  intros Hsum. unfold segmented_sum.
  pose proof (cumulative_sum_length sizes) as Hpl.
  destruct (@seg_core xs sizes 0) as (H1 & H2 & H3 & H4). lia.
  rewrite get_range_RFrom by lia. cbn [bind]. rewrite skipn_1_tl.
  change (tl (cumulative_sum sizes)) with (hi_ix 0 sizes).
  rewrite (gather_ok _ 0).
  2:{ eapply Forall_impl. 2: exact H1. intros i Hi. cbv beta in *.
      rewrite cumulative_sum_length. lia. }
  cbn [bind]. unfold sub_chk.
  replace (1 <=? length (cumulative_sum sizes)) with true by (symmetry; apply Nat.leb_le; lia).
  cbn [bind]. rewrite get_range_RTo by lia. cbn [bind].
  rewrite Nat.sub_1_r, <- removelast_firstn_len.
  change (removelast (cumulative_sum sizes)) with (lo_ix 0 sizes).
  rewrite (gather_ok _ 0).
  2:{ eapply Forall_impl. 2: exact H2. intros i Hi. cbv beta in *.
      rewrite cumulative_sum_length. lia. }
  cbn [bind]. rewrite asub_ok.
  - f_equal. exact H4.
  - rewrite !map_length, hi_ix_length, lo_ix_length. reflexivity.
  - exact H3.
Qed.

Example segmented_sum_ex :
  segmented_sum [2; 0; 3] [1; 2; 3; 4; 5] = Ok [3; 0; 12] /\
  list_sum [2; 0; 3] = length [1; 2; 3; 4; 5] /\
  segs [2; 0; 3] [1; 2; 3; 4; 5] = [[1; 2]; []; [3; 4; 5]].
Proof. vm_compute. repeat split. Qed.

(* ---- segmented_arange ---- *)
Lemma seq_sub_repeat k : forall a b,
  Forall (fun p => snd p <= fst p) (combine (seq (a + b) k) (repeat a k)) /\
  map (fun p => fst p - snd p) (combine (seq (a + b) k) (repeat a k)) = seq b k.
Proof.
  induction k as [|k IH]; intros a b; cbn [seq repeat combine map].
  - split; constructor.
  - destruct (IH a (S b)) as [H1 H2]. replace (a + S b) with (S (a + b)) in H1, H2 by lia.
    split.
    + constructor. cbn [fst snd]. lia. exact H1.
    + cbn [fst snd]. rewrite H2. f_equal. lia.
Qed.

Lemma sa_core sizes : forall a,
  let r := flat_map (fun p => repeat (snd p) (fst p)) (combine sizes (lo_ix a sizes)) in
  length r = list_sum sizes /\
  Forall (fun p => snd p <= fst p) (combine (seq a (list_sum sizes)) r) /\
  map (fun p => fst p - snd p) (combine (seq a (list_sum sizes)) r) = flat_map (seq 0) sizes.
Proof.
  induction sizes as [|k rest IH]; intros a.
  - cbn. repeat split; constructor.
  - cbv zeta. rewrite lo_ix_cons, list_sum_cons. cbn [combine flat_map fst snd].
    destruct (IH (a + k)) as (H1 & H2 & H3). cbv zeta in H1, H2, H3.
    destruct (seq_sub_repeat k a 0) as [G1 G2]. rewrite Nat.add_0_r in G1, G2.
    rewrite seq_app, combine_app by (rewrite seq_length, repeat_length; reflexivity).
    split; [|split].
    + rewrite app_length, repeat_length, H1. reflexivity.
    + apply Forall_app. split; assumption.
    + rewrite map_app, G2, H3. reflexivity.
Qed.

Theorem segmented_arange_ok sizes : segmented_arange sizes = Ok (flat_map (seq 0) sizes).
Proof.
  unfold segmented_arange.
  pose proof (cumulative_sum_length sizes) as Hpl.
  destruct (sa_core sizes 0) as (H1 & H2 & H3). cbv zeta in H1, H2, H3.
  unfold sub_chk.
  replace (1 <=? length (cumulative_sum sizes)) with true by (symmetry; apply Nat.leb_le; lia).
  cbn [bind]. rewrite (get_ok _ 0) by lia. cbn [bind].
  rewrite get_range_RTo by lia. cbn [bind].
  rewrite Nat.sub_1_r, <- removelast_firstn_len.
  change (removelast (cumulative_sum sizes)) with (lo_ix 0 sizes).
  rewrite Hpl. cbn [Nat.pred]. rewrite nth_cumulative_sum by lia. rewrite firstn_all.
  rewrite arepeat_ok by (rewrite lo_ix_length; reflexivity). cbn [bind].
  rewrite arange_ok by lia. cbn [bind]. rewrite Nat.sub_0_r.
  rewrite asub_ok.
  - f_equal. exact H3.
  - rewrite seq_length, H1. reflexivity.
  - exact H2.
Qed.

Example segmented_arange_ex : segmented_arange [2; 0; 3] = Ok [0; 1; 0; 1; 2].
Proof. vm_compute. reflexivity. Qed.

(* ====================================================================================== *)
(* closedness                                                                              *)
(* ====================================================================================== *)
Print Assumptions vec_argsort_perm.
Print Assumptions vec_argsort_sorted.
Print Assumptions vec_argsort_stable.
Print Assumptions adv_argsort_perm.
Print Assumptions adv_argsort_sorted.
Print Assumptions vec_sparse_ok.
Print Assumptions adv_sparse_ok.
Print Assumptions vec_scatter_ok.
Print Assumptions adv_scatter_ok.
Print Assumptions vec_scatter_last_wins.
Print Assumptions adv_scatter_first_wins.
Print Assumptions VecBackend_ok_from_cc.
Print Assumptions AdvBackend_ok_from_cc.
Print Assumptions segmented_sum_ok.
Print Assumptions segmented_arange_ok.
Print Assumptions get_range_spec.
Print Assumptions quot_rem_ok.
Print Assumptions mul_constant_add_ok.
Print Assumptions amax_spec.
Print Assumptions amax_none.
Print Assumptions scatter_assign_ok.
Print Assumptions scatter_assign_ok_iff.
Print Assumptions scatter_sub_assign_ok_gen.
Print Assumptions scatter_sub_assign_ok.
Print Assumptions sort_by_ok.
Print Assumptions sort_by_ok_sorted.
