(* C08: segmented arrays (IndexedCoproduct) behave as lists of lists and keep their size
   invariant; iterators enumerate the slices; Operations is a zip of three lists. *)
From OHG Require Import Spec.Plain Proofs.PrimsThm Proofs.SegThm.

Set Implicit Arguments.

Arguments Nat.sub : simpl never.

(* evaluation of a finite function at a point *)
Definition ff_app (g : ff) (i : nat) : nat := nth i (table g) 0.

(* ---------- the two value kinds, uniformly ---------- *)
(* [tbl v] is the underlying array of a value, [rebuild v t] a value of the same kind over the
   array [t] (same target, for finite functions) *)
Record VLaws (V T : Type) (O : VOps V) (tbl : V -> list T) (rebuild : V -> list T -> V) : Prop := {
  vl_len : forall v, vlen O v = length (tbl v);
  vl_tbl : forall v t, tbl (rebuild v t) = t;
  vl_pre : forall f v, vpre O f v =
      if target f =? vlen O v
      then t <- gather (tbl v) (table f) ;; Ok (Some (rebuild v t))
      else Ok None;
}.

Definition ff_rebuild (v : ff) (t : list nat) : ff := mkFF t (target v).
Definition semi_rebuild {T} (v t : list T) : list T := t.

Lemma ff_laws : VLaws ff_vops table ff_rebuild.
Proof.
  constructor.
  - reflexivity.
  - reflexivity.
  - intros f v. cbn [vpre vlen ff_vops]. unfold ff_compose.
    destruct (target f =? ff_source v); auto.
    rewrite get_range_full. reflexivity.
Qed.

Lemma semi_laws T : VLaws (semi_vops T) (fun v => v) (@semi_rebuild T).
Proof.
  constructor.
  - reflexivity.
  - reflexivity.
  - intros f v. cbn [vpre vlen semi_vops]. unfold ff_compose_semi.
    destruct (target f =? length v); auto.
    rewrite get_range_full. reflexivity.
Qed.

Definition decode_g {V T} (tbl : V -> list T) (c : ic V) : list (list T) :=
  segs (table (ic_sources c)) (tbl (ic_values c)).

Lemma decode_f_g c : decode_f c = decode_g table c.
Proof. reflexivity. Qed.
Lemma decode_s_g T (c : ic (list T)) : decode_s c = decode_g (fun v => v) c.
Proof. reflexivity. Qed.

(* ---------- basic facts about segs (restated from SegThm) ---------- *)
Theorem C08_segs_length T sizes (v : list T) : length (segs sizes v) = length sizes.
Proof. apply segs_length. Qed.

Theorem C08_segs_concat T sizes (v : list T) :
  list_sum sizes = length v -> concat (segs sizes v) = v.
Proof. apply segs_concat. Qed.

Theorem C08_segs_app T s1 s2 (v1 v2 : list T) : list_sum s1 = length v1 ->
  segs (s1 ++ s2) (v1 ++ v2) = segs s1 v1 ++ segs s2 v2.
Proof. apply segs_app. Qed.

Theorem C08_segs_nth T sizes (v : list T) i :
  nth i (segs sizes v) [] = firstn (nth i sizes 0) (skipn (list_sum (firstn i sizes)) v).
Proof. apply segs_nth. Qed.

Lemma wf_decode_concat V T (O : VOps V) (tbl : V -> list T) rb (L : VLaws O tbl rb) c :
  wf_ic (vlen O) c -> length (decode_g tbl c) = ic_len c /\ concat (decode_g tbl c) = tbl (ic_values c).
Proof.
  intros [_ H]. unfold decode_g. split. apply segs_length.
  apply segs_concat. rewrite H. apply (vl_len L).
Qed.

(* ---------- new / from_semifinite ---------- *)
Section New.
  Variables (V : Type) (O : VOps V).

  Lemma wf_ic_dec (c : ic V) : {wf_ic (vlen O) c} + {~ wf_ic (vlen O) c}.
  Proof.
    unfold wf_ic.
    destruct (Nat.eq_dec (target (ic_sources c)) (list_sum (table (ic_sources c)) + 1));
    destruct (Nat.eq_dec (list_sum (table (ic_sources c))) (vlen O (ic_values c))); tauto.
  Qed.

  Lemma ic_validate_wf c : wf_ic (vlen O) c -> ic_validate O c = Ok (Some c).
  Proof.
    intros [H1 H2]. unfold ic_validate. rewrite asum_ok. cbn [bind].
    apply Nat.eqb_eq in H1, H2. rewrite H1, H2. reflexivity.
  Qed.

  Lemma ic_validate_nwf c : ~ wf_ic (vlen O) c -> ic_validate O c = Ok None.
  Proof.
    intros H. unfold ic_validate. rewrite asum_ok. cbn [bind].
    destruct (target (ic_sources c) =? list_sum (table (ic_sources c)) + 1) eqn:E1; auto.
    destruct (list_sum (table (ic_sources c)) =? vlen O (ic_values c)) eqn:E2; auto.
    exfalso. apply H. apply Nat.eqb_eq in E1, E2. split; auto.
  Qed.

  Theorem C08_new_iff s v c :
    ic_new O s v = Ok (Some c) <-> c = mkIC s v /\ wf_ic (vlen O) c.
  Proof.
    unfold ic_new. destruct (wf_ic_dec (mkIC s v)) as [W|W].
    - rewrite ic_validate_wf by auto. split.
      + intros H. inversion H; subst. auto.
      + intros [-> _]. reflexivity.
    - rewrite ic_validate_nwf by auto. split.
      + discriminate.
      + intros [-> W']. contradiction.
  Qed.

  Theorem C08_new_none s v : ~ wf_ic (vlen O) (mkIC s v) -> ic_new O s v = Ok None.
  Proof. apply ic_validate_nwf. Qed.

  Theorem C08_new_some s v : wf_ic (vlen O) (mkIC s v) -> ic_new O s v = Ok (Some (mkIC s v)).
  Proof. apply ic_validate_wf. Qed.

  (* never Panic, never Fuel *)
  Theorem C08_new_total s v : ic_new O s v = Ok None \/ ic_new O s v = Ok (Some (mkIC s v)).
  Proof.
    destruct (wf_ic_dec (mkIC s v)); [right; apply C08_new_some | left; apply C08_new_none]; auto.
  Qed.

  Lemma fold_max_le_sum xs : forall x, fold_left Nat.max xs x <= x + list_sum xs.
  Proof.
    induction xs as [|y xs IH]; intros x; simpl. lia.
    specialize (IH (Nat.max x y)). lia.
  Qed.

  Lemma amax_le_sum l m : amax l = Some m -> m <= list_sum l.
  Proof.
    destruct l as [|x xs]; simpl; intros H; inversion H. apply fold_max_le_sum.
  Qed.

  Lemma ff_new_some t n f : ff_new t n = Some f -> f = mkFF t n.
  Proof.
    unfold ff_new. destruct (amax t) as [m|]. destruct (n <=? m). discriminate.
    all: intros H; inversion H; reflexivity.
  Qed.

  Lemma ff_new_lt_sum t n : list_sum t < n -> ff_new t n = Some (mkFF t n).
  Proof.
    intros H. unfold ff_new. destruct (amax t) as [m|] eqn:E; auto.
    apply amax_le_sum in E. destruct (n <=? m) eqn:E2; auto. apply Nat.leb_le in E2. lia.
  Qed.

  Lemma from_semifinite_ok sizes v : list_sum sizes = vlen O v ->
    ic_from_semifinite O sizes v = Ok (Some (mkIC (mkFF sizes (vlen O v + 1)) v)).
  Proof.
    intros H. unfold ic_from_semifinite. rewrite ff_new_lt_sum by lia.
    apply ic_validate_wf. split; simpl; lia.
  Qed.

  Theorem C08_from_semifinite_none sizes v : list_sum sizes <> vlen O v ->
    ic_from_semifinite O sizes v = Ok None.
  Proof.
    intros H. unfold ic_from_semifinite.
    destruct (ff_new sizes (vlen O v + 1)) as [s|] eqn:E; auto.
    apply ff_new_some in E. subst s. apply ic_validate_nwf.
    intros [W1 W2]. simpl in *. lia.
  Qed.

  Theorem C08_from_semifinite_iff sizes v c :
    ic_from_semifinite O sizes v = Ok (Some c) <->
    list_sum sizes = vlen O v /\ c = mkIC (mkFF sizes (vlen O v + 1)) v.
  Proof.
    destruct (Nat.eq_dec (list_sum sizes) (vlen O v)) as [E|E].
    - rewrite from_semifinite_ok by auto. split.
      + intros H. inversion H; auto.
      + intros [_ ->]. reflexivity.
    - rewrite C08_from_semifinite_none by auto. split.
      + discriminate.
      + intros [E' _]. contradiction.
  Qed.

  Theorem C08_from_semifinite_wf sizes v c :
    ic_from_semifinite O sizes v = Ok (Some c) -> wf_ic (vlen O) c.
  Proof.
    intros H. apply C08_from_semifinite_iff in H. destruct H as [E ->]. split; simpl; lia.
  Qed.
End New.

(* ---------- singleton / elements / initial ---------- *)
Section Simple.
  Variables (V T : Type) (O : VOps V) (tbl : V -> list T) (rb : V -> list T -> V).
  Hypothesis L : VLaws O tbl rb.

  Theorem C08_singleton_wf v : wf_ic (vlen O) (ic_singleton O v).
  Proof. split; simpl; lia. Qed.

  Theorem C08_singleton_decode v : decode_g tbl (ic_singleton O v) = [tbl v].
  Proof. unfold decode_g. cbn. rewrite (vl_len L). rewrite firstn_all. reflexivity. Qed.

  Theorem C08_elements_ok v :
    ic_elements O v = Ok (mkIC (mkFF (repeat 1 (vlen O v)) (vlen O v + 1)) v).
  Proof.
    unfold ic_elements, fill.
    assert (E : list_sum (repeat 1 (vlen O v)) = vlen O v) by (rewrite list_sum_repeat; lia).
    rewrite ff_new_lt_sum by lia. cbn [unwrap bind].
    rewrite C08_new_some. reflexivity. split; simpl; lia.
  Qed.

  Theorem C08_elements_wf v c : ic_elements O v = Ok c -> wf_ic (vlen O) c.
  Proof.
    rewrite C08_elements_ok. intros H. inversion H; subst.
    assert (E : list_sum (repeat 1 (vlen O v)) = vlen O v) by (rewrite list_sum_repeat; lia).
    split; simpl; lia.
  Qed.

  Theorem C08_elements_decode v c :
    ic_elements O v = Ok c -> decode_g tbl c = map (fun x => [x]) (tbl v).
  Proof.
    rewrite C08_elements_ok. intros H. inversion H; subst. unfold decode_g. cbn.
    rewrite (vl_len L). apply segs_repeat1.
  Qed.
End Simple.

Theorem C08_singleton_f v : wf_ff v ->
  wf_icf (ic_singleton ff_vops v) /\ decode_f (ic_singleton ff_vops v) = [table v].
Proof.
  intros H. split. split. apply C08_singleton_wf. exact H.
  apply (C08_singleton_decode ff_laws).
Qed.

Theorem C08_singleton_s T (v : list T) :
  wf_ics (ic_singleton (semi_vops T) v) /\ decode_s (ic_singleton (semi_vops T) v) = [v].
Proof. split. apply C08_singleton_wf. apply (C08_singleton_decode (semi_laws T)). Qed.

Theorem C08_elements_f v : wf_ff v ->
  exists c, ic_elements ff_vops v = Ok c /\ wf_icf c /\ decode_f c = map (fun x => [x]) (table v).
Proof.
  intros H. eexists. split. apply C08_elements_ok. split. split.
  - apply (@C08_elements_wf _ ff_vops v). apply C08_elements_ok.
  - exact H.
  - apply (C08_elements_decode ff_laws). apply C08_elements_ok.
Qed.

Theorem C08_elements_s T (v : list T) :
  exists c, ic_elements (semi_vops T) v = Ok c /\ wf_ics c /\ decode_s c = map (fun x => [x]) v.
Proof.
  eexists. split. apply C08_elements_ok. split.
  - apply (@C08_elements_wf _ (semi_vops T) v). apply C08_elements_ok.
  - apply (C08_elements_decode (semi_laws T)). apply C08_elements_ok.
Qed.

Theorem C08_initial tg : wf_icf (icf_initial tg) /\ decode_f (icf_initial tg) = [].
Proof. split. split. split; reflexivity. constructor. reflexivity. Qed.

(* ---------- coproduct / tensor ---------- *)
Lemma wf_ic_target_pos V (vl : V -> nat) c : wf_ic vl c -> 1 <= target (ic_sources c).
Proof. intros [H _]. lia. Qed.

(* the exact panic condition of coproduct and tensor: 0 + 0 - 1 *)
Theorem C08_coproduct_panic_iff V (O : VOps V) c d :
  ic_coproduct O c d = Panic <-> target (ic_sources c) + target (ic_sources d) = 0.
Proof.
  unfold ic_coproduct, sub_chk.
  destruct (1 <=? target (ic_sources c) + target (ic_sources d)) eqn:E; cbn [bind].
  - apply Nat.leb_le in E. split. discriminate. lia.
  - apply Nat.leb_gt in E. split; auto. lia.
Qed.

Theorem C08_tensor_panic_iff c d :
  icf_tensor c d = Panic <-> target (ic_sources c) + target (ic_sources d) = 0.
Proof.
  unfold icf_tensor, sub_chk.
  destruct (1 <=? target (ic_sources c) + target (ic_sources d)) eqn:E; cbn [bind].
  - apply Nat.leb_le in E. split. discriminate. lia.
  - apply Nat.leb_gt in E. split; auto. lia.
Qed.

Theorem C08_coproduct_s T (c d : ic (list T)) : wf_ics c -> wf_ics d ->
  exists r, ic_coproduct (semi_vops T) c d = Ok (Some r) /\ wf_ics r /\
            decode_s r = decode_s c ++ decode_s d /\ ic_values r = ic_values c ++ ic_values d.
Proof.
  intros [C1 C2] [D1 D2]. unfold ic_coproduct. rewrite sub_chk_ok by lia. cbn [bind vadd semi_vops option_map].
  eexists. split. reflexivity. split; [|split].
  - split; cbn; rewrite list_sum_app. lia. rewrite app_length. lia.
  - unfold decode_s. cbn. apply segs_app. exact C2.
  - reflexivity.
Qed.

Theorem C08_coproduct_f (c d : icf) : wf_icf c -> wf_icf d ->
  target (ic_values c) = target (ic_values d) ->
  exists r, ic_coproduct ff_vops c d = Ok (Some r) /\ wf_icf r /\
            decode_f r = decode_f c ++ decode_f d /\
            ic_values r = mkFF (table (ic_values c) ++ table (ic_values d)) (target (ic_values c)).
Proof.
  intros [[C1 C2] C3] [[D1 D2] D3] Ht. unfold ic_coproduct. rewrite sub_chk_ok by lia.
  cbn [bind vadd ff_vops]. unfold ff_coproduct. apply Nat.eqb_eq in Ht. rewrite Ht. apply Nat.eqb_eq in Ht.
  cbn [option_map]. eexists. split. reflexivity. split; [|split].
  - split. split; cbn; rewrite list_sum_app. lia. unfold ff_source in *. cbn. rewrite app_length. lia.
    unfold wf_ff, all_lt in *. cbn. apply Forall_app. split; auto. rewrite Ht. exact D3.
  - unfold decode_f. cbn. apply segs_app. exact C2.
  - reflexivity.
Qed.

Theorem C08_coproduct_f_none (c d : icf) : wf_icf c -> wf_icf d ->
  target (ic_values c) <> target (ic_values d) -> ic_coproduct ff_vops c d = Ok None.
Proof.
  intros [[C1 C2] C3] [[D1 D2] D3] Ht. unfold ic_coproduct. rewrite sub_chk_ok by lia.
  cbn [bind vadd ff_vops]. unfold ff_coproduct. apply Nat.eqb_neq in Ht. rewrite Ht. reflexivity.
Qed.

Theorem C08_tensor (c d : icf) : wf_icf c -> wf_icf d ->
  exists r, icf_tensor c d = Ok r /\ wf_icf r /\
            decode_f r = decode_f c ++ map (map (fun x => x + target (ic_values c))) (decode_f d) /\
            target (ic_values r) = target (ic_values c) + target (ic_values d).
Proof.
  intros [[C1 C2] C3] [[D1 D2] D3]. unfold icf_tensor. rewrite sub_chk_ok by lia. cbn [bind].
  eexists. split. reflexivity. split; [|split].
  - split. split; cbn; rewrite list_sum_app. lia.
    unfold ff_source in *. cbn. unfold add_scalar. rewrite app_length, map_length. lia.
    unfold wf_ff, all_lt, add_scalar in *. cbn. apply Forall_app. split.
    + eapply Forall_impl. 2: exact C3. simpl. intros a Ha. lia.
    + apply Forall_map. eapply Forall_impl. 2: exact D3. simpl. intros a Ha. lia.
  - unfold decode_f. cbn. unfold add_scalar. rewrite segs_app by exact C2.
    rewrite segs_map. reflexivity.
  - reflexivity.
Qed.

(* ---------- iterators ---------- *)
(* the state reached after k successful calls of next *)
Definition it_at {V} (c : ic V) (k : nat) : ic_iter V :=
  mkIter (cumulative_sum (table (ic_sources c))) (ic_values c) k.

(* k successive calls of next, recording the k answers and the final state *)
Fixpoint iter_nexts {V X} (next : ic_iter V -> res (option X * ic_iter V)) (k : nat) (it : ic_iter V)
  : res (list (option X) * ic_iter V) :=
  match k with
  | 0 => Ok ([], it)
  | S k' => '(o, it') <- next it ;; '(os, it'') <- iter_nexts next k' it' ;; Ok (o :: os, it'')
  end.

Lemma map_nth_seq {T} (l : list T) d : map (fun i => nth i l d) (seq 0 (length l)) = l.
Proof.
  apply nth_ext with (d := d) (d' := d). rewrite map_length, seq_length. reflexivity.
  rewrite map_length, seq_length. intros i Hi. rewrite nth_map_seq by auto. reflexivity.
Qed.

Lemma firstn_seq_le k : forall a n, k <= n -> firstn k (seq a n) = seq a k.
Proof.
  induction k as [|k IH]; intros a [|n] H; simpl; try lia; auto.
  rewrite IH by lia. reflexivity.
Qed.

Lemma combine_map_both {A B C} (f : A -> B) (g : A -> C) l :
  combine (map f l) (map g l) = map (fun i => (f i, g i)) l.
Proof. induction l as [|x l IH]; simpl; auto. rewrite IH. reflexivity. Qed.

Section Nexts.
  Variables (V X : Type) (next : ic_iter V -> res (option X * ic_iter V)).
  Variables (st : nat -> ic_iter V) (item : nat -> X) (n : nat).
  Hypothesis Hsome : forall k, k < n -> next (st k) = Ok (Some (item k), st (S k)).
  Hypothesis Hnone : next (st n) = Ok (None, st n).

  Lemma nexts_none m : iter_nexts next m (st n) = Ok (repeat None m, st n).
  Proof.
    induction m as [|m IH]; cbn [iter_nexts repeat]. reflexivity.
    rewrite Hnone. cbn [bind]. rewrite IH. reflexivity.
  Qed.

  Lemma nexts_some m : forall j, j + m <= n ->
    iter_nexts next m (st j) = Ok (map (fun i => Some (item i)) (seq j m), st (j + m)).
  Proof.
    induction m as [|m IH]; intros j H; cbn [iter_nexts seq map].
    - rewrite Nat.add_0_r. reflexivity.
    - rewrite Hsome by lia. cbn [bind]. rewrite IH by lia. cbn [bind].
      replace (S j + m) with (j + S m) by lia. reflexivity.
  Qed.

  Lemma nexts_all_from m : forall d j, j + d = n ->
    iter_nexts next (d + m) (st j)
    = Ok (map (fun i => Some (item i)) (seq j d) ++ repeat None m, st n).
  Proof.
    induction d as [|d IH]; intros j H; cbn [Nat.add iter_nexts seq map app].
    - replace j with n by lia. apply nexts_none.
    - rewrite Hsome by lia. cbn [bind]. rewrite IH by lia. reflexivity.
  Qed.
End Nexts.

Lemma iter_len_at V (c : ic V) k : k <= ic_len c -> ic_iter_len (it_at c k) = Ok (ic_len c - k).
Proof.
  intros H. unfold ic_iter_len, it_at. cbn [it_pointers it_index].
  rewrite cumulative_sum_length, sub_chk_ok by lia. cbn [bind].
  replace (S (length (table (ic_sources c))) - 1) with (ic_len c) by (unfold ic_len, ff_source; lia).
  apply sub_chk_ok. exact H.
Qed.

Lemma slice_seg T (v : list T) sizes k : k < length sizes -> list_sum sizes <= length v ->
  slice v (nth k (cumulative_sum sizes) 0) (nth (k + 1) (cumulative_sum sizes) 0)
  = Ok (nth k (segs sizes v) []).
Proof.
  intros Hk Hs. rewrite !nth_cumulative_sum by lia. rewrite Nat.add_1_r, list_sum_firstn_S by auto.
  pose proof (prefix_plus_size_le sizes k) as P.
  rewrite slice_ok by lia. f_equal. rewrite segs_nth. f_equal. lia.
Qed.

Lemma icf_next_some c k : wf_icf c -> k < ic_len c ->
  icf_iter_next (it_at c k)
  = Ok (Some (mkFF (nth k (decode_f c) []) (target (ic_values c))), it_at c (S k)).
Proof.
  intros [[W1 W2] _] H. unfold ic_len, ff_source in H.
  unfold icf_iter_next, it_at. cbn [it_pointers it_index it_values].
  rewrite cumulative_sum_length, sub_chk_ok by lia. cbn [bind].
  destruct (S (length (table (ic_sources c))) - 1 <=? k) eqn:E.
  { apply Nat.leb_le in E. lia. }
  rewrite (get_ok _ 0) by (rewrite cumulative_sum_length; lia). cbn [bind].
  rewrite (get_ok _ 0) by (rewrite cumulative_sum_length; lia). cbn [bind].
  unfold get_range, to_range. rewrite slice_seg; auto. cbn [bind].
  rewrite Nat.add_1_r. reflexivity.
  unfold ff_source in W2. lia.
Qed.

Lemma ics_next_some T (c : ic (list T)) k : wf_ics c -> k < ic_len c ->
  ics_iter_next (it_at c k) = Ok (Some (nth k (decode_s c) []), it_at c (S k)).
Proof.
  intros [W1 W2] H. unfold ic_len, ff_source in H.
  unfold ics_iter_next, it_at. cbn [it_pointers it_index it_values].
  rewrite cumulative_sum_length, sub_chk_ok by lia. cbn [bind].
  destruct (S (length (table (ic_sources c))) - 1 <=? k) eqn:E.
  { apply Nat.leb_le in E. lia. }
  rewrite (get_ok _ 0) by (rewrite cumulative_sum_length; lia). cbn [bind].
  rewrite (get_ok _ 0) by (rewrite cumulative_sum_length; lia). cbn [bind].
  unfold get_range, to_range. rewrite slice_seg; auto. cbn [bind].
  rewrite Nat.add_1_r. reflexivity.
  lia.
Qed.

Lemma icf_next_none (c : icf) k : ic_len c <= k -> icf_iter_next (it_at c k) = Ok (None, it_at c k).
Proof.
  intros H. unfold ic_len, ff_source in H. unfold icf_iter_next, it_at. cbn [it_pointers it_index].
  rewrite cumulative_sum_length, sub_chk_ok by lia. cbn [bind].
  destruct (S (length (table (ic_sources c))) - 1 <=? k) eqn:E; auto.
  apply Nat.leb_gt in E. lia.
Qed.

Lemma ics_next_none T (c : ic (list T)) k : ic_len c <= k ->
  ics_iter_next (it_at c k) = Ok (None, it_at c k).
Proof.
  intros H. unfold ic_len, ff_source in H. unfold ics_iter_next, it_at. cbn [it_pointers it_index].
  rewrite cumulative_sum_length, sub_chk_ok by lia. cbn [bind].
  destruct (S (length (table (ic_sources c))) - 1 <=? k) eqn:E; auto.
  apply Nat.leb_gt in E. lia.
Qed.

Definition item_f (c : icf) (i : nat) : ff := mkFF (nth i (decode_f c) []) (target (ic_values c)).

Lemma icf_run_from c : wf_icf c -> forall fuel k, k <= ic_len c -> ic_len c - k < fuel ->
  icf_iter_run fuel (it_at c k)
  = Ok (map (fun i => (item_f c i, ic_len c - S i)) (seq k (ic_len c - k))).
Proof.
  intros W. induction fuel as [|fuel IH]; intros k Hk Hf. lia.
  cbn [icf_iter_run]. destruct (Nat.eq_dec k (ic_len c)) as [->|Hne].
  - rewrite icf_next_none by auto. cbn [bind]. rewrite Nat.sub_diag. reflexivity.
  - rewrite icf_next_some by (auto; lia). cbn [bind]. rewrite iter_len_at by lia. cbn [bind].
    rewrite IH by lia. cbn [bind].
    replace (ic_len c - k) with (S (ic_len c - S k)) by lia. reflexivity.
Qed.

Lemma ics_run_from T (c : ic (list T)) : wf_ics c -> forall fuel k, k <= ic_len c -> ic_len c - k < fuel ->
  ics_iter_run fuel (it_at c k)
  = Ok (map (fun i => (nth i (decode_s c) [], ic_len c - S i)) (seq k (ic_len c - k))).
Proof.
  intros W. induction fuel as [|fuel IH]; intros k Hk Hf. lia.
  cbn [ics_iter_run]. destruct (Nat.eq_dec k (ic_len c)) as [->|Hne].
  - rewrite ics_next_none by auto. cbn [bind]. rewrite Nat.sub_diag. reflexivity.
  - rewrite ics_next_some by (auto; lia). cbn [bind]. rewrite iter_len_at by lia. cbn [bind].
    rewrite IH by lia. cbn [bind].
    replace (ic_len c - k) with (S (ic_len c - S k)) by lia. reflexivity.
Qed.

Lemma ics_iter_slices_ok T (c : ic (list T)) : wf_ics c -> ics_iter_slices c = Ok (decode_s c).
Proof.
  intros [W1 W2]. unfold ics_iter_slices.
  rewrite cumulative_sum_length, sub_chk_ok by lia. cbn [bind].
  replace (S (length (table (ic_sources c))) - 1) with (length (table (ic_sources c))) by lia.
  rewrite mapM_ok with (g := fun i => nth i (decode_s c) []).
  - f_equal. rewrite <- (segs_length (table (ic_sources c)) (ic_values c)). apply map_nth_seq.
  - intros i Hi. apply in_seq in Hi.
    rewrite (get_ok _ 0) by (rewrite cumulative_sum_length; lia). cbn [bind].
    rewrite (get_ok _ 0) by (rewrite cumulative_sum_length; lia). cbn [bind].
    apply slice_seg; lia.
Qed.

(* C08_iter, finite-function values *)
Theorem C08_iter_f (c : icf) : wf_icf c ->
  let n := ic_len c in
  let items := map (fun t => mkFF t (target (ic_values c))) (decode_f c) in
  length items = n /\
  ic_into_iter c = it_at c 0 /\
  (* each of the first n calls yields the next slice and advances the state *)
  (forall k, k < n -> icf_iter_next (it_at c k) = Ok (nth_error items k, it_at c (S k))) /\
  (* afterwards: None, state unchanged *)
  icf_iter_next (it_at c n) = Ok (None, it_at c n) /\
  (* k calls in a row, for every k *)
  (forall k, k <= n ->
     iter_nexts icf_iter_next k (ic_into_iter c) = Ok (map Some (firstn k items), it_at c k)) /\
  (forall m, iter_nexts icf_iter_next (n + m) (ic_into_iter c)
             = Ok (map Some items ++ repeat None m, it_at c n)) /\
  (* len() after k successful calls *)
  (forall k, k <= n -> ic_iter_len (it_at c k) = Ok (n - k)) /\
  (* the recorded run: items with the len() observed after each *)
  icf_iter_run (n + 1) (ic_into_iter c)
    = Ok (combine items (map (fun i => n - S i) (seq 0 n))) /\
  icf_collect c = Ok items.
Proof.
  intros W n items.
  assert (Hlen : length (decode_f c) = n) by apply segs_length.
  assert (Hitems : items = map (item_f c) (seq 0 n)).
  { unfold items, item_f. rewrite <- (map_map (fun i => nth i (decode_f c) []) (fun t => mkFF t (target (ic_values c)))).
    rewrite <- Hlen, map_nth_seq. reflexivity. }
  assert (Hnth : forall k, k < n -> nth_error items k = Some (item_f c k)).
  { intros k Hk. rewrite Hitems. rewrite (nth_error_nth' _ (item_f c 0)) by (rewrite map_length, seq_length; auto).
    rewrite nth_map_seq by auto. reflexivity. }
  assert (Hsome : forall k, k < n -> icf_iter_next (it_at c k) = Ok (Some (item_f c k), it_at c (S k))).
  { intros k Hk. apply icf_next_some; auto. }
  assert (Hnone : icf_iter_next (it_at c n) = Ok (None, it_at c n)).
  { apply icf_next_none. unfold n. lia. }
  split; [|split; [|split; [|split; [|split; [|split; [|split; [|split]]]]]]].
  - unfold items. rewrite map_length. exact Hlen.
  - reflexivity.
  - intros k Hk. rewrite Hnth by auto. auto.
  - exact Hnone.
  - intros k Hk. change (ic_into_iter c) with (it_at c 0).
    rewrite (nexts_some icf_iter_next (it_at c) (item_f c) Hsome) by lia.
    rewrite Hitems, firstn_map, firstn_seq_le, map_map by lia. reflexivity.
  - intros m. change (ic_into_iter c) with (it_at c 0).
    rewrite (nexts_all_from icf_iter_next (it_at c) (item_f c) Hsome Hnone) by lia.
    rewrite Hitems, map_map. reflexivity.
  - intros k Hk. apply iter_len_at. exact Hk.
  - change (ic_into_iter c) with (it_at c 0). rewrite icf_run_from by (auto; lia).
    rewrite Nat.sub_0_r. fold n. rewrite Hitems, combine_map_both. reflexivity.
  - unfold icf_collect. change (ic_into_iter c) with (it_at c 0). rewrite icf_run_from by (auto; lia).
    cbn [bind]. rewrite Nat.sub_0_r, map_map. cbn [fst]. fold n. rewrite Hitems. reflexivity.
Qed.

(* C08_iter, label-array values *)
Theorem C08_iter_s T (c : ic (list T)) : wf_ics c ->
  let n := ic_len c in
  let items := decode_s c in
  length items = n /\
  ic_into_iter c = it_at c 0 /\
  (forall k, k < n -> ics_iter_next (it_at c k) = Ok (nth_error items k, it_at c (S k))) /\
  ics_iter_next (it_at c n) = Ok (None, it_at c n) /\
  (forall k, k <= n ->
     iter_nexts (@ics_iter_next T) k (ic_into_iter c) = Ok (map Some (firstn k items), it_at c k)) /\
  (forall m, iter_nexts (@ics_iter_next T) (n + m) (ic_into_iter c)
             = Ok (map Some items ++ repeat None m, it_at c n)) /\
  (forall k, k <= n -> ic_iter_len (it_at c k) = Ok (n - k)) /\
  ics_iter_run (n + 1) (ic_into_iter c)
    = Ok (combine items (map (fun i => n - S i) (seq 0 n))) /\
  ics_collect c = Ok items /\
  ics_iter_slices c = Ok items.
Proof.
  intros W n items.
  assert (Hlen : length (decode_s c) = n) by apply segs_length.
  pose (item := fun i => nth i (decode_s c) []).
  assert (Hitems : items = map item (seq 0 n)).
  { unfold items, item. rewrite <- Hlen, map_nth_seq. reflexivity. }
  assert (Hnth : forall k, k < n -> nth_error items k = Some (item k)).
  { intros k Hk. unfold item. apply nth_error_nth'. unfold items. lia. }
  assert (Hsome : forall k, k < n -> ics_iter_next (it_at c k) = Ok (Some (item k), it_at c (S k))).
  { intros k Hk. apply ics_next_some; auto. }
  assert (Hnone : ics_iter_next (it_at c n) = Ok (None, it_at c n)).
  { apply ics_next_none. unfold n. lia. }
  split; [|split; [|split; [|split; [|split; [|split; [|split; [|split; [|split]]]]]]]].
  - exact Hlen.
  - reflexivity.
  - intros k Hk. rewrite Hnth by auto. auto.
  - exact Hnone.
  - intros k Hk. change (ic_into_iter c) with (it_at c 0).
    rewrite (nexts_some (@ics_iter_next T) (it_at c) item Hsome) by lia.
    rewrite Hitems, firstn_map, firstn_seq_le, map_map by lia. reflexivity.
  - intros m. change (ic_into_iter c) with (it_at c 0).
    rewrite (nexts_all_from (@ics_iter_next T) (it_at c) item Hsome Hnone) by lia.
    rewrite Hitems, map_map. reflexivity.
  - intros k Hk. apply iter_len_at. exact Hk.
  - change (ic_into_iter c) with (it_at c 0). rewrite ics_run_from by (auto; lia).
    rewrite Nat.sub_0_r. fold n. rewrite Hitems, combine_map_both. reflexivity.
  - unfold ics_collect. change (ic_into_iter c) with (it_at c 0). rewrite ics_run_from by (auto; lia).
    cbn [bind]. rewrite Nat.sub_0_r, map_map. cbn [fst]. fold n. rewrite Hitems. reflexivity.
  - apply ics_iter_slices_ok. exact W.
Qed.

(* ---------- Operations ---------- *)
Theorem C08_ops_new_iff O A (x : list A) (a b : ic (list O)) p :
  ops_new x a b = Some p <-> length x = ic_len a /\ length x = ic_len b /\ p = mkOps x a b.
Proof.
  unfold ops_new, ops_validate. cbn [ops_x ops_a ops_b].
  destruct (Nat.eqb_spec (length x) (ic_len a)) as [E1|E1];
    destruct (Nat.eqb_spec (length x) (ic_len b)) as [E2|E2]; cbn [negb orb].
  - split. intros H; inversion H; auto. intros (_ & _ & ->). reflexivity.
  - split. discriminate. intros (_ & H & _). contradiction.
  - split. discriminate. intros (H & _ & _). contradiction.
  - split. discriminate. intros (H & _ & _). contradiction.
Qed.

Theorem C08_ops_new_none O A (x : list A) (a b : ic (list O)) :
  ~ (length x = ic_len a /\ length x = ic_len b) -> ops_new x a b = None.
Proof.
  intros H. destruct (ops_new x a b) as [p|] eqn:E; auto.
  apply C08_ops_new_iff in E. tauto.
Qed.

Theorem C08_ops_iter O A (x : list A) (a b : ic (list O)) : wf_ics a -> wf_ics b ->
  ops_iter (mkOps x a b) = Ok (combine (combine x (decode_s a)) (decode_s b)).
Proof.
  intros Wa Wb. unfold ops_iter. cbn [ops_x ops_a ops_b].
  rewrite !ics_iter_slices_ok by auto. reflexivity.
Qed.

(* with equal counts (i.e. for a validated value) nothing is truncated by the zip *)
Theorem C08_operations O A (x : list A) (a b : ic (list O)) p : wf_ics a -> wf_ics b ->
  ops_new x a b = Some p ->
  exists l, ops_iter p = Ok l /\ l = combine (combine x (decode_s a)) (decode_s b) /\
            length l = ops_len p /\
            map (fun t => fst (fst t)) l = x /\
            map (fun t => snd (fst t)) l = decode_s a /\ map snd l = decode_s b.
Proof.
  intros Wa Wb H. apply C08_ops_new_iff in H. destruct H as (Ha & Hb & ->).
  eexists. split. apply C08_ops_iter; auto. split. reflexivity.
  assert (La : length (decode_s a) = length x) by (unfold decode_s; rewrite segs_length; auto).
  assert (Lb : length (decode_s b) = length x) by (unfold decode_s; rewrite segs_length; auto).
  clear Ha Hb Wa Wb. unfold ops_len. cbn [ops_x].
  revert La Lb. generalize (decode_s a) (decode_s b). clear a b.
  induction x as [|x0 x IH]; intros [|sa la] [|sb lb] La Lb; simpl in *; try lia. auto.
  destruct (IH la lb) as (I1 & I2 & I3 & I4); try lia.
  repeat split; f_equal; auto.
Qed.

Theorem C08_ops_singleton O A (x : A) (a b : list O) :
  ops_new [x] (ic_singleton (semi_vops O) a) (ic_singleton (semi_vops O) b) = Some (ops_singleton x a b) /\
  ops_iter (ops_singleton x a b) = Ok [(x, a, b)].
Proof.
  split. reflexivity.
  unfold ops_singleton. rewrite C08_ops_iter by apply C08_singleton_wf.
  destruct (C08_singleton_s a) as [_ ->]. destruct (C08_singleton_s b) as [_ ->]. reflexivity.
Qed.

(* ---------- map_values / map_semifinite ---------- *)
Theorem C08_map_values (c : icf) g : wf_icf c -> target (ic_values c) = ff_source g ->
  exists r, icf_map_values c g = Ok (Some r) /\
    ic_sources r = ic_sources c /\ target (ic_values r) = target g /\
    wf_ic ff_source r /\ (wf_ff g -> wf_icf r) /\
    decode_f r = map (map (ff_app g)) (decode_f c).
Proof.
  intros [[W1 W2] W3] Ht. unfold icf_map_values, ff_compose.
  rewrite Ht, Nat.eqb_refl, get_range_full. cbn [bind].
  rewrite (gather_ok _ 0).
  2:{ unfold wf_ff, all_lt in W3. rewrite Ht in W3. exact W3. }
  cbn [bind option_map]. eexists. split. reflexivity.
  assert (Wr : wf_ic ff_source
    {| ic_sources := ic_sources c;
       ic_values := {| table := map (fun i => nth i (table g) 0) (table (ic_values c)); target := target g |} |}).
  { split; cbn; auto. unfold ff_source in *. cbn. rewrite map_length. exact W2. }
  split; [|split; [|split; [|split]]]; auto.
  - intros Wg. split. exact Wr. unfold wf_ff, all_lt in *. cbn. apply Forall_map.
    eapply Forall_impl. 2: exact W3. cbn. intros i Hi.
    rewrite Forall_forall in Wg. apply Wg. apply nth_In. unfold ff_source in Ht. lia.
  - unfold decode_f. cbn. apply segs_map.
Qed.

Theorem C08_map_values_none (c : icf) g :
  target (ic_values c) <> ff_source g -> icf_map_values c g = Ok None.
Proof.
  intros H. unfold icf_map_values, ff_compose. apply Nat.eqb_neq in H. rewrite H. reflexivity.
Qed.

(* outside well-formedness of the values: an index out of bounds *)
Theorem C08_map_values_panic (c : icf) g :
  target (ic_values c) = ff_source g -> ~ wf_ff (ic_values c) -> icf_map_values c g = Panic.
Proof.
  intros Ht H. unfold icf_map_values, ff_compose.
  rewrite Ht, Nat.eqb_refl, get_range_full. cbn [bind].
  rewrite gather_panic. reflexivity.
  unfold wf_ff, all_lt in H. rewrite Ht in H. exact H.
Qed.

Theorem C08_map_semifinite T (c : icf) (x : list T) (d : T) :
  wf_icf c -> target (ic_values c) = length x ->
  exists r, icf_map_semifinite c x = Ok (Some r) /\
    ic_sources r = ic_sources c /\ wf_ics r /\
    decode_s r = map (map (fun i => nth i x d)) (decode_f c).
Proof.
  intros [[W1 W2] W3] Ht. unfold icf_map_semifinite, ff_compose_semi.
  rewrite Ht, Nat.eqb_refl, get_range_full. cbn [bind].
  rewrite (gather_ok _ d).
  2:{ unfold wf_ff, all_lt in W3. rewrite Ht in W3. exact W3. }
  cbn [bind option_map]. eexists. split. reflexivity.
  split; [|split]; auto.
  - split; cbn; auto. rewrite map_length. exact W2.
  - unfold decode_s. cbn. apply segs_map.
Qed.

Theorem C08_map_semifinite_none T (c : icf) (x : list T) :
  target (ic_values c) <> length x -> icf_map_semifinite c x = Ok None.
Proof.
  intros H. unfold icf_map_semifinite, ff_compose_semi. apply Nat.eqb_neq in H. rewrite H. reflexivity.
Qed.

Theorem C08_map_semifinite_panic T (c : icf) (x : list T) :
  target (ic_values c) = length x -> ~ wf_ff (ic_values c) -> icf_map_semifinite c x = Panic.
Proof.
  intros Ht H. unfold icf_map_semifinite, ff_compose_semi.
  rewrite Ht, Nat.eqb_refl, get_range_full. cbn [bind].
  rewrite gather_panic. reflexivity.
  unfold wf_ff, all_lt in H. rewrite Ht in H. exact H.
Qed.

(* ---------- indexed_values / map_indexes ---------- *)
Lemma In_firstn {T} (y : T) k : forall l, In y (firstn k l) -> In y l.
Proof. induction k as [|k IH]; intros [|x l] H; simpl in *; try tauto. destruct H; auto. Qed.

Lemma In_skipn {T} (y : T) k : forall l, In y (skipn k l) -> In y l.
Proof. induction k as [|k IH]; intros [|x l] H; simpl in *; try tauto. right; auto. Qed.

Lemma In_seg {T} (y : T) sizes v i : In y (nth i (segs sizes v) []) -> In y v.
Proof. rewrite segs_nth. intros H. apply In_firstn in H. apply In_skipn in H. exact H. Qed.

Section Indexed.
  Variables (V T : Type) (O : VOps V) (tbl : V -> list T) (rb : V -> list T -> V).
  Hypothesis L : VLaws O tbl rb.

  (* the selected segments, in the order (and with the repetitions) of the index array *)
  Definition pick (c : ic V) (x : ff) : list (list T) :=
    map (fun i => nth i (decode_g tbl c) []) (table x).

  Lemma pick_lengths c x : wf_ic (vlen O) c ->
    map (@length T) (pick c x) = map (fun i => nth i (table (ic_sources c)) 0) (table x).
  Proof.
    intros [W1 W2]. unfold pick. rewrite map_map. apply map_ext. intros i.
    unfold decode_g. apply segs_nth_length. rewrite <- (vl_len L). lia.
  Qed.

  Lemma indexed_values_ok c x : wf_ic (vlen O) c -> wf_ff x -> target x = ic_len c ->
    ic_indexed_values O c x = Ok (Some (rb (ic_values c) (concat (pick c x)))).
  Proof.
    intros [W1 W2] Wx Ht. unfold ic_indexed_values.
    rewrite ff_injections_ok by auto. cbn [bind]. rewrite (vl_pre L). cbn [target table].
    rewrite W2, Nat.eqb_refl. unfold inj_table. rewrite gather_flat_ranges.
    2:{ intros i _. rewrite <- (vl_len L), <- W2. apply prefix_plus_size_le. }
    cbn [bind]. do 3 f_equal. unfold pick. rewrite flat_map_concat_map. f_equal.
    apply map_ext. intros i. unfold decode_g. rewrite segs_nth. reflexivity.
  Qed.

  Lemma map_indexes_ok c x : wf_ic (vlen O) c -> wf_ff x -> target x = ic_len c ->
    let vals := rb (ic_values c) (concat (pick c x)) in
    ic_map_indexes O c x
    = Ok (Some (mkIC (mkFF (map (fun i => nth i (table (ic_sources c)) 0) (table x)) (vlen O vals + 1)) vals)).
  Proof.
    intros W Wx Ht vals. unfold ic_map_indexes, ff_compose.
    change (ff_source (ic_sources c)) with (ic_len c). rewrite Ht, Nat.eqb_refl, get_range_full.
    cbn [bind]. rewrite (gather_ok _ 0).
    2:{ unfold wf_ff, all_lt in Wx. rewrite Ht in Wx. exact Wx. }
    cbn [bind]. rewrite indexed_values_ok by auto. cbn [bind table]. fold vals.
    apply from_semifinite_ok.
    unfold vals. rewrite (vl_len L), (vl_tbl L), <- pick_lengths by auto.
    apply list_sum_map_length.
  Qed.

  Theorem C08_map_indexes_g c x : wf_ic (vlen O) c -> wf_ff x -> target x = ic_len c ->
    exists r, ic_map_indexes O c x = Ok (Some r) /\ wf_ic (vlen O) r /\
      decode_g tbl r = pick c x /\
      ic_indexed_values O c x = Ok (Some (ic_values r)) /\
      ic_values r = rb (ic_values c) (concat (pick c x)) /\
      tbl (ic_values r) = concat (pick c x).
  Proof.
    intros W Wx Ht. eexists. split. apply map_indexes_ok; auto.
    assert (E : list_sum (map (fun i => nth i (table (ic_sources c)) 0) (table x))
                = vlen O (rb (ic_values c) (concat (pick c x)))).
    { rewrite (vl_len L), (vl_tbl L), <- pick_lengths by auto. apply list_sum_map_length. }
    split; [|split; [|split; [|split]]].
    - split; cbn [ic_sources ic_values table target]; lia.
    - unfold decode_g. cbn [ic_sources ic_values table target].
      rewrite (vl_tbl L), <- pick_lengths by auto. apply segs_of_concat.
    - cbn [ic_values]. apply indexed_values_ok; auto.
    - reflexivity.
    - cbn [ic_values]. apply (vl_tbl L).
  Qed.
End Indexed.

Theorem C08_map_indexes_none V (O : VOps V) c x : target x <> ic_len c ->
  ic_map_indexes O c x = Ok None /\ ic_indexed_values O c x = Ok None.
Proof.
  intros H. split.
  - unfold ic_map_indexes, ff_compose. change (ff_source (ic_sources c)) with (ic_len c).
    apply Nat.eqb_neq in H. rewrite H. reflexivity.
  - unfold ic_indexed_values. rewrite ff_injections_none by auto. reflexivity.
Qed.

Theorem C08_map_indexes_f (c : icf) x : wf_icf c -> wf_ff x -> target x = ic_len c ->
  exists r, ic_map_indexes ff_vops c x = Ok (Some r) /\ wf_icf r /\
    decode_f r = map (fun i => nth i (decode_f c) []) (table x) /\
    target (ic_values r) = target (ic_values c) /\
    ic_indexed_values ff_vops c x = Ok (Some (ic_values r)) /\
    table (ic_values r) = concat (decode_f r).
Proof.
  intros [W W3] Wx Ht.
  destruct (C08_map_indexes_g ff_laws W Wx Ht) as (r & R1 & R2 & R3 & R4 & R5 & R6).
  exists r. split; [|split; [|split; [|split; [|split]]]]; auto.
  - split. exact R2. unfold wf_ff, all_lt. rewrite R6, R5. cbn [ff_rebuild target].
    apply Forall_forall. intros y Hy. apply in_concat in Hy. destruct Hy as (l & Hl & Hy).
    unfold pick in Hl. apply in_map_iff in Hl. destruct Hl as (i & <- & _).
    apply In_seg in Hy. unfold wf_ff, all_lt in W3. rewrite Forall_forall in W3. auto.
  - rewrite R5. reflexivity.
  - rewrite R6. rewrite decode_f_g, R3. reflexivity.
Qed.

Theorem C08_map_indexes_s T (c : ic (list T)) x : wf_ics c -> wf_ff x -> target x = ic_len c ->
  exists r, ic_map_indexes (semi_vops T) c x = Ok (Some r) /\ wf_ics r /\
    decode_s r = map (fun i => nth i (decode_s c) []) (table x) /\
    ic_indexed_values (semi_vops T) c x = Ok (Some (ic_values r)) /\
    ic_values r = concat (decode_s r).
Proof.
  intros W Wx Ht.
  destruct (C08_map_indexes_g (semi_laws T) W Wx Ht) as (r & R1 & R2 & R3 & R4 & R5 & R6).
  exists r. split; [|split; [|split; [|split]]]; auto.
  rewrite R6 at 1. rewrite decode_s_g, R3. reflexivity.
Qed.

(* ---------- flatmap_sources ---------- *)
Theorem C08_flatmap_sources V W (O : VOps V) (vlW : W -> nat) (c : ic V) (d : ic W) :
  wf_ic (vlen O) c -> wf_ic vlW d -> vlen O (ic_values c) = ic_len d ->
  exists r, ic_flatmap_sources O c d = Ok r /\ wf_ic vlW r /\
    ic_values r = ic_values d /\ ic_len r = ic_len c /\
    forall T (tbl : W -> list T),
      decode_g tbl r = map (@concat T) (segs (table (ic_sources c)) (decode_g tbl d)).
Proof.
  intros [C1 C2] [D1 D2] Hl. unfold ic_flatmap_sources.
  change (ff_source (ic_sources d)) with (ic_len d). rewrite Hl, Nat.eqb_refl. cbn [assert bind].
  unfold ic_len, ff_source in Hl.
  rewrite segmented_sum_ok by lia. cbn [bind].
  eexists. split. reflexivity. split; [|split; [|split]].
  - split; cbn. rewrite segs_sum_concat by lia. exact D1.
    rewrite segs_sum_concat by lia. exact D2.
  - reflexivity.
  - unfold ic_len, ff_source. cbn. rewrite map_length, segs_length. reflexivity.
  - intros T tbl. unfold decode_g. cbn. apply segs_regroup.
Qed.

Theorem C08_flatmap_sources_panic V W (O : VOps V) (c : ic V) (d : ic W) :
  vlen O (ic_values c) <> ic_len d -> ic_flatmap_sources O c d = Panic.
Proof.
  intros H. unfold ic_flatmap_sources. change (ff_source (ic_sources d)) with (ic_len d).
  apply Nat.eqb_neq in H. rewrite H. reflexivity.
Qed.

Theorem C08_flatmap_sources_ff (c d : icf) : wf_icf c -> wf_icf d -> ff_source (ic_values c) = ic_len d ->
  exists r, ic_flatmap_sources ff_vops c d = Ok r /\ wf_icf r /\ ic_values r = ic_values d /\
    decode_f r = map (@concat nat) (segs (table (ic_sources c)) (decode_f d)).
Proof.
  intros [Wc _] [Wd Wd3] Hl.
  destruct (@C08_flatmap_sources _ _ ff_vops ff_source c d Wc Wd Hl) as (r & R1 & R2 & R3 & R4 & R5).
  exists r. split; [|split; [|split]]; auto.
  - split. exact R2. rewrite R3. exact Wd3.
  - apply (R5 _ table).
Qed.

Theorem C08_flatmap_sources_fs T (c : icf) (d : ic (list T)) :
  wf_icf c -> wf_ics d -> ff_source (ic_values c) = ic_len d ->
  exists r, ic_flatmap_sources ff_vops c d = Ok r /\ wf_ics r /\ ic_values r = ic_values d /\
    decode_s r = map (@concat T) (segs (table (ic_sources c)) (decode_s d)).
Proof.
  intros [Wc _] Wd Hl.
  destruct (@C08_flatmap_sources _ _ ff_vops (@length T) c d Wc Wd Hl) as (r & R1 & R2 & R3 & R4 & R5).
  exists r. split; [|split; [|split]]; auto.
  apply (R5 _ (fun v => v)).
Qed.

(* ---------- flatmap ---------- *)
Lemma flatmap_ok (c d : icf) : wf_icf c -> wf_icf d -> target (ic_values c) = ic_len d ->
  let g := fun j => nth j (decode_f d) [] in
  let vals := flat_map g (table (ic_values c)) in
  icf_flatmap c d
  = Ok (mkIC (mkFF (map list_sum (segs (table (ic_sources c))
                                       (map (fun j => length (g j)) (table (ic_values c)))))
                   (length vals + 1))
             (mkFF vals (target (ic_values d)))).
Proof.
  intros [[C1 C2] C3] [[D1 D2] D3] Ht g vals. unfold icf_flatmap.
  rewrite Ht, Nat.eqb_refl. cbn [assert bind].
  unfold ff_compose at 1. change (ff_source (ic_sources d)) with (ic_len d).
  rewrite Ht, Nat.eqb_refl, get_range_full. cbn [bind].
  rewrite (gather_ok _ 0).
  2:{ unfold wf_ff, all_lt in C3. rewrite Ht in C3. exact C3. }
  cbn [bind unwrap table].
  assert (Elen : map (fun i => nth i (table (ic_sources d)) 0) (table (ic_values c))
                 = map (fun j => length (g j)) (table (ic_values c))).
  { apply map_ext. intros j. unfold g, decode_f. symmetry. apply segs_nth_length.
    unfold ff_source in D2. lia. }
  rewrite Elen.
  rewrite segmented_sum_ok by (rewrite map_length; unfold ff_source in C2; lia). cbn [bind].
  rewrite ff_injections_ok by auto. cbn [bind unwrap].
  unfold ff_compose. cbn [target table]. rewrite D2, Nat.eqb_refl, get_range_full. cbn [bind].
  unfold inj_table. rewrite gather_flat_ranges.
  2:{ intros i _. unfold ff_source in D2. rewrite <- D2. apply prefix_plus_size_le. }
  cbn [bind unwrap].
  assert (Evals : flat_map (fun i => firstn (nth i (table (ic_sources d)) 0)
                     (skipn (list_sum (firstn i (table (ic_sources d)))) (table (ic_values d))))
                    (table (ic_values c)) = vals).
  { unfold vals, g, decode_f. apply flat_map_ext. intros j. rewrite segs_nth. reflexivity. }
  rewrite Evals.
  rewrite from_semifinite_ok. reflexivity.
  cbn [vlen ff_vops]. unfold ff_source. cbn [table].
  rewrite segs_sum_concat by (rewrite map_length; unfold ff_source in C2; lia).
  unfold vals. rewrite flat_map_concat_map, <- list_sum_map_length, map_map. reflexivity.
Qed.

Theorem C08_flatmap (c d : icf) : wf_icf c -> wf_icf d -> target (ic_values c) = ic_len d ->
  exists r, icf_flatmap c d = Ok r /\ wf_icf r /\
    target (ic_values r) = target (ic_values d) /\ ic_len r = ic_len c /\
    decode_f r = map (flat_map (fun j => nth j (decode_f d) [])) (decode_f c).
Proof.
  intros Wc Wd Ht. eexists. split. apply flatmap_ok; auto.
  destruct Wc as [[C1 C2] C3]. destruct Wd as [[D1 D2] D3].
  set (g := fun j => nth j (decode_f d) []).
  assert (Esum : list_sum (map list_sum (segs (table (ic_sources c))
                    (map (fun j => length (g j)) (table (ic_values c)))))
                 = length (flat_map g (table (ic_values c)))).
  { rewrite segs_sum_concat by (rewrite map_length; unfold ff_source in C2; lia).
    rewrite flat_map_concat_map, <- list_sum_map_length, map_map. reflexivity. }
  subst g. cbv beta in Esum.
  split; [|split; [|split]].
  - split. split; cbn [ic_sources ic_values table target]. lia.
    unfold ff_source. cbn [table]. exact Esum.
    unfold wf_ff, all_lt. cbn [ic_values table target].
    apply Forall_forall. intros y Hy. apply in_flat_map in Hy. destruct Hy as (j & _ & Hy).
    unfold decode_f in Hy. apply In_seg in Hy.
    unfold wf_ff, all_lt in D3. rewrite Forall_forall in D3. auto.
  - reflexivity.
  - unfold ic_len, ff_source. cbn [ic_sources table]. rewrite map_length, segs_length. reflexivity.
  - unfold decode_f at 1. cbn [ic_sources ic_values table]. apply segs_flat_map.
Qed.

Theorem C08_flatmap_panic (c d : icf) : target (ic_values c) <> ic_len d -> icf_flatmap c d = Panic.
Proof.
  intros H. unfold icf_flatmap. apply Nat.eqb_neq in H. rewrite H. reflexivity.
Qed.

(* ---------- examples: the hypotheses are satisfiable, and the model computes what the
   theorems say (an empty segment, segments of size 2 and 3, a non-injective index array) ---------- *)
Definition ex_cf : icf := mkIC (mkFF [2;0;3] 6) (mkFF [1;0;2;2;1] 3).
Definition ex_df : icf := mkIC (mkFF [1;2;0] 4) (mkFF [4;0;3] 5).
Definition ex_cs : ic (list nat) := mkIC (mkFF [2;0;3] 6) [10;11;12;13;14].
Definition ex_d5 : ic (list nat) := mkIC (mkFF [1;0;2;1;1] 6) [20;21;22;23;24].
Definition ex_x : ff := mkFF [2;2;1;0] 3.
Definition ex_g : ff := mkFF [7;8;9] 10.

Example ex_wf_cf : wf_icf ex_cf.
Proof. split. split; reflexivity. repeat constructor. Qed.
Example ex_wf_df : wf_icf ex_df.
Proof. split. split; reflexivity. repeat constructor. Qed.
Example ex_wf_cs : wf_ics ex_cs.
Proof. split; reflexivity. Qed.
Example ex_wf_d5 : wf_ics ex_d5.
Proof. split; reflexivity. Qed.
Example ex_wf_x : wf_ff ex_x /\ target ex_x = ic_len ex_cf /\ target ex_x = ic_len ex_cs.
Proof. split. repeat constructor. split; reflexivity. Qed.
Example ex_wf_g : wf_ff ex_g /\ target (ic_values ex_cf) = ff_source ex_g.
Proof. split. repeat constructor. reflexivity. Qed.

Example ex_decode_f : decode_f ex_cf = [[1;0]; []; [2;2;1]].
Proof. vm_compute. reflexivity. Qed.
Example ex_decode_s : decode_s ex_cs = [[10;11]; []; [12;13;14]].
Proof. vm_compute. reflexivity. Qed.

Example ex_segs_nth : nth 2 (segs [2;0;3] [10;11;12;13;14]) [] = [12;13;14]
  /\ concat (segs [2;0;3] [10;11;12;13;14]) = [10;11;12;13;14].
Proof. vm_compute. auto. Qed.

Example ex_new :
  ic_new ff_vops (mkFF [2;0;3] 6) (mkFF [1;0;2;2;1] 3) = Ok (Some ex_cf) /\
  ic_new ff_vops (mkFF [2;0;3] 7) (mkFF [1;0;2;2;1] 3) = Ok None /\
  ic_new (semi_vops nat) (mkFF [2;0;3] 6) [10;11;12;13] = Ok None.
Proof. vm_compute. auto. Qed.

(* None at the ff_new test (9 > 5), None at the validation (sum 6 <> 5), Some *)
Example ex_from_semifinite :
  ic_from_semifinite (semi_vops nat) [9;0] [10;11;12;13;14] = Ok None /\
  ic_from_semifinite (semi_vops nat) [2;0;4] [10;11;12;13;14] = Ok None /\
  ic_from_semifinite (semi_vops nat) [2;0;3] [10;11;12;13;14] = Ok (Some ex_cs).
Proof. vm_compute. auto. Qed.

Example ex_singleton_elements :
  decode_s (ic_singleton (semi_vops nat) [5;6;7]) = [[5;6;7]] /\
  rmap (@decode_s nat) (ic_elements (semi_vops nat) [5;6;7]) = Ok [[5];[6];[7]] /\
  rmap decode_f (ic_elements ff_vops (mkFF [] 4)) = Ok [].
Proof. vm_compute. auto. Qed.

Example ex_coproduct_tensor :
  rmap (option_map (@decode_s nat)) (ic_coproduct (semi_vops nat) ex_cs ex_d5)
    = Ok (Some [[10;11]; []; [12;13;14]; [20]; []; [21;22]; [23]; [24]]) /\
  ic_coproduct ff_vops ex_cf ex_df = Ok None /\
  rmap (option_map decode_f) (ic_coproduct ff_vops ex_cf ex_cf)
    = Ok (Some [[1;0]; []; [2;2;1]; [1;0]; []; [2;2;1]]) /\
  rmap decode_f (icf_tensor ex_cf ex_df) = Ok [[1;0]; []; [2;2;1]; [7]; [3;6]; []] /\
  ic_coproduct ff_vops (mkIC (mkFF [] 0) (mkFF [] 0)) (mkIC (mkFF [] 0) (mkFF [] 0)) = Panic.
Proof. vm_compute. repeat split. Qed.

Example ex_map_indexes :
  rmap (option_map decode_f) (ic_map_indexes ff_vops ex_cf ex_x)
    = Ok (Some [[2;2;1]; [2;2;1]; []; [1;0]]) /\
  rmap (option_map table) (ic_indexed_values ff_vops ex_cf ex_x) = Ok (Some [2;2;1;2;2;1;1;0]) /\
  rmap (option_map (@decode_s nat)) (ic_map_indexes (semi_vops nat) ex_cs (mkFF [] 3)) = Ok (Some []) /\
  ic_map_indexes ff_vops ex_cf (mkFF [0] 4) = Ok None.
Proof. vm_compute. repeat split. Qed.

Example ex_map_values :
  rmap (option_map decode_f) (icf_map_values ex_cf ex_g) = Ok (Some [[8;7]; []; [9;9;8]]) /\
  rmap (option_map (@decode_s nat)) (icf_map_semifinite ex_cf [7;8;9]) = Ok (Some [[8;7]; []; [9;9;8]]) /\
  icf_map_values ex_cf (mkFF [7;8] 10) = Ok None.
Proof. vm_compute. repeat split. Qed.

Example ex_flatmap_hyp : target (ic_values ex_cf) = ic_len ex_df.
Proof. reflexivity. Qed.
Example ex_flatmap :
  rmap decode_f (icf_flatmap ex_cf ex_df) = Ok [[0;3;4]; []; [0;3]] /\
  icf_flatmap ex_df ex_cf = Panic.
Proof. vm_compute. repeat split. Qed.

Example ex_flatmap_sources_hyp : ff_source (ic_values ex_cf) = ic_len ex_d5.
Proof. reflexivity. Qed.
Example ex_flatmap_sources :
  rmap (@decode_s nat) (ic_flatmap_sources ff_vops ex_cf ex_d5) = Ok [[20]; []; [21;22;23;24]] /\
  map (@concat nat) (segs (table (ic_sources ex_cf)) (decode_s ex_d5)) = [[20]; []; [21;22;23;24]] /\
  ic_flatmap_sources ff_vops ex_df ex_d5 = Panic.
Proof. vm_compute. repeat split. Qed.

Example ex_iter :
  icf_collect ex_cf = Ok [mkFF [1;0] 3; mkFF [] 3; mkFF [2;2;1] 3] /\
  ics_collect ex_cs = Ok [[10;11]; []; [12;13;14]] /\
  ics_iter_slices ex_cs = Ok [[10;11]; []; [12;13;14]] /\
  rmap fst (iter_nexts (@ics_iter_next nat) 5 (ic_into_iter ex_cs))
    = Ok [Some [10;11]; Some []; Some [12;13;14]; None; None] /\
  ics_iter_run 4 (ic_into_iter ex_cs) = Ok [([10;11], 2); ([], 1); ([12;13;14], 0)].
Proof. vm_compute. repeat split. Qed.

Example ex_operations :
  ops_new [100;101;102] ex_cs ex_cs = Some (mkOps [100;101;102] ex_cs ex_cs) /\
  ops_new [100;101] ex_cs ex_cs = @None (operations nat nat) /\
  ops_iter (mkOps [100;101;102] ex_cs ex_cs)
    = Ok [(100, [10;11], [10;11]); (101, [], []); (102, [12;13;14], [12;13;14])] /\
  ops_iter (ops_singleton 7 [1;2] [3]) = Ok [(7, [1;2], [3])].
Proof. vm_compute. repeat split. Qed.
