(* C09: quotienting a lax (open) hypergraph.
   Model: Model/Lax.v (lhg_coequalizer, map_q, lhg_quotient, lohg_quotient, lhg_unify),
          Model/FinFun.v (ff_coequalizer, coequalizer_universal, ff_compose_semi).
   Rust:  src/lax/hypergraph.rs (coequalizer, quotient), src/lax/open_hypergraph.rs (quotient),
          src/finite_function/arrow.rs (coequalizer_universal). *)
From OHG Require Import Spec.Plain Proofs.PrimsThm.
From Coq Require Import List Arith Lia Bool Permutation.
Import ListNotations.

Arguments Nat.sub : simpl never.

(* ---------- generic list facts ---------- *)
Lemma list_eqb_spec {T} (eqb : T -> T -> bool) :
  (forall x y, eqb x y = true <-> x = y) -> forall a b, list_eqb eqb a b = true <-> a = b.
Proof.
  intros Heq a. induction a as [|x a IH]; intros [|y b]; simpl; split; intros H;
    try discriminate; auto.
  - apply andb_true_iff in H. destruct H as [H1 H2]. apply Heq in H1. apply IH in H2. congruence.
  - inversion H; subst. apply andb_true_iff. split. apply Heq; auto. apply IH; auto.
Qed.

Lemma all_lt_forallb n l : all_lt n l -> forallb (fun x => x <? n) l = true.
Proof.
  intros H. apply forallb_forall. intros x Hx. unfold all_lt in H. rewrite Forall_forall in H.
  apply Nat.ltb_lt. auto.
Qed.

Lemma all_lt_nth n l i : all_lt n l -> i < length l -> nth i l 0 < n.
Proof.
  intros H Hi. unfold all_lt in H. rewrite Forall_forall in H. apply H. apply nth_In. exact Hi.
Qed.

Lemma all_lt_app n l1 l2 : all_lt n l1 -> all_lt n l2 -> all_lt n (l1 ++ l2).
Proof. intros H1 H2. apply Forall_app. split; assumption. Qed.

Lemma all_lt_map n m (g : nat -> nat) l :
  (forall x, x < n -> g x < m) -> all_lt n l -> all_lt m (map g l).
Proof.
  intros Hg H. unfold all_lt in *. rewrite Forall_forall in *. intros y Hy.
  apply in_map_iff in Hy. destruct Hy as (x & <- & Hx). auto.
Qed.

Lemma nth_error_ext {T} (l1 l2 : list T) :
  length l1 = length l2 -> (forall i, i < length l1 -> nth_error l1 i = nth_error l2 i) -> l1 = l2.
Proof.
  revert l2. induction l1 as [|x l1 IH]; intros [|y l2] Hl H; simpl in *; try discriminate; auto.
  f_equal.
  - specialize (H 0 ltac:(lia)). simpl in H. congruence.
  - apply IH. lia. intros i Hi. apply (H (S i)). lia.
Qed.

Lemma map_id_in {X} (g : X -> X) l :
  (forall x, In x l -> g x = x) -> map g l = l.
Proof.
  intros H. induction l as [|x l IH]; simpl; auto. rewrite H by (left; auto).
  rewrite IH; auto. intros y Hy. apply H. right; auto.
Qed.

(* ---------- facts about the equivalence closure [conn] ---------- *)
Lemma conn_invariant {X} (g : nat -> X) P :
  (forall x y, In (x, y) P -> g x = g y) -> forall i j, conn P i j -> g i = g j.
Proof.
  intros H i j C. induction C as [x|x y Hin|x y C IH|x y z C1 IH1 C2 IH2]; auto. congruence.
Qed.

Lemma conn_mono P P' : incl P P' -> forall i j, conn P i j -> conn P' i j.
Proof.
  intros H i j C. induction C as [x|x y Hin|x y C IH|x y z C1 IH1 C2 IH2].
  - apply conn_refl.
  - apply conn_step. auto.
  - apply conn_sym. auto.
  - eapply conn_trans; eauto.
Qed.

Lemma conn_nil i j : conn [] i j -> i = j.
Proof. apply (conn_invariant (fun x => x)). intros x y []. Qed.

Lemma conn_range n P : (forall x y, In (x, y) P -> x < n /\ y < n) ->
  forall i j, conn P i j -> i = j \/ (i < n /\ j < n).
Proof.
  intros H i j C. induction C as [x|x y Hin|x y C IH|x y z C1 IH1 C2 IH2].
  - left; reflexivity.
  - right. auto.
  - destruct IH as [->|[H1 H2]]; auto.
  - destruct IH1 as [->|[H1 H2]]; auto. destruct IH2 as [<-|[H3 H4]]; auto.
Qed.

Lemma in_combine_lt n s t x y : all_lt n s -> all_lt n t -> In (x, y) (combine s t) -> x < n /\ y < n.
Proof.
  intros Hs Ht Hin. unfold all_lt in *. rewrite Forall_forall in *. split.
  - apply Hs. eapply in_combine_l; eauto.
  - apply Ht. eapply in_combine_r; eauto.
Qed.

Lemma combine_snoc {X Y} (s : list X) (t : list Y) x y :
  length s = length t -> combine (s ++ [x]) (t ++ [y]) = combine s t ++ [(x, y)].
Proof.
  revert t. induction s as [|a s IH]; intros [|b t] Hl; simpl in *; try discriminate; auto.
  f_equal. apply IH. lia.
Qed.

(* ---------- the canonical numbering of the Vec back-end on an empty pair list ---------- *)
Lemma index_of_notin x l : ~ In x l -> index_of x l = None.
Proof.
  induction l as [|y l IH]; simpl; intros H; auto.
  destruct (x =? y) eqn:E.
  - apply Nat.eqb_eq in E. exfalso. apply H. left. auto.
  - rewrite IH; auto.
Qed.

Lemma to_dense_from_seq m : forall a, to_dense_from (seq 0 a) (seq a m) = (seq a m, a + m).
Proof.
  induction m as [|m IH]; intros a.
  - simpl. rewrite seq_length. f_equal. lia.
  - cbn [seq to_dense_from]. rewrite index_of_notin by (rewrite in_seq; lia).
    replace (seq 0 a ++ [a]) with (seq 0 (S a)) by (rewrite seq_S; reflexivity).
    rewrite IH. rewrite seq_length. f_equal. lia.
Qed.

Lemma vec_cc_nil n : b_conn_comp VecBackend [] [] n = (seq 0 n, n).
Proof.
  cbn [b_conn_comp VecBackend]. unfold cc_pure, to_dense. cbn [combine fold_left].
  apply (to_dense_from_seq n 0).
Qed.

Definition app (q : ff) (i : nat) : nat := nth i (table q) 0.

(* the back-end numbers the components of the discrete partition 0,1,2,... (true of VecKind, which
   is the back-end the lax module of the crate is hard-wired to; not implied by the contract) *)
Definition cc_canonical (B : Backend) : Prop := forall n, b_conn_comp B [] [] n = (seq 0 n, n).

Lemma vec_cc_canonical : cc_canonical VecBackend.
Proof. exact vec_cc_nil. Qed.

Section C09.
  Variable B : Backend.
  Hypothesis OK : BackendOK B.
  Variables O A : Type.
  Variable eqO : O -> O -> bool.
  Hypothesis eqO_spec : forall x y, eqO x y = true <-> x = y.

  (* ---------- vocabulary ---------- *)
  Definition hn (h : lhg O A) : nat := length (l_nodes h).
  Definition hpending (h : lhg O A) : list (nat * nat) := combine (fst (l_q h)) (snd (l_q h)).

  (* lax well-formedness of a hypergraph: every node reference in the adjacency and in the pending
     pairs is a node; the two pending lists have equal length *)
  Definition hwf (h : lhg O A) : Prop :=
    (forall e, In e (l_adj h) -> all_lt (hn h) (fst e) /\ all_lt (hn h) (snd e)) /\
    all_lt (hn h) (fst (l_q h)) /\ all_lt (hn h) (snd (l_q h)) /\
    length (fst (l_q h)) = length (snd (l_q h)).

  Definition hlabels_consistent (h : lhg O A) : Prop :=
    forall i j, i < hn h -> j < hn h -> conn (hpending h) i j ->
                nth_error (l_nodes h) i = nth_error (l_nodes h) j.

  Definition nn (f : lohg O A) : nat := length (l_nodes (lo_h f)).

  Definition lwf (f : lohg O A) : Prop :=
    hwf (lo_h f) /\ all_lt (nn f) (lo_sources f) /\ all_lt (nn f) (lo_targets f).

  Definition labels_consistent (f : lohg O A) : Prop :=
    forall i j, i < nn f -> j < nn f -> conn (pending f) i j ->
                nth_error (l_nodes (lo_h f)) i = nth_error (l_nodes (lo_h f)) j.

  (* what the coequalizer of the pending pairs is: a surjection with kernel = conn *)
  Definition qspec (q : ff) (n : nat) (P : list (nat * nat)) : Prop :=
    length (table q) = n /\ all_lt (target q) (table q) /\
    (forall j, j < target q -> In j (table q)) /\
    (forall i j, i < n -> j < n -> (app q i = app q j <-> conn P i j)).

  Definition hq (h : lhg O A) : ff :=
    mkFF (fst (b_conn_comp B (fst (l_q h)) (snd (l_q h)) (hn h)))
         (snd (b_conn_comp B (fst (l_q h)) (snd (l_q h)) (hn h))).

  (* ---------- step 1: the coequalizer ---------- *)
  Lemma cc_ok s t n : length s = length t -> all_lt n s -> all_lt n t ->
    connected_components B s t n = Ok (b_conn_comp B s t n).
  Proof.
    intros Hl Hs Ht. unfold connected_components.
    apply Nat.eqb_eq in Hl. rewrite Hl. cbn [assert bind].
    rewrite (all_lt_forallb _ _ Hs), (all_lt_forallb _ _ Ht). reflexivity.
  Qed.

  Lemma lhg_coequalizer_ok h : hwf h -> lhg_coequalizer B h = Ok (hq h).
  Proof.
    intros (_ & Hs & Ht & Hl). unfold lhg_coequalizer, ff_coequalizer, ff_source. cbn [table target].
    apply Nat.eqb_eq in Hl. rewrite Hl. rewrite Nat.eqb_refl. cbn [negb orb].
    apply Nat.eqb_eq in Hl.
    rewrite cc_ok by assumption. unfold hq, hn.
    destruct (b_conn_comp B (fst (l_q h)) (snd (l_q h)) (length (l_nodes h))) as [c k].
    reflexivity.
  Qed.

  Lemma hq_spec h : hwf h -> qspec (hq h) (hn h) (hpending h).
  Proof.
    intros (_ & Hs & Ht & Hl). pose proof (bk_cc B OK _ _ _ Hl Hs Ht) as H. cbv zeta in H.
    destruct H as (H1 & H2 & H3 & H4).
    unfold qspec, hq, app, hpending; cbn [table target]. auto.
  Qed.

  Lemma qspec_app_lt q n P i : qspec q n P -> i < n -> app q i < target q.
  Proof. intros (Hl & Hr & _) Hi. unfold app. apply all_lt_nth; auto. lia. Qed.

  Lemma qspec_surj q n P j : qspec q n P -> j < target q -> exists i, i < n /\ app q i = j.
  Proof.
    intros (Hl & _ & Hs & _) Hj. apply Hs in Hj. apply (In_nth _ _ 0) in Hj.
    destruct Hj as (i & Hi & Hn). exists i. split; auto. lia.
  Qed.

  (* ---------- step 2: the universal map (new node labels) ---------- *)
  Definition fibre_const (q : ff) (nodes : list O) : Prop :=
    forall i j, i < length nodes -> j < length nodes -> app q i = app q j ->
                nth_error nodes i = nth_error nodes j.

  Lemma recompose_iff (q : ff) (nodes y : list O) d :
    length (table q) = length nodes -> all_lt (length y) (table q) ->
    (map (fun i => nth i y d) (table q) = nodes <->
     forall i, i < length nodes -> nth_error y (app q i) = nth_error nodes i).
  Proof.
    intros Hl Hr. split.
    - intros E i Hi. rewrite <- E. unfold app.
      rewrite (nth_error_nth' y d) by (apply all_lt_nth; auto; lia).
      rewrite nth_error_map. rewrite (nth_error_nth' (table q) 0) by lia. reflexivity.
    - intros H. apply nth_error_ext.
      + rewrite map_length. exact Hl.
      + intros i Hi. rewrite map_length in Hi. rewrite <- H by lia. unfold app.
        rewrite (nth_error_nth' y d) by (apply all_lt_nth; auto; lia).
        rewrite nth_error_map. rewrite (nth_error_nth' (table q) 0) by lia. reflexivity.
  Qed.

  Lemma coeq_univ_char (q : ff) (nodes : list O) :
    length (table q) = length nodes -> all_lt (target q) (table q) ->
    (forall j, j < target q -> In j (table q)) ->
    exists (u : list O) (b : bool), coequalizer_universal B eqO q nodes = Ok (if b then Some u else None) /\
      (b = true <-> fibre_const q nodes) /\
      (b = true -> length u = target q /\
                   forall i, i < length nodes -> nth_error u (app q i) = nth_error nodes i).
  Proof.
    intros Hl Hr Hs. unfold coequalizer_universal, ff_source.
    apply Nat.eqb_eq in Hl. rewrite Hl. cbn [negb]. apply Nat.eqb_eq in Hl.
    rewrite get_range_full. cbn [bind].
    destruct nodes as [|d rest] eqn:En.
    - (* no nodes: the quotient has no nodes either *)
      assert (Ht : table q = []) by (destruct (table q); simpl in Hl; [reflexivity|discriminate]).
      assert (Hk : target q = 0).
      { destruct (target q) as [|k] eqn:Ek; auto. specialize (Hs 0 ltac:(lia)). rewrite Ht in Hs.
        destruct Hs. }
      rewrite Ht. rewrite (bk_scatter_nil B OK). cbn [bind].
      unfold ff_compose_semi. rewrite Hk, Ht. cbn [length Nat.eqb].
      rewrite get_range_full. cbn [bind gather mapM unwrap list_eqb].
      exists [], true. split; [reflexivity|]. split.
      + split; auto. intros _ i j Hi. simpl in Hi. lia.
      + intros _. split; auto. intros i Hi. simpl in Hi. lia.
    - rewrite <- En in *.
      assert (Hne : nodes <> []) by (rewrite En; discriminate).
      destruct (bk_scatter B OK O nodes (table q) (target q) Hl Hr Hne) as (y & Hy & Hly & Hsc).
      rewrite Hy. cbn [bind]. unfold ff_compose_semi.
      rewrite Hly, Nat.eqb_refl. rewrite get_range_full. cbn [bind].
      rewrite (gather_ok y d) by (rewrite Hly; exact Hr).
      cbn [bind unwrap].
      exists y, (list_eqb eqO (map (fun i => nth i y d) (table q)) nodes).
      split; [reflexivity|].
      assert (Hrec : list_eqb eqO (map (fun i => nth i y d) (table q)) nodes = true <->
                     forall i, i < length nodes -> nth_error y (app q i) = nth_error nodes i).
      { rewrite (list_eqb_spec eqO eqO_spec). apply recompose_iff; auto. rewrite Hly; auto. }
      split.
      + rewrite Hrec. split.
        * intros H i j Hi Hj E. rewrite <- (H i Hi), <- (H j Hj), E. reflexivity.
        * intros Hfc i Hi.
          assert (Hin : In (app q i) (table q)) by (apply nth_In; lia).
          destruct (Hsc _ Hin) as (i' & Hi' & Hyi). rewrite Hyi.
          assert (Hi'l : i' < length (table q)) by (apply nth_error_Some; congruence).
          apply Hfc; try lia. unfold app.
          apply (nth_error_nth _ _ 0) in Hi'. rewrite Hi'. reflexivity.
      + intros Hb. split; auto. apply Hrec. exact Hb.
  Qed.

  (* ---------- step 3: replacing node references ---------- *)
  Lemma map_q_ok q l : all_lt (length (table q)) l -> map_q q l = Ok (map (app q) l).
  Proof.
    intros H. unfold map_q. apply mapM_ok. intros x Hx.
    unfold all_lt in H. rewrite Forall_forall in H. apply get_ok. auto.
  Qed.

  Definition qmap_adj (q : ff) (adj : list hyperedge) : list hyperedge :=
    map (fun e : hyperedge => (map (app q) (fst e), map (app q) (snd e))) adj.

  Lemma adj_map_ok q (adj : list hyperedge) :
    (forall e, In e adj -> all_lt (length (table q)) (fst e) /\ all_lt (length (table q)) (snd e)) ->
    mapM (fun e : hyperedge => s <- map_q q (fst e) ;; t <- map_q q (snd e) ;; Ok (s, t)) adj
    = Ok (qmap_adj q adj).
  Proof.
    intros H. unfold qmap_adj. apply mapM_ok. intros e He. destruct (H e He) as [H1 H2].
    rewrite !map_q_ok by assumption. reflexivity.
  Qed.

  (* ---------- the hypergraph-level quotient, characterised ---------- *)
  Definition hquot_result (h : lhg O A) (u : list O) : lhg O A :=
    mkLHG u (l_edges h) (qmap_adj (hq h) (l_adj h)) ([], []).

  Lemma fibre_const_iff h : hwf h -> (fibre_const (hq h) (l_nodes h) <-> hlabels_consistent h).
  Proof.
    intros W. destruct (hq_spec h W) as (_ & _ & _ & Hk). unfold fibre_const, hlabels_consistent, hn in *.
    split; intros H i j Hi Hj C; apply H; auto; apply Hk; auto.
  Qed.

  Lemma lhg_quotient_char h : hwf h ->
    exists (u : list O) (b : bool), lhg_quotient B eqO h =
                Ok (if b then (hquot_result h u, inl (hq h)) else (h, inr (hq h))) /\
      (b = true <-> hlabels_consistent h) /\
      (b = true -> length u = target (hq h) /\
                   forall i, i < hn h -> nth_error u (app (hq h) i) = nth_error (l_nodes h) i).
  Proof.
    intros W. pose proof (hq_spec h W) as (Hl & Hr & Hs & Hk).
    destruct (coeq_univ_char (hq h) (l_nodes h) Hl Hr Hs) as (u & b & Hu & Hb & Hub).
    exists u, b. split; [|split].
    - unfold lhg_quotient. rewrite lhg_coequalizer_ok by exact W. cbn [bind]. rewrite Hu. cbn [bind].
      destruct b; [|reflexivity].
      rewrite adj_map_ok. reflexivity.
      destruct W as (Wa & _). intros e He. rewrite Hl. apply Wa. exact He.
    - rewrite Hb. apply fibre_const_iff. exact W.
    - exact Hub.
  Qed.

  Lemma hquot_result_wf h u : hwf h -> length u = target (hq h) -> hwf (hquot_result h u).
  Proof.
    intros W Hu. pose proof (hq_spec h W) as Q. destruct W as (Wa & _).
    unfold hwf, hquot_result, hn; cbn [l_nodes l_adj l_q fst snd]. split; [|repeat split; constructor].
    intros e He. unfold qmap_adj in He. apply in_map_iff in He. destruct He as (e0 & <- & He0).
    destruct (Wa e0 He0) as [H1 H2]. cbn [fst snd]. rewrite Hu.
    split; eapply all_lt_map; eauto; intros x Hx; eapply qspec_app_lt; eauto.
  Qed.

  (* ---------- the open-level quotient, characterised ---------- *)
  Definition quot_result (f : lohg O A) (u : list O) : lohg O A :=
    mkLOHG (map (app (hq (lo_h f))) (lo_sources f)) (map (app (hq (lo_h f))) (lo_targets f))
           (hquot_result (lo_h f) u).

  Lemma lohg_quotient_char f : lwf f ->
    exists (u : list O) (b : bool), lohg_quotient B eqO f =
        Ok (if b then (quot_result f u, inl (hq (lo_h f))) else (f, inr (hq (lo_h f)))) /\
      (b = true <-> labels_consistent f) /\
      (b = true -> length u = target (hq (lo_h f)) /\
                   forall i, i < nn f ->
                     nth_error u (app (hq (lo_h f)) i) = nth_error (l_nodes (lo_h f)) i).
  Proof.
    intros (W & Ws & Wt). destruct (lhg_quotient_char (lo_h f) W) as (u & b & Hq & Hb & Hub).
    exists u, b. split; [|split; [exact Hb | exact Hub]].
    unfold lohg_quotient. rewrite Hq. destruct b; cbn [bind].
    - pose proof (hq_spec _ W) as (Hl & _).
      rewrite !map_q_ok by (rewrite Hl; assumption). reflexivity.
    - destruct f; reflexivity.
  Qed.

  (* ---------- step 4: the result is the quotient of the plain diagram ---------- *)
  Definition pedges (edges : list A) (adj : list hyperedge) : list (pedge A) :=
    map (fun p => mkPE (fst p) (fst (snd p)) (snd (snd p))) (combine edges adj).

  Lemma pedges_quot q (edges : list A) (adj : list hyperedge) :
    pedges edges (qmap_adj q adj) = map (map_edge (app q)) (pedges edges adj).
  Proof.
    unfold pedges, qmap_adj. revert adj.
    induction edges as [|x xs IH]; intros [|e adj]; simpl; auto.
    rewrite IH. reflexivity.
  Qed.

  Lemma isquot_core h u s t : hwf h -> length u = target (hq h) ->
    (forall i, i < hn h -> nth_error u (app (hq h) i) = nth_error (l_nodes h) i) ->
    IsQuot (mkP (l_nodes h) (pedges (l_edges h) (l_adj h)) s t) (app (hq h))
           (mkP u (pedges (l_edges h) (qmap_adj (hq h) (l_adj h)))
                (map (app (hq h)) s) (map (app (hq h)) t)).
  Proof.
    intros W Hu Hn. pose proof (hq_spec h W) as Q.
    unfold IsQuot; cbn [p_nodes p_edges p_ins p_outs]. repeat split.
    - intros i Hi. rewrite Hu. eapply qspec_app_lt; eauto.
    - intros j Hj. rewrite Hu in Hj. eapply qspec_surj; eauto.
    - exact Hn.
    - apply pedges_quot.
  Qed.

  Lemma quot_result_wf f u : lwf f -> length u = target (hq (lo_h f)) -> lwf (quot_result f u).
  Proof.
    intros (W & Ws & Wt) Hu. pose proof (hq_spec _ W) as Q.
    unfold lwf, quot_result, nn; cbn [lo_h lo_sources lo_targets]. split; [|split].
    - apply hquot_result_wf; assumption.
    - cbn [hquot_result l_nodes]. rewrite Hu.
      eapply all_lt_map; eauto. intros x Hx. eapply qspec_app_lt; eauto.
    - cbn [hquot_result l_nodes]. rewrite Hu.
      eapply all_lt_map; eauto. intros x Hx. eapply qspec_app_lt; eauto.
  Qed.

  (* ================= the theorems, open level ================= *)
  Theorem C09_success f : lwf f -> labels_consistent f ->
    exists q f', lohg_quotient B eqO f = Ok (f', inl q) /\
      ff_source q = nn f /\ target q = length (l_nodes (lo_h f')) /\
      (forall j, j < target q -> exists i, i < nn f /\ app q i = j) /\
      (forall i j, i < nn f -> j < nn f -> (app q i = app q j <-> conn (pending f) i j)) /\
      IsQuot (labs f) (app q) (labs f') /\
      l_edges (lo_h f') = l_edges (lo_h f) /\ pending f' = [] /\ l_q (lo_h f') = ([], []) /\
      lwf f'.
  Proof.
    intros W C. destruct (lohg_quotient_char f W) as (u & b & Hq & Hb & Hub).
    assert (b = true) as -> by (apply Hb; exact C).
    destruct (Hub eq_refl) as (Hu & Hn). destruct W as (Wh & Ws & Wt).
    pose proof (hq_spec _ Wh) as Q. pose proof Q as (Hl & Hr & Hs & Hk).
    exists (hq (lo_h f)), (quot_result f u).
    split; [exact Hq|]. split; [exact Hl|].
    split; [cbn [quot_result lo_h hquot_result l_nodes]; symmetry; exact Hu|].
    split; [intros j Hj; eapply qspec_surj; eauto|].
    split; [exact Hk|].
    split; [exact (isquot_core (lo_h f) u (lo_sources f) (lo_targets f) Wh Hu Hn)|].
    split; [reflexivity|]. split; [reflexivity|]. split; [reflexivity|].
    apply (quot_result_wf f u); [exact (conj Wh (conj Ws Wt)) | exact Hu].
  Qed.

  (* what a successful quotient returned, recovered from the equation alone *)
  Lemma quotient_inl_inv f f' q : lwf f -> lohg_quotient B eqO f = Ok (f', inl q) ->
    q = hq (lo_h f) /\ labels_consistent f /\ lwf f' /\ l_q (lo_h f') = ([], []) /\
    exists u, f' = quot_result f u /\ length u = target q.
  Proof.
    intros W E. destruct (lohg_quotient_char f W) as (u & b & Hq & Hb & Hub).
    rewrite Hq in E. destruct b; [|discriminate].
    destruct (Hub eq_refl) as (Hu & _). inversion E; subst.
    split; [reflexivity|]. split; [apply Hb; reflexivity|].
    split; [apply quot_result_wf; assumption|]. split; [reflexivity|].
    exists u. split; [reflexivity|exact Hu].
  Qed.

  Lemma pending_nil_consistent f : l_q (lo_h f) = ([], []) -> labels_consistent f.
  Proof.
    intros E i j _ _ C. unfold pending in C. rewrite E in C. cbn [fst snd combine] in C.
    apply conn_nil in C. subst. reflexivity.
  Qed.

  Lemma app_identity n i : i < n -> app (mkFF (seq 0 n) n) i = i.
  Proof. intros H. unfold app; cbn [table]. rewrite seq_nth by exact H. reflexivity. Qed.

  (* quotienting a diagram without pending pairs: nothing changes (canonical numbering) *)
  Lemma quotient_strict_fixed f : cc_canonical B -> lwf f -> l_q (lo_h f) = ([], []) ->
    lohg_quotient B eqO f = Ok (f, inl (mkFF (seq 0 (nn f)) (nn f))).
  Proof.
    intros Hc W E. pose proof (pending_nil_consistent f E) as C.
    destruct (lohg_quotient_char f W) as (u & b & Hq & Hb & Hub).
    assert (b = true) as -> by (apply Hb; exact C).
    destruct (Hub eq_refl) as (Hu & Hn). clear Hub Hb.
    assert (Eq : hq (lo_h f) = mkFF (seq 0 (nn f)) (nn f)).
    { unfold hq. rewrite E. cbn [fst snd]. rewrite Hc. reflexivity. }
    rewrite Hq. rewrite Eq in *. cbn [target] in Hu. do 2 f_equal.
    destruct W as ((Wa & _) & Ws & Wt).
    assert (Hid : forall l, all_lt (nn f) l -> map (app (mkFF (seq 0 (nn f)) (nn f))) l = l).
    { intros l Hl. apply map_id_in. intros x Hx. apply app_identity.
      unfold all_lt in Hl. rewrite Forall_forall in Hl. auto. }
    assert (Eu : u = l_nodes (lo_h f)).
    { apply nth_error_ext. exact Hu. intros i Hi. rewrite <- Hn by lia.
      rewrite app_identity by lia. reflexivity. }
    unfold quot_result, hquot_result. rewrite Eq, Eu, !Hid by assumption.
    assert (Ea : qmap_adj (mkFF (seq 0 (nn f)) (nn f)) (l_adj (lo_h f)) = l_adj (lo_h f)).
    { unfold qmap_adj. apply map_id_in. intros [s t] He. destruct (Wa _ He) as [H1 H2].
      cbn [fst snd] in *. rewrite !Hid by assumption. reflexivity. }
    rewrite Ea. destruct f as [s t [nodes edges adj lq]]. cbn [lo_h l_q] in E. subst lq. reflexivity.
  Qed.

  (* the statement asked for, for every conforming back-end: FALSE in general, see the
     Example [C09_idempotent_adv_counterexample] after the section *)
  Definition C09_idempotent_full : Prop :=
    forall f f' q, lwf f -> lohg_quotient B eqO f = Ok (f', inl q) ->
      lohg_quotient B eqO f' = Ok (f', inl (mkFF (seq 0 (nn f')) (nn f'))).

  (* proved for back-ends with the canonical numbering of the discrete partition (VecKind) *)
  Theorem C09_idempotent f f' q : cc_canonical B -> lwf f ->
    lohg_quotient B eqO f = Ok (f', inl q) ->
    lohg_quotient B eqO f' = Ok (f', inl (mkFF (seq 0 (nn f')) (nn f'))).
  Proof.
    intros Hc W E. destruct (quotient_inl_inv f f' q W E) as (_ & _ & W' & E' & _).
    apply quotient_strict_fixed; assumption.
  Qed.

  (* for every conforming back-end: quotienting again succeeds and only renumbers the nodes *)
  Lemma bij_of_qspec_nil q n : qspec q n [] -> target q = n /\ bij_on n (app q).
  Proof.
    intros Q. pose proof Q as (Hl & Hr & Hs & Hk).
    assert (Hinj : forall i j, i < n -> j < n -> app q i = app q j -> i = j).
    { intros i j Hi Hj E. apply conn_nil. apply Hk; assumption. }
    assert (Hnd : NoDup (table q)).
    { apply (NoDup_nth (table q) 0). intros i j Hi Hj E. apply Hinj; try lia. exact E. }
    assert (H1 : n <= target q).
    { rewrite <- Hl, <- (seq_length (target q) 0). apply NoDup_incl_length. exact Hnd.
      intros x Hx. apply in_seq. unfold all_lt in Hr. rewrite Forall_forall in Hr.
      specialize (Hr x Hx). lia. }
    assert (H2 : target q <= n).
    { rewrite <- Hl, <- (seq_length (target q) 0). apply NoDup_incl_length. apply seq_NoDup.
      intros x Hx. apply in_seq in Hx. apply Hs. lia. }
    assert (Et : target q = n) by lia. split; [exact Et|]. split.
    - intros i Hi. rewrite <- Et. eapply qspec_app_lt; eauto.
    - exact Hinj.
  Qed.

  Theorem C09_idempotent_any_backend f f' q : lwf f -> lohg_quotient B eqO f = Ok (f', inl q) ->
    exists q' f'', lohg_quotient B eqO f' = Ok (f'', inl q') /\
      target q' = nn f' /\ bij_on (nn f') (app q') /\ NIso (labs f') (labs f'') /\
      l_edges (lo_h f'') = l_edges (lo_h f') /\ pending f'' = [] /\ lwf f''.
  Proof.
    intros W E. destruct (quotient_inl_inv f f' q W E) as (_ & _ & W' & E' & _).
    destruct (C09_success f' W' (pending_nil_consistent f' E'))
      as (q' & f'' & Hq & Hsrc & Htg & Hsurj & Hk & HQ & He & Hp & _ & W'').
    assert (Q : qspec q' (nn f') []).
    { pose proof W' as (Wh & _). pose proof (hq_spec _ Wh) as Q.
      destruct (quotient_inl_inv f' f'' q' W' Hq) as (-> & _).
      unfold hpending in Q. rewrite E' in Q. exact Q. }
    destruct (bij_of_qspec_nil q' (nn f') Q) as (Et & Hbij).
    exists q', f''. split; [exact Hq|]. split; [exact Et|]. split; [exact Hbij|].
    split; [|split; [exact He|split; [exact Hp|exact W'']]].
    destruct HQ as (_ & _ & Hn & Hed & Hi & Ho).
    unfold NIso. split.
    - change (nn f' = length (l_nodes (lo_h f''))). rewrite <- Htg. symmetry. exact Et.
    - exists (app q'). split; [exact Hbij|]. split; [exact Hn|]. split; [exact Hed|].
      split; assumption.
  Qed.

  Theorem C09_failure_iff f : lwf f ->
    ((exists f' q, lohg_quotient B eqO f = Ok (f', inr q)) <-> ~ labels_consistent f).
  Proof.
    intros W. destruct (lohg_quotient_char f W) as (u & b & Hq & Hb & _). split.
    - intros (f' & q & E) C. apply Hb in C. subst b. rewrite Hq in E. discriminate.
    - intros NC. destruct b.
      + exfalso. apply NC. apply Hb. reflexivity.
      + eauto.
  Qed.

  (* never Panic, never Fuel on well-formed input *)
  Theorem C09_total f : lwf f -> exists f' r, lohg_quotient B eqO f = Ok (f', r).
  Proof.
    intros W. destruct (lohg_quotient_char f W) as (u & b & Hq & _). rewrite Hq.
    destruct b; eauto.
  Qed.

  Lemma lhg_failure_atomic (h h' : lhg O A) q : lhg_quotient B eqO h = Ok (h', inr q) -> h' = h.
  Proof.
    unfold lhg_quotient. intros H.
    destruct (lhg_coequalizer B h) as [q0| |]; cbn [bind] in H; try discriminate.
    destruct (coequalizer_universal B eqO q0 (l_nodes h)) as [[u|]| |]; cbn [bind] in H;
      try discriminate.
    - match type of H with bind ?m _ = _ => destruct m as [adj| |] end; cbn [bind] in H;
        discriminate.
    - inversion H; reflexivity.
  Qed.

  Theorem C09_failure_atomic (f f' : lohg O A) q : lohg_quotient B eqO f = Ok (f', inr q) -> f' = f.
  Proof.
    unfold lohg_quotient. intros H.
    destruct (lhg_quotient B eqO (lo_h f)) as [[h r]| |] eqn:E; cbn [bind] in H; try discriminate.
    destruct r as [q1|q1].
    - destruct (map_q q1 (lo_sources f)) as [s| |]; cbn [bind] in H; try discriminate.
      destruct (map_q q1 (lo_targets f)) as [t| |]; cbn [bind] in H; discriminate.
    - inversion H; subst. apply lhg_failure_atomic in E. subst h. destruct f; reflexivity.
  Qed.

  (* ================= the same statements, hypergraph level ================= *)
  (* a hypergraph is an open hypergraph with empty interfaces; the open quotient is built on the
     hypergraph quotient, so the statements transfer *)
  Definition hopen (h : lhg O A) : lohg O A := mkLOHG [] [] h.

  Lemma lwf_hopen h : hwf h -> lwf (hopen h).
  Proof. intros W. split; [exact W|split; constructor]. Qed.

  Lemma lohg_quotient_hopen h :
    lohg_quotient B eqO (hopen h) =
    match lhg_quotient B eqO h with
    | Ok (h', r) => Ok (hopen h', r)
    | Panic => Panic
    | Fuel => Fuel
    end.
  Proof.
    unfold lohg_quotient, hopen. cbn [lo_h lo_sources lo_targets].
    destruct (lhg_quotient B eqO h) as [[h' [q|q]]| |]; reflexivity.
  Qed.

  Lemma hopen_inv h f' r : lohg_quotient B eqO (hopen h) = Ok (f', r) ->
    exists h', f' = hopen h' /\ lhg_quotient B eqO h = Ok (h', r).
  Proof.
    rewrite lohg_quotient_hopen. destruct (lhg_quotient B eqO h) as [[h' r']| |]; intros E;
      try discriminate.
    inversion E; subst. eauto.
  Qed.

  Theorem C09h_success h : hwf h -> hlabels_consistent h ->
    exists q h', lhg_quotient B eqO h = Ok (h', inl q) /\
      ff_source q = hn h /\ target q = hn h' /\
      (forall j, j < target q -> exists i, i < hn h /\ app q i = j) /\
      (forall i j, i < hn h -> j < hn h -> (app q i = app q j <-> conn (hpending h) i j)) /\
      IsQuot (labs (hopen h)) (app q) (labs (hopen h')) /\
      l_edges h' = l_edges h /\ hpending h' = [] /\ l_q h' = ([], []) /\ hwf h'.
  Proof.
    intros W C.
    destruct (C09_success (hopen h) (lwf_hopen h W) C)
      as (q & f' & Hq & H1 & H2 & H3 & H4 & H5 & H6 & H7 & H8 & H9).
    destruct (hopen_inv h f' (inl q) Hq) as (h' & -> & Hq').
    exists q, h'. split; [exact Hq'|]. split; [exact H1|]. split; [exact H2|].
    split; [exact H3|]. split; [exact H4|]. split; [exact H5|]. split; [exact H6|].
    split; [exact H7|]. split; [exact H8|]. destruct H9 as (W' & _). exact W'.
  Qed.

  Definition C09h_idempotent_full : Prop :=
    forall h h' q, hwf h -> lhg_quotient B eqO h = Ok (h', inl q) ->
      lhg_quotient B eqO h' = Ok (h', inl (mkFF (seq 0 (hn h')) (hn h'))).

  Theorem C09h_idempotent h h' q : cc_canonical B -> hwf h ->
    lhg_quotient B eqO h = Ok (h', inl q) ->
    lhg_quotient B eqO h' = Ok (h', inl (mkFF (seq 0 (hn h')) (hn h'))).
  Proof.
    intros Hc W E.
    assert (E1 : lohg_quotient B eqO (hopen h) = Ok (hopen h', inl q))
      by (rewrite lohg_quotient_hopen, E; reflexivity).
    pose proof (C09_idempotent (hopen h) (hopen h') q Hc (lwf_hopen h W) E1) as E2.
    destruct (hopen_inv _ _ _ E2) as (h'' & Eh & E3). inversion Eh; subst h''. exact E3.
  Qed.

  Theorem C09h_idempotent_any_backend h h' q : hwf h -> lhg_quotient B eqO h = Ok (h', inl q) ->
    exists q' h'', lhg_quotient B eqO h' = Ok (h'', inl q') /\
      target q' = hn h' /\ bij_on (hn h') (app q') /\ NIso (labs (hopen h')) (labs (hopen h'')) /\
      l_edges h'' = l_edges h' /\ hpending h'' = [] /\ hwf h''.
  Proof.
    intros W E.
    assert (E1 : lohg_quotient B eqO (hopen h) = Ok (hopen h', inl q))
      by (rewrite lohg_quotient_hopen, E; reflexivity).
    destruct (C09_idempotent_any_backend (hopen h) (hopen h') q (lwf_hopen h W) E1)
      as (q' & f'' & Hq & H1 & H2 & H3 & H4 & H5 & H6).
    destruct (hopen_inv _ _ _ Hq) as (h'' & -> & Hq').
    exists q', h''. split; [exact Hq'|]. split; [exact H1|]. split; [exact H2|].
    split; [exact H3|]. split; [exact H4|]. split; [exact H5|]. destruct H6 as (W'' & _). exact W''.
  Qed.

  Theorem C09h_failure_iff h : hwf h ->
    ((exists h' q, lhg_quotient B eqO h = Ok (h', inr q)) <-> ~ hlabels_consistent h).
  Proof.
    intros W. destruct (lhg_quotient_char h W) as (u & b & Hq & Hb & _). split.
    - intros (h' & q & E) C. apply Hb in C. subst b. rewrite Hq in E. discriminate.
    - intros NC. destruct b.
      + exfalso. apply NC. apply Hb. reflexivity.
      + eauto.
  Qed.

  Theorem C09h_total h : hwf h -> exists h' r, lhg_quotient B eqO h = Ok (h', r).
  Proof.
    intros W. destruct (lhg_quotient_char h W) as (u & b & Hq & _). rewrite Hq.
    destruct b; eauto.
  Qed.

  Theorem C09h_failure_atomic (h h' : lhg O A) q :
    lhg_quotient B eqO h = Ok (h', inr q) -> h' = h.
  Proof. apply lhg_failure_atomic. Qed.

  (* ================= histories of unify / quotient steps ================= *)
  (* OpenHypergraph::unify delegates to Hypergraph::unify *)
  Definition lohg_unify (f : lohg O A) (v w : nat) : lohg O A :=
    mkLOHG (lo_sources f) (lo_targets f) (lhg_unify (lo_h f) v w).

  (* [hist f0 f m R]: f is reachable from f0 by unify (in-range) and quotient steps (successful or
     failed), m is the composite of the quotient maps returned so far (original nodes -> current
     nodes), R the list of all pairs ever recorded, each pulled back to ANY preimages under the
     composite map current at the time of recording *)
  Inductive hist (f0 : lohg O A) : lohg O A -> (nat -> nat) -> list (nat * nat) -> Prop :=
  | hist_init : hist f0 f0 (fun i => i) (pending f0)
  | hist_unify f m R v w i j : hist f0 f m R -> v < nn f -> w < nn f ->
      i < nn f0 -> j < nn f0 -> m i = v -> m j = w ->
      hist f0 (lohg_unify f v w) m (R ++ [(i, j)])
  | hist_quot_ok f m R f' q : hist f0 f m R -> lohg_quotient B eqO f = Ok (f', inl q) ->
      hist f0 f' (fun i => app q (m i)) R
  | hist_quot_err f m R f' q : hist f0 f m R -> lohg_quotient B eqO f = Ok (f', inr q) ->
      hist f0 f' m R.

  Definition hist_inv (f0 f : lohg O A) (m : nat -> nat) (R : list (nat * nat)) : Prop :=
    lwf f /\
    (forall i, i < nn f0 -> m i < nn f) /\
    (forall v, v < nn f -> exists i, i < nn f0 /\ m i = v) /\
    (forall i j, conn R i j -> conn (pending f) (m i) (m j)) /\
    (forall i j, i < nn f0 -> j < nn f0 -> conn (pending f) (m i) (m j) -> conn R i j).

  Lemma pending_range f : lwf f -> forall x y, In (x, y) (pending f) -> x < nn f /\ y < nn f.
  Proof.
    intros ((_ & Hs & Ht & _) & _) x y Hin. unfold pending in Hin.
    exact (in_combine_lt _ _ _ x y Hs Ht Hin).
  Qed.

  Lemma pending_unify f v w : lwf f -> pending (lohg_unify f v w) = pending f ++ [(v, w)].
  Proof.
    intros ((_ & _ & _ & Hl) & _). unfold pending, lohg_unify, lhg_unify. cbn [lo_h l_q fst snd].
    apply combine_snoc. exact Hl.
  Qed.

  Lemma lwf_unify f v w : lwf f -> v < nn f -> w < nn f -> lwf (lohg_unify f v w).
  Proof.
    intros ((Wa & Hs & Ht & Hl) & Wi & Wo) Hv Hw.
    unfold lwf, hwf, lohg_unify, lhg_unify, nn, hn in *.
    cbn [lo_h lo_sources lo_targets l_nodes l_adj l_q fst snd].
    split; [|split; assumption]. split; [exact Wa|].
    split; [apply all_lt_app; [exact Hs|repeat constructor; exact Hv]|].
    split; [apply all_lt_app; [exact Ht|repeat constructor; exact Hw]|].
    rewrite !app_length. cbn [length]. lia.
  Qed.

  Lemma hist_inv_unify f0 f m R v w i0 j0 : hist_inv f0 f m R -> v < nn f -> w < nn f ->
    i0 < nn f0 -> j0 < nn f0 -> m i0 = v -> m j0 = w ->
    hist_inv f0 (lohg_unify f v w) m (R ++ [(i0, j0)]).
  Proof.
    intros (W & Hr & Hsj & Hfw & Hbw) Hv Hw Hi0 Hj0 Ev Ew.
    assert (En : nn (lohg_unify f v w) = nn f) by reflexivity.
    unfold hist_inv. rewrite En, (pending_unify f v w W).
    split; [apply lwf_unify; assumption|]. split; [exact Hr|]. split; [exact Hsj|].
    assert (HmR : forall a b, conn R a b -> conn (R ++ [(i0, j0)]) a b)
      by (apply conn_mono; apply incl_appl; apply incl_refl).
    assert (HmP : forall a b, conn (pending f) a b -> conn (pending f ++ [(v, w)]) a b)
      by (apply conn_mono; apply incl_appl; apply incl_refl).
    split.
    - intros i j C. induction C as [x|x y Hin|x y C IH|x y z C1 IH1 C2 IH2].
      + apply conn_refl.
      + apply in_app_or in Hin. destruct Hin as [Hin|[Hin|[]]].
        * apply HmP. apply Hfw. apply conn_step. exact Hin.
        * inversion Hin; subst x y. rewrite Ev, Ew. apply conn_step. apply in_or_app.
          right. left. reflexivity.
      + apply conn_sym. exact IH.
      + eapply conn_trans; eauto.
    - assert (Hrange : forall x y, In (x, y) (pending f ++ [(v, w)]) -> x < nn f /\ y < nn f).
      { intros x y Hin. apply in_app_or in Hin. destruct Hin as [Hin|[Hin|[]]].
        - eapply pending_range; eauto.
        - inversion Hin; subst; auto. }
      assert (Hgen : forall x y, conn (pending f ++ [(v, w)]) x y ->
                forall i j, i < nn f0 -> j < nn f0 -> m i = x -> m j = y ->
                            conn (R ++ [(i0, j0)]) i j).
      { intros x y C. induction C as [x|x y Hin|x y C IH|x y z C1 IH1 C2 IH2];
          intros i j Hi Hj Ei Ej.
        - apply HmR. apply Hbw; auto. rewrite Ei, Ej. apply conn_refl.
        - apply in_app_or in Hin. destruct Hin as [Hin|[Hin|[]]].
          + apply HmR. apply Hbw; auto. rewrite Ei, Ej. apply conn_step. exact Hin.
          + injection Hin as E1 E2.
            apply conn_trans with i0.
            { apply HmR. apply Hbw; auto. rewrite Ei, Ev, E1. apply conn_refl. }
            apply conn_trans with j0.
            { apply conn_step. apply in_or_app. right. left. reflexivity. }
            apply HmR. apply Hbw; auto. rewrite Ej, Ew, E2. apply conn_refl.
        - apply conn_sym. apply IH; auto.
        - destruct (conn_range (nn f) _ Hrange _ _ C1) as [E|[_ Hy]].
          + apply conn_trans with i.
            * apply (IH1 i i Hi Hi Ei). congruence.
            * apply (IH2 i j Hi Hj); congruence.
          + destruct (Hsj y Hy) as (k & Hk & Ek).
            apply conn_trans with k.
            * apply (IH1 i k Hi Hk Ei Ek).
            * apply (IH2 k j Hk Hj Ek Ej). }
      intros i j Hi Hj C. apply (Hgen _ _ C); auto.
  Qed.

  Lemma hist_inv_quot f0 f m R f' q : hist_inv f0 f m R ->
    lohg_quotient B eqO f = Ok (f', inl q) -> hist_inv f0 f' (fun i => app q (m i)) R.
  Proof.
    intros (W & Hr & Hsj & Hfw & Hbw) E.
    destruct (quotient_inl_inv f f' q W E) as (Eq & _ & W' & El & u & Ef & Hu).
    pose proof W as (Wh & _). pose proof (hq_spec _ Wh) as Q. rewrite <- Eq in Q.
    pose proof Q as (_ & _ & _ & Hk).
    assert (En : nn f' = target q).
    { rewrite Ef. unfold nn, quot_result, hquot_result. cbn [lo_h l_nodes]. exact Hu. }
    assert (Ep : pending f' = []) by (unfold pending; rewrite El; reflexivity).
    unfold hist_inv. rewrite En, Ep.
    split; [exact W'|]. split; [|split; [|split]].
    - intros i Hi. apply (qspec_app_lt q _ _ (m i) Q). apply Hr. exact Hi.
    - intros v Hv. destruct (qspec_surj q _ _ v Q Hv) as (x & Hx & Ex).
      destruct (Hsj x Hx) as (i & Hi & Ei). exists i. split; [exact Hi|]. rewrite Ei. exact Ex.
    - intros i j C. apply Hfw in C.
      destruct (conn_range (nn f) _ (pending_range f W) _ _ C) as [E1|[H1 H2]].
      + rewrite E1. apply conn_refl.
      + assert (E1 : app q (m i) = app q (m j)) by (apply Hk; assumption).
        rewrite E1. apply conn_refl.
    - intros i j Hi Hj C. apply conn_nil in C. apply Hbw; auto.
      apply Hk; auto.
  Qed.

  (* any interleaving keeps lax well-formedness; the composite map is a surjection from the
     original onto the current nodes; two original nodes are connected by ALL pairs ever recorded
     iff their images are connected by the pairs still pending *)
  Theorem C09_histories f0 f m R : lwf f0 -> hist f0 f m R ->
    lwf f /\
    (forall i, i < nn f0 -> m i < nn f) /\
    (forall v, v < nn f -> exists i, i < nn f0 /\ m i = v) /\
    (forall i j, i < nn f0 -> j < nn f0 -> (conn (pending f) (m i) (m j) <-> conn R i j)).
  Proof.
    intros W0 H.
    assert (Inv : hist_inv f0 f m R).
    { induction H as [|f m R v w i j H IH Hv Hw Hi Hj Ev Ew|f m R f' q H IH E|f m R f' q H IH E].
      - unfold hist_inv. split; [exact W0|]. split; [auto|]. split; [eauto|]. split; auto.
      - apply hist_inv_unify; assumption.
      - eapply hist_inv_quot; eauto.
      - apply C09_failure_atomic in E. subst f'. exact IH. }
    destruct Inv as (W & Hr & Hsj & Hfw & Hbw).
    split; [exact W|]. split; [exact Hr|]. split; [exact Hsj|].
    intros i j Hi Hj. split; [apply Hbw; assumption|apply Hfw].
  Qed.

  (* after a successful quotient the accumulated composite map identifies two original nodes iff
     they are connected by the closure of all pairs ever recorded *)
  Theorem C09_histories_quotient f0 f m R f' q : lwf f0 -> hist f0 f m R ->
    lohg_quotient B eqO f = Ok (f', inl q) ->
    lwf f' /\ pending f' = [] /\
    forall i j, i < nn f0 -> j < nn f0 -> (app q (m i) = app q (m j) <-> conn R i j).
  Proof.
    intros W0 H E.
    destruct (C09_histories f0 f' (fun i => app q (m i)) R W0 (hist_quot_ok f0 f m R f' q H E))
      as (W' & _ & _ & Hk).
    destruct (C09_histories f0 f m R W0 H) as (W & _).
    destruct (quotient_inl_inv f f' q W E) as (_ & _ & _ & El & _).
    assert (Ep : pending f' = []) by (unfold pending; rewrite El; reflexivity).
    split; [exact W'|]. split; [exact Ep|].
    intros i j Hi Hj. rewrite <- (Hk i j Hi Hj), Ep. split.
    - intros E1. rewrite E1. apply conn_refl.
    - apply conn_nil.
  Qed.

  (* every in-range unify is a step of some history (preimages exist) *)
  Lemma hist_unify_any f0 f m R v w : lwf f0 -> hist f0 f m R -> v < nn f -> w < nn f ->
    exists i j, i < nn f0 /\ j < nn f0 /\ m i = v /\ m j = w /\
                hist f0 (lohg_unify f v w) m (R ++ [(i, j)]).
  Proof.
    intros W0 H Hv Hw. destruct (C09_histories f0 f m R W0 H) as (_ & _ & Hsj & _).
    destruct (Hsj v Hv) as (i & Hi & Ei). destruct (Hsj w Hw) as (j & Hj & Ej).
    exists i, j. repeat (split; [assumption|]). apply hist_unify; assumption.
  Qed.

  (* a quotient step of a history never panics and never runs out of fuel *)
  Lemma hist_quotient_total f0 f m R : lwf f0 -> hist f0 f m R ->
    exists f' r, lohg_quotient B eqO f = Ok (f', r).
  Proof. intros W0 H. apply C09_total. apply (C09_histories f0 f m R W0 H). Qed.
End C09.

Arguments hn {O A} h.
Arguments hpending {O A} h.
Arguments hwf {O A} h.
Arguments hlabels_consistent {O A} h.
Arguments nn {O A} f.
Arguments lwf {O A} f.
Arguments labels_consistent {O A} f.
Arguments hopen {O A} h.
Arguments lohg_unify {O A} f v w.
Arguments hist B {O A} eqO f0 _ _ _.

(* ================= examples: the hypotheses are satisfiable, the model evaluates ================= *)
(* four nodes, two hyperedges, a chain of two pending pairs 0~1, 1~2 *)
Definition ex_chain : lohg nat nat :=
  mkLOHG [0; 3] [2] (mkLHG [7; 7; 7; 9] [100; 101] [([0], [1]); ([2; 3], [0])] ([0; 1], [1; 2])).

Example ex_chain_lwf : lwf ex_chain.
Proof.
  unfold lwf, hwf, nn, hn, ex_chain, all_lt; cbn.
  split; [split; [|split; [|split]]|split].
  - intros e [<-|[<-|[]]]; cbn; split; repeat constructor.
  - repeat constructor.
  - repeat constructor.
  - reflexivity.
  - repeat constructor.
  - repeat constructor.
Qed.

Example ex_chain_consistent : labels_consistent ex_chain.
Proof.
  intros i j _ _ C.
  apply (conn_invariant (fun x => nth_error (l_nodes (lo_h ex_chain)) x) (pending ex_chain)); auto.
  intros x y [E|[E|[]]]; inversion E; reflexivity.
Qed.

Example ex_chain_quotient :
  lohg_quotient VecBackend Nat.eqb ex_chain =
  Ok (mkLOHG [0; 1] [0] (mkLHG [7; 9] [100; 101] [([0], [0]); ([0; 1], [0])] ([], [])),
      inl (mkFF [0; 0; 0; 1] 2)).
Proof. vm_compute. reflexivity. Qed.

Example ex_chain_quotient_again :
  lohg_quotient VecBackend Nat.eqb
    (mkLOHG [0; 1] [0] (mkLHG [7; 9] [100; 101] [([0], [0]); ([0; 1], [0])] ([], []))) =
  Ok (mkLOHG [0; 1] [0] (mkLHG [7; 9] [100; 101] [([0], [0]); ([0; 1], [0])] ([], [])),
      inl (mkFF (seq 0 2) 2)).
Proof. vm_compute. reflexivity. Qed.

(* a conflicting diagram: two nodes with different labels, unified *)
Definition ex_conflict : lohg nat nat :=
  mkLOHG [0] [1] (mkLHG [7; 9] [100] [([0], [1])] ([0], [1])).

Example ex_conflict_lwf : lwf ex_conflict.
Proof.
  unfold lwf, hwf, nn, hn, ex_conflict, all_lt; cbn.
  split; [split; [|split; [|split]]|split].
  - intros e [<-|[]]; cbn; split; repeat constructor.
  - repeat constructor.
  - repeat constructor.
  - reflexivity.
  - repeat constructor.
  - repeat constructor.
Qed.

Example ex_conflict_inconsistent : ~ labels_consistent ex_conflict.
Proof.
  intros H. specialize (H 0 1). cbn in H.
  assert (E : Some 7 = Some 9).
  { apply H; try lia. apply conn_step. left. reflexivity. }
  discriminate.
Qed.

Example ex_conflict_quotient :
  lohg_quotient VecBackend Nat.eqb ex_conflict = Ok (ex_conflict, inr (mkFF [0; 0] 1)).
Proof. vm_compute. reflexivity. Qed.

(* hypergraph level *)
Example ex_chain_h_wf : hwf (lo_h ex_chain) /\ hlabels_consistent (lo_h ex_chain).
Proof. split. apply ex_chain_lwf. exact ex_chain_consistent. Qed.

Example ex_chain_h_quotient :
  lhg_quotient VecBackend Nat.eqb (lo_h ex_chain) =
  Ok (mkLHG [7; 9] [100; 101] [([0], [0]); ([0; 1], [0])] ([], []), inl (mkFF [0; 0; 0; 1] 2)).
Proof. vm_compute. reflexivity. Qed.

Example ex_conflict_h_quotient :
  lhg_quotient VecBackend Nat.eqb (lo_h ex_conflict) = Ok (lo_h ex_conflict, inr (mkFF [0; 0] 1)).
Proof. vm_compute. reflexivity. Qed.

(* The statement "quotienting again returns the identity table and the same diagram" is FALSE for the
   adversarial back-end of Model/Prims.v (components numbered in decreasing order): the second
   quotient reverses the node numbering.  (BackendOK AdvBackend is the intended reading of
   "adversarial conforming back-end" but is not proved in this file.) *)
Example C09_idempotent_adv_counterexample : ~ C09_idempotent_full AdvBackend nat nat Nat.eqb.
Proof.
  intros H.
  specialize (H ex_chain
    (mkLOHG [1; 0] [1] (mkLHG [9; 7] [100; 101] [([1], [1]); ([1; 0], [1])] ([], [])))
    (mkFF [1; 1; 1; 0] 2) ex_chain_lwf).
  assert (E : lohg_quotient AdvBackend Nat.eqb ex_chain =
              Ok (mkLOHG [1; 0] [1] (mkLHG [9; 7] [100; 101] [([1], [1]); ([1; 0], [1])] ([], [])),
                  inl (mkFF [1; 1; 1; 0] 2))) by (vm_compute; reflexivity).
  specialize (H E). vm_compute in H. discriminate.
Qed.

(* a history with two quotients: unify 0~1; quotient; unify (new) 1~2, i.e. (old) 2~3; quotient *)
Definition ex_hist0 : lohg nat nat :=
  mkLOHG [0] [3] (mkLHG [7; 7; 7; 7] [100] [([0; 1], [2; 3])] ([], [])).

Example ex_hist0_lwf : lwf ex_hist0.
Proof.
  unfold lwf, hwf, nn, hn, ex_hist0, all_lt; cbn.
  split; [split; [|split; [|split]]|split].
  - intros e [<-|[]]; cbn; split; repeat constructor.
  - constructor.
  - constructor.
  - reflexivity.
  - repeat constructor.
  - repeat constructor.
Qed.

Example ex_history : exists f m,
  hist VecBackend Nat.eqb ex_hist0 f m [(0, 1); (2, 3)] /\
  f = mkLOHG [0] [1] (mkLHG [7; 7] [100] [([0; 0], [1; 1])] ([], [])) /\
  map m [0; 1; 2; 3] = [0; 0; 1; 1].
Proof.
  pose proof (hist_init VecBackend nat nat Nat.eqb ex_hist0) as H0.
  assert (H1 : hist VecBackend Nat.eqb ex_hist0 (lohg_unify ex_hist0 0 1) (fun i => i) [(0, 1)]).
  { apply (hist_unify VecBackend nat nat Nat.eqb ex_hist0 ex_hist0 (fun i => i) [] 0 1 0 1 H0);
      cbn; lia. }
  pose proof (hist_quot_ok VecBackend nat nat Nat.eqb ex_hist0 _ _ _
    (mkLOHG [0] [2] (mkLHG [7; 7; 7] [100] [([0; 0], [1; 2])] ([], []))) (mkFF [0; 0; 1; 2] 3)
    H1 ltac:(vm_compute; reflexivity)) as H2.
  pose proof (hist_unify VecBackend nat nat Nat.eqb ex_hist0 _ _ _ 1 2 2 3 H2
    ltac:(cbn; lia) ltac:(cbn; lia) ltac:(cbn; lia) ltac:(cbn; lia) eq_refl eq_refl) as H3.
  pose proof (hist_quot_ok VecBackend nat nat Nat.eqb ex_hist0 _ _ _
    (mkLOHG [0] [1] (mkLHG [7; 7] [100] [([0; 0], [1; 1])] ([], []))) (mkFF [0; 1; 1] 2)
    H3 ltac:(vm_compute; reflexivity)) as H4.
  eexists. eexists. split; [exact H4|]. split; reflexivity.
Qed.

Print Assumptions C09_success.
Print Assumptions C09_idempotent.
Print Assumptions C09_idempotent_any_backend.
Print Assumptions C09_failure_iff.
Print Assumptions C09_total.
Print Assumptions C09_failure_atomic.
Print Assumptions C09h_success.
Print Assumptions C09h_idempotent.
Print Assumptions C09h_idempotent_any_backend.
Print Assumptions C09h_failure_iff.
Print Assumptions C09h_total.
Print Assumptions C09h_failure_atomic.
Print Assumptions C09_histories.
Print Assumptions C09_histories_quotient.
Print Assumptions hist_unify_any.
Print Assumptions hist_quotient_total.
Print Assumptions vec_cc_canonical.
Print Assumptions C09_idempotent_adv_counterexample.
Print Assumptions ex_history.
