(* C10, part 1: the in-place operations, definedness of lax composition, the shape of the lax
   composite, and the pure view [strict_of] of strictification after the quotient.
   Model: Model/Lax.v.  Rust: src/lax/{open_hypergraph,hypergraph,category,mut_category}.rs. *)
From OHG Require Import Spec.Plain Proofs.PrimsThm Proofs.SegThm Proofs.C08Thm Proofs.C09Thm.
From Coq Require Import List Arith Lia Bool.
Import ListNotations.

Set Implicit Arguments.
Arguments Nat.sub : simpl never.

(* ---------- generic list facts ---------- *)
Lemma firstn_length_app {T} (a b : list T) : firstn (length a) (a ++ b) = a.
Proof. rewrite firstn_app, Nat.sub_diag, firstn_all. cbn [firstn]. apply app_nil_r. Qed.

Lemma skipn_length_app {T} (a b : list T) n : n = length a -> skipn n (a ++ b) = b.
Proof. intros ->. rewrite skipn_app, Nat.sub_diag, skipn_all. reflexivity. Qed.

Lemma combine_app_eq {X Y} (a1 a2 : list X) (b1 b2 : list Y) : length a1 = length b1 ->
  combine (a1 ++ a2) (b1 ++ b2) = combine a1 b1 ++ combine a2 b2.
Proof.
  revert b1. induction a1 as [|x a1 IH]; intros [|y b1] H; simpl in *; try discriminate; auto.
  f_equal. apply IH. lia.
Qed.

Lemma combine_map2 {X Y X' Y'} (f : X -> X') (g : Y -> Y') (a : list X) (b : list Y) :
  combine (map f a) (map g b) = map (fun p => (f (fst p), g (snd p))) (combine a b).
Proof.
  revert b. induction a as [|x a IH]; intros [|y b]; simpl; auto. f_equal. apply IH.
Qed.

Lemma map_fst_combine {X Y} (a : list X) (b : list Y) : length a = length b ->
  map fst (combine a b) = a.
Proof.
  revert b. induction a as [|x a IH]; intros [|y b] H; simpl in *; try discriminate; auto.
  f_equal. apply IH. lia.
Qed.

Lemma map_snd_combine {X Y} (a : list X) (b : list Y) : length a = length b ->
  map snd (combine a b) = b.
Proof.
  revert b. induction a as [|x a IH]; intros [|y b] H; simpl in *; try discriminate; auto.
  f_equal. apply IH. lia.
Qed.

Lemma combine_fst_snd {X Y} (l : list (X * Y)) : combine (map fst l) (map snd l) = l.
Proof. induction l as [|[x y] l IH]; simpl; auto. f_equal. exact IH. Qed.

Lemma all_lt_le n m l : n <= m -> all_lt n l -> all_lt m l.
Proof. intros H Hl. eapply Forall_impl. 2: exact Hl. simpl. intros a Ha. lia. Qed.

Lemma all_lt_shift n m l : all_lt m l -> all_lt (n + m) (shift n l).
Proof.
  intros H. unfold shift, all_lt in *. rewrite Forall_forall in *. intros y Hy.
  apply in_map_iff in Hy. destruct Hy as (x & <- & Hx). apply H in Hx. lia.
Qed.

Lemma all_lt_In_lt n l x : all_lt n l -> In x l -> x < n.
Proof. intros H Hx. unfold all_lt in H. rewrite Forall_forall in H. auto. Qed.

Lemma gather_some {T} (xs : list T) idx : all_lt (length xs) idx ->
  exists r, mapM (get xs) idx = Ok r /\ map Some r = map (nth_error xs) idx.
Proof.
  induction idx as [|i idx IH]; intros H.
  - exists []. split; reflexivity.
  - inversion H as [|? ? Hi Hidx]; subst. destruct (IH Hidx) as (r & Hr & Hm).
    destruct (nth_error xs i) as [x|] eqn:E.
    + exists (x :: r). split.
      * cbn [mapM]. unfold get at 1. rewrite E. cbn [unwrap bind]. rewrite Hr. reflexivity.
      * cbn [map]. rewrite E, Hm. reflexivity.
    + apply nth_error_None in E. lia.
Qed.

Lemma map_Some_inj' {T} (a b : list T) : map Some a = map Some b -> a = b.
Proof.
  revert b. induction a as [|x a IH]; intros [|y b] H; simpl in *; try discriminate; auto.
  inversion H; subst. f_equal. auto.
Qed.

Lemma ff_new_all_lt (t : list nat) (n : nat) : all_lt n t -> ff_new t n = Some (mkFF t n).
Proof.
  intros H. unfold ff_new. destruct (amax t) as [m|] eqn:E; [|reflexivity].
  assert (Hm : m < n).
  { unfold amax in E. destruct t as [|x t]; [discriminate|]. inversion E; subst m.
    inversion H as [|? ? Hx Ht]; subst. clear E H. revert x Hx.
    induction t as [|y t IH]; intros x Hx; simpl; auto.
    inversion Ht; subst. apply IH; auto. apply Nat.max_lub_lt; auto. }
  destruct (n <=? m) eqn:E2; [apply Nat.leb_le in E2; lia | reflexivity].
Qed.

Section C10a.
  Variables O A : Type.
  Notation lhg := (lhg O A).
  Notation lohg := (lohg O A).
  Implicit Types (f g : lohg).

  (* ====================================================================== *)
  (* C10_inplace: the in-place operations of mut_category.rs                 *)
  (* ====================================================================== *)
  Theorem C10_inplace_coproduct (g h : lhg) : lhg_coproduct_assign g h = lhg_coproduct g h.
  Proof. reflexivity. Qed.

  Theorem C10_inplace_tensor f g : lohg_tensor_assign f g = lohg_tensor f g.
  Proof. reflexivity. Qed.

  Theorem C10_inplace_append f g :
    lo_h (fst (lohg_append f g)) = lo_h (lohg_tensor f g) /\
    lo_sources (fst (lohg_append f g)) = lo_sources f /\
    lo_targets (fst (lohg_append f g)) = lo_targets f /\
    snd (lohg_append f g) =
      (shift (length (l_nodes (lo_h f))) (lo_sources g), shift (length (l_nodes (lo_h f))) (lo_targets g)) /\
    (* hence tensor = append followed by extending the interfaces with the returned ones *)
    lohg_tensor f g =
      mkLOHG (lo_sources (fst (lohg_append f g)) ++ fst (snd (lohg_append f g)))
             (lo_targets (fst (lohg_append f g)) ++ snd (snd (lohg_append f g)))
             (lo_h (fst (lohg_append f g))).
  Proof. repeat split. Qed.

  Theorem C10_inplace f g (h1 h2 : lhg) :
    lhg_coproduct_assign h1 h2 = lhg_coproduct h1 h2 /\
    lohg_tensor_assign f g = lohg_tensor f g /\
    lohg_append f g =
      (mkLOHG (lo_sources f) (lo_targets f) (lo_h (lohg_tensor f g)),
       (shift (length (l_nodes (lo_h f))) (lo_sources g), shift (length (l_nodes (lo_h f))) (lo_targets g))).
  Proof. repeat split. Qed.

  (* ====================================================================== *)
  (* vocabulary                                                              *)
  (* ====================================================================== *)
  (* one label per adjacency entry: an invariant of every value the crate builds, NOT part of
     [lwf] (C09 did not need it); [to_strict] panics without it (Hypergraph validation) *)
  Definition ladj_ok f : Prop := length (l_edges (lo_h f)) = length (l_adj (lo_h f)).

  Definition shift_pair (n : nat) (p : nat * nat) : nat * nat := (fst p + n, snd p + n).

  Lemma combine_shift n a b : combine (shift n a) (shift n b) = map (shift_pair n) (combine a b).
  Proof. unfold shift. rewrite combine_map2. reflexivity. Qed.

  Lemma shift_shiftl n l : shift n l = shiftl n l.
  Proof. reflexivity. Qed.

  Lemma shift_length n l : length (shift n l) = length l.
  Proof. apply map_length. Qed.

  Lemma pending_tensor f g : lwf f ->
    pending (lohg_tensor f g) = pending f ++ map (shift_pair (nn f)) (pending g).
  Proof.
    intros ((_ & _ & _ & Hlen) & _). unfold pending, lohg_tensor, lhg_coproduct.
    cbn [lo_h l_q fst snd]. rewrite combine_app_eq by exact Hlen. rewrite combine_shift. reflexivity.
  Qed.

  Lemma pedges_app (e1 e2 : list A) (a1 a2 : list hyperedge) : length e1 = length a1 ->
    pedges A (e1 ++ e2) (a1 ++ a2) = pedges A e1 a1 ++ pedges A e2 a2.
  Proof. intros H. unfold pedges. rewrite combine_app_eq by exact H. apply map_app. Qed.

  Lemma pedges_shift n (e : list A) (a : list hyperedge) :
    pedges A e (map (fun x : hyperedge => (shift n (fst x), shift n (snd x))) a) =
    map (shift_edge n) (pedges A e a).
  Proof.
    unfold pedges. revert a. induction e as [|x e IH]; intros [|[s t] a]; simpl; auto.
    f_equal. apply IH.
  Qed.

  Lemma labs_pedges f : p_edges (labs f) = pedges A (l_edges (lo_h f)) (l_adj (lo_h f)).
  Proof. reflexivity. Qed.

  Lemma labs_tensor f g : ladj_ok f -> labs (lohg_tensor f g) = ptensor (labs f) (labs g).
  Proof.
    intros Hf. unfold labs at 1, ptensor, lohg_tensor, lhg_coproduct.
    cbn [lo_h l_nodes l_edges l_adj lo_sources lo_targets p_nodes p_edges p_ins p_outs labs].
    pose proof (pedges_app (l_edges (lo_h f)) (l_edges (lo_h g)) (l_adj (lo_h f))
                  (map (fun e : hyperedge =>
                         (shift (length (l_nodes (lo_h f))) (fst e), shift (length (l_nodes (lo_h f))) (snd e)))
                       (l_adj (lo_h g))) Hf) as H1.
    rewrite pedges_shift in H1. unfold pedges in H1. f_equal; try reflexivity. exact H1.
  Qed.

  Lemma hwf_coproduct (h1 h2 : lhg) : hwf h1 -> hwf h2 -> hwf (lhg_coproduct h1 h2).
  Proof.
    intros (Ha1 & Hs1 & Ht1 & Hl1) (Ha2 & Hs2 & Ht2 & Hl2).
    unfold hwf, hn, lhg_coproduct. cbn [l_nodes l_adj l_q fst snd]. rewrite app_length.
    repeat split.
    - apply in_app_or in H. destruct H as [H|H].
      + apply Ha1 in H. eapply all_lt_le. 2: apply H. unfold hn. lia.
      + apply in_map_iff in H. destruct H as (e' & <- & He'). cbn [fst].
        apply all_lt_shift. apply Ha2 in He'. apply He'.
    - apply in_app_or in H. destruct H as [H|H].
      + apply Ha1 in H. eapply all_lt_le. 2: apply H. unfold hn. lia.
      + apply in_map_iff in H. destruct H as (e' & <- & He'). cbn [snd].
        apply all_lt_shift. apply Ha2 in He'. apply He'.
    - apply all_lt_app. eapply all_lt_le. 2: exact Hs1. unfold hn; lia. apply all_lt_shift. exact Hs2.
    - apply all_lt_app. eapply all_lt_le. 2: exact Ht1. unfold hn; lia. apply all_lt_shift. exact Ht2.
    - rewrite !app_length, !shift_length. lia.
  Qed.

  Lemma lwf_tensor f g : lwf f -> lwf g -> lwf (lohg_tensor f g).
  Proof.
    intros (Hf & Hfs & Hft) (Hg & Hgs & Hgt). unfold lwf, nn, lohg_tensor.
    cbn [lo_h lo_sources lo_targets]. split; [apply hwf_coproduct; assumption|].
    unfold lhg_coproduct. cbn [l_nodes]. rewrite app_length. split.
    - apply all_lt_app. eapply all_lt_le. 2: exact Hfs. unfold nn; lia. apply all_lt_shift. exact Hgs.
    - apply all_lt_app. eapply all_lt_le. 2: exact Hft. unfold nn; lia. apply all_lt_shift. exact Hgt.
  Qed.

  Lemma ladj_ok_tensor f g : ladj_ok f -> ladj_ok g -> ladj_ok (lohg_tensor f g).
  Proof.
    unfold ladj_ok, lohg_tensor, lhg_coproduct. cbn [lo_h l_edges l_adj].
    intros H1 H2. rewrite !app_length, map_length. rewrite H1, H2. reflexivity.
  Qed.

  (* ====================================================================== *)
  (* C10_lax_compose_spec                                                    *)
  (* ====================================================================== *)
  (* the loop of unifications only appends to the pending lists *)
  Lemma fold_unify (n : nat) (ps : list (nat * nat)) : forall h : lhg,
    fold_left (fun h p => lhg_unify h (fst p) (snd p + n)) ps h =
    mkLHG (l_nodes h) (l_edges h) (l_adj h)
          (fst (l_q h) ++ map fst ps, snd (l_q h) ++ map (fun p => snd p + n) ps).
  Proof.
    induction ps as [|p ps IH]; intros h.
    - cbn [fold_left map]. rewrite !app_nil_r. destruct h as [a b c [q1 q2]]. reflexivity.
    - cbn [fold_left]. rewrite IH. unfold lhg_unify. cbn [l_nodes l_edges l_adj l_q fst snd map].
      rewrite <- !app_assoc. reflexivity.
  Qed.

  Definition boundary_pairs f g : list (nat * nat) :=
    combine (lo_targets f) (shift (nn f) (lo_sources g)).

  (* what lax composition computes *)
  Definition lax_compose_pure f g : lohg :=
    let n := nn f in
    let c := lhg_coproduct (lo_h f) (lo_h g) in
    mkLOHG (lo_sources f) (shift n (lo_targets g))
           (mkLHG (l_nodes c) (l_edges c) (l_adj c)
                  (fst (l_q c) ++ lo_targets f, snd (l_q c) ++ shift n (lo_sources g))).

  Lemma lax_compose_ok f g : length (lo_targets f) = length (lo_sources g) ->
    lohg_lax_compose f g = Some (lax_compose_pure f g).
  Proof.
    intros Hlen. unfold lohg_lax_compose. rewrite (proj2 (Nat.eqb_eq _ _) Hlen). cbn [negb].
    rewrite fold_unify. unfold lax_compose_pure, nn, lohg_tensor. cbn [lo_sources lo_targets lo_h].
    rewrite firstn_length_app. rewrite skipn_length_app by reflexivity.
    rewrite map_fst_combine by exact Hlen.
    replace (map (fun p : nat * nat => snd p + length (l_nodes (lo_h f)))
                 (combine (lo_targets f) (lo_sources g)))
      with (shift (length (l_nodes (lo_h f))) (map snd (combine (lo_targets f) (lo_sources g))))
      by (unfold shift; rewrite map_map; reflexivity).
    rewrite map_snd_combine by exact Hlen. reflexivity.
  Qed.

  Lemma lax_compose_none f g : length (lo_targets f) <> length (lo_sources g) ->
    lohg_lax_compose f g = None.
  Proof.
    intros Hlen. unfold lohg_lax_compose. rewrite (proj2 (Nat.eqb_neq _ _) Hlen). reflexivity.
  Qed.

  Theorem C10_lax_compose_defined f g :
    (exists h, lohg_lax_compose f g = Some h) <-> length (lo_targets f) = length (lo_sources g).
  Proof.
    split.
    - intros (h & Hh). destruct (Nat.eq_dec (length (lo_targets f)) (length (lo_sources g))) as [E|E]; auto.
      rewrite lax_compose_none in Hh by exact E. discriminate.
    - intros E. eexists. apply lax_compose_ok. exact E.
  Qed.

  Lemma pending_lax_compose f g : lwf f -> lwf g ->
    pending (lax_compose_pure f g) =
    pending f ++ map (shift_pair (nn f)) (pending g) ++ boundary_pairs f g.
  Proof.
    intros Hf Hg. unfold pending at 1, lax_compose_pure. cbn [lo_h l_q fst snd].
    destruct Hf as ((_ & _ & _ & Hlf) & _). destruct Hg as ((_ & _ & _ & Hlg) & _).
    unfold lhg_coproduct. cbn [l_q fst snd].
    rewrite <- !app_assoc. rewrite combine_app_eq by exact Hlf.
    rewrite combine_app_eq by (rewrite !shift_length; exact Hlg).
    rewrite combine_shift. reflexivity.
  Qed.

  Lemma labs_lax_compose f g : ladj_ok f ->
    labs (lax_compose_pure f g) = pjoin (labs f) (labs g).
  Proof.
    intros Hf. pose proof (f_equal (@p_edges O A) (labs_tensor g Hf)) as H.
    unfold labs, pjoin, lax_compose_pure.
    cbn [lo_h l_nodes l_edges l_adj lo_sources lo_targets p_nodes p_edges p_ins p_outs].
    f_equal. exact H.
  Qed.

  Lemma lwf_lax_compose f g : lwf f -> lwf g -> length (lo_targets f) = length (lo_sources g) ->
    lwf (lax_compose_pure f g).
  Proof.
    intros Hf Hg Hlen. pose proof (lwf_tensor Hf Hg) as ((Ha & Hs & Ht & Hl) & Hfs & Hft).
    destruct Hf as (_ & Hfs' & Hft'). destruct Hg as (_ & Hgs' & Hgt').
    unfold lwf, hwf, nn, hn, lax_compose_pure, lohg_tensor in *.
    cbn [lo_h lo_sources lo_targets l_nodes l_adj l_q fst snd] in *.
    assert (Hn : length (l_nodes (lhg_coproduct (lo_h f) (lo_h g))) =
                 length (l_nodes (lo_h f)) + length (l_nodes (lo_h g))).
    { unfold lhg_coproduct. cbn [l_nodes]. apply app_length. }
    repeat split.
    - apply Ha. assumption.
    - apply Ha. assumption.
    - apply all_lt_app; [exact Hs|]. eapply all_lt_le. 2: exact Hft'. lia.
    - apply all_lt_app; [exact Ht|]. rewrite Hn. apply all_lt_shift. exact Hgs'.
    - rewrite !app_length, shift_length. lia.
    - eapply all_lt_le. 2: exact Hfs'. lia.
    - rewrite Hn. apply all_lt_shift. exact Hgt'.
  Qed.

  Lemma ladj_ok_lax_compose f g : ladj_ok f -> ladj_ok g -> ladj_ok (lax_compose_pure f g).
  Proof. intros H1 H2. exact (ladj_ok_tensor H1 H2). Qed.

  Theorem C10_lax_compose_spec f g h : lwf f -> lwf g -> ladj_ok f ->
    lohg_lax_compose f g = Some h ->
    (* the juxtaposition, interfaces = f's sources and g's (shifted) targets *)
    labs h = pjoin (labs f) (labs g) /\
    lo_sources h = lo_sources f /\ lo_targets h = shift (nn f) (lo_targets g) /\
    l_nodes (lo_h h) = l_nodes (lo_h f) ++ l_nodes (lo_h g) /\
    l_edges (lo_h h) = l_edges (lo_h f) ++ l_edges (lo_h g) /\
    l_adj (lo_h h) = l_adj (lo_h (lohg_tensor f g)) /\
    (* pending pairs: f's, then g's shifted, then one pair per boundary position *)
    pending h = pending f ++ map (shift_pair (nn f)) (pending g) ++
                combine (lo_targets f) (shift (nn f) (lo_sources g)) /\
    lwf h /\ (ladj_ok g -> ladj_ok h).
  Proof.
    intros Hf Hg Ha Hh.
    assert (Hlen : length (lo_targets f) = length (lo_sources g)).
    { apply C10_lax_compose_defined. eauto. }
    rewrite lax_compose_ok in Hh by exact Hlen. inversion Hh; subst h. clear Hh.
    split; [apply labs_lax_compose; exact Ha|].
    split; [reflexivity|]. split; [reflexivity|]. split; [reflexivity|]. split; [reflexivity|].
    split; [reflexivity|].
    split; [apply pending_lax_compose; assumption|].
    split; [apply lwf_lax_compose; assumption|].
    intros Hg'. apply ladj_ok_lax_compose; assumption.
  Qed.

  (* ====================================================================== *)
  (* C10_compose_defined                                                     *)
  (* ====================================================================== *)
  Lemma lohg_target_ok f : lwf f ->
    exists r, lohg_target f = Ok r /\ map Some r = tgt_type (labs f).
  Proof. intros (_ & _ & Ht). apply gather_some. exact Ht. Qed.

  Lemma lohg_source_ok f : lwf f ->
    exists r, lohg_source f = Ok r /\ map Some r = src_type (labs f).
  Proof. intros (_ & Hs & _). apply gather_some. exact Hs. Qed.

  Section Compose.
    Variable eqO : O -> O -> bool.
    Hypothesis eqO_spec : forall x y, eqO x y = true <-> x = y.

    Lemma lohg_compose_ok f g tf sg : lohg_target f = Ok tf -> lohg_source g = Ok sg ->
      lohg_compose eqO f g = if list_eqb eqO tf sg then Ok (lohg_lax_compose f g) else Ok None.
    Proof.
      intros Ht Hs. unfold lohg_compose. rewrite Ht, Hs. cbn [bind].
      destruct (list_eqb eqO tf sg); reflexivity.
    Qed.

    Theorem C10_compose_defined f g : lwf f -> lwf g ->
      exists tf sg, lohg_target f = Ok tf /\ lohg_source g = Ok sg /\
        (tf = sg <-> tgt_type (labs f) = src_type (labs g)) /\
        (* defined iff the types (label lists of the boundaries) are equal *)
        ((exists h, lohg_compose eqO f g = Ok (Some h)) <-> tf = sg) /\
        (tf = sg -> lohg_compose eqO f g = Ok (Some (lax_compose_pure f g)) /\
                    lohg_lax_compose f g = Some (lax_compose_pure f g)) /\
        (* a type mismatch is reported as None, never a panic *)
        (tf <> sg -> lohg_compose eqO f g = Ok None) /\
        (* the unchecked form is defined iff the arities match *)
        ((exists h, lohg_lax_compose f g = Some h) <->
         length (lo_targets f) = length (lo_sources g)).
    Proof.
      intros Hf Hg. destruct (lohg_target_ok Hf) as (tf & Htf & Htf').
      destruct (lohg_source_ok Hg) as (sg & Hsg & Hsg').
      exists tf, sg. split; [exact Htf|]. split; [exact Hsg|].
      assert (Hiff : tf = sg <-> tgt_type (labs f) = src_type (labs g)).
      { rewrite <- Htf', <- Hsg'. split; [intros ->; reflexivity | apply map_Some_inj']. }
      assert (Hlen : tf = sg -> length (lo_targets f) = length (lo_sources g)).
      { intros E. apply Hiff in E. unfold tgt_type, src_type, type_of in E.
        apply (f_equal (@length _)) in E. rewrite !map_length in E. exact E. }
      rewrite (lohg_compose_ok f g Htf Hsg).
      split; [exact Hiff|]. split; [|split; [|split]].
      - split.
        + intros (h & Hh). destruct (list_eqb eqO tf sg) eqn:E; [|discriminate].
          apply (list_eqb_spec eqO eqO_spec). exact E.
        + intros E. pose proof E as E'. apply (list_eqb_spec eqO eqO_spec) in E'. rewrite E'.
          rewrite lax_compose_ok by auto. eauto.
      - intros E. pose proof E as E'. apply (list_eqb_spec eqO eqO_spec) in E'. rewrite E'.
        rewrite lax_compose_ok by auto. split; reflexivity.
      - intros E. destruct (list_eqb eqO tf sg) eqn:E'; [|reflexivity].
        apply (list_eqb_spec eqO eqO_spec) in E'. contradiction.
      - apply C10_lax_compose_defined.
    Qed.
  End Compose.
End C10a.

Arguments ladj_ok {O A} f.
Arguments boundary_pairs {O A} f g.
Arguments lax_compose_pure {O A} f g.
