(* C10, part 2: the pure views of strictification ([strict_of]) and of the lax embedding
   ([lax_of]); the two round trips; the specification of [lohg_to_strict].
   Model: Model/Lax.v (lhg_to_hypergraph, lhg_from_strict, lohg_from_strict, lohg_to_strict). *)
From OHG Require Import Spec.Plain Proofs.PrimsThm Proofs.SegThm Proofs.C08Thm Proofs.C09Thm
  Proofs.C10Lemmas.
From Coq Require Import List Arith Lia Bool.
Import ListNotations.

Set Implicit Arguments.
Arguments Nat.sub : simpl never.

(* ---------- list facts ---------- *)
Lemma list_sum_map_length_proj {X T} (proj : X -> list T) (l : list X) :
  list_sum (map (fun e => length (proj e)) l) = length (flat_map proj l).
Proof. induction l as [|x l IH]; simpl; auto. rewrite app_length, IH. reflexivity. Qed.

Lemma all_lt_flat_map {X} n (proj : X -> list nat) (l : list X) :
  (forall e, In e l -> all_lt n (proj e)) -> all_lt n (flat_map proj l).
Proof.
  intros H. unfold all_lt. rewrite Forall_forall. intros x Hx. apply in_flat_map in Hx.
  destruct Hx as (e & He & Hx). eapply all_lt_In_lt. apply (H e He). exact Hx.
Qed.

Lemma segs_In_incl {T} sizes : forall (vals l : list T) x, In l (segs sizes vals) -> In x l -> In x vals.
Proof.
  induction sizes as [|k sizes IH]; intros vals l x Hl Hx; simpl in Hl; [contradiction|].
  destruct Hl as [<-|Hl].
  - eapply In_firstn. exact Hx.
  - eapply In_skipn. eapply IH; eauto.
Qed.

Lemma segs_proj {X T} (proj : X -> list T) (l : list X) :
  segs (map (fun e => length (proj e)) l) (flat_map proj l) = map proj l.
Proof.
  rewrite flat_map_concat_map. rewrite <- (segs_of_concat (map proj l)) at 2.
  rewrite map_map. reflexivity.
Qed.

Lemma in_combine_fst {X Y} (a : list X) (b : list Y) p : In p (combine a b) -> In (fst p) a.
Proof. destruct p as [x y]. apply in_combine_l. Qed.

Lemma in_combine_snd {X Y} (a : list X) (b : list Y) p : In p (combine a b) -> In (snd p) b.
Proof. destruct p as [x y]. apply in_combine_r. Qed.

Section C10b.
  Variables O A : Type.
  Notation lhg := (lhg O A).
  Notation lohg := (lohg O A).
  Notation hg := (hg O A).
  Notation ohg := (ohg O A).

  (* ====================================================================== *)
  (* pure views                                                              *)
  (* ====================================================================== *)
  (* the segmented array built by make_hypergraph from one side of the adjacency *)
  Definition enc (proj : hyperedge -> list nat) (adj : list hyperedge) (n : nat) : icf :=
    mkIC (mkFF (map (fun e => length (proj e)) adj) (length (flat_map proj adj) + 1))
         (mkFF (flat_map proj adj) n).

  Definition hstrict_of (h : lhg) : hg :=
    mkHG (enc fst (l_adj h) (hn h)) (enc snd (l_adj h) (hn h)) (l_nodes h) (l_edges h).

  (* strictification of a lax diagram WITHOUT pending pairs *)
  Definition strict_of (f : lohg) : ohg :=
    mkOHG (mkFF (lo_sources f) (nn f)) (mkFF (lo_targets f) (nn f)) (hstrict_of (lo_h f)).

  (* the lax form of a strict diagram *)
  Definition hlax_of (h : hg) : lhg :=
    mkLHG (h_w h) (h_x h) (combine (decode_f (h_s h)) (decode_f (h_t h))) ([], []).
  Definition lax_of (f : ohg) : lohg :=
    mkLOHG (table (o_s f)) (table (o_t f)) (hlax_of (o_h f)).

  Lemma enc_wf proj adj n : (forall e, In e adj -> all_lt n (proj e)) -> wf_icf (enc proj adj n).
  Proof.
    intros H. unfold wf_icf, wf_ic, wf_ff, enc, ff_source. cbn [ic_sources ic_values table target].
    rewrite list_sum_map_length_proj. repeat split. apply all_lt_flat_map. exact H.
  Qed.

  Lemma enc_decode proj adj n : decode_f (enc proj adj n) = map proj adj.
  Proof. unfold decode_f, enc. cbn [ic_sources ic_values table]. apply segs_proj. Qed.

  Lemma to_hypergraph_ok (h : lhg) :
    (forall e, In e (l_adj h) -> all_lt (hn h) (fst e) /\ all_lt (hn h) (snd e)) ->
    lhg_to_hypergraph h = Ok (hstrict_of h).
  Proof.
    intros H. unfold lhg_to_hypergraph.
    assert (Hmk : forall proj : hyperedge -> list nat,
               (forall e, In e (l_adj h) -> all_lt (hn h) (proj e)) ->
               (v <- unwrap (ff_new (flat_map proj (l_adj h)) (length (l_nodes h))) ;;
                r <- ic_from_semifinite ff_vops (map (fun e => length (proj e)) (l_adj h)) v ;;
                unwrap r) = Ok (enc proj (l_adj h) (hn h))).
    { intros proj Hp. rewrite ff_new_all_lt by (apply all_lt_flat_map; exact Hp).
      cbn [unwrap bind]. rewrite from_semifinite_ok.
      - reflexivity.
      - cbn [vlen ff_vops]. unfold ff_source. cbn [table]. apply list_sum_map_length_proj. }
    rewrite (Hmk fst) by (intros e He; apply (H e He)). cbn [bind].
    rewrite (Hmk snd) by (intros e He; apply (H e He)). cbn [bind]. reflexivity.
  Qed.

  Lemma wf_strict_of (f : lohg) : lwf f -> ladj_ok f -> wf_ohg (strict_of f).
  Proof.
    intros ((Ha & _) & Hs & Ht) Hl. unfold wf_ohg, wf_hg, strict_of, hstrict_of.
    cbn [o_h o_s o_t h_s h_t h_w h_x].
    assert (E1 : wf_icf (enc fst (l_adj (lo_h f)) (hn (lo_h f)))).
    { apply enc_wf. intros e He. apply (Ha e He). }
    assert (E2 : wf_icf (enc snd (l_adj (lo_h f)) (hn (lo_h f)))).
    { apply enc_wf. intros e He. apply (Ha e He). }
    assert (E3 : forall proj, ic_len (enc proj (l_adj (lo_h f)) (hn (lo_h f))) = length (l_edges (lo_h f))).
    { intros proj. unfold ic_len, enc, ff_source. cbn [ic_sources table]. rewrite map_length.
      symmetry. exact Hl. }
    split; [split; [exact E1 | split; [exact E2 | split; [apply E3 | split; [apply E3 | split; reflexivity]]]]|].
    split; [exact Hs|]. split; [exact Ht|]. split; reflexivity.
  Qed.

  Lemma zip3_pedges (xs : list A) (adj : list hyperedge) :
    zip3 xs (map fst adj) (map snd adj) = pedges A xs adj.
  Proof.
    unfold pedges. revert adj. induction xs as [|x xs IH]; intros [|[s t] adj]; simpl; auto.
    f_equal. apply IH.
  Qed.

  Lemma abs_strict_of (f : lohg) : abs (strict_of f) = labs f.
  Proof.
    unfold abs, labs, strict_of, hstrict_of, abs_hg_edges.
    cbn [o_h o_s o_t h_s h_t h_w h_x table]. rewrite !enc_decode, zip3_pedges. reflexivity.
  Qed.

  (* ---------- the lax form of a strict diagram ---------- *)
  Lemma zip3_combine (xs : list A) : forall S T,
    zip3 xs S T = pedges A xs (combine S T).
  Proof.
    unfold pedges. induction xs as [|x xs IH]; intros [|s S] [|t T]; simpl; auto.
    f_equal. apply IH.
  Qed.

  Lemma labs_lax_of (f : ohg) : labs (lax_of f) = abs f.
  Proof.
    unfold abs, labs, lax_of, hlax_of, abs_hg_edges.
    cbn [lo_h lo_sources lo_targets l_nodes l_edges l_adj]. rewrite zip3_combine. reflexivity.
  Qed.

  Lemma decode_in_range (c : icf) l : wf_ff (ic_values c) -> In l (decode_f c) ->
    all_lt (target (ic_values c)) l.
  Proof.
    intros Hv Hl. unfold all_lt. rewrite Forall_forall. intros x Hx.
    eapply all_lt_In_lt. exact Hv. eapply segs_In_incl; eauto.
  Qed.

  Lemma lwf_lax_of (f : ohg) : wf_ohg f -> lwf (lax_of f).
  Proof.
    intros (((_ & Hs) & (_ & Ht) & _ & _ & Hts & Htt) & Hfs & Hft & Hos & Hot).
    unfold lwf, hwf, nn, hn, lax_of, hlax_of. cbn [lo_h lo_sources lo_targets l_nodes l_adj l_q fst snd].
    repeat split; try (constructor; fail).
    - rewrite <- Hts. apply decode_in_range. exact Hs. eapply in_combine_fst. exact H.
    - rewrite <- Htt. apply decode_in_range. exact Ht. eapply in_combine_snd. exact H.
    - rewrite <- Hos. exact Hfs.
    - rewrite <- Hot. exact Hft.
  Qed.

  Lemma decode_length (c : icf) : length (decode_f c) = ic_len c.
  Proof. unfold decode_f. rewrite SegThm.segs_length. reflexivity. Qed.

  Lemma ladj_ok_lax_of (f : ohg) : wf_ohg f -> ladj_ok (lax_of f).
  Proof.
    intros ((_ & _ & Hls & Hlt & _) & _). unfold ladj_ok, lax_of, hlax_of. cbn [lo_h l_edges l_adj].
    etransitivity; [|symmetry; apply combine_length]. rewrite !decode_length. lia.
  Qed.

  Lemma pending_lax_of (f : ohg) : pending (lax_of f) = [] /\ l_q (lo_h (lax_of f)) = ([], []).
  Proof. split; reflexivity. Qed.

  Lemma icf_collect_ok (c : icf) : wf_icf c ->
    icf_collect c = Ok (map (fun t => mkFF t (target (ic_values c))) (decode_f c)).
  Proof. intros H. apply (C08_iter_f H). Qed.

  Lemma lhg_from_strict_ok (h : hg) : wf_hg h -> lhg_from_strict h = Ok (hlax_of h).
  Proof.
    intros (Hs & Ht & _). unfold lhg_from_strict.
    rewrite (icf_collect_ok Hs), (icf_collect_ok Ht). cbn [bind]. unfold hlax_of.
    rewrite combine_map2, map_map. cbn [fst snd table].
    rewrite map_id_in; [reflexivity|]. intros [a b] _. reflexivity.
  Qed.

  Lemma lohg_from_strict_ok (f : ohg) : wf_ohg f -> lohg_from_strict f = Ok (lax_of f).
  Proof.
    intros (Hh & _). unfold lohg_from_strict. rewrite (lhg_from_strict_ok Hh). reflexivity.
  Qed.

  Lemma enc_of_decode (c : icf) (l : list hyperedge) proj n : wf_icf c ->
    map proj l = decode_f c -> n = target (ic_values c) -> enc proj l n = c.
  Proof.
    intros ((Htg & Hsum) & _) Hl ->. unfold enc.
    assert (H1 : map (fun e => length (proj e)) l = table (ic_sources c)).
    { rewrite <- (map_map proj (@length nat)), Hl. unfold decode_f.
      apply segs_lengths. unfold ff_source in Hsum. lia. }
    assert (H2 : flat_map proj l = table (ic_values c)).
    { rewrite flat_map_concat_map, Hl. unfold decode_f. apply segs_concat. exact Hsum. }
    rewrite H1, H2. unfold ff_source in Hsum. rewrite <- Hsum, <- Htg.
    destruct c as [[st sg] [vt vg]]. reflexivity.
  Qed.

  Lemma strict_of_lax_of (f : ohg) : wf_ohg f -> strict_of (lax_of f) = f.
  Proof.
    intros Hwf. pose proof Hwf as ((Hs & Ht & Hls & Hlt & Hts & Htt) & Hfs & Hft & Hos & Hot).
    unfold strict_of, hstrict_of, lax_of, hlax_of, nn, hn.
    cbn [lo_h lo_sources lo_targets l_nodes l_edges l_adj].
    assert (Hlen : length (decode_f (h_s (o_h f))) = length (decode_f (h_t (o_h f)))).
    { rewrite !decode_length. lia. }
    rewrite (enc_of_decode (c := h_s (o_h f))); [|exact Hs|apply map_fst_combine; exact Hlen|auto].
    rewrite (enc_of_decode (c := h_t (o_h f))); [|exact Ht|apply map_snd_combine; exact Hlen|auto].
    rewrite <- Hos at 1. rewrite <- Hot.
    destruct f as [[st sg] [tt tg] [hs ht hw hx]]. reflexivity.
  Qed.

  Lemma lax_of_strict_of (g : lohg) : l_q (lo_h g) = ([], []) -> lax_of (strict_of g) = g.
  Proof.
    intros Hq. unfold lax_of, hlax_of, strict_of, hstrict_of.
    cbn [o_h o_s o_t h_s h_t h_w h_x table]. rewrite !enc_decode.
    destruct g as [s t [n e a q]]. cbn [lo_h lo_sources lo_targets l_nodes l_edges l_adj l_q] in *.
    rewrite Hq. do 2 f_equal. apply combine_fst_snd.
  Qed.

  (* ====================================================================== *)
  (* strictification = quotient, then re-encoding                            *)
  (* ====================================================================== *)
  Section Backend.
    Variable B : Backend.
    Hypothesis OK : BackendOK B.
    Variable eqO : O -> O -> bool.
    Hypothesis eqO_spec : forall x y, eqO x y = true <-> x = y.

    Lemma to_strict_of_quotient (g g' : lohg) q : lohg_quotient B eqO g = Ok (g', inl q) ->
      lwf g' -> ladj_ok g' -> lohg_to_strict B eqO g = Ok (strict_of g').
    Proof.
      intros Hq Hwf Hl. unfold lohg_to_strict. rewrite Hq. cbn [bind].
      pose proof Hwf as ((Ha & _) & Hs & Ht). unfold nn in Hs, Ht.
      rewrite (ff_new_all_lt Hs), (ff_new_all_lt Ht). cbn [unwrap bind].
      rewrite (to_hypergraph_ok _ Ha). cbn [bind].
      pose proof (wf_strict_of Hwf Hl) as ((_ & _ & Hls & Hlt & Hts & Htt) & _ & _ & Hos & Hot).
      unfold strict_of in *. cbn [o_h o_s o_t] in *.
      unfold ohg_new, ohg_validate, hg_validate. cbn [o_h o_s o_t].
      rewrite Hls, Hlt, Hts, Htt, !Nat.eqb_refl. cbn [negb target].
      unfold nn in Hos. cbn [target] in Hos. rewrite Hos, !Nat.eqb_refl. cbn [negb].
      rewrite <- Hos. reflexivity.

    Qed.

    Lemma to_strict_of_failure (g g' : lohg) q : lohg_quotient B eqO g = Ok (g', inr q) ->
      lohg_to_strict B eqO g = Panic.
    Proof. intros Hq. unfold lohg_to_strict. rewrite Hq. reflexivity. Qed.

    Lemma ladj_ok_quot_result (g : lohg) u : ladj_ok g -> ladj_ok (quot_result B O A g u).
    Proof.
      unfold ladj_ok, quot_result, hquot_result, qmap_adj. cbn [lo_h l_edges l_adj].
      rewrite map_length. auto.
    Qed.

    (* value of to_strict in terms of the label array [u] produced by the quotient *)
    Lemma to_strict_char (g : lohg) : lwf g -> ladj_ok g ->
      exists (u : list O) (b : bool),
        lohg_quotient B eqO g =
          Ok (if b then (quot_result B O A g u, inl (hq B O A (lo_h g))) else (g, inr (hq B O A (lo_h g)))) /\
        lohg_to_strict B eqO g = (if b then Ok (strict_of (quot_result B O A g u)) else Panic) /\
        (b = true <-> labels_consistent g) /\
        (b = true -> length u = target (hq B O A (lo_h g)) /\ lwf (quot_result B O A g u) /\
                     forall i, i < nn g ->
                       nth_error u (C09Thm.app (hq B O A (lo_h g)) i) = nth_error (l_nodes (lo_h g)) i).
    Proof.
      intros Hwf Hl. destruct (lohg_quotient_char B OK O A eqO eqO_spec g Hwf) as (u & b & Hq & Hb & Hu).
      exists u, b. split; [exact Hq|]. split; [|split; [exact Hb|]].
      - destruct b.
        + destruct (Hu eq_refl) as (Hlen & _).
          eapply to_strict_of_quotient; [exact Hq| |].
          * apply (quot_result_wf B OK O A); assumption.
          * apply ladj_ok_quot_result. exact Hl.
        + eapply to_strict_of_failure; exact Hq.
      - intros ->. destruct (Hu eq_refl) as (Hlen & Hnth). split; [exact Hlen|]. split; [|exact Hnth].
        apply (quot_result_wf B OK O A); assumption.
    Qed.

    (* ====================================================================== *)
    (* C10_to_strict_spec                                                      *)
    (* ====================================================================== *)
    Theorem C10_to_strict_spec (g : lohg) : lwf g -> ladj_ok g -> labels_consistent g ->
      exists s, lohg_to_strict B eqO g = Ok s /\ wf_ohg s /\
        exists q, IsQuot (labs g) q (abs s) /\
          (forall i j, i < nn g -> j < nn g -> (q i = q j <-> conn (pending g) i j)).
    Proof.
      intros Hwf Hl Hc. destruct (to_strict_char Hwf Hl) as (u & b & Hq & Hs & Hb & Hu).
      assert (b = true) by (apply Hb; exact Hc). subst b.
      destruct (Hu eq_refl) as (Hlen & Hwf' & Hnth).
      exists (strict_of (quot_result B O A g u)). split; [exact Hs|].
      split; [apply wf_strict_of; [exact Hwf'|apply ladj_ok_quot_result; exact Hl]|].
      exists (C09Thm.app (hq B O A (lo_h g))). rewrite abs_strict_of. split.
      - destruct Hwf as (Hh & _). exact (isquot_core B OK O A (lo_h g) u (lo_sources g) (lo_targets g) Hh Hlen Hnth).
      - destruct Hwf as (Hh & _). destruct (hq_spec B OK O A (lo_h g) Hh) as (_ & _ & _ & Hk). exact Hk.
    Qed.

    Theorem C10_to_strict_panic (g : lohg) : lwf g -> ladj_ok g -> ~ labels_consistent g ->
      lohg_to_strict B eqO g = Panic.
    Proof.
      intros Hwf Hl Hc. destruct (to_strict_char Hwf Hl) as (u & b & Hq & Hs & Hb & Hu).
      destruct b; [exfalso; apply Hc, Hb; reflexivity | exact Hs].
    Qed.

    (* without pending pairs and with the canonical numbering, strictification is re-encoding *)
    Lemma to_strict_nopending (g : lohg) : cc_canonical B -> lwf g -> ladj_ok g ->
      l_q (lo_h g) = ([], []) -> lohg_to_strict B eqO g = Ok (strict_of g).
    Proof.
      intros Hcc Hwf Hl Hq.
      eapply to_strict_of_quotient; [exact (quotient_strict_fixed B OK O A eqO eqO_spec g Hcc Hwf Hq)| |]; assumption.
    Qed.

    (* ====================================================================== *)
    (* C10_round_strict / C10_round_lax                                        *)
    (* ====================================================================== *)
    Theorem C10_round_strict (f : ohg) : cc_canonical B -> wf_ohg f ->
      (l <- lohg_from_strict f ;; lohg_to_strict B eqO l) = Ok f.
    Proof.
      intros Hcc Hwf. rewrite (lohg_from_strict_ok Hwf). cbn [bind].
      rewrite to_strict_nopending; auto using lwf_lax_of, ladj_ok_lax_of.
      rewrite (strict_of_lax_of Hwf). reflexivity.
    Qed.

    Theorem C10_from_strict_spec (f : ohg) : wf_ohg f ->
      exists l, lohg_from_strict f = Ok l /\ pending l = [] /\ l_q (lo_h l) = ([], []) /\
                lwf l /\ ladj_ok l /\ labs l = abs f.
    Proof.
      intros Hwf. exists (lax_of f). split; [apply lohg_from_strict_ok; exact Hwf|].
      split; [reflexivity|]. split; [reflexivity|].
      split; [apply lwf_lax_of; exact Hwf|]. split; [apply ladj_ok_lax_of; exact Hwf|].
      apply labs_lax_of.
    Qed.

    Theorem C10_round_lax (g : lohg) : cc_canonical B -> lwf g -> ladj_ok g ->
      l_q (lo_h g) = ([], []) ->
      (s <- lohg_to_strict B eqO g ;; lohg_from_strict s) = Ok g.
    Proof.
      intros Hcc Hwf Hl Hq. rewrite to_strict_nopending by assumption. cbn [bind].
      rewrite (lohg_from_strict_ok (wf_strict_of Hwf Hl)). rewrite (lax_of_strict_of _ Hq).
      reflexivity.
    Qed.
  End Backend.
End C10b.
