(* C10: the lax and the strict representations agree.
   Round trips (C10Strict.v), strictification of the categorical constructors, of the tensor and of
   composition; concrete examples.
   Model: Model/Lax.v.  Rust: src/lax/{open_hypergraph,hypergraph,category,mut_category}.rs. *)
From OHG Require Import Proofs.C06Thm Proofs.C01Lemmas Proofs.C01Thm.
From OHG Require Import Spec.Plain Proofs.PrimsThm Proofs.SegThm Proofs.C08Thm Proofs.C09Thm
  Proofs.BackendInst Proofs.C10Lemmas Proofs.C10Strict Proofs.C10Quot.
From Coq Require Import List Arith Lia Bool.
Import ListNotations.

Set Implicit Arguments.
Arguments Nat.sub : simpl never.

(* ---------- list facts ---------- *)
Lemma flat_map_shift {X} (proj : X -> list nat) (sh : X -> X) n (l : list X) :
  (forall e, proj (sh e) = shift n (proj e)) ->
  flat_map proj (map sh l) = shift n (flat_map proj l).
Proof.
  intros H. induction l as [|x l IH]; simpl; auto. rewrite IH, H. unfold shift. rewrite map_app.
  reflexivity.
Qed.

Section C10.
  Variable B : Backend.
  Hypothesis OK : BackendOK B.
  Variables O A : Type.
  Variable eqO : O -> O -> bool.
  Hypothesis eqO_spec : forall x y, eqO x y = true <-> x = y.

  Notation lhg := (lhg O A).
  Notation lohg := (lohg O A).
  Notation ohg := (ohg O A).
  Notation to_strict := (lohg_to_strict B eqO).

  (* ====================================================================== *)
  (* constructors                                                            *)
  (* ====================================================================== *)
  Lemma lwf_discrete (w : list O) s t : all_lt (length w) s -> all_lt (length w) t ->
    lwf (mkLOHG s t (lhg_discrete A w)) /\ ladj_ok (mkLOHG s t (lhg_discrete A w)) /\
    l_q (lo_h (mkLOHG s t (lhg_discrete A w))) = ([], []).
  Proof.
    intros Hs Ht. split; [|split; reflexivity].
    unfold lwf, hwf, nn, hn. cbn [lo_h lo_sources lo_targets lhg_discrete l_nodes l_adj l_q fst snd].
    repeat split; try assumption; try constructor; contradiction.
  Qed.

  Lemma all_lt_seq a n m : a + n <= m -> all_lt m (seq a n).
  Proof. intros H. unfold all_lt. rewrite Forall_forall. intros x Hx. apply in_seq in Hx. lia. Qed.

  Lemma strict_of_discrete (w : list O) s t :
    strict_of (mkLOHG s t (lhg_discrete A w)) =
    mkOHG (mkFF s (length w)) (mkFF t (length w)) (hg_discrete A w).
  Proof. reflexivity. Qed.

  Theorem C10_identity (a : list O) : cc_canonical B ->
    to_strict (lohg_identity A a) = ohg_identity A a.
  Proof.
    intros Hcc. unfold lohg_identity.
    destruct (@lwf_discrete a (seq 0 (length a)) (seq 0 (length a))) as (H1 & H2 & H3);
      try (apply all_lt_seq; lia).
    rewrite (to_strict_nopending OK eqO eqO_spec Hcc H1 H2 H3). rewrite strict_of_discrete.
    unfold ohg_identity, ff_identity. rewrite arange_ok by lia. rewrite Nat.sub_0_r. reflexivity.
  Qed.

  Theorem C10_spider (s t : ff) (w : list O) : cc_canonical B -> wf_ff s -> wf_ff t ->
    match lohg_spider A s t w with
    | Some l => ohg_spider A s t w = Some (mkOHG s t (hg_discrete A w)) /\
                to_strict l = Ok (mkOHG s t (hg_discrete A w)) /\
                pending l = [] /\ lwf l
    | None => ohg_spider A s t w = None
    end.
  Proof.
    intros Hcc Hs Ht. unfold lohg_spider, ohg_spider.
    destruct (target s =? target t) eqn:E1; destruct (target s =? length w) eqn:E2; cbn [negb orb].
    - apply Nat.eqb_eq in E1, E2. rewrite <- E1, E2, Nat.eqb_refl. cbn [negb orb].
      unfold wf_ff in Hs, Ht. rewrite <- E1 in Ht. rewrite E2 in Hs, Ht.
      destruct (lwf_discrete w Hs Ht) as (H1 & H2 & H3).
      split; [reflexivity|]. split; [|split; [reflexivity|exact H1]].
      rewrite (to_strict_nopending OK eqO eqO_spec Hcc H1 H2 H3), strict_of_discrete.
      destruct s as [st sg], t as [tt tg]. cbn [table target] in *. subst. reflexivity.
    - reflexivity.
    - apply Nat.eqb_eq in E2. apply Nat.eqb_neq in E1. rewrite <- E2.
      rewrite (proj2 (Nat.eqb_neq (target t) (target s))) by auto. reflexivity.
    - reflexivity.
  Qed.

  (* ---------- dagger ---------- *)
  Lemma lohg_quotient_from_h (f : lohg) h r : lwf f ->
    lhg_quotient B eqO (lo_h f) = Ok (h, r) ->
    lohg_quotient B eqO f =
    match r with
    | inl q => Ok (mkLOHG (map (C09Thm.app q) (lo_sources f)) (map (C09Thm.app q) (lo_targets f)) h, inl q)
    | inr q => Ok (mkLOHG (lo_sources f) (lo_targets f) h, inr q)
    end.
  Proof.
    intros (Hh & Hs & Ht) Hq. unfold lohg_quotient. rewrite Hq. cbn [bind].
    destruct r as [q|q]; [|reflexivity].
    destruct (lhg_quotient_char B OK O A eqO eqO_spec (lo_h f) Hh) as (u & b & Hq' & _).
    rewrite Hq in Hq'. destruct b; [|discriminate]. injection Hq' as _ Eq. subst q.
    destruct (hq_spec B OK O A (lo_h f) Hh) as (Hlen & _).
    rewrite !map_q_ok by (rewrite Hlen; assumption). reflexivity.
  Qed.

  Lemma lwf_dagger (f : lohg) : lwf f -> lwf (lohg_dagger f).
  Proof. intros (Hh & Hs & Ht). split; [exact Hh|split; assumption]. Qed.

  Theorem C10_dagger (f : lohg) : lwf f -> ladj_ok f ->
    to_strict (lohg_dagger f) = rmap (@ohg_dagger O A) (to_strict f).
  Proof.
    intros Hwf Hl. pose proof (lwf_dagger Hwf) as Hwf'.
    destruct (to_strict_char OK eqO eqO_spec Hwf Hl) as (u & b & Hq & Hs & Hb & Hu).
    pose proof Hwf as (Hh & _).
    destruct (lhg_quotient B eqO (lo_h f)) as [[h r]| |] eqn:E.
    - pose proof (@lohg_quotient_from_h f h r Hwf E) as Hq1.
      pose proof (@lohg_quotient_from_h (lohg_dagger f) h r Hwf' E) as Hq2.
      rewrite Hs. destruct b.
      + rewrite Hq in Hq1. destruct r as [q|q]; [|discriminate]. injection Hq1 as _ _ Eh Eq.
        subst q h. destruct (Hu eq_refl) as (Hlen & Hwfq & _).
        rewrite (@to_strict_of_quotient O A B eqO (lohg_dagger f) _ _ Hq2).
        * reflexivity.
        * destruct Hwfq as (X1 & X2 & X3). split; [exact X1|split; assumption].
        * exact (ladj_ok_quot_result B u Hl).
      + rewrite Hq in Hq1. destruct r as [q|q]; [discriminate|].
        cbn [rmap]. eapply to_strict_of_failure. exact Hq2.
    - unfold lohg_quotient in Hq. rewrite E in Hq. destruct b; discriminate.
    - unfold lohg_quotient in Hq. rewrite E in Hq. destruct b; discriminate.
  Qed.

  (* ---------- singleton ---------- *)
  Lemma lhg_new_nodes_ok ws : forall h : lhg,
    lhg_new_nodes h ws =
    (mkLHG (l_nodes h ++ ws) (l_edges h) (l_adj h) (l_q h), seq (length (l_nodes h)) (length ws)).
  Proof.
    induction ws as [|w ws IH]; intros h.
    - cbn [lhg_new_nodes length seq]. rewrite app_nil_r. destruct h; reflexivity.
    - cbn [lhg_new_nodes]. unfold lhg_new_node. rewrite IH.
      cbn [l_nodes l_edges l_adj l_q length seq].
      rewrite <- app_assoc, app_length. cbn [app length].
      replace (length (l_nodes h) + 1) with (S (length (l_nodes h))) by lia. reflexivity.
  Qed.

  Lemma lohg_singleton_ok (x : A) (s t : list O) :
    lohg_singleton x s t =
    mkLOHG (seq 0 (length s)) (seq (length s) (length t))
           (mkLHG (s ++ t) [x] [(seq 0 (length s), seq (length s) (length t))] ([], [])).
  Proof.
    unfold lohg_singleton, lhg_new_operation. rewrite lhg_new_nodes_ok.
    cbn [lhg_empty l_nodes l_edges l_adj l_q app length]. rewrite lhg_new_nodes_ok.
    cbn [l_nodes l_edges l_adj l_q]. unfold lhg_new_edge. cbn [l_nodes l_edges l_adj l_q app].
    reflexivity.
  Qed.

  Lemma wf_ic_const a (v : ff) : ff_source v = a ->
    wf_ic (vlen ff_vops) (mkIC (ff_constant 1 a 0) v).
  Proof.
    intros <-. unfold wf_ic, ff_constant, fill. cbn [ic_sources ic_values table target vlen ff_vops repeat].
    simpl list_sum. lia.
  Qed.

  Lemma ohg_singleton_ok (x : A) (s t : list O) :
    ohg_singleton x s t =
    Ok (strict_of (mkLOHG (seq 0 (length s)) (seq (length s) (length t))
           (mkLHG (s ++ t) [x] [(seq 0 (length s), seq (length s) (length t))] ([], [])))).
  Proof.
    unfold ohg_singleton, ohg_tensor_operations, hg_tensor_operations, ops_singleton.
    cbn [ops_a ops_b ops_x ic_singleton ic_values ic_sources vlen semi_vops].
    unfold ff_inj0, ff_inj1. rewrite !arange_ok by lia. cbn [bind].
    replace (length s - 0) with (length s) by lia.
    replace (length s + length t - length s) with (length t) by lia.
    rewrite (C08_new_some ff_vops).
    2:{ apply wf_ic_const. unfold ff_source. cbn [table]. apply seq_length. }
    cbn [unwrap bind].
    rewrite (C08_new_some ff_vops).
    2:{ apply wf_ic_const. unfold ff_source. cbn [table]. apply seq_length. }
    cbn [unwrap bind h_s h_t ic_values].
    unfold strict_of, hstrict_of, enc, nn, hn, ff_constant, fill.
    cbn [lo_h lo_sources lo_targets l_nodes l_edges l_adj map flat_map fst snd repeat].
    rewrite !app_nil_r, !seq_length, app_length.
    replace (length s + 0 + 1) with (length s + 1) by lia.
    replace (length t + 0 + 1) with (length t + 1) by lia. reflexivity.
  Qed.

  Lemma lwf_singleton (x : A) (s t : list O) :
    lwf (lohg_singleton x s t) /\ ladj_ok (lohg_singleton x s t) /\
    l_q (lo_h (lohg_singleton x s t)) = ([], []).
  Proof.
    rewrite lohg_singleton_ok. split; [|split; reflexivity].
    unfold lwf, hwf, nn, hn. cbn [lo_h lo_sources lo_targets l_nodes l_adj l_q fst snd].
    rewrite app_length.
    assert (H1 : all_lt (length s + length t) (seq 0 (length s))) by (apply all_lt_seq; lia).
    assert (H2 : all_lt (length s + length t) (seq (length s) (length t))) by (apply all_lt_seq; lia).
    split; [|split; assumption]. split; [|repeat split; constructor].
    intros e [<-|[]]. split; assumption.
  Qed.

  Theorem C10_singleton (x : A) (s t : list O) : cc_canonical B ->
    to_strict (lohg_singleton x s t) = ohg_singleton x s t.
  Proof.
    intros Hcc. destruct (lwf_singleton x s t) as (H1 & H2 & H3).
    rewrite (to_strict_nopending OK eqO eqO_spec Hcc H1 H2 H3). rewrite ohg_singleton_ok.
    rewrite lohg_singleton_ok. reflexivity.
  Qed.

  (* ---------- twist ---------- *)
  Definition twist_pure (a b : list O) : ohg :=
    mkOHG (mkFF (seq (length b) (length a) ++ seq 0 (length b)) (length a + length b))
          (mkFF (seq 0 (length a + length b)) (length a + length b))
          (hg_discrete A (b ++ a)).

  Lemma ohg_twist_ok (a b : list O) : ohg_twist A a b = Ok (twist_pure a b).
  Proof.
    unfold ohg_twist. rewrite ff_twist_ok. cbn [bind]. unfold ff_identity.
    rewrite arange_ok by lia. rewrite Nat.sub_0_r. reflexivity.
  Qed.

  Lemma wf_twist_pure (a b : list O) : wf_ohg (twist_pure a b).
  Proof.
    unfold wf_ohg, wf_hg, twist_pure, hg_discrete. cbn [o_h o_s o_t h_s h_t h_w h_x].
    assert (Hi : forall n, wf_icf (icf_initial n)) by (intros n; apply C08_initial).
    rewrite app_length.
    split; [split; [apply Hi|split; [apply Hi|repeat split]]|].
    split; [|split; [|split; cbn [target]; lia]].
    - unfold wf_ff. cbn [table target]. apply C09Thm.all_lt_app; apply all_lt_seq; lia.
    - unfold wf_ff. cbn [table target]. apply all_lt_seq; lia.
  Qed.

  Theorem C10_twist (a b : list O) : cc_canonical B ->
    (l <- lohg_twist A a b ;; to_strict l) = ohg_twist A a b /\
    exists l, lohg_twist A a b = Ok l /\ pending l = [] /\ lwf l /\ labs l = abs (twist_pure a b).
  Proof.
    intros Hcc. unfold lohg_twist. rewrite ohg_twist_ok. cbn [bind]. split.
    - apply (C10_round_strict OK eqO eqO_spec Hcc (wf_twist_pure a b)).
    - exists (lax_of (twist_pure a b)). split; [apply lohg_from_strict_ok, wf_twist_pure|].
      split; [reflexivity|]. split; [apply lwf_lax_of, wf_twist_pure|apply labs_lax_of].
  Qed.

  (* ====================================================================== *)
  (* the quotient data of a strictification                                  *)
  (* ====================================================================== *)
  Lemma lwf_pwf (l : lohg) : lwf l -> pwf (labs l).
  Proof.
    intros ((Ha & _) & Hs & Ht). unfold pwf, labs. cbn [p_nodes p_edges p_ins p_outs].
    split; [|split; assumption].
    intros e He. apply in_map_iff in He. destruct He as ([x [s t]] & <- & Hin).
    apply in_combine_r in Hin. cbn [pe_src pe_tgt fst snd]. exact (Ha _ Hin).
  Qed.

  Lemma strict_data (f : lohg) : lwf f -> ladj_ok f -> labels_consistent f ->
    exists s q, to_strict f = Ok s /\ wf_ohg s /\ IsQuot (labs f) q (abs s) /\
                kernel_is (nn f) q (pending f).
  Proof.
    intros Hwf Hl Hc. destruct (C10_to_strict_spec OK eqO eqO_spec Hwf Hl Hc) as (s & Hs & Hws & q & Hq & Hk).
    exists s, q. split; [exact Hs|]. split; [exact Hws|]. split; [exact Hq|exact Hk].
  Qed.

  Lemma consistent_from_quot (l : lohg) q (h : pohg O A) : IsQuot (labs l) q h ->
    (forall i j, i < nn l -> j < nn l -> conn (pending l) i j -> q i = q j) -> labels_consistent l.
  Proof.
    intros (_ & _ & Hlab & _) Hk i j Hi Hj Hc. change (l_nodes (lo_h l)) with (p_nodes (labs l)).
    rewrite <- (Hlab i Hi), <- (Hlab j Hj). rewrite (Hk i j Hi Hj Hc). reflexivity.
  Qed.

  Lemma strict_types (f : lohg) s q : lwf f -> IsQuot (labs f) q (abs s) ->
    src_type (abs s) = src_type (labs f) /\ tgt_type (abs s) = tgt_type (labs f).
  Proof.
    intros (_ & Hs & Ht) Hq. pose proof Hq as (_ & _ & _ & _ & Hi & Ho).
    unfold src_type, tgt_type. rewrite Hi, Ho. split; apply (quot_type Hq); assumption.
  Qed.

  (* ====================================================================== *)
  (* C10_tensor                                                              *)
  (* ====================================================================== *)
  Lemma wf_ff_tensor (a b : ff) : wf_ff a -> wf_ff b -> wf_ff (ff_tensor a b).
  Proof.
    intros Ha Hb. unfold wf_ff, ff_tensor. cbn [table target]. apply C09Thm.all_lt_app.
    - eapply all_lt_le. 2: exact Ha. lia.
    - apply (all_lt_shift (target a) Hb).
  Qed.

  Lemma ohg_tensor_abs (s1 s2 : ohg) : wf_ohg s1 -> wf_ohg s2 ->
    exists t, ohg_tensor s1 s2 = Ok t /\ wf_ohg t /\ abs t = ptensor (abs s1) (abs s2).
  Proof.
    intros ((Hs1 & Ht1 & Hls1 & Hlt1 & Hts1 & Htt1) & Hfs1 & Hft1 & Hos1 & Hot1)
           ((Hs2 & Ht2 & Hls2 & Hlt2 & Hts2 & Htt2) & Hfs2 & Hft2 & Hos2 & Hot2).
    unfold ohg_tensor, hg_coproduct.
    destruct (C08_tensor Hs1 Hs2) as (rs & Ers & Wrs & Drs & Trs).
    destruct (C08_tensor Ht1 Ht2) as (rt & Ert & Wrt & Drt & Trt).
    rewrite Ers, Ert. cbn [bind]. eexists. split; [reflexivity|]. split.
    - unfold wf_ohg, wf_hg. cbn [o_h o_s o_t h_s h_t h_w h_x]. rewrite !app_length.
      split; [split; [exact Wrs|split; [exact Wrt|split; [|split; [|split]]]]|].
      + rewrite <- decode_length, Drs, app_length, map_length, !decode_length. lia.
      + rewrite <- decode_length, Drt, app_length, map_length, !decode_length. lia.
      + lia.
      + lia.
      + split; [apply wf_ff_tensor; assumption|]. split; [apply wf_ff_tensor; assumption|].
        unfold ff_tensor. cbn [target]. lia.
    - unfold abs, ptensor, abs_hg_edges. cbn [o_h o_s o_t h_s h_t h_w h_x p_nodes p_edges p_ins p_outs].
      rewrite Drs, Drt. rewrite zip3_app by (rewrite decode_length; assumption).
      rewrite Hts1, Htt1.
      change (map (map (fun x => x + length (h_w (o_h s1)))) (decode_f (h_s (o_h s2))))
        with (map (shiftl (length (h_w (o_h s1)))) (decode_f (h_s (o_h s2)))).
      change (map (map (fun x => x + length (h_w (o_h s1)))) (decode_f (h_t (o_h s2))))
        with (map (shiftl (length (h_w (o_h s1)))) (decode_f (h_t (o_h s2)))).
      rewrite zip3_shift. unfold ff_tensor. cbn [table]. rewrite Hos1, Hot1. reflexivity.
  Qed.

  Theorem C10_tensor (f g : lohg) : lwf f -> lwf g -> ladj_ok f -> ladj_ok g ->
    labels_consistent f -> labels_consistent g ->
    exists s sf sg t,
      to_strict (lohg_tensor f g) = Ok s /\ to_strict f = Ok sf /\ to_strict g = Ok sg /\
      ohg_tensor sf sg = Ok t /\ wf_ohg s /\ wf_ohg t /\
      NIso (abs s) (abs t) /\ Iso (abs s) (abs t).
  Proof.
    intros Hwf Hwg Hlf Hlg Hcf Hcg.
    destruct (strict_data Hwf Hlf Hcf) as (sf & qf & Esf & Wsf & Qf & Kf).
    destruct (strict_data Hwg Hlg Hcg) as (sg & qg & Esg & Wsg & Qg & Kg).
    destruct (ohg_tensor_abs Wsf Wsg) as (t & Et & Wt & At).
    pose proof (lwf_pwf Hwf) as Pf.
    pose proof (IsQuot_ptensor Pf Qf Qg) as Qsum. rewrite <- (labs_tensor g Hlf) in Qsum.
    cbn [labs p_nodes] in Qsum. fold (nn f) in Qsum.
    set (q := qsum (nn f) (length (h_w (o_h sf))) qf qg) in *.
    assert (Kq : kernel_is (nn (lohg_tensor f g)) q (pending (lohg_tensor f g))).
    { rewrite (pending_tensor g Hwf).
      replace (nn (lohg_tensor f g)) with (nn f + nn g)
        by (unfold nn, lohg_tensor, lhg_coproduct; cbn [lo_h l_nodes]; rewrite app_length; reflexivity).
      apply qsum_kernel; try assumption.
      - destruct Qf as (Hlt & _). exact Hlt.
      - exact (pending_range O A f Hwf).
      - exact (pending_range O A g Hwg). }
    assert (Hc : labels_consistent (lohg_tensor f g)).
    { apply (consistent_from_quot Qsum). intros i j Hi Hj Hij. apply Kq; assumption. }
    pose proof (lwf_tensor Hwf Hwg) as Hwt. pose proof (ladj_ok_tensor Hlf Hlg) as Hlt.
    destruct (strict_data Hwt Hlt Hc) as (s & q' & Es & Ws & Qs & Ks).
    assert (HN : NIso (abs s) (abs t)).
    { rewrite At. apply (quot_unique (lwf_pwf Hwt) Qs Qsum). intros i j Hi Hj.
      change (length (p_nodes (labs (lohg_tensor f g)))) with (nn (lohg_tensor f g)) in Hi, Hj.
      split; intros H; [apply (Kq i j Hi Hj), (Ks i j Hi Hj), H | apply (Ks i j Hi Hj), (Kq i j Hi Hj), H]. }
    exists s, sf, sg, t. split; [exact Es|]. split; [exact Esf|]. split; [exact Esg|]. split; [exact Et|].
    split; [exact Ws|]. split; [exact Wt|]. split; [exact HN|apply NIso_Iso, HN].
  Qed.

  (* without pending pairs (canonical numbering): the very same record *)
  Lemma enc_coproduct proj (sh : hyperedge -> hyperedge) n1 n2 a1 a2 :
    (forall e, proj (sh e) = shift n1 (proj e)) ->
    icf_tensor (enc proj a1 n1) (enc proj a2 n2) = Ok (enc proj (a1 ++ map sh a2) (n1 + n2)).
  Proof.
    intros H. unfold icf_tensor, enc. cbn [ic_sources ic_values table target].
    rewrite sub_chk_ok by lia. cbn [bind]. unfold ff_tensor. cbn [table target].
    rewrite map_app, map_map, flat_map_app, (flat_map_shift proj sh n1 a2 H), app_length, shift_length.
    replace (map (fun x => length (proj (sh x))) a2) with (map (fun e => length (proj e)) a2)
      by (apply map_ext; intros e; rewrite H, shift_length; reflexivity).
    replace (length (flat_map proj a1) + 1 + (length (flat_map proj a2) + 1) - 1)
      with (length (flat_map proj a1) + length (flat_map proj a2) + 1) by lia.
    reflexivity.
  Qed.

  Lemma strict_of_tensor (f g : lohg) :
    ohg_tensor (strict_of f) (strict_of g) = Ok (strict_of (lohg_tensor f g)).
  Proof.
    unfold ohg_tensor, hg_coproduct, strict_of at 1 2 3 4, hstrict_of. cbn [o_h o_s o_t h_s h_t h_w h_x].
    unfold hn.
    rewrite (enc_coproduct fst (fun e : hyperedge =>
               (shift (length (l_nodes (lo_h f))) (fst e), shift (length (l_nodes (lo_h f))) (snd e))))
      by reflexivity.
    rewrite (enc_coproduct snd (fun e : hyperedge =>
               (shift (length (l_nodes (lo_h f))) (fst e), shift (length (l_nodes (lo_h f))) (snd e))))
      by reflexivity.
    cbn [bind]. unfold strict_of, hstrict_of, lohg_tensor, lhg_coproduct, nn, hn, ff_tensor.
    cbn [lo_h lo_sources lo_targets l_nodes l_edges l_adj table target]. rewrite app_length. reflexivity.
  Qed.

  Theorem C10_tensor_strict (f g : lohg) : cc_canonical B -> lwf f -> lwf g -> ladj_ok f -> ladj_ok g ->
    l_q (lo_h f) = ([], []) -> l_q (lo_h g) = ([], []) ->
    to_strict (lohg_tensor f g) = (a <- to_strict f ;; b <- to_strict g ;; ohg_tensor a b) /\
    to_strict (lohg_tensor f g) = Ok (strict_of (lohg_tensor f g)).
  Proof.
    intros Hcc Hwf Hwg Hlf Hlg Hqf Hqg.
    assert (Hqt : l_q (lo_h (lohg_tensor f g)) = ([], [])).
    { unfold lohg_tensor, lhg_coproduct. cbn [lo_h l_q]. rewrite Hqf, Hqg. reflexivity. }
    rewrite (to_strict_nopending OK eqO eqO_spec Hcc Hwf Hlf Hqf).
    rewrite (to_strict_nopending OK eqO eqO_spec Hcc Hwg Hlg Hqg).
    rewrite (to_strict_nopending OK eqO eqO_spec Hcc (lwf_tensor Hwf Hwg) (ladj_ok_tensor Hlf Hlg) Hqt).
    cbn [bind]. rewrite strict_of_tensor. split; reflexivity.
  Qed.

  (* ====================================================================== *)
  (* C10_compose: strictification commutes with composition                  *)
  (* ====================================================================== *)
  Lemma nn_lax_compose (f g : lohg) : nn (lax_compose_pure f g) = nn f + nn g.
  Proof. unfold nn, lax_compose_pure, lhg_coproduct. cbn [lo_h l_nodes]. apply app_length. Qed.

  (* both strict(f ; g) and strict(f) ; strict(g) are quotients of the disjoint union of the lax
     operands, with the same kernel: the equivalence generated by the pending pairs of f, those of
     g (shifted) and one pair per boundary position *)
  Theorem C10_compose (f g : lohg) : lwf f -> lwf g -> ladj_ok f -> ladj_ok g ->
    labels_consistent f -> labels_consistent g ->
    tgt_type (labs f) = src_type (labs g) ->
    exists lc s sf sg sc,
      lohg_compose eqO f g = Ok (Some lc) /\ lohg_lax_compose f g = Some lc /\
      to_strict lc = Ok s /\ to_strict f = Ok sf /\ to_strict g = Ok sg /\
      ohg_compose B eqO sf sg = Ok (Some sc) /\ wf_ohg s /\ wf_ohg sc /\
      (* common description of both sides *)
      (exists q, IsQuot (pjoin (labs f) (labs g)) q (abs s) /\
                 kernel_is (nn f + nn g) q
                   (pending f ++ map (shift_pair (nn f)) (pending g) ++ boundary_pairs f g)) /\
      (exists q, IsQuot (pjoin (labs f) (labs g)) q (abs sc) /\
                 kernel_is (nn f + nn g) q
                   (pending f ++ map (shift_pair (nn f)) (pending g) ++ boundary_pairs f g)) /\
      NIso (abs s) (abs sc) /\ Iso (abs s) (abs sc).
  Proof.
    intros Hwf Hwg Hlf Hlg Hcf Hcg Hty.
    (* the lax composite is defined *)
    destruct (C10_compose_defined eqO eqO_spec Hwf Hwg) as (tf & sg0 & Htf & Hsg & Hiff & _ & Hdef & _).
    destruct (Hdef (proj2 Hiff Hty)) as (Ec & Elc).
    assert (Hlen : length (lo_targets f) = length (lo_sources g)).
    { apply C10_lax_compose_defined. eauto. }
    set (lc := lax_compose_pure f g) in *.
    (* the strict operands and their composite *)
    destruct (strict_data Hwf Hlf Hcf) as (sf & qf & Esf & Wsf & Qf & Kf).
    destruct (strict_data Hwg Hlg Hcg) as (sg & qg & Esg & Wsg & Qg & Kg).
    assert (Hty' : tgt_type (abs sf) = src_type (abs sg)).
    { rewrite (proj2 (strict_types Hwf Qf)), (proj1 (strict_types Hwg Qg)). exact Hty. }
    destruct (C01_compose_is_gluing OK eqO eqO_spec Wsf Wsg Hty') as (sc & Esc & Wsc & q2 & Q2 & K2).
    (* step 1: the disjoint union of the strict operands is a quotient of that of the lax ones *)
    pose proof (lwf_pwf Hwf) as Pf.
    pose proof (IsQuot_pjoin Pf Qf Qg) as Q1. cbn [labs p_nodes] in Q1. fold (nn f) in Q1.
    set (kf := length (p_nodes (abs sf))) in *.
    set (q1 := qsum (nn f) kf qf qg) in *.
    assert (K1 : kernel_is (nn f + nn g) q1 (pending f ++ map (shift_pair (nn f)) (pending g))).
    { apply qsum_kernel; try assumption.
      - destruct Qf as (Hlt & _). exact Hlt.
      - exact (pending_range O A f Hwf).
      - exact (pending_range O A g Hwg). }
    pose proof Q1 as (Hlt1 & Hsurj1 & _).
    cbn [pjoin p_nodes labs] in Hlt1, Hsurj1. rewrite !app_length in Hlt1, Hsurj1.
    fold (nn f) (nn g) in Hlt1, Hsurj1.
    (* step 2: the gluing pairs are the images of the boundary pairs *)
    assert (Hglue : glue_pairs (abs sf) (abs sg) =
                    map (fun p => (q1 (fst p), q1 (snd p))) (boundary_pairs f g)).
    { unfold glue_pairs, boundary_pairs. destruct Qf as (_ & _ & _ & _ & _ & Hof).
      destruct Qg as (_ & _ & _ & _ & Hig & _). rewrite Hof, Hig. cbn [labs p_outs p_ins].
      rewrite <- combine_map2. fold kf. unfold q1.
      rewrite map_qsum_r. rewrite map_qsum_l by (destruct Hwf as (_ & _ & Ht); exact Ht).
      reflexivity. }
    assert (HPb : pairs_in (nn f + nn g) (boundary_pairs f g)).
    { apply pairs_in_combine.
      - destruct Hwf as (_ & _ & Ht). eapply all_lt_le. 2: exact Ht. lia.
      - destruct Hwg as (_ & Hs & _). apply all_lt_shift. exact Hs. }
    assert (HP1 : pairs_in (nn f + nn g) (pending f ++ map (shift_pair (nn f)) (pending g))).
    { apply pairs_in_app.
      - eapply pairs_in_mono. 2: exact (pending_range O A f Hwf). lia.
      - apply pairs_in_shift. exact (pending_range O A g Hwg). }
    (* the composite quotient and its kernel *)
    pose proof (IsQuot_comp Q1 Q2) as Q12.
    assert (K12 : kernel_is (nn f + nn g) (fun i => q2 (q1 i))
                    (pending f ++ map (shift_pair (nn f)) (pending g) ++ boundary_pairs f g)).
    { intros i j Hi Hj. rewrite app_assoc.
      rewrite <- (conn_pullback Hlt1 Hsurj1 K1 HP1 HPb Hi Hj), <- Hglue.
      apply K2; apply Hlt1; assumption. }
    (* the lax composite strictifies *)
    pose proof (lwf_lax_compose Hwf Hwg Hlen) as Hwc.
    pose proof (ladj_ok_lax_compose Hlf Hlg) as Hlc.
    pose proof (labs_lax_compose g Hlf) as Elabs. fold lc in Elabs, Hwc, Hlc.
    assert (Epend : pending lc =
                    pending f ++ map (shift_pair (nn f)) (pending g) ++ boundary_pairs f g)
      by (apply pending_lax_compose; assumption).
    assert (Hcc : labels_consistent lc).
    { apply (@consistent_from_quot lc (fun i => q2 (q1 i)) (abs sc)).
      - rewrite Elabs. exact Q12.
      - intros i j Hi Hj Hij. unfold lc in Hi, Hj. rewrite nn_lax_compose in Hi, Hj.
        rewrite Epend in Hij. apply (K12 i j Hi Hj). exact Hij. }
    destruct (strict_data Hwc Hlc Hcc) as (s & q' & Es & Ws & Qs & Ks).
    rewrite Elabs in Qs. rewrite Epend in Ks. unfold lc in Ks. rewrite nn_lax_compose in Ks.
    assert (HN : NIso (abs s) (abs sc)).
    { apply (quot_unique (pwf_pjoin Pf (lwf_pwf Hwg)) Qs Q12). intros i j Hi Hj.
      cbn [pjoin p_nodes labs] in Hi, Hj. rewrite app_length in Hi, Hj. fold (nn f) (nn g) in Hi, Hj.
      split; intros H; [apply (K12 i j Hi Hj), (Ks i j Hi Hj), H | apply (Ks i j Hi Hj), (K12 i j Hi Hj), H]. }
    exists lc, s, sf, sg, sc.
    split; [exact Ec|]. split; [exact Elc|]. split; [exact Es|]. split; [exact Esf|].
    split; [exact Esg|]. split; [exact Esc|]. split; [exact Ws|]. split; [exact Wsc|].
    split; [exists q'; split; assumption|]. split; [exists (fun i => q2 (q1 i)); split; assumption|].
    split; [exact HN|apply NIso_Iso, HN].
  Qed.

  (* mismatching types: both compositions report None *)
  Theorem C10_compose_mismatch (f g : lohg) : lwf f -> lwf g -> ladj_ok f -> ladj_ok g ->
    labels_consistent f -> labels_consistent g ->
    tgt_type (labs f) <> src_type (labs g) ->
    lohg_compose eqO f g = Ok None /\
    exists sf sg, to_strict f = Ok sf /\ to_strict g = Ok sg /\ ohg_compose B eqO sf sg = Ok None.
  Proof.
    intros Hwf Hwg Hlf Hlg Hcf Hcg Hty.
    destruct (C10_compose_defined eqO eqO_spec Hwf Hwg) as (tf & sg0 & Htf & Hsg & Hiff & _ & _ & Hno & _).
    split; [apply Hno; intros E; apply Hty, Hiff, E|].
    destruct (strict_data Hwf Hlf Hcf) as (sf & qf & Esf & Wsf & Qf & Kf).
    destruct (strict_data Hwg Hlg Hcg) as (sg & qg & Esg & Wsg & Qg & Kg).
    exists sf, sg. split; [exact Esf|]. split; [exact Esg|].
    apply (C01_mismatch_is_none B eqO eqO_spec Wsf Wsg).
    rewrite (proj2 (strict_types Hwf Qf)), (proj1 (strict_types Hwg Qg)). exact Hty.
  Qed.

  (* the round trip stated with [pending g = []] *)
  Lemma pending_nil_lq (g : lohg) : lwf g -> pending g = [] -> l_q (lo_h g) = ([], []).
  Proof.
    intros ((_ & _ & _ & Hlen) & _) Hp. unfold pending in Hp.
    destruct (l_q (lo_h g)) as [[|a q1] [|b q2]]; simpl in *; try discriminate; reflexivity.
  Qed.

  Theorem C10_round_lax_pending (g : lohg) : cc_canonical B -> lwf g -> ladj_ok g -> pending g = [] ->
    (s <- to_strict g ;; lohg_from_strict s) = Ok g.
  Proof.
    intros Hcc Hwf Hl Hp. apply (C10_round_lax OK eqO eqO_spec Hcc Hwf Hl (pending_nil_lq Hwf Hp)).
  Qed.
End C10.

(* ====================================================================== *)
(* the Vec back-end (the one the lax layer of the crate is hard-wired to)  *)
(* ====================================================================== *)
Section Vec.
  Variables O A : Type.
  Variable eqO : O -> O -> bool.
  Hypothesis eqO_spec : forall x y, eqO x y = true <-> x = y.

  Corollary C10_vec_round_strict (f : ohg O A) : wf_ohg f ->
    (l <- lohg_from_strict f ;; lohg_to_strict VecBackend eqO l) = Ok f.
  Proof. intros; apply C10_round_strict; first [exact VecBackend_ok | exact eqO_spec | exact vec_cc_canonical | assumption]. Qed.

  Corollary C10_vec_round_lax (g : lohg O A) : lwf g -> ladj_ok g -> pending g = [] ->
    (s <- lohg_to_strict VecBackend eqO g ;; lohg_from_strict s) = Ok g.
  Proof. intros; apply C10_round_lax_pending; first [exact VecBackend_ok | exact eqO_spec | exact vec_cc_canonical | assumption]. Qed.

  Corollary C10_vec_identity (a : list O) :
    lohg_to_strict VecBackend eqO (lohg_identity A a) = ohg_identity A a.
  Proof. intros; apply C10_identity; first [exact VecBackend_ok | exact eqO_spec | exact vec_cc_canonical | assumption]. Qed.

  Corollary C10_vec_singleton (x : A) (s t : list O) :
    lohg_to_strict VecBackend eqO (lohg_singleton x s t) = ohg_singleton x s t.
  Proof. intros; apply C10_singleton; first [exact VecBackend_ok | exact eqO_spec | exact vec_cc_canonical | assumption]. Qed.

  Corollary C10_vec_twist (a b : list O) :
    (l <- lohg_twist A a b ;; lohg_to_strict VecBackend eqO l) = ohg_twist A a b.
  Proof. intros; apply C10_twist; first [exact VecBackend_ok | exact eqO_spec | exact vec_cc_canonical | assumption]. Qed.

  Corollary C10_vec_dagger (f : lohg O A) : lwf f -> ladj_ok f ->
    lohg_to_strict VecBackend eqO (lohg_dagger f) = rmap (@ohg_dagger O A) (lohg_to_strict VecBackend eqO f).
  Proof. intros; apply C10_dagger; first [exact VecBackend_ok | exact eqO_spec | exact vec_cc_canonical | assumption]. Qed.
End Vec.

(* ====================================================================== *)
(* concrete values                                                         *)
(* ====================================================================== *)
(* f : nodes n0:7 n1:8 n2:8, one edge 100 : [n0] -> [n1], pending n1~n2, inputs [n0],
       outputs [n2; n2]  (a shared boundary node)
   g : nodes m0:8 m1:8 m2:9 m3:8, one edge 101 : [m0; m1] -> [m2], pending m3~m1,
       inputs [m0; m1], outputs [m2; m1] *)
Definition ex10_f : lohg nat nat :=
  mkLOHG [0] [2; 2] (mkLHG [7; 8; 8] [100] [([0], [1])] ([1], [2])).
Definition ex10_g : lohg nat nat :=
  mkLOHG [0; 1] [2; 1] (mkLHG [8; 8; 9; 8] [101] [([0; 1], [2])] ([3], [1])).

Ltac ex_lwf :=
  unfold lwf, hwf, nn, hn; cbn [lo_h lo_sources lo_targets l_nodes l_adj l_q fst snd length];
  repeat split;
  try (match goal with H : In _ _ |- _ =>
         cbn [In] in H; repeat (destruct H as [<-|H]; [cbn [fst snd]; repeat constructor; lia|]);
         contradiction end);
  try (repeat constructor; lia).

Ltac ex_consistent :=
  let i := fresh "i" in let j := fresh "j" in let H := fresh "H" in
  intros i j _ _ H; revert i j H; apply conn_invariant;
  let x := fresh "x" in let y := fresh "y" in let Hin := fresh "Hin" in
  intros x y Hin; cbn in Hin;
  repeat (destruct Hin as [Hin|Hin]; [inversion Hin; subst; reflexivity|]); contradiction.

Example ex10_f_ok : lwf ex10_f /\ ladj_ok ex10_f /\ labels_consistent ex10_f.
Proof. split; [ex_lwf|]. split; [reflexivity|]. ex_consistent. Qed.

Example ex10_g_ok : lwf ex10_g /\ ladj_ok ex10_g /\ labels_consistent ex10_g.
Proof. split; [ex_lwf|]. split; [reflexivity|]. ex_consistent. Qed.

Example ex10_types : tgt_type (labs ex10_f) = src_type (labs ex10_g) /\
                     lohg_target ex10_f = Ok [8; 8] /\ lohg_source ex10_g = Ok [8; 8].
Proof. repeat split. Qed.

(* in-place operations *)
Example ex10_inplace :
  lohg_tensor_assign ex10_f ex10_g = lohg_tensor ex10_f ex10_g /\
  lohg_append ex10_f ex10_g =
    (mkLOHG [0] [2; 2] (lo_h (lohg_tensor ex10_f ex10_g)), ([3; 4], [5; 4])) /\
  lohg_tensor ex10_f ex10_g =
    mkLOHG [0; 3; 4] [2; 2; 5; 4]
      (mkLHG [7; 8; 8; 8; 8; 9; 8] [100; 101] [([0], [1]); ([3; 4], [5])] ([1; 6], [2; 4])).
Proof. repeat split. Qed.

(* lax composition: juxtaposition + pending pairs of f, of g (shifted), and the boundary pairs *)
Example ex10_lax_compose :
  lohg_compose Nat.eqb ex10_f ex10_g =
  Ok (Some (mkLOHG [0] [5; 4]
     (mkLHG [7; 8; 8; 8; 8; 9; 8] [100; 101] [([0], [1]); ([3; 4], [5])]
            ([1; 6; 2; 2], [2; 4; 3; 4])))) /\
  lohg_lax_compose ex10_f ex10_g = Some (lax_compose_pure ex10_f ex10_g) /\
  pending (lax_compose_pure ex10_f ex10_g) = [(1, 2); (6, 4); (2, 3); (2, 4)].
Proof. repeat split. Qed.

(* arities match but labels do not: the unchecked form is defined, the checked one is None;
   arities differ: both undefined *)
Example ex10_mismatch :
  lohg_compose Nat.eqb ex10_g ex10_f = Ok None /\
  lohg_lax_compose ex10_g ex10_f = None /\
  lohg_compose Nat.eqb ex10_f (lohg_dagger ex10_g) = Ok None /\
  (exists h, lohg_lax_compose ex10_f (lohg_dagger ex10_g) = Some h).
Proof. repeat split. eexists. reflexivity. Qed.

(* strictification of the operands *)
Definition ex10_sf : ohg nat nat :=
  mkOHG (mkFF [0] 2) (mkFF [1; 1] 2)
        (mkHG (mkIC (mkFF [1] 2) (mkFF [0] 2)) (mkIC (mkFF [1] 2) (mkFF [1] 2)) [7; 8] [100]).
Definition ex10_sg : ohg nat nat :=
  mkOHG (mkFF [0; 1] 3) (mkFF [2; 1] 3)
        (mkHG (mkIC (mkFF [2] 3) (mkFF [0; 1] 3)) (mkIC (mkFF [1] 2) (mkFF [2] 3)) [8; 8; 9] [101]).
Definition ex10_sc : ohg nat nat :=
  mkOHG (mkFF [0] 3) (mkFF [2; 1] 3)
        (mkHG (mkIC (mkFF [1; 2] 4) (mkFF [0; 1; 1] 3)) (mkIC (mkFF [1; 1] 3) (mkFF [1; 2] 3))
              [7; 8; 9] [100; 101]).

Example ex10_to_strict :
  lohg_to_strict VecBackend Nat.eqb ex10_f = Ok ex10_sf /\
  lohg_to_strict VecBackend Nat.eqb ex10_g = Ok ex10_sg.
Proof. split; vm_compute; reflexivity. Qed.

(* strict(f ; g) = strict(f) ; strict(g): with the Vec back-end even the same record here *)
Example ex10_compose_vec :
  lohg_to_strict VecBackend Nat.eqb (lax_compose_pure ex10_f ex10_g) = Ok ex10_sc /\
  ohg_compose VecBackend Nat.eqb ex10_sf ex10_sg = Ok (Some ex10_sc).
Proof. split; vm_compute; reflexivity. Qed.

(* ... with another conforming back-end the two sides differ, and are isomorphic *)
Example ex10_compose_adv :
  rmap (@abs nat nat) (lohg_to_strict AdvBackend Nat.eqb (lax_compose_pure ex10_f ex10_g)) =
    Ok (mkP [9; 8; 7] [mkPE 100 [2] [1]; mkPE 101 [1; 1] [0]] [2] [0; 1]) /\
  rmap (option_map (@abs nat nat))
       (a <- lohg_to_strict AdvBackend Nat.eqb ex10_f ;; b <- lohg_to_strict AdvBackend Nat.eqb ex10_g ;;
        ohg_compose AdvBackend Nat.eqb a b) =
    Ok (Some (mkP [9; 7; 8] [mkPE 100 [1] [2]; mkPE 101 [2; 2] [0]] [1] [0; 2])).
Proof. split; vm_compute; reflexivity. Qed.

(* the general theorem instantiated: hypotheses satisfiable, conclusion as computed *)
Example ex10_compose_thm :
  exists lc s sf sg sc,
    lohg_compose Nat.eqb ex10_f ex10_g = Ok (Some lc) /\ lohg_lax_compose ex10_f ex10_g = Some lc /\
    lohg_to_strict VecBackend Nat.eqb lc = Ok s /\ lohg_to_strict VecBackend Nat.eqb ex10_f = Ok sf /\
    lohg_to_strict VecBackend Nat.eqb ex10_g = Ok sg /\
    ohg_compose VecBackend Nat.eqb sf sg = Ok (Some sc) /\ Iso (abs s) (abs sc).
Proof.
  destruct ex10_f_ok as (F1 & F2 & F3). destruct ex10_g_ok as (G1 & G2 & G3).
  destruct (C10_compose VecBackend_ok Nat.eqb Nat.eqb_eq F1 G1 F2 G2 F3 G3 (proj1 ex10_types))
    as (lc & s & sf & sg & sc & H1 & H2 & H3 & H4 & H5 & H6 & _ & _ & _ & _ & _ & H7).
  exists lc, s, sf, sg, sc. split; [exact H1|]. split; [exact H2|]. split; [exact H3|]. split; [exact H4|].
  split; [exact H5|]. split; [exact H6|exact H7].
Qed.

(* tensor, operands with pending pairs *)
Example ex10_tensor_vec :
  lohg_to_strict VecBackend Nat.eqb (lohg_tensor ex10_f ex10_g) =
  (a <- lohg_to_strict VecBackend Nat.eqb ex10_f ;; b <- lohg_to_strict VecBackend Nat.eqb ex10_g ;;
   ohg_tensor a b) /\
  rmap (@abs nat nat) (lohg_to_strict VecBackend Nat.eqb (lohg_tensor ex10_f ex10_g)) =
  Ok (mkP [7; 8; 8; 8; 9] [mkPE 100 [0] [1]; mkPE 101 [2; 3] [4]] [0; 2; 3] [1; 1; 4; 3]).
Proof. split; vm_compute; reflexivity. Qed.

(* round trips *)
Example ex10_round_strict :
  (l <- lohg_from_strict ex10_sc ;; lohg_to_strict VecBackend Nat.eqb l) = Ok ex10_sc /\
  lohg_from_strict ex10_sc =
    Ok (mkLOHG [0] [2; 1] (mkLHG [7; 8; 9] [100; 101] [([0], [1]); ([1; 1], [2])] ([], []))).
Proof. split; vm_compute; reflexivity. Qed.

Definition ex10_nopending : lohg nat nat :=
  mkLOHG [0] [2; 1] (mkLHG [7; 8; 9] [100; 101] [([0], [1]); ([1; 1], [2])] ([], [])).

Example ex10_round_lax :
  lwf ex10_nopending /\ ladj_ok ex10_nopending /\ pending ex10_nopending = [] /\
  (s <- lohg_to_strict VecBackend Nat.eqb ex10_nopending ;; lohg_from_strict s) = Ok ex10_nopending.
Proof. split; [ex_lwf|]. split; [reflexivity|]. split; [reflexivity|]. vm_compute. reflexivity. Qed.

(* with pending pairs the round trip lands on the quotient, not on the original *)
Example ex10_round_lax_pending :
  (s <- lohg_to_strict VecBackend Nat.eqb ex10_f ;; lohg_from_strict s) =
  Ok (mkLOHG [0] [1; 1] (mkLHG [7; 8] [100] [([0], [1])] ([], []))).
Proof. vm_compute. reflexivity. Qed.

(* inconsistent labels: the unwrap in to_strict panics (ex_conflict of C09Thm.v) *)
Example ex10_panic :
  lwf ex_conflict /\ ladj_ok ex_conflict /\ ~ labels_consistent ex_conflict /\
  lohg_to_strict VecBackend Nat.eqb ex_conflict = Panic.
Proof.
  split; [exact ex_conflict_lwf|]. split; [reflexivity|]. split; [exact ex_conflict_inconsistent|].
  vm_compute. reflexivity.
Qed.

(* [ladj_ok] is needed: a label without adjacency entry is [lwf] (and consistent), yet to_strict
   panics (Hypergraph validation fails) -- so the statements of C10 need this extra hypothesis *)
Definition ex10_dangling : lohg nat nat := mkLOHG [] [] (mkLHG [7] [100] [] ([], [])).
Example ex10_needs_ladj_ok :
  lwf ex10_dangling /\ labels_consistent ex10_dangling /\ pending ex10_dangling = [] /\
  ~ ladj_ok ex10_dangling /\ lohg_to_strict VecBackend Nat.eqb ex10_dangling = Panic.
Proof.
  split; [ex_lwf|]. split; [apply pending_nil_consistent; reflexivity|]. split; [reflexivity|].
  split; [unfold ladj_ok; simpl; lia|]. vm_compute. reflexivity.
Qed.

(* constructors *)
Example ex10_constructors :
  lohg_to_strict VecBackend Nat.eqb (lohg_identity nat [7; 8]) = ohg_identity nat [7; 8] /\
  lohg_to_strict VecBackend Nat.eqb (lohg_singleton 100 [7; 8] [9]) = ohg_singleton 100 [7; 8] [9] /\
  ohg_singleton 100 [7; 8] [9] =
    Ok (mkOHG (mkFF [0; 1] 3) (mkFF [2] 3)
          (mkHG (mkIC (mkFF [2] 3) (mkFF [0; 1] 3)) (mkIC (mkFF [1] 2) (mkFF [2] 3)) [7; 8; 9] [100])) /\
  (l <- lohg_twist nat [7; 8] [9] ;; lohg_to_strict VecBackend Nat.eqb l) = ohg_twist nat [7; 8] [9] /\
  lohg_to_strict VecBackend Nat.eqb (lohg_dagger ex10_f) = Ok (ohg_dagger ex10_sf) /\
  option_map (lohg_to_strict VecBackend Nat.eqb) (lohg_spider nat (mkFF [0; 0] 2) (mkFF [1] 2) [7; 8]) =
    option_map Ok (ohg_spider nat (mkFF [0; 0] 2) (mkFF [1] 2) [7; 8]) /\
  lohg_spider nat (mkFF [0; 0] 2) (mkFF [1] 3) [7; 8] = None /\
  ohg_spider nat (mkFF [0; 0] 2) (mkFF [1] 3) [7; 8] = None.
Proof. repeat split; vm_compute; reflexivity. Qed.

(* the round trips are equalities only for the canonical numbering: with the adversarial (still
   conforming) back-end the strict diagram comes back renumbered *)
Example ex10_round_strict_adv :
  (l <- lohg_from_strict ex10_sc ;; lohg_to_strict AdvBackend Nat.eqb l) <> Ok ex10_sc /\
  rmap (@abs nat nat) (l <- lohg_from_strict ex10_sc ;; lohg_to_strict AdvBackend Nat.eqb l) =
    Ok (mkP [9; 8; 7] [mkPE 100 [2] [1]; mkPE 101 [1; 1] [0]] [2] [0; 1]).
Proof. split; [intros H; vm_compute in H; discriminate | vm_compute; reflexivity]. Qed.
