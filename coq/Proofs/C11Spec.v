(* C11, specification side: the plain list-based reading of every builder step of the lax
   representation (src/lax/hypergraph.rs, src/lax/open_hypergraph.rs), written without the
   loops of the model, and its purely list-theoretic properties (renumbering, counting,
   invariance under duplicates).  Nothing here mentions the model functions; the refinement
   theorems are in Proofs/C11Thm.v. *)
From Coq Require Import List Arith Lia Bool Permutation.
From OHG Require Import Model.Prims Model.Lax.
Import ListNotations.
Local Notation filter := List.filter.   (* Model.Graph defines another [filter] *)

Set Implicit Arguments.

(* ====================================================================== *)
(* Generic list facts                                                     *)
(* ====================================================================== *)

Definition opt_list {X} (o : option X) : list X :=
  match o with Some x => [x] | None => [] end.

(* the entries of [l] at the positions [idx], in the order of [idx] *)
Definition select {X} (l : list X) (idx : list nat) : list X :=
  flat_map (fun i => opt_list (nth_error l i)) idx.

Lemma select_nil {X} (l : list X) : select l [] = [].
Proof. reflexivity. Qed.

Lemma select_app {X} (l : list X) i1 i2 : select l (i1 ++ i2) = select l i1 ++ select l i2.
Proof. unfold select. apply flat_map_app. Qed.

Lemma select_cons_S {X} (x : X) l idx : select (x :: l) (map S idx) = select l idx.
Proof.
  unfold select. induction idx as [|i idx IH]; simpl; auto. rewrite IH. reflexivity.
Qed.

Lemma select_length {X} (l : list X) idx :
  Forall (fun i => i < length l) idx -> length (select l idx) = length idx.
Proof.
  intros H. induction H as [|i idx Hi _ IH]; simpl; auto.
  apply nth_error_Some in Hi. destruct (nth_error l i) eqn:E; try congruence.
  simpl. rewrite IH. reflexivity.
Qed.

Lemma select_nth_error {X} (l : list X) idx k :
  Forall (fun i => i < length l) idx -> k < length idx ->
  nth_error (select l idx) k = nth_error l (nth k idx 0).
Proof.
  intros H. revert k. induction H as [|i idx Hi _ IH]; intros k Hk; simpl in *. lia.
  apply nth_error_Some in Hi. destruct (nth_error l i) eqn:E; try congruence.
  destruct k as [|k]; simpl; auto. apply IH. lia.
Qed.

Lemma select_seq_all {X} (l : list X) : select l (seq 0 (length l)) = l.
Proof.
  induction l as [|x l IH]; simpl; auto.
  rewrite <- seq_shift. unfold select in *. simpl. f_equal.
  rewrite <- IH at 2. clear IH.
  generalize (seq 0 (length l)) as idx. intros idx.
  induction idx as [|i idx IH]; simpl; auto. rewrite IH. reflexivity.
Qed.

Lemma select_In {X} (l : list X) idx x : In x (select l idx) -> In x l.
Proof.
  unfold select. rewrite in_flat_map. intros (i & _ & Hx).
  destruct (nth_error l i) eqn:E; simpl in Hx; try contradiction.
  destruct Hx as [<-|[]]. eapply nth_error_In; eauto.
Qed.

Lemma select_Forall {X} (P : X -> Prop) (l : list X) idx : Forall P l -> Forall P (select l idx).
Proof.
  intros H. apply Forall_forall. intros x Hx. apply select_In in Hx.
  rewrite Forall_forall in H. auto.
Qed.

Lemma select_ext_prefix {X} (l l' : list X) idx :
  Forall (fun i => i < length l) idx -> select (l ++ l') idx = select l idx.
Proof.
  intros H. induction H as [|i idx Hi _ IH]; simpl; auto.
  unfold select in *. simpl. rewrite IH. rewrite nth_error_app1 by auto. reflexivity.
Qed.

Lemma filter_map_S (p : nat -> bool) l : filter p (map S l) = map S (filter (fun i => p (S i)) l).
Proof.
  induction l as [|i l IH]; simpl; auto. destruct (p (S i)); simpl; rewrite IH; reflexivity.
Qed.

Lemma filter_length_le {X} (p : X -> bool) l : length (filter p l) <= length l.
Proof. induction l as [|x l IH]; simpl; auto. destruct (p x); simpl; lia. Qed.

Lemma filter_length_split {X} (p : X -> bool) l :
  length (filter p l) + length (filter (fun x => negb (p x)) l) = length l.
Proof. induction l as [|x l IH]; simpl; auto. destruct (p x); simpl; lia. Qed.

Lemma filter_map_length {X} (p : X -> bool) l :
  length (filter negb (map p l)) = length (filter (fun x => negb (p x)) l).
Proof. induction l as [|x l IH]; simpl; auto. destruct (p x); simpl; rewrite IH; reflexivity. Qed.

Lemma flat_map_map {X Y Z} (g : X -> Y) (h : Y -> list Z) l :
  flat_map h (map g l) = flat_map (fun x => h (g x)) l.
Proof. induction l as [|x l IH]; simpl; auto. rewrite IH. reflexivity. Qed.

Lemma Forall_app_iff {X} (P : X -> Prop) l1 l2 : Forall P (l1 ++ l2) <-> Forall P l1 /\ Forall P l2.
Proof. apply Forall_app. Qed.

Lemma map_fst_combine {X Y} (a : list X) (b : list Y) :
  length a = length b -> map fst (combine a b) = a.
Proof.
  revert b; induction a as [|x a IH]; intros [|y b] H; simpl in *; try lia; auto.
  rewrite IH by lia. reflexivity.
Qed.

Lemma map_snd_combine {X Y} (a : list X) (b : list Y) :
  length a = length b -> map snd (combine a b) = b.
Proof.
  revert b; induction a as [|x a IH]; intros [|y b] H; simpl in *; try lia; auto.
  rewrite IH by lia. reflexivity.
Qed.

Lemma set_nth_split {X} (xs : list X) i y : i < length xs ->
  set_nth xs i y = firstn i xs ++ y :: skipn (S i) xs.
Proof.
  revert i; induction xs as [|x xs IH]; intros [|i] H; simpl in *; try lia; auto.
  rewrite IH by lia. reflexivity.
Qed.

(* ====================================================================== *)
(* Part 1.  Declarative specification                                      *)
(* ====================================================================== *)

Definition removed (ids : list nat) (i : nat) : Prop := In i ids.
Definition removedb (ids : list nat) (i : nat) : bool := existsb (Nat.eqb i) ids.

Lemma removedb_spec ids i : removedb ids i = true <-> removed ids i.
Proof.
  unfold removedb, removed. rewrite existsb_exists. split.
  - intros (x & Hx & E). apply Nat.eqb_eq in E. subst. auto.
  - intros H. exists i. split; auto. apply Nat.eqb_refl.
Qed.

Lemma removedb_false ids i : removedb ids i = false <-> ~ removed ids i.
Proof. rewrite <- removedb_spec. destruct (removedb ids i); split; congruence. Qed.

(* the surviving positions among 0..n-1, increasing *)
Definition survivors (n : nat) (ids : list nat) : list nat :=
  filter (fun i => negb (removedb ids i)) (seq 0 n).

(* renumbering: a removed item has no new number; a survivor is numbered by the number of
   survivors below it.  [survivors i ids] is exactly the list of survivors below [i]. *)
Definition renum (ids : list nat) (i : nat) : option nat :=
  if removedb ids i then None else Some (length (survivors i ids)).

(* a list of references after renumbering: references to removed items are dropped *)
Definition renum_list (ids : list nat) (l : list nat) : list nat :=
  flat_map (fun i => opt_list (renum ids i)) l.

(* pending unifications: a pair is kept iff both ends survive *)
Definition renum_pairs (ids : list nat) (q : list nat * list nat) : list nat * list nat :=
  let kept := flat_map (fun p => match renum ids (fst p), renum ids (snd p) with
                                 | Some a, Some b => [(a, b)]
                                 | _, _ => []
                                 end) (combine (fst q) (snd q)) in
  (map fst kept, map snd kept).

Definition in_range (n : nat) (l : list nat) : Prop := Forall (fun i => i < n) l.

Section Spec.
  Variables O A : Type.
  Notation lhg := (lhg O A).
  Notation lohg := (lohg O A).

  Definition n_nodes (f : lohg) : nat := length (l_nodes (lo_h f)).
  Definition n_edges (f : lohg) : nat := length (l_edges (lo_h f)).

  (* ---- deletion ---- *)
  Definition spec_delete_nodes_h (h : lhg) (ids : list nat) : lhg :=
    mkLHG (select (l_nodes h) (survivors (length (l_nodes h)) ids))
          (l_edges h)
          (map (fun e => (renum_list ids (fst e), renum_list ids (snd e))) (l_adj h))
          (renum_pairs ids (l_q h)).

  Definition spec_witness (h : lhg) (ids : list nat) : list (option nat) :=
    map (renum ids) (seq 0 (length (l_nodes h))).

  Definition spec_delete_nodes (f : lohg) (ids : list nat) : lohg :=
    mkLOHG (renum_list ids (lo_sources f)) (renum_list ids (lo_targets f))
           (spec_delete_nodes_h (lo_h f) ids).

  Definition spec_delete_edges_h (h : lhg) (ids : list nat) : lhg :=
    let keep := survivors (length (l_edges h)) ids in
    mkLHG (l_nodes h) (select (l_edges h) keep) (select (l_adj h) keep) (l_q h).

  (* ---- construction: plain appends ---- *)
  Definition spec_new_node (h : lhg) (w : O) : lhg :=
    mkLHG (l_nodes h ++ [w]) (l_edges h) (l_adj h) (l_q h).

  Definition spec_new_edge (h : lhg) (x : A) (s t : list nat) : lhg :=
    mkLHG (l_nodes h) (l_edges h ++ [x]) (l_adj h ++ [(s, t)]) (l_q h).

  Definition spec_op_sources (h : lhg) (st : list O) : list nat :=
    seq (length (l_nodes h)) (length st).
  Definition spec_op_targets (h : lhg) (st tt : list O) : list nat :=
    seq (length (l_nodes h) + length st) (length tt).

  Definition spec_new_operation (h : lhg) (x : A) (st tt : list O) : lhg :=
    mkLHG (l_nodes h ++ st ++ tt) (l_edges h ++ [x])
          (l_adj h ++ [(spec_op_sources h st, spec_op_targets h st tt)]) (l_q h).

  Definition spec_unify (h : lhg) (v w : nat) : lhg :=
    mkLHG (l_nodes h) (l_edges h) (l_adj h) (fst (l_q h) ++ [v], snd (l_q h) ++ [w]).

  (* replace entry [e] of [l] by [g] of it *)
  Definition upd_at {X} (l : list X) (e : nat) (g : X -> X) : list X :=
    firstn e l ++ match nth_error l e with Some x => g x :: skipn (S e) l | None => [] end.

  Definition spec_add_edge_source (h : lhg) (e : nat) (w : O) : lhg :=
    mkLHG (l_nodes h ++ [w]) (l_edges h)
          (upd_at (l_adj h) e (fun x => (fst x ++ [length (l_nodes h)], snd x))) (l_q h).

  Definition spec_add_edge_target (h : lhg) (e : nat) (w : O) : lhg :=
    mkLHG (l_nodes h ++ [w]) (l_edges h)
          (upd_at (l_adj h) e (fun x => (fst x, snd x ++ [length (l_nodes h)]))) (l_q h).

  (* ---- well-formedness ---- *)
  Definition hwf (h : lhg) : Prop :=
    let n := length (l_nodes h) in
    Forall (fun e => in_range n (fst e) /\ in_range n (snd e)) (l_adj h) /\
    in_range n (fst (l_q h)) /\ in_range n (snd (l_q h)) /\
    length (l_edges h) = length (l_adj h) /\
    length (fst (l_q h)) = length (snd (l_q h)).

  Definition lwf (f : lohg) : Prop :=
    hwf (lo_h f) /\ in_range (n_nodes f) (lo_sources f) /\ in_range (n_nodes f) (lo_targets f).
End Spec.

(* ====================================================================== *)
(* Prefixes: an identifier valid before stays valid and keeps its meaning  *)
(* ====================================================================== *)

Definition prefix {X} (l l' : list X) : Prop := exists ext, l' = l ++ ext.

Lemma prefix_refl {X} (l : list X) : prefix l l.
Proof. exists []. rewrite app_nil_r. reflexivity. Qed.

Lemma prefix_app {X} (l ext : list X) : prefix l (l ++ ext).
Proof. exists ext. reflexivity. Qed.

(* an identifier valid before stays valid and keeps its meaning *)
Lemma prefix_nth_error {X} (l l' : list X) i x :
  prefix l l' -> nth_error l i = Some x -> nth_error l' i = Some x.
Proof.
  intros (ext & ->) H. rewrite nth_error_app1; auto.
  apply nth_error_Some. congruence.
Qed.

Lemma prefix_length {X} (l l' : list X) : prefix l l' -> length l <= length l'.
Proof. intros (ext & ->). rewrite app_length. lia. Qed.

(* ====================================================================== *)
(* [upd_at], pointwise                                                     *)
(* ====================================================================== *)

Lemma upd_at_length {X} (l : list X) e g : length (upd_at l e g) = length l.
Proof.
  unfold upd_at. destruct (nth_error l e) eqn:E.
  - assert (He : e < length l) by (apply nth_error_Some; congruence).
    rewrite app_length, firstn_length. cbn [length]. rewrite skipn_length. lia.
  - apply nth_error_None in E. rewrite firstn_all2 by auto. rewrite app_nil_r. reflexivity.
Qed.

(* pointwise reading of [upd_at]: only entry [e] changes *)
Lemma upd_at_nth_error {X} (l : list X) e g i :
  nth_error (upd_at l e g) i = if i =? e then option_map g (nth_error l e) else nth_error l i.
Proof.
  unfold upd_at. destruct (nth_error l e) eqn:E.
  - assert (He : e < length l) by (apply nth_error_Some; congruence).
    destruct (Nat.eqb_spec i e) as [->|Hne].
    + rewrite nth_error_app2 by (rewrite firstn_length; lia).
      rewrite firstn_length. replace (e - Nat.min e (length l)) with 0 by lia. reflexivity.
    + destruct (Nat.lt_ge_cases i e) as [Hlt|Hge].
      * rewrite nth_error_app1 by (rewrite firstn_length; lia).
        rewrite <- (firstn_skipn e l) at 2.
        rewrite nth_error_app1 by (rewrite firstn_length; lia). reflexivity.
      * rewrite nth_error_app2 by (rewrite firstn_length; lia).
        rewrite firstn_length. replace (i - Nat.min e (length l)) with (S (i - S e)) by lia.
        cbn [nth_error]. rewrite <- (firstn_skipn (S e) l) at 2.
        rewrite nth_error_app2 by (rewrite firstn_length; lia).
        rewrite firstn_length. f_equal. lia.
  - apply nth_error_None in E. rewrite firstn_all2 by auto. rewrite app_nil_r.
    destruct (Nat.eqb_spec i e) as [->|Hne]; auto.
    cbn [option_map]. apply nth_error_None. auto.
Qed.


(* ====================================================================== *)
(* Ranges, survivors                                                      *)
(* ====================================================================== *)

Lemma in_range_dec n ids : in_range n ids \/ Exists (fun i => n <= i) ids.
Proof.
  induction ids as [|i ids [IH|IH]].
  - left. constructor.
  - destruct (Nat.lt_ge_cases i n) as [Hlt|Hge].
    + left. constructor; auto.
    + right. constructor. auto.
  - right. apply Exists_cons_tl. auto.
Qed.

Lemma in_range_not_Exists n ids : in_range n ids -> ~ Exists (fun i => n <= i) ids.
Proof.
  intros H E. apply Exists_exists in E. destruct E as (i & Hi & Hge).
  unfold in_range in H. rewrite Forall_forall in H. specialize (H i Hi). lia.
Qed.

(* survivors, one position more *)
Lemma survivors_S n ids :
  survivors (S n) ids = survivors n ids ++ (if removedb ids n then [] else [n]).
Proof.
  unfold survivors. rewrite seq_S, filter_app. cbn [Nat.add filter].
  destruct (removedb ids n); reflexivity.
Qed.

Lemma survivors_split n m ids :
  survivors (n + m) ids = survivors n ids ++ filter (fun i => negb (removedb ids i)) (seq n m).
Proof. unfold survivors. rewrite seq_app, filter_app. reflexivity. Qed.

Lemma survivors_length_mono i j ids : i <= j -> length (survivors i ids) <= length (survivors j ids).
Proof.
  intros H. replace j with (i + (j - i)) by lia. rewrite survivors_split, app_length. lia.
Qed.

Lemma survivors_In n ids i : In i (survivors n ids) <-> i < n /\ ~ removed ids i.
Proof.
  unfold survivors. rewrite filter_In, in_seq, negb_true_iff, removedb_false. intuition lia.
Qed.

Lemma survivors_in_range n ids : in_range n (survivors n ids).
Proof. apply Forall_forall. intros i Hi. apply survivors_In in Hi. tauto. Qed.

Lemma survivors_nil n : survivors n [] = seq 0 n.
Proof.
  unfold survivors. induction (seq 0 n) as [|i l IH]; auto.
  cbn [filter]. rewrite IH. reflexivity.
Qed.

(* ====================================================================== *)
(* Deleting nothing is the identity                                        *)
(* ====================================================================== *)

Lemma renum_nil i : renum [] i = Some i.
Proof. unfold renum. cbn [removedb existsb]. rewrite survivors_nil, seq_length. reflexivity. Qed.

Lemma renum_list_nil l : renum_list [] l = l.
Proof.
  unfold renum_list. induction l as [|i l IH]; auto.
  cbn [flat_map]. rewrite renum_nil, IH. reflexivity.
Qed.

Lemma renum_pairs_nil q : length (fst q) = length (snd q) -> renum_pairs [] q = q.
Proof.
  destruct q as [q0 q1]. cbn [fst snd]. intros H. unfold renum_pairs. cbn [fst snd].
  assert (E : flat_map (fun p : nat * nat =>
                match renum [] (fst p), renum [] (snd p) with
                | Some a, Some b => [(a, b)]
                | _, _ => []
                end) (combine q0 q1) = combine q0 q1).
  { induction (combine q0 q1) as [|[a b] c IH]; auto.
    cbn [flat_map fst snd]. rewrite !renum_nil, IH. reflexivity. }
  rewrite E, map_fst_combine, map_snd_combine by auto. reflexivity.
Qed.

(* ====================================================================== *)
(* Consequences of the specification of deletion                           *)
(* ====================================================================== *)

(* --- the result depends only on the SET of identifiers (duplicates, order irrelevant) --- *)
Definition same_set (ids ids' : list nat) : Prop := forall i, In i ids <-> In i ids'.

Lemma removedb_same ids ids' : same_set ids ids' -> forall i, removedb ids i = removedb ids' i.
Proof.
  intros H i. destruct (removedb ids' i) eqn:E.
  - apply removedb_spec. apply H. apply removedb_spec. auto.
  - apply removedb_false. intros Hi. apply H in Hi. apply removedb_spec in Hi. congruence.
Qed.

Lemma survivors_same ids ids' n : same_set ids ids' -> survivors n ids = survivors n ids'.
Proof. intros H. unfold survivors. apply filter_ext. intros i. rewrite (removedb_same H). reflexivity. Qed.

Lemma renum_same ids ids' : same_set ids ids' -> forall i, renum ids i = renum ids' i.
Proof. intros H i. unfold renum. rewrite (removedb_same H), (survivors_same _ H). reflexivity. Qed.

Lemma renum_list_same ids ids' l : same_set ids ids' -> renum_list ids l = renum_list ids' l.
Proof. intros H. unfold renum_list. apply flat_map_ext. intros i. rewrite (renum_same H). reflexivity. Qed.

Lemma renum_pairs_same ids ids' q : same_set ids ids' -> renum_pairs ids q = renum_pairs ids' q.
Proof.
  intros H. unfold renum_pairs.
  rewrite (flat_map_ext _ (fun p : nat * nat =>
     match renum ids' (fst p), renum ids' (snd p) with Some a, Some b => [(a, b)] | _, _ => [] end)).
  reflexivity.
  intros p. rewrite !(renum_same H). reflexivity.
Qed.

Lemma same_set_nodup ids : same_set (nodup Nat.eq_dec ids) ids.
Proof. intros i. apply nodup_In. Qed.

(* --- renumbering --- *)
Lemma renum_None ids i : renum ids i = None <-> removed ids i.
Proof.
  unfold renum. destruct (removedb ids i) eqn:E.
  - apply removedb_spec in E. tauto.
  - apply removedb_false in E. split; [discriminate|contradiction].
Qed.

Lemma renum_Some ids i k :
  renum ids i = Some k <-> ~ removed ids i /\ k = length (survivors i ids).
Proof.
  unfold renum. destruct (removedb ids i) eqn:E.
  - apply removedb_spec in E. split; [discriminate|tauto].
  - apply removedb_false in E. split.
    + intros H. inversion H. auto.
    + intros [_ ->]. reflexivity.
Qed.

Lemma survivors_S_keep n ids : ~ removed ids n ->
  length (survivors (S n) ids) = S (length (survivors n ids)).
Proof.
  intros H. apply removedb_false in H. rewrite survivors_S, H, app_length. cbn [length]. lia.
Qed.

(* strictly monotone on survivors *)
Lemma renum_mono ids i j a b :
  renum ids i = Some a -> renum ids j = Some b -> i < j -> a < b.
Proof.
  intros Hi Hj Hlt. apply renum_Some in Hi, Hj. destruct Hi as [Hi ->], Hj as [_ ->].
  pose proof (@survivors_length_mono (S i) j ids ltac:(lia)) as Hm.
  rewrite survivors_S_keep in Hm by auto. lia.
Qed.

Lemma renum_lt n ids i k : i < n -> renum ids i = Some k -> k < length (survivors n ids).
Proof.
  intros Hi Hk. apply renum_Some in Hk. destruct Hk as [Hk ->].
  pose proof (@survivors_length_mono (S i) n ids ltac:(lia)) as Hm.
  rewrite survivors_S_keep in Hm by auto. lia.
Qed.

(* onto [0, number of survivors) *)
Lemma renum_onto n ids k :
  k < length (survivors n ids) <-> exists i, i < n /\ renum ids i = Some k.
Proof.
  split.
  - induction n as [|n IH]; intros Hk.
    + cbn in Hk. lia.
    + rewrite survivors_S, app_length in Hk.
      destruct (removedb ids n) eqn:E; cbn [length] in Hk.
      * destruct IH as (i & Hi & Hr). lia. exists i. split; auto.
      * destruct (Nat.eq_dec k (length (survivors n ids))) as [->|Hne].
        -- exists n. split; auto. unfold renum. rewrite E. reflexivity.
        -- destruct IH as (i & Hi & Hr). lia. exists i. split; auto.
  - intros (i & Hi & Hr). eapply renum_lt; eauto.
Qed.

Lemma survivors_nth n ids i : i < n -> ~ removed ids i ->
  nth (length (survivors i ids)) (survivors n ids) 0 = i.
Proof.
  intros Hi Hk. apply removedb_false in Hk.
  replace n with (i + S (n - S i)) by lia. rewrite survivors_split.
  rewrite app_nth2 by lia. rewrite Nat.sub_diag. cbn [seq filter]. rewrite Hk. reflexivity.
Qed.

(* the new number of an item is its position in the list of survivors *)
Lemma renum_nth n ids i k : i < n -> renum ids i = Some k -> nth k (survivors n ids) 0 = i.
Proof. intros Hi Hk. apply renum_Some in Hk. destruct Hk as [Hk ->]. apply survivors_nth; auto. Qed.

(* renumbering the survivors in order gives 0, 1, 2, ...: monotone and onto at once *)
Lemma renum_list_survivors n ids :
  renum_list ids (seq 0 n) = seq 0 (length (survivors n ids)).
Proof.
  induction n as [|n IH]. reflexivity.
  unfold renum_list in *. rewrite seq_S, flat_map_app, IH. cbn [Nat.add flat_map].
  rewrite survivors_S, app_length. unfold renum.
  destruct (removedb ids n); cbn [opt_list length app].
  - rewrite Nat.add_0_r, app_nil_r. reflexivity.
  - rewrite seq_app. reflexivity.
Qed.

Lemma renum_list_In ids l k : In k (renum_list ids l) <-> exists i, In i l /\ renum ids i = Some k.
Proof.
  unfold renum_list. rewrite in_flat_map. split; intros (i & Hi & Hk); exists i; split; auto.
  - destruct (renum ids i); cbn in Hk; try contradiction. destruct Hk as [->|[]]. reflexivity.
  - rewrite Hk. left. reflexivity.
Qed.

Lemma renum_list_in_range n ids l :
  in_range n l -> in_range (length (survivors n ids)) (renum_list ids l).
Proof.
  intros H. apply Forall_forall. intros k Hk. apply renum_list_In in Hk.
  destruct Hk as (i & Hi & Hk). unfold in_range in H. rewrite Forall_forall in H.
  eapply renum_lt; eauto.
Qed.

Lemma renum_list_length_le ids l : length (renum_list ids l) <= length l.
Proof.
  unfold renum_list. induction l as [|i l IH]; cbn [flat_map length]; auto.
  rewrite app_length. destruct (renum ids i); cbn [opt_list length]; lia.
Qed.

(* --- counting: exactly the DISTINCT identifiers disappear --- *)
Lemma survivors_count n ids : in_range n ids ->
  length (survivors n ids) + length (nodup Nat.eq_dec ids) = n.
Proof.
  intros Hr.
  pose proof (filter_length_split (removedb ids) (seq 0 n)) as Hs.
  rewrite seq_length in Hs. fold (survivors n ids) in Hs.
  assert (Hp : Permutation (filter (removedb ids) (seq 0 n)) (nodup Nat.eq_dec ids)).
  { apply NoDup_Permutation.
    - apply NoDup_filter. apply seq_NoDup.
    - apply NoDup_nodup.
    - intros i. rewrite filter_In, in_seq, nodup_In, removedb_spec. unfold removed.
      split. tauto. intros Hi. split; auto.
      unfold in_range in Hr. rewrite Forall_forall in Hr. specialize (Hr i Hi). lia. }
  apply Permutation_length in Hp. lia.
Qed.

(* ====================================================================== *)
(* Ranges under growth; [Forall] through [upd_at]                          *)
(* ====================================================================== *)

Lemma in_range_mono n m l : n <= m -> in_range n l -> in_range m l.
Proof. intros H. apply Forall_impl. intros i Hi. lia. Qed.

Lemma in_range_seq a k n : a + k <= n -> in_range n (seq a k).
Proof. intros H. apply Forall_forall. intros i Hi. apply in_seq in Hi. lia. Qed.

Lemma Forall_nth_error {X} (P : X -> Prop) l :
  (forall i x, nth_error l i = Some x -> P x) -> Forall P l.
Proof.
  intros H. apply Forall_forall. intros x Hx. apply In_nth_error in Hx.
  destruct Hx as (i & Hi). eauto.
Qed.

Lemma upd_at_Forall {X} (P Q : X -> Prop) l e g :
  Forall P l -> (forall x, P x -> Q x) -> (forall x, P x -> Q (g x)) -> Forall Q (upd_at l e g).
Proof.
  intros Hl H1 H2. apply Forall_nth_error. intros i x Hi.
  rewrite upd_at_nth_error in Hi. rewrite Forall_forall in Hl.
  destruct (i =? e).
  - destruct (nth_error l e) as [y|] eqn:E; cbn [option_map] in Hi; inversion Hi; subst.
    apply H2. apply Hl. eapply nth_error_In; eauto.
  - apply H1. apply Hl. eapply nth_error_In; eauto.
Qed.
