(* C11: the imperative builder of the lax representation (src/lax/hypergraph.rs,
   src/lax/open_hypergraph.rs) refines the plain list-based specification of
   Proofs/C11Spec.v, and the JSON codec round-trips.

   JSON (round trip, field names); construction steps (fresh identifiers, add_edge_source, add_edge_target);
   deletion (model loops = declarative specification, rejection of out-of-range identifiers,
   exactness); histories (every step preserves well-formedness, a history of the model is
   the same history of the specification); link with Run.Dispatch.lax_step; examples. *)
From Coq Require Import List Arith Lia Bool Permutation String.
From OHG Require Import Run.Dispatch Model.Prims Model.Lax Proofs.PrimsThm.
From OHG Require Export Proofs.C11Spec.
Import Coq.Init.Datatypes.   (* [length] is the one of lists, not of strings *)
Import ListNotations.
Local Open Scope list_scope.
Local Open Scope nat_scope.   (* [=?], [<?] are those of nat, not of strings *)
Local Notation filter := List.filter.   (* Model.Graph defines another [filter] *)

Set Implicit Arguments.

(* ====================================================================== *)
(* JSON: round trip and field names                                        *)
(* ====================================================================== *)

Lemma omap_uj_nat l : omap uj_nat (map JNum l) = Some l.
Proof. induction l as [|x l IH]; simpl; auto. rewrite IH. reflexivity. Qed.

Lemma uj_nats_j_nats l : uj_nats (j_nats l) = Some l.
Proof. unfold uj_nats, j_nats. apply omap_uj_nat. Qed.

Lemma uj_edge_j_edge e : uj_edge (j_edge e) = Some e.
Proof.
  destruct e as [s t]. unfold j_edge. cbn [uj_edge fst snd].
  cbv beta iota. rewrite !uj_nats_j_nats. reflexivity.
Qed.

Lemma omap_uj_edge l : omap uj_edge (map j_edge l) = Some l.
Proof.
  induction l as [|e l IH]. reflexivity.
  cbn [map omap]. rewrite uj_edge_j_edge.
  change ((fix go (l0 : list json) : option (list hyperedge) :=
             match l0 with
             | [] => Some []
             | x :: xs => match uj_edge x, go xs with Some y, Some ys => Some (y :: ys) | _, _ => None end
             end) (map j_edge l)) with (omap uj_edge (map j_edge l)).
  rewrite IH. reflexivity.
Qed.

Lemma uj_lhg_j_lhg h : uj_lhg (j_lhg h) = Some h.
Proof.
  destruct h as [nodes edges adj [q0 q1]]. unfold j_lhg. cbn [uj_lhg l_nodes l_edges l_adj l_q fst snd].
  cbv beta iota. rewrite !uj_nats_j_nats, omap_uj_edge. reflexivity.
Qed.

Theorem C11_json_roundtrip : forall f : lohg nat nat, uj_lohg (j_lohg f) = Some f.
Proof.
  intros [s t h]. unfold j_lohg. cbn [uj_lohg lo_sources lo_targets lo_h].
  cbv beta iota. rewrite !uj_nats_j_nats, uj_lhg_j_lhg. reflexivity.
Qed.

(* the documented (serde derive) field names, in declaration order; identifiers are bare numbers *)
Theorem C11_json_fields : forall f : lohg nat nat,
  j_lohg f =
  JObj [("sources"%string, JArr (map JNum (lo_sources f)));
        ("targets"%string, JArr (map JNum (lo_targets f)));
        ("hypergraph"%string,
         JObj [("nodes"%string, JArr (map JNum (l_nodes (lo_h f))));
               ("edges"%string, JArr (map JNum (l_edges (lo_h f))));
               ("adjacency"%string,
                JArr (map (fun e => JObj [("sources"%string, JArr (map JNum (fst e)));
                                          ("targets"%string, JArr (map JNum (snd e)))])
                          (l_adj (lo_h f))));
               ("quotient"%string,
                JArr [JArr (map JNum (fst (l_q (lo_h f)))); JArr (map JNum (snd (l_q (lo_h f))))])])].
Proof. intros f. reflexivity. Qed.

(* a concrete diagram: 3 nodes, one edge 0,1 -> 2, interface [0] -> [2], pending 1 ~ 2 *)
Definition ex_json : lohg nat nat :=
  mkLOHG [0] [2] (mkLHG [10; 11; 12] [7] [([0; 1], [2])] ([1], [2])).

Example C11_json_print :
  print_json (j_lohg ex_json) =
  "{""sources"":[0],""targets"":[2],""hypergraph"":{""nodes"":[10,11,12],""edges"":[7],""adjacency"":[{""sources"":[0,1],""targets"":[2]}],""quotient"":[[1],[2]]}}"%string.
Proof. vm_compute. reflexivity. Qed.

Example C11_json_roundtrip_ex : uj_lohg (j_lohg ex_json) = Some ex_json.
Proof. vm_compute. reflexivity. Qed.

(* ====================================================================== *)
(* Part 2.  Refinement: construction steps                                 *)
(* ====================================================================== *)

Section Build.
  Variables O A : Type.
  Notation lhg := (lhg O A).
  Notation lohg := (lohg O A).

  Lemma lhg_eta (h : lhg) : mkLHG (l_nodes h) (l_edges h) (l_adj h) (l_q h) = h.
  Proof. destruct h; reflexivity. Qed.

  Lemma lohg_eta (f : lohg) : mkLOHG (lo_sources f) (lo_targets f) (lo_h f) = f.
  Proof. destruct f; reflexivity. Qed.

  Lemma lhg_new_nodes_spec ws : forall h : lhg,
    lhg_new_nodes h ws =
    (mkLHG (l_nodes h ++ ws) (l_edges h) (l_adj h) (l_q h), seq (length (l_nodes h)) (length ws)).
  Proof.
    induction ws as [|w ws IH]; intros h.
    - cbn [lhg_new_nodes length seq]. rewrite app_nil_r, lhg_eta. reflexivity.
    - cbn [lhg_new_nodes]. unfold lhg_new_node. rewrite IH.
      cbn [l_nodes l_edges l_adj l_q length seq].
      rewrite <- app_assoc, app_length. cbn [app length].
      replace (length (l_nodes h) + 1) with (S (length (l_nodes h))) by lia. reflexivity.
  Qed.

  (* returned identifiers are fresh: the previous counts *)
  Theorem C11_fresh_ids :
    (forall (h : lhg) w, lhg_new_node h w = (spec_new_node h w, length (l_nodes h))) /\
    (forall (h : lhg) x s t, lhg_new_edge h x (s, t) = (spec_new_edge h x s t, length (l_edges h))) /\
    (forall (h : lhg) x st tt,
        lhg_new_operation h x st tt =
        (spec_new_operation h x st tt,
         (length (l_edges h), (spec_op_sources h st, spec_op_targets h st tt)))) /\
    (forall (h : lhg) v w, lhg_unify h v w = spec_unify h v w).
  Proof.
    split; [|split; [|split]]; try reflexivity.
    intros h x st tt. unfold lhg_new_operation.
    rewrite lhg_new_nodes_spec. rewrite lhg_new_nodes_spec.
    cbn [l_nodes l_edges l_adj l_q]. unfold lhg_new_edge. cbn [l_nodes l_edges l_adj l_q].
    unfold spec_new_operation, spec_op_sources, spec_op_targets.
    rewrite app_length, <- app_assoc. reflexivity.
  Qed.

  (* the fresh node identifiers of new_operation are consecutive, sources first *)
  Lemma C11_new_operation_ids (h : lhg) st tt :
    spec_op_sources h st ++ spec_op_targets h st tt
    = seq (length (l_nodes h)) (length st + length tt).
  Proof. unfold spec_op_sources, spec_op_targets. rewrite seq_app. reflexivity. Qed.

  (* previously valid identifiers remain valid and keep their meaning *)
  Theorem C11_ids_stay_valid (h : lhg) :
    (forall w, let h' := spec_new_node h w in
       prefix (l_nodes h) (l_nodes h') /\ l_edges h' = l_edges h /\ l_adj h' = l_adj h /\ l_q h' = l_q h) /\
    (forall x s t, let h' := spec_new_edge h x s t in
       l_nodes h' = l_nodes h /\ prefix (l_edges h) (l_edges h') /\ prefix (l_adj h) (l_adj h') /\
       l_q h' = l_q h) /\
    (forall x st tt, let h' := spec_new_operation h x st tt in
       prefix (l_nodes h) (l_nodes h') /\ prefix (l_edges h) (l_edges h') /\
       prefix (l_adj h) (l_adj h') /\ l_q h' = l_q h /\
       (* the new nodes carry the requested labels *)
       select (l_nodes h') (spec_op_sources h st) = st /\
       select (l_nodes h') (spec_op_targets h st tt) = tt /\
       nth_error (l_edges h') (length (l_edges h)) = Some x) /\
    (forall v w, let h' := spec_unify h v w in
       l_nodes h' = l_nodes h /\ l_edges h' = l_edges h /\ l_adj h' = l_adj h /\
       prefix (fst (l_q h)) (fst (l_q h')) /\ prefix (snd (l_q h)) (snd (l_q h'))).
  Proof.
    split; [|split; [|split]].
    - intros w h'. subst h'. cbn. repeat split. apply prefix_app.
    - intros x s t h'. subst h'. cbn. repeat split; apply prefix_app.
    - intros x st tt h'. subst h'. cbn [spec_new_operation l_nodes l_edges l_adj l_q].
      repeat split; try apply prefix_app.
      + unfold spec_op_sources.
        rewrite app_assoc. rewrite select_ext_prefix.
        2:{ apply Forall_forall. intros i Hi. apply in_seq in Hi. rewrite app_length. lia. }
        generalize (l_nodes h) as ns. intros ns. clear.
        induction ns as [|y ns IH]; cbn [app length].
        * apply select_seq_all.
        * rewrite <- seq_shift. rewrite select_cons_S. exact IH.
      + unfold spec_op_targets. rewrite app_assoc. rewrite <- app_length.
        generalize (l_nodes h ++ st) as ns. intros ns. clear.
        induction ns as [|y ns IH]; cbn [app length].
        * apply select_seq_all.
        * rewrite <- seq_shift. rewrite select_cons_S. exact IH.
      + rewrite nth_error_app2 by lia. rewrite Nat.sub_diag. reflexivity.
    - intros v w h'. subst h'. cbn. repeat split; apply prefix_app.
  Qed.
End Build.

(* ---------------------------------------------------------------------- *)
(* add_edge_source / add_edge_target                                       *)
(* ---------------------------------------------------------------------- *)
Section AddEdge.
  Variables O A : Type.
  Notation lhg := (lhg O A).

  Lemma upd_adj_ok (adj : list hyperedge) e g :
    e < length adj -> upd_adj adj e g = Ok (upd_at adj e g).
  Proof.
    intros H. unfold upd_adj. rewrite (get_ok adj ([], []) H). cbn [bind].
    rewrite assign_ok by auto. rewrite set_nth_split by auto.
    unfold upd_at. rewrite (nth_error_nth' adj ([], []) H). reflexivity.
  Qed.

  Lemma upd_adj_panic (adj : list hyperedge) e g :
    length adj <= e -> upd_adj adj e g = Panic.
  Proof. intros H. unfold upd_adj. rewrite get_panic by auto. reflexivity. Qed.

  (* accepted iff the edge identifier is in range; effect: one fresh node, whose identifier is
     appended to the sources (targets) of that edge; nothing else changes *)
  Theorem C11_add_edge (h : lhg) e w :
    (e < length (l_adj h) ->
       lhg_add_edge_source h e w = Ok (spec_add_edge_source h e w, length (l_nodes h)) /\
       lhg_add_edge_target h e w = Ok (spec_add_edge_target h e w, length (l_nodes h))) /\
    (length (l_adj h) <= e ->
       lhg_add_edge_source h e w = Panic /\ lhg_add_edge_target h e w = Panic).
  Proof.
    unfold lhg_add_edge_source, lhg_add_edge_target, lhg_new_node.
    cbn [l_nodes l_edges l_adj l_q]. split; intros H.
    - rewrite !upd_adj_ok by auto. cbn [bind]. split; reflexivity.
    - rewrite !upd_adj_panic by auto. split; reflexivity.
  Qed.

  Corollary C11_add_edge_iff (h : lhg) e w :
    ((exists r, lhg_add_edge_source h e w = Ok r) <-> e < length (l_adj h)) /\
    ((exists r, lhg_add_edge_target h e w = Ok r) <-> e < length (l_adj h)) /\
    (lhg_add_edge_source h e w = Panic <-> length (l_adj h) <= e) /\
    (lhg_add_edge_target h e w = Panic <-> length (l_adj h) <= e).
  Proof.
    destruct (C11_add_edge h e w) as [Hok Hp].
    destruct (Nat.lt_ge_cases e (length (l_adj h))) as [Hlt|Hge].
    - destruct (Hok Hlt) as [-> ->].
      repeat split; intros; eauto; try discriminate; try lia.
    - destruct (Hp Hge) as [-> ->].
      repeat split; intros; auto; try lia;
        match goal with Hx : exists _, _ |- _ => destruct Hx as (? & Hx); discriminate end.
  Qed.

  (* what add_edge_source changes, read pointwise *)
  Theorem C11_add_edge_effect (h : lhg) e w : e < length (l_adj h) ->
    let hs := spec_add_edge_source h e w in
    let ht := spec_add_edge_target h e w in
    let n := length (l_nodes h) in
    l_nodes hs = l_nodes h ++ [w] /\ l_nodes ht = l_nodes h ++ [w] /\
    l_edges hs = l_edges h /\ l_edges ht = l_edges h /\
    l_q hs = l_q h /\ l_q ht = l_q h /\
    length (l_adj hs) = length (l_adj h) /\ length (l_adj ht) = length (l_adj h) /\
    (forall i, i <> e -> nth_error (l_adj hs) i = nth_error (l_adj h) i) /\
    (forall i, i <> e -> nth_error (l_adj ht) i = nth_error (l_adj h) i) /\
    (forall s t, nth_error (l_adj h) e = Some (s, t) ->
       nth_error (l_adj hs) e = Some (s ++ [n], t) /\
       nth_error (l_adj ht) e = Some (s, t ++ [n])).
  Proof.
    intros He hs ht n. subst hs ht n.
    unfold spec_add_edge_source, spec_add_edge_target. cbn [l_nodes l_edges l_adj l_q].
    rewrite !upd_at_length.
    repeat split; auto.
    - intros i Hi. rewrite upd_at_nth_error. apply Nat.eqb_neq in Hi. rewrite Hi. reflexivity.
    - intros i Hi. rewrite upd_at_nth_error. apply Nat.eqb_neq in Hi. rewrite Hi. reflexivity.
    - rewrite upd_at_nth_error, Nat.eqb_refl, H. reflexivity.
    - rewrite upd_at_nth_error, Nat.eqb_refl, H. reflexivity.
  Qed.
End AddEdge.

(* ====================================================================== *)
(* Refinement: the loops of deletion                                       *)
(* ====================================================================== *)


(* the [remove] bit vector *)
Lemma mark_removed_fold ids : forall n acc, length acc = n -> in_range n ids ->
  foldM (fun acc i => _ <- assert (i <? n) ;; assign acc i true) ids acc = Ok (sac_pure acc ids true).
Proof.
  induction ids as [|i ids IH]; intros n acc Hl Hr; cbn [foldM]. reflexivity.
  inversion Hr as [|? ? Hi Hr']; subst.
  apply Nat.ltb_lt in Hi. rewrite Hi. cbn [assert bind]. apply Nat.ltb_lt in Hi.
  rewrite assign_ok by lia. cbn [bind].
  rewrite (IH (length acc)); auto. apply set_nth_length.
Qed.

Lemma mark_removed_ok n ids : in_range n ids ->
  mark_removed n ids = Ok (map (removedb ids) (seq 0 n)).
Proof.
  intros Hr. unfold mark_removed. rewrite (@mark_removed_fold ids n) by (auto using repeat_length).
  f_equal. apply nth_ext with (d := false) (d' := false).
  - rewrite sac_pure_length, repeat_length, map_length, seq_length. reflexivity.
  - intros j Hj. rewrite sac_pure_length, repeat_length in Hj.
    rewrite nth_sac_pure by (rewrite repeat_length; exact Hr).
    rewrite nth_map_seq by auto. cbn [Nat.add]. unfold removedb.
    destruct (existsb (Nat.eqb j) ids); auto. apply nth_repeat.
Qed.

Lemma mark_removed_fold_panic ids : forall n acc, length acc = n -> Exists (fun i => n <= i) ids ->
  foldM (fun acc i => _ <- assert (i <? n) ;; assign acc i true) ids acc = Panic.
Proof.
  induction ids as [|i ids IH]; intros n acc Hl He; cbn [foldM].
  - inversion He.
  - destruct (i <? n) eqn:Hi; cbn [assert bind]; auto.
    apply Nat.ltb_lt in Hi. rewrite assign_ok by lia. cbn [bind].
    apply IH. rewrite set_nth_length; auto.
    inversion He as [? ? Hge|? ? He']; subst; auto. lia.
Qed.

Lemma mark_removed_panic n ids : Exists (fun i => n <= i) ids -> mark_removed n ids = Panic.
Proof. intros H. unfold mark_removed. apply mark_removed_fold_panic; auto using repeat_length. Qed.

(* the drain/enumerate loop keeps the entries at surviving positions, in order *)
Lemma filter_flags_spec {X} (l : list X) : forall p : nat -> bool,
  filter_flags (map p (seq 0 (length l))) l
  = select l (filter (fun i => negb (p i)) (seq 0 (length l))).
Proof.
  induction l as [|x l IH]; intros p. reflexivity.
  cbn [length seq]. rewrite <- seq_shift. cbn [map filter_flags filter].
  rewrite map_map. rewrite (IH (fun i => p (S i))). rewrite filter_map_S.
  destruct (p 0); cbn [negb].
  - rewrite select_cons_S. reflexivity.
  - unfold select at 2. cbn [flat_map nth_error opt_list app]. f_equal.
    symmetry. apply select_cons_S.
Qed.

Lemma filter_flags_survivors {X} (l : list X) ids :
  filter_flags (map (removedb ids) (seq 0 (length l))) l = select l (survivors (length l) ids).
Proof. apply filter_flags_spec. Qed.


(* the [new_index] loop *)
Lemma new_index_from_app f1 : forall k f2,
  new_index_from k (f1 ++ f2)
  = new_index_from k f1 ++ new_index_from (k + length (filter negb f1)) f2.
Proof.
  induction f1 as [|b f1 IH]; intros k f2; cbn [app new_index_from filter length].
  - rewrite Nat.add_0_r. reflexivity.
  - destruct b; cbn [negb length app].
    + rewrite IH. reflexivity.
    + rewrite IH. cbn [app]. do 3 f_equal. lia.
Qed.

Lemma new_index_from_spec ids n :
  new_index_from 0 (map (removedb ids) (seq 0 n)) = map (renum ids) (seq 0 n).
Proof.
  induction n as [|n IH]. reflexivity.
  rewrite seq_S, !map_app, new_index_from_app, IH. f_equal.
  cbn [Nat.add map new_index_from]. rewrite filter_map_length.
  unfold renum. fold (survivors n ids).
  destruct (removedb ids n); reflexivity.
Qed.

(* lookups in the renumbering table *)
Lemma remap_ok ids n l : in_range n l ->
  remap (map (renum ids) (seq 0 n)) l = Ok (renum_list ids l).
Proof.
  intros H. unfold remap.
  rewrite (@mapM_ok _ _ (get (map (renum ids) (seq 0 n))) (renum ids) l).
  - cbn [bind]. unfold renum_list. rewrite flat_map_map. reflexivity.
  - intros i Hi. unfold in_range in H. rewrite Forall_forall in H. specialize (H i Hi).
    rewrite (get_ok _ None) by (rewrite map_length, seq_length; auto).
    rewrite nth_map_seq by auto. reflexivity.
Qed.


(* ---------------------------------------------------------------------- *)
(* delete_edges, delete_nodes: model = specification                       *)
(* ---------------------------------------------------------------------- *)
Section Delete.
  Variables O A : Type.
  Notation lhg := (lhg O A).
  Notation lohg := (lohg O A).

  Lemma spec_delete_edges_nil (h : lhg) :
    length (l_edges h) = length (l_adj h) -> spec_delete_edges_h h [] = h.
  Proof.
    intros H. destruct h as [ns es adj q]. unfold spec_delete_edges_h. cbn [l_nodes l_edges l_adj l_q] in *.
    rewrite survivors_nil, select_seq_all, H, select_seq_all. reflexivity.
  Qed.

  Lemma delete_edges_ok (h : lhg) ids :
    length (l_edges h) = length (l_adj h) -> in_range (length (l_edges h)) ids ->
    lhg_delete_edges h ids = Ok (spec_delete_edges_h h ids).
  Proof.
    intros Hlen Hr. unfold lhg_delete_edges.
    rewrite (proj2 (Nat.eqb_eq _ _) Hlen). cbn [assert bind].
    destruct ids as [|i ids].
    - rewrite spec_delete_edges_nil by auto. reflexivity.
    - rewrite mark_removed_ok by auto. cbn [bind].
      unfold spec_delete_edges_h.
      rewrite (filter_flags_survivors (l_edges h)).
      rewrite Hlen.
      rewrite (filter_flags_survivors (l_adj h)). reflexivity.
  Qed.

  Lemma delete_edges_panic (h : lhg) ids :
    length (l_edges h) <> length (l_adj h) \/ Exists (fun i => length (l_edges h) <= i) ids ->
    lhg_delete_edges h ids = Panic.
  Proof.
    intros H. unfold lhg_delete_edges.
    destruct (Nat.eqb_spec (length (l_edges h)) (length (l_adj h))) as [Hlen|Hlen]; cbn [assert bind]; auto.
    destruct H as [H|H]; try contradiction.
    destruct ids as [|i ids]. inversion H.
    rewrite mark_removed_panic by auto. reflexivity.
  Qed.

  (* delete_edges: edges and adjacency filtered by position, everything else untouched;
     panics iff some identifier is out of range or the two arrays have different lengths *)
  Theorem C11_delete_edges_refines (h : lhg) ids :
    (length (l_edges h) = length (l_adj h) -> in_range (length (l_edges h)) ids ->
       lhg_delete_edges h ids = Ok (spec_delete_edges_h h ids)) /\
    (lhg_delete_edges h ids = Panic <->
       length (l_edges h) <> length (l_adj h) \/ Exists (fun i => length (l_edges h) <= i) ids) /\
    (length (l_edges h) = length (l_adj h) -> lhg_delete_edges h [] = Ok h).
  Proof.
    split; [|split].
    - apply delete_edges_ok.
    - split; [|apply delete_edges_panic].
      intros Hp.
      destruct (Nat.eq_dec (length (l_edges h)) (length (l_adj h))) as [Hlen|Hlen]; auto.
      destruct (in_range_dec (length (l_edges h)) ids) as [Hr|He]; auto.
      rewrite delete_edges_ok in Hp by auto. discriminate.
    - intros Hlen. rewrite delete_edges_ok by (auto; constructor).
      rewrite spec_delete_edges_nil by auto. reflexivity.
  Qed.

  (* ---- delete_nodes ---- *)
  Lemma spec_delete_nodes_h_nil (h : lhg) :
    length (fst (l_q h)) = length (snd (l_q h)) -> spec_delete_nodes_h h [] = h.
  Proof.
    intros H. destruct h as [ns es adj q]. unfold spec_delete_nodes_h. cbn [l_nodes l_edges l_adj l_q] in *.
    rewrite survivors_nil, select_seq_all, renum_pairs_nil by auto. f_equal.
    induction adj as [|[s t] adj IH]; auto.
    cbn [map fst snd]. rewrite !renum_list_nil, IH. reflexivity.
  Qed.

  Lemma spec_witness_nil (h : lhg) : spec_witness h [] = map Some (seq 0 (length (l_nodes h))).
  Proof. unfold spec_witness. apply map_ext. apply renum_nil. Qed.

  Lemma delete_nodes_witness_ok (h : lhg) ids :
    hwf h -> in_range (length (l_nodes h)) ids ->
    lhg_delete_nodes_witness h ids = Ok (spec_delete_nodes_h h ids, spec_witness h ids).
  Proof.
    intros (Hadj & Hq0 & Hq1 & _ & Hql) Hr. unfold lhg_delete_nodes_witness.
    destruct ids as [|i0 ids0].
    { rewrite spec_delete_nodes_h_nil, spec_witness_nil by auto. reflexivity. }
    set (ids := i0 :: ids0) in *. set (n := length (l_nodes h)) in *.
    rewrite mark_removed_ok by auto. cbn [bind].
    rewrite new_index_from_spec.
    rewrite (@mapM_ok _ _ _ (fun e => (renum_list ids (fst e), renum_list ids (snd e))) (l_adj h)).
    2:{ intros e He. rewrite Forall_forall in Hadj. destruct (Hadj e He) as [Hs Ht].
        rewrite !remap_ok by auto. reflexivity. }
    cbn [bind].
    rewrite (@mapM_ok _ _ _ (fun p => (renum ids (fst p), renum ids (snd p)))
                      (combine (fst (l_q h)) (snd (l_q h)))).
    2:{ intros [a b] Hp. cbn [fst snd].
        assert (Ha : a < n).
        { apply in_combine_l in Hp. unfold in_range in Hq0. rewrite Forall_forall in Hq0. auto. }
        assert (Hb : b < n).
        { apply in_combine_r in Hp. unfold in_range in Hq1. rewrite Forall_forall in Hq1. auto. }
        rewrite (get_ok _ None) by (rewrite map_length, seq_length; auto). cbn [bind].
        rewrite (get_ok _ None) by (rewrite map_length, seq_length; auto). cbn [bind].
        rewrite !nth_map_seq by auto. reflexivity. }
    cbn [bind]. unfold spec_delete_nodes_h, spec_witness. fold n.
    unfold n at 1. rewrite (filter_flags_survivors (l_nodes h)). fold n.
    rewrite flat_map_map. unfold renum_pairs.
    reflexivity.
  Qed.

  Lemma delete_nodes_witness_panic (h : lhg) ids :
    Exists (fun i => length (l_nodes h) <= i) ids -> lhg_delete_nodes_witness h ids = Panic.
  Proof.
    intros H. unfold lhg_delete_nodes_witness.
    destruct ids as [|i ids]. inversion H.
    rewrite mark_removed_panic by auto. reflexivity.
  Qed.

  Lemma spec_delete_nodes_nil (f : lohg) : lwf f -> spec_delete_nodes f [] = f.
  Proof.
    intros ((_ & _ & _ & _ & Hql) & _ & _). destruct f as [s t h].
    unfold spec_delete_nodes. cbn [lo_sources lo_targets lo_h] in *.
    rewrite !renum_list_nil, spec_delete_nodes_h_nil by auto. reflexivity.
  Qed.

  (* delete_nodes: model = declarative specification on well-formed states *)
  Theorem C11_delete_nodes_refines (f : lohg) ids : lwf f ->
    (in_range (n_nodes f) ids ->
       lohg_delete_nodes f ids = Ok (spec_delete_nodes f ids) /\
       lhg_delete_nodes_witness (lo_h f) ids
         = Ok (lo_h (spec_delete_nodes f ids), spec_witness (lo_h f) ids) /\
       lhg_delete_nodes (lo_h f) ids = Ok (lo_h (spec_delete_nodes f ids))) /\
    (Exists (fun i => n_nodes f <= i) ids ->
       lohg_delete_nodes f ids = Panic /\
       lhg_delete_nodes_witness (lo_h f) ids = Panic /\
       lhg_delete_nodes (lo_h f) ids = Panic) /\
    (lohg_delete_nodes f [] = Ok f /\
     lhg_delete_nodes_witness (lo_h f) [] = Ok (lo_h f, map Some (seq 0 (n_nodes f)))).
  Proof.
    intros Hwf. pose proof Hwf as (Hh & Hs & Ht).
    assert (Hok : forall ids, in_range (n_nodes f) ids ->
       lohg_delete_nodes f ids = Ok (spec_delete_nodes f ids) /\
       lhg_delete_nodes_witness (lo_h f) ids
         = Ok (lo_h (spec_delete_nodes f ids), spec_witness (lo_h f) ids) /\
       lhg_delete_nodes (lo_h f) ids = Ok (lo_h (spec_delete_nodes f ids))).
    { intros ids' Hr. unfold lohg_delete_nodes, lhg_delete_nodes.
      rewrite delete_nodes_witness_ok by auto. cbn [bind fst].
      unfold spec_witness. fold (n_nodes f).
      rewrite !remap_ok by auto. cbn [bind]. repeat split. }
    split; [|split].
    - apply Hok.
    - intros He. unfold lohg_delete_nodes, lhg_delete_nodes.
      rewrite delete_nodes_witness_panic by auto. repeat split.
    - destruct (Hok []) as (H1 & H2 & _). constructor.
      rewrite H1, H2, spec_delete_nodes_nil, spec_witness_nil by auto. split; reflexivity.
  Qed.

  (* out-of-range identifiers are rejected, whatever the state *)
  Theorem C11_delete_nodes_rejects (f : lohg) ids :
    Exists (fun i => n_nodes f <= i) ids ->
    lohg_delete_nodes f ids = Panic /\ lhg_delete_nodes (lo_h f) ids = Panic.
  Proof.
    intros He. unfold lohg_delete_nodes, lhg_delete_nodes.
    rewrite delete_nodes_witness_panic by auto. split; reflexivity.
  Qed.

  Corollary C11_delete_nodes_panic_iff (f : lohg) ids : lwf f ->
    (lohg_delete_nodes f ids = Panic <-> Exists (fun i => n_nodes f <= i) ids).
  Proof.
    intros Hwf. split.
    - intros Hp. destruct (in_range_dec (n_nodes f) ids) as [Hr|He]; auto.
      destruct (C11_delete_nodes_refines ids Hwf) as (Hok & _).
      destruct (Hok Hr) as (E & _). rewrite E in Hp. discriminate.
    - intros He. apply C11_delete_nodes_rejects. auto.
  Qed.
End Delete.

(* ====================================================================== *)
(* Consequences of the specification of deletion                           *)
(* ====================================================================== *)

Section Exact.
  Variables O A : Type.
  Notation lhg := (lhg O A).
  Notation lohg := (lohg O A).

  Lemma spec_delete_nodes_same (f : lohg) ids ids' : same_set ids ids' ->
    spec_delete_nodes f ids = spec_delete_nodes f ids' /\
    spec_witness (lo_h f) ids = spec_witness (lo_h f) ids'.
  Proof.
    intros H. unfold spec_delete_nodes, spec_delete_nodes_h, spec_witness.
    rewrite !(renum_list_same _ H), (survivors_same _ H), (renum_pairs_same _ H).
    split.
    - do 2 f_equal. apply map_ext. intros e. rewrite !(renum_list_same _ H). reflexivity.
    - apply map_ext. apply renum_same. auto.
  Qed.

  Lemma spec_delete_edges_same (h : lhg) ids ids' : same_set ids ids' ->
    spec_delete_edges_h h ids = spec_delete_edges_h h ids'.
  Proof. intros H. unfold spec_delete_edges_h. rewrite (survivors_same _ H). reflexivity. Qed.

  Lemma spec_delete_nodes_count (f : lohg) ids :
    n_nodes (spec_delete_nodes f ids) = length (survivors (n_nodes f) ids).
  Proof.
    unfold n_nodes, spec_delete_nodes, spec_delete_nodes_h. cbn [lo_h l_nodes].
    apply select_length. apply survivors_in_range.
  Qed.

  Lemma spec_delete_nodes_lwf (f : lohg) ids : lwf f -> lwf (spec_delete_nodes f ids).
  Proof.
    intros ((Hadj & Hq0 & Hq1 & Hlen & Hql) & Hs & Ht).
    unfold lwf, hwf. rewrite spec_delete_nodes_count. fold (n_nodes (spec_delete_nodes f ids)).
    rewrite spec_delete_nodes_count.
    unfold spec_delete_nodes, spec_delete_nodes_h. cbn [lo_h lo_sources lo_targets l_nodes l_edges l_adj l_q].
    fold (n_nodes f) in *. set (n := n_nodes f) in *.
    repeat split.
    - apply Forall_forall. intros e' He'. apply in_map_iff in He'. destruct He' as (e & <- & He).
      rewrite Forall_forall in Hadj. destruct (Hadj e He) as [H1 H2]. cbn [fst snd].
      split; apply renum_list_in_range; auto.
    - unfold renum_pairs. cbn [fst]. apply Forall_forall. intros a Ha.
      apply in_map_iff in Ha. destruct Ha as ([a' b'] & <- & Ha). cbn [fst].
      apply in_flat_map in Ha. destruct Ha as ([i j] & Hin & Ha). cbn [fst snd] in Ha.
      destruct (renum ids i) as [a0|] eqn:Ei; try contradiction.
      destruct (renum ids j) as [b0|] eqn:Ej; try contradiction.
      destruct Ha as [Ha|[]]. inversion Ha; subst.
      apply in_combine_l in Hin. unfold in_range in Hq0. rewrite Forall_forall in Hq0.
      eapply renum_lt; eauto.
    - unfold renum_pairs. cbn [snd]. apply Forall_forall. intros b Hb.
      apply in_map_iff in Hb. destruct Hb as ([a' b'] & <- & Hb). cbn [snd].
      apply in_flat_map in Hb. destruct Hb as ([i j] & Hin & Hb). cbn [fst snd] in Hb.
      destruct (renum ids i) as [a0|] eqn:Ei; try contradiction.
      destruct (renum ids j) as [b0|] eqn:Ej; try contradiction.
      destruct Hb as [Hb|[]]. inversion Hb; subst.
      apply in_combine_r in Hin. unfold in_range in Hq1. rewrite Forall_forall in Hq1.
      eapply renum_lt; eauto.
    - rewrite map_length. auto.
    - unfold renum_pairs. cbn [fst snd]. rewrite !map_length. reflexivity.
    - apply renum_list_in_range; auto.
    - apply renum_list_in_range; auto.
  Qed.

  (* delete_nodes removes exactly the named items *)
  Theorem C11_delete_exact (f : lohg) ids : lwf f -> in_range (n_nodes f) ids ->
    let f' := spec_delete_nodes f ids in
    (* duplicates and order of the identifiers are irrelevant *)
    (forall ids', same_set ids ids' ->
       spec_delete_nodes f ids' = f' /\
       spec_witness (lo_h f) ids' = spec_witness (lo_h f) ids /\
       lohg_delete_nodes f ids' = lohg_delete_nodes f ids) /\
    (* node i survives iff it is not named *)
    (forall i, renum ids i = None <-> In i ids) /\
    (* survivors are renumbered strictly monotonically ... *)
    (forall i j a b, renum ids i = Some a -> renum ids j = Some b -> i < j -> a < b) /\
    (* ... onto [0, new number of nodes) *)
    (forall k, k < n_nodes f' <-> exists i, i < n_nodes f /\ renum ids i = Some k) /\
    renum_list ids (seq 0 (n_nodes f)) = seq 0 (n_nodes f') /\
    (* labels follow their nodes *)
    (forall i k, i < n_nodes f -> renum ids i = Some k ->
       nth_error (l_nodes (lo_h f')) k = nth_error (l_nodes (lo_h f)) i) /\
    (* exactly the distinct named nodes disappear *)
    n_nodes f' + length (nodup Nat.eq_dec ids) = n_nodes f /\
    (* hyperedges keep their label and position *)
    l_edges (lo_h f') = l_edges (lo_h f) /\
    length (l_adj (lo_h f')) = length (l_adj (lo_h f)) /\
    (forall j s t, nth_error (l_adj (lo_h f)) j = Some (s, t) ->
       nth_error (l_adj (lo_h f')) j = Some (renum_list ids s, renum_list ids t)) /\
    (* well-formedness is preserved *)
    lwf f'.
  Proof.
    intros Hwf Hr f'. subst f'.
    repeat match goal with |- _ /\ _ => split end.
    - intros ids' Hs. destruct (spec_delete_nodes_same f Hs) as [E1 E2].
      split; [|split]; auto.
      assert (Hr' : in_range (n_nodes f) ids').
      { apply Forall_forall. intros i Hi. apply Hs in Hi.
        unfold in_range in Hr. rewrite Forall_forall in Hr. auto. }
      destruct (C11_delete_nodes_refines ids Hwf) as (H1 & _).
      destruct (C11_delete_nodes_refines ids' Hwf) as (H2 & _).
      destruct (H1 Hr) as (-> & _). destruct (H2 Hr') as (-> & _). rewrite E1. reflexivity.
    - intros i. apply renum_None.
    - apply renum_mono.
    - intros k. rewrite spec_delete_nodes_count. apply renum_onto.
    - rewrite spec_delete_nodes_count. apply renum_list_survivors.
    - intros i k Hi Hk. unfold spec_delete_nodes, spec_delete_nodes_h. cbn [lo_h l_nodes].
      fold (n_nodes f). rewrite select_nth_error.
      + rewrite (renum_nth _ Hi Hk). reflexivity.
      + apply survivors_in_range.
      + eapply renum_lt; eauto.
    - rewrite spec_delete_nodes_count. apply survivors_count. auto.
    - reflexivity.
    - unfold spec_delete_nodes, spec_delete_nodes_h. cbn [lo_h l_adj]. apply map_length.
    - intros j s t Hj. unfold spec_delete_nodes, spec_delete_nodes_h. cbn [lo_h l_adj].
      apply map_nth_error with (f := fun e : hyperedge => (renum_list ids (fst e), renum_list ids (snd e))) in Hj.
      exact Hj.
    - apply spec_delete_nodes_lwf. auto.
  Qed.

  (* the same for delete_edges *)
  Theorem C11_delete_edges_exact (f : lohg) ids : lwf f -> in_range (n_edges f) ids ->
    let h := lo_h f in
    let h' := spec_delete_edges_h h ids in
    (forall ids', same_set ids ids' ->
       spec_delete_edges_h h ids' = h' /\ lhg_delete_edges h ids' = lhg_delete_edges h ids) /\
    l_nodes h' = l_nodes h /\ l_q h' = l_q h /\
    (forall i k, i < n_edges f -> renum ids i = Some k ->
       nth_error (l_edges h') k = nth_error (l_edges h) i /\
       nth_error (l_adj h') k = nth_error (l_adj h) i) /\
    length (l_edges h') + length (nodup Nat.eq_dec ids) = n_edges f /\
    length (l_adj h') = length (l_edges h') /\
    lwf (mkLOHG (lo_sources f) (lo_targets f) h').
  Proof.
    intros Hwf Hr h h'. subst h h'. pose proof Hwf as ((Hadj & Hq0 & Hq1 & Hlen & Hql) & Hs & Ht).
    unfold n_edges in *.
    assert (Hra : in_range (length (l_adj (lo_h f))) (survivors (length (l_edges (lo_h f))) ids)).
    { rewrite <- Hlen. apply survivors_in_range. }
    repeat match goal with |- _ /\ _ => split end.
    - intros ids' Hss. rewrite (spec_delete_edges_same _ Hss). split; auto.
      assert (Hr' : in_range (length (l_edges (lo_h f))) ids').
      { apply Forall_forall. intros i Hi. apply Hss in Hi.
        unfold in_range in Hr. rewrite Forall_forall in Hr. auto. }
      rewrite !delete_edges_ok by auto. rewrite (spec_delete_edges_same _ Hss). reflexivity.
    - reflexivity.
    - reflexivity.
    - intros i k Hi Hk. unfold spec_delete_edges_h. cbn [l_edges l_adj].
      rewrite !select_nth_error; auto.
      + rewrite (renum_nth _ Hi Hk). split; reflexivity.
      + eapply renum_lt; eauto.
      + apply survivors_in_range.
      + eapply renum_lt; eauto.
    - unfold spec_delete_edges_h. cbn [l_edges].
      rewrite select_length by apply survivors_in_range. apply survivors_count. auto.
    - unfold spec_delete_edges_h. cbn [l_edges l_adj].
      rewrite !select_length; auto. apply survivors_in_range.
    - unfold lwf, hwf, n_nodes, spec_delete_edges_h.
      cbn [lo_h lo_sources lo_targets l_nodes l_edges l_adj l_q].
      repeat split; auto.
      + apply select_Forall. auto.
      + rewrite !select_length; auto. apply survivors_in_range.
  Qed.
End Exact.

(* ====================================================================== *)
(* Part 3.  Histories                                                      *)
(* ====================================================================== *)

Section History.
  Variables O A : Type.
  Notation lhg := (lhg O A).
  Notation lohg := (lohg O A).

  Inductive step :=
  | SNewNode (w : O)
  | SNewEdge (x : A) (s t : list nat)
  | SNewOperation (x : A) (st tt : list O)
  | SUnify (v w : nat)
  | SAddEdgeSource (e : nat) (w : O)
  | SAddEdgeTarget (e : nat) (w : O)
  | SDeleteNodes (ids : list nat)
  | SDeleteEdges (ids : list nat)
  | SMapNodes (g : O -> O)          (* relabel nodes *)
  | SMapEdges (g : A -> A)          (* relabel edges *)
  | SSetSources (s : list nat)      (* f.sources = s *)
  | SSetTargets (t : list nat).     (* f.targets = t *)

  Definition with_h (f : lohg) (h : lhg) : lohg := mkLOHG (lo_sources f) (lo_targets f) h.

  (* one builder call, by the MODEL functions (same shape as Run.Dispatch.lax_step) *)
  Definition do_step (f : lohg) (c : step) : res lohg :=
    let h := lo_h f in
    match c with
    | SNewNode w => Ok (with_h f (fst (lhg_new_node h w)))
    | SNewEdge x s t => Ok (with_h f (fst (lhg_new_edge h x (s, t))))
    | SNewOperation x st tu => Ok (with_h f (fst (lhg_new_operation h x st tu)))
    | SUnify v w => Ok (with_h f (lhg_unify h v w))
    | SAddEdgeSource e w => r <- lhg_add_edge_source h e w ;; Ok (with_h f (fst r))
    | SAddEdgeTarget e w => r <- lhg_add_edge_target h e w ;; Ok (with_h f (fst r))
    | SDeleteNodes ids => lohg_delete_nodes f ids
    | SDeleteEdges ids => h' <- lhg_delete_edges h ids ;; Ok (with_h f h')
    | SMapNodes g => Ok (with_h f (mkLHG (map g (l_nodes h)) (l_edges h) (l_adj h) (l_q h)))
    | SMapEdges g => Ok (with_h f (mkLHG (l_nodes h) (map g (l_edges h)) (l_adj h) (l_q h)))
    | SSetSources s => Ok (mkLOHG s (lo_targets f) h)
    | SSetTargets t => Ok (mkLOHG (lo_sources f) t h)
    end.

  Fixpoint run (f : lohg) (cs : list step) : res lohg :=
    match cs with
    | [] => Ok f
    | c :: cs' => f' <- do_step f c ;; run f' cs'
    end.

  (* the same call on the plain list-based specification; [None] = rejected *)
  Definition spec_step (f : lohg) (c : step) : option lohg :=
    let h := lo_h f in
    match c with
    | SNewNode w => Some (with_h f (spec_new_node h w))
    | SNewEdge x s t => Some (with_h f (spec_new_edge h x s t))
    | SNewOperation x st tu => Some (with_h f (spec_new_operation h x st tu))
    | SUnify v w => Some (with_h f (spec_unify h v w))
    | SAddEdgeSource e w =>
        if e <? length (l_adj h) then Some (with_h f (spec_add_edge_source h e w)) else None
    | SAddEdgeTarget e w =>
        if e <? length (l_adj h) then Some (with_h f (spec_add_edge_target h e w)) else None
    | SDeleteNodes ids =>
        if forallb (fun i => i <? n_nodes f) ids then Some (spec_delete_nodes f ids) else None
    | SDeleteEdges ids =>
        if forallb (fun i => i <? n_edges f) ids then Some (with_h f (spec_delete_edges_h h ids)) else None
    | SMapNodes g => Some (with_h f (mkLHG (map g (l_nodes h)) (l_edges h) (l_adj h) (l_q h)))
    | SMapEdges g => Some (with_h f (mkLHG (l_nodes h) (map g (l_edges h)) (l_adj h) (l_q h)))
    | SSetSources s => Some (mkLOHG s (lo_targets f) h)
    | SSetTargets t => Some (mkLOHG (lo_sources f) t h)
    end.

  Fixpoint spec_run (f : lohg) (cs : list step) : option lohg :=
    match cs with
    | [] => Some f
    | c :: cs' => match spec_step f c with Some f' => spec_run f' cs' | None => None end
    end.

  Definition of_option (o : option lohg) : res lohg :=
    match o with Some f => Ok f | None => Panic end.

  (* what the CLIENT must guarantee: node identifiers passed in are those of existing nodes
     (the builder itself does not check them) *)
  Definition step_pre (f : lohg) (c : step) : Prop :=
    match c with
    | SNewEdge _ s t => in_range (n_nodes f) s /\ in_range (n_nodes f) t
    | SUnify v w => v < n_nodes f /\ w < n_nodes f
    | SSetSources s => in_range (n_nodes f) s
    | SSetTargets t => in_range (n_nodes f) t
    | _ => True
    end.

  Fixpoint hist_pre (f : lohg) (cs : list step) : Prop :=
    match cs with
    | [] => True
    | c :: cs' => step_pre f c /\ forall f', do_step f c = Ok f' -> hist_pre f' cs'
    end.

  Lemma forallb_in_range n ids : forallb (fun i => i <? n) ids = true <-> in_range n ids.
  Proof.
    rewrite forallb_forall. unfold in_range. rewrite Forall_forall.
    split; intros H i Hi; specialize (H i Hi); apply Nat.ltb_lt; auto.
  Qed.

  Lemma forallb_out_of_range n ids :
    forallb (fun i => i <? n) ids = false <-> Exists (fun i => n <= i) ids.
  Proof.
    split.
    - intros H. destruct (in_range_dec n ids) as [Hr|He]; auto.
      apply forallb_in_range in Hr. congruence.
    - intros He. destruct (forallb (fun i => i <? n) ids) eqn:E; auto.
      apply forallb_in_range in E. exfalso. eapply in_range_not_Exists; eauto.
  Qed.

  (* every step of the model is the step of the specification *)
  Theorem C11_step_refines (f : lohg) (c : step) : lwf f ->
    do_step f c = of_option (spec_step f c).
  Proof.
    intros Hwf. pose proof Hwf as ((Hadj & Hq0 & Hq1 & Hlen & Hql) & Hs & Ht).
    destruct (C11_fresh_ids O A) as (Hnn & Hne & Hno & Hu).
    destruct c as [w|x s t|x st tu|v w|e w|e w|ids|ids|g|g|s|t]; cbn [do_step spec_step of_option].
    - rewrite Hnn. reflexivity.
    - rewrite Hne. reflexivity.
    - rewrite Hno. reflexivity.
    - rewrite Hu. reflexivity.
    - destruct (C11_add_edge (lo_h f) e w) as [Hok Hp].
      destruct (Nat.ltb_spec e (length (l_adj (lo_h f)))) as [Hlt|Hge].
      + destruct (Hok Hlt) as [-> _]. reflexivity.
      + destruct (Hp Hge) as [-> _]. reflexivity.
    - destruct (C11_add_edge (lo_h f) e w) as [Hok Hp].
      destruct (Nat.ltb_spec e (length (l_adj (lo_h f)))) as [Hlt|Hge].
      + destruct (Hok Hlt) as [_ ->]. reflexivity.
      + destruct (Hp Hge) as [_ ->]. reflexivity.
    - destruct (C11_delete_nodes_refines ids Hwf) as (Hok & Hp & _).
      destruct (forallb (fun i => i <? n_nodes f) ids) eqn:E.
      + apply forallb_in_range in E. destruct (Hok E) as (-> & _). reflexivity.
      + apply forallb_out_of_range in E. destruct (Hp E) as (-> & _). reflexivity.
    - destruct (forallb (fun i => i <? n_edges f) ids) eqn:E.
      + apply forallb_in_range in E. rewrite delete_edges_ok by auto. reflexivity.
      + apply forallb_out_of_range in E. rewrite delete_edges_panic by auto. reflexivity.
    - reflexivity.
    - reflexivity.
    - reflexivity.
    - reflexivity.
  Qed.

  (* every step preserves well-formedness *)
  Lemma spec_step_lwf (f f' : lohg) (c : step) :
    lwf f -> step_pre f c -> spec_step f c = Some f' -> lwf f'.
  Proof.
    intros Hwf Hpre Hst. pose proof Hwf as ((Hadj & Hq0 & Hq1 & Hlen & Hql) & Hs & Ht).
    unfold n_nodes in *.
    destruct c as [w|x s t|x st tu|v w|e w|e w|ids|ids|g|g|s|t]; cbn [spec_step step_pre] in *.
    - (* new_node *)
      inversion Hst; subst f'; clear Hst.
      unfold lwf, hwf, n_nodes, with_h, spec_new_node.
      cbn [lo_h lo_sources lo_targets l_nodes l_edges l_adj l_q].
      rewrite app_length. cbn [length].
      repeat split; auto; try (eapply in_range_mono; [|eassumption]; lia).
      eapply Forall_impl; [|exact Hadj]. intros e [H1 H2].
      split; (eapply in_range_mono; [|eassumption]; lia).
    - (* new_edge *)
      inversion Hst; subst f'; clear Hst. destruct Hpre as [Hps Hpt].
      unfold lwf, hwf, n_nodes, with_h, spec_new_edge.
      cbn [lo_h lo_sources lo_targets l_nodes l_edges l_adj l_q].
      repeat split; auto.
      + apply Forall_app. split; auto.
      + rewrite !app_length. cbn [length]. lia.
    - (* new_operation *)
      inversion Hst; subst f'; clear Hst.
      unfold lwf, hwf, n_nodes, with_h, spec_new_operation, spec_op_sources, spec_op_targets.
      cbn [lo_h lo_sources lo_targets l_nodes l_edges l_adj l_q].
      rewrite !app_length.
      repeat split; auto; try (eapply in_range_mono; [|eassumption]; lia).
      + apply Forall_app. split.
        * eapply Forall_impl; [|exact Hadj]. intros e [H1 H2].
          split; (eapply in_range_mono; [|eassumption]; lia).
        * constructor; [|constructor]. cbn [fst snd]. split; apply in_range_seq; lia.
    - (* unify *)
      inversion Hst; subst f'; clear Hst. destruct Hpre as [Hv Hw].
      unfold lwf, hwf, n_nodes, with_h, spec_unify.
      cbn [lo_h lo_sources lo_targets l_nodes l_edges l_adj l_q fst snd].
      repeat split; auto.
      + apply Forall_app. split; [auto | repeat constructor; exact Hv].
      + apply Forall_app. split; [auto | repeat constructor; exact Hw].
      + rewrite !app_length. cbn [length]. lia.
    - (* add_edge_source *)
      destruct (e <? length (l_adj (lo_h f))); try discriminate.
      inversion Hst; subst f'; clear Hst.
      unfold lwf, hwf, n_nodes, with_h, spec_add_edge_source.
      cbn [lo_h lo_sources lo_targets l_nodes l_edges l_adj l_q].
      rewrite app_length, upd_at_length. cbn [length].
      repeat split; auto; try (eapply in_range_mono; [|eassumption]; lia).
      eapply upd_at_Forall; [exact Hadj| |].
      + intros y [H1 H2]. split; (eapply in_range_mono; [|eassumption]; lia).
      + intros y [H1 H2]. cbn [fst snd]. split.
        * apply Forall_app. split. eapply in_range_mono; [|eassumption]; lia.
          constructor; [lia|constructor].
        * eapply in_range_mono; [|eassumption]; lia.
    - (* add_edge_target *)
      destruct (e <? length (l_adj (lo_h f))); try discriminate.
      inversion Hst; subst f'; clear Hst.
      unfold lwf, hwf, n_nodes, with_h, spec_add_edge_target.
      cbn [lo_h lo_sources lo_targets l_nodes l_edges l_adj l_q].
      rewrite app_length, upd_at_length. cbn [length].
      repeat split; auto; try (eapply in_range_mono; [|eassumption]; lia).
      eapply upd_at_Forall; [exact Hadj| |].
      + intros y [H1 H2]. split; (eapply in_range_mono; [|eassumption]; lia).
      + intros y [H1 H2]. cbn [fst snd]. split.
        * eapply in_range_mono; [|eassumption]; lia.
        * apply Forall_app. split. eapply in_range_mono; [|eassumption]; lia.
          constructor; [lia|constructor].
    - (* delete_nodes *)
      destruct (forallb (fun i => i <? n_nodes f) ids); try discriminate.
      inversion Hst; subst f'. apply spec_delete_nodes_lwf. auto.
    - (* delete_edges *)
      destruct (forallb (fun i => i <? n_edges f) ids) eqn:E; try discriminate.
      inversion Hst; subst f'. apply forallb_in_range in E.
      destruct (C11_delete_edges_exact Hwf E) as (_ & _ & _ & _ & _ & _ & H). exact H.
    - (* map_nodes *)
      inversion Hst; subst f'; clear Hst.
      unfold lwf, hwf, n_nodes, with_h. cbn [lo_h lo_sources lo_targets l_nodes l_edges l_adj l_q].
      rewrite map_length. repeat split; auto.
    - (* map_edges *)
      inversion Hst; subst f'; clear Hst.
      unfold lwf, hwf, n_nodes, with_h. cbn [lo_h lo_sources lo_targets l_nodes l_edges l_adj l_q].
      rewrite map_length. repeat split; auto.
    - inversion Hst; subst f'; clear Hst.
      unfold lwf, hwf, n_nodes. cbn [lo_h lo_sources lo_targets]. repeat split; auto.
    - inversion Hst; subst f'; clear Hst.
      unfold lwf, hwf, n_nodes. cbn [lo_h lo_sources lo_targets]. repeat split; auto.
  Qed.

  Theorem C11_lwf_preserved (f f' : lohg) (c : step) :
    lwf f -> step_pre f c -> do_step f c = Ok f' -> lwf f'.
  Proof.
    intros Hwf Hpre Hst. rewrite C11_step_refines in Hst by auto.
    destruct (spec_step f c) as [f''|] eqn:E; cbn [of_option] in Hst; inversion Hst; subst.
    eapply spec_step_lwf; eauto.
  Qed.

  Lemma lwf_empty : lwf (@lohg_empty O A).
  Proof. unfold lwf, hwf, n_nodes. cbn. repeat split; constructor. Qed.

  (* every state reachable by a history whose client-supplied identifiers are valid is well-formed *)
  Theorem C11_run_lwf (cs : list step) : forall f f',
    lwf f -> hist_pre f cs -> run f cs = Ok f' -> lwf f'.
  Proof.
    induction cs as [|c cs IH]; intros f f' Hwf Hpre Hrun; cbn [run hist_pre] in *.
    - inversion Hrun; subst. auto.
    - destruct Hpre as [Hc Hrest].
      destruct (do_step f c) as [f1| |] eqn:E; cbn [bind] in Hrun; try discriminate.
      eapply IH; [| |exact Hrun]; auto.
      eapply C11_lwf_preserved; eauto.
  Qed.

  Corollary C11_reachable_lwf (cs : list step) (f' : lohg) :
    hist_pre lohg_empty cs -> run lohg_empty cs = Ok f' -> lwf f'.
  Proof. apply C11_run_lwf. apply lwf_empty. Qed.

  (* the whole history: the model replays the plain list-based specification; it panics exactly
     when the specification rejects a step, and never runs out of fuel *)
  Theorem C11_run_refines (cs : list step) : forall f,
    lwf f -> hist_pre f cs -> run f cs = of_option (spec_run f cs).
  Proof.
    induction cs as [|c cs IH]; intros f Hwf Hpre; cbn [run spec_run hist_pre] in *.
    - reflexivity.
    - destruct Hpre as [Hc Hrest].
      pose proof (C11_step_refines c Hwf) as Hst.
      destruct (spec_step f c) as [f1|] eqn:E; cbn [of_option] in Hst; rewrite Hst; cbn [bind].
      + apply IH; auto. eapply spec_step_lwf; eauto.
      + reflexivity.
  Qed.

  Corollary C11_history (cs : list step) :
    hist_pre lohg_empty cs -> run lohg_empty cs = of_option (spec_run lohg_empty cs).
  Proof. apply C11_run_refines. apply lwf_empty. Qed.
End History.

(* ====================================================================== *)
(* Examples: the hypotheses are satisfiable, and what the theorems say on
   a concrete diagram                                                      *)
(* ====================================================================== *)

(* [ex_json]: nodes 10 11 12, one edge 7 : 0,1 -> 2, interface [0] -> [2], pending 1 ~ 2 *)
Example ex_lwf : lwf ex_json.
Proof. unfold lwf, hwf, n_nodes, in_range. cbn. repeat constructor. Qed.

Example ex_ids_in_range : in_range (n_nodes ex_json) [1; 1].
Proof. unfold in_range, n_nodes. cbn. repeat constructor. Qed.

(* deleting node 1 (named twice): the edge loses that source, the pending pair 1 ~ 2 disappears,
   node 2 becomes node 1 in the edge and in the interface *)
Example ex_delete_nodes_spec :
  spec_delete_nodes ex_json [1; 1]
  = mkLOHG [0] [1] (mkLHG [10; 12] [7] [([0], [1])] ([], [])) /\
  spec_witness (lo_h ex_json) [1; 1] = [Some 0; None; Some 1].
Proof. vm_compute. split; reflexivity. Qed.

Example ex_delete_nodes_model :
  lohg_delete_nodes ex_json [1; 1] = Ok (mkLOHG [0] [1] (mkLHG [10; 12] [7] [([0], [1])] ([], []))) /\
  lohg_delete_nodes ex_json [1; 1] = lohg_delete_nodes ex_json [1] /\
  lohg_delete_nodes ex_json [3] = Panic.
Proof. vm_compute. repeat split; reflexivity. Qed.

Example ex_delete_nodes_refines :
  lohg_delete_nodes ex_json [1; 1] = Ok (spec_delete_nodes ex_json [1; 1]).
Proof.
  destruct (C11_delete_nodes_refines [1; 1] ex_lwf) as (H & _).
  destruct (H ex_ids_in_range) as (E & _). exact E.
Qed.

Example ex_delete_edges :
  in_range (n_edges ex_json) [0; 0] /\
  lhg_delete_edges (lo_h ex_json) [0; 0] = Ok (mkLHG [10; 11; 12] [] [] ([1], [2])) /\
  spec_delete_edges_h (lo_h ex_json) [0; 0] = mkLHG [10; 11; 12] [] [] ([1], [2]) /\
  lhg_delete_edges (lo_h ex_json) [1] = Panic.
Proof. unfold in_range, n_edges. cbn. repeat split; repeat constructor. Qed.

(* fresh identifiers: the previous counts; sources first, then targets *)
Example ex_new_operation :
  lhg_new_operation (lo_h ex_json) 8 [20; 21] [22]
  = (mkLHG [10; 11; 12; 20; 21; 22] [7; 8] [([0; 1], [2]); ([3; 4], [5])] ([1], [2]),
     (1, ([3; 4], [5]))) /\
  lhg_new_node (lo_h ex_json) 13 = (mkLHG [10; 11; 12; 13] [7] [([0; 1], [2])] ([1], [2]), 3).
Proof. vm_compute. split; reflexivity. Qed.

Example ex_add_edge :
  0 < length (l_adj (lo_h ex_json)) /\
  lhg_add_edge_source (lo_h ex_json) 0 13
  = Ok (mkLHG [10; 11; 12; 13] [7] [([0; 1; 3], [2])] ([1], [2]), 3) /\
  lhg_add_edge_target (lo_h ex_json) 0 13
  = Ok (mkLHG [10; 11; 12; 13] [7] [([0; 1], [2; 3])] ([1], [2]), 3) /\
  lhg_add_edge_source (lo_h ex_json) 1 13 = Panic.
Proof. vm_compute. repeat split; auto. Qed.

(* a history from the empty diagram: an operation, an extra node, a unification, a new source
   for the edge, then a deletion of nodes (with a duplicate) after the edge and the unification,
   relabelling, new interfaces, and a deletion of edges *)
Definition ex_history : list (step nat nat) :=
  [ SNewOperation 7 [10; 11] [12];      (* nodes 0 1 2, edge 0 : 0,1 -> 2 *)
    SNewNode nat 13;                    (* node 3 *)
    SUnify nat nat 1 3;
    SAddEdgeSource nat 0 14;            (* node 4, edge 0 : 0,1,4 -> 2 *)
    SSetSources nat nat [0; 1; 4];
    SSetTargets nat nat [2; 3];
    SNewEdge nat 8 [2] [3];             (* edge 1 : 2 -> 3 *)
    SDeleteNodes nat nat [1; 1];        (* 0 2 3 4 become 0 1 2 3; the pair 1 ~ 3 is dropped *)
    SMapNodes nat (fun w => w + 100);
    SMapEdges nat (fun x => x + 1);
    SDeleteEdges nat nat [0] ].

Example ex_history_run :
  run lohg_empty ex_history
  = Ok (mkLOHG [0; 3] [1; 2] (mkLHG [110; 112; 113; 114] [9] [([1], [2])] ([], []))).
Proof. vm_compute. reflexivity. Qed.

Example ex_history_pre : hist_pre lohg_empty ex_history.
Proof.
  unfold ex_history.
  repeat (cbn [hist_pre step_pre]; split;
          [ try exact I; unfold in_range, n_nodes; cbn; repeat constructor
          | let f' := fresh "f'" in let H := fresh "H" in
            intros f' H; vm_compute in H; inversion H; subst f'; clear H ]).
  exact I.
Qed.

Example ex_history_lwf :
  lwf (mkLOHG [0; 3] [1; 2] (mkLHG [110; 112; 113; 114] [9] [([1], [2])] ([], []))).
Proof. exact (C11_reachable_lwf ex_history ex_history_pre ex_history_run). Qed.

Example ex_history_spec :
  spec_run lohg_empty ex_history
  = Some (mkLOHG [0; 3] [1; 2] (mkLHG [110; 112; 113; 114] [9] [([1], [2])] ([], []))).
Proof. vm_compute. reflexivity. Qed.

(* a history that is rejected: deleting a node that does not exist *)
Example ex_history_rejected :
  run lohg_empty [SNewNode nat 1; SDeleteNodes nat nat [1]] = Panic /\
  spec_run lohg_empty [SNewNode nat 1; SDeleteNodes nat nat [1]] = None.
Proof. vm_compute. split; reflexivity. Qed.

(* why the client precondition is needed: the builder accepts a dangling node reference, after
   which deleting any node panics although the identifier is in range *)
Example ex_dangling :
  run lohg_empty [SNewNode nat 1; SNewEdge nat 5 [7] []; SDeleteNodes nat nat [0]] = Panic /\
  ~ hist_pre lohg_empty [SNewNode nat 1; SNewEdge nat 5 [7] []; SDeleteNodes nat nat [0]].
Proof.
  split. vm_compute. reflexivity.
  cbn [hist_pre]. intros (_ & H). specialize (H _ eq_refl). destruct H as ((H & _) & _).
  unfold in_range, n_nodes in H. cbn in H. inversion H; subst. lia.
Qed.

(* ====================================================================== *)
(* Link with the dispatcher: [do_step] is the state part of [Run.Dispatch.lax_step],
   the function that is run against the Rust crate by the differential check            *)
(* ====================================================================== *)
Inductive cmd :=
| CNewNode (w : nat) | CNewEdge (x : nat) (s t : list nat) | CNewOperation (x : nat) (st tu : list nat)
| CUnify (v w : nat) | CAddEdgeSource (e w : nat) | CAddEdgeTarget (e w : nat)
| CDeleteNodes (ids : list nat) | CDeleteEdges (ids : list nat)
| CMapNodes (k : nat) | CMapEdges (k : nat) | CSetSources (s : list nat) | CSetTargets (t : list nat).

Definition enc_cmd (c : cmd) : sx :=
  match c with
  | CNewNode w => L [Sy "new_node"; N w]
  | CNewEdge x s t => L [Sy "new_edge"; N x; e_nats s; e_nats t]
  | CNewOperation x st tu => L [Sy "new_operation"; N x; e_nats st; e_nats tu]
  | CUnify v w => L [Sy "unify"; N v; N w]
  | CAddEdgeSource e w => L [Sy "add_edge_source"; N e; N w]
  | CAddEdgeTarget e w => L [Sy "add_edge_target"; N e; N w]
  | CDeleteNodes ids => L [Sy "delete_nodes"; e_nats ids]
  | CDeleteEdges ids => L [Sy "delete_edges"; e_nats ids]
  | CMapNodes k => L [Sy "map_nodes"; N k]
  | CMapEdges k => L [Sy "map_edges"; N k]
  | CSetSources s => L [Sy "set_sources"; e_nats s]
  | CSetTargets t => L [Sy "set_targets"; e_nats t]
  end%string.

Definition step_of_cmd (c : cmd) : step nat nat :=
  match c with
  | CNewNode w => SNewNode nat w
  | CNewEdge x s t => SNewEdge nat x s t
  | CNewOperation x st tu => SNewOperation x st tu
  | CUnify v w => SUnify nat nat v w
  | CAddEdgeSource e w => SAddEdgeSource nat e w
  | CAddEdgeTarget e w => SAddEdgeTarget nat e w
  | CDeleteNodes ids => SDeleteNodes nat nat ids
  | CDeleteEdges ids => SDeleteEdges nat nat ids
  | CMapNodes k => SMapNodes nat (fun w => w + k)
  | CMapEdges k => SMapEdges nat (fun x => x + k)
  | CSetSources s => SSetSources nat nat s
  | CSetTargets t => SSetTargets nat nat t
  end.

Lemma d_nats_e_nats l : d_nats (e_nats l) = Some l.
Proof.
  unfold d_nats, d_list, e_nats. induction l as [|x l IH]. reflexivity.
  cbn [map omap d_nat] in *. rewrite IH. reflexivity.
Qed.

Theorem C11_dispatch_link (f : lohg nat nat) (c : cmd) :
  rmap fst (lax_step f (enc_cmd c)) = do_step f (step_of_cmd c).
Proof.
  destruct c as [w|x s t|x st tu|v w|e w|e w|ids|ids|k|k|s|t];
    cbn [enc_cmd step_of_cmd do_step lax_step]; rewrite ?d_nats_e_nats.
  - reflexivity.
  - reflexivity.
  - destruct (lhg_new_operation (lo_h f) x st tu) as [h' [e [ss ts]]]. reflexivity.
  - reflexivity.
  - destruct (lhg_add_edge_source (lo_h f) e w) as [[h' i]| |]; reflexivity.
  - destruct (lhg_add_edge_target (lo_h f) e w) as [[h' i]| |]; reflexivity.
  - destruct (lohg_delete_nodes f ids); reflexivity.
  - destruct (lhg_delete_edges (lo_h f) ids); reflexivity.
  - reflexivity.
  - reflexivity.
  - reflexivity.
  - reflexivity.
Qed.

Print Assumptions C11_json_roundtrip.
Print Assumptions C11_json_fields.
Print Assumptions C11_json_print.
Print Assumptions C11_fresh_ids.
Print Assumptions C11_new_operation_ids.
Print Assumptions C11_ids_stay_valid.
Print Assumptions C11_add_edge.
Print Assumptions C11_add_edge_iff.
Print Assumptions C11_add_edge_effect.
Print Assumptions C11_delete_edges_refines.
Print Assumptions C11_delete_nodes_refines.
Print Assumptions C11_delete_nodes_rejects.
Print Assumptions C11_delete_nodes_panic_iff.
Print Assumptions C11_delete_exact.
Print Assumptions C11_delete_edges_exact.
Print Assumptions C11_step_refines.
Print Assumptions C11_lwf_preserved.
Print Assumptions C11_run_lwf.
Print Assumptions C11_reachable_lwf.
Print Assumptions C11_run_refines.
Print Assumptions C11_history.
Print Assumptions ex_history_lwf.
Print Assumptions C11_dispatch_link.
