(* Helper lemmas for property C12 (composition): positions inside the blocks of a size table. *)
From OHG Require Import Spec.Plain Proofs.PrimsThm Proofs.CCThm Proofs.SegThm Proofs.C08Thm
  Proofs.C01Lemmas Proofs.C12Lemmas Proofs.C12Plain.

Set Implicit Arguments.
Arguments Nat.sub : simpl never.

(* ---------- prefix sums are monotone ---------- *)
Lemma list_sum_firstn_mono sizes i j : i <= j -> list_sum (firstn i sizes) <= list_sum (firstn j sizes).
Proof.
  intros H. replace j with (i + (j - i)) by lia. rewrite firstn_add, list_sum_app. lia.
Qed.

Lemma block_end_le sizes v v' : v < v' ->
  list_sum (firstn v sizes) + nth v sizes 0 <= list_sum (firstn v' sizes).
Proof.
  intros H. destruct (lt_dec v (length sizes)) as [Hv|Hv].
  - rewrite <- list_sum_firstn_S by exact Hv. apply list_sum_firstn_mono. lia.
  - rewrite nth_overflow by lia. rewrite Nat.add_0_r. apply list_sum_firstn_mono. lia.
Qed.

(* every position below the total lies in exactly one block *)
Lemma block_decomp sizes : forall i, i < list_sum sizes ->
  exists v u, v < length sizes /\ u < nth v sizes 0 /\ i = list_sum (firstn v sizes) + u.
Proof.
  induction sizes as [|x s IH]; intros i Hi; cbn [list_sum fold_right] in Hi. lia.
  fold (list_sum s) in Hi. destruct (lt_dec i x) as [H1|H1].
  - exists 0, i. cbn. split; [lia|]. split; [exact H1|reflexivity].
  - destruct (IH (i - x)) as (v & u & Hv & Hu & E). lia.
    exists (S v), u. cbn [length nth firstn]. split; [lia|]. split; [exact Hu|].
    change (list_sum (x :: firstn v s)) with (x + list_sum (firstn v s)). lia.
Qed.

Lemma block_unique sizes v u v' u' :
  u < nth v sizes 0 -> u' < nth v' sizes 0 ->
  list_sum (firstn v sizes) + u = list_sum (firstn v' sizes) + u' -> v = v' /\ u = u'.
Proof.
  intros Hu Hu' E.
  destruct (lt_eq_lt_dec v v') as [[H|H]|H].
  - pose proof (block_end_le sizes H). lia.
  - subst v'. split; [reflexivity|lia].
  - pose proof (block_end_le sizes H). lia.
Qed.

(* ---------- reading a concatenation of blocks ---------- *)
Lemma nth_firstn_gen {T} (l : list T) d : forall k u, u < k -> nth u (firstn k l) d = nth u l d.
Proof.
  induction l as [|x l IH]; intros [|k] [|u] H; cbn [firstn nth]; try lia; try reflexivity.
  apply IH. lia.
Qed.

Lemma nth_skipn_gen {T} (l : list T) d : forall a u, nth u (skipn a l) d = nth (a + u) l d.
Proof.
  induction l as [|x l IH]; intros [|a] u; cbn [skipn plus nth]; try reflexivity.
  - destruct u; reflexivity.
  - apply IH.
Qed.

Lemma nth_error_firstn_gen {T} (l : list T) : forall k u, u < k ->
  nth_error (firstn k l) u = nth_error l u.
Proof.
  induction l as [|x l IH]; intros [|k] [|u] H; cbn [firstn nth_error]; try lia; try reflexivity.
  apply IH. lia.
Qed.

Lemma nth_error_skipn_gen {T} (l : list T) : forall a u, nth_error (skipn a l) u = nth_error l (a + u).
Proof.
  induction l as [|x l IH]; intros [|a] u; cbn [skipn plus nth_error]; try reflexivity.
  - destruct u; reflexivity.
  - apply IH.
Qed.

Lemma nth_firstn_skipn {T} (W : list T) a k u d : u < k ->
  nth u (firstn k (skipn a W)) d = nth (a + u) W d.
Proof. intros H. rewrite nth_firstn_gen by exact H. apply nth_skipn_gen. Qed.

Lemma nth_error_firstn_skipn {T} (W : list T) a k u : u < k ->
  nth_error (firstn k (skipn a W)) u = nth_error W (a + u).
Proof. intros H. rewrite nth_error_firstn_gen by exact H. apply nth_error_skipn_gen. Qed.

Lemma nth_flat_blocks (blk : nat -> list nat) sizes v u :
  (forall j, j < length sizes -> length (blk j) = nth j sizes 0) ->
  v < length sizes -> u < nth v sizes 0 ->
  nth (list_sum (firstn v sizes) + u) (flat_map blk (seq 0 (length sizes))) 0 = nth u (blk v) 0.
Proof.
  intros Hlen Hv Hu. rewrite flat_map_concat_map.
  set (ls := map blk (seq 0 (length sizes))).
  assert (Els : map (@length nat) ls = sizes).
  { unfold ls. rewrite map_map. rewrite <- (map_nth_seq sizes 0) at 2.
    apply map_ext_in. intros j Hj. apply in_seq in Hj. apply Hlen. lia. }
  rewrite <- (nth_firstn_skipn (concat ls) (list_sum (firstn v sizes)) (k := nth v sizes 0) 0 Hu).
  rewrite <- SegThm.segs_nth. rewrite <- Els at 1. rewrite segs_of_concat.
  unfold ls. rewrite nth_indep with (d' := blk 0) by (rewrite map_length, seq_length; exact Hv).
  rewrite map_nth. rewrite seq_nth by exact Hv. reflexivity.
Qed.

Lemma map_seq_affine (g : nat -> nat) c k : forall a,
  (forall u, u < k -> g (a + u) = c + u) -> map g (seq a k) = seq c k.
Proof.
  revert c. induction k as [|k IH]; intros c a H; cbn [seq map]. reflexivity.
  f_equal.
  - specialize (H 0 ltac:(lia)). rewrite !Nat.add_0_r in H. exact H.
  - apply IH. intros u Hu. specialize (H (S u) ltac:(lia)).
    replace (S a + u) with (a + S u) by lia. rewrite H. lia.
Qed.

(* ---------- zipping two block expansions with matching block sizes ---------- *)
Lemma combine_seq_seq a b k : combine (seq a k) (seq b k) = map (fun u => (a + u, b + u)) (seq 0 k).
Proof.
  revert a b. induction k as [|k IH]; intros a b; cbn [seq combine map]. reflexivity.
  rewrite !Nat.add_0_r. f_equal. rewrite IH. rewrite <- seq_shift, map_map.
  apply map_ext. intros u. f_equal; lia.
Qed.

Lemma in_combine_inj_tables sizes : forall l1 l2 x y,
  Forall2 (fun a b => nth a sizes 0 = nth b sizes 0) l1 l2 ->
  (In (x, y) (combine (inj_table sizes l1) (inj_table sizes l2)) <->
   exists a b u, In (a, b) (combine l1 l2) /\ u < nth a sizes 0 /\
                 x = list_sum (firstn a sizes) + u /\ y = list_sum (firstn b sizes) + u).
Proof.
  intros l1 l2 x y H. induction H as [|a b l1 l2 Hab H IH].
  - cbn. split; [tauto|]. intros (a & b & u & [] & _).
  - unfold inj_table. cbn [flat_map combine]. fold (inj_table sizes l1). fold (inj_table sizes l2).
    rewrite combine_app by (rewrite !seq_length; exact Hab).
    rewrite in_app_iff, IH. rewrite <- Hab, combine_seq_seq. split.
    + intros [Hin|(a' & b' & u & Hin & Hu & -> & ->)].
      * apply in_map_iff in Hin. destruct Hin as (u & E & Hu). apply in_seq in Hu.
        inversion E; subst. exists a, b, u. split; [left; reflexivity|]. split; [lia|]. auto.
      * exists a', b', u. split; [right; exact Hin|]. auto.
    + intros (a' & b' & u & [E|Hin] & Hu & -> & ->).
      * inversion E; subst. left. apply in_map_iff. exists u. split; [reflexivity|].
        apply in_seq. lia.
      * right. exists a', b', u. auto.
Qed.

(* ---------- the labels of an expanded list ---------- *)
Lemma expand_types {T} (fw : ic (list T)) l : wf_ics fw ->
  map (nth_error (ic_values fw)) (expand fw l) =
  map Some (flat_map (fun v => nth v (decode_s fw) []) l).
Proof.
  intros [_ Hsum]. unfold expand, inj_table, decode_s.
  induction l as [|v l IH]; cbn [flat_map map]. reflexivity.
  rewrite !map_app, IH. f_equal. rewrite SegThm.segs_nth.
  set (a := list_sum (firstn v (table (ic_sources fw)))). set (k := nth v (table (ic_sources fw)) 0).
  assert (Hle : a + k <= length (ic_values fw)).
  { rewrite <- Hsum. apply prefix_plus_size_le. }
  apply C01Lemmas.nth_error_ext. intros u. rewrite !nth_error_map.
  destruct (lt_dec u k) as [Hu|Hu].
  - rewrite (nth_error_nth' (seq a k) 0) by (rewrite seq_length; exact Hu).
    rewrite seq_nth by exact Hu. cbn [option_map].
    rewrite nth_error_firstn_skipn by exact Hu.
    destruct (nth_error (ic_values fw) (a + u)) as [x|] eqn:E; [reflexivity|].
    apply nth_error_None in E. lia.
  - replace (nth_error (seq a k) u) with (@None nat)
      by (symmetry; apply nth_error_None; rewrite seq_length; lia).
    replace (nth_error (firstn k (skipn a (ic_values fw))) u) with (@None T).
    reflexivity. symmetry. apply nth_error_None. rewrite firstn_length, skipn_length. lia.
Qed.

Lemma block_size {T} (fw : ic (list T)) v : wf_ics fw ->
  length (nth v (decode_s fw) []) = nth v (table (ic_sources fw)) 0.
Proof. intros [_ Hsum]. unfold decode_s. apply segs_nth_length. lia. Qed.

(* ---------- the blockwise map induced by a map of block indices ---------- *)
Section BlockMap.
  Variables (sizes1 sizes2 : list nat) (qf : nat -> nat).
  Hypothesis Hq_lt : forall v, v < length sizes1 -> qf v < length sizes2.
  Hypothesis Hq_sz : forall v, v < length sizes1 -> nth (qf v) sizes2 0 = nth v sizes1 0.

  Definition bqW (i : nat) : nat := nth i (inj_table sizes2 (map qf (seq 0 (length sizes1)))) 0.

  Lemma bqW_block v u : v < length sizes1 -> u < nth v sizes1 0 ->
    bqW (list_sum (firstn v sizes1) + u) = list_sum (firstn (qf v) sizes2) + u.
  Proof.
    intros Hv Hu. unfold bqW, inj_table. rewrite flat_map_concat_map, map_map, <- flat_map_concat_map.
    rewrite (nth_flat_blocks (fun v => seq (list_sum (firstn (qf v) sizes2)) (nth (qf v) sizes2 0))
               sizes1 (v := v) (u := u)).
    - apply seq_nth. rewrite Hq_sz by exact Hv. exact Hu.
    - intros j Hj. rewrite seq_length. apply Hq_sz. exact Hj.
    - exact Hv.
    - exact Hu.
  Qed.

  Lemma bqW_expand l : all_lt (length sizes1) l ->
    inj_table sizes2 (map qf l) = map bqW (inj_table sizes1 l).
  Proof.
    unfold inj_table, all_lt. induction l as [|v l IH]; intros H; cbn [map flat_map]. reflexivity.
    inversion H as [|v' l' Hv Hl]; subst. rewrite map_app, IH by exact Hl. f_equal.
    symmetry. rewrite Hq_sz by exact Hv. apply map_seq_affine. intros u Hu. apply bqW_block; assumption.
  Qed.

  Lemma bqW_lt i : i < list_sum sizes1 -> bqW i < list_sum sizes2.
  Proof.
    intros Hi. destruct (block_decomp sizes1 Hi) as (v & u & Hv & Hu & ->).
    rewrite bqW_block by assumption.
    pose proof (prefix_plus_size_le sizes2 (qf v)). rewrite Hq_sz in H by exact Hv. lia.
  Qed.

  Lemma bqW_surj : (forall j, j < length sizes2 -> exists v, v < length sizes1 /\ qf v = j) ->
    forall j, j < list_sum sizes2 -> exists i, i < list_sum sizes1 /\ bqW i = j.
  Proof.
    intros Hs j Hj. destruct (block_decomp sizes2 Hj) as (v2 & u & Hv2 & Hu & ->).
    destruct (Hs v2 Hv2) as (v & Hv & <-). rewrite Hq_sz in Hu by exact Hv.
    exists (list_sum (firstn v sizes1) + u). split.
    - pose proof (prefix_plus_size_le sizes1 v). lia.
    - apply bqW_block; assumption.
  Qed.

  Lemma bqW_inj i j : i < list_sum sizes1 -> j < list_sum sizes1 -> bqW i = bqW j ->
    exists v v' u, v < length sizes1 /\ v' < length sizes1 /\ u < nth v sizes1 0 /\
      qf v = qf v' /\ i = list_sum (firstn v sizes1) + u /\ j = list_sum (firstn v' sizes1) + u.
  Proof.
    intros Hi Hj E.
    destruct (block_decomp sizes1 Hi) as (v & u & Hv & Hu & ->).
    destruct (block_decomp sizes1 Hj) as (v' & u' & Hv' & Hu' & ->).
    rewrite !bqW_block in E by assumption.
    destruct (@block_unique sizes2 (qf v) u (qf v') u') as [E1 E2].
    - rewrite Hq_sz by exact Hv. exact Hu.
    - rewrite Hq_sz by exact Hv'. exact Hu'.
    - exact E.
    - subst u'. exists v, v', u. repeat split; assumption.
  Qed.
End BlockMap.
