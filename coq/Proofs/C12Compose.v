(* Property C12, preservation of composition: for a functor whose object map is a function F of the
   node label, the image of f ; g (over the object data of the composite) is the composite of the
   images up to a renumbering of nodes. *)
From OHG Require Import Spec.Plain Proofs.PrimsThm Proofs.CCThm Proofs.SegThm Proofs.C08Thm
  Proofs.C01Lemmas Proofs.C01Thm Proofs.BackendInst Proofs.C12Lemmas Proofs.C12Plain Proofs.C12Thm
  Proofs.C12Struct Proofs.C12Tensor Proofs.C12Blocks.

Set Implicit Arguments.
Arguments Nat.sub : simpl never.

(* ---------- list facts ---------- *)
Lemma in_combine_map_same {X Y} (g : X -> Y) (a b : Y) (l1 l2 : list X) :
  In (a, b) (combine (map g l1) (map g l2)) <->
  exists x y, In (x, y) (combine l1 l2) /\ a = g x /\ b = g y.
Proof.
  rewrite in_combine_map_r. split.
  - intros (y & -> & Hin). apply in_combine_map_l in Hin. destruct Hin as (x & -> & Hin).
    exists x, y. auto.
  - intros (x & y & Hin & -> & ->). exists y. split; [reflexivity|].
    apply in_combine_map_l. exists x. auto.
Qed.

Lemma Forall2_of_map_eq {X Y Z} (g1 : X -> Z) (g2 : Y -> Z) : forall l1 l2,
  map g1 l1 = map g2 l2 -> Forall2 (fun a b => g1 a = g2 b) l1 l2.
Proof.
  induction l1 as [|a l1 IH]; intros [|b l2] H; cbn [map] in H; try discriminate; constructor.
  - injection H as H1 H2. exact H1.
  - apply IH. injection H as H1 H2. exact H2.
Qed.

Lemma Forall2_imp {X Y} (P Q : X -> Y -> Prop) l1 l2 :
  (forall a b, P a b -> Q a b) -> Forall2 P l1 l2 -> Forall2 Q l1 l2.
Proof. intros H F. induction F; constructor; auto. Qed.

Lemma Forall2_combine_In {X Y} (P : X -> Y -> Prop) l1 l2 a b :
  Forall2 P l1 l2 -> In (a, b) (combine l1 l2) -> P a b.
Proof.
  intros H. induction H as [|x y l1 l2 Hxy H IH]; cbn [combine In]. tauto.
  intros [E|Hin]; [inversion E; subst; exact Hxy|auto].
Qed.

Lemma app_eq_length_inv {X} (l1 l2 m1 m2 : list X) :
  l1 ++ l2 = m1 ++ m2 -> length l1 = length m1 -> l1 = m1 /\ l2 = m2.
Proof.
  revert m1; induction l1 as [|x l1 IH]; intros [|y m1] H Hl; cbn [length] in Hl; try lia.
  - auto.
  - cbn [app] in H. inversion H; subst. destruct (IH m1 H2 ltac:(lia)) as [-> ->]. auto.
Qed.

Lemma nth_map_of_nth_error {X Y} (F : X -> list Y) (l : list X) i :
  nth i (map F l) [] = match nth_error l i with Some o => F o | None => [] end.
Proof.
  revert i; induction l as [|x l IH]; intros [|i]; cbn [map nth nth_error]; auto.
Qed.

(* ---------- a quotient of a quotient is one quotient ---------- *)
Section QuotQuot.
  Variables O A : Type.
  Implicit Types D c : pohg O A.

  Theorem quot_quot D (c1 : pohg O A) c q1 q2 P1 G0 G :
    IsQuot D q1 c1 -> pairs_lt (length (p_nodes D)) P1 ->
    (forall i j, i < length (p_nodes D) -> j < length (p_nodes D) -> (q1 i = q1 j <-> conn P1 i j)) ->
    IsQuot c1 q2 c -> pairs_lt (length (p_nodes c1)) G ->
    (forall i j, i < length (p_nodes c1) -> j < length (p_nodes c1) -> (q2 i = q2 j <-> conn G i j)) ->
    (forall x y, In (x, y) G0 ->
       x < length (p_nodes D) /\ y < length (p_nodes D) /\ In (q1 x, q1 y) G) ->
    (forall a b, In (a, b) G -> exists x y, In (x, y) G0 /\ a = q1 x /\ b = q1 y) ->
    IsQuot D (fun i => q2 (q1 i)) c /\
    forall i j, i < length (p_nodes D) -> j < length (p_nodes D) ->
      (q2 (q1 i) = q2 (q1 j) <-> conn (P1 ++ G0) i j).
  Proof.
    intros (R1 & S1 & L1 & E1 & I1 & O1') HP1 K1 (R2 & S2 & L2 & E2 & I2 & O2') HG K2 HG0 HGinv.
    split.
    - unfold IsQuot. split; [|split; [|split; [|split; [|split]]]].
      + intros i Hi. apply R2. apply R1. exact Hi.
      + intros j Hj. destruct (S2 j Hj) as (y & Hy & <-). destruct (S1 y Hy) as (i & Hi & <-).
        exists i. auto.
      + intros i Hi. rewrite L2 by (apply R1; exact Hi). apply L1. exact Hi.
      + rewrite E2, E1, map_map. apply map_ext. intros e. unfold map_edge. cbn [pe_lbl pe_src pe_tgt].
        rewrite !map_map. reflexivity.
      + rewrite I2, I1, map_map. reflexivity.
      + rewrite O2', O1', map_map. reflexivity.
    - intros i j Hi Hj. split.
      + intros Eq. apply K2 in Eq; try (apply R1; assumption).
        assert (Hlift : forall a b, conn G a b -> a < length (p_nodes c1) -> b < length (p_nodes c1) ->
                  forall i' j', i' < length (p_nodes D) -> j' < length (p_nodes D) ->
                  q1 i' = a -> q1 j' = b -> conn (P1 ++ G0) i' j').
        { clear i j Hi Hj Eq. intros a b Hab.
          induction Hab as [a|a b Hin|a b Hab IH|a y b Hay IH1 Hyb IH2]; intros Ha Hb i j Hi Hj Ei Ej.
          - apply conn_app_l. apply K1; try assumption. congruence.
          - destruct (HGinv a b Hin) as (x & y & Hxy & -> & ->).
            destruct (HG0 x y Hxy) as (Hx & Hy & _).
            apply conn_trans with (y := x); [apply conn_app_l; apply K1; assumption|].
            apply conn_trans with (y := y); [apply conn_app_r; apply conn_step; exact Hxy|].
            apply conn_app_l. apply K1; try assumption. congruence.
          - apply conn_sym. apply IH; assumption.
          - assert (Hy : y < length (p_nodes c1)).
            { destruct (conn_bounded HG Hay) as [<-|[_ Hy]]; assumption. }
            destruct (S1 y Hy) as (m & Hm & Em).
            apply conn_trans with (y := m); [apply IH1|apply IH2]; assumption. }
        apply (Hlift _ _ Eq); try (apply R1; assumption); auto.
      + revert i j Hi Hj.
        assert (Himpl : forall i j, conn (P1 ++ G0) i j -> q2 (q1 i) = q2 (q1 j)).
        { apply (@conn_glue_impl (P1 ++ G0) (fun x y => q2 (q1 x) = q2 (q1 y))); try congruence.
          intros x y Hin. apply in_app_or in Hin. destruct Hin as [Hin|Hin].
          - unfold pairs_lt in HP1. rewrite Forall_forall in HP1.
            destruct (HP1 _ Hin) as [Hx Hy]. cbn [fst snd] in Hx, Hy.
            f_equal. apply K1; try assumption. apply conn_step. exact Hin.
          - destruct (HG0 x y Hin) as (Hx & Hy & HinG).
            apply K2; try (apply R1; assumption). apply conn_step. exact HinG. }
        intros i j _ _. apply Himpl.
  Qed.

  (* changing the interfaces of a quotient *)
  Lemma quot_reinterface D q h ins outs :
    IsQuot D q h ->
    IsQuot (mkP (p_nodes D) (p_edges D) ins outs) q (mkP (p_nodes h) (p_edges h) (map q ins) (map q outs)).
  Proof. intros (R & S & L & E & _ & _). repeat split; assumption. Qed.
End QuotQuot.

Lemma decode_coprod {T} (c d : ic (list T)) : wf_ics c ->
  decode_s (coprod_pure c d) = decode_s c ++ decode_s d.
Proof.
  intros [_ C2]. unfold decode_s. cbn [coprod_pure ic_sources ic_values table].
  apply SegThm.segs_app. exact C2.
Qed.

Lemma decode_len {T} (c : ic (list T)) : length (decode_s c) = ic_len c.
Proof. unfold decode_s, ic_len, ff_source. apply SegThm.segs_length. Qed.

(* ---------- the composite ---------- *)
Section Compose.
  Variable B : Backend.
  Hypothesis OK : BackendOK B.
  Variables O1 A1 O2 A2 : Type.
  Variable eqO2 : O2 -> O2 -> bool.
  Hypothesis eqO2_spec : forall x y, eqO2 x y = true <-> x = y.
  Variable F : O1 -> list O2.

  Variables (f g : ohg O1 A1) (fwf fwg fw : ic (list O2)) (fxf fxg : ohg O2 A2) (u : list O1).
  Hypothesis Hf : wf_ohg f.
  Hypothesis Hg : wf_ohg g.
  Hypothesis Hty : tgt_type (abs f) = src_type (abs g).
  Hypothesis Hwf : wf_ics fwf.
  Hypothesis Hdf : decode_s fwf = map F (h_w (o_h f)).
  Hypothesis Hfxf : wf_ohg fxf.
  Hypothesis Htyf : fx_typed f fwf fxf.
  Hypothesis Hwg : wf_ics fwg.
  Hypothesis Hdg : decode_s fwg = map F (h_w (o_h g)).
  Hypothesis Hfxg : wf_ohg fxg.
  Hypothesis Htyg : fx_typed g fwg fxg.
  Hypothesis Hu : length u = qk B f g.
  Hypothesis Hkey : forall i, i < length (h_w (o_h f)) + length (h_w (o_h g)) ->
    nth_error u (qfun B f g i) = nth_error (h_w (o_h f) ++ h_w (o_h g)) i.
  Hypothesis Hw : wf_ics fw.
  Hypothesis Hd : decode_s fw = map F u.

  Let nf := length (h_w (o_h f)).
  Let ng := length (h_w (o_h g)).
  Let fw' := coprod_pure fwf fwg.
  Let fx := tensor_pure fxf fxg.
  Let fg := compose_pure B f g u.
  Let sizes' := table (ic_sources fw').
  Let sizes_c := table (ic_sources fw).
  Let q := qfun B f g.

  Lemma Hlenf : ic_len fwf = nf.
  Proof. rewrite <- decode_len, Hdf, map_length. reflexivity. Qed.
  Lemma Hleng : ic_len fwg = ng.
  Proof. rewrite <- decode_len, Hdg, map_length. reflexivity. Qed.
  Lemma Hlenc : ic_len fw = qk B f g.
  Proof. rewrite <- decode_len, Hd, map_length. exact Hu. Qed.

  Lemma decode_fw' : decode_s fw' = map F (h_w (o_h f) ++ h_w (o_h g)).
  Proof. unfold fw'. rewrite decode_coprod by exact Hwf. rewrite Hdf, Hdg, map_app. reflexivity. Qed.

  Lemma Hfw' : wf_ics fw'.
  Proof. apply wf_coprod_pure; assumption. Qed.

  Lemma len_sizes' : length sizes' = nf + ng.
  Proof.
    unfold sizes'. change (length (table (ic_sources fw'))) with (ic_len fw').
    unfold fw'. rewrite ic_len_coprod, Hlenf, Hleng. reflexivity.
  Qed.

  Lemma len_sizes_c : length sizes_c = qk B f g.
  Proof. exact Hlenc. Qed.

  Lemma Hlen_ts : length (table (o_t f)) = length (table (o_s g)).
  Proof. apply type_eq_length. exact Hty. Qed.

  Lemma Hq_lt : forall v, v < length sizes' -> q v < length sizes_c.
  Proof.
    intros v Hv. rewrite len_sizes' in Hv. rewrite len_sizes_c.
    apply (qfun_lt OK Hf Hg Hlen_ts). exact Hv.
  Qed.

  Lemma blocks_eq : forall v, v < nf + ng -> nth (q v) (decode_s fw) [] = nth v (decode_s fw') [].
  Proof.
    intros v Hv. rewrite Hd, decode_fw', !nth_map_of_nth_error. unfold q. rewrite Hkey by exact Hv.
    reflexivity.
  Qed.

  Lemma Hq_sz : forall v, v < length sizes' -> nth (q v) sizes_c 0 = nth v sizes' 0.
  Proof.
    intros v Hv. rewrite len_sizes' in Hv. unfold sizes_c, sizes'.
    rewrite <- (block_size (q v) Hw), <- (block_size v Hfw'). rewrite blocks_eq by exact Hv. reflexivity.
  Qed.

  Lemma Hq_surj : forall j, j < length sizes_c -> exists v, v < length sizes' /\ q v = j.
  Proof.
    intros j Hj. rewrite len_sizes_c in Hj. rewrite len_sizes'.
    destruct (cc_facts OK Hf Hg Hlen_ts) as (Hc1 & _ & Hc3 & _).
    destruct (In_nth _ _ 0 (Hc3 j Hj)) as (i & Hi & E). exists i. split; [|exact E].
    rewrite Hc1 in Hi. fold nf ng. lia.
  Qed.

  Lemma Hq_ker : forall i j, i < nf + ng -> j < nf + ng ->
    (q i = q j <-> conn (glue_pairs (abs f) (abs g)) i j).
  Proof.
    intros i j Hi Hj. destruct (cc_facts OK Hf Hg Hlen_ts) as (_ & _ & _ & Hc4).
    apply Hc4; fold nf ng; lia.
  Qed.
  (* ---------- the blockwise renumbering of the mapped objects ---------- *)
  Let N' := length (ic_values fw').
  Let Nc := length (ic_values fw).
  Let M := length (h_w (o_h fx)).
  Let bq := bqW sizes' sizes_c q.
  Definition bq' (i : nat) : nat := if i <? N' then bq i else (i - N') + Nc.

  Lemma sum_sizes' : list_sum sizes' = N'.
  Proof. apply Hfw'. Qed.
  Lemma sum_sizes_c : list_sum sizes_c = Nc.
  Proof. apply Hw. Qed.

  Lemma bq'_lo i : i < N' -> bq' i = bq i.
  Proof. intros H. unfold bq'. replace (i <? N') with true by (symmetry; apply Nat.ltb_lt; lia). reflexivity. Qed.
  Lemma bq'_hi x : bq' (x + N') = x + Nc.
  Proof.
    unfold bq'. replace (x + N' <? N') with false by (symmetry; apply Nat.ltb_ge; lia). lia.
  Qed.

  Lemma bq_lt i : i < N' -> bq i < Nc.
  Proof. intros H. rewrite <- sum_sizes_c. apply (bqW_lt _ _ _ Hq_sz). rewrite sum_sizes'. exact H. Qed.

  Lemma bq_block v u0 : v < nf + ng -> u0 < nth v sizes' 0 ->
    bq (list_sum (firstn v sizes') + u0) = list_sum (firstn (q v) sizes_c) + u0.
  Proof. intros Hv Hu0. apply (bqW_block _ _ _ Hq_sz). rewrite len_sizes'. exact Hv. exact Hu0. Qed.

  Lemma bq_labels i : i < N' -> nth_error (ic_values fw) (bq i) = nth_error (ic_values fw') i.
  Proof.
    intros Hi. rewrite <- sum_sizes' in Hi.
    destruct (block_decomp sizes' Hi) as (v & u0 & Hv & Hu0 & ->). rewrite len_sizes' in Hv.
    rewrite bq_block by assumption.
    pose proof (blocks_eq Hv) as E. unfold decode_s in E. rewrite !SegThm.segs_nth in E.
    fold sizes_c sizes' in E. rewrite Hq_sz in E by (rewrite len_sizes'; exact Hv).
    apply (f_equal (fun l => nth_error l u0)) in E.
    rewrite !nth_error_firstn_skipn in E by exact Hu0. exact E.
  Qed.

  Lemma bq_expand l : all_lt (nf + ng) l -> expand fw (map q l) = map bq' (expand fw' l).
  Proof.
    intros Hl. unfold expand. fold sizes_c sizes'.
    rewrite (bqW_expand _ _ _ Hq_sz) by (rewrite len_sizes'; exact Hl). fold bq.
    apply map_ext_in. intros a Ha. symmetry. apply bq'_lo.
    rewrite <- sum_sizes'. eapply all_lt_In; [apply inj_table_lt|exact Ha].
  Qed.

  (* the interfaces of the join: inputs of f, outputs of g *)
  Definition fJ : ohg O1 A1 :=
    mkOHG (mkFF (table (o_s f)) (nf + ng)) (mkFF (add_scalar nf (table (o_t g))) (nf + ng)) (o_h f).
  Definition DJ : pohg O2 A2 := subst_D fJ fw' fx.

  Lemma f_bounds :
    all_lt (nf + ng) (table (o_s f)) /\ all_lt (nf + ng) (add_scalar nf (table (o_t g))) /\
    all_lt (nf + ng) (table (o_t f)) /\ all_lt (nf + ng) (add_scalar nf (table (o_s g))).
  Proof.
    destruct Hf as (_ & Hi & Ho & Hit & Hot). destruct Hg as (_ & Hi' & Ho' & Hit' & Hot').
    unfold wf_ff in *. rewrite Hit in Hi. rewrite Hot in Ho. rewrite Hit' in Hi'. rewrite Hot' in Ho'.
    repeat split.
    - eapply C01Lemmas.all_lt_mono; [|exact Hi]. fold nf. lia.
    - apply all_lt_shiftl. exact Ho'.
    - eapply C01Lemmas.all_lt_mono; [|exact Ho]. fold nf. lia.
    - apply all_lt_shiftl. exact Hi'.
  Qed.

  Lemma quot_DJ : IsQuot DJ bq' (subst_D fg fw fx).
  Proof.
    destruct f_bounds as (HS & HT & _ & _).
    unfold IsQuot, DJ, subst_D, fJ, fg, compose_pure.
    cbn [p_nodes p_edges p_ins p_outs o_s o_t table]. rewrite !app_length.
    fold N' Nc M q. split; [|split; [|split; [|split; [|split]]]].
    - intros i Hi. destruct (lt_dec i N') as [H1|H1].
      + rewrite bq'_lo by exact H1. pose proof (bq_lt H1). lia.
      + replace i with ((i - N') + N') by lia. rewrite bq'_hi. lia.
    - intros j Hj. destruct (lt_dec j Nc) as [H1|H1].
      + rewrite <- sum_sizes_c in H1.
        destruct (bqW_surj _ _ _ Hq_sz Hq_surj H1) as (i & Hi & E). rewrite sum_sizes' in Hi.
        exists i. split; [lia|]. rewrite bq'_lo by exact Hi. exact E.
      + exists ((j - Nc) + N'). split; [lia|]. rewrite bq'_hi. lia.
    - intros i Hi. destruct (lt_dec i N') as [H1|H1].
      + rewrite bq'_lo by exact H1. rewrite nth_error_app1 by (apply bq_lt; exact H1).
        rewrite nth_error_app1 by exact H1. apply bq_labels. exact H1.
      + replace i with ((i - N') + N') by lia. rewrite bq'_hi.
        rewrite !nth_error_app2 by lia. f_equal. fold N' Nc. lia.
    - rewrite map_map. apply map_ext. intros e. rewrite map_edge_shift.
      unfold map_edge, shift_edge, shiftl. cbn [pe_lbl pe_src pe_tgt].
      f_equal; apply map_ext; intros x; symmetry; apply bq'_hi.
    - apply bq_expand. exact HS.
    - apply bq_expand. exact HT.
  Qed.
  (* ---------- its kernel: the blockwise gluing of f's outputs to g's inputs ---------- *)
  Definition glueW : list (nat * nat) :=
    combine (expand fw' (table (o_t f))) (expand fw' (add_scalar nf (table (o_s g)))).

  Lemma size_of_label a b :
    nth_error (h_w (o_h f) ++ h_w (o_h g)) a = nth_error (h_w (o_h f) ++ h_w (o_h g)) b ->
    nth a sizes' 0 = nth b sizes' 0.
  Proof.
    intros E. unfold sizes'. rewrite <- !(block_size _ Hfw'). rewrite decode_fw', !nth_map_of_nth_error, E.
    reflexivity.
  Qed.

  Lemma glue_labels :
    map (nth_error (h_w (o_h f) ++ h_w (o_h g))) (table (o_t f)) =
    map (nth_error (h_w (o_h f) ++ h_w (o_h g))) (add_scalar nf (table (o_s g))).
  Proof.
    destruct Hf as (_ & _ & Ho & _ & Hot). unfold wf_ff in Ho. rewrite Hot in Ho.
    unfold tgt_type, src_type, type_of, abs in Hty. cbn [p_nodes p_ins p_outs] in Hty.
    transitivity (map (nth_error (h_w (o_h f))) (table (o_t f))).
    - apply map_ext_in. intros a Ha. apply nth_error_app1. eapply all_lt_In; eauto.
    - rewrite Hty. unfold add_scalar. rewrite map_map. apply map_ext. intros a.
      rewrite nth_error_app2 by (fold nf; lia). f_equal. fold nf. lia.
  Qed.

  Lemma glue_sizes :
    Forall2 (fun a b => nth a sizes' 0 = nth b sizes' 0) (table (o_t f)) (add_scalar nf (table (o_s g))).
  Proof.
    eapply Forall2_imp; [|apply (Forall2_of_map_eq _ _ _ _ glue_labels)].
    intros a b E. apply size_of_label. exact E.
  Qed.

  Lemma in_glueW x y :
    In (x, y) glueW <->
    exists a b u0, In (a, b) (glue_pairs (abs f) (abs g)) /\ u0 < nth a sizes' 0 /\
                   x = list_sum (firstn a sizes') + u0 /\ y = list_sum (firstn b sizes') + u0.
  Proof. unfold glueW, expand. fold sizes'. apply in_combine_inj_tables. exact glue_sizes. Qed.

  Lemma glue_pairs_lt a b : In (a, b) (glue_pairs (abs f) (abs g)) -> a < nf + ng /\ b < nf + ng.
  Proof.
    destruct f_bounds as (_ & _ & HT & HS). intros Hin.
    unfold glue_pairs, abs in Hin. cbn [p_outs p_ins p_nodes] in Hin. fold nf in Hin.
    split.
    - eapply all_lt_In; [exact HT|]. eapply in_combine_l; eauto.
    - eapply all_lt_In; [exact HS|]. eapply in_combine_r; eauto.
  Qed.

  Lemma glueW_lt : pairs_lt N' glueW.
  Proof. unfold glueW. apply pairs_lt_combine; apply expand_lt; exact Hfw'. Qed.

  Lemma ker_DJ : forall i j, i < N' + M -> j < N' + M -> (bq' i = bq' j <-> conn glueW i j).
  Proof.
    intros i j Hi Hj. split.
    - intros Eq. destruct (lt_dec i N') as [Hi1|Hi1]; destruct (lt_dec j N') as [Hj1|Hj1].
      + rewrite !bq'_lo in Eq by assumption.
        rewrite <- sum_sizes' in Hi1, Hj1.
        destruct (bqW_inj _ _ _ Hq_sz Hi1 Hj1 Eq) as (v & v' & u0 & Hv & Hv' & Hu0 & Eqv & -> & ->).
        rewrite len_sizes' in Hv, Hv'.
        apply Hq_ker in Eqv; try assumption.
        assert (Hlift : forall a b, conn (glue_pairs (abs f) (abs g)) a b ->
                  nth a sizes' 0 = nth b sizes' 0 /\
                  forall w, w < nth a sizes' 0 ->
                    conn glueW (list_sum (firstn a sizes') + w) (list_sum (firstn b sizes') + w)).
        { apply (@conn_glue_impl (glue_pairs (abs f) (abs g))
                   (fun a b => nth a sizes' 0 = nth b sizes' 0 /\
                     forall w, w < nth a sizes' 0 ->
                       conn glueW (list_sum (firstn a sizes') + w) (list_sum (firstn b sizes') + w))).
          - intros x. split; [reflexivity|]. intros w _. apply conn_refl.
          - intros x y [E H]. split; [congruence|]. intros w Hw0. apply conn_sym. apply H. congruence.
          - intros x y z [E1 H1] [E2 H2]. split; [congruence|]. intros w Hw0.
            apply conn_trans with (y := list_sum (firstn y sizes') + w); [apply H1; exact Hw0|].
            apply H2. congruence.
          - intros x y Hin. split.
            + apply (Forall2_combine_In _ _ glue_sizes). exact Hin.
            + intros w Hw0. apply conn_step. apply in_glueW. exists x, y, w. auto. }
        apply (Hlift _ _ Eqv). exact Hu0.
      + exfalso. rewrite (bq'_lo Hi1) in Eq. pose proof (bq_lt Hi1).
        replace j with ((j - N') + N') in Eq by lia. rewrite bq'_hi in Eq. lia.
      + exfalso. rewrite (bq'_lo Hj1) in Eq. pose proof (bq_lt Hj1).
        replace i with ((i - N') + N') in Eq by lia. rewrite bq'_hi in Eq. lia.
      + replace i with ((i - N') + N') in Eq by lia. replace j with ((j - N') + N') in Eq by lia.
        rewrite !bq'_hi in Eq. assert (i = j) by lia. subst j. apply conn_refl.
    - revert i j Hi Hj.
      assert (Himpl : forall i j, conn glueW i j -> bq' i = bq' j).
      { apply (@conn_glue_impl glueW (fun x y => bq' x = bq' y)); try congruence.
        intros x y Hin. apply in_glueW in Hin. destruct Hin as (a & b & u0 & Hab & Hu0 & -> & ->).
        destruct (glue_pairs_lt _ _ Hab) as [Ha Hb].
        assert (Hsz : nth a sizes' 0 = nth b sizes' 0)
          by (apply (Forall2_combine_In _ _ glue_sizes); exact Hab).
        assert (Hqab : q a = q b) by (apply Hq_ker; try assumption; apply conn_step; exact Hab).
        pose proof (prefix_plus_size_le sizes' a) as Hla. pose proof (prefix_plus_size_le sizes' b) as Hlb.
        rewrite sum_sizes' in Hla, Hlb.
        rewrite !bq'_lo by lia. rewrite !bq_block by (try assumption; lia). rewrite Hqab. reflexivity. }
      intros i j _ _. apply Himpl.
  Qed.
  (* ---------- the functor data of the composite are the image of those of the tensor ---------- *)
  Let fT := tensor_pure f g.
  Let P' := subst_pairs fT fw' fx.

  Lemma Hfx : wf_ohg fx.
  Proof. apply wf_tensor_pure; assumption. Qed.

  Lemma edge_sources_fg : edge_sources fg = map q (edge_sources fT).
  Proof.
    unfold fT. rewrite (edge_sources_tensor g Hf).
    unfold edge_sources, fg, compose_pure, glue_ic. cbn [o_h h_s ic_values table]. reflexivity.
  Qed.

  Lemma edge_targets_fg : edge_targets fg = map q (edge_targets fT).
  Proof.
    unfold fT. rewrite (edge_targets_tensor g Hf).
    unfold edge_targets, fg, compose_pure, glue_ic. cbn [o_h h_t ic_values table]. reflexivity.
  Qed.

  Lemma ES_lt : all_lt (nf + ng) (edge_sources fT) /\ all_lt (nf + ng) (edge_targets fT).
  Proof.
    unfold fT. rewrite (edge_sources_tensor g Hf), (edge_targets_tensor g Hf).
    destruct Hf as (((_ & Hs) & (_ & Ht) & _ & _ & Hws & Hwt) & _).
    destruct Hg as (((_ & Hs') & (_ & Ht') & _ & _ & Hws' & Hwt') & _).
    unfold wf_ff in *. rewrite Hws in Hs. rewrite Hwt in Ht. rewrite Hws' in Hs'. rewrite Hwt' in Ht'.
    unfold edge_sources, edge_targets. fold nf. split; apply C01Lemmas.all_lt_app.
    - eapply C01Lemmas.all_lt_mono; [|exact Hs]. fold nf. lia.
    - apply all_lt_shiftl. exact Hs'.
    - eapply C01Lemmas.all_lt_mono; [|exact Ht]. fold nf. lia.
    - apply all_lt_shiftl. exact Ht'.
  Qed.

  Lemma fx_typed_fg : fx_typed fg fw fx.
  Proof.
    destruct (fx_typed_tensor Hf Hwf Hlenf Hfxf Htyf Htyg) as [Hs Ht]. fold fw' fx fT in Hs, Ht.
    destruct ES_lt as [HES HET].
    assert (Hlab : forall l, map (nth_error (ic_values fw')) (expand fw' l) =
                             map (nth_error (ic_values fw)) (map bq' (expand fw' l))).
    { intros l. rewrite map_map. apply map_ext_in. intros a Ha.
      assert (Ha' : a < N') by (eapply all_lt_In; [apply expand_lt; exact Hfw'|exact Ha]).
      rewrite bq'_lo by exact Ha'. symmetry. apply bq_labels. exact Ha'. }
    split.
    - rewrite Hs, edge_sources_fg, bq_expand by exact HES. apply Hlab.
    - rewrite Ht, edge_targets_fg, bq_expand by exact HET. apply Hlab.
  Qed.

  Lemma pairs_fg_eq :
    subst_pairs fg fw fx =
    combine (map bq' (expand fw' (edge_sources fT))) (map bq' (shiftl N' (p_ins (abs fx)))) ++
    combine (map bq' (expand fw' (edge_targets fT))) (map bq' (shiftl N' (p_outs (abs fx)))).
  Proof.
    destruct ES_lt as [HES HET].
    assert (Hsh : forall l, shiftl Nc l = map bq' (shiftl N' l)).
    { intros l. unfold shiftl. rewrite map_map. apply map_ext. intros x. symmetry. apply bq'_hi. }
    unfold subst_pairs. fold Nc. rewrite edge_sources_fg, edge_targets_fg.
    rewrite !bq_expand by assumption. rewrite !Hsh. reflexivity.
  Qed.

  Lemma P'_lt : pairs_lt (N' + M) P'.
  Proof.
    pose proof (wf_abs_pwf Hfx) as (_ & Hi & Ho). cbn [abs p_nodes] in Hi, Ho. fold M in Hi, Ho.
    unfold P', subst_pairs. fold N'. apply pairs_lt_app; apply pairs_lt_combine.
    - eapply C01Lemmas.all_lt_mono; [|apply expand_lt; exact Hfw']. fold N'. lia.
    - apply all_lt_shiftl. exact Hi.
    - eapply C01Lemmas.all_lt_mono; [|apply expand_lt; exact Hfw']. fold N'. lia.
    - apply all_lt_shiftl. exact Ho.
  Qed.

  Lemma pairs_img1 x y : In (x, y) P' ->
    x < N' + M /\ y < N' + M /\ In (bq' x, bq' y) (subst_pairs fg fw fx).
  Proof.
    intros Hin. pose proof P'_lt as HP. unfold pairs_lt in HP. rewrite Forall_forall in HP.
    destruct (HP _ Hin) as [Hx Hy]. cbn [fst snd] in Hx, Hy. split; [exact Hx|]. split; [exact Hy|].
    rewrite pairs_fg_eq. unfold P', subst_pairs in Hin. fold N' in Hin.
    apply in_app_or in Hin. apply in_or_app. destruct Hin as [Hin|Hin]; [left|right];
      apply in_combine_map_same; exists x, y; auto.
  Qed.

  Lemma pairs_img2 a b : In (a, b) (subst_pairs fg fw fx) ->
    exists x y, In (x, y) P' /\ a = bq' x /\ b = bq' y.
  Proof.
    rewrite pairs_fg_eq. intros Hin. apply in_app_or in Hin.
    destruct Hin as [Hin|Hin]; apply in_combine_map_same in Hin; destruct Hin as (x & y & Hxy & -> & ->);
      exists x, y; (split; [|auto]); unfold P', subst_pairs; fold N'; apply in_or_app; auto.
  Qed.
  (* ---------- both the composite of the images and the image of the composite are quotients of
     the join diagram DJ with kernel  conn (P' ++ glueW) ---------- *)
  Lemma DJ_len : length (p_nodes DJ) = N' + M.
  Proof. unfold DJ, subst_D. cbn [p_nodes]. apply app_length. Qed.

  Lemma compose_core (hf hg h c : ohg O2 A2) :
    wf_ohg hf -> wf_ohg hg ->
    IsSubst f fwf fxf (abs hf) -> IsSubst g fwg fxg (abs hg) -> IsSubst fg fw fx (abs h) ->
    IsCompose (abs hf) (abs hg) (abs c) -> NIso (abs h) (abs c).
  Proof.
    intros Hwhf Hwhg Hsubf Hsubg (qh & HQh & HKh) (q2 & HQ2 & HK2).
    destruct (IsSubst_tensor Hf Hwf Hlenf Hfxf Htyf Hwg Hfxg Htyg Hsubf Hsubg) as (qT & HQT & HKT).
    fold fw' fx fT in HQT, HKT. fold N' M in HKT. fold P' in HKT.
    destruct f_bounds as (HS & HT & HTf & HSg).
    destruct Hf as (_ & Hi & Ho & Hit & Hot).
    (* the interfaces of the two images inside the tensor *)
    pose proof HQT as (_ & _ & _ & _ & EI & EO).
    unfold subst_D, fT, tensor_pure, ff_tensor in EI, EO.
    cbn [p_ins p_outs ptensor o_s o_t table] in EI, EO. rewrite Hit in EI. rewrite Hot in EO.
    fold nf in EI, EO. rewrite expand_app, map_app in EI, EO.
    destruct Hsubf as (qf & (_ & _ & _ & _ & If & Of) & _).
    unfold subst_D in If, Of. cbn [p_ins p_outs] in If, Of.
    assert (Hel : forall l, all_lt nf l -> expand fw' l = expand fwf l).
    { intros l Hl. unfold fw'. apply expand_coprod_l. rewrite Hlenf. exact Hl. }
    unfold wf_ff in Hi, Ho. rewrite Hit in Hi. rewrite Hot in Ho. fold nf in Hi, Ho.
    apply app_eq_length_inv in EI; [|rewrite If, (Hel _ Hi), !map_length; reflexivity].
    apply app_eq_length_inv in EO; [|rewrite Of, (Hel _ Ho), !map_length; reflexivity].
    destruct EI as [E_if E_ig]. destruct EO as [E_of E_og].
    (* the composite of the images as a quotient of DJ *)
    assert (HQJ : IsQuot DJ qT (pjoin (abs hf) (abs hg))).
    { pose proof (quot_reinterface (expand fw' (table (o_s f)))
                    (expand fw' (add_scalar nf (table (o_t g)))) HQT) as HR.
      unfold pjoin. rewrite E_if, E_og. exact HR. }
    assert (HGlt : pairs_lt (length (p_nodes (pjoin (abs hf) (abs hg)))) (glue_pairs (abs hf) (abs hg))).
    { pose proof (wf_abs_pwf Hwhf) as (_ & _ & Hof). pose proof (wf_abs_pwf Hwhg) as (_ & Hig & _).
      unfold glue_pairs. cbn [pjoin p_nodes]. rewrite app_length. apply pairs_lt_combine.
      - eapply C01Lemmas.all_lt_mono; [|exact Hof]. lia.
      - apply all_lt_shiftl. exact Hig. }
    assert (HGeq : glue_pairs (abs hf) (abs hg) =
                   combine (map qT (expand fw' (table (o_t f))))
                           (map qT (expand fw' (add_scalar nf (table (o_s g)))))).
    { unfold glue_pairs. rewrite E_of, E_ig. reflexivity. }
    destruct (@quot_quot O2 A2 DJ (pjoin (abs hf) (abs hg)) (abs c) qT q2 P' glueW
                (glue_pairs (abs hf) (abs hg))) as [HQc HKc].
    - exact HQJ.
    - rewrite DJ_len. exact P'_lt.
    - rewrite DJ_len. exact HKT.
    - exact HQ2.
    - exact HGlt.
    - cbn [pjoin p_nodes]. rewrite app_length. exact HK2.
    - intros x y Hin. rewrite DJ_len.
      pose proof glueW_lt as HL. unfold pairs_lt in HL. rewrite Forall_forall in HL.
      destruct (HL _ Hin) as [Hx Hy]. cbn [fst snd] in Hx, Hy.
      split; [lia|]. split; [lia|]. rewrite HGeq. apply in_combine_map_same. exists x, y. auto.
    - intros a b Hin. rewrite HGeq in Hin. apply in_combine_map_same in Hin. exact Hin.
    - (* the image of the composite as a quotient of DJ *)
      destruct (@quot_quot O2 A2 DJ (subst_D fg fw fx) (abs h) bq' qh glueW P'
                  (subst_pairs fg fw fx)) as [HQh' HKh'].
      + exact quot_DJ.
      + rewrite DJ_len. eapply Forall_impl; [|exact glueW_lt]. cbn. intros p [H1 H2]. lia.
      + rewrite DJ_len. exact ker_DJ.
      + exact HQh.
      + unfold subst_D. cbn [p_nodes]. rewrite app_length. fold Nc M.
        pose proof (wf_abs_pwf Hfx) as (_ & Hxi & Hxo). cbn [abs p_nodes] in Hxi, Hxo. fold M in Hxi, Hxo.
        unfold subst_pairs. fold Nc. apply pairs_lt_app; apply pairs_lt_combine.
        * eapply C01Lemmas.all_lt_mono; [|apply expand_lt; exact Hw]. fold Nc. lia.
        * apply all_lt_shiftl. exact Hxi.
        * eapply C01Lemmas.all_lt_mono; [|apply expand_lt; exact Hw]. fold Nc. lia.
        * apply all_lt_shiftl. exact Hxo.
      + unfold subst_D. cbn [p_nodes]. rewrite app_length. exact HKh.
      + intros x y Hin. rewrite DJ_len. apply pairs_img1. exact Hin.
      + intros a b Hin. apply pairs_img2. exact Hin.
      + apply (quot_unique (pwf_subst_D fJ Hfw' Hfx) HQh' HQc).
        intros i j Hi' Hj'. rewrite HKh', HKc by assumption.
        apply conn_set_ext. intros p. rewrite !in_app_iff. tauto.
  Qed.
End Compose.

Lemma flat_map_comp {X Y Z} (h : Y -> list Z) (k : X -> Y) l :
  flat_map h (map k l) = flat_map (fun x => h (k x)) l.
Proof. induction l as [|x l IH]; cbn [map flat_map]. reflexivity. rewrite IH. reflexivity. Qed.

(* the type of an image depends on the type of the argument only *)
Lemma image_type {O1 O2} (F : O1 -> list O2) (w : list O1) (fw : ic (list O2)) l :
  wf_ics fw -> decode_s fw = map F w ->
  map (nth_error (ic_values fw)) (expand fw l) =
  map Some (flat_map (fun o => match o with Some x => F x | None => [] end) (map (nth_error w) l)).
Proof.
  intros Hw Hd. rewrite (expand_types l Hw), Hd. f_equal. rewrite flat_map_comp.
  apply flat_map_ext_in'. intros a _. apply nth_map_of_nth_error.
Qed.

Section ComposeThm.
  Variable B : Backend.
  Hypothesis OK : BackendOK B.
  Variables O1 A1 O2 A2 : Type.
  Variable eqO1 : O1 -> O1 -> bool.
  Hypothesis eqO1_spec : forall x y, eqO1 x y = true <-> x = y.
  Variable eqO2 : O2 -> O2 -> bool.
  Hypothesis eqO2_spec : forall x y, eqO2 x y = true <-> x = y.

  (* F is the object map of the functor: every node labelled o is replaced by the list F o *)
  Theorem C12_preserves_composition (F : O1 -> list O2) (f g : ohg O1 A1)
          (fwf fwg : ic (list O2)) (fxf fxg : ohg O2 A2) :
    wf_ohg f -> wf_ohg g -> tgt_type (abs f) = src_type (abs g) ->
    wf_ics fwf -> decode_s fwf = map F (h_w (o_h f)) -> wf_ohg fxf -> fx_typed f fwf fxf ->
    wf_ics fwg -> decode_s fwg = map F (h_w (o_h g)) -> wf_ohg fxg -> fx_typed g fwg fxg ->
    exists fg, ohg_compose B eqO1 f g = Ok (Some fg) /\ wf_ohg fg /\
      forall fw, wf_ics fw -> decode_s fw = map F (h_w (o_h fg)) ->
        exists fx hf hg h c,
          ohg_tensor fxf fxg = Ok fx /\
          spider_map_arrow B eqO2 f fwf fxf = Ok hf /\ spider_map_arrow B eqO2 g fwg fxg = Ok hg /\
          spider_map_arrow B eqO2 fg fw fx = Ok h /\ ohg_compose B eqO2 hf hg = Ok (Some c) /\
          wf_ohg h /\ wf_ohg c /\ NIso (abs h) (abs c).
  Proof.
    intros Hf Hg Hty Hwf Hdf Hfxf Htyf Hwg Hdg Hfxg Htyg.
    destruct (compose_ok OK eqO1 eqO1_spec Hf Hg Hty) as (u & Hc & Hu & Hkey).
    pose proof (type_eq_length _ _ Hty) as Hlts.
    exists (compose_pure B f g u). split; [exact Hc|]. split; [apply (wf_compose_pure OK u Hf Hg Hlts Hu)|].
    intros fw Hw Hd. cbn [compose_pure o_h h_w] in Hd.
    pose proof (Hlenf F f fwf Hdf) as Hlf. pose proof (Hlenf F g fwg Hdg) as Hlg.
    destruct (C12_defined_typed_gen OK eqO2 eqO2_spec Hf Hwf Hlf Hfxf Htyf) as (hf & Hrf & Hwhf & _ & Htf).
    destruct (C12_defined_typed_gen OK eqO2 eqO2_spec Hg Hwg Hlg Hfxg Htyg) as (hg & Hrg & Hwhg & Hsg & _).
    destruct (C12_substitution_gen OK eqO2 eqO2_spec Hf Hwf Hlf Hfxf Htyf) as (hf' & Hrf' & _ & Hsubf).
    destruct (C12_substitution_gen OK eqO2 eqO2_spec Hg Hwg Hlg Hfxg Htyg) as (hg' & Hrg' & _ & Hsubg).
    assert (hf' = hf) by congruence. assert (hg' = hg) by congruence. subst hf' hg'.
    assert (Hfg : wf_ohg (compose_pure B f g u)) by (apply (wf_compose_pure OK u Hf Hg Hlts Hu)).
    assert (Hlc : ic_len fw = length (h_w (o_h (compose_pure B f g u)))).
    { cbn [compose_pure o_h h_w]. rewrite <- decode_len, Hd, map_length. reflexivity. }
    pose proof (fx_typed_fg B F u Hf Hg Hwf Hdf Hfxf Htyf Hwg Hdg Htyg Hu Hkey Hw Hd) as Htyc.
    destruct (C12_substitution_gen OK eqO2 eqO2_spec Hfg Hw Hlc (Hfx Hfxf Hfxg) Htyc)
      as (h & Hrh & Hwh & Hsubh).
    assert (Htyh : tgt_type (abs hf) = src_type (abs hg)).
    { rewrite Htf, Hsg. rewrite (image_type F (h_w (o_h f)) _ Hwf Hdf).
      rewrite (image_type F (h_w (o_h g)) _ Hwg Hdg).
      unfold tgt_type, src_type, type_of, abs in Hty. cbn [p_nodes p_ins p_outs] in Hty.
      rewrite Hty. reflexivity. }
    destruct (C01_compose_is_gluing OK eqO2 eqO2_spec Hwhf Hwhg Htyh) as (c & Hcc & Hwc & HIc).
    exists (tensor_pure fxf fxg), hf, hg, h, c.
    split; [apply ohg_tensor_val; exact Hfxf|]. split; [exact Hrf|]. split; [exact Hrg|].
    split; [exact Hrh|]. split; [exact Hcc|]. split; [exact Hwh|]. split; [exact Hwc|].
    exact (compose_core OK F Hf Hg Hty Hwf Hdf Hfxf Htyf Hwg Hdg Hfxg Htyg Hu Hkey Hw Hd
             Hwhf Hwhg Hsubf Hsubg Hsubh HIc).
  Qed.

  (* the statement of C12Struct.v *)
  Theorem C12_preserves_composition_holds_here :
    forall (F : O1 -> list O2) (f g fg : ohg O1 A1) (fwf fwg fw : ic (list O2))
           (fxf fxg fx hf hg : ohg O2 A2),
    wf_ohg f -> wf_ohg g ->
    wf_ics fwf -> decode_s fwf = map F (h_w (o_h f)) -> wf_ohg fxf -> fx_typed f fwf fxf ->
    wf_ics fwg -> decode_s fwg = map F (h_w (o_h g)) -> wf_ohg fxg -> fx_typed g fwg fxg ->
    ohg_compose B eqO1 f g = Ok (Some fg) ->
    wf_ics fw -> decode_s fw = map F (h_w (o_h fg)) ->
    ohg_tensor fxf fxg = Ok fx ->
    spider_map_arrow B eqO2 f fwf fxf = Ok hf -> spider_map_arrow B eqO2 g fwg fxg = Ok hg ->
    exists h c, spider_map_arrow B eqO2 fg fw fx = Ok h /\ ohg_compose B eqO2 hf hg = Ok (Some c) /\
                Iso (abs h) (abs c).
  Proof.
    intros F f g fg fwf fwg fw fxf fxg fx hf hg Hf Hg Hwf Hdf Hfxf Htyf Hwg Hdg Hfxg Htyg
           Efg Hw Hd Efx Ehf Ehg.
    assert (Hty : tgt_type (abs f) = src_type (abs g)).
    { destruct (ohg_target_ok Hf) as (tf & Htf & Htf').
      destruct (ohg_source_ok Hg) as (sg & Hsg & Hsg').
      destruct (list_eqb eqO1 tf sg) eqn:E.
      - apply (C01Lemmas.list_eqb_spec eqO1 eqO1_spec) in E. congruence.
      - exfalso. unfold ohg_compose in Efg. rewrite Htf, Hsg in Efg. cbn [bind] in Efg.
        rewrite E in Efg. discriminate. }
    destruct (C12_preserves_composition F Hf Hg Hty Hwf Hdf Hfxf Htyf Hwg Hdg Hfxg Htyg)
      as (fg' & Efg' & _ & Hall).
    assert (fg' = fg) by congruence. subst fg'.
    destruct (Hall fw Hw Hd) as (fx' & hf' & hg' & h & c & E1 & E2 & E3 & E4 & E5 & _ & _ & HN).
    assert (fx' = fx) by congruence. assert (hf' = hf) by congruence. assert (hg' = hg) by congruence.
    subst. exists h, c. split; [exact E4|]. split; [exact E5|]. apply NIso_Iso. exact HN.
  Qed.
End ComposeThm.

Theorem C12_preserves_composition_holds : C12_preserves_composition_full.
Proof.
  intros B OK O1 A1 O2 A2 eqO1 eqO2 S1 S2. apply (C12_preserves_composition_holds_here OK eqO1 S1 eqO2 S2).
Qed.

(* ---------- the hypotheses are satisfiable: a concrete composite and tensor (Vec back-end) ---------- *)
(* f = ex12_f : [10 11 12] -> [12 10];  g : [12 10] -> [11 12] with one edge 102 : [12] -> [11];
   F(10) = [], F(11) = [21], F(12) = [22; 23];  the image of 102 is 203 : [22 23] -> [21] *)
Definition ex12_F (o : nat) : list nat := if o =? 10 then [] else if o =? 11 then [21] else [22; 23].

Definition ex12_g : ohg nat nat :=
  mkOHG (mkFF [0; 1] 3) (mkFF [2; 0] 3)
        (mkHG (mkIC (mkFF [1] 2) (mkFF [0] 3)) (mkIC (mkFF [1] 2) (mkFF [2] 3)) [12; 10; 11] [102]).
Definition ex12_fxg : ohg nat nat :=
  mkOHG (mkFF [0; 1] 3) (mkFF [2] 3)
        (mkHG (mkIC (mkFF [2] 3) (mkFF [0; 1] 3)) (mkIC (mkFF [1] 2) (mkFF [2] 3)) [22; 23; 21] [203]).

Example ex12_g_wf : wf_ohg ex12_g.
Proof.
  unfold wf_ohg, wf_hg, wf_icf, wf_ic, wf_ff, all_lt, ic_len, ff_source; cbn.
  repeat split; repeat constructor.
Qed.

Example ex12_fxg_wf : wf_ohg ex12_fxg.
Proof.
  unfold wf_ohg, wf_hg, wf_icf, wf_ic, wf_ff, all_lt, ic_len, ff_source; cbn.
  repeat split; repeat constructor.
Qed.

Example ex12_types_match : tgt_type (abs ex12_f) = src_type (abs ex12_g).
Proof. vm_compute. reflexivity. Qed.

Example ex12_decode_f : decode_s ex12_fw = map ex12_F (h_w (o_h ex12_f)).
Proof. vm_compute. reflexivity. Qed.

Example ex12_decode_g : decode_s ex12_fw3 = map ex12_F (h_w (o_h ex12_g)).
Proof. vm_compute. reflexivity. Qed.

Example ex12_typed_f : fx_typed ex12_f ex12_fw ex12_fx.
Proof. split; vm_compute; reflexivity. Qed.

Example ex12_typed_g : fx_typed ex12_g ex12_fw3 ex12_fxg.
Proof. split; vm_compute; reflexivity. Qed.

Example ex12_compose_applies :
  exists fg fw fx hf hg h c,
    ohg_compose VecBackend Nat.eqb ex12_f ex12_g = Ok (Some fg) /\
    wf_ics fw /\ decode_s fw = map ex12_F (h_w (o_h fg)) /\
    ohg_tensor ex12_fx ex12_fxg = Ok fx /\
    spider_map_arrow VecBackend Nat.eqb ex12_f ex12_fw ex12_fx = Ok hf /\
    spider_map_arrow VecBackend Nat.eqb ex12_g ex12_fw3 ex12_fxg = Ok hg /\
    spider_map_arrow VecBackend Nat.eqb fg fw fx = Ok h /\
    ohg_compose VecBackend Nat.eqb hf hg = Ok (Some c) /\ NIso (abs h) (abs c).
Proof.
  destruct (C12_preserves_composition VecBackend_ok Nat.eqb Nat.eqb_eq Nat.eqb Nat.eqb_eq ex12_F
              ex12_f_wf ex12_g_wf ex12_types_match ex12_fw_wf ex12_decode_f ex12_fx_wf ex12_typed_f
              ex12_fw3_wf ex12_decode_g ex12_fxg_wf ex12_typed_g) as (fg & Hc & _ & Hall).
  destruct (C12_dyn_object (mkLF ex12_F (fun (a : nat) (_ _ : list nat) => @lohg_empty nat nat))
              (h_w (o_h fg))) as (fw & _ & Hw & Hd & _).
  cbn [lf_map_object] in Hd.
  destruct (Hall fw Hw Hd) as (fx & hf & hg & h & c & E1 & E2 & E3 & E4 & E5 & _ & _ & HN).
  exists fg, fw, fx, hf, hg, h, c.
  split; [exact Hc|]. split; [exact Hw|]. split; [exact Hd|]. split; [exact E1|]. split; [exact E2|].
  split; [exact E3|]. split; [exact E4|]. split; [exact E5|exact HN].
Qed.

(* the same data, evaluated: 5 + 3 nodes glued along F(12 10) = 22 23 *)
Example ex12_compose_vec :
  match (r <- ohg_compose VecBackend Nat.eqb ex12_f ex12_g ;; fg <- unwrap r ;;
         fw <- dyn_map_object (mkLF ex12_F (fun (a : nat) (_ _ : list nat) => @lohg_empty nat nat))
                              (h_w (o_h fg)) ;;
         fx <- ohg_tensor ex12_fx ex12_fxg ;;
         spider_map_arrow VecBackend Nat.eqb fg fw fx),
        (hf <- spider_map_arrow VecBackend Nat.eqb ex12_f ex12_fw ex12_fx ;;
         hg <- spider_map_arrow VecBackend Nat.eqb ex12_g ex12_fw3 ex12_fxg ;;
         r <- ohg_compose VecBackend Nat.eqb hf hg ;; unwrap r) with
  | Ok h, Ok c => (length (p_nodes (abs h)), length (p_edges (abs h)), src_type (abs h), tgt_type (abs h)) =
                  (length (p_nodes (abs c)), length (p_edges (abs c)), src_type (abs c), tgt_type (abs c))
  | _, _ => False end.
Proof. vm_compute. reflexivity. Qed.

Example ex12_tensor_applies :
  exists hf hg h t,
    spider_map_arrow VecBackend Nat.eqb ex12_f ex12_fw ex12_fx = Ok hf /\
    spider_map_arrow VecBackend Nat.eqb ex12_g ex12_fw3 ex12_fxg = Ok hg /\
    spider_map_arrow VecBackend Nat.eqb (tensor_pure ex12_f ex12_g) (coprod_pure ex12_fw ex12_fw3)
                     (tensor_pure ex12_fx ex12_fxg) = Ok h /\
    ohg_tensor hf hg = Ok t /\ NIso (abs h) (abs t).
Proof.
  destruct (C12_preserves_tensor VecBackend_ok Nat.eqb Nat.eqb_eq ex12_f_wf ex12_g_wf
              ex12_fw_wf ex12_len ex12_fx_wf ex12_typed_f ex12_fw3_wf eq_refl ex12_fxg_wf ex12_typed_g)
    as (hf & hg & h & t & _ & _ & _ & E1 & E2 & E3 & E4 & _ & _ & HN).
  exists hf, hg, h, t.
  split; [exact E1|]. split; [exact E2|]. split; [exact E3|]. split; [exact E4|exact HN].
Qed.
