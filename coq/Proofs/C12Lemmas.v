(* Helper lemmas for property C12 (functors act by substitution), part 1: list facts, the table
   [inj_table] of block references, the exact value of [ohg_tensor] and its abstraction, the exact
   values of every intermediate result of [spider_map_arrow]. *)
From OHG Require Import Spec.Plain Proofs.PrimsThm Proofs.CCThm Proofs.SegThm Proofs.C08Thm
  Proofs.C01Lemmas Proofs.C01Thm.

Set Implicit Arguments.
Arguments Nat.sub : simpl never.

(* ---------- list facts ---------- *)
Lemma map_nth_error_lt {T} (w : list T) (d : T) l : all_lt (length w) l ->
  map (nth_error w) l = map Some (map (fun j => nth j w d) l).
Proof.
  intros H. rewrite map_map. apply map_ext_in. intros a Ha.
  apply nth_error_nth'. eapply all_lt_In; eauto.
Qed.

Lemma map_nth_error_seq {T} (w : list T) : map (nth_error w) (seq 0 (length w)) = map Some w.
Proof.
  apply C01Lemmas.nth_error_ext. intros i. rewrite !nth_error_map.
  destruct (lt_dec i (length w)) as [Hi|Hi].
  - rewrite (nth_error_nth' (seq 0 (length w)) 0) by (rewrite seq_length; exact Hi).
    rewrite seq_nth by exact Hi. cbn [option_map plus].
    destruct (nth_error w i) as [x|] eqn:E; [reflexivity|].
    apply nth_error_None in E. lia.
  - replace (nth_error (seq 0 (length w)) i) with (@None nat)
      by (symmetry; apply nth_error_None; rewrite seq_length; lia).
    replace (nth_error w i) with (@None T) by (symmetry; apply nth_error_None; lia).
    reflexivity.
Qed.

Lemma all_lt_seq a n : all_lt (a + n) (seq a n).
Proof. unfold all_lt. apply Forall_forall. intros x Hx. apply in_seq in Hx. lia. Qed.

Lemma all_lt_seq0 n : all_lt n (seq 0 n).
Proof. apply (all_lt_seq 0 n). Qed.

Lemma shiftl_app n l1 l2 : shiftl n (l1 ++ l2) = shiftl n l1 ++ shiftl n l2.
Proof. unfold shiftl. apply map_app. Qed.

Lemma shiftl_shiftl a b l : shiftl a (shiftl b l) = shiftl (b + a) l.
Proof. unfold shiftl. rewrite map_map. apply map_ext. intros x. lia. Qed.

Lemma shiftl_length n l : length (shiftl n l) = length l.
Proof. unfold shiftl. apply map_length. Qed.

Lemma shiftl_0 l : shiftl 0 l = l.
Proof. unfold shiftl. rewrite <- (map_id l) at 2. apply map_ext. intros x. lia. Qed.

Lemma seq_shiftl n : forall a, seq a n = shiftl a (seq 0 n).
Proof.
  induction n as [|n IH]; intros a; simpl. reflexivity.
  f_equal. rewrite (IH (S a)), (IH 1), shiftl_shiftl. reflexivity.
Qed.

(* ---------- the table of block references ---------- *)
Lemma inj_table_lt sizes l : all_lt (list_sum sizes) (inj_table sizes l).
Proof.
  unfold all_lt, inj_table. apply Forall_forall. intros x Hx.
  apply in_flat_map in Hx. destruct Hx as (v & _ & Hx). apply in_seq in Hx.
  pose proof (prefix_plus_size_le sizes v). lia.
Qed.

Lemma inj_table_app sizes l1 l2 :
  inj_table sizes (l1 ++ l2) = inj_table sizes l1 ++ inj_table sizes l2.
Proof. unfold inj_table. apply flat_map_app. Qed.

Lemma list_sum_firstn_repeat1 n v : v <= n -> list_sum (firstn v (repeat 1 n)) = v.
Proof.
  revert v; induction n as [|n IH]; intros [|v] H; simpl; try lia.
  rewrite IH by lia. reflexivity.
Qed.

Lemma nth_repeat_lt {T} (x d : T) n v : v < n -> nth v (repeat x n) d = x.
Proof. revert v; induction n as [|n IH]; intros [|v] H; simpl; try lia; auto. apply IH. lia. Qed.

Lemma inj_table_ones n l : all_lt n l -> inj_table (repeat 1 n) l = l.
Proof.
  unfold inj_table, all_lt. induction l as [|v l IH]; intros H; simpl. reflexivity.
  inversion H as [|v' l' Hv Hl]; subst.
  rewrite IH by exact Hl. rewrite list_sum_firstn_repeat1 by lia.
  rewrite nth_repeat_lt by exact Hv. reflexivity.
Qed.

(* a run of consecutive references expands to a run of consecutive references *)
Lemma inj_table_seq sizes : forall k i, i + k <= length sizes ->
  inj_table sizes (seq i k) = seq (list_sum (firstn i sizes)) (list_sum (firstn k (skipn i sizes))).
Proof.
  induction k as [|k IH]; intros i H.
  - reflexivity.
  - cbn [seq]. unfold inj_table at 1. cbn [flat_map]. fold (inj_table sizes (seq (S i) k)).
    rewrite IH by lia. rewrite list_sum_firstn_S by lia.
    rewrite (skipn_nth_error sizes i (nth_error_nth' sizes 0 (i := i) ltac:(lia))).
    replace (list_sum (firstn (S k) (nth i sizes 0 :: skipn (S i) sizes)))
      with (nth i sizes 0 + list_sum (firstn k (skipn (S i) sizes))) by reflexivity.
    rewrite seq_app. reflexivity.
Qed.

Lemma inj_table_seq_all sizes : inj_table sizes (seq 0 (length sizes)) = seq 0 (list_sum sizes).
Proof.
  rewrite inj_table_seq by lia. cbn [firstn skipn]. rewrite firstn_all. reflexivity.
Qed.

(* ---------- identity, half spiders ---------- *)
Lemma ff_identity_val n : ff_identity n = Ok (mkFF (seq 0 n) n).
Proof. unfold ff_identity. rewrite arange_ok by lia. rewrite Nat.sub_0_r. reflexivity. Qed.

Definition expand {T} (fw : ic (list T)) (l : list nat) : list nat :=
  inj_table (table (ic_sources fw)) l.

Lemma expand_unfold {T} (fw : ic (list T)) l :
  expand fw l =
  flat_map (fun v => seq (list_sum (firstn v (table (ic_sources fw)))) (nth v (table (ic_sources fw)) 0)) l.
Proof. reflexivity. Qed.

Lemma expand_lt {T} (fw : ic (list T)) l : wf_ics fw -> all_lt (length (ic_values fw)) (expand fw l).
Proof. intros [_ H]. rewrite <- H. apply inj_table_lt. Qed.

Lemma expand_app {T} (fw : ic (list T)) l1 l2 : expand fw (l1 ++ l2) = expand fw l1 ++ expand fw l2.
Proof. apply inj_table_app. Qed.

Lemma map_half_spider_ok {T} (fw : ic (list T)) g : wf_ics fw -> target g = ic_len fw -> wf_ff g ->
  map_half_spider fw g = Ok (mkFF (expand fw (table g)) (length (ic_values fw))).
Proof.
  intros [_ Hsum] Ht Hw. unfold map_half_spider.
  rewrite ff_injections_ok by assumption. cbn [bind unwrap]. rewrite Hsum. reflexivity.
Qed.

(* ---------- tensor of open hypergraphs: exact value, well-formedness, abstraction ---------- *)
Section Tensor.
  Variables O A : Type.
  Implicit Types g : ohg O A.

  Definition tens_ic (c d : icf) : icf :=
    mkIC (mkFF (table (ic_sources c) ++ table (ic_sources d))
               (target (ic_sources c) + target (ic_sources d) - 1))
         (ff_tensor (ic_values c) (ic_values d)).

  Definition tensor_pure g1 g2 : ohg O A :=
    mkOHG (ff_tensor (o_s g1) (o_s g2)) (ff_tensor (o_t g1) (o_t g2))
          (mkHG (tens_ic (h_s (o_h g1)) (h_s (o_h g2))) (tens_ic (h_t (o_h g1)) (h_t (o_h g2)))
                (h_w (o_h g1) ++ h_w (o_h g2)) (h_x (o_h g1) ++ h_x (o_h g2))).

  Lemma ohg_tensor_val g1 g2 : wf_ohg g1 -> ohg_tensor g1 g2 = Ok (tensor_pure g1 g2).
  Proof.
    intros ((Hs & Ht & _) & _). unfold ohg_tensor, hg_coproduct.
    rewrite !icf_tensor_ok by assumption. reflexivity.
  Qed.

  Lemma wf_tens_ic c d : wf_icf c -> wf_icf d -> wf_icf (tens_ic c d).
  Proof.
    intros ((C1 & C2) & C3) ((D1 & D2) & D3).
    unfold wf_icf, wf_ic, wf_ff, tens_ic, ff_tensor, ff_source in *.
    cbn [ic_sources ic_values table target]. split; [split|].
    - rewrite list_sum_app. lia.
    - rewrite list_sum_app, app_length. unfold add_scalar. rewrite map_length. lia.
    - apply C01Lemmas.all_lt_app.
      + eapply C01Lemmas.all_lt_mono; [|exact C3]. lia.
      + apply all_lt_shiftl. exact D3.
  Qed.

  Lemma decode_tens_ic c d : wf_icf c ->
    decode_f (tens_ic c d) = decode_f c ++ map (shiftl (target (ic_values c))) (decode_f d).
  Proof.
    intros ((_ & C2) & _). unfold decode_f, tens_ic, ff_tensor.
    cbn [ic_sources ic_values table]. rewrite SegThm.segs_app by exact C2.
    unfold add_scalar. rewrite SegThm.segs_map. reflexivity.
  Qed.

  Lemma wf_tensor_pure g1 g2 : wf_ohg g1 -> wf_ohg g2 -> wf_ohg (tensor_pure g1 g2).
  Proof.
    intros ((Hs1 & Ht1 & Hxs1 & Hxt1 & Hws1 & Hwt1) & Hi1 & Ho1 & Hit1 & Hot1)
           ((Hs2 & Ht2 & Hxs2 & Hxt2 & Hws2 & Hwt2) & Hi2 & Ho2 & Hit2 & Hot2).
    unfold wf_ohg, wf_hg, tensor_pure. cbn [o_h o_s o_t h_s h_t h_w h_x].
    split; [split; [|split; [|split; [|split; [|split]]]]|split; [|split; [|split]]].
    - apply wf_tens_ic; assumption.
    - apply wf_tens_ic; assumption.
    - unfold ic_len, ff_source, tens_ic in *. cbn [ic_sources table]. rewrite !app_length. lia.
    - unfold ic_len, ff_source, tens_ic in *. cbn [ic_sources table]. rewrite !app_length. lia.
    - unfold tens_ic, ff_tensor. cbn [ic_values target]. rewrite app_length. lia.
    - unfold tens_ic, ff_tensor. cbn [ic_values target]. rewrite app_length. lia.
    - unfold wf_ff, ff_tensor in *. cbn [table target]. apply C01Lemmas.all_lt_app.
      + eapply C01Lemmas.all_lt_mono; [|exact Hi1]. lia.
      + apply all_lt_shiftl. exact Hi2.
    - unfold wf_ff, ff_tensor in *. cbn [table target]. apply C01Lemmas.all_lt_app.
      + eapply C01Lemmas.all_lt_mono; [|exact Ho1]. lia.
      + apply all_lt_shiftl. exact Ho2.
    - unfold ff_tensor. cbn [target]. rewrite app_length. lia.
    - unfold ff_tensor. cbn [target]. rewrite app_length. lia.
  Qed.

  Lemma abs_tensor_pure g1 g2 : wf_ohg g1 ->
    abs (tensor_pure g1 g2) = ptensor (abs g1) (abs g2).
  Proof.
    intros ((Hs1 & Ht1 & Hxs1 & Hxt1 & Hws1 & Hwt1) & Hi1 & Ho1 & Hit1 & Hot1).
    unfold abs, ptensor, tensor_pure, abs_hg_edges.
    cbn [o_h o_s o_t h_s h_t h_w h_x p_nodes p_edges p_ins p_outs].
    rewrite !decode_tens_ic by assumption. rewrite Hws1, Hwt1.
    rewrite zip3_app.
    2:{ unfold decode_f. rewrite SegThm.segs_length. exact Hxs1. }
    2:{ unfold decode_f. rewrite SegThm.segs_length. exact Hxt1. }
    rewrite zip3_shift. unfold ff_tensor. cbn [table]. rewrite Hit1, Hot1. reflexivity.
  Qed.

  Theorem ohg_tensor_ok g1 g2 : wf_ohg g1 -> wf_ohg g2 ->
    exists t, ohg_tensor g1 g2 = Ok t /\ wf_ohg t /\ abs t = ptensor (abs g1) (abs g2).
  Proof.
    intros H1 H2. exists (tensor_pure g1 g2). split; [|split].
    - apply ohg_tensor_val. exact H1.
    - apply wf_tensor_pure; assumption.
    - apply abs_tensor_pure. exact H1.
  Qed.

  (* types of a juxtaposition *)
  Lemma type_ptensor (p1 p2 : pohg O A) l1 l2 : all_lt (length (p_nodes p1)) l1 ->
    type_of (ptensor p1 p2) (l1 ++ shiftl (length (p_nodes p1)) l2) = type_of p1 l1 ++ type_of p2 l2.
  Proof.
    intros H. unfold type_of, ptensor. cbn [p_nodes]. rewrite map_app. f_equal.
    - apply map_ext_in. intros a Ha. apply nth_error_app1. eapply all_lt_In; eauto.
    - unfold shiftl. rewrite map_map. apply map_ext. intros a.
      rewrite nth_error_app2 by lia. f_equal. lia.
  Qed.

  (* ---------- discrete diagrams: identities and spiders ---------- *)
  Definition spider_pure (s t : list nat) (w : list O) : ohg O A :=
    mkOHG (mkFF s (length w)) (mkFF t (length w)) (hg_discrete A w).

  Lemma wf_icf_initial n : wf_icf (icf_initial n).
  Proof. split. split; reflexivity. constructor. Qed.

  Lemma wf_spider_pure s t w : all_lt (length w) s -> all_lt (length w) t -> wf_ohg (spider_pure s t w).
  Proof.
    intros Hs Ht. unfold wf_ohg, wf_hg, spider_pure, hg_discrete.
    cbn [o_h o_s o_t h_s h_t h_w h_x].
    split; [split; [|split; [|split; [|split; [|split]]]]|split; [|split; [|split]]];
      try reflexivity; try apply wf_icf_initial; assumption.
  Qed.

  Lemma abs_spider_pure s t w : abs (spider_pure s t w) = mkP w [] s t.
  Proof. reflexivity. Qed.

  Lemma ohg_identity_val w : ohg_identity A w = Ok (spider_pure (seq 0 (length w)) (seq 0 (length w)) w).
  Proof. unfold ohg_identity. rewrite ff_identity_val. reflexivity. Qed.

  Lemma ohg_spider_val s t n w : n = length w ->
    ohg_spider A (mkFF s n) (mkFF t n) w = Some (spider_pure s t w).
  Proof.
    intros ->. unfold ohg_spider. cbn [target]. rewrite Nat.eqb_refl. reflexivity.
  Qed.
End Tensor.

(* ---------- the intermediate values of spider_map_arrow ---------- *)
Section Values.
  Variables O1 A1 O2 A2 : Type.
  Variable B : Backend.
  Variable eqO2 : O2 -> O2 -> bool.
  Variable f : ohg O1 A1.
  Variable fw : ic (list O2).
  Variable fx : ohg O2 A2.

  Definition c12_S := table (o_s f).
  Definition c12_T := table (o_t f).
  Definition c12_ES := table (ic_values (h_s (o_h f))).
  Definition c12_ET := table (ic_values (h_t (o_h f))).
  Definition c12_W := ic_values fw.
  Definition c12_N := length (ic_values fw).

  Definition c12_i : ohg O2 A2 := spider_pure A2 (seq 0 c12_N) (seq 0 c12_N) c12_W.
  Definition c12_sx : ohg O2 A2 :=
    spider_pure A2 (expand fw c12_S) (seq 0 c12_N ++ expand fw c12_ES) c12_W.
  Definition c12_yt : ohg O2 A2 :=
    spider_pure A2 (seq 0 c12_N ++ expand fw c12_ET) (expand fw c12_T) c12_W.
  Definition c12_ifx : ohg O2 A2 := tensor_pure c12_i fx.

  Lemma wf_c12_i : wf_ohg c12_i.
  Proof. apply wf_spider_pure; apply all_lt_seq0. Qed.

  Lemma wf_c12_sx : wf_ics fw -> wf_ohg c12_sx.
  Proof.
    intros Hw. apply wf_spider_pure.
    - apply expand_lt. exact Hw.
    - apply C01Lemmas.all_lt_app. apply all_lt_seq0. apply expand_lt. exact Hw.
  Qed.

  Lemma wf_c12_yt : wf_ics fw -> wf_ohg c12_yt.
  Proof.
    intros Hw. apply wf_spider_pure.
    - apply C01Lemmas.all_lt_app. apply all_lt_seq0. apply expand_lt. exact Hw.
    - apply expand_lt. exact Hw.
  Qed.

  Lemma wf_c12_ifx : wf_ohg fx -> wf_ohg c12_ifx.
  Proof. intros H. apply wf_tensor_pure. apply wf_c12_i. exact H. Qed.

  Lemma spider_map_arrow_unfold :
    wf_ohg f -> wf_ics fw -> ic_len fw = length (h_w (o_h f)) ->
    spider_map_arrow B eqO2 f fw fx =
    (c1 <- ohg_compose B eqO2 c12_sx c12_ifx ;; c1' <- unwrap c1 ;;
     c2 <- ohg_compose B eqO2 c1' c12_yt ;; unwrap c2).
  Proof.
    intros ((Hs & Ht & Hxs & Hxt & Hws & Hwt) & Hi & Ho & Hit & Hot) Hw Hlen.
    unfold spider_map_arrow.
    rewrite ohg_identity_val. cbn [bind].
    rewrite (map_half_spider_ok Hw (g := o_s f)) by (try assumption; congruence). cbn [bind].
    rewrite (map_half_spider_ok Hw (g := ic_values (h_s (o_h f)))) by (try apply Hs; congruence).
    cbn [bind].
    unfold spider_pure at 1. cbn [o_t o_s o_h h_w hg_discrete].
    unfold ff_coproduct at 1. cbn [target table]. rewrite Nat.eqb_refl. cbn [unwrap bind].
    rewrite ohg_spider_val by reflexivity. cbn [unwrap bind].
    rewrite (map_half_spider_ok Hw (g := o_t f)) by (try assumption; congruence). cbn [bind].
    rewrite (map_half_spider_ok Hw (g := ic_values (h_t (o_h f)))) by (try apply Ht; congruence).
    cbn [bind].
    unfold ff_coproduct at 1. cbn [target table]. rewrite Nat.eqb_refl. cbn [unwrap bind].
    rewrite ohg_spider_val by reflexivity. cbn [unwrap bind].
    rewrite ohg_tensor_val by apply wf_c12_i. cbn [bind].
    reflexivity.
  Qed.

  (* the abstractions *)
  Lemma abs_c12_sx : abs c12_sx = mkP c12_W [] (expand fw c12_S) (seq 0 c12_N ++ expand fw c12_ES).
  Proof. reflexivity. Qed.
  Lemma abs_c12_yt : abs c12_yt = mkP c12_W [] (seq 0 c12_N ++ expand fw c12_ET) (expand fw c12_T).
  Proof. reflexivity. Qed.
  Lemma abs_c12_i : abs c12_i = mkP c12_W [] (seq 0 c12_N) (seq 0 c12_N).
  Proof. reflexivity. Qed.
  Lemma abs_c12_ifx : abs c12_ifx = ptensor (abs c12_i) (abs fx).
  Proof. apply abs_tensor_pure. apply wf_c12_i. Qed.

  Lemma src_type_c12_ifx :
    src_type (abs c12_ifx) = map (nth_error c12_W) (seq 0 c12_N) ++ src_type (abs fx).
  Proof.
    rewrite abs_c12_ifx. unfold src_type. cbn [ptensor p_ins].
    rewrite type_ptensor by (cbn; apply all_lt_seq0). reflexivity.
  Qed.

  Lemma tgt_type_c12_ifx :
    tgt_type (abs c12_ifx) = map (nth_error c12_W) (seq 0 c12_N) ++ tgt_type (abs fx).
  Proof.
    rewrite abs_c12_ifx. unfold tgt_type. cbn [ptensor p_outs].
    rewrite type_ptensor by (cbn; apply all_lt_seq0). reflexivity.
  Qed.
End Values.

(* ---------- the data of the identity functor: to_operations, ohg_tensor_operations ---------- *)
Lemma ff_inj0_val a b : ff_inj0 a b = Ok (mkFF (seq 0 a) (a + b)).
Proof. unfold ff_inj0. rewrite arange_ok by lia. rewrite Nat.sub_0_r. reflexivity. Qed.

Lemma ff_inj1_val a b : ff_inj1 a b = Ok (mkFF (seq a b) (a + b)).
Proof.
  unfold ff_inj1. rewrite arange_ok by lia. replace (a + b - a) with b by lia. reflexivity.
Qed.

Section Operations.
  Variables O A : Type.

  Definition tops_pure (p : operations O A) : ohg O A :=
    let na := length (ic_values (ops_a p)) in
    let nb := length (ic_values (ops_b p)) in
    mkOHG (mkFF (seq 0 na) (na + nb)) (mkFF (seq na nb) (na + nb))
          (mkHG (mkIC (ic_sources (ops_a p)) (mkFF (seq 0 na) (na + nb)))
                (mkIC (ic_sources (ops_b p)) (mkFF (seq na nb) (na + nb)))
                (ic_values (ops_a p) ++ ic_values (ops_b p)) (ops_x p)).

  Lemma tensor_operations_val (p : operations O A) : wf_ics (ops_a p) -> wf_ics (ops_b p) ->
    ohg_tensor_operations p = Ok (tops_pure p).
  Proof.
    intros [A1 A2] [B1 B2]. unfold ohg_tensor_operations, hg_tensor_operations.
    rewrite ff_inj0_val, ff_inj1_val. cbn [bind].
    rewrite C08_new_some by (split; cbn; unfold ff_source; cbn; rewrite ?seq_length; assumption).
    cbn [bind unwrap].
    rewrite C08_new_some by (split; cbn; unfold ff_source; cbn; rewrite ?seq_length; assumption).
    cbn [bind unwrap]. reflexivity.
  Qed.

  Lemma wf_tops_pure (p : operations O A) : wf_ics (ops_a p) -> wf_ics (ops_b p) ->
    ic_len (ops_a p) = length (ops_x p) -> ic_len (ops_b p) = length (ops_x p) ->
    wf_ohg (tops_pure p).
  Proof.
    intros [A1 A2] [B1 B2] La Lb.
    unfold wf_ohg, wf_hg, wf_icf, wf_ic, wf_ff, tops_pure, ff_source, ic_len in *.
    cbn [o_h o_s o_t h_s h_t h_w h_x ic_sources ic_values table target].
    rewrite !seq_length, app_length.
    repeat match goal with |- _ /\ _ => split end; try assumption; try reflexivity.
    - eapply C01Lemmas.all_lt_mono; [|apply all_lt_seq0]. lia.
    - apply all_lt_seq.
    - eapply C01Lemmas.all_lt_mono; [|apply all_lt_seq0]. lia.
    - apply all_lt_seq.
  Qed.

  Definition to_ops_pure (f : ohg O A) (va vb : list O) : operations O A :=
    mkOps (h_x (o_h f)) (mkIC (ic_sources (h_s (o_h f))) va) (mkIC (ic_sources (h_t (o_h f))) vb).

  Lemma to_operations_val (f : ohg O A) : wf_ohg f ->
    exists va vb, to_operations f = Ok (to_ops_pure f va vb) /\
      map Some va = map (nth_error (h_w (o_h f))) (table (ic_values (h_s (o_h f)))) /\
      map Some vb = map (nth_error (h_w (o_h f))) (table (ic_values (h_t (o_h f)))).
  Proof.
    intros (((_ & Hs) & (_ & Ht) & _ & _ & Hws & Hwt) & _).
    destruct (ff_compose_semi_ok (h_w (o_h f)) Hws Hs) as (va & Hva & Ea).
    destruct (ff_compose_semi_ok (h_w (o_h f)) Hwt Ht) as (vb & Hvb & Eb).
    exists va, vb. split; [|split; assumption].
    unfold to_operations, icf_map_semifinite. rewrite Hva, Hvb. reflexivity.
  Qed.

  Lemma map_Some_length {T} (a : list T) (b : list nat) (g : nat -> option T) :
    map Some a = map g b -> length a = length b.
  Proof. intros H. apply (f_equal (@length _)) in H. rewrite !map_length in H. exact H. Qed.

  Lemma wf_to_ops_pure (f : ohg O A) va vb : wf_ohg f ->
    length va = length (table (ic_values (h_s (o_h f)))) ->
    length vb = length (table (ic_values (h_t (o_h f)))) ->
    wf_ics (ops_a (to_ops_pure f va vb)) /\ wf_ics (ops_b (to_ops_pure f va vb)) /\
    ic_len (ops_a (to_ops_pure f va vb)) = length (ops_x (to_ops_pure f va vb)) /\
    ic_len (ops_b (to_ops_pure f va vb)) = length (ops_x (to_ops_pure f va vb)).
  Proof.
    intros ((((S1 & S2) & _) & ((T1 & T2) & _) & Hxs & Hxt & _) & _) La Lb.
    unfold to_ops_pure, wf_ics, wf_ic, ic_len, ff_source in *.
    cbn [ops_a ops_b ops_x ic_sources ic_values].
    repeat match goal with |- _ /\ _ => split end; try assumption; congruence.
  Qed.

  Lemma elements_val (w : list O) :
    ic_elements (semi_vops O) w = Ok (mkIC (mkFF (repeat 1 (length w)) (length w + 1)) w).
  Proof. apply (C08_elements_ok (semi_vops O) w). Qed.

  Lemma wf_elements (w : list O) : wf_ics (mkIC (mkFF (repeat 1 (length w)) (length w + 1)) w).
  Proof. split; cbn; rewrite list_sum_repeat; lia. Qed.
End Operations.
