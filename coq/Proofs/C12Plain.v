(* Helper lemmas for property C12, part 2 (plain model only): membership in zipped lists, the
   kernel of two successive gluings ([quot_then_glue]) and dropping nodes that are linked to a kept
   node ([quot_retract]). *)
From OHG Require Import Spec.Plain Proofs.PrimsThm Proofs.CCThm Proofs.SegThm Proofs.C08Thm
  Proofs.C01Lemmas Proofs.C12Lemmas.

Set Implicit Arguments.
Arguments Nat.sub : simpl never.

(* ---------- membership in zipped lists ---------- *)
Lemma in_combine_map_r {X Y Z} (g : Y -> Z) (a : X) (b : Z) : forall (l1 : list X) (l2 : list Y),
  In (a, b) (combine l1 (map g l2)) <-> exists y, b = g y /\ In (a, y) (combine l1 l2).
Proof.
  induction l1 as [|x l1 IH]; intros [|y l2]; simpl.
  - split; [tauto|]. intros (y & _ & []).
  - split; [tauto|]. intros (y' & _ & []).
  - split; [tauto|]. intros (y & _ & []).
  - rewrite IH. split.
    + intros [E|(y' & Hb & Hin)].
      * inversion E; subst. exists y. auto.
      * exists y'. auto.
    + intros (y' & Hb & [E|Hin]).
      * inversion E; subst. left. reflexivity.
      * right. exists y'. auto.
Qed.

Lemma in_combine_swap {X Y} (a : X) (b : Y) : forall l1 l2,
  In (a, b) (combine l1 l2) <-> In (b, a) (combine l2 l1).
Proof.
  induction l1 as [|x l1 IH]; intros [|y l2]; simpl; try tauto.
  rewrite IH. split; intros [E|H]; auto; left; inversion E; reflexivity.
Qed.

Lemma in_combine_map_l {X Y Z} (g : X -> Z) (a : Z) (b : Y) (l1 : list X) (l2 : list Y) :
  In (a, b) (combine (map g l1) l2) <-> exists x, a = g x /\ In (x, b) (combine l1 l2).
Proof.
  rewrite in_combine_swap, in_combine_map_r. split; intros (x & E & H); exists x; split; auto;
    apply in_combine_swap; exact H.
Qed.

Lemma in_combine_diag {X Y} (g : X -> Y) (a : X) (b : Y) (l : list X) :
  In (a, b) (combine l (map g l)) <-> In a l /\ b = g a.
Proof.
  induction l as [|x l IH]; simpl. tauto.
  rewrite IH. split.
  - intros [E|[H1 H2]]; [inversion E; subst; auto|auto].
  - intros [[E|H1] H2]; subst; auto.
Qed.

Lemma in_combine_lt n s t x y : all_lt n s -> all_lt n t -> In (x, y) (combine s t) -> x < n /\ y < n.
Proof.
  intros Hs Ht Hin. split.
  - eapply all_lt_In; [exact Hs|]. eapply in_combine_l; eauto.
  - eapply all_lt_In; [exact Ht|]. eapply in_combine_r; eauto.
Qed.

Lemma in_combine_map2 {X Y Z} (g1 : X -> Y) (g2 : X -> Z) (a : X) (l : list X) :
  In a l -> In (g1 a, g2 a) (combine (map g1 l) (map g2 l)).
Proof.
  induction l as [|x l IH]; simpl. tauto.
  intros [->|H]; auto.
Qed.

Lemma in_combine_map2_inv {X Y Z} (g1 : X -> Y) (g2 : X -> Z) (p : Y * Z) (l : list X) :
  In p (combine (map g1 l) (map g2 l)) -> exists a, In a l /\ p = (g1 a, g2 a).
Proof.
  induction l as [|x l IH]; simpl. tauto.
  intros [<-|H].
  - exists x. auto.
  - destruct (IH H) as (a & Ha & Ep). exists a. auto.
Qed.

(* zipping a list with (a function of) its positions *)
Lemma in_combine_seq {Y} (g : nat -> Y) (l : list nat) k : k < length l ->
  In (nth k l 0, g k) (combine l (map g (seq 0 (length l)))).
Proof.
  intros H. rewrite <- (map_nth_seq l 0) at 2.
  apply (in_combine_map2 (fun i => nth i l 0) g). apply in_seq. lia.
Qed.

Lemma in_combine_seq_inv {Y} (g : nat -> Y) (l : list nat) e z :
  In (e, z) (combine l (map g (seq 0 (length l)))) ->
  exists k, k < length l /\ e = nth k l 0 /\ z = g k.
Proof.
  intros H. rewrite <- (map_nth_seq l 0) in H at 1.
  apply in_combine_map2_inv in H. destruct H as (k & Hk & E). apply in_seq in Hk.
  inversion E; subst. exists k. repeat split. lia.
Qed.

Lemma map_Some_nth {T} (a : list T) (g : nat -> option T) (l : list nat) k :
  map Some a = map g l -> k < length l -> nth_error a k = g (nth k l 0).
Proof.
  intros H Hk. apply (f_equal (fun x => nth_error x k)) in H.
  rewrite !nth_error_map in H. rewrite (nth_error_nth' l 0 Hk) in H. cbn [option_map] in H.
  destruct (nth_error a k) as [x|]; cbn [option_map] in H; [|discriminate].
  inversion H. reflexivity.
Qed.

Lemma conn_app_l P Q x y : conn P x y -> conn (P ++ Q) x y.
Proof. apply conn_mono. intros p Hp. apply in_or_app. auto. Qed.

Lemma conn_app_r P Q x y : conn Q x y -> conn (P ++ Q) x y.
Proof. apply conn_mono. intros p Hp. apply in_or_app. auto. Qed.

Section Plain.
  Variables O A : Type.
  Implicit Types D c k h : pohg O A.

  (* ---------- a quotient followed by a gluing is one quotient of the big disjoint union ---------- *)
  Definition lift_r (nD nc : nat) (q1 : nat -> nat) (i : nat) : nat :=
    if i <? nD then q1 i else nc + (i - nD).

  Lemma lift_r_lo nD nc q1 i : i < nD -> lift_r nD nc q1 i = q1 i.
  Proof. intros H. unfold lift_r. apply Nat.ltb_lt in H. rewrite H. reflexivity. Qed.

  Lemma lift_r_hi nD nc q1 x : lift_r nD nc q1 (x + nD) = x + nc.
  Proof.
    unfold lift_r. replace (x + nD <? nD) with false by (symmetry; apply Nat.ltb_ge; lia). lia.
  Qed.

  Lemma lift_r_hi' nD nc q1 i : nD <= i -> lift_r nD nc q1 i = (i - nD) + nc.
  Proof. intros H. replace i with ((i - nD) + nD) at 1 by lia. apply lift_r_hi. Qed.

  Theorem quot_then_glue D c k h q1 q2 P1 :
    pwf D -> all_lt (length (p_nodes k)) (p_ins k) ->
    IsQuot D q1 c ->
    pairs_lt (length (p_nodes D)) P1 ->
    (forall i j, i < length (p_nodes D) -> j < length (p_nodes D) -> (q1 i = q1 j <-> conn P1 i j)) ->
    IsQuot (pjoin c k) q2 h ->
    (forall i j, i < length (p_nodes c) + length (p_nodes k) ->
                 j < length (p_nodes c) + length (p_nodes k) ->
                 (q2 i = q2 j <-> conn (glue_pairs c k) i j)) ->
    let q3 := fun i => q2 (lift_r (length (p_nodes D)) (length (p_nodes c)) q1 i) in
    IsQuot (pjoin D k) q3 h /\
    forall i j, i < length (p_nodes D) + length (p_nodes k) ->
                j < length (p_nodes D) + length (p_nodes k) ->
                (q3 i = q3 j <-> conn (P1 ++ glue_pairs D k) i j).
  Proof.
    intros (HwE & HwI & HwO) Hkin (R1 & S1 & L1 & E1 & I1 & O1') HP1 K1
           (R2 & S2 & L2 & E2 & I2 & O2') K2.
    cbn [pjoin p_nodes p_edges p_ins p_outs] in R2, S2, L2, E2, I2, O2'.
    rewrite app_length in R2, S2, L2.
    set (nD := length (p_nodes D)) in *. set (nc := length (p_nodes c)) in *.
    set (nk := length (p_nodes k)) in *.
    set (r := lift_r nD nc q1). intros q3.
    assert (Hrlt : forall i, i < nD + nk -> r i < nc + nk).
    { intros i Hi. destruct (lt_dec i nD) as [Hlo|Hhi].
      - unfold r. rewrite lift_r_lo by exact Hlo. specialize (R1 i Hlo). lia.
      - unfold r. rewrite lift_r_hi' by lia. lia. }
    assert (Hrsurj : forall y, y < nc + nk -> exists i, i < nD + nk /\ r i = y).
    { intros y Hy. destruct (lt_dec y nc) as [Hlo|Hhi].
      - destruct (S1 y Hlo) as (i & Hi & Ei). exists i. split; [lia|].
        unfold r. rewrite lift_r_lo by exact Hi. exact Ei.
      - exists ((y - nc) + nD). split; [lia|]. unfold r. rewrite lift_r_hi. lia. }
    assert (Hq3lo : forall i, i < nD -> q3 i = q2 (q1 i)).
    { intros i Hi. unfold q3, r. rewrite lift_r_lo by exact Hi. reflexivity. }
    assert (Hq3hi : forall x, q3 (x + nD) = q2 (x + nc)).
    { intros x. unfold q3, r. rewrite lift_r_hi. reflexivity. }
    assert (Hmaplo : forall l, all_lt nD l -> map q2 (map q1 l) = map q3 l).
    { intros l Hl. rewrite map_map. apply map_ext_in. intros a Ha. symmetry. apply Hq3lo.
      eapply all_lt_In; eauto. }
    assert (Hmaphi : forall l, map q2 (shiftl nc l) = map q3 (shiftl nD l)).
    { intros l. unfold shiftl. rewrite !map_map. apply map_ext. intros a. symmetry. apply Hq3hi. }
    assert (HGc : pairs_lt (nc + nk) (glue_pairs c k)).
    { unfold glue_pairs. apply pairs_lt_combine.
      - rewrite O1'. apply all_lt_map with (n := nD); [|exact HwO]. intros i Hi. specialize (R1 i Hi). lia.
      - apply all_lt_shiftl. exact Hkin. }
    split.
    - (* the quotient *)
      unfold IsQuot. cbn [pjoin p_nodes p_edges p_ins p_outs]. rewrite app_length.
      fold nD nk. split; [|split; [|split; [|split; [|split]]]].
      + intros i Hi. apply R2. apply Hrlt. exact Hi.
      + intros j Hj. destruct (S2 j Hj) as (y & Hy & Ey).
        destruct (Hrsurj y Hy) as (i & Hi & Ei). exists i. split; [exact Hi|].
        unfold q3. rewrite Ei. exact Ey.
      + intros i Hi. unfold q3. rewrite L2 by (apply Hrlt; exact Hi).
        destruct (lt_dec i nD) as [Hlo|Hhi].
        * unfold r. rewrite lift_r_lo by exact Hlo.
          rewrite nth_error_app1 by (apply R1; exact Hlo).
          rewrite nth_error_app1 by exact Hlo. apply L1. exact Hlo.
        * unfold r. rewrite lift_r_hi' by lia.
          rewrite nth_error_app2 by (fold nc; lia). rewrite nth_error_app2 by (fold nD; lia).
          f_equal. fold nc nD. lia.
      + rewrite E2, E1, !map_app, !map_map. f_equal.
        * apply map_ext_in. intros e He. destruct (HwE e He) as [Hs Ht].
          unfold map_edge. cbn [pe_lbl pe_src pe_tgt]. rewrite !Hmaplo by assumption. reflexivity.
        * apply map_ext. intros e. unfold map_edge, shift_edge. cbn [pe_lbl pe_src pe_tgt].
          rewrite !Hmaphi. reflexivity.
      + rewrite I2, I1. apply Hmaplo. exact HwI.
      + rewrite O2'. apply Hmaphi.
    - (* the kernel *)
      intros i j Hi Hj. split.
      + (* equal images -> connected *)
        intros Eq.
        assert (Hc : conn (glue_pairs c k) (r i) (r j)).
        { apply K2; try (apply Hrlt; assumption). exact Eq. }
        assert (Hlift : forall a b, conn (glue_pairs c k) a b -> a < nc + nk -> b < nc + nk ->
                  forall i' j', i' < nD + nk -> j' < nD + nk -> r i' = a -> r j' = b ->
                  conn (P1 ++ glue_pairs D k) i' j').
        { clear i j Hi Hj Eq Hc.
          intros a b Hab. induction Hab as [a|a b Hin|a b Hab IH|a y b Hay IH1 Hyb IH2];
            intros Ha Hb i j Hi Hj Ei Ej.
          - (* refl *)
            destruct (lt_dec i nD) as [Hilo|Hihi]; destruct (lt_dec j nD) as [Hjlo|Hjhi].
            + apply conn_app_l. apply K1; try assumption.
              unfold r in Ei, Ej. rewrite lift_r_lo in Ei, Ej by assumption. congruence.
            + exfalso. unfold r in Ei, Ej. rewrite lift_r_lo in Ei by assumption.
              rewrite lift_r_hi' in Ej by lia. specialize (R1 i Hilo). lia.
            + exfalso. unfold r in Ei, Ej. rewrite lift_r_lo in Ej by assumption.
              rewrite lift_r_hi' in Ei by lia. specialize (R1 j Hjlo). lia.
            + unfold r in Ei, Ej. rewrite lift_r_hi' in Ei, Ej by lia.
              assert (i = j) by lia. subst j. apply conn_refl.
          - (* a glue pair *)
            unfold glue_pairs in Hin. rewrite O1' in Hin. unfold shiftl in Hin.
            apply in_combine_map_r in Hin. destruct Hin as (y' & Eb & Hin).
            apply in_combine_map_l in Hin. destruct Hin as (x & Ea & Hin).
            assert (Hx : x < nD) by (eapply all_lt_In; [exact HwO|]; eapply in_combine_l; eauto).
            assert (Hilo : i < nD).
            { destruct (lt_dec i nD) as [Hlo|Hhi]; [exact Hlo|exfalso].
              unfold r in Ei. rewrite lift_r_hi' in Ei by lia. specialize (R1 x Hx). lia. }
            assert (Hjhi : nD <= j).
            { destruct (lt_dec j nD) as [Hlo|Hhi]; [exfalso|lia].
              unfold r in Ej. rewrite lift_r_lo in Ej by exact Hlo. specialize (R1 j Hlo). lia. }
            unfold r in Ei, Ej. rewrite lift_r_lo in Ei by exact Hilo. rewrite lift_r_hi' in Ej by lia.
            apply conn_trans with (y := x).
            + apply conn_app_l. apply K1; try assumption. congruence.
            + apply conn_app_r. apply conn_step. unfold glue_pairs, shiftl.
              apply in_combine_map_r. exists y'. split; [lia|exact Hin].
          - (* sym *)
            apply conn_sym. apply IH; assumption.
          - (* trans *)
            assert (Hy : y < nc + nk).
            { destruct (conn_bounded HGc Hay) as [<-|[_ Hy]]; assumption. }
            destruct (Hrsurj y Hy) as (m & Hm & Em).
            apply conn_trans with (y := m).
            + apply IH1; assumption.
            + apply IH2; assumption. }
        apply (Hlift _ _ Hc); try (apply Hrlt; assumption); auto.
      + (* connected -> equal images *)
        revert i j Hi Hj.
        assert (Himpl : forall i j, conn (P1 ++ glue_pairs D k) i j -> q3 i = q3 j).
        { apply conn_glue_impl; try congruence.
          intros x y Hin. apply in_app_or in Hin. destruct Hin as [Hin|Hin].
          - unfold pairs_lt in HP1. rewrite Forall_forall in HP1.
            destruct (HP1 _ Hin) as [Hx Hy]. cbn [fst snd] in Hx, Hy.
            rewrite !Hq3lo by assumption. f_equal. apply K1; try assumption.
            apply conn_step. exact Hin.
          - unfold glue_pairs, shiftl in Hin. apply in_combine_map_r in Hin.
            destruct Hin as (y' & -> & Hin).
            assert (Hx : x < nD) by (eapply all_lt_In; [exact HwO|]; eapply in_combine_l; eauto).
            assert (Hy' : y' < nk) by (eapply all_lt_In; [exact Hkin|]; eapply in_combine_r; eauto).
            rewrite Hq3lo by exact Hx. fold nD. rewrite Hq3hi.
            apply K2.
            + specialize (R1 x Hx). lia.
            + lia.
            + apply conn_step. unfold glue_pairs, shiftl. rewrite O1'.
              apply in_combine_map_r. exists y'. split; [reflexivity|].
              apply in_combine_map_l. exists x. split; [reflexivity|exact Hin]. }
        intros i j _ _. apply Himpl.
  Qed.

  (* ---------- dropping nodes that are linked to a kept node ---------- *)
  Theorem quot_retract D3 D h q3 P3 P (s r : nat -> nat) :
    IsQuot D3 q3 h ->
    (forall i j, i < length (p_nodes D3) -> j < length (p_nodes D3) -> (q3 i = q3 j <-> conn P3 i j)) ->
    (forall i, i < length (p_nodes D) -> s i < length (p_nodes D3)) ->
    (forall x, x < length (p_nodes D3) -> r x < length (p_nodes D)) ->
    (forall i, i < length (p_nodes D) -> r (s i) = i) ->
    (forall x, x < length (p_nodes D3) -> conn P3 x (s (r x))) ->
    (forall a b, In (a, b) P3 -> conn P (r a) (r b)) ->
    (forall a b, In (a, b) P -> conn P3 (s a) (s b)) ->
    (forall i, i < length (p_nodes D) -> nth_error (p_nodes D3) (s i) = nth_error (p_nodes D) i) ->
    map (map_edge q3) (p_edges D3) = map (map_edge (fun i => q3 (s i))) (p_edges D) ->
    map q3 (p_ins D3) = map (fun i => q3 (s i)) (p_ins D) ->
    map q3 (p_outs D3) = map (fun i => q3 (s i)) (p_outs D) ->
    IsQuot D (fun i => q3 (s i)) h /\
    forall i j, i < length (p_nodes D) -> j < length (p_nodes D) ->
                (q3 (s i) = q3 (s j) <-> conn P i j).
  Proof.
    intros (R3 & S3 & L3 & E3 & I3 & O3) K3 Hs Hr Hrs Hlink HP3 HP Hn He Hi Ho.
    split.
    - unfold IsQuot. split; [|split; [|split; [|split; [|split]]]].
      + intros i Hi'. apply R3. apply Hs. exact Hi'.
      + intros j Hj. destruct (S3 j Hj) as (x & Hx & Ex).
        exists (r x). split; [apply Hr; exact Hx|].
        rewrite <- Ex. symmetry. apply K3; [exact Hx|apply Hs; apply Hr; exact Hx|].
        apply Hlink. exact Hx.
      + intros i Hi'. rewrite L3 by (apply Hs; exact Hi'). apply Hn. exact Hi'.
      + rewrite E3. exact He.
      + rewrite I3. exact Hi.
      + rewrite O3. exact Ho.
    - intros i j Hi' Hj'. split.
      + intros Eq. apply K3 in Eq; try (apply Hs; assumption).
        assert (Himpl : forall x y, conn P3 x y -> conn P (r x) (r y)).
        { apply (@conn_glue_impl P3 (fun x y => conn P (r x) (r y))).
          - intros x. apply conn_refl.
          - intros x y. apply conn_sym.
          - intros x y z. apply conn_trans.
          - exact HP3. }
        apply Himpl in Eq. rewrite !Hrs in Eq by assumption. exact Eq.
      + intros Hc. apply K3; try (apply Hs; assumption).
        revert Hc. apply (@conn_glue_impl P (fun x y => conn P3 (s x) (s y))).
        * intros x. apply conn_refl.
        * intros x y. apply conn_sym.
        * intros x y z. apply conn_trans.
        * exact HP.
  Qed.

  (* composition of node maps on edges *)
  Lemma map_edge_shift q n (e : pedge A) :
    map_edge q (shift_edge n e) = map_edge (fun i => q (i + n)) e.
  Proof.
    unfold map_edge, shift_edge, shiftl. cbn [pe_lbl pe_src pe_tgt]. rewrite !map_map. reflexivity.
  Qed.

  Lemma shift_edge_shift a b (e : pedge A) : shift_edge a (shift_edge b e) = shift_edge (b + a) e.
  Proof.
    unfold shift_edge, shiftl. cbn [pe_lbl pe_src pe_tgt]. rewrite !map_map. f_equal.
    - apply map_ext. intros x. lia.
    - apply map_ext. intros x. lia.
  Qed.

  (* ---------- the three copies of the discrete part collapse onto the middle one ---------- *)
  Definition retr (N M : nat) (x : nat) : nat :=
    if x <? N then x else if x <? N + (N + M) then x - N else x - (N + (N + M)).

  Lemma subst_core (W Wx : list O) (efx : list (pedge A)) (insx outsx XS XT XES XET : list nat)
        (q3 : nat -> nat) h :
    let N := length W in let M := length Wx in
    let Psx := mkP W [] XS (seq 0 N ++ XES) in
    let Pifx := ptensor (mkP W [] (seq 0 N) (seq 0 N)) (mkP Wx efx insx outsx) in
    let Pyt := mkP W [] (seq 0 N ++ XET) XT in
    all_lt N XS -> all_lt N XT -> all_lt N XES -> all_lt N XET -> all_lt M insx -> all_lt M outsx ->
    IsQuot (pjoin (pjoin Psx Pifx) Pyt) q3 h ->
    (forall i j, i < N + (N + M) + N -> j < N + (N + M) + N ->
       (q3 i = q3 j <-> conn (glue_pairs Psx Pifx ++ glue_pairs (pjoin Psx Pifx) Pyt) i j)) ->
    let q := fun i => q3 (i + N) in
    IsQuot (mkP (W ++ Wx) (map (shift_edge N) efx) XS XT) q h /\
    forall i j, i < N + M -> j < N + M ->
      (q i = q j <-> conn (combine XES (shiftl N insx) ++ combine XET (shiftl N outsx)) i j).
  Proof.
    intros N M Psx Pifx Pyt HXS HXT HXES HXET Hins Houts HQ HK q.
    set (L := N + (N + M)).
    set (P3 := glue_pairs Psx Pifx ++ glue_pairs (pjoin Psx Pifx) Pyt) in *.
    set (P := combine XES (shiftl N insx) ++ combine XET (shiftl N outsx)).
    assert (EP1 : glue_pairs Psx Pifx =
                  combine (seq 0 N) (shiftl N (seq 0 N)) ++ combine XES (shiftl N (shiftl N insx))).
    { unfold glue_pairs, Psx, Pifx, ptensor. cbn [p_outs p_ins p_nodes]. fold N.
      rewrite shiftl_app. apply combine_app. rewrite shiftl_length. reflexivity. }
    assert (EG2 : glue_pairs (pjoin Psx Pifx) Pyt =
                  combine (shiftl N (seq 0 N)) (shiftl L (seq 0 N)) ++
                  combine (shiftl N (shiftl N outsx)) (shiftl L XET)).
    { unfold glue_pairs, pjoin, Psx, Pifx, Pyt, ptensor. cbn [p_outs p_ins p_nodes].
      rewrite !app_length. fold N M L. rewrite !shiftl_app.
      apply combine_app. rewrite !shiftl_length. reflexivity. }
    assert (HA : forall a, a < N -> conn P3 a (a + N)).
    { intros a Ha. unfold P3. apply conn_app_l. rewrite EP1. apply conn_app_l. apply conn_step.
      unfold shiftl. apply in_combine_diag. split; [|reflexivity]. apply in_seq. lia. }
    assert (HC : forall a, a < N -> conn P3 (a + N) (a + L)).
    { intros a Ha. unfold P3. apply conn_app_r. rewrite EG2. apply conn_app_l. apply conn_step.
      unfold shiftl. apply (in_combine_map2 (fun x => x + N) (fun x => x + L)). apply in_seq. lia. }
    assert (HES : forall e y, In (e, y) (combine XES insx) -> conn P3 e (y + N + N)).
    { intros e y Hin. unfold P3. apply conn_app_l. rewrite EP1. apply conn_app_r. apply conn_step.
      unfold shiftl. apply in_combine_map_r. exists (y + N). split; [reflexivity|].
      apply in_combine_map_r. exists y. split; [reflexivity|exact Hin]. }
    assert (HET : forall e y, In (e, y) (combine XET outsx) -> conn P3 (y + N + N) (e + L)).
    { intros e y Hin. unfold P3. apply conn_app_r. rewrite EG2. apply conn_app_r. apply conn_step.
      unfold shiftl. apply in_combine_map_r. exists e. split; [reflexivity|].
      apply in_combine_map_l. exists (y + N). split; [reflexivity|].
      apply in_combine_map_l. exists y. split; [reflexivity|]. apply in_combine_swap. exact Hin. }
    assert (Hlen3 : length (p_nodes (pjoin (pjoin Psx Pifx) Pyt)) = N + (N + M) + N).
    { unfold pjoin, Psx, Pifx, Pyt, ptensor. cbn [p_nodes]. rewrite !app_length. reflexivity. }
    assert (Hr_lo : forall x, x < N -> retr N M x = x).
    { intros x Hx. unfold retr. replace (x <? N) with true by (symmetry; apply Nat.ltb_lt; lia).
      reflexivity. }
    assert (Hr_mid : forall x, N <= x -> x < L -> retr N M x = x - N).
    { intros x Hx Hx'. unfold retr. replace (x <? N) with false by (symmetry; apply Nat.ltb_ge; lia).
      fold L. replace (x <? L) with true by (symmetry; apply Nat.ltb_lt; lia). reflexivity. }
    assert (Hr_hi : forall x, L <= x -> retr N M x = x - L).
    { intros x Hx. unfold retr. replace (x <? N) with false by (symmetry; apply Nat.ltb_ge; lia).
      fold L. replace (x <? L) with false by (symmetry; apply Nat.ltb_ge; lia). reflexivity. }
    assert (HlenD : length (p_nodes (mkP (W ++ Wx) (map (shift_edge N) efx) XS XT)) = N + M)
      by (cbn [p_nodes]; apply app_length).
    unfold q. rewrite <- HlenD. clear HlenD.
    apply (@quot_retract (pjoin (pjoin Psx Pifx) Pyt) (mkP (W ++ Wx) (map (shift_edge N) efx) XS XT)
                         h q3 P3 P (fun i => i + N) (retr N M)).
    - exact HQ.
    - rewrite Hlen3. exact HK.
    - cbn [p_nodes]. rewrite Hlen3, app_length. fold N M. intros i Hi. lia.
    - cbn [p_nodes]. rewrite Hlen3, app_length. fold N M. intros x Hx.
      destruct (lt_dec x N) as [H1|H1]; [rewrite Hr_lo by lia; lia|].
      destruct (lt_dec x L) as [H2|H2]; [rewrite Hr_mid by lia; unfold L in H2; lia|].
      rewrite Hr_hi by lia. unfold L in *. lia.
    - cbn [p_nodes]. rewrite app_length. fold N M. intros i Hi.
      rewrite Hr_mid by (unfold L; lia). lia.
    - rewrite Hlen3. intros x Hx.
      destruct (lt_dec x N) as [H1|H1]; [rewrite Hr_lo by lia; apply HA; exact H1|].
      destruct (lt_dec x L) as [H2|H2].
      + rewrite Hr_mid by lia. replace (x - N + N) with x by lia. apply conn_refl.
      + rewrite Hr_hi by lia. apply conn_sym.
        replace x with ((x - L) + L) at 2 by lia. apply HC. unfold L in *. lia.
    - (* pairs of the big diagram *)
      intros a b Hin. unfold P3 in Hin. rewrite EP1, EG2 in Hin.
      apply in_app_or in Hin. destruct Hin as [Hin|Hin]; apply in_app_or in Hin; destruct Hin as [Hin|Hin].
      + unfold shiftl in Hin. apply in_combine_diag in Hin. destruct Hin as [Ha ->].
        apply in_seq in Ha. rewrite Hr_lo by lia. rewrite Hr_mid by (unfold L; lia).
        replace (a + N - N) with a by lia. apply conn_refl.
      + unfold shiftl in Hin. apply in_combine_map_r in Hin. destruct Hin as (y1 & -> & Hin).
        apply in_combine_map_r in Hin. destruct Hin as (y & -> & Hin).
        assert (He : a < N) by (eapply all_lt_In; [exact HXES|]; eapply in_combine_l; eauto).
        assert (Hy : y < M) by (eapply all_lt_In; [exact Hins|]; eapply in_combine_r; eauto).
        rewrite Hr_lo by lia. rewrite Hr_mid by (unfold L; lia).
        replace (y + N + N - N) with (y + N) by lia.
        unfold P. apply conn_app_l. apply conn_step. unfold shiftl.
        apply in_combine_map_r. exists y. split; [reflexivity|exact Hin].
      + unfold shiftl in Hin. apply in_combine_map2_inv in Hin. destruct Hin as (x & Hx & E).
        inversion E; subst a b. apply in_seq in Hx.
        rewrite Hr_mid by (unfold L; lia). rewrite Hr_hi by lia.
        replace (x + N - N) with x by lia. replace (x + L - L) with x by lia. apply conn_refl.
      + unfold shiftl in Hin. apply in_combine_map_r in Hin. destruct Hin as (e & -> & Hin).
        apply in_combine_map_l in Hin. destruct Hin as (y1 & -> & Hin).
        apply in_combine_map_l in Hin. destruct Hin as (y & -> & Hin).
        assert (Hy : y < M) by (eapply all_lt_In; [exact Houts|]; eapply in_combine_l; eauto).
        assert (He : e < N) by (eapply all_lt_In; [exact HXET|]; eapply in_combine_r; eauto).
        rewrite Hr_mid by (unfold L; lia). rewrite Hr_hi by lia.
        replace (y + N + N - N) with (y + N) by lia. replace (e + L - L) with e by lia.
        unfold P. apply conn_sym. apply conn_app_r. apply conn_step. unfold shiftl.
        apply in_combine_map_r. exists y. split; [reflexivity|]. apply in_combine_swap. exact Hin.
    - (* pairs of the small diagram *)
      intros a b Hin. unfold P in Hin. apply in_app_or in Hin. destruct Hin as [Hin|Hin].
      + unfold shiftl in Hin. apply in_combine_map_r in Hin. destruct Hin as (y & -> & Hin).
        assert (He : a < N) by (eapply all_lt_In; [exact HXES|]; eapply in_combine_l; eauto).
        apply conn_trans with (y := a).
        * apply conn_sym. apply HA. exact He.
        * apply HES. exact Hin.
      + unfold shiftl in Hin. apply in_combine_map_r in Hin. destruct Hin as (y & -> & Hin).
        assert (He : a < N) by (eapply all_lt_In; [exact HXET|]; eapply in_combine_l; eauto).
        apply conn_trans with (y := a + L).
        * apply HC. exact He.
        * apply conn_sym. apply HET. exact Hin.
    - (* node labels *)
      cbn [p_nodes]. rewrite app_length. fold N M. intros i Hi.
      unfold pjoin, Psx, Pifx, Pyt, ptensor. cbn [p_nodes].
      rewrite <- app_assoc. rewrite nth_error_app2 by (fold N; lia). fold N.
      replace (i + N - N) with i by lia.
      apply nth_error_app1. rewrite app_length. fold N M. lia.
    - (* edges *)
      unfold pjoin, Psx, Pifx, Pyt, ptensor. cbn [p_nodes p_edges app map]. fold N.
      rewrite app_nil_r, !map_map. apply map_ext. intros e.
      rewrite shift_edge_shift, !map_edge_shift. unfold map_edge. f_equal.
      * apply map_ext. intros x. f_equal. lia.
      * apply map_ext. intros x. f_equal. lia.
    - (* inputs *)
      unfold pjoin, Psx. cbn [p_ins]. apply map_ext_in. intros a Ha.
      assert (Ha' : a < N) by (eapply all_lt_In; [exact HXS|exact Ha]).
      apply HK; try lia. apply HA. exact Ha'.
    - (* outputs *)
      unfold pjoin, Psx, Pifx, Pyt, ptensor. cbn [p_outs p_nodes]. rewrite !app_length. fold N M L.
      unfold shiftl. rewrite map_map. apply map_ext_in. intros a Ha.
      assert (Ha' : a < N) by (eapply all_lt_In; [exact HXT|exact Ha]).
      apply HK; try (unfold L; lia). apply conn_sym. apply HC. exact Ha'.
  Qed.

  Lemma NIso_Iso (g g' : pohg O A) : NIso g g' -> Iso g g'.
  Proof.
    intros (Hlen & pn & Hb & Hl & He & Hi & Ho). split; [exact Hlen|]. split.
    - rewrite He. rewrite map_length. reflexivity.
    - exists pn, (fun e => e). split; [exact Hb|]. split.
      + split; auto.
      + split; [exact Hl|]. split; [|split; assumption].
        intros e _. rewrite He. apply nth_error_map.
  Qed.
End Plain.
