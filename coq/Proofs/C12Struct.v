(* Property C12, structural corollaries of the substitution theorem: a functor maps diagrams without
   hyperedges (identities, symmetries, spiders) to the diagram with expanded legs. *)
From OHG Require Import Spec.Plain Proofs.PrimsThm Proofs.CCThm Proofs.SegThm Proofs.C08Thm
  Proofs.C01Lemmas Proofs.C01Thm Proofs.BackendInst Proofs.C12Lemmas Proofs.C12Plain Proofs.C12Thm.

Set Implicit Arguments.
Arguments Nat.sub : simpl never.

Lemma ff_twist_val a b : ff_twist a b = Ok (mkFF (seq b a ++ seq 0 b) (a + b)).
Proof.
  unfold ff_twist. rewrite !arange_ok by lia. cbn [bind].
  replace (a + b - b) with a by lia. rewrite Nat.sub_0_r. reflexivity.
Qed.

Section Struct.
  Variable B : Backend.
  Hypothesis OK : BackendOK B.
  Variables O1 A1 O2 A2 : Type.
  Variable eqO2 : O2 -> O2 -> bool.
  Hypothesis eqO2_spec : forall x y, eqO2 x y = true <-> x = y.

  Implicit Types (f : ohg O1 A1) (fw : ic (list O2)) (fx : ohg O2 A2).

  Lemma no_edges f : wf_ohg f -> h_x (o_h f) = [] -> edge_sources f = [] /\ edge_targets f = [].
  Proof.
    intros ((((_ & S2) & _) & ((_ & T2) & _) & Hxs & Hxt & _) & _) Hx.
    rewrite Hx in Hxs, Hxt. unfold ic_len, ff_source in *. cbn [length] in Hxs, Hxt.
    apply length_zero_iff_nil in Hxs. apply length_zero_iff_nil in Hxt.
    rewrite Hxs in S2. rewrite Hxt in T2. cbn in S2, T2.
    unfold edge_sources, edge_targets. split; apply length_zero_iff_nil; lia.
  Qed.

  Lemma no_nodes_interfaces fx : wf_ohg fx -> h_w (o_h fx) = [] ->
    table (o_s fx) = [] /\ table (o_t fx) = [].
  Proof.
    intros (_ & Hi & Ho & Hit & Hot) Hw0. unfold wf_ff in Hi, Ho. rewrite Hit, Hw0 in Hi.
    rewrite Hot, Hw0 in Ho. split; apply all_lt_nil_0; assumption.
  Qed.

  (* a diagram without hyperedges is mapped to the discrete diagram on the mapped objects with
     the expanded interfaces (the operation batch being the empty diagram) *)
  Theorem C12_discrete f fw fx :
    wf_ohg f -> wf_ics fw -> ic_len fw = length (h_w (o_h f)) -> wf_ohg fx ->
    h_x (o_h f) = [] -> h_w (o_h fx) = [] -> h_x (o_h fx) = [] ->
    exists h, spider_map_arrow B eqO2 f fw fx = Ok h /\ wf_ohg h /\
      NIso (abs h) (mkP (ic_values fw) [] (expand fw (table (o_s f))) (expand fw (table (o_t f)))).
  Proof.
    intros Hf Hw Hlen Hfx Hx Hw0 Hx0.
    destruct (no_edges Hf Hx) as [Hes Het].
    destruct (no_nodes_interfaces Hfx Hw0) as [Hi0 Ho0].
    assert (Hty : fx_typed f fw fx).
    { unfold fx_typed. rewrite Hes, Het. unfold src_type, tgt_type, type_of, abs.
      cbn [p_ins p_outs p_nodes]. rewrite Hi0, Ho0. split; reflexivity. }
    destruct (C12_substitution_gen OK eqO2 eqO2_spec Hf Hw Hlen Hfx Hty) as (h & Hrun & Hwfh & Hsub).
    exists h. split; [exact Hrun|]. split; [exact Hwfh|].
    apply (C12_subst_unique Hw Hfx Hsub).
    exists (fun i => i). split.
    - unfold IsQuot, subst_D, abs, abs_hg_edges. cbn [p_nodes p_edges p_ins p_outs].
      rewrite Hw0, Hx0, app_nil_r, !map_id. cbn [zip3 map].
      repeat split; auto. intros j Hj. exists j. auto.
    - intros i j _ _. unfold subst_pairs. rewrite Hes, Het. cbn [expand inj_table flat_map combine app].
      split.
      + intros ->. apply conn_refl.
      + apply conn_nil.
  Qed.

  (* ---------- identities ---------- *)
  Lemma expand_all fw : wf_ics fw -> expand fw (seq 0 (ic_len fw)) = seq 0 (length (ic_values fw)).
  Proof.
    intros [_ Hsum]. unfold expand, ic_len, ff_source. rewrite inj_table_seq_all, Hsum. reflexivity.
  Qed.

  Theorem C12_preserves_identity (w : list O1) fw fx :
    wf_ics fw -> ic_len fw = length w -> wf_ohg fx -> h_w (o_h fx) = [] -> h_x (o_h fx) = [] ->
    exists i h i', ohg_identity A1 w = Ok i /\ spider_map_arrow B eqO2 i fw fx = Ok h /\ wf_ohg h /\
      ohg_identity A2 (ic_values fw) = Ok i' /\ NIso (abs h) (abs i').
  Proof.
    intros Hw Hlen Hfx Hw0 Hx0.
    set (i := spider_pure A1 (seq 0 (length w)) (seq 0 (length w)) w).
    assert (Hi : wf_ohg i) by (apply wf_spider_pure; apply all_lt_seq0).
    destruct (@C12_discrete i fw fx Hi Hw Hlen Hfx eq_refl Hw0 Hx0) as (h & Hrun & Hwfh & HN).
    exists i, h, (spider_pure A2 (seq 0 (length (ic_values fw))) (seq 0 (length (ic_values fw))) (ic_values fw)).
    split; [apply ohg_identity_val|]. split; [exact Hrun|]. split; [exact Hwfh|].
    split; [apply ohg_identity_val|].
    rewrite abs_spider_pure. unfold i in HN. cbn [spider_pure o_s o_t table] in HN.
    rewrite <- Hlen, (expand_all Hw) in HN. exact HN.
  Qed.

  (* ---------- symmetries ---------- *)
  Definition twist_pure (O A : Type) (a b : list O) : ohg O A :=
    mkOHG (mkFF (seq (length b) (length a) ++ seq 0 (length b)) (length a + length b))
          (mkFF (seq 0 (length a + length b)) (length a + length b))
          (hg_discrete A (b ++ a)).

  Lemma ohg_twist_val (O A : Type) (a b : list O) : ohg_twist A a b = Ok (twist_pure A a b).
  Proof. unfold ohg_twist. rewrite ff_twist_val, ff_identity_val. reflexivity. Qed.

  Lemma wf_twist_pure (O A : Type) (a b : list O) : wf_ohg (twist_pure A a b).
  Proof.
    unfold wf_ohg, wf_hg, twist_pure, hg_discrete. cbn [o_h o_s o_t h_s h_t h_w h_x target].
    rewrite app_length.
    split; [split; [|split; [|split; [|split; [|split]]]]|split; [|split; [|split]]];
      try reflexivity; try apply wf_icf_initial; try lia.
    - unfold wf_ff. cbn [table target]. apply C01Lemmas.all_lt_app.
      + rewrite Nat.add_comm. apply all_lt_seq.
      + eapply C01Lemmas.all_lt_mono; [|apply all_lt_seq0]. lia.
    - unfold wf_ff. cbn [table target]. apply all_lt_seq0.
  Qed.

  Theorem C12_preserves_twist (a b : list O1) fw fx :
    wf_ics fw -> ic_len fw = length b + length a -> wf_ohg fx -> h_w (o_h fx) = [] -> h_x (o_h fx) = [] ->
    let Nb := list_sum (firstn (length b) (table (ic_sources fw))) in
    let Wb := firstn Nb (ic_values fw) in
    let Wa := skipn Nb (ic_values fw) in
    exists t h t', ohg_twist A1 a b = Ok t /\ spider_map_arrow B eqO2 t fw fx = Ok h /\ wf_ohg h /\
      ohg_twist A2 Wa Wb = Ok t' /\ NIso (abs h) (abs t').
  Proof.
    intros Hw Hlen Hfx Hw0 Hx0 Nb Wb Wa.
    pose proof (wf_twist_pure A1 a b) as Ht.
    assert (Hlen' : ic_len fw = length (h_w (o_h (twist_pure A1 a b)))).
    { cbn [twist_pure o_h hg_discrete h_w]. rewrite app_length. exact Hlen. }
    destruct (@C12_discrete (twist_pure A1 a b) fw fx Ht Hw Hlen' Hfx eq_refl Hw0 Hx0)
      as (h & Hrun & Hwfh & HN).
    exists (twist_pure A1 a b), h, (twist_pure A2 Wa Wb).
    split; [apply ohg_twist_val|]. split; [exact Hrun|]. split; [exact Hwfh|].
    split; [apply ohg_twist_val|].
    destruct Hw as [_ Hsum]. unfold ic_len, ff_source in Hlen.
    set (sizes := table (ic_sources fw)) in *. set (W := ic_values fw) in *.
    assert (HNb : Nb <= length W).
    { unfold Nb. rewrite <- Hsum. apply list_sum_firstn_le. }
    assert (HWb : length Wb = Nb) by (unfold Wb; rewrite firstn_length; lia).
    assert (HWa : length Wa = length W - Nb) by (unfold Wa; apply skipn_length).
    assert (Hrest : list_sum (skipn (length b) sizes) = length W - Nb).
    { pose proof (list_sum_firstn_skipn sizes (length b)) as E. fold Nb in E. lia. }
    assert (E : abs (twist_pure A2 Wa Wb) =
                mkP W [] (expand fw (table (o_s (twist_pure A1 a b))))
                    (expand fw (table (o_t (twist_pure A1 a b))))).
    { unfold abs, twist_pure, abs_hg_edges. cbn [o_h o_s o_t hg_discrete h_w h_x table zip3].
      rewrite HWa, HWb. unfold Wb, Wa. rewrite firstn_skipn.
      unfold expand. fold sizes. rewrite inj_table_app.
      rewrite !inj_table_seq by lia. cbn [firstn skipn list_sum].
      fold Nb. rewrite (firstn_all2 (n := length a)) by (rewrite skipn_length; lia).
      rewrite Hrest. rewrite firstn_all2 by lia. rewrite Hsum.
      replace (length W - Nb + Nb) with (length W) by lia. reflexivity. }
    rewrite E. exact HN.
  Qed.
End Struct.

(* ---------- the two remaining clauses, stated on functor data ---------- *)
(* [C12_preserves_tensor_full] is proved in C12Tensor.v (C12_preserves_tensor_holds),
   [C12_preserves_composition_full] in C12Compose.v (C12_preserves_composition_holds). *)
(* tensor: the data of f (x) g are the concatenation of the object data and the tensor of the
   operation batches; the image is the tensor of the images up to isomorphism *)
Definition C12_preserves_tensor_full : Prop :=
  forall (B : Backend), BackendOK B ->
  forall (O1 A1 O2 A2 : Type) (eqO2 : O2 -> O2 -> bool), (forall x y, eqO2 x y = true <-> x = y) ->
  forall (f g fg : ohg O1 A1) (fwf fwg fw : ic (list O2)) (fxf fxg fx hf hg : ohg O2 A2),
    wf_ohg f -> wf_ohg g ->
    wf_ics fwf -> ic_len fwf = length (h_w (o_h f)) -> wf_ohg fxf -> fx_typed f fwf fxf ->
    wf_ics fwg -> ic_len fwg = length (h_w (o_h g)) -> wf_ohg fxg -> fx_typed g fwg fxg ->
    ohg_tensor f g = Ok fg -> ic_coproduct (semi_vops O2) fwf fwg = Ok (Some fw) ->
    ohg_tensor fxf fxg = Ok fx ->
    spider_map_arrow B eqO2 f fwf fxf = Ok hf -> spider_map_arrow B eqO2 g fwg fxg = Ok hg ->
    exists h t, spider_map_arrow B eqO2 fg fw fx = Ok h /\ ohg_tensor hf hg = Ok t /\
                Iso (abs h) (abs t).

(* composition: the data of f ; g over the glued node list; the image is the composite of the
   images up to isomorphism.  [fwf], [fwg] are the object data of f and g, [fw] those of the composite
   (segment i = segment of any node of f or g glued to node i), [fx] the tensor of the batches *)
Definition C12_preserves_composition_full : Prop :=
  forall (B : Backend), BackendOK B ->
  forall (O1 A1 O2 A2 : Type) (eqO1 : O1 -> O1 -> bool) (eqO2 : O2 -> O2 -> bool),
    (forall x y, eqO1 x y = true <-> x = y) -> (forall x y, eqO2 x y = true <-> x = y) ->
  forall (F : O1 -> list O2) (f g fg : ohg O1 A1) (fwf fwg fw : ic (list O2)) (fxf fxg fx hf hg : ohg O2 A2),
    wf_ohg f -> wf_ohg g ->
    wf_ics fwf -> decode_s fwf = map F (h_w (o_h f)) -> wf_ohg fxf -> fx_typed f fwf fxf ->
    wf_ics fwg -> decode_s fwg = map F (h_w (o_h g)) -> wf_ohg fxg -> fx_typed g fwg fxg ->
    ohg_compose B eqO1 f g = Ok (Some fg) ->
    wf_ics fw -> decode_s fw = map F (h_w (o_h fg)) ->
    ohg_tensor fxf fxg = Ok fx ->
    spider_map_arrow B eqO2 f fwf fxf = Ok hf -> spider_map_arrow B eqO2 g fwg fxg = Ok hg ->
    exists h c, spider_map_arrow B eqO2 fg fw fx = Ok h /\ ohg_compose B eqO2 hf hg = Ok (Some c) /\
                Iso (abs h) (abs c).

(* ---------- the hypotheses are satisfiable ---------- *)
Definition ex12_empty : ohg nat nat := mkOHG (mkFF [] 0) (mkFF [] 0) (hg_discrete nat []).
(* F(12) = [22; 23], F(10) = [], F(11) = [21] *)
Definition ex12_fw3 : ic (list nat) := mkIC (mkFF [2; 0; 1] 4) [22; 23; 21].

Example ex12_empty_wf : wf_ohg ex12_empty.
Proof.
  unfold wf_ohg, wf_hg, wf_icf, wf_ic, wf_ff, all_lt, ic_len, ff_source; cbn.
  repeat split; repeat constructor.
Qed.

Example ex12_fw3_wf : wf_ics ex12_fw3.
Proof. split; reflexivity. Qed.

Example ex12_identity_data :
  exists i h i', ohg_identity nat [12; 10; 11] = Ok i /\
    spider_map_arrow VecBackend Nat.eqb i ex12_fw3 ex12_empty = Ok h /\ wf_ohg h /\
    ohg_identity nat (ic_values ex12_fw3) = Ok i' /\ NIso (abs h) (abs i').
Proof.
  exact (C12_preserves_identity VecBackend_ok nat Nat.eqb Nat.eqb_eq [12; 10; 11]
           ex12_fw3_wf eq_refl ex12_empty_wf eq_refl eq_refl).
Qed.

Example ex12_twist_data :
  exists t h t', ohg_twist nat [10; 11] [12] = Ok t /\
    spider_map_arrow VecBackend Nat.eqb t ex12_fw3 ex12_empty = Ok h /\ wf_ohg h /\
    ohg_twist nat [21] [22; 23] = Ok t' /\ NIso (abs h) (abs t').
Proof.
  exact (C12_preserves_twist VecBackend_ok nat Nat.eqb Nat.eqb_eq [10; 11] [12]
           ex12_fw3_wf eq_refl ex12_empty_wf eq_refl eq_refl).
Qed.

Example ex12_twist_vec :
  match (t <- ohg_twist nat [10; 11] [12] ;; spider_map_arrow VecBackend Nat.eqb t ex12_fw3 ex12_empty),
        ohg_twist nat [21] [22; 23] with
  | Ok h, Ok t' => abs h = abs t' | _, _ => False end.
Proof. vm_compute. reflexivity. Qed.
