(* Property C12, preservation of the tensor product: on the juxtaposed functor data the image of
   f (x) g is the tensor of the images up to a renumbering of nodes. *)
From OHG Require Import Spec.Plain Proofs.PrimsThm Proofs.CCThm Proofs.SegThm Proofs.C08Thm
  Proofs.C01Lemmas Proofs.C01Thm Proofs.BackendInst Proofs.C12Lemmas Proofs.C12Plain Proofs.C12Thm
  Proofs.C12Struct.

Set Implicit Arguments.
Arguments Nat.sub : simpl never.

(* ---------- block references into a concatenated size table ---------- *)
Lemma inj_table_app_l s1 s2 l : all_lt (length s1) l -> inj_table (s1 ++ s2) l = inj_table s1 l.
Proof.
  intros H. unfold inj_table. apply flat_map_ext_in'. intros v Hv.
  assert (Hlt : v < length s1) by (eapply all_lt_In; eauto).
  rewrite firstn_app. replace (v - length s1) with 0 by lia. cbn [firstn]. rewrite app_nil_r.
  rewrite app_nth1 by exact Hlt. reflexivity.
Qed.

Lemma inj_table_app_r s1 s2 l :
  inj_table (s1 ++ s2) (shiftl (length s1) l) = shiftl (list_sum s1) (inj_table s2 l).
Proof.
  unfold inj_table, shiftl. induction l as [|x l IH]; cbn [map flat_map]. reflexivity.
  rewrite map_app, IH. f_equal.
  rewrite firstn_app. rewrite firstn_all2 by lia. replace (x + length s1 - length s1) with x by lia.
  rewrite list_sum_app. rewrite app_nth2 by lia. replace (x + length s1 - length s1) with x by lia.
  rewrite (seq_shiftl (nth x s2 0) (list_sum s1 + list_sum (firstn x s2))).
  rewrite (seq_shiftl (nth x s2 0) (list_sum (firstn x s2))). unfold shiftl.
  rewrite map_map. apply map_ext. intros a. lia.
Qed.

(* ---------- the plain core: two substitution instances side by side ---------- *)
Section Core.
  Variables O A : Type.

  Definition sD (W Wx : list O) (efx : list (pedge A)) (XS XT : list nat) : pohg O A :=
    mkP (W ++ Wx) (map (shift_edge (length W)) efx) XS XT.
  Definition sP (N : nat) (XES XET insx outsx : list nat) : list (nat * nat) :=
    combine XES (shiftl N insx) ++ combine XET (shiftl N outsx).

  (* embeddings of the two small diagrams into the big one *)
  Definition emb_f (Nf Ng : nat) (a : nat) : nat := if a <? Nf then a else a + Ng.
  Definition emb_g (Nf Ng Mf : nat) (b : nat) : nat := if b <? Ng then b + Nf else b + Nf + Mf.

  Definition tq (Nf Ng Mf Kf : nat) (qf qg : nat -> nat) (i : nat) : nat :=
    if i <? Nf then qf i
    else if i <? Nf + Ng then qg (i - Nf) + Kf
    else if i <? Nf + Ng + Mf then qf (i - Ng)
    else qg (i - Nf - Mf) + Kf.

  Lemma subst_tensor_core
        (Wf Xf : list O) (ef : list (pedge A)) (Sf Tf ESf ETf insf outsf : list nat) (qf : nat -> nat) hf
        (Wg Xg : list O) (eg : list (pedge A)) (Sg Tg ESg ETg insg outsg : list nat) (qg : nat -> nat) hg :
    let Nf := length Wf in let Mf := length Xf in let Ng := length Wg in let Mg := length Xg in
    all_lt Nf Sf -> all_lt Nf Tf -> all_lt Nf ESf -> all_lt Nf ETf ->
    all_lt Mf insf -> all_lt Mf outsf ->
    (forall e, In e ef -> all_lt Mf (pe_src e) /\ all_lt Mf (pe_tgt e)) ->
    all_lt Ng Sg -> all_lt Ng Tg -> all_lt Ng ESg -> all_lt Ng ETg ->
    all_lt Mg insg -> all_lt Mg outsg ->
    (forall e, In e eg -> all_lt Mg (pe_src e) /\ all_lt Mg (pe_tgt e)) ->
    length ESf = length insf -> length ETf = length outsf ->
    IsQuot (sD Wf Xf ef Sf Tf) qf hf ->
    (forall i j, i < Nf + Mf -> j < Nf + Mf ->
       (qf i = qf j <-> conn (sP Nf ESf ETf insf outsf) i j)) ->
    IsQuot (sD Wg Xg eg Sg Tg) qg hg ->
    (forall i j, i < Ng + Mg -> j < Ng + Mg ->
       (qg i = qg j <-> conn (sP Ng ESg ETg insg outsg) i j)) ->
    let q := tq Nf Ng Mf (length (p_nodes hf)) qf qg in
    IsQuot (sD (Wf ++ Wg) (Xf ++ Xg) (ef ++ map (shift_edge Mf) eg)
               (Sf ++ shiftl Nf Sg) (Tf ++ shiftl Nf Tg)) q (ptensor hf hg) /\
    forall i j, i < (Nf + Ng) + (Mf + Mg) -> j < (Nf + Ng) + (Mf + Mg) ->
      (q i = q j <->
       conn (sP (Nf + Ng) (ESf ++ shiftl Nf ESg) (ETf ++ shiftl Nf ETg)
                (insf ++ shiftl Mf insg) (outsf ++ shiftl Mf outsg)) i j).
  Proof.
    intros Nf Mf Ng Mg HSf HTf HESf HETf Hif Hof Hef HSg HTg HESg HETg Hig Hog Heg LES LET
           (Rf & Sjf & Lf & Ef & If & Of) HKf (Rg & Sjg & Lg & Eg & Ig & Og) HKg q.
    cbn [sD p_nodes p_edges p_ins p_outs] in Rf, Sjf, Lf, Ef, If, Of, Rg, Sjg, Lg, Eg, Ig, Og.
    rewrite app_length in Rf, Sjf, Lf, Rg, Sjg, Lg. fold Nf Mf in Rf, Sjf, Lf, Ef. fold Ng Mg in Rg, Sjg, Lg, Eg.
    set (Kf := length (p_nodes hf)) in *. set (Kg := length (p_nodes hg)) in *.
    set (P := sP (Nf + Ng) (ESf ++ shiftl Nf ESg) (ETf ++ shiftl Nf ETg)
                 (insf ++ shiftl Mf insg) (outsf ++ shiftl Mf outsg)).
    (* q on the two embeddings *)
    assert (Hqf : forall a, a < Nf + Mf -> q (emb_f Nf Ng a) = qf a).
    { intros a Ha. unfold q, tq, emb_f. destruct (Nat.ltb_spec a Nf) as [H1|H1].
      - replace (a <? Nf) with true by (symmetry; apply Nat.ltb_lt; lia). reflexivity.
      - replace (a + Ng <? Nf) with false by (symmetry; apply Nat.ltb_ge; lia).
        replace (a + Ng <? Nf + Ng) with false by (symmetry; apply Nat.ltb_ge; lia).
        replace (a + Ng <? Nf + Ng + Mf) with true by (symmetry; apply Nat.ltb_lt; lia).
        f_equal. lia. }
    assert (Hqg : forall b, b < Ng + Mg -> q (emb_g Nf Ng Mf b) = qg b + Kf).
    { intros b Hb. unfold q, tq, emb_g. destruct (Nat.ltb_spec b Ng) as [H1|H1].
      - replace (b + Nf <? Nf) with false by (symmetry; apply Nat.ltb_ge; lia).
        replace (b + Nf <? Nf + Ng) with true by (symmetry; apply Nat.ltb_lt; lia).
        f_equal. f_equal. lia.
      - replace (b + Nf + Mf <? Nf) with false by (symmetry; apply Nat.ltb_ge; lia).
        replace (b + Nf + Mf <? Nf + Ng) with false by (symmetry; apply Nat.ltb_ge; lia).
        replace (b + Nf + Mf <? Nf + Ng + Mf) with false by (symmetry; apply Nat.ltb_ge; lia).
        f_equal. f_equal. lia. }
    assert (Hcover : forall i, i < (Nf + Ng) + (Mf + Mg) ->
              (exists a, a < Nf + Mf /\ i = emb_f Nf Ng a) \/ (exists b, b < Ng + Mg /\ i = emb_g Nf Ng Mf b)).
    { intros i Hi. destruct (lt_dec i Nf) as [H1|H1].
      - left. exists i. split; [lia|]. unfold emb_f.
        replace (i <? Nf) with true by (symmetry; apply Nat.ltb_lt; lia). reflexivity.
      - destruct (lt_dec i (Nf + Ng)) as [H2|H2].
        + right. exists (i - Nf). split; [lia|]. unfold emb_g.
          replace (i - Nf <? Ng) with true by (symmetry; apply Nat.ltb_lt; lia). lia.
        + destruct (lt_dec i (Nf + Ng + Mf)) as [H3|H3].
          * left. exists (i - Ng). split; [lia|]. unfold emb_f.
            replace (i - Ng <? Nf) with false by (symmetry; apply Nat.ltb_ge; lia). lia.
          * right. exists (i - Nf - Mf). split; [lia|]. unfold emb_g.
            replace (i - Nf - Mf <? Ng) with false by (symmetry; apply Nat.ltb_ge; lia). lia. }
    assert (Hemb_f_lo : forall a, a < Nf -> emb_f Nf Ng a = a).
    { intros a Ha. unfold emb_f. replace (a <? Nf) with true by (symmetry; apply Nat.ltb_lt; lia).
      reflexivity. }
    assert (Hemb_f_hi : forall x, emb_f Nf Ng (x + Nf) = x + (Nf + Ng)).
    { intros x. unfold emb_f. replace (x + Nf <? Nf) with false by (symmetry; apply Nat.ltb_ge; lia). lia. }
    assert (Hemb_g_lo : forall b, b < Ng -> emb_g Nf Ng Mf b = b + Nf).
    { intros b Hb. unfold emb_g. replace (b <? Ng) with true by (symmetry; apply Nat.ltb_lt; lia).
      reflexivity. }
    assert (Hemb_g_hi : forall x, emb_g Nf Ng Mf (x + Ng) = x + Mf + (Nf + Ng)).
    { intros x. unfold emb_g. replace (x + Ng <? Ng) with false by (symmetry; apply Nat.ltb_ge; lia). lia. }
    (* the pairs, split *)
    assert (EP : P = (combine ESf (shiftl (Nf + Ng) insf) ++
                      combine (shiftl Nf ESg) (shiftl (Nf + Ng) (shiftl Mf insg))) ++
                     (combine ETf (shiftl (Nf + Ng) outsf) ++
                      combine (shiftl Nf ETg) (shiftl (Nf + Ng) (shiftl Mf outsg)))).
    { unfold P, sP. rewrite !shiftl_app. f_equal; apply combine_app; rewrite shiftl_length; assumption. }
    assert (HPf : forall a b, In (a, b) (sP Nf ESf ETf insf outsf) ->
                    a < Nf + Mf /\ b < Nf + Mf /\ In (emb_f Nf Ng a, emb_f Nf Ng b) P).
    { intros a b Hin. unfold sP in Hin. rewrite EP. apply in_app_or in Hin. destruct Hin as [Hin|Hin].
      - unfold shiftl in Hin. apply in_combine_map_r in Hin. destruct Hin as (y & -> & Hin).
        assert (Ha : a < Nf) by (eapply all_lt_In; [exact HESf|]; eapply in_combine_l; eauto).
        assert (Hy : y < Mf) by (eapply all_lt_In; [exact Hif|]; eapply in_combine_r; eauto).
        split; [lia|]. split; [lia|]. rewrite Hemb_f_lo by exact Ha. rewrite Hemb_f_hi.
        apply in_or_app. left. apply in_or_app. left. unfold shiftl.
        apply in_combine_map_r. exists y. split; [reflexivity|exact Hin].
      - unfold shiftl in Hin. apply in_combine_map_r in Hin. destruct Hin as (y & -> & Hin).
        assert (Ha : a < Nf) by (eapply all_lt_In; [exact HETf|]; eapply in_combine_l; eauto).
        assert (Hy : y < Mf) by (eapply all_lt_In; [exact Hof|]; eapply in_combine_r; eauto).
        split; [lia|]. split; [lia|]. rewrite Hemb_f_lo by exact Ha. rewrite Hemb_f_hi.
        apply in_or_app. right. apply in_or_app. left. unfold shiftl.
        apply in_combine_map_r. exists y. split; [reflexivity|exact Hin]. }
    assert (HPg : forall a b, In (a, b) (sP Ng ESg ETg insg outsg) ->
                    a < Ng + Mg /\ b < Ng + Mg /\ In (emb_g Nf Ng Mf a, emb_g Nf Ng Mf b) P).
    { intros a b Hin. unfold sP in Hin. rewrite EP. apply in_app_or in Hin. destruct Hin as [Hin|Hin].
      - unfold shiftl in Hin. apply in_combine_map_r in Hin. destruct Hin as (y & -> & Hin).
        assert (Ha : a < Ng) by (eapply all_lt_In; [exact HESg|]; eapply in_combine_l; eauto).
        assert (Hy : y < Mg) by (eapply all_lt_In; [exact Hig|]; eapply in_combine_r; eauto).
        split; [lia|]. split; [lia|]. rewrite Hemb_g_lo by exact Ha. rewrite Hemb_g_hi.
        apply in_or_app. left. apply in_or_app. right. unfold shiftl.
        apply in_combine_map_r. exists (y + Mf). split; [reflexivity|].
        apply in_combine_map_r. exists y. split; [reflexivity|].
        apply in_combine_map_l. exists a. split; [reflexivity|exact Hin].
      - unfold shiftl in Hin. apply in_combine_map_r in Hin. destruct Hin as (y & -> & Hin).
        assert (Ha : a < Ng) by (eapply all_lt_In; [exact HETg|]; eapply in_combine_l; eauto).
        assert (Hy : y < Mg) by (eapply all_lt_In; [exact Hog|]; eapply in_combine_r; eauto).
        split; [lia|]. split; [lia|]. rewrite Hemb_g_lo by exact Ha. rewrite Hemb_g_hi.
        apply in_or_app. right. apply in_or_app. right. unfold shiftl.
        apply in_combine_map_r. exists (y + Mf). split; [reflexivity|].
        apply in_combine_map_r. exists y. split; [reflexivity|].
        apply in_combine_map_l. exists a. split; [reflexivity|exact Hin]. }
    assert (HPinv : forall x y, In (x, y) P ->
              (exists a b, In (a, b) (sP Nf ESf ETf insf outsf) /\ x = emb_f Nf Ng a /\ y = emb_f Nf Ng b) \/
              (exists a b, In (a, b) (sP Ng ESg ETg insg outsg) /\ x = emb_g Nf Ng Mf a /\ y = emb_g Nf Ng Mf b)).
    { intros x y Hin. rewrite EP in Hin.
      apply in_app_or in Hin. destruct Hin as [Hin|Hin]; apply in_app_or in Hin; destruct Hin as [Hin|Hin].
      - unfold shiftl in Hin. apply in_combine_map_r in Hin. destruct Hin as (b & -> & Hin).
        assert (Ha : x < Nf) by (eapply all_lt_In; [exact HESf|]; eapply in_combine_l; eauto).
        left. exists x, (b + Nf). split; [|split].
        + unfold sP. apply in_or_app. left. unfold shiftl. apply in_combine_map_r. exists b. auto.
        + symmetry. apply Hemb_f_lo. exact Ha.
        + symmetry. apply Hemb_f_hi.
      - unfold shiftl in Hin. apply in_combine_map_r in Hin. destruct Hin as (b1 & -> & Hin).
        apply in_combine_map_r in Hin. destruct Hin as (b & -> & Hin).
        apply in_combine_map_l in Hin. destruct Hin as (a & -> & Hin).
        assert (Ha : a < Ng) by (eapply all_lt_In; [exact HESg|]; eapply in_combine_l; eauto).
        right. exists a, (b + Ng). split; [|split].
        + unfold sP. apply in_or_app. left. unfold shiftl. apply in_combine_map_r. exists b. auto.
        + symmetry. apply Hemb_g_lo. exact Ha.
        + symmetry. apply Hemb_g_hi.
      - unfold shiftl in Hin. apply in_combine_map_r in Hin. destruct Hin as (b & -> & Hin).
        assert (Ha : x < Nf) by (eapply all_lt_In; [exact HETf|]; eapply in_combine_l; eauto).
        left. exists x, (b + Nf). split; [|split].
        + unfold sP. apply in_or_app. right. unfold shiftl. apply in_combine_map_r. exists b. auto.
        + symmetry. apply Hemb_f_lo. exact Ha.
        + symmetry. apply Hemb_f_hi.
      - unfold shiftl in Hin. apply in_combine_map_r in Hin. destruct Hin as (b1 & -> & Hin).
        apply in_combine_map_r in Hin. destruct Hin as (b & -> & Hin).
        apply in_combine_map_l in Hin. destruct Hin as (a & -> & Hin).
        assert (Ha : a < Ng) by (eapply all_lt_In; [exact HETg|]; eapply in_combine_l; eauto).
        right. exists a, (b + Ng). split; [|split].
        + unfold sP. apply in_or_app. right. unfold shiftl. apply in_combine_map_r. exists b. auto.
        + symmetry. apply Hemb_g_lo. exact Ha.
        + symmetry. apply Hemb_g_hi. }
    split.
    - (* the quotient *)
      unfold IsQuot. cbn [sD ptensor p_nodes p_edges p_ins p_outs].
      rewrite !app_length. fold Nf Ng Mf Mg Kf Kg.
      split; [|split; [|split; [|split; [|split]]]].
      + intros i Hi. destruct (Hcover i Hi) as [(a & Ha & ->)|(b & Hb & ->)].
        * rewrite Hqf by exact Ha. specialize (Rf a Ha). lia.
        * rewrite Hqg by exact Hb. specialize (Rg b Hb). lia.
      + intros j Hj. destruct (lt_dec j Kf) as [H1|H1].
        * destruct (Sjf j H1) as (a & Ha & Ea). exists (emb_f Nf Ng a). split.
          -- unfold emb_f. destruct (a <? Nf); lia.
          -- rewrite Hqf by exact Ha. exact Ea.
        * destruct (Sjg (j - Kf) ltac:(lia)) as (b & Hb & Eb). exists (emb_g Nf Ng Mf b). split.
          -- unfold emb_g. destruct (b <? Ng); lia.
          -- rewrite Hqg by exact Hb. lia.
      + intros i Hi. destruct (Hcover i Hi) as [(a & Ha & ->)|(b & Hb & ->)].
        * rewrite Hqf by exact Ha. rewrite nth_error_app1 by (apply Rf; exact Ha).
          rewrite Lf by exact Ha. destruct (lt_dec a Nf) as [H1|H1].
          -- rewrite Hemb_f_lo by exact H1. rewrite nth_error_app1 by (fold Nf; lia).
             rewrite <- app_assoc. rewrite nth_error_app1 by (fold Nf; lia). reflexivity.
          -- replace a with ((a - Nf) + Nf) by lia. rewrite Hemb_f_hi.
             rewrite nth_error_app2 by (fold Nf; lia).
             rewrite nth_error_app2 by (rewrite app_length; fold Nf Ng; lia).
             rewrite app_length. fold Nf Ng. rewrite nth_error_app1 by (fold Mf; lia).
             f_equal. lia.
        * rewrite Hqg by exact Hb. rewrite nth_error_app2 by (fold Kf; lia). fold Kf.
          replace (qg b + Kf - Kf) with (qg b) by lia.
          rewrite Lg by exact Hb. destruct (lt_dec b Ng) as [H1|H1].
          -- rewrite Hemb_g_lo by exact H1. rewrite nth_error_app1 by (fold Ng; lia).
             rewrite <- app_assoc. rewrite nth_error_app2 by (fold Nf; lia). fold Nf.
             rewrite nth_error_app1 by (fold Ng; lia). f_equal. lia.
          -- replace b with ((b - Ng) + Ng) by lia. rewrite Hemb_g_hi.
             rewrite nth_error_app2 by (fold Ng; lia).
             rewrite nth_error_app2 by (rewrite app_length; fold Nf Ng; lia).
             rewrite app_length. fold Nf Ng. rewrite nth_error_app2 by (fold Mf; lia).
             fold Ng Mf. f_equal. lia.
      + rewrite Ef, Eg. rewrite !map_app, !map_map. f_equal.
        * apply map_ext_in. intros e He. destruct (Hef e He) as [Hs Ht].
          unfold map_edge, shift_edge, shiftl. cbn [pe_lbl pe_src pe_tgt]. rewrite !map_map.
          f_equal.
          -- apply map_ext_in. intros x Hx.
             assert (Hx' : x < Mf) by (eapply all_lt_In; [exact Hs|exact Hx]).
             rewrite <- (Hqf (x + Nf)) by lia. rewrite Hemb_f_hi. reflexivity.
          -- apply map_ext_in. intros x Hx.
             assert (Hx' : x < Mf) by (eapply all_lt_In; [exact Ht|exact Hx]).
             rewrite <- (Hqf (x + Nf)) by lia. rewrite Hemb_f_hi. reflexivity.
        * apply map_ext_in. intros e He. destruct (Heg e He) as [Hs Ht].
          unfold map_edge, shift_edge, shiftl. cbn [pe_lbl pe_src pe_tgt]. rewrite !map_map.
          f_equal.
          -- apply map_ext_in. intros x Hx.
             assert (Hx' : x < Mg) by (eapply all_lt_In; [exact Hs|exact Hx]).
             rewrite <- (Hqg (x + Ng)) by lia. rewrite Hemb_g_hi. reflexivity.
          -- apply map_ext_in. intros x Hx.
             assert (Hx' : x < Mg) by (eapply all_lt_In; [exact Ht|exact Hx]).
             rewrite <- (Hqg (x + Ng)) by lia. rewrite Hemb_g_hi. reflexivity.
      + rewrite If, Ig. rewrite map_app. unfold shiftl. rewrite !map_map. f_equal.
        * apply map_ext_in. intros a Ha.
          assert (Ha' : a < Nf) by (eapply all_lt_In; [exact HSf|exact Ha]).
          rewrite <- (Hqf a) by lia. rewrite Hemb_f_lo by exact Ha'. reflexivity.
        * apply map_ext_in. intros b Hb.
          assert (Hb' : b < Ng) by (eapply all_lt_In; [exact HSg|exact Hb]).
          rewrite <- (Hqg b) by lia. rewrite Hemb_g_lo by exact Hb'. reflexivity.
      + rewrite Of, Og. rewrite map_app. unfold shiftl. rewrite !map_map. f_equal.
        * apply map_ext_in. intros a Ha.
          assert (Ha' : a < Nf) by (eapply all_lt_In; [exact HTf|exact Ha]).
          rewrite <- (Hqf a) by lia. rewrite Hemb_f_lo by exact Ha'. reflexivity.
        * apply map_ext_in. intros b Hb.
          assert (Hb' : b < Ng) by (eapply all_lt_In; [exact HTg|exact Hb]).
          rewrite <- (Hqg b) by lia. rewrite Hemb_g_lo by exact Hb'. reflexivity.
    - (* the kernel *)
      assert (Hliftf : forall a b, conn (sP Nf ESf ETf insf outsf) a b ->
                         conn P (emb_f Nf Ng a) (emb_f Nf Ng b)).
      { apply (@conn_glue_impl (sP Nf ESf ETf insf outsf)
                 (fun a b => conn P (emb_f Nf Ng a) (emb_f Nf Ng b))).
        - intros x. apply conn_refl.
        - intros x y. apply conn_sym.
        - intros x y z. apply conn_trans.
        - intros x y Hin. apply conn_step. apply (HPf x y Hin). }
      assert (Hliftg : forall a b, conn (sP Ng ESg ETg insg outsg) a b ->
                         conn P (emb_g Nf Ng Mf a) (emb_g Nf Ng Mf b)).
      { apply (@conn_glue_impl (sP Ng ESg ETg insg outsg)
                 (fun a b => conn P (emb_g Nf Ng Mf a) (emb_g Nf Ng Mf b))).
        - intros x. apply conn_refl.
        - intros x y. apply conn_sym.
        - intros x y z. apply conn_trans.
        - intros x y Hin. apply conn_step. apply (HPg x y Hin). }
      intros i j Hi Hj. split.
      + intros Eq.
        destruct (Hcover i Hi) as [(a & Ha & ->)|(b & Hb & ->)];
          destruct (Hcover j Hj) as [(a' & Ha' & ->)|(b' & Hb' & ->)].
        * rewrite !Hqf in Eq by assumption. apply Hliftf. apply HKf; assumption.
        * exfalso. rewrite Hqf in Eq by assumption. rewrite Hqg in Eq by assumption.
          specialize (Rf a Ha). lia.
        * exfalso. rewrite Hqf in Eq by assumption. rewrite Hqg in Eq by assumption.
          specialize (Rf a' Ha'). lia.
        * rewrite !Hqg in Eq by assumption. apply Hliftg. apply HKg; try assumption. lia.
      + revert i j Hi Hj.
        assert (Himpl : forall i j, conn P i j -> q i = q j).
        { apply (@conn_glue_impl P (fun x y => q x = q y)); try congruence.
          intros x y Hin. destruct (HPinv x y Hin) as [(a & b & Hab & -> & ->)|(a & b & Hab & -> & ->)].
          - destruct (HPf a b Hab) as (Ha & Hb & _). rewrite !Hqf by assumption.
            apply HKf; try assumption. apply conn_step. exact Hab.
          - destruct (HPg a b Hab) as (Ha & Hb & _). rewrite !Hqg by assumption.
            f_equal. apply HKg; try assumption. apply conn_step. exact Hab. }
        intros i j _ _. apply Himpl.
  Qed.
End Core.

(* ---------- the functor data of a tensor ---------- *)
Lemma map_nth_error_app {T} (w1 w2 : list T) l1 l2 : all_lt (length w1) l1 ->
  map (nth_error (w1 ++ w2)) (l1 ++ shiftl (length w1) l2) = map (nth_error w1) l1 ++ map (nth_error w2) l2.
Proof.
  intros H. rewrite map_app. f_equal.
  - apply map_ext_in. intros a Ha. apply nth_error_app1. eapply all_lt_In; eauto.
  - unfold shiftl. rewrite map_map. apply map_ext. intros a.
    rewrite nth_error_app2 by lia. f_equal. lia.
Qed.

Section Coprod.
  Variable T : Type.
  Implicit Types c d : ic (list T).

  Definition coprod_pure c d : ic (list T) :=
    mkIC (mkFF (table (ic_sources c) ++ table (ic_sources d))
               (target (ic_sources c) + target (ic_sources d) - 1))
         (ic_values c ++ ic_values d).

  Lemma ic_coproduct_val c d : wf_ics c ->
    ic_coproduct (semi_vops T) c d = Ok (Some (coprod_pure c d)).
  Proof. intros [C1 _]. unfold ic_coproduct. rewrite sub_chk_ok by lia. reflexivity. Qed.

  Lemma wf_coprod_pure c d : wf_ics c -> wf_ics d -> wf_ics (coprod_pure c d).
  Proof.
    intros [C1 C2] [D1 D2]. split; cbn [coprod_pure ic_sources ic_values table target].
    - rewrite list_sum_app. lia.
    - rewrite list_sum_app, app_length. lia.
  Qed.

  Lemma ic_len_coprod c d : ic_len (coprod_pure c d) = ic_len c + ic_len d.
  Proof. unfold ic_len, ff_source. cbn [coprod_pure ic_sources table]. apply app_length. Qed.

  Lemma expand_coprod_l c d l : all_lt (ic_len c) l -> expand (coprod_pure c d) l = expand c l.
  Proof. intros H. unfold expand. cbn [coprod_pure ic_sources table]. apply inj_table_app_l. exact H. Qed.

  Lemma expand_coprod_r c d l : wf_ics c ->
    expand (coprod_pure c d) (shiftl (ic_len c) l) = shiftl (length (ic_values c)) (expand d l).
  Proof.
    intros [_ C2]. unfold expand, ic_len, ff_source. cbn [coprod_pure ic_sources table].
    rewrite inj_table_app_r, C2. reflexivity.
  Qed.
End Coprod.

Section Tensor.
  Variable B : Backend.
  Hypothesis OK : BackendOK B.
  Variables O1 A1 O2 A2 : Type.
  Variable eqO2 : O2 -> O2 -> bool.
  Hypothesis eqO2_spec : forall x y, eqO2 x y = true <-> x = y.

  Variables (f g : ohg O1 A1) (fwf fwg : ic (list O2)) (fxf fxg : ohg O2 A2).
  Hypothesis Hf : wf_ohg f.
  Hypothesis Hg : wf_ohg g.
  Hypothesis Hwf : wf_ics fwf.
  Hypothesis Hlenf : ic_len fwf = length (h_w (o_h f)).
  Hypothesis Hfxf : wf_ohg fxf.
  Hypothesis Htyf : fx_typed f fwf fxf.
  Hypothesis Hwg : wf_ics fwg.
  Hypothesis Hleng : ic_len fwg = length (h_w (o_h g)).
  Hypothesis Hfxg : wf_ohg fxg.
  Hypothesis Htyg : fx_typed g fwg fxg.

  Let fg := tensor_pure f g.
  Let fw := coprod_pure fwf fwg.
  Let fx := tensor_pure fxf fxg.

  Lemma expand_tensor_list l1 l2 : all_lt (length (h_w (o_h f))) l1 ->
    expand fw (l1 ++ add_scalar (length (h_w (o_h f))) l2) =
    expand fwf l1 ++ shiftl (length (ic_values fwf)) (expand fwg l2).
  Proof.
    intros H. unfold fw. rewrite expand_app. rewrite <- Hlenf in *.
    rewrite expand_coprod_l by exact H.
    change (add_scalar (ic_len fwf) l2) with (shiftl (ic_len fwf) l2).
    rewrite expand_coprod_r by exact Hwf. reflexivity.
  Qed.

  Lemma edge_sources_tensor :
    edge_sources fg = edge_sources f ++ add_scalar (length (h_w (o_h f))) (edge_sources g).
  Proof.
    destruct Hf as ((_ & _ & _ & _ & Hws & _) & _).
    unfold edge_sources, fg, tensor_pure, tens_ic, ff_tensor. cbn [o_h h_s ic_values table].
    rewrite Hws. reflexivity.
  Qed.

  Lemma edge_targets_tensor :
    edge_targets fg = edge_targets f ++ add_scalar (length (h_w (o_h f))) (edge_targets g).
  Proof.
    destruct Hf as ((_ & _ & _ & _ & _ & Hwt) & _).
    unfold edge_targets, fg, tensor_pure, tens_ic, ff_tensor. cbn [o_h h_t ic_values table].
    rewrite Hwt. reflexivity.
  Qed.

  Lemma wf_f_bounds :
    all_lt (length (h_w (o_h f))) (table (o_s f)) /\ all_lt (length (h_w (o_h f))) (table (o_t f)) /\
    all_lt (length (h_w (o_h f))) (edge_sources f) /\ all_lt (length (h_w (o_h f))) (edge_targets f).
  Proof.
    destruct Hf as (((_ & Hs) & (_ & Ht) & _ & _ & Hws & Hwt) & Hi & Ho & Hit & Hot).
    unfold wf_ff in *. rewrite Hws in Hs. rewrite Hwt in Ht. rewrite Hit in Hi. rewrite Hot in Ho.
    auto.
  Qed.

  Lemma fx_typed_tensor : fx_typed fg fw fx.
  Proof.
    destruct wf_f_bounds as (_ & _ & HES & HET).
    destruct Htyf as [Hsf Htf]. destruct Htyg as [Hsg Htg].
    pose proof (wf_abs_pwf Hfxf) as (_ & Hif & Hof).
    unfold fx_typed. rewrite edge_sources_tensor, edge_targets_tensor.
    rewrite !expand_tensor_list by assumption.
    unfold fx. rewrite abs_tensor_pure by exact Hfxf.
    unfold src_type, tgt_type. cbn [ptensor p_ins p_outs].
    rewrite !type_ptensor by assumption.
    unfold fw. cbn [coprod_pure ic_values].
    rewrite !map_nth_error_app by (apply expand_lt; exact Hwf).
    unfold src_type in Hsf, Hsg. unfold tgt_type in Htf, Htg. rewrite Hsf, Hsg, Htf, Htg.
    split; reflexivity.
  Qed.

  Lemma subst_D_tensor :
    subst_D fg fw fx =
    sD (ic_values fwf ++ ic_values fwg) (h_w (o_h fxf) ++ h_w (o_h fxg))
       (p_edges (abs fxf) ++ map (shift_edge (length (h_w (o_h fxf)))) (p_edges (abs fxg)))
       (expand fwf (table (o_s f)) ++ shiftl (length (ic_values fwf)) (expand fwg (table (o_s g))))
       (expand fwf (table (o_t f)) ++ shiftl (length (ic_values fwf)) (expand fwg (table (o_t g)))).
  Proof.
    destruct wf_f_bounds as (HS & HT & _ & _).
    destruct Hf as (_ & _ & _ & Hit & Hot).
    unfold subst_D, sD. unfold fx. rewrite abs_tensor_pure by exact Hfxf.
    cbn [ptensor p_edges p_nodes abs o_h tensor_pure h_w fg o_s o_t ff_tensor table].
    rewrite Hit, Hot. rewrite !expand_tensor_list by assumption. reflexivity.
  Qed.

  Lemma subst_pairs_tensor :
    subst_pairs fg fw fx =
    sP (length (ic_values fwf) + length (ic_values fwg))
       (expand fwf (edge_sources f) ++ shiftl (length (ic_values fwf)) (expand fwg (edge_sources g)))
       (expand fwf (edge_targets f) ++ shiftl (length (ic_values fwf)) (expand fwg (edge_targets g)))
       (p_ins (abs fxf) ++ shiftl (length (h_w (o_h fxf))) (p_ins (abs fxg)))
       (p_outs (abs fxf) ++ shiftl (length (h_w (o_h fxf))) (p_outs (abs fxg))).
  Proof.
    destruct wf_f_bounds as (_ & _ & HES & HET).
    destruct Hfxf as (_ & _ & _ & Hit & Hot).
    unfold subst_pairs, sP. rewrite edge_sources_tensor, edge_targets_tensor.
    rewrite !expand_tensor_list by assumption.
    unfold fx, fw. cbn [abs p_ins p_outs tensor_pure o_s o_t ff_tensor table coprod_pure ic_values].
    rewrite Hit, Hot, app_length. reflexivity.
  Qed.

  (* two substitution instances side by side form the substitution instance of the tensor *)
  Lemma IsSubst_tensor (Pf Pg : pohg O2 A2) :
    IsSubst f fwf fxf Pf -> IsSubst g fwg fxg Pg -> IsSubst fg fw fx (ptensor Pf Pg).
  Proof.
    intros (qf & HQf & HKf) (qg & HQg & HKg).
    pose proof (wf_abs_pwf Hfxf) as (Hef & Hif & Hof).
    pose proof (wf_abs_pwf Hfxg) as (Heg & Hig & Hog).
    destruct Htyf as [Hsf Htf]. destruct Htyg as [Hsg Htg].
    assert (LES : length (expand fwf (edge_sources f)) = length (p_ins (abs fxf))).
    { apply (f_equal (@length _)) in Hsf. unfold src_type, type_of in Hsf.
      rewrite !map_length in Hsf. symmetry. exact Hsf. }
    assert (LET : length (expand fwf (edge_targets f)) = length (p_outs (abs fxf))).
    { apply (f_equal (@length _)) in Htf. unfold tgt_type, type_of in Htf.
      rewrite !map_length in Htf. symmetry. exact Htf. }
    destruct (@subst_tensor_core O2 A2
                (ic_values fwf) (h_w (o_h fxf)) (p_edges (abs fxf))
                (expand fwf (table (o_s f))) (expand fwf (table (o_t f)))
                (expand fwf (edge_sources f)) (expand fwf (edge_targets f))
                (p_ins (abs fxf)) (p_outs (abs fxf)) qf Pf
                (ic_values fwg) (h_w (o_h fxg)) (p_edges (abs fxg))
                (expand fwg (table (o_s g))) (expand fwg (table (o_t g)))
                (expand fwg (edge_sources g)) (expand fwg (edge_targets g))
                (p_ins (abs fxg)) (p_outs (abs fxg)) qg Pg
                (expand_lt _ Hwf) (expand_lt _ Hwf) (expand_lt _ Hwf) (expand_lt _ Hwf) Hif Hof Hef
                (expand_lt _ Hwg) (expand_lt _ Hwg) (expand_lt _ Hwg) (expand_lt _ Hwg) Hig Hog Heg
                LES LET HQf HKf HQg HKg) as [HQ HK].
    eexists. split.
    - rewrite subst_D_tensor. exact HQ.
    - rewrite subst_pairs_tensor. unfold fw, fx. cbn [coprod_pure ic_values tensor_pure o_h h_w].
      rewrite !app_length. exact HK.
  Qed.

  Theorem C12_preserves_tensor :
    exists hf hg h t,
      ohg_tensor f g = Ok fg /\ ic_coproduct (semi_vops O2) fwf fwg = Ok (Some fw) /\
      ohg_tensor fxf fxg = Ok fx /\
      spider_map_arrow B eqO2 f fwf fxf = Ok hf /\ spider_map_arrow B eqO2 g fwg fxg = Ok hg /\
      spider_map_arrow B eqO2 fg fw fx = Ok h /\ ohg_tensor hf hg = Ok t /\
      wf_ohg h /\ wf_ohg t /\ NIso (abs h) (abs t).
  Proof.
    destruct (C12_substitution_gen OK eqO2 eqO2_spec Hf Hwf Hlenf Hfxf Htyf) as (hf & Hrf & Hwhf & Hsubf).
    destruct (C12_substitution_gen OK eqO2 eqO2_spec Hg Hwg Hleng Hfxg Htyg) as (hg & Hrg & Hwhg & Hsubg).
    assert (Hfg : wf_ohg fg) by (apply wf_tensor_pure; assumption).
    assert (Hfw : wf_ics fw) by (apply wf_coprod_pure; assumption).
    assert (Hfx : wf_ohg fx) by (apply wf_tensor_pure; assumption).
    assert (Hlen : ic_len fw = length (h_w (o_h fg))).
    { unfold fw, fg. rewrite ic_len_coprod. cbn [tensor_pure o_h h_w]. rewrite app_length. lia. }
    destruct (C12_substitution_gen OK eqO2 eqO2_spec Hfg Hfw Hlen Hfx fx_typed_tensor)
      as (h & Hr & Hwh & Hsub).
    exists hf, hg, h, (tensor_pure hf hg).
    split; [apply ohg_tensor_val; exact Hf|]. split; [apply ic_coproduct_val; exact Hwf|].
    split; [apply ohg_tensor_val; exact Hfxf|]. split; [exact Hrf|]. split; [exact Hrg|].
    split; [exact Hr|]. split; [apply ohg_tensor_val; exact Hwhf|]. split; [exact Hwh|].
    split; [apply wf_tensor_pure; assumption|].
    rewrite abs_tensor_pure by exact Hwhf.
    apply (C12_subst_unique Hfw Hfx Hsub).
    apply IsSubst_tensor; assumption.
  Qed.
End Tensor.

(* the statement of C12Struct.v *)
Theorem C12_preserves_tensor_holds : C12_preserves_tensor_full.
Proof.
  intros B OK O1 A1 O2 A2 eqO2 eqO2_spec f g fg fwf fwg fw fxf fxg fx hf hg
         Hf Hg Hwf Hlenf Hfxf Htyf Hwg Hleng Hfxg Htyg Efg Efw Efx Ehf Ehg.
  destruct (C12_preserves_tensor OK eqO2 eqO2_spec Hf Hg Hwf Hlenf Hfxf Htyf Hwg Hleng Hfxg Htyg)
    as (hf' & hg' & h & t & E1 & E2 & E3 & E4 & E5 & E6 & E7 & _ & _ & HN).
  assert (fg = tensor_pure f g) by congruence.
  assert (fw = coprod_pure fwf fwg) by congruence.
  assert (fx = tensor_pure fxf fxg) by congruence.
  assert (hf' = hf) by congruence. assert (hg' = hg) by congruence. subst.
  exists h, t. split; [exact E6|]. split; [exact E7|]. apply NIso_Iso. exact HN.
Qed.
