(* Property C12: applying a strict functor (given as data: the mapped objects [fw] and the mapped
   operation batch [fx]) to a diagram is substitution; definedness and typing of
   [spider_map_arrow]. *)
From OHG Require Import Spec.Plain Proofs.PrimsThm Proofs.CCThm Proofs.SegThm Proofs.C08Thm
  Proofs.C01Lemmas Proofs.C01Thm Proofs.BackendInst Proofs.C12Lemmas Proofs.C12Plain.

Set Implicit Arguments.
Arguments Nat.sub : simpl never.

Section C12.
  Variable B : Backend.
  Hypothesis OK : BackendOK B.
  Variables O1 A1 O2 A2 : Type.
  Variable eqO2 : O2 -> O2 -> bool.
  Hypothesis eqO2_spec : forall x y, eqO2 x y = true <-> x = y.

  Implicit Types (f : ohg O1 A1) (fw : ic (list O2)) (fx : ohg O2 A2).

  (* all hyperedge sources / targets of f, concatenated *)
  Definition edge_sources f : list nat := table (ic_values (h_s (o_h f))).
  Definition edge_targets f : list nat := table (ic_values (h_t (o_h f))).

  (* the typing hypotheses on the mapped operation batch, without a default label *)
  Definition fx_typed f fw fx : Prop :=
    src_type (abs fx) = map (nth_error (ic_values fw)) (expand fw (edge_sources f)) /\
    tgt_type (abs fx) = map (nth_error (ic_values fw)) (expand fw (edge_targets f)).

  (* the run of spider_map_arrow: both compositions are defined and are gluings *)
  Lemma c12_run f fw fx :
    wf_ohg f -> wf_ics fw -> ic_len fw = length (h_w (o_h f)) -> wf_ohg fx -> fx_typed f fw fx ->
    exists c1 h, spider_map_arrow B eqO2 f fw fx = Ok h /\ wf_ohg c1 /\ wf_ohg h /\
      IsCompose (abs (c12_sx A2 f fw)) (abs (c12_ifx fw fx)) (abs c1) /\
      IsCompose (abs c1) (abs (c12_yt A2 f fw)) (abs h).
  Proof.
    intros Hf Hw Hlen Hfx [Hts Htt].
    pose proof (wf_c12_sx A2 f Hw) as Hsx.
    pose proof (wf_c12_yt A2 f Hw) as Hyt.
    pose proof (wf_c12_ifx fw Hfx) as Hifx.
    assert (Hty1 : tgt_type (abs (c12_sx A2 f fw)) = src_type (abs (c12_ifx fw fx))).
    { rewrite src_type_c12_ifx, Hts, abs_c12_sx. unfold tgt_type, type_of. cbn [p_outs p_nodes].
      rewrite map_app. reflexivity. }
    destruct (C01_compose_is_gluing OK eqO2 eqO2_spec Hsx Hifx Hty1) as (c1 & Hc1 & Hwf1 & Hic1).
    destruct (C01_types Hsx Hifx Hic1) as [_ Ht1].
    assert (Hty2 : tgt_type (abs c1) = src_type (abs (c12_yt A2 f fw))).
    { rewrite Ht1, tgt_type_c12_ifx, Htt, abs_c12_yt. unfold src_type, type_of. cbn [p_ins p_nodes].
      rewrite map_app. reflexivity. }
    destruct (C01_compose_is_gluing OK eqO2 eqO2_spec Hwf1 Hyt Hty2) as (h & Hh & Hwfh & Hich).
    exists c1, h. split; [|split; [|split; [|split]]; assumption].
    rewrite spider_map_arrow_unfold by assumption.
    rewrite Hc1. cbn [bind unwrap]. rewrite Hh. reflexivity.
  Qed.

  (* Step 1, label-default-free form *)
  Theorem C12_defined_typed_gen f fw fx :
    wf_ohg f -> wf_ics fw -> ic_len fw = length (h_w (o_h f)) -> wf_ohg fx -> fx_typed f fw fx ->
    exists h, spider_map_arrow B eqO2 f fw fx = Ok h /\ wf_ohg h /\
      src_type (abs h) = map (nth_error (ic_values fw)) (expand fw (table (o_s f))) /\
      tgt_type (abs h) = map (nth_error (ic_values fw)) (expand fw (table (o_t f))).
  Proof.
    intros Hf Hw Hlen Hfx Hty.
    destruct (c12_run Hf Hw Hlen Hfx Hty) as (c1 & h & Hrun & Hwf1 & Hwfh & Hic1 & Hich).
    exists h. split; [exact Hrun|]. split; [exact Hwfh|].
    destruct (C01_types (wf_c12_sx A2 f Hw) (wf_c12_ifx fw Hfx) Hic1) as [Hs1 _].
    destruct (C01_types Hwf1 (wf_c12_yt A2 f Hw) Hich) as [Hs2 Ht2].
    split.
    - rewrite Hs2, Hs1. reflexivity.
    - rewrite Ht2. reflexivity.
  Qed.

  (* Step 1 as stated: F maps a diagram of type A -> B to one of type F(A) -> F(B), never panics *)
  Theorem C12_defined_typed : forall f fw fx (d : O2),
    wf_ohg f -> wf_ics fw -> ic_len fw = length (h_w (o_h f)) -> wf_ohg fx ->
    src_type (abs fx) =
      map Some (map (fun j => nth j (ic_values fw) d) (expand fw (table (ic_values (h_s (o_h f)))))) ->
    tgt_type (abs fx) =
      map Some (map (fun j => nth j (ic_values fw) d) (expand fw (table (ic_values (h_t (o_h f)))))) ->
    exists h, spider_map_arrow B eqO2 f fw fx = Ok h /\ wf_ohg h /\
      src_type (abs h) = map Some (map (fun j => nth j (ic_values fw) d) (expand fw (table (o_s f)))) /\
      tgt_type (abs h) = map Some (map (fun j => nth j (ic_values fw) d) (expand fw (table (o_t f)))).
  Proof.
    intros f fw fx d Hf Hw Hlen Hfx Hs Ht.
    assert (Hty : fx_typed f fw fx).
    { split.
      - rewrite Hs. symmetry. apply map_nth_error_lt. apply expand_lt. exact Hw.
      - rewrite Ht. symmetry. apply map_nth_error_lt. apply expand_lt. exact Hw. }
    destruct (C12_defined_typed_gen Hf Hw Hlen Hfx Hty) as (h & Hrun & Hwfh & Hsh & Hth).
    exists h. split; [exact Hrun|]. split; [exact Hwfh|]. split.
    - rewrite Hsh. apply map_nth_error_lt. apply expand_lt. exact Hw.
    - rewrite Hth. apply map_nth_error_lt. apply expand_lt. exact Hw.
  Qed.
  (* ---------- Step 2: the result is the substitution instance ---------- *)
  (* the disjoint union of the discrete diagram on the mapped objects and the mapped operation batch,
     with the expanded interfaces of f *)
  Definition subst_D f fw fx : pohg O2 A2 :=
    mkP (ic_values fw ++ h_w (o_h fx))
        (map (shift_edge (length (ic_values fw))) (p_edges (abs fx)))
        (expand fw (table (o_s f))) (expand fw (table (o_t f))).

  (* every expanded hyperedge source is glued to the corresponding input of the image of its
     operation, every expanded hyperedge target to the corresponding output *)
  Definition subst_pairs f fw fx : list (nat * nat) :=
    combine (expand fw (edge_sources f)) (shiftl (length (ic_values fw)) (p_ins (abs fx))) ++
    combine (expand fw (edge_targets f)) (shiftl (length (ic_values fw)) (p_outs (abs fx))).

  Definition IsSubst f fw fx (h : pohg O2 A2) : Prop :=
    exists q, IsQuot (subst_D f fw fx) q h /\
      forall i j, i < length (ic_values fw) + length (h_w (o_h fx)) ->
                  j < length (ic_values fw) + length (h_w (o_h fx)) ->
                  (q i = q j <-> conn (subst_pairs f fw fx) i j).

  Lemma subst_D_is_union f fw fx :
    p_nodes (subst_D f fw fx) = p_nodes (ptensor (mkP (ic_values fw) [] [] []) (abs fx)) /\
    p_edges (subst_D f fw fx) = p_edges (ptensor (mkP (ic_values fw) [] [] []) (abs fx)).
  Proof. split; reflexivity. Qed.

  Theorem C12_substitution_gen f fw fx :
    wf_ohg f -> wf_ics fw -> ic_len fw = length (h_w (o_h f)) -> wf_ohg fx -> fx_typed f fw fx ->
    exists h, spider_map_arrow B eqO2 f fw fx = Ok h /\ wf_ohg h /\ IsSubst f fw fx (abs h).
  Proof.
    intros Hf Hw Hlen Hfx Hty.
    destruct (c12_run Hf Hw Hlen Hfx Hty) as (c1 & h & Hrun & Hwf1 & Hwfh & Hic1 & Hich).
    exists h. split; [exact Hrun|]. split; [exact Hwfh|].
    pose proof (wf_abs_pwf (wf_c12_sx A2 f Hw)) as Hpsx.
    pose proof (wf_abs_pwf (wf_c12_yt A2 f Hw)) as Hpyt.
    pose proof (wf_abs_pwf (wf_c12_ifx fw Hfx)) as Hpifx.
    pose proof (wf_abs_pwf Hfx) as (_ & Hfxi & Hfxo).
    rewrite abs_c12_ifx in Hpifx, Hic1.
    destruct Hic1 as (q1 & HQ1 & K1). destruct Hich as (q2 & HQ2 & K2).
    pose proof (pwf_pjoin Hpsx Hpifx) as HpD.
    assert (HP1 : pairs_lt (length (p_nodes (pjoin (abs (c12_sx A2 f fw)) (ptensor (abs (c12_i A2 fw)) (abs fx)))))
                           (glue_pairs (abs (c12_sx A2 f fw)) (ptensor (abs (c12_i A2 fw)) (abs fx)))).
    { unfold glue_pairs. cbn [pjoin p_nodes]. rewrite app_length. apply pairs_lt_combine.
      - eapply C01Lemmas.all_lt_mono; [|apply Hpsx]. lia.
      - apply all_lt_shiftl. apply Hpifx. }
    assert (K1' : forall i j,
               i < length (p_nodes (pjoin (abs (c12_sx A2 f fw)) (ptensor (abs (c12_i A2 fw)) (abs fx)))) ->
               j < length (p_nodes (pjoin (abs (c12_sx A2 f fw)) (ptensor (abs (c12_i A2 fw)) (abs fx)))) ->
               (q1 i = q1 j <-> conn (glue_pairs (abs (c12_sx A2 f fw)) (ptensor (abs (c12_i A2 fw)) (abs fx))) i j)).
    { intros i j Hi Hj. cbn [pjoin p_nodes] in Hi, Hj. rewrite app_length in Hi, Hj. apply K1; assumption. }
    destruct (quot_then_glue HpD (proj1 (proj2 Hpyt)) HQ1 HP1 K1' HQ2 K2) as [HQ3 K3].
    unfold IsSubst, subst_D, subst_pairs.
    destruct (@subst_core O2 A2 (ic_values fw) (h_w (o_h fx)) (p_edges (abs fx)) (p_ins (abs fx))
                (p_outs (abs fx)) (expand fw (table (o_s f))) (expand fw (table (o_t f)))
                (expand fw (edge_sources f)) (expand fw (edge_targets f)) _ (abs h)
                (expand_lt _ Hw) (expand_lt _ Hw) (expand_lt _ Hw) (expand_lt _ Hw) Hfxi Hfxo HQ3)
      as [HQ HK].
    - intros i j Hi Hj. apply K3.
      + cbn [pjoin ptensor p_nodes abs c12_sx c12_yt c12_i spider_pure o_h hg_discrete h_w].
        rewrite !app_length. unfold c12_W. lia.
      + cbn [pjoin ptensor p_nodes abs c12_sx c12_yt c12_i spider_pure o_h hg_discrete h_w].
        rewrite !app_length. unfold c12_W. lia.
    - eexists. split; [exact HQ|exact HK].
  Qed.

  (* Step 2 as stated: under the hypotheses of Step 1 the result of spider_map_arrow is the
     substitution instance of f *)
  Theorem C12_substitution : forall f fw fx (d : O2) h,
    wf_ohg f -> wf_ics fw -> ic_len fw = length (h_w (o_h f)) -> wf_ohg fx ->
    src_type (abs fx) =
      map Some (map (fun j => nth j (ic_values fw) d) (expand fw (table (ic_values (h_s (o_h f)))))) ->
    tgt_type (abs fx) =
      map Some (map (fun j => nth j (ic_values fw) d) (expand fw (table (ic_values (h_t (o_h f)))))) ->
    spider_map_arrow B eqO2 f fw fx = Ok h -> IsSubst f fw fx (abs h).
  Proof.
    intros f fw fx d h Hf Hw Hlen Hfx Hs Ht Hrun.
    assert (Hty : fx_typed f fw fx).
    { split.
      - rewrite Hs. symmetry. apply map_nth_error_lt. apply expand_lt. exact Hw.
      - rewrite Ht. symmetry. apply map_nth_error_lt. apply expand_lt. exact Hw. }
    destruct (C12_substitution_gen Hf Hw Hlen Hfx Hty) as (h' & Hrun' & _ & Hsub).
    assert (h' = h) by congruence. subst h'. exact Hsub.
  Qed.
  (* the substitution instance is unique up to renumbering of nodes *)
  Lemma pwf_subst_D f fw fx : wf_ics fw -> wf_ohg fx -> pwf (subst_D f fw fx).
  Proof.
    intros Hw Hfx. pose proof (wf_abs_pwf Hfx) as (He & _ & _).
    unfold pwf, subst_D. cbn [p_nodes p_edges p_ins p_outs]. rewrite app_length.
    split; [|split].
    - intros e Hin. apply in_map_iff in Hin. destruct Hin as (e' & <- & Hin').
      cbn [shift_edge pe_src pe_tgt]. destruct (He e' Hin') as [H1 H2]. cbn [abs p_nodes] in H1, H2.
      split; apply all_lt_shiftl; assumption.
    - eapply C01Lemmas.all_lt_mono; [|apply expand_lt; exact Hw]. lia.
    - eapply C01Lemmas.all_lt_mono; [|apply expand_lt; exact Hw]. lia.
  Qed.

  Theorem C12_subst_unique f fw fx (h h' : pohg O2 A2) : wf_ics fw -> wf_ohg fx ->
    IsSubst f fw fx h -> IsSubst f fw fx h' -> NIso h h'.
  Proof.
    intros Hw Hfx (q & HQ & HK) (q' & HQ' & HK').
    apply (quot_unique (pwf_subst_D f Hw Hfx) HQ HQ').
    unfold subst_D. cbn [p_nodes]. rewrite app_length. intros i j Hi Hj.
    rewrite HK, HK' by assumption. tauto.
  Qed.
  (* ---------- dagger: the functor data do not look at the interfaces ---------- *)
  Lemma wf_dagger (O A : Type) (g : ohg O A) : wf_ohg g -> wf_ohg (ohg_dagger g).
  Proof. intros (H & Hi & Ho & Hit & Hot). repeat split; try assumption; apply H. Qed.

  Lemma abs_dagger (O A : Type) (g : ohg O A) : abs (ohg_dagger g) = swap_io (abs g).
  Proof. reflexivity. Qed.

  Lemma quot_swap_io (D h : pohg O2 A2) q : IsQuot D q h -> IsQuot (swap_io D) q (swap_io h).
  Proof. intros (R & S & L & E & I & O'). repeat split; assumption. Qed.

  Lemma IsSubst_dagger f fw fx h : IsSubst f fw fx (abs h) ->
    IsSubst (ohg_dagger f) fw fx (abs (ohg_dagger h)).
  Proof.
    intros (q & HQ & HK). exists q. split; [|exact HK].
    apply quot_swap_io in HQ. exact HQ.
  Qed.

  Lemma to_operations_dagger f : to_operations (ohg_dagger f) = to_operations f.
  Proof. reflexivity. Qed.

  (* on the same functor data, the image of the dagger is the dagger of the image up to a
     renumbering of nodes *)
  Theorem C12_preserves_dagger_data f fw fx :
    wf_ohg f -> wf_ics fw -> ic_len fw = length (h_w (o_h f)) -> wf_ohg fx -> fx_typed f fw fx ->
    exists h h', spider_map_arrow B eqO2 f fw fx = Ok h /\
                 spider_map_arrow B eqO2 (ohg_dagger f) fw fx = Ok h' /\
                 wf_ohg h /\ wf_ohg h' /\ NIso (abs h') (abs (ohg_dagger h)).
  Proof.
    intros Hf Hw Hlen Hfx Hty.
    destruct (C12_substitution_gen Hf Hw Hlen Hfx Hty) as (h & Hrun & Hwfh & Hsub).
    destruct (@C12_substitution_gen (ohg_dagger f) fw fx (wf_dagger Hf) Hw Hlen Hfx Hty)
      as (h' & Hrun' & Hwfh' & Hsub').
    exists h, h'. split; [exact Hrun|]. split; [exact Hrun'|]. split; [exact Hwfh|].
    split; [exact Hwfh'|].
    apply (C12_subst_unique Hw Hfx Hsub'). apply IsSubst_dagger. exact Hsub.
  Qed.

  (* ... hence for every strict functor F whose two maps answer with suitable data *)
  Theorem C12_preserves_dagger (F : sfunctor O1 A1 O2 A2) f ops fw fx :
    wf_ohg f -> to_operations f = Ok ops ->
    sf_map_operations F ops = Ok fx -> sf_map_object F (h_w (o_h f)) = Ok fw ->
    wf_ics fw -> ic_len fw = length (h_w (o_h f)) -> wf_ohg fx -> fx_typed f fw fx ->
    exists h h', define_map_arrow B eqO2 F f = Ok h /\
                 define_map_arrow B eqO2 F (ohg_dagger f) = Ok h' /\
                 wf_ohg h /\ wf_ohg h' /\ Iso (abs h') (abs (ohg_dagger h)).
  Proof.
    intros Hf Hops HFx HFw Hw Hlen Hfx Hty.
    destruct (C12_preserves_dagger_data Hf Hw Hlen Hfx Hty) as (h & h' & Hr & Hr' & Hwh & Hwh' & HN).
    exists h, h'. split; [|split; [|split; [exact Hwh|split; [exact Hwh'|apply NIso_Iso; exact HN]]]].
    - unfold define_map_arrow. rewrite Hops. cbn [bind]. rewrite HFx. cbn [bind]. rewrite HFw. exact Hr.
    - unfold define_map_arrow. rewrite to_operations_dagger, Hops. cbn [bind]. rewrite HFx. cbn [bind].
      cbn [ohg_dagger o_h]. rewrite HFw. exact Hr'.
  Qed.
  (* ---------- the same for define_map_arrow of an arbitrary strict functor ---------- *)
  Theorem C12_define_map_arrow (F : sfunctor O1 A1 O2 A2) f fw fx :
    wf_ohg f ->
    (forall ops, to_operations f = Ok ops -> sf_map_operations F ops = Ok fx) ->
    sf_map_object F (h_w (o_h f)) = Ok fw ->
    wf_ics fw -> ic_len fw = length (h_w (o_h f)) -> wf_ohg fx -> fx_typed f fw fx ->
    exists h, define_map_arrow B eqO2 F f = Ok h /\ wf_ohg h /\
      src_type (abs h) = map (nth_error (ic_values fw)) (expand fw (table (o_s f))) /\
      tgt_type (abs h) = map (nth_error (ic_values fw)) (expand fw (table (o_t f))) /\
      IsSubst f fw fx (abs h).
  Proof.
    intros Hf HFx HFw Hw Hlen Hfx Hty.
    destruct (to_operations_val Hf) as (va & vb & Hops & _ & _).
    destruct (C12_defined_typed_gen Hf Hw Hlen Hfx Hty) as (h & Hrun & Hwfh & Hs & Ht).
    destruct (C12_substitution_gen Hf Hw Hlen Hfx Hty) as (h' & Hrun' & _ & Hsub).
    assert (h' = h) by congruence. subst h'.
    exists h. split; [|split; [exact Hwfh|split; [exact Hs|split; [exact Ht|exact Hsub]]]].
    unfold define_map_arrow. rewrite Hops. cbn [bind]. rewrite (HFx _ Hops). cbn [bind].
    rewrite HFw. exact Hrun.
  Qed.
End C12.

(* ---------- the identity functor: definedness and typing ---------- *)
Section Identity.
  Variable B : Backend.
  Hypothesis OK : BackendOK B.
  Variables O A : Type.
  Variable eqO : O -> O -> bool.
  Hypothesis eqO_spec : forall x y, eqO x y = true <-> x = y.

  Definition id_fw (f : ohg O A) : ic (list O) :=
    mkIC (mkFF (repeat 1 (length (h_w (o_h f)))) (length (h_w (o_h f)) + 1)) (h_w (o_h f)).

  Lemma expand_id_fw (f : ohg O A) l : all_lt (length (h_w (o_h f))) l -> expand (id_fw f) l = l.
  Proof. intros H. unfold expand, id_fw. cbn [ic_sources table]. apply inj_table_ones. exact H. Qed.

  Lemma id_fw_len (f : ohg O A) : ic_len (id_fw f) = length (h_w (o_h f)).
  Proof. unfold ic_len, ff_source, id_fw. cbn [ic_sources table]. apply repeat_length. Qed.

  (* the run of define_map_arrow for the identity functor, with all the facts the later theorems need *)
  Lemma identity_run (f : ohg O A) : wf_ohg f ->
    exists va vb,
      map Some va = map (nth_error (h_w (o_h f))) (table (ic_values (h_s (o_h f)))) /\
      map Some vb = map (nth_error (h_w (o_h f))) (table (ic_values (h_t (o_h f)))) /\
      define_map_arrow B eqO (identity_functor O A) f =
        spider_map_arrow B eqO f (id_fw f) (tops_pure (to_ops_pure f va vb)) /\
      wf_ohg (tops_pure (to_ops_pure f va vb)) /\
      fx_typed f (id_fw f) (tops_pure (to_ops_pure f va vb)).
  Proof.
    intros Hf.
    destruct (to_operations_val Hf) as (va & vb & Hops & Ea & Eb).
    pose proof (map_Some_length _ _ _ Ea) as La.
    pose proof (map_Some_length _ _ _ Eb) as Lb.
    destruct (wf_to_ops_pure va vb Hf La Lb) as (Wa & Wb & Ia & Ib).
    exists va, vb. split; [exact Ea|]. split; [exact Eb|]. split; [|split].
    - unfold define_map_arrow. rewrite Hops. cbn [bind identity_functor sf_map_operations sf_map_object].
      rewrite tensor_operations_val by assumption. cbn [bind].
      rewrite elements_val. reflexivity.
    - apply wf_tops_pure; assumption.
    - destruct Hf as (((_ & Hs) & (_ & Ht) & _ & _ & Hws & Hwt) & _).
      unfold wf_ff in Hs, Ht. rewrite Hws in Hs. rewrite Hwt in Ht.
      unfold fx_typed, edge_sources, edge_targets.
      rewrite !expand_id_fw by assumption.
      unfold src_type, tgt_type, type_of, abs, tops_pure, to_ops_pure.
      cbn [p_nodes p_ins p_outs o_h o_s o_t h_w ops_a ops_b ic_values table id_fw].
      rewrite <- Ea, <- Eb. split.
      + transitivity (map (nth_error va) (seq 0 (length va))).
        * apply map_ext_in. intros a Ha. apply in_seq in Ha. apply nth_error_app1. lia.
        * apply map_nth_error_seq.
      + transitivity (map (nth_error vb) (seq 0 (length vb))).
        * rewrite (seq_shiftl (length vb) (length va)). unfold shiftl.
          rewrite map_map. apply map_ext. intros a.
          rewrite nth_error_app2 by lia. f_equal. lia.
        * apply map_nth_error_seq.
  Qed.

  Theorem C12_identity_functor : forall f : ohg O A, wf_ohg f ->
    exists h, define_map_arrow B eqO (identity_functor O A) f = Ok h /\ wf_ohg h /\
      src_type (abs h) = src_type (abs f) /\ tgt_type (abs h) = tgt_type (abs f).
  Proof.
    intros f Hf.
    destruct (identity_run Hf) as (va & vb & _ & _ & Hdef & Hwfx & Hty).
    destruct (C12_defined_typed_gen OK eqO eqO_spec Hf (wf_elements (h_w (o_h f))) (fw := id_fw f) (id_fw_len f) Hwfx Hty)
      as (h & Hrun & Hwfh & Hsh & Hth).
    exists h. split; [congruence|]. split; [exact Hwfh|].
    destruct Hf as (_ & Hi & Ho & Hit & Hot). unfold wf_ff in Hi, Ho. rewrite Hit in Hi. rewrite Hot in Ho.
    rewrite Hsh, Hth, !expand_id_fw by assumption. split; reflexivity.
  Qed.
  (* ---- the identity functor returns a diagram isomorphic to its argument ---- *)
  Definition id_q (f : ohg O A) (i : nat) : nat :=
    if i <? length (h_w (o_h f)) then i
    else if i <? length (h_w (o_h f)) + length (edge_sources f)
         then nth (i - length (h_w (o_h f))) (edge_sources f) 0
         else nth (i - length (h_w (o_h f)) - length (edge_sources f)) (edge_targets f) 0.

  Lemma abs_id_fx (f : ohg O A) va vb :
    abs (tops_pure (to_ops_pure f va vb)) =
    mkP (va ++ vb)
        (zip3 (h_x (o_h f)) (segs (table (ic_sources (h_s (o_h f)))) (seq 0 (length va)))
              (segs (table (ic_sources (h_t (o_h f)))) (seq (length va) (length vb))))
        (seq 0 (length va)) (seq (length va) (length vb)).
  Proof. reflexivity. Qed.

  Lemma identity_is_subst (f : ohg O A) va vb : wf_ohg f ->
    map Some va = map (nth_error (h_w (o_h f))) (edge_sources f) ->
    map Some vb = map (nth_error (h_w (o_h f))) (edge_targets f) ->
    IsSubst f (id_fw f) (tops_pure (to_ops_pure f va vb)) (abs f).
  Proof.
    intros Hf Ea Eb.
    pose proof (map_Some_length _ _ _ Ea) as La. pose proof (map_Some_length _ _ _ Eb) as Lb.
    destruct Hf as ((((S1 & S2) & Hs) & ((T1 & T2) & Ht) & Hxs & Hxt & Hws & Hwt) & Hi & Ho & Hit & Hot).
    unfold wf_ff in Hs, Ht, Hi, Ho. rewrite Hws in Hs. rewrite Hwt in Ht.
    rewrite Hit in Hi. rewrite Hot in Ho. unfold ff_source in S2, T2.
    fold (edge_sources f) in *. fold (edge_targets f) in *.
    set (n := length (h_w (o_h f))) in *.
    set (ES := edge_sources f) in *. set (ET := edge_targets f) in *.
    set (na := length ES) in *. set (nb := length ET) in *.
    assert (Hq_lo : forall i, i < n -> id_q f i = i).
    { intros i Hi'. unfold id_q. fold n. replace (i <? n) with true by (symmetry; apply Nat.ltb_lt; lia).
      reflexivity. }
    assert (Hq_mid : forall k, k < na -> id_q f (k + n) = nth k ES 0).
    { intros k Hk. unfold id_q. fold n ES na.
      replace (k + n <? n) with false by (symmetry; apply Nat.ltb_ge; lia).
      replace (k + n <? n + na) with true by (symmetry; apply Nat.ltb_lt; lia).
      f_equal. lia. }
    assert (Hq_hi : forall t, id_q f (t + na + n) = nth t ET 0).
    { intros t. unfold id_q. fold n ES ET na.
      replace (t + na + n <? n) with false by (symmetry; apply Nat.ltb_ge; lia).
      replace (t + na + n <? n + na) with false by (symmetry; apply Nat.ltb_ge; lia).
      f_equal. lia. }
    assert (HmapES : map (fun k => id_q f (k + n)) (seq 0 na) = ES).
    { rewrite <- (map_nth_seq ES 0) at 1. fold na. apply map_ext_in. intros k Hk. apply in_seq in Hk.
      apply Hq_mid. lia. }
    assert (HmapET : map (fun k => id_q f (k + n)) (seq na nb) = ET).
    { rewrite (seq_shiftl nb na). unfold shiftl. rewrite map_map.
      rewrite <- (map_nth_seq ET 0) at 1. fold nb. apply map_ext. intros t. apply Hq_hi. }
    assert (Hmapid : forall l, all_lt n l -> map (id_q f) l = l).
    { intros l Hl. rewrite <- (map_id l) at 2. apply map_ext_in. intros a Ha. apply Hq_lo.
      eapply all_lt_In; eauto. }
    assert (EP : subst_pairs f (id_fw f) (tops_pure (to_ops_pure f va vb)) =
                 combine ES (map (fun k => k + n) (seq 0 na)) ++
                 combine ET (map (fun t => t + na + n) (seq 0 nb))).
    { unfold subst_pairs. fold ES ET. rewrite !expand_id_fw by assumption. rewrite abs_id_fx.
      cbn [p_ins p_outs id_fw ic_values]. fold n. rewrite La, Lb. fold na nb.
      rewrite (seq_shiftl nb na). unfold shiftl. rewrite map_map. reflexivity. }
    exists (id_q f). split.
    - unfold IsQuot, subst_D. rewrite abs_id_fx.
      cbn [p_nodes p_edges p_ins p_outs id_fw ic_values o_h h_w tops_pure to_ops_pure ops_a ops_b abs table o_s o_t].
      rewrite !app_length, La, Lb. fold n ES ET na nb.
      assert (HES_lt : forall k, k < na -> nth k ES 0 < n).
      { intros k Hk. eapply all_lt_In; [exact Hs|]. apply nth_In. exact Hk. }
      assert (HET_lt : forall t, t < nb -> nth t ET 0 < n).
      { intros t Ht'. eapply all_lt_In; [exact Ht|]. apply nth_In. exact Ht'. }
      split; [|split; [|split; [|split; [|split]]]].
      + intros i Hi'. destruct (lt_dec i n) as [H1|H1]; [rewrite Hq_lo by exact H1; exact H1|].
        destruct (lt_dec i (n + na)) as [H2|H2].
        * replace i with ((i - n) + n) by lia. rewrite Hq_mid by lia. apply HES_lt. lia.
        * replace i with ((i - n - na) + na + n) by lia. rewrite Hq_hi. apply HET_lt. lia.
      + intros j Hj. exists j. split; [lia|]. apply Hq_lo. exact Hj.
      + intros i Hi'. destruct (lt_dec i n) as [H1|H1].
        * rewrite Hq_lo by exact H1. symmetry. apply nth_error_app1. exact H1.
        * destruct (lt_dec i (n + na)) as [H2|H2].
          -- replace i with ((i - n) + n) by lia. rewrite Hq_mid by lia.
             rewrite nth_error_app2 by (fold n; lia). fold n.
             replace (i - n + n - n) with (i - n) by lia.
             rewrite nth_error_app1 by lia. symmetry. apply (map_Some_nth _ _ _ Ea). fold na. lia.
          -- replace i with ((i - n - na) + na + n) by lia. rewrite Hq_hi.
             rewrite nth_error_app2 by (fold n; lia). fold n.
             rewrite nth_error_app2 by lia.
             replace (i - n - na + na + n - n - length va) with (i - n - na) by lia.
             symmetry. apply (map_Some_nth _ _ _ Eb). fold nb. lia.
      + rewrite map_map.
        rewrite (map_ext _ _ (fun e => map_edge_shift (id_q f) n e)).
        rewrite <- zip3_map_edge, <- !SegThm.segs_map. rewrite HmapES, HmapET. reflexivity.
      + rewrite expand_id_fw by exact Hi. symmetry. apply Hmapid. exact Hi.
      + rewrite expand_id_fw by exact Ho. symmetry. apply Hmapid. exact Ho.
    - intros i j Hi' Hj'. rewrite EP.
      cbn [id_fw ic_values o_h h_w tops_pure to_ops_pure ops_a ops_b] in Hi', Hj'.
      rewrite app_length, La, Lb in Hi', Hj'. fold n ES ET na nb in Hi', Hj'.
      set (P := combine ES (map (fun k => k + n) (seq 0 na)) ++
                combine ET (map (fun t => t + na + n) (seq 0 nb))).
      assert (HES_lt : forall k, k < na -> nth k ES 0 < n).
      { intros k Hk. eapply all_lt_In; [exact Hs|]. apply nth_In. exact Hk. }
      assert (HET_lt : forall t, t < nb -> nth t ET 0 < n).
      { intros t Ht'. eapply all_lt_In; [exact Ht|]. apply nth_In. exact Ht'. }
      assert (Hlink : forall x, x < n + (na + nb) -> conn P (id_q f x) x).
      { intros x Hx. destruct (lt_dec x n) as [H1|H1]; [rewrite Hq_lo by exact H1; apply conn_refl|].
        destruct (lt_dec x (n + na)) as [H2|H2].
        - replace x with ((x - n) + n) by lia. rewrite Hq_mid by lia.
          unfold P. apply conn_app_l. apply conn_step.
          apply (in_combine_seq (fun k => k + n) ES). fold na. lia.
        - replace x with ((x - n - na) + na + n) by lia. rewrite Hq_hi.
          unfold P. apply conn_app_r. apply conn_step.
          apply (in_combine_seq (fun t => t + na + n) ET). fold nb. lia. }
      split.
      + intros Eq. apply conn_trans with (y := id_q f i).
        * apply conn_sym. apply Hlink. exact Hi'.
        * rewrite Eq. apply Hlink. exact Hj'.
      + apply (@conn_glue_impl P (fun x y => id_q f x = id_q f y)); try congruence.
        intros x y Hin. unfold P in Hin. apply in_app_or in Hin. destruct Hin as [Hin|Hin].
        * apply in_combine_seq_inv in Hin. destruct Hin as (k & Hk & -> & ->).
          fold na in Hk. rewrite Hq_mid by exact Hk. apply Hq_lo. apply HES_lt. exact Hk.
        * apply in_combine_seq_inv in Hin. destruct Hin as (t & Ht' & -> & ->).
          fold nb in Ht'. rewrite Hq_hi. apply Hq_lo. apply HET_lt. exact Ht'.
  Qed.

  Theorem C12_identity_functor_iso : forall f : ohg O A, wf_ohg f ->
    exists h, define_map_arrow B eqO (identity_functor O A) f = Ok h /\ wf_ohg h /\
      Iso (abs h) (abs f).
  Proof.
    intros f Hf.
    destruct (identity_run Hf) as (va & vb & Ea & Eb & Hdef & Hwfx & Hty).
    destruct (C12_substitution_gen OK eqO eqO_spec Hf (wf_elements (h_w (o_h f))) (fw := id_fw f)
                (id_fw_len f) Hwfx Hty) as (h & Hrun & Hwfh & Hsub).
    exists h. split; [congruence|]. split; [exact Hwfh|].
    apply NIso_Iso.
    apply (C12_subst_unique (wf_elements (h_w (o_h f))) Hwfx Hsub).
    apply identity_is_subst; assumption.
  Qed.
End Identity.

(* ---------- the object map of the functor induced by a lax functor ---------- *)
Theorem C12_dyn_object : forall (O1 A1 O2 A2 : Type) (F : lfunctor O1 A1 O2 A2) (a : list O1),
  exists fw, dyn_map_object F a = Ok fw /\ wf_ics fw /\ decode_s fw = map (lf_map_object F) a /\
             ic_len fw = length a.
Proof.
  intros O1 A1 O2 A2 F a. unfold dyn_map_object.
  set (imgs := map (lf_map_object F) a).
  assert (E : list_sum (map (@length O2) imgs) = vlen (semi_vops O2) (concat imgs)).
  { cbn [vlen semi_vops]. apply list_sum_map_length. }
  rewrite (from_semifinite_ok (semi_vops O2) _ _ E). cbn [bind unwrap].
  eexists. split; [reflexivity|]. split; [|split].
  - split; cbn [ic_sources ic_values table target vlen semi_vops] in *; lia.
  - unfold decode_s. cbn [ic_sources ic_values table]. apply segs_of_concat.
  - unfold ic_len, ff_source. cbn [ic_sources table]. unfold imgs. rewrite !map_length. reflexivity.
Qed.

(* ---------- the hypotheses are satisfiable: a concrete run (Vec back-end) ---------- *)
(* f : nodes n0:10 n1:11 n2:12 n3:11 (n3 isolated); a zero-arity edge 100 : [] -> [] and
       101 : [n1; n2] -> [n2]; inputs [n0; n1; n2], outputs [n2; n0].
   F(10) = [], F(11) = [21], F(12) = [22; 23]: block sizes 0, 1, 2, 1.
   fx : F(11 12) = 21 22 23 -> F(12) = 22 23: 200 : [] -> [] (image of 100) and the image of 101,
       201 : [m0; m1] -> [m3], 202 : [m3; m2] -> [m4; m5] with one inner node m3:30. *)
Definition ex12_f : ohg nat nat :=
  mkOHG (mkFF [0; 1; 2] 4) (mkFF [2; 0] 4)
        (mkHG (mkIC (mkFF [0; 2] 3) (mkFF [1; 2] 4)) (mkIC (mkFF [0; 1] 2) (mkFF [2] 4))
              [10; 11; 12; 11] [100; 101]).
Definition ex12_fw : ic (list nat) := mkIC (mkFF [0; 1; 2; 1] 5) [21; 22; 23; 21].
Definition ex12_fx : ohg nat nat :=
  mkOHG (mkFF [0; 1; 2] 6) (mkFF [4; 5] 6)
        (mkHG (mkIC (mkFF [0; 2; 2] 5) (mkFF [0; 1; 3; 2] 6))
              (mkIC (mkFF [0; 1; 2] 4) (mkFF [3; 4; 5] 6))
              [21; 22; 23; 30; 22; 23] [200; 201; 202]).

Example ex12_f_wf : wf_ohg ex12_f.
Proof.
  unfold wf_ohg, wf_hg, wf_icf, wf_ic, wf_ff, all_lt, ic_len, ff_source; cbn.
  repeat split; repeat constructor.
Qed.

Example ex12_fx_wf : wf_ohg ex12_fx.
Proof.
  unfold wf_ohg, wf_hg, wf_icf, wf_ic, wf_ff, all_lt, ic_len, ff_source; cbn.
  repeat split; repeat constructor.
Qed.

Example ex12_fw_wf : wf_ics ex12_fw.
Proof. split; reflexivity. Qed.

Example ex12_len : ic_len ex12_fw = length (h_w (o_h ex12_f)).
Proof. reflexivity. Qed.

Example ex12_expand : expand ex12_fw [0; 1; 2; 3] = [0; 1; 2; 3] /\ expand ex12_fw [2; 0] = [1; 2].
Proof. split; vm_compute; reflexivity. Qed.

Example ex12_src :
  src_type (abs ex12_fx) =
  map Some (map (fun j => nth j (ic_values ex12_fw) 0)
                (expand ex12_fw (table (ic_values (h_s (o_h ex12_f)))))).
Proof. vm_compute. reflexivity. Qed.

Example ex12_tgt :
  tgt_type (abs ex12_fx) =
  map Some (map (fun j => nth j (ic_values ex12_fw) 0)
                (expand ex12_fw (table (ic_values (h_t (o_h ex12_f)))))).
Proof. vm_compute. reflexivity. Qed.

(* the run: the three mapped source nodes and the two mapped target nodes of 101 are glued onto the
   discrete part, the inner node 30 survives, the isolated node 21 stays isolated *)
Example ex12_run_vec :
  match spider_map_arrow VecBackend Nat.eqb ex12_f ex12_fw ex12_fx with
  | Ok h => Some (abs h) | _ => None end =
  Some (mkP [21; 22; 23; 21; 30]
            [mkPE 200 [] []; mkPE 201 [0; 1] [4]; mkPE 202 [4; 2] [1; 2]] [0; 1; 2] [1; 2]).
Proof. vm_compute. reflexivity. Qed.

Example ex12_run_adv :
  match spider_map_arrow AdvBackend Nat.eqb ex12_f ex12_fw ex12_fx with
  | Ok h => Some (length (p_nodes (abs h)), length (p_edges (abs h)), src_type (abs h), tgt_type (abs h))
  | _ => None end =
  Some (5, 3, [Some 21; Some 22; Some 23], [Some 22; Some 23]).
Proof. vm_compute. reflexivity. Qed.

Example ex12_theorem_applies :
  exists h, spider_map_arrow VecBackend Nat.eqb ex12_f ex12_fw ex12_fx = Ok h /\ wf_ohg h /\
    src_type (abs h) = [Some 21; Some 22; Some 23] /\ tgt_type (abs h) = [Some 22; Some 23] /\
    IsSubst ex12_f ex12_fw ex12_fx (abs h).
Proof.
  destruct (C12_defined_typed VecBackend_ok Nat.eqb Nat.eqb_eq 0
              ex12_f_wf ex12_fw_wf ex12_len ex12_fx_wf ex12_src ex12_tgt) as (h & Hrun & Hwf & Hs & Ht).
  exists h. split; [exact Hrun|]. split; [exact Hwf|]. split; [exact Hs|]. split; [exact Ht|].
  exact (C12_substitution VecBackend_ok Nat.eqb Nat.eqb_eq 0
           ex12_f_wf ex12_fw_wf ex12_len ex12_fx_wf ex12_src ex12_tgt Hrun).
Qed.

(* the identity functor on the same diagram *)
Example ex12_identity_vec :
  define_map_arrow VecBackend Nat.eqb (identity_functor nat nat) ex12_f = Ok ex12_f.
Proof. vm_compute. reflexivity. Qed.

Example ex12_identity_applies :
  exists h, define_map_arrow AdvBackend Nat.eqb (identity_functor nat nat) ex12_f = Ok h /\
            wf_ohg h /\ Iso (abs h) (abs ex12_f).
Proof. exact (C12_identity_functor_iso AdvBackend_ok Nat.eqb Nat.eqb_eq ex12_f_wf). Qed.

(* the object map induced by a lax functor: 10 |-> [], 11 |-> [21], 12 |-> [22; 23] *)
Definition ex12_lf : lfunctor nat nat nat nat :=
  mkLF (fun o => if o =? 10 then [] else if o =? 11 then [21] else [22; 23])
       (fun a s t => lohg_singleton a [] []).

Example ex12_dyn_object : dyn_map_object ex12_lf [10; 11; 12; 11] = Ok ex12_fw.
Proof. vm_compute. reflexivity. Qed.

(* dagger *)
Example ex12_dagger_vec :
  match spider_map_arrow VecBackend Nat.eqb (ohg_dagger ex12_f) ex12_fw ex12_fx,
        spider_map_arrow VecBackend Nat.eqb ex12_f ex12_fw ex12_fx with
  | Ok h', Ok h => abs h' = abs (ohg_dagger h) | _, _ => False end.
Proof. vm_compute. reflexivity. Qed.

Example ex12_dagger_applies :
  exists h h', spider_map_arrow AdvBackend Nat.eqb ex12_f ex12_fw ex12_fx = Ok h /\
               spider_map_arrow AdvBackend Nat.eqb (ohg_dagger ex12_f) ex12_fw ex12_fx = Ok h' /\
               NIso (abs h') (abs (ohg_dagger h)).
Proof.
  assert (Hty : fx_typed ex12_f ex12_fw ex12_fx) by (split; vm_compute; reflexivity).
  destruct (C12_preserves_dagger_data AdvBackend_ok Nat.eqb Nat.eqb_eq
              ex12_f_wf ex12_fw_wf ex12_len ex12_fx_wf Hty) as (h & h' & E1 & E2 & _ & _ & HN).
  exists h, h'. split; [exact E1|]. split; [exact E2|exact HN].
Qed.
