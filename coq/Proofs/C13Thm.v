(* C13 — the native lax functor path: refusal and witness.
   Model: Model/LaxFunctor.v (l_try_define_map_arrow, l_map_arrow_witness), i.e.
   src/lax/functor/traits.rs (try_define_map_arrow, map_arrow_witness, spider_map_arrow).

   C13_refuses  : an input with a pending pair is refused by both entry points (Ok None).
   C13_defined  : on a well-formed strict input, and for a functor whose map_operation has the
                  arities prescribed by map_object, both entry points return Some — never Panic,
                  never None.
   C13_witness  : the exact value of the result r and of the witness w. *)
From OHG Require Import Spec.Plain Proofs.PrimsThm Proofs.SegThm.
From OHG Require Proofs.C06Thm Proofs.C08Thm.

Set Implicit Arguments.
Arguments Nat.sub : simpl never.

(* ================= generic list facts ================= *)
Lemma map_fst_combine_eq {X Y} (a : list X) : forall (b : list Y), length a = length b ->
  map fst (combine a b) = a.
Proof.
  induction a as [|x a IH]; intros [|y b] H; simpl in *; try lia. reflexivity.
  rewrite IH by lia. reflexivity.
Qed.

Lemma map_snd_combine_eq {X Y} (a : list X) : forall (b : list Y), length a = length b ->
  map snd (combine a b) = b.
Proof.
  induction a as [|x a IH]; intros [|y b] H; simpl in *; try lia. reflexivity.
  rewrite IH by lia. reflexivity.
Qed.

Lemma map_snd_plus_combine {X} (a : list X) (b : list nat) k : length a = length b ->
  map (fun p => snd p + k) (combine a b) = map (fun y => y + k) b.
Proof.
  intros H. rewrite <- (map_snd_combine_eq a b H) at 2. rewrite map_map. reflexivity.
Qed.

Lemma firstn_app_exact {T} (l r : list T) : firstn (length l) (l ++ r) = l.
Proof. rewrite firstn_app, Nat.sub_diag, firstn_all. simpl. apply app_nil_r. Qed.

Lemma skipn_app_exact {T} (l r : list T) : skipn (length l) (l ++ r) = r.
Proof. rewrite skipn_app, Nat.sub_diag, skipn_all. reflexivity. Qed.

Lemma skipn_cons_inv {T} (l : list T) : forall k x r, skipn k l = x :: r ->
  nth_error l k = Some x /\ skipn (S k) l = r.
Proof.
  induction l as [|y l IH]; intros [|k] x r H; simpl in *; try discriminate.
  - inversion H; subst. split; reflexivity.
  - apply IH. exact H.
Qed.

Lemma shift_shift a b l : shift a (shift b l) = shift (b + a) l.
Proof. unfold shift. rewrite map_map. apply map_ext. intros x. lia. Qed.

Lemma shift_length a l : length (shift a l) = length l.
Proof. apply map_length. Qed.

Lemma combine_map_both2 {X Y X' Y'} (g : X -> X') (h : Y -> Y') (a : list X) : forall (b : list Y),
  combine (map g a) (map h b) = map (fun p => (g (fst p), h (snd p))) (combine a b).
Proof.
  induction a as [|x a IH]; intros [|y b]; simpl; auto. rewrite IH. reflexivity.
Qed.

Lemma ff_new_all_lt t n : all_lt n t -> ff_new t n = Some (mkFF t n).
Proof. intros H. apply (proj1 (C06Thm.C06_new t n)). split; auto. Qed.

Lemma inj_table_app sizes a b : inj_table sizes (a ++ b) = inj_table sizes a ++ inj_table sizes b.
Proof. unfold inj_table. apply flat_map_app. Qed.

Lemma inj_table_length sizes idx :
  length (inj_table sizes idx) = list_sum (map (fun i => nth i sizes 0) idx).
Proof.
  unfold inj_table. induction idx as [|i idx IH]; simpl; auto.
  rewrite app_length, seq_length, IH. reflexivity.
Qed.

Lemma inj_table_lt sizes idx : all_lt (length sizes) idx -> all_lt (list_sum sizes) (inj_table sizes idx).
Proof.
  unfold inj_table, all_lt. intros H. rewrite Forall_forall in *. intros x Hx.
  apply in_flat_map in Hx. destruct Hx as (i & Hi & Hx). apply in_seq in Hx.
  pose proof (prefix_plus_size_le sizes i). lia.
Qed.

Lemma firstn_app_len {T} (l r : list T) k : length l = k -> firstn k (l ++ r) = l.
Proof. intros <-. apply firstn_app_exact. Qed.

Lemma skipn_app_len {T} (l r : list T) k : length l = k -> skipn k (l ++ r) = r.
Proof. intros <-. apply skipn_app_exact. Qed.

(* the segments of a consecutive range *)
Lemma segs_seq sizes : forall a,
  segs sizes (seq a (list_sum sizes))
  = map (fun i => seq (a + list_sum (firstn i sizes)) (nth i sizes 0)) (seq 0 (length sizes)).
Proof.
  induction sizes as [|k s IH]; intros a. reflexivity.
  cbn [segs list_sum fold_right length seq map firstn nth].
  change (fold_right Init.Nat.add 0 s) with (list_sum s).
  rewrite seq_app, firstn_app_len, skipn_app_len by apply seq_length.
  rewrite Nat.add_0_r. f_equal.
  rewrite IH, <- seq_shift, map_map. apply map_ext. intros i.
  cbn [firstn nth list_sum fold_right]. f_equal. unfold list_sum. lia.
Qed.

(* ================= lax composition, exactly ================= *)
Section LaxCompose.
  Variables O A : Type.

  Lemma fold_unify k ps : forall h : lhg O A,
    fold_left (fun h p => lhg_unify h (fst p) (snd p + k)) ps h
    = mkLHG (l_nodes h) (l_edges h) (l_adj h)
            (fst (l_q h) ++ map fst ps, snd (l_q h) ++ map (fun p => snd p + k) ps).
  Proof.
    induction ps as [|p ps IH]; intros h.
    - destruct h as [nd ed ad [q1 q2]]. cbn. rewrite !app_nil_r. reflexivity.
    - cbn [fold_left]. rewrite IH. unfold lhg_unify. cbn [l_nodes l_edges l_adj l_q fst snd map].
      rewrite <- !app_assoc. reflexivity.
  Qed.

  (* the value of lohg_lax_compose: the coproduct, interfaces (sources f, shifted targets g), and one
     pending pair (x, y + n) per element of combine (targets f) (sources g), appended after the
     pending pairs of f and the shifted pending pairs of g *)
  Definition lax_compose_pure (f g : lohg O A) : lohg O A :=
    let n := length (l_nodes (lo_h f)) in
    mkLOHG (lo_sources f) (shift n (lo_targets g))
      (mkLHG (l_nodes (lo_h f) ++ l_nodes (lo_h g)) (l_edges (lo_h f) ++ l_edges (lo_h g))
             (l_adj (lo_h f) ++ map (fun e => (shift n (fst e), shift n (snd e))) (l_adj (lo_h g)))
             ((fst (l_q (lo_h f)) ++ shift n (fst (l_q (lo_h g)))) ++ lo_targets f,
              (snd (l_q (lo_h f)) ++ shift n (snd (l_q (lo_h g)))) ++ shift n (lo_sources g))).

  Lemma lax_compose_ok (f g : lohg O A) : length (lo_targets f) = length (lo_sources g) ->
    lohg_lax_compose f g = Some (lax_compose_pure f g).
  Proof.
    intros H. unfold lohg_lax_compose. rewrite H, Nat.eqb_refl. cbn [negb].
    unfold lax_compose_pure. f_equal. f_equal.
    - unfold lohg_tensor. cbn [lo_sources]. apply firstn_app_exact.
    - unfold lohg_tensor. cbn [lo_targets]. rewrite <- H. apply skipn_app_exact.
    - rewrite fold_unify. unfold lohg_tensor, lhg_coproduct.
      cbn [lo_h l_nodes l_edges l_adj l_q fst snd].
      rewrite map_fst_combine_eq, map_snd_plus_combine by exact H. reflexivity.
  Qed.

  Lemma lax_compose_none (f g : lohg O A) : length (lo_targets f) <> length (lo_sources g) ->
    lohg_lax_compose f g = None.
  Proof.
    intros H. unfold lohg_lax_compose. apply Nat.eqb_neq in H. rewrite H. reflexivity.
  Qed.
End LaxCompose.

(* ================= the lax functor path ================= *)
Section C13.
  Variables O1 A1 O2 A2 : Type.
  Variable F : lfunctor O1 A1 O2 A2.

  Notation Fo := (lf_map_object F).
  Notation Fa := (lf_map_operation F).

  (* ---------- vocabulary ---------- *)
  (* every node reference of f (interfaces and adjacency) is a node, and the edge-label list and the
     adjacency list have the same length *)
  Definition lwf13 (f : lohg O1 A1) : Prop :=
    let k := length (l_nodes (lo_h f)) in
    all_lt k (lo_sources f) /\ all_lt k (lo_targets f) /\
    Forall (fun e => all_lt k (fst e) /\ all_lt k (snd e)) (l_adj (lo_h f)) /\
    length (l_edges (lo_h f)) = length (l_adj (lo_h f)).

  (* "map_operation(a, s, t) has type F s -> F t": only the arities are needed *)
  Definition F_typed : Prop := forall a s t,
    length (lo_sources (Fa a s t)) = length (flat_map Fo s) /\
    length (lo_targets (Fa a s t)) = length (flat_map Fo t).

  (* the two pending lists of a term have the same length *)
  Definition q_balanced {O A} (g : lohg O A) : Prop :=
    length (fst (l_q (lo_h g))) = length (snd (l_q (lo_h g))).
  Definition F_balanced : Prop := forall a s t, q_balanced (Fa a s t).

  (* the labels of a list of node ids (default-free; ids out of range are dropped) *)
  Definition labs_of (nodes : list O1) (ids : list nat) : list O1 :=
    flat_map (fun i => match nth_error nodes i with Some x => [x] | None => [] end) ids.

  Lemma labs_of_ok nodes ids : all_lt (length nodes) ids ->
    mapM (get nodes) ids = Ok (labs_of nodes ids).
  Proof.
    unfold all_lt. induction ids as [|i ids IH]; intros H. reflexivity.
    inversion H as [|? ? Hi Hids]; subst. cbn [mapM labs_of flat_map].
    unfold get at 1. destruct (nth_error nodes i) as [x|] eqn:E.
    - cbn [unwrap bind]. rewrite IH by exact Hids. reflexivity.
    - apply nth_error_None in E. lia.
  Qed.

  (* ---------- l_map_operations, purely ---------- *)
  Definition op_step (nodes : list O1) (acc : lohg O2 A2) (p : A1 * (list nat * list nat)) : lohg O2 A2 :=
    lohg_tensor_assign acc (Fa (fst p) (labs_of nodes (fst (snd p))) (labs_of nodes (snd (snd p)))).

  Definition map_ops_pure (f : lohg O1 A1) : lohg O2 A2 :=
    fold_left (op_step (l_nodes (lo_h f))) (combine (l_edges (lo_h f)) (l_adj (lo_h f))) lohg_empty.

  Definition adj_ok (k : nat) (adjs : list (list nat * list nat)) : Prop :=
    Forall (fun e => all_lt k (fst e) /\ all_lt k (snd e)) adjs.

  Lemma map_ops_gen nodes adj : forall es adjs k acc,
    length es = length adjs -> skipn k adj = adjs -> adj_ok (length nodes) adjs ->
    foldM (fun acc p =>
             let '(i, a) := p in
             e <- get adj i ;;
             s <- mapM (get nodes) (fst e) ;;
             t <- mapM (get nodes) (snd e) ;;
             Ok (lohg_tensor_assign acc (Fa a s t)))
          (combine (seq k (length es)) es) acc
    = Ok (fold_left (op_step nodes) (combine es adjs) acc).
  Proof.
    induction es as [|a es IH]; intros [|e adjs] k acc Hl Hs Hok; simpl in Hl; try lia.
    - reflexivity.
    - apply skipn_cons_inv in Hs. destruct Hs as [Hk Hs].
      apply Forall_cons_iff in Hok. destruct Hok as [[He1 He2] Hok'].
      cbn [length seq combine foldM fold_left].
      unfold get at 1. rewrite Hk. cbn [unwrap bind].
      rewrite !labs_of_ok by assumption. cbn [bind].
      rewrite (IH adjs (S k)) by (auto; lia). reflexivity.
  Qed.

  Lemma map_operations_ok f : lwf13 f -> l_map_operations F f = Ok (map_ops_pure f).
  Proof.
    intros (_ & _ & Hadj & Hlen). unfold l_map_operations, map_ops_pure.
    apply map_ops_gen; auto.
  Qed.

  (* ---------- the arities of the tensored operations ---------- *)
  Definition sizes_of (nodes : list O1) : list nat := map (@length O2) (map Fo nodes).

  Lemma nth_sizes_of nodes i x : nth_error nodes i = Some x -> nth i (sizes_of nodes) 0 = length (Fo x).
  Proof.
    intros H. unfold sizes_of. apply nth_error_nth.
    apply map_nth_error with (f := @length O2). apply map_nth_error. exact H.
  Qed.

  Lemma inj_len_labs nodes ids : all_lt (length nodes) ids ->
    length (inj_table (sizes_of nodes) ids) = length (flat_map Fo (labs_of nodes ids)).
  Proof.
    unfold all_lt. induction ids as [|i ids IH]; intros H. reflexivity.
    apply Forall_cons_iff in H. destruct H as [Hi Hids].
    change (i :: ids) with ([i] ++ ids). unfold labs_of. rewrite inj_table_app, flat_map_app, flat_map_app.
    rewrite !app_length. fold (labs_of nodes ids). rewrite IH by exact Hids. f_equal.
    unfold inj_table. cbn [flat_map]. rewrite !app_nil_r, seq_length.
    destruct (nth_error nodes i) as [x|] eqn:E.
    - cbn [flat_map]. rewrite app_nil_r. apply nth_sizes_of. exact E.
    - apply nth_error_None in E. lia.
  Qed.

  Lemma ops_arity (Ht : F_typed) nodes : forall ops acc,
    Forall (fun p : A1 * (list nat * list nat) =>
              all_lt (length nodes) (fst (snd p)) /\ all_lt (length nodes) (snd (snd p))) ops ->
    length (lo_sources (fold_left (op_step nodes) ops acc))
    = length (lo_sources acc) + length (inj_table (sizes_of nodes) (flat_map (fun p => fst (snd p)) ops)) /\
    length (lo_targets (fold_left (op_step nodes) ops acc))
    = length (lo_targets acc) + length (inj_table (sizes_of nodes) (flat_map (fun p => snd (snd p)) ops)).
  Proof.
    induction ops as [|p ops IH]; intros acc H.
    - cbn. split; lia.
    - apply Forall_cons_iff in H. destruct H as [[H1 H2] H].
      cbn [fold_left flat_map]. destruct (IH (op_step nodes acc p) H) as [IHs IHt].
      rewrite IHs, IHt, !inj_table_app, !app_length.
      unfold op_step, lohg_tensor_assign, lohg_append. cbn [lo_sources lo_targets].
      rewrite !app_length, !shift_length.
      destruct (Ht (fst p) (labs_of nodes (fst (snd p))) (labs_of nodes (snd (snd p)))) as [Es Et].
      pose proof (@inj_len_labs nodes _ H1) as L1. pose proof (@inj_len_labs nodes _ H2) as L2.
      split; lia.
  Qed.

  Lemma flat_map_snd_combine {X Y Z} (g : Y -> list Z) (a : list X) : forall b : list Y,
    length a = length b -> flat_map (fun p => g (snd p)) (combine a b) = flat_map g b.
  Proof.
    induction a as [|x a IH]; intros [|y b] H; simpl in *; try lia. reflexivity.
    rewrite IH by lia. reflexivity.
  Qed.

  Lemma map_ops_arity f : F_typed -> lwf13 f ->
    let sizes := sizes_of (l_nodes (lo_h f)) in
    length (lo_sources (map_ops_pure f)) = length (inj_table sizes (flat_map fst (l_adj (lo_h f)))) /\
    length (lo_targets (map_ops_pure f)) = length (inj_table sizes (flat_map snd (l_adj (lo_h f)))).
  Proof.
    intros Ht (_ & _ & Hadj & Hlen) sizes. unfold map_ops_pure.
    destruct (@ops_arity Ht (l_nodes (lo_h f)) (combine (l_edges (lo_h f)) (l_adj (lo_h f))) lohg_empty)
      as [Es Et].
    - rewrite Forall_forall in *. intros p Hp. apply Hadj.
      destruct p as [a e]. apply in_combine_r in Hp. exact Hp.
    - rewrite Es, Et. subst sizes.
      split; cbn [lohg_empty lo_sources lo_targets length Nat.add]; do 2 f_equal.
      + apply (flat_map_snd_combine (@fst (list nat) (list nat))). exact Hlen.
      + apply (flat_map_snd_combine (@snd (list nat) (list nat))). exact Hlen.
  Qed.

  (* the pending lists of the tensored operations stay balanced when those of every image are *)
  Lemma ops_balanced (Hb : F_balanced) nodes : forall ops acc,
    q_balanced acc -> q_balanced (fold_left (op_step nodes) ops acc).
  Proof.
    induction ops as [|p ops IH]; intros acc H. exact H.
    cbn [fold_left]. apply IH. unfold q_balanced, op_step, lohg_tensor_assign, lohg_append,
      lhg_coproduct_assign, lhg_coproduct. cbn [lo_h l_q fst snd].
    rewrite !app_length, !shift_length. unfold q_balanced in H. rewrite H.
    f_equal. apply Hb.
  Qed.

  Lemma map_ops_balanced f : F_balanced -> q_balanced (map_ops_pure f).
  Proof. intros Hb. apply ops_balanced. exact Hb. reflexivity. Qed.

  (* ---------- half spiders ---------- *)
  Lemma half_spider_ok (fw : list (list O2)) ids : all_lt (length fw) ids ->
    l_map_half_spider fw ids
    = Ok (Some (mkFF (inj_table (map (@length O2) fw) ids) (length (concat fw)))).
  Proof.
    intros H. unfold l_map_half_spider.
    change (fold_right Nat.add 0 (map (@length O2) fw)) with (list_sum (map (@length O2) fw)).
    rewrite C08Thm.ff_new_lt_sum by lia. rewrite ff_new_all_lt by exact H.
    rewrite ff_injections_ok.
    - cbn [table]. rewrite list_sum_map_length. reflexivity.
    - cbn [target]. unfold ff_source. cbn [table]. rewrite map_length. reflexivity.
    - exact H.
  Qed.

  Lemma half_spider_none (fw : list (list O2)) ids : ~ all_lt (length fw) ids ->
    l_map_half_spider fw ids = Ok None.
  Proof.
    intros H. unfold l_map_half_spider.
    change (fold_right Nat.add 0 (map (@length O2) fw)) with (list_sum (map (@length O2) fw)).
    rewrite C08Thm.ff_new_lt_sum by lia.
    apply (proj2 (C06Thm.C06_new ids (length fw))) in H. rewrite H. reflexivity.
  Qed.

  (* ---------- the composite sx ; (i x fx) ; yt, exactly ---------- *)
  Definition spider_pure (sizes : list nat) (fw_flat : list O2) (f : lohg O1 A1) (fx : lohg O2 A2)
    : lohg O2 A2 :=
    let n := list_sum sizes in
    let N := n + n + length (l_nodes (lo_h fx)) in
    let all_s := flat_map fst (l_adj (lo_h f)) in
    let all_t := flat_map snd (l_adj (lo_h f)) in
    mkLOHG (inj_table sizes (lo_sources f)) (shift N (inj_table sizes (lo_targets f)))
      (mkLHG ((fw_flat ++ (fw_flat ++ l_nodes (lo_h fx))) ++ fw_flat)
             (l_edges (lo_h fx))
             (map (fun e => (shift (n + n) (fst e), shift (n + n) (snd e))) (l_adj (lo_h fx)))
             (shift (n + n) (fst (l_q (lo_h fx)))
                ++ (seq 0 n ++ inj_table sizes all_s)
                ++ shift n (seq 0 n ++ shift n (lo_targets fx)),
              shift (n + n) (snd (l_q (lo_h fx)))
                ++ shift n (seq 0 n ++ shift n (lo_sources fx))
                ++ shift N (seq 0 n ++ inj_table sizes all_t))).

  Lemma spider_ok f (fw : list (list O2)) fx :
    let sizes := map (@length O2) fw in
    let k := length fw in
    all_lt k (lo_sources f) -> all_lt k (lo_targets f) ->
    all_lt k (flat_map fst (l_adj (lo_h f))) -> all_lt k (flat_map snd (l_adj (lo_h f))) ->
    length (lo_sources fx) = length (inj_table sizes (flat_map fst (l_adj (lo_h f)))) ->
    length (lo_targets fx) = length (inj_table sizes (flat_map snd (l_adj (lo_h f)))) ->
    l_spider_map_arrow f fw fx = Ok (Some (spider_pure sizes (concat fw) f fx)).
  Proof.
    intros sizes k Hs Ht Has Hat Es Et. unfold l_spider_map_arrow.
    rewrite !half_spider_ok by assumption. cbn [bind].
    unfold ff_identity. rewrite arange_ok by lia. cbn [bind]. rewrite Nat.sub_0_r.
    unfold ff_coproduct. cbn [target table]. rewrite Nat.eqb_refl.
    unfold lohg_spider. cbn [target table]. rewrite Nat.eqb_refl. cbn [negb orb].
    fold sizes.
    rewrite lax_compose_ok.
    2:{ unfold lohg_tensor, lohg_identity. cbn [lo_targets lo_sources].
        rewrite !app_length, shift_length, seq_length. lia. }
    rewrite lax_compose_ok.
    2:{ unfold lax_compose_pure, lohg_tensor, lohg_identity. cbn [lo_targets lo_sources].
        rewrite shift_length, !app_length, shift_length, seq_length. lia. }
    do 2 f_equal.
    unfold spider_pure, lax_compose_pure, lohg_tensor, lohg_identity, lhg_coproduct, lhg_discrete.
    cbn [lo_sources lo_targets lo_h l_nodes l_edges l_adj l_q fst snd length map app].
    assert (En : list_sum sizes = length (concat fw)) by apply list_sum_map_length.
    rewrite En, !app_length, Nat.add_assoc.
    set (n := length (concat fw)). set (N := n + n + length (l_nodes (lo_h fx))).
    rewrite !app_nil_r, !shift_shift, map_map.
    rewrite <- !app_assoc.
    f_equal. f_equal. apply map_ext. intros e. cbn [fst snd]. rewrite !shift_shift. reflexivity.
  Qed.

  (* ================= C13_refuses ================= *)
  Theorem C13_refuses f : fst (l_q (lo_h f)) <> [] ->
    l_try_define_map_arrow F f = Ok None /\ l_map_arrow_witness F f = Ok None.
  Proof.
    intros H. unfold l_try_define_map_arrow, l_map_arrow_witness, lhg_is_strict.
    destruct (fst (l_q (lo_h f))) as [|x q]. congruence. split; reflexivity.
  Qed.

  (* ================= the value ================= *)
  Lemma adj_ok_flat k adjs : adj_ok k adjs ->
    all_lt k (flat_map fst adjs) /\ all_lt k (flat_map snd adjs).
  Proof.
    unfold adj_ok, all_lt. induction adjs as [|e adjs IH]; intros H.
    - split; constructor.
    - apply Forall_cons_iff in H. destruct H as [[H1 H2] H]. destruct (IH H) as [I1 I2].
      cbn [flat_map]. split; apply Forall_app; split; assumption.
  Qed.

  (* the result and the witness, as plain values *)
  Definition result_pure (f : lohg O1 A1) : lohg O2 A2 :=
    spider_pure (sizes_of (l_nodes (lo_h f))) (concat (map Fo (l_nodes (lo_h f)))) f (map_ops_pure f).

  Definition witness_pure (f : lohg O1 A1) : icf :=
    let sizes := sizes_of (l_nodes (lo_h f)) in
    let n := list_sum sizes in
    mkIC (mkFF sizes (n + 1)) (mkFF (seq n n) (length (l_nodes (lo_h (result_pure f))))).

  Lemma spider_on_wf f : F_typed -> lwf13 f ->
    l_spider_map_arrow f (l_map_objects F f) (map_ops_pure f) = Ok (Some (result_pure f)).
  Proof.
    intros Ht W. destruct (map_ops_arity Ht W) as [Es Et].
    destruct W as (Hs & Hts & Hadj & Hlen). destruct (adj_ok_flat Hadj) as [Has Hat].
    unfold l_map_objects, result_pure, sizes_of.
    apply spider_ok; rewrite ?map_length; assumption.
  Qed.

  Lemma result_nodes_length f :
    let n := list_sum (sizes_of (l_nodes (lo_h f))) in
    length (l_nodes (lo_h (result_pure f))) = n + n + length (l_nodes (lo_h (map_ops_pure f))) + n.
  Proof.
    intros n. unfold result_pure, spider_pure. cbn [lo_h l_nodes].
    rewrite !app_length. subst n. unfold sizes_of. rewrite list_sum_map_length. lia.
  Qed.

  Theorem C13_value f : lwf13 f -> fst (l_q (lo_h f)) = [] -> F_typed ->
    l_map_operations F f = Ok (map_ops_pure f) /\
    l_try_define_map_arrow F f = Ok (Some (result_pure f)) /\
    l_map_arrow_witness F f = Ok (Some (result_pure f, witness_pure f)).
  Proof.
    intros W Hq Ht. split; [|split].
    - apply map_operations_ok. exact W.
    - unfold l_try_define_map_arrow, lhg_is_strict. rewrite Hq. cbn [negb].
      rewrite map_operations_ok by exact W. cbn [bind]. apply spider_on_wf; assumption.
    - unfold l_map_arrow_witness, lhg_is_strict. rewrite Hq. cbn [negb].
      rewrite map_operations_ok by exact W. cbn [bind].
      rewrite spider_on_wf by assumption. cbn [bind]. cbv zeta.
      pose proof (result_nodes_length f) as EL. cbv zeta in EL.
      unfold l_map_objects. fold (sizes_of (l_nodes (lo_h f))).
      change (fold_right Nat.add 0 (sizes_of (l_nodes (lo_h f))))
        with (list_sum (sizes_of (l_nodes (lo_h f)))).
      set (n := list_sum (sizes_of (l_nodes (lo_h f)))) in *.
      replace (2 * n - n) with n by lia.
      rewrite ff_new_all_lt.
      2:{ unfold all_lt. rewrite Forall_forall. intros x Hx. apply in_seq in Hx. lia. }
      rewrite C08Thm.ff_new_lt_sum by (fold n; lia).
      rewrite C08Thm.C08_new_some.
      2:{ split; cbn [ic_sources ic_values target table vlen ff_vops]; fold n. reflexivity.
          unfold ff_source. cbn [table]. rewrite seq_length. reflexivity. }
      reflexivity.
  Qed.

  (* ================= C13_defined ================= *)
  Theorem C13_defined f : lwf13 f -> fst (l_q (lo_h f)) = [] -> F_typed ->
    exists r w, l_try_define_map_arrow F f = Ok (Some r) /\
                l_map_arrow_witness F f = Ok (Some (r, w)).
  Proof.
    intros W Hq Ht. destruct (C13_value W Hq Ht) as (_ & H1 & H2).
    exists (result_pure f), (witness_pure f). split; assumption.
  Qed.

  (* ================= C13_witness ================= *)
  Lemma nth_error_concat {T} (ls : list (list T)) : forall i l k,
    nth_error ls i = Some l -> k < length l ->
    nth_error (concat ls) (list_sum (firstn i (map (@length T) ls)) + k) = nth_error l k.
  Proof.
    induction ls as [|l0 ls IH]; intros [|i] l k H Hk; simpl in H; try discriminate.
    - inversion H; subst. cbn [map firstn list_sum fold_right concat Nat.add].
      apply nth_error_app1. exact Hk.
    - cbn [map firstn concat]. change (list_sum (length l0 :: ?x)) with (length l0 + list_sum x).
      rewrite nth_error_app2 by (cbn [list_sum fold_right]; lia).
      rewrite <- (IH i l k H Hk). f_equal. cbn [list_sum fold_right]. unfold list_sum. lia.
  Qed.

  Theorem C13_witness f : lwf13 f -> fst (l_q (lo_h f)) = [] -> F_typed ->
    let fw := map Fo (l_nodes (lo_h f)) in
    let sizes := map (@length O2) fw in
    let fw_flat := concat fw in
    let n := list_sum sizes in
    let all_s := flat_map fst (l_adj (lo_h f)) in
    let all_t := flat_map snd (l_adj (lo_h f)) in
    let fx := map_ops_pure f in
    let N := n + n + length (l_nodes (lo_h fx)) in
    exists r w,
      l_map_operations F f = Ok fx /\
      l_try_define_map_arrow F f = Ok (Some r) /\
      l_map_arrow_witness F f = Ok (Some (r, w)) /\
      (* sizes *)
      n = length fw_flat /\ n = fold_right Nat.add 0 sizes /\
      length (lo_sources fx) = length (inj_table sizes all_s) /\
      length (lo_targets fx) = length (inj_table sizes all_t) /\
      (* the witness *)
      w = mkIC (mkFF sizes (n + 1)) (mkFF (seq n n) (length (l_nodes (lo_h r)))) /\
      wf_icf w /\
      decode_f w = map (fun i => seq (n + list_sum (firstn i sizes)) (nth i sizes 0))
                       (seq 0 (length sizes)) /\
      target (ic_values w) = length (l_nodes (lo_h r)) /\
      (* the result: nodes, edges, adjacency, interfaces *)
      l_nodes (lo_h r) = (fw_flat ++ (fw_flat ++ l_nodes (lo_h fx))) ++ fw_flat /\
      length (l_nodes (lo_h r)) = N + n /\
      firstn n (skipn n (l_nodes (lo_h r))) = fw_flat /\
      l_edges (lo_h r) = l_edges (lo_h fx) /\
      l_adj (lo_h r) = map (fun e => (map (fun x => x + (n + n)) (fst e),
                                      map (fun x => x + (n + n)) (snd e))) (l_adj (lo_h fx)) /\
      lo_sources r = inj_table sizes (lo_sources f) /\
      lo_targets r = map (fun x => x + N) (inj_table sizes (lo_targets f)) /\
      (* the pending pairs, componentwise, in the order the model produces them *)
      fst (l_q (lo_h r))
        = map (fun x => x + (n + n)) (fst (l_q (lo_h fx)))
          ++ (seq 0 n ++ inj_table sizes all_s)
          ++ map (fun x => x + n) (seq 0 n ++ map (fun x => x + n) (lo_targets fx)) /\
      snd (l_q (lo_h r))
        = map (fun x => x + (n + n)) (snd (l_q (lo_h fx)))
          ++ map (fun x => x + n) (seq 0 n ++ map (fun x => x + n) (lo_sources fx))
          ++ map (fun x => x + N) (seq 0 n ++ inj_table sizes all_t) /\
      (* ... and as pairs, when the pending lists of the tensored operations are balanced *)
      (q_balanced fx ->
       pending r
        = map (fun p => (fst p + (n + n), snd p + (n + n))) (pending fx)
          ++ combine (seq 0 n ++ inj_table sizes all_s)
                     (map (fun x => x + n) (seq 0 n ++ map (fun x => x + n) (lo_sources fx)))
          ++ combine (map (fun x => x + n) (seq 0 n ++ map (fun x => x + n) (lo_targets fx)))
                     (map (fun x => x + N) (seq 0 n ++ inj_table sizes all_t))).
  Proof.
    intros W Hq Ht fw sizes fw_flat n all_s all_t fx N.
    destruct (C13_value W Hq Ht) as (H0 & H1 & H2).
    destruct (map_ops_arity Ht W) as [Es Et]. cbv zeta in Es, Et.
    fold all_s all_t in Es, Et. change (sizes_of (l_nodes (lo_h f))) with sizes in Es, Et.
    assert (En : n = length fw_flat) by (apply list_sum_map_length).
    exists (result_pure f), (witness_pure f).
    assert (Enodes : l_nodes (lo_h (result_pure f))
                     = (fw_flat ++ (fw_flat ++ l_nodes (lo_h fx))) ++ fw_flat) by reflexivity.
    assert (Elen : length (l_nodes (lo_h (result_pure f))) = N + n).
    { rewrite Enodes, !app_length. subst N. lia. }
    split; [exact H0|]. split; [exact H1|]. split; [exact H2|].
    split; [exact En|]. split; [reflexivity|]. split; [exact Es|]. split; [exact Et|].
    split; [reflexivity|].
    split.
    { split; [split|]; unfold witness_pure; cbn [ic_sources ic_values target table].
      - reflexivity.
      - unfold ff_source. cbn [table]. rewrite seq_length. reflexivity.
      - unfold wf_ff, all_lt. cbn [target table]. rewrite Forall_forall. intros x Hx.
        change (sizes_of (l_nodes (lo_h f))) with sizes in Hx. fold n in Hx.
        apply in_seq in Hx. rewrite Elen. subst N. lia. }
    split.
    { unfold decode_f, witness_pure. cbn [ic_sources ic_values table]. apply segs_seq. }
    split; [reflexivity|]. split; [exact Enodes|]. split; [exact Elen|].
    split.
    { rewrite Enodes, <- app_assoc.
      rewrite skipn_app_len by (symmetry; exact En).
      rewrite <- app_assoc. apply firstn_app_len. symmetry; exact En. }
    split; [reflexivity|]. split; [reflexivity|]. split; [reflexivity|]. split; [reflexivity|].
    split; [reflexivity|]. split; [reflexivity|].
    intros Hb. unfold pending, result_pure, spider_pure. cbn [lo_h l_q fst snd].
    change (sizes_of (l_nodes (lo_h f))) with sizes. fold all_s all_t fx n. fold N.
    unfold q_balanced in Hb.
    rewrite combine_app by (rewrite !shift_length; exact Hb).
    rewrite combine_app.
    2:{ rewrite shift_length, !app_length, shift_length. fold fx in Es. rewrite Es. reflexivity. }
    f_equal. unfold shift. rewrite combine_map_both2. reflexivity.
  Qed.

  (* node n + off_i + k of the result carries the k-th label of F (label of node i) *)
  Theorem C13_witness_labels f i x k :
    nth_error (l_nodes (lo_h f)) i = Some x -> k < length (Fo x) ->
    let sizes := map (@length O2) (map Fo (l_nodes (lo_h f))) in
    nth_error (l_nodes (lo_h (result_pure f))) (list_sum sizes + list_sum (firstn i sizes) + k)
    = nth_error (Fo x) k.
  Proof.
    intros Hi Hk sizes.
    set (fw := map Fo (l_nodes (lo_h f))). set (n := list_sum sizes).
    assert (En : n = length (concat fw)) by (apply list_sum_map_length).
    assert (Hfw : nth_error fw i = Some (Fo x)) by (apply map_nth_error; exact Hi).
    pose proof (nth_error_concat fw i Hfw Hk) as Hc.
    change (map (@length O2) fw) with sizes in Hc.
    assert (Hlt : list_sum (firstn i sizes) + k < n).
    { rewrite En. apply nth_error_Some. rewrite Hc. apply nth_error_Some. exact Hk. }
    change (l_nodes (lo_h (result_pure f)))
      with ((concat fw ++ (concat fw ++ l_nodes (lo_h (map_ops_pure f)))) ++ concat fw).
    rewrite <- app_assoc, nth_error_app2 by lia.
    rewrite nth_error_app1 by (rewrite app_length; lia).
    rewrite nth_error_app1 by lia.
    rewrite <- Hc. f_equal. lia.
  Qed.

  (* the pending pairs as pairs, for a functor whose images have balanced pending lists *)
  Corollary C13_pending f : lwf13 f -> fst (l_q (lo_h f)) = [] -> F_typed -> F_balanced ->
    let sizes := map (@length O2) (map Fo (l_nodes (lo_h f))) in
    let n := list_sum sizes in
    let all_s := flat_map fst (l_adj (lo_h f)) in
    let all_t := flat_map snd (l_adj (lo_h f)) in
    let fx := map_ops_pure f in
    let N := n + n + length (l_nodes (lo_h fx)) in
    l_try_define_map_arrow F f = Ok (Some (result_pure f)) /\
    pending (result_pure f)
    = map (fun p => (fst p + (n + n), snd p + (n + n))) (pending fx)
      ++ combine (seq 0 n ++ inj_table sizes all_s)
                 (map (fun x => x + n) (seq 0 n ++ map (fun x => x + n) (lo_sources fx)))
      ++ combine (map (fun x => x + n) (seq 0 n ++ map (fun x => x + n) (lo_targets fx)))
                 (map (fun x => x + N) (seq 0 n ++ inj_table sizes all_t)).
  Proof.
    intros W Hq Ht Hb sizes n all_s all_t fx N.
    destruct (C13_value W Hq Ht) as (_ & H1 & H2).
    destruct (C13_witness W Hq Ht) as (r & w & _ & H1' & H). split; [exact H1|].
    rewrite H1 in H1'. inversion H1' as [Er]. subst r.
    repeat match type of H with _ /\ _ => destruct H as [_ H] end. apply H. apply map_ops_balanced. exact Hb.
  Qed.
End C13.

Print Assumptions C13_refuses.
Print Assumptions C13_defined.
Print Assumptions C13_value.
Print Assumptions C13_witness.
Print Assumptions C13_witness_labels.
Print Assumptions C13_pending.

(* ================= functors built from singletons are typed and balanced ================= *)
Section Singleton.
  Variables O A : Type.

  Lemma new_nodes_facts (ws : list O) : forall h : lhg O A,
    length (snd (lhg_new_nodes h ws)) = length ws /\ l_q (fst (lhg_new_nodes h ws)) = l_q h.
  Proof.
    induction ws as [|w ws IH]; intros h. split; reflexivity.
    cbn [lhg_new_nodes]. unfold lhg_new_node.
    destruct (IH (mkLHG (l_nodes h ++ [w]) (l_edges h) (l_adj h) (l_q h))) as [I1 I2].
    destruct (lhg_new_nodes (mkLHG (l_nodes h ++ [w]) (l_edges h) (l_adj h) (l_q h)) ws) as [h2 ids].
    cbn [fst snd length] in *. split; [f_equal; exact I1 | exact I2].
  Qed.

  Lemma singleton_facts (x : A) (st tt : list O) :
    length (lo_sources (lohg_singleton x st tt)) = length st /\
    length (lo_targets (lohg_singleton x st tt)) = length tt /\
    l_q (lo_h (lohg_singleton x st tt)) = ([], []).
  Proof.
    unfold lohg_singleton, lhg_new_operation.
    destruct (new_nodes_facts st lhg_empty) as [S1 S2].
    destruct (lhg_new_nodes lhg_empty st) as [h1 s].
    destruct (new_nodes_facts tt h1) as [T1 T2].
    destruct (lhg_new_nodes h1 tt) as [h2 t].
    cbn [fst snd] in *. unfold lhg_new_edge. cbn [lo_sources lo_targets lo_h l_q].
    split; [exact S1|]. split; [exact T1|]. rewrite T2, S2. reflexivity.
  Qed.
End Singleton.

Lemma flat_map_single_length {T} (l : list T) : length (flat_map (fun o => [o]) l) = length l.
Proof. induction l as [|x l IH]; simpl; auto. Qed.

(* the hypotheses of C13_defined / C13_witness hold for the lax identity functor *)
Theorem identity_typed_balanced O A :
  F_typed (l_identity_functor O A) /\ F_balanced (l_identity_functor O A).
Proof.
  split.
  - intros a s t. cbn [l_identity_functor lf_map_object lf_map_operation].
    rewrite !flat_map_single_length. destruct (singleton_facts a s t) as (H1 & H2 & _). split; assumption.
  - intros a s t. unfold q_balanced. cbn [l_identity_functor lf_map_operation].
    destruct (singleton_facts a s t) as (_ & _ & H). rewrite H. reflexivity.
Qed.

(* ================= examples ================= *)
(* map_object o = [o; o+1]; map_operation a s t = the singleton a : F s -> F t *)
Definition Fex_obj (o : nat) : list nat := [o; o + 1].
Definition Fex : lfunctor nat nat nat nat :=
  mkLF Fex_obj (fun a s t => lohg_singleton a (flat_map Fex_obj s) (flat_map Fex_obj t)).

(* two nodes (labels 10, 20), one edge 7 : [0] -> [1; 0], interfaces [0; 0] and [1] *)
Definition fex : lohg nat nat :=
  mkLOHG [0; 0] [1] (mkLHG [10; 20] [7] [([0], [1; 0])] ([], [])).

Example C13_ex_hyps :
  lwf13 fex /\ fst (l_q (lo_h fex)) = [] /\ F_typed Fex /\ F_balanced Fex.
Proof.
  split; [|split; [reflexivity|split]].
  - unfold lwf13, all_lt. cbn. repeat constructor.
  - intros a s t. cbn [Fex lf_map_object lf_map_operation].
    destruct (singleton_facts a (flat_map Fex_obj s) (flat_map Fex_obj t)) as (H1 & H2 & _).
    split; assumption.
  - intros a s t. unfold q_balanced. cbn [Fex lf_map_operation].
    destruct (singleton_facts a (flat_map Fex_obj s) (flat_map Fex_obj t)) as (_ & _ & H).
    rewrite H. reflexivity.
Qed.

Definition rex : lohg nat nat :=
  mkLOHG [0; 1; 0; 1] [16; 17]
    (mkLHG [10; 11; 20; 21;  10; 11; 20; 21;  10; 11; 20; 21; 10; 11;  10; 11; 20; 21]
           [7] [([8; 9], [10; 11; 12; 13])]
           ([0; 1; 2; 3; 0; 1;   4; 5; 6; 7; 10; 11; 12; 13],
            [4; 5; 6; 7; 8; 9;  14; 15; 16; 17; 16; 17; 14; 15])).
Definition wex : icf := mkIC (mkFF [2; 2] 5) (mkFF [4; 5; 6; 7] 18).

(* the model, run: sizes = [2; 2], n = 4, fx has 6 nodes, N = 14 *)
Example C13_ex_run :
  l_map_operations Fex fex
  = Ok (mkLOHG [0; 1] [2; 3; 4; 5] (mkLHG [10; 11; 20; 21; 10; 11] [7] [([0; 1], [2; 3; 4; 5])] ([], []))) /\
  l_try_define_map_arrow Fex fex = Ok (Some rex) /\
  l_map_arrow_witness Fex fex = Ok (Some (rex, wex)) /\
  decode_f wex = [[4; 5]; [6; 7]] /\
  firstn 4 (skipn 4 (l_nodes (lo_h rex))) = concat (map Fex_obj [10; 20]) /\
  pending rex = [(0, 4); (1, 5); (2, 6); (3, 7); (0, 8); (1, 9);
                 (4, 14); (5, 15); (6, 16); (7, 17); (10, 16); (11, 17); (12, 14); (13, 15)].
Proof. vm_compute. repeat split; reflexivity. Qed.

(* ... and the pure values of the theorems agree with it *)
Example C13_ex_pure : result_pure Fex fex = rex /\ witness_pure Fex fex = wex.
Proof. vm_compute. split; reflexivity. Qed.

(* one pending pair: refused by both entry points (hypothesis of C13_refuses holds) *)
Definition fex_pending : lohg nat nat :=
  mkLOHG [0; 0] [1] (mkLHG [10; 20] [7] [([0], [1; 0])] ([0], [1])).
Example C13_ex_refuses :
  fst (l_q (lo_h fex_pending)) <> [] /\
  l_try_define_map_arrow Fex fex_pending = Ok None /\ l_map_arrow_witness Fex fex_pending = Ok None.
Proof. split; [discriminate|]. vm_compute. split; reflexivity. Qed.

(* the hypotheses of C13_defined are needed:
   - map_operation of the wrong arity: None;
   - an interface id out of range: None;  an adjacency id out of range: Panic;
   - more edge labels than adjacency entries: Panic *)
Definition Fut : lfunctor nat nat nat nat := mkLF (fun o => [o]) (fun a s t => lohg_singleton a [] t).
Example C13_ex_hyps_needed :
  l_try_define_map_arrow Fut fex = Ok None /\ l_map_arrow_witness Fut fex = Ok None /\
  l_try_define_map_arrow Fex (mkLOHG [0; 0] [5] (mkLHG [10; 20] [7] [([0], [1; 0])] ([], []))) = Ok None /\
  l_try_define_map_arrow Fex (mkLOHG [0; 0] [1] (mkLHG [10; 20] [7] [([0], [1; 4])] ([], []))) = Panic /\
  l_try_define_map_arrow Fex (mkLOHG [0; 0] [1] (mkLHG [10; 20] [7; 8] [([0], [1; 0])] ([], []))) = Panic.
Proof. vm_compute. repeat split; reflexivity. Qed.

(* The pair form of the pending list needs the balance hypothesis: a typed functor whose images
   carry pending lists of different lengths ([0] against []) shifts the two component lists of the
   result against each other.  The componentwise statement of C13_witness still holds. *)
Definition Fub : lfunctor nat nat nat nat :=
  mkLF (fun o => [o])
       (fun a s t => mkLOHG (seq 0 (length s)) (seq (length s) (length t))
                       (mkLHG (s ++ t) [a] [(seq 0 (length s), seq (length s) (length t))] ([0], []))).

Example C13_ex_unbalanced :
  let sizes := map (@length nat) (map (lf_map_object Fub) (l_nodes (lo_h fex))) in
  let n := list_sum sizes in
  let all_s := flat_map fst (l_adj (lo_h fex)) in
  let all_t := flat_map snd (l_adj (lo_h fex)) in
  let fx := map_ops_pure Fub fex in
  let N := n + n + length (l_nodes (lo_h fx)) in
  F_typed Fub /\ lwf13 fex /\ ~ q_balanced fx /\
  l_try_define_map_arrow Fub fex = Ok (Some (result_pure Fub fex)) /\
  pending (result_pure Fub fex) = [(4, 2); (0, 3); (1, 4); (0, 7); (2, 8); (3, 8); (5, 7)] /\
  pending (result_pure Fub fex)
  <> map (fun p => (fst p + (n + n), snd p + (n + n))) (pending fx)
      ++ combine (seq 0 n ++ inj_table sizes all_s)
                 (map (fun x => x + n) (seq 0 n ++ map (fun x => x + n) (lo_sources fx)))
      ++ combine (map (fun x => x + n) (seq 0 n ++ map (fun x => x + n) (lo_targets fx)))
                 (map (fun x => x + N) (seq 0 n ++ inj_table sizes all_t)).
Proof.
  cbv zeta. split; [|split; [|split; [|split; [|split]]]].
  - intros a s t. cbn [Fub lf_map_object lf_map_operation lo_sources lo_targets].
    rewrite !seq_length, !flat_map_single_length. split; reflexivity.
  - unfold lwf13, all_lt. cbn. repeat constructor.
  - vm_compute. discriminate.
  - vm_compute. reflexivity.
  - vm_compute. reflexivity.
  - vm_compute. discriminate.
Qed.
