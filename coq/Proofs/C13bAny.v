(* C13b, part 4: the agreement of the native and the strict path for every back-end that meets
   the contract (no assumption on how connected components are numbered).
   Without the canonical numbering the strictification of a pending-free diagram f is a node
   renumbering f' of f.  The native path sends renumbered arguments to results whose quotients are
   isomorphic ([C13_native_renumbering]); the strict image of f' is isomorphic to the quotient of
   the native result on f' (C13bThm.native_quotient); hence the claim. *)
From OHG Require Import Spec.Plain Proofs.PrimsThm Proofs.CCThm Proofs.SegThm Proofs.C08Thm Proofs.C09Thm
  Proofs.C01Lemmas Proofs.C01Thm Proofs.QuotThm Proofs.C10Lemmas Proofs.C10Strict
  Proofs.C12Lemmas Proofs.C12Plain Proofs.C12Blocks Proofs.C13bLemmas Proofs.C13bThm Proofs.BackendInst.
From OHG Require Proofs.C13Thm Proofs.C10Thm.
From Coq Require Import List Arith Lia Bool Permutation.
Import ListNotations.

Set Implicit Arguments.
Arguments Nat.sub : simpl never.

Section Renum.
  Variables O1 A1 O2 A2 : Type.
  Variable F : lfunctor O1 A1 O2 A2.
  Notation Fo := (lf_map_object F).
  Notation Fa := (lf_map_operation F).

  (* f' is f with its nodes renumbered by the bijection p *)
  Variables f f' : lohg O1 A1.
  Variable p : nat -> nat.
  Hypothesis HW : F_wf F.
  Hypothesis HT : F_src_tgt F.
  Hypothesis Wf0 : lwf f.
  Hypothesis Lf : ladj_ok f.
  Hypothesis Wf' : lwf f'.
  Hypothesis Hb : bij_on (nn f) p.
  Hypothesis Hn : length (l_nodes (lo_h f')) = length (l_nodes (lo_h f)).
  Hypothesis Hl : forall i, i < nn f -> nth_error (l_nodes (lo_h f')) (p i) = nth_error (l_nodes (lo_h f)) i.
  Hypothesis He : l_edges (lo_h f') = l_edges (lo_h f).
  Hypothesis Ha : l_adj (lo_h f') = map (fun e : hyperedge => (map p (fst e), map p (snd e))) (l_adj (lo_h f)).
  Hypothesis Hs : lo_sources f' = map p (lo_sources f).
  Hypothesis Ht : lo_targets f' = map p (lo_targets f).

  Notation nodes := (l_nodes (lo_h f)).
  Notation nodes' := (l_nodes (lo_h f')).
  Notation N := (nn f).

  Lemma Lf' : ladj_ok f'.
  Proof. unfold ladj_ok. rewrite He, Ha, map_length. exact Lf. Qed.

  (* ---------- the tensored images are the same ---------- *)
  Lemma labs_of_renum ids : all_lt N ids ->
    C13Thm.labs_of nodes' (map p ids) = C13Thm.labs_of nodes ids.
  Proof.
    unfold all_lt, C13Thm.labs_of. induction ids as [|i ids IH]; intros H; cbn [map flat_map]. reflexivity.
    apply Forall_cons_iff in H. destruct H as [Hi H]. rewrite (Hl Hi), (IH H). reflexivity.
  Qed.

  Lemma fxl_renum : fxl F f' = fxl F f.
  Proof.
    unfold fxl, C13Thm.map_ops_pure. rewrite He, Ha.
    destruct Wf0 as ((Hadj & _) & _). revert Hadj. generalize (@lohg_empty O2 A2) as acc.
    generalize (l_adj (lo_h f)) as adjs. generalize (l_edges (lo_h f)) as es.
    induction es as [|a es IH]; intros [|e adjs] acc Hadj;
      cbn [map combine fold_left]; try reflexivity.
    rewrite (IH adjs _ (fun e' He' => Hadj e' (or_intror He'))). f_equal.
    unfold C13Thm.op_step. cbn [fst snd]. destruct (Hadj e (or_introl eq_refl)) as [H1 H2].
    rewrite !labs_of_renum by assumption. reflexivity.
  Qed.

  (* ---------- the block permutation of the mapped objects ---------- *)
  Notation s1 := (szs F f).
  Notation s2 := (szs F f').
  Notation n := (length (Wf F f)).

  Lemma len_s1 : length s1 = N.
  Proof. unfold szs. rewrite !map_length. reflexivity. Qed.
  Lemma len_s2 : length s2 = N.
  Proof. unfold szs. rewrite !map_length. exact Hn. Qed.

  Lemma Hq_sz : forall v, v < length s1 -> nth (p v) s2 0 = nth v s1 0.
  Proof.
    intros v Hv. rewrite len_s1 in Hv.
    destruct (nth_error nodes v) as [x|] eqn:E; [|apply nth_error_None in E; unfold nn in Hv; lia].
    change s2 with (C13Thm.sizes_of F nodes'). change s1 with (C13Thm.sizes_of F nodes).
    rewrite (C13Thm.nth_sizes_of F nodes v E).
    apply (C13Thm.nth_sizes_of F nodes' (p v)). rewrite (Hl Hv). exact E.
  Qed.

  Definition bq : nat -> nat := bqW s1 s2 p.

  (* the inverse renumbering *)
  Notation p' := (inv_on N p).

  Lemma Hq_sz' : forall v, v < length s2 -> nth (p' v) s1 0 = nth v s2 0.
  Proof.
    intros v Hv. rewrite len_s2 in Hv. destruct (inv_on_r Hb Hv) as [H1 H2].
    rewrite <- Hq_sz by (rewrite len_s1; exact H1). rewrite H2. reflexivity.
  Qed.

  Lemma bq_inj_gen (sa sb : list nat) (g : nat -> nat) k :
    length sa = k -> (forall i j, i < k -> j < k -> g i = g j -> i = j) ->
    (forall v, v < length sa -> nth (g v) sb 0 = nth v sa 0) ->
    forall i j, i < list_sum sa -> j < list_sum sa -> bqW sa sb g i = bqW sa sb g j -> i = j.
  Proof.
    intros Hk Hg Hsz i j Hi Hj E.
    destruct (bqW_inj sa sb g Hsz Hi Hj E) as (v & v' & u & Hv & Hv' & _ & Ev & -> & ->).
    rewrite Hk in Hv, Hv'. rewrite (Hg v v' Hv Hv' Ev). reflexivity.
  Qed.

  Lemma sum_eq : list_sum s2 = list_sum s1.
  Proof.
    apply Nat.le_antisymm.
    - apply (@inj_on_le _ _ (bqW s2 s1 p')).
      + intros j Hj. apply bqW_lt; [exact Hq_sz'|exact Hj].
      + apply (bq_inj_gen (k := N) s2 s1 p' len_s2); [|exact Hq_sz'].
        destruct (bij_on_inv Hb) as [_ Hi]. exact Hi.
    - apply (@inj_on_le _ _ bq).
      + intros j Hj. apply bqW_lt; [exact Hq_sz|exact Hj].
      + apply (bq_inj_gen (k := N) s1 s2 p len_s1); [|exact Hq_sz]. destruct Hb as [_ Hi]. exact Hi.
  Qed.

  Lemma n_eq : length (Wf F f') = n.
  Proof. rewrite <- !szs_sum. exact sum_eq. Qed.

  Lemma bq_bij : bij_on n bq.
  Proof.
    split.
    - intros i Hi. rewrite <- n_eq, <- szs_sum. apply bqW_lt; [exact Hq_sz|]. rewrite szs_sum. exact Hi.
    - intros i j Hi Hj. rewrite <- szs_sum in Hi, Hj.
      apply (bq_inj_gen (k := N) s1 s2 p len_s1); [|exact Hq_sz|exact Hi|exact Hj].
      destruct Hb as [_ Hinj]. exact Hinj.
  Qed.

  Lemma bq_expand l : all_lt N l -> inj_table s2 (map p l) = map bq (inj_table s1 l).
  Proof. intros H. apply bqW_expand; [exact Hq_sz|]. rewrite len_s1. exact H. Qed.

  Lemma bq_labels i : i < n -> nth_error (Wf F f') (bq i) = nth_error (Wf F f) i.
  Proof.
    intros Hi. rewrite <- szs_sum in Hi.
    destruct (block_decomp s1 Hi) as (v & u & Hv & Hu & ->).
    unfold bq. rewrite bqW_block by (exact Hq_sz || assumption).
    pose proof Hv as Hv'. rewrite len_s1 in Hv'.
    destruct (nth_error nodes v) as [x|] eqn:E; [|apply nth_error_None in E; unfold nn in Hv'; lia].
    assert (Hux : u < length (Fo x)).
    { change s1 with (C13Thm.sizes_of F nodes) in Hu. rewrite (C13Thm.nth_sizes_of F nodes v E) in Hu. exact Hu. }
    unfold Wf, szs.
    rewrite (C13Thm.nth_error_concat (map Fo nodes') (p v) (l := Fo x)); [|apply map_nth_error; rewrite (Hl Hv'); exact E|exact Hux].
    rewrite (C13Thm.nth_error_concat (map Fo nodes) v (l := Fo x)); [reflexivity|apply map_nth_error; exact E|exact Hux].
  Qed.

  (* ---------- the renumbering of the native result ---------- *)
  Notation X := (l_nodes (lo_h (fxl F f))).
  Notation mX := (length (l_nodes (lo_h (fxl F f)))).
  Notation NN := (length (Wf F f ++ Wf F f ++ l_nodes (lo_h (fxl F f)))).

  Definition pn : nat -> nat :=
    qsum (n + (n + mX)) (n + (n + mX)) (qsum n n bq (qsum n n bq (fun i => i))) bq.

  Lemma NN_eq : NN = n + (n + mX).
  Proof. rewrite !app_length. reflexivity. Qed.

  Lemma pn_lo i : i < n -> pn i = bq i.
  Proof. intros H. unfold pn. rewrite qsum_l by lia. apply qsum_l. exact H. Qed.

  Lemma pn_mid i : pn (i + n) = (if i <? n then bq i else i) + n \/ n + mX <= i.
  Proof.
    destruct (le_dec (n + mX) i) as [H|H]; [right; exact H|left].
    unfold pn. rewrite qsum_l by lia. rewrite qsum_r'. f_equal.
    destruct (i <? n) eqn:E.
    - apply Nat.ltb_lt in E. apply qsum_l. exact E.
    - apply Nat.ltb_ge in E. rewrite qsum_r by exact E. lia.
  Qed.

  Lemma pn_mid_lo i : i < n -> pn (i + n) = bq i + n.
  Proof.
    intros H. destruct (pn_mid i) as [E|E]; [|lia]. rewrite E.
    replace (i <? n) with true by (symmetry; apply Nat.ltb_lt; exact H). reflexivity.
  Qed.

  Lemma pn_x x : x < mX -> pn (x + n + n) = x + n + n.
  Proof.
    intros H. destruct (pn_mid (x + n)) as [E|E]; [|lia]. rewrite E.
    replace (x + n <? n) with false by (symmetry; apply Nat.ltb_ge; lia). reflexivity.
  Qed.

  Lemma pn_hi i : pn (i + NN) = bq i + NN.
  Proof. rewrite NN_eq. unfold pn. apply qsum_r'. Qed.

  Lemma pn_bij : bij_on (NN + n) pn.
  Proof.
    rewrite NN_eq. unfold pn.
    apply bij_on_qsum; [|exact bq_bij]. apply bij_on_qsum; [exact bq_bij|].
    apply bij_on_qsum; [exact bq_bij|apply bij_on_id].
  Qed.

  Lemma map_pn_lo l : all_lt n l -> map pn l = map bq l.
  Proof. intros H. apply map_ext_in. intros a Ha'. apply pn_lo. eapply C01Lemmas.all_lt_In; eauto. Qed.

  Lemma map_pn_mid l : all_lt n l -> map pn (shiftl n l) = shiftl n (map bq l).
  Proof.
    intros H. unfold shiftl. rewrite !map_map. apply map_ext_in. intros a Ha'. apply pn_mid_lo.
    eapply C01Lemmas.all_lt_In; eauto.
  Qed.

  Lemma map_pn_x l : all_lt mX l -> map pn (shiftl n (shiftl n l)) = shiftl n (shiftl n l).
  Proof.
    intros H. unfold shiftl. rewrite !map_map. apply map_ext_in. intros a Ha'. apply pn_x.
    eapply C01Lemmas.all_lt_In; eauto.
  Qed.

  Lemma map_pn_hi l : map pn (shiftl NN l) = shiftl NN (map bq l).
  Proof. unfold shiftl. rewrite !map_map. apply map_ext. intros a. apply pn_hi. Qed.

  (* the bodies: three discrete copies around the tensored images *)
  Definition Wd (g : lohg O1 A1) : pohg O2 A2 := mkP (Wf F g) [] [] [].
  Notation Xd := (labs (fxl F f)).
  Definition B3 (g : lohg O1 A1) : pohg O2 A2 := pjoin (pjoin (Wd g) (pjoin (Wd g) Xd)) (Wd g).

  Lemma pwf_Wd g : pwf (Wd g).
  Proof. unfold pwf, Wd. cbn [p_nodes p_edges p_ins p_outs]. split; [intros e []|split; constructor]. Qed.

  Lemma quot_Wd : IsQuot (Wd f) bq (Wd f').
  Proof.
    unfold IsQuot, Wd. cbn [p_nodes p_edges p_ins p_outs map]. rewrite n_eq.
    destruct bq_bij as [Hr Hi]. split; [exact Hr|]. split; [apply (bij_on_surj bq_bij)|].
    split; [exact bq_labels|]. repeat split.
  Qed.

  Lemma pwf_Xd : pwf Xd.
  Proof. apply C10Thm.lwf_pwf. apply (lwf_fxl HW HT Lf). Qed.

  Lemma quot_B3 : IsQuot (B3 f) pn (B3 f').
  Proof.
    pose proof (IsQuot_pjoin (pwf_Wd f) quot_Wd (IsQuot_id Xd)) as H1.
    pose proof (IsQuot_pjoin (pwf_Wd f) quot_Wd H1) as H2.
    pose proof (IsQuot_pjoin (pwf_pjoin (pwf_Wd f) (pwf_pjoin (pwf_Wd f) pwf_Xd)) H2 quot_Wd) as H3.
    cbn [pjoin Wd p_nodes] in H3. rewrite !app_length, n_eq in H3. exact H3.
  Qed.

  (* the plain form of a native result *)
  Lemma labs_result_explicit g : lwf g -> ladj_ok g ->
    labs (C13Thm.result_pure F g)
    = mkP ((Wf F g ++ (Wf F g ++ l_nodes (lo_h (fxl F g)))) ++ Wf F g)
          (map (shift_edge (length (Wf F g))) (map (shift_edge (length (Wf F g))) (p_edges (labs (fxl F g)))))
          (inj_table (szs F g) (lo_sources g))
          (shiftl (length (Wf F g ++ Wf F g ++ l_nodes (lo_h (fxl F g)))) (inj_table (szs F g) (lo_targets g))).
  Proof.
    intros Wg Lg. rewrite (labs_result HW HT Wg Lg).
    unfold pjoin, Psx, PM, Pid, Pyt, ptensor, sx, yt, lohg_identity, lhg_discrete.
    unfold labs at 1 2 3. cbn [p_nodes p_edges p_ins p_outs lo_h lo_sources lo_targets l_nodes l_edges l_adj combine map app].
    rewrite app_nil_r. reflexivity.
  Qed.

  Lemma B3_body g : fxl F g = fxl F f ->
    p_nodes (B3 g) = (Wf F g ++ (Wf F g ++ X)) ++ Wf F g /\
    p_edges (B3 g) = map (shift_edge (length (Wf F g))) (map (shift_edge (length (Wf F g))) (p_edges Xd)).
  Proof.
    intros E. unfold B3, pjoin, Wd. cbn [p_nodes p_edges map app]. rewrite app_nil_r. split; reflexivity.
  Qed.

  Lemma all_s_renum : all_s f' = map p (all_s f).
  Proof.
    unfold all_s. rewrite Ha. generalize (l_adj (lo_h f)) as l. induction l as [|e l IH]; cbn [map flat_map fst].
    reflexivity. rewrite IH, map_app. reflexivity.
  Qed.

  Lemma all_t_renum : all_t f' = map p (all_t f).
  Proof.
    unfold all_t. rewrite Ha. generalize (l_adj (lo_h f)) as l. induction l as [|e l IH]; cbn [map flat_map snd].
    reflexivity. rewrite IH, map_app. reflexivity.
  Qed.

  (* ---------- the pending pairs correspond ---------- *)
  Notation r1 := (C13Thm.result_pure F f).
  Notation r2 := (C13Thm.result_pure F f').

  Lemma pending_explicit g : lwf g -> ladj_ok g ->
    pending (C13Thm.result_pure F g)
    = shift_pairs (length (Wf F g)) (shift_pairs (length (Wf F g)) (pending (fxl F g)))
      ++ (combine (seq 0 (length (Wf F g))) (shiftl (length (Wf F g)) (seq 0 (length (Wf F g))))
          ++ combine (inj_table (szs F g) (all_s g))
                     (shiftl (length (Wf F g)) (shiftl (length (Wf F g)) (lo_sources (fxl F g)))))
      ++ (combine (shiftl (length (Wf F g)) (seq 0 (length (Wf F g))))
                  (shiftl (length (Wf F g) + (length (Wf F g) + length (l_nodes (lo_h (fxl F g)))))
                          (seq 0 (length (Wf F g))))
          ++ combine (shiftl (length (Wf F g)) (shiftl (length (Wf F g)) (lo_targets (fxl F g))))
                     (shiftl (length (Wf F g) + (length (Wf F g) + length (l_nodes (lo_h (fxl F g)))))
                             (inj_table (szs F g) (all_t g)))).
  Proof.
    intros Wg Lg. rewrite (pending_result HW HT Wg Lg), glue1_explicit, glue2_explicit.
    rewrite !app_length. reflexivity.
  Qed.

  Lemma in_map_bq_seq a : In a (map bq (seq 0 n)) <-> In a (seq 0 n).
  Proof.
    destruct bq_bij as [Hr Hi]. split.
    - intros H. apply in_map_iff in H. destruct H as (x & <- & Hx). apply in_seq in Hx. apply in_seq.
      specialize (Hr x). lia.
    - intros H. apply in_seq in H. destruct (bij_on_surj bq_bij (j := a)) as (i & Hi' & <-); [lia|].
      apply in_map. apply in_seq. lia.
  Qed.

  Lemma pending_sets pr : In pr (pmap pn (pending r1)) <-> In pr (pending r2).
  Proof.
    rewrite (pending_explicit Wf0 Lf), (pending_explicit Wf' Lf').
    rewrite fxl_renum, all_s_renum, all_t_renum, n_eq.
    rewrite !bq_expand by (apply (all_s_lt Wf0) || apply (all_t_lt Wf0)).
    set (K := n + (n + mX)). set (P := pending (fxl F f)).
    set (S := lo_sources (fxl F f)). set (T := lo_targets (fxl F f)).
    set (XES := inj_table s1 (all_s f)). set (XET := inj_table s1 (all_t f)).
    destruct (lwf_fxl HW HT Lf) as (_ & HS & HT').
    assert (HXES : all_lt n XES) by apply inj_lt. assert (HXET : all_lt n XET) by apply inj_lt.
    assert (Hhi : forall l, map pn (shiftl K l) = shiftl K (map bq l)).
    { intros l. unfold K. rewrite <- NN_eq. apply map_pn_hi. }
    assert (HP0 : pmap pn (shift_pairs n (shift_pairs n P)) = shift_pairs n (shift_pairs n P)).
    { unfold shift_pairs. rewrite !pmap_pmap.
      apply (@pmap_ext_lt mX); [exact (pending_pairs_lt (lwf_fxl HW HT Lf))|].
      intros x Hx. apply pn_x. exact Hx. }
    assert (HB1 : pmap pn (combine XES (shiftl n (shiftl n S))) = combine (map bq XES) (shiftl n (shiftl n S))).
    { rewrite <- combine_pmap. rewrite (map_pn_lo HXES), (map_pn_x (l := S) HS). reflexivity. }
    assert (HB2 : pmap pn (combine (shiftl n (shiftl n T)) (shiftl K XET))
                  = combine (shiftl n (shiftl n T)) (shiftl K (map bq XET))).
    { rewrite <- combine_pmap. rewrite (map_pn_x (l := T) HT'), Hhi. reflexivity. }
    assert (HA1 : In pr (pmap pn (combine (seq 0 n) (shiftl n (seq 0 n))))
                  <-> In pr (combine (seq 0 n) (shiftl n (seq 0 n)))).
    { rewrite <- combine_pmap. rewrite (map_pn_lo (all_lt_seq0 n)), (map_pn_mid (all_lt_seq0 n)).
      destruct pr as [a b]. unfold shiftl. rewrite !in_combine_diag, in_map_bq_seq. tauto. }
    assert (HA2 : In pr (pmap pn (combine (shiftl n (seq 0 n)) (shiftl K (seq 0 n))))
                  <-> In pr (combine (shiftl n (seq 0 n)) (shiftl K (seq 0 n)))).
    { rewrite <- combine_pmap. rewrite (map_pn_mid (all_lt_seq0 n)), Hhi. unfold shiftl. split.
      - intros H. apply in_combine_map2_inv in H. destruct H as (a & Ha' & ->).
        apply (in_combine_map2 (fun x => x + n) (fun x => x + K)). apply in_map_bq_seq. exact Ha'.
      - intros H. apply in_combine_map2_inv in H. destruct H as (a & Ha' & ->).
        apply (in_combine_map2 (fun x => x + n) (fun x => x + K)). apply in_map_bq_seq. exact Ha'. }
    rewrite !pmap_app, HP0, HB1, HB2. rewrite !in_app_iff, HA1, HA2. reflexivity.
  Qed.

  Lemma body_eq g : lwf g -> ladj_ok g -> fxl F g = fxl F f ->
    p_nodes (labs (C13Thm.result_pure F g)) = p_nodes (B3 g) /\
    p_edges (labs (C13Thm.result_pure F g)) = p_edges (B3 g).
  Proof.
    intros Wg Lg E. rewrite (labs_result_explicit Wg Lg), E. destruct (B3_body g E) as [E1 E2].
    rewrite E1, E2. split; reflexivity.
  Qed.

  Lemma nn_r1 : nn r1 = NN + n.
  Proof. apply result_interfaces. Qed.

  Lemma nn_r2 : nn r2 = NN + n.
  Proof.
    destruct (result_interfaces F f') as (_ & _ & E). rewrite E, fxl_renum, !app_length, n_eq. reflexivity.
  Qed.

  (* ---------- the native path is invariant under renumbering, up to isomorphism ---------- *)
  Section WithBackend.
    Variable B : Backend.
    Hypothesis OK : BackendOK B.
    Variable eqO2 : O2 -> O2 -> bool.
    Hypothesis eqO2_spec : forall x y, eqO2 x y = true <-> x = y.

    Theorem native_renum :
      exists r1' q1 r2' q2 h,
        lohg_quotient B eqO2 r1 = Ok (r1', inl q1) /\
        lohg_quotient B eqO2 r2 = Ok (r2', inl q2) /\
        define_map_arrow B eqO2 (dyn_functor F B eqO2) (strict_of f') = Ok h /\ wf_ohg h /\
        Iso (labs r1') (labs r2') /\ NIso (labs r2') (abs h).
    Proof.
      destruct (native_quotient OK eqO2 eqO2_spec HW HT Wf0 Lf) as (r1' & q1 & h1 & E1 & HQ1 & HK1 & _).
      destruct (native_quotient OK eqO2 eqO2_spec HW HT Wf' Lf')
        as (r2' & q2 & h & E2 & HQ2 & HK2 & _ & _ & Hdef & Wh & _ & HN).
      exists r1', q1, r2', q2, h.
      split; [exact E1|]. split; [exact E2|]. split; [exact Hdef|]. split; [exact Wh|]. split; [|exact HN].
      destruct (lwf_result HW HT Wf0 Lf) as [Wr1 _].
      destruct (body_eq Wf0 Lf eq_refl) as [Bn1 Be1]. destruct (body_eq Wf' Lf' fxl_renum) as [Bn2 Be2].
      destruct quot_B3 as (_ & _ & QL & QE & _).
      assert (Hlen1 : length (p_nodes (labs r1)) = NN + n) by exact nn_r1.
      assert (Hlen2 : length (p_nodes (labs r2)) = NN + n) by exact nn_r2.
      apply (quot_iso (D := labs r1) (D' := labs r2) (pn := pn) (q := C09Thm.app q1) (q' := C09Thm.app q2)).
      - apply C10Thm.lwf_pwf. exact Wr1.
      - congruence.
      - rewrite Hlen1. exact pn_bij.
      - intros i Hi. rewrite Bn1, Bn2. apply QL. rewrite <- Bn1. exact Hi.
      - rewrite Be1, Be2, QE. apply Permutation_refl.
      - rewrite (labs_result_explicit Wf0 Lf), (labs_result_explicit Wf' Lf'). cbn [p_ins].
        rewrite Hs, bq_expand by apply Wf0. symmetry. apply map_pn_lo. apply inj_lt.
      - rewrite (labs_result_explicit Wf0 Lf), (labs_result_explicit Wf' Lf'). cbn [p_outs].
        rewrite Ht, bq_expand by apply Wf0. rewrite fxl_renum.
        replace (length (Wf F f' ++ Wf F f' ++ X)) with NN by (rewrite !app_length, n_eq; reflexivity).
        symmetry. apply map_pn_hi.
      - exact HQ1.
      - exact HQ2.
      - intros i j Hi Hj. rewrite Hlen1 in Hi, Hj.
        destruct pn_bij as [Pr _].
        rewrite (HK1 i j) by (rewrite nn_r1; assumption).
        rewrite (HK2 (pn i) (pn j)) by (rewrite nn_r2; apply Pr; assumption).
        rewrite (conn_pmap_bij pn_bij (P := pending r1)); [|rewrite <- nn_r1; apply (pending_pairs_lt Wr1)|exact Hi|exact Hj].
        apply conn_set_ext. exact pending_sets.
    Qed.
  End WithBackend.
End Renum.

(* ====================================================================== *)
(* the two paths agree, for every back-end meeting the contract            *)
(* ====================================================================== *)
Section Any.
  Variable B : Backend.
  Hypothesis OK : BackendOK B.
  Variables O1 A1 O2 A2 : Type.
  Variable eqO1 : O1 -> O1 -> bool.
  Hypothesis eqO1_spec : forall x y, eqO1 x y = true <-> x = y.
  Variable eqO2 : O2 -> O2 -> bool.
  Hypothesis eqO2_spec : forall x y, eqO2 x y = true <-> x = y.
  Variable F : lfunctor O1 A1 O2 A2.
  Hypothesis HW : F_wf F.
  Hypothesis HT : F_src_tgt F.
  Variable f : lohg O1 A1.
  Hypothesis Wf0 : lwf f.
  Hypothesis Lf : ladj_ok f.
  Hypothesis Hp : pending f = [].

  Theorem C13_agrees_any_sec :
    exists (r r' : lohg O2 A2) (q : ff) (h : ohg O2 A2) (s' : lohg O2 A2),
      l_try_define_map_arrow F f = Ok (Some r) /\ r = C13Thm.result_pure F f /\
      lohg_quotient B eqO2 r = Ok (r', inl q) /\
      (sf <- lohg_to_strict B eqO1 f ;; define_map_arrow B eqO2 (dyn_functor F B eqO2) sf) = Ok h /\
      lohg_from_strict h = Ok s' /\
      dyn_define_map_arrow F B eqO1 eqO2 f = Ok s' /\
      Iso (labs r') (abs h) /\ Iso (labs r') (labs s').
  Proof.
    pose proof (C10Thm.pending_nil_lq Wf0 Hp) as Hq.
    destruct (to_strict_char OK eqO1 eqO1_spec Wf0 Lf) as (u & b & _ & Estrict & Hb & Hu).
    assert (b = true) by (apply Hb; apply (pending_nil_consistent O1 A1 f Hq)). subst b.
    destruct (Hu eq_refl) as (Hlen & Wf' & Hnth). clear Hu Hb.
    set (f' := quot_result B O1 A1 f u) in *.
    set (p := C09Thm.app (hq B O1 A1 (lo_h f))) in *.
    pose proof (hq_spec B OK O1 A1 (lo_h f) (proj1 Wf0)) as Q.
    unfold hpending in Q. rewrite Hq in Q. cbn [fst snd combine] in Q.
    destruct (bij_of_qspec_nil _ _ Q) as [Etg Hbij]. change (hn (lo_h f)) with (nn f) in Etg, Hbij.
    assert (Hn : length (l_nodes (lo_h f')) = length (l_nodes (lo_h f))).
    { unfold f', quot_result, hquot_result. cbn [lo_h l_nodes]. rewrite Hlen. exact Etg. }
    destruct (@native_renum O1 A1 O2 A2 F f f' p HW HT Wf0 Lf Wf' Hbij Hn Hnth eq_refl eq_refl eq_refl eq_refl
                B OK eqO2 eqO2_spec)
      as (r1' & q1 & r2' & q2 & h & E1 & _ & Hdef & Wh & HI & HN).
    pose proof (lohg_from_strict_ok Wh) as Efrom.
    assert (HI2 : Iso (labs r1') (abs h)).
    { apply (Iso_trans HI). apply C12Plain.NIso_Iso. exact HN. }
    exists (C13Thm.result_pure F f), r1', q1, h, (lax_of h).
    split.
    { apply (C13Thm.C13_value (lwf13_of Wf0 Lf)); [|exact (F_typed_of HT)]. rewrite Hq. reflexivity. }
    split; [reflexivity|]. split; [exact E1|].
    split; [rewrite Estrict; cbn [bind]; exact Hdef|]. split; [exact Efrom|].
    split; [unfold dyn_define_map_arrow; rewrite Estrict; cbn [bind]; rewrite Hdef; cbn [bind]; exact Efrom|].
    split; [exact HI2|]. rewrite labs_lax_of. exact HI2.
  Qed.
End Any.

(* the full statement of C13bThm.C13_agrees_full without the hypothesis on the numbering of
   connected components *)
Definition C13_agrees_any_backend_full : Prop :=
  forall (B : Backend), BackendOK B ->
  forall (O1 A1 O2 A2 : Type)
         (eqO1 : O1 -> O1 -> bool) (eqO2 : O2 -> O2 -> bool),
    (forall x y, eqO1 x y = true <-> x = y) -> (forall x y, eqO2 x y = true <-> x = y) ->
  forall (F : lfunctor O1 A1 O2 A2), F_wf F -> F_src_tgt F ->
  forall f : lohg O1 A1, lwf f -> ladj_ok f -> pending f = [] ->
  exists (r r' : lohg O2 A2) (q : ff) (h : ohg O2 A2) (s' : lohg O2 A2),
    l_try_define_map_arrow F f = Ok (Some r) /\ r = C13Thm.result_pure F f /\
    lohg_quotient B eqO2 r = Ok (r', inl q) /\
    (sf <- lohg_to_strict B eqO1 f ;; define_map_arrow B eqO2 (dyn_functor F B eqO2) sf) = Ok h /\
    lohg_from_strict h = Ok s' /\
    dyn_define_map_arrow F B eqO1 eqO2 f = Ok s' /\
    Iso (labs r') (abs h) /\ Iso (labs r') (labs s').

Theorem C13_agrees_any_backend : C13_agrees_any_backend_full.
Proof.
  intros B OK O1 A1 O2 A2 eqO1 eqO2 S1 S2 F HW HT f W L P.
  exact (C13_agrees_any_sec OK eqO1 S1 eqO2 S2 HW HT W L P).
Qed.

(* the native path sends a renumbered argument to a result whose quotient is isomorphic *)
Theorem C13_native_renumbering :
  forall (B : Backend), BackendOK B ->
  forall (O1 A1 O2 A2 : Type) (eqO2 : O2 -> O2 -> bool), (forall x y, eqO2 x y = true <-> x = y) ->
  forall (F : lfunctor O1 A1 O2 A2), F_wf F -> F_src_tgt F ->
  forall (f f' : lohg O1 A1) (p : nat -> nat), lwf f -> ladj_ok f -> lwf f' ->
    bij_on (nn f) p ->
    length (l_nodes (lo_h f')) = length (l_nodes (lo_h f)) ->
    (forall i, i < nn f -> nth_error (l_nodes (lo_h f')) (p i) = nth_error (l_nodes (lo_h f)) i) ->
    l_edges (lo_h f') = l_edges (lo_h f) ->
    l_adj (lo_h f') = map (fun e : hyperedge => (map p (fst e), map p (snd e))) (l_adj (lo_h f)) ->
    lo_sources f' = map p (lo_sources f) -> lo_targets f' = map p (lo_targets f) ->
  exists r1' q1 r2' q2,
    lohg_quotient B eqO2 (C13Thm.result_pure F f) = Ok (r1', inl q1) /\
    lohg_quotient B eqO2 (C13Thm.result_pure F f') = Ok (r2', inl q2) /\
    Iso (labs r1') (labs r2').
Proof.
  intros B OK O1 A1 O2 A2 eqO2 S2 F HW HT f f' p W L W' Hb Hn Hl He Ha Hs Ht.
  destruct (@native_renum O1 A1 O2 A2 F f f' p HW HT W L W' Hb Hn Hl He Ha Hs Ht B OK eqO2 S2)
    as (r1' & q1 & r2' & q2 & h & E1 & E2 & _ & _ & HI & _).
  exists r1', q1, r2', q2. split; [exact E1|]. split; [exact E2|exact HI].
Qed.

Print Assumptions C13_agrees_any_backend.
Print Assumptions C13_native_renumbering.

(* ====================================================================== *)
(* example: a back-end that numbers components differently                 *)
(* ====================================================================== *)
From OHG Require Import Proofs.C13bEx.

(* with the adversarial back-end the strictification of f3 renumbers its nodes (3 2 1 0), the two
   paths return different records ... *)
Example ex3_adv_values :
  match lohg_to_strict AdvBackend Nat.eqb f3 with Ok sf => h_w (o_h sf) = [11; 12; 11; 10] | _ => False end /\
  match lohg_quotient AdvBackend Nat.eqb r3 with
  | Ok (r', inl _) =>
      labs r' = mkP [30; 23; 22; 21; 30; 21; 23; 22; 21]
                    [mkPE 100 [8; 7; 6] [4; 3; 2; 1]; mkPE 200 [4; 3; 2; 1] [7; 6]; mkPE 101 [] [0]; mkPE 201 [0] []]
                    [8; 7; 6] [7; 6; 5]
  | _ => False
  end /\
  match dyn_define_map_arrow F3 AdvBackend Nat.eqb Nat.eqb f3 with
  | Ok s =>
      labs s = mkP [21; 21; 30; 23; 22; 23; 22; 21; 30]
                   [mkPE 100 [1; 4; 3] [8; 7; 6; 5]; mkPE 200 [8; 7; 6; 5] [4; 3]; mkPE 101 [] [2]; mkPE 201 [2] []]
                   [1; 4; 3] [4; 3; 0]
  | _ => False
  end.
Proof. vm_compute. repeat split; reflexivity. Qed.

(* ... which are isomorphic, by the theorem *)
Example ex3_adv_agrees :
  exists r r' q h s',
    l_try_define_map_arrow F3 f3 = Ok (Some r) /\ r = C13Thm.result_pure F3 f3 /\
    lohg_quotient AdvBackend Nat.eqb r = Ok (r', inl q) /\
    (sf <- lohg_to_strict AdvBackend Nat.eqb f3 ;;
     define_map_arrow AdvBackend Nat.eqb (dyn_functor F3 AdvBackend Nat.eqb) sf) = Ok h /\
    lohg_from_strict h = Ok s' /\
    dyn_define_map_arrow F3 AdvBackend Nat.eqb Nat.eqb f3 = Ok s' /\
    Iso (labs r') (abs h) /\ Iso (labs r') (labs s').
Proof.
  destruct F3_contract as [HW HT]. destruct f3_hyps as (W & L & P).
  exact (C13_agrees_any_backend AdvBackend_ok Nat.eqb Nat.eqb Nat.eqb_eq Nat.eqb_eq HW HT W L P).
Qed.
