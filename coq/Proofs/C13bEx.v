(* C13b, part 3: the contract of `map_operation` (F_wf, F_src_tgt) is met by singletons and is
   closed under typed lax composition; a concrete functor whose object images have lengths 0, 1, 2
   and whose operation images are lax composites with pending pairs; the theorems of C13bThm.v
   applied to it and the model evaluated on it (Vec back-end). *)
From OHG Require Import Spec.Plain Proofs.PrimsThm Proofs.CCThm Proofs.C09Thm Proofs.BackendInst
  Proofs.C01Lemmas Proofs.C10Lemmas Proofs.C10Strict Proofs.C12Lemmas Proofs.C12Plain
  Proofs.C13bLemmas Proofs.C13bThm.
From OHG Require Proofs.C13Thm Proofs.C10Thm.
From Coq Require Import List Arith Lia Bool.
Import ListNotations.

Set Implicit Arguments.
Arguments Nat.sub : simpl never.

Lemma combine_map_eq_In {X Y Z} (g1 : X -> Z) (g2 : Y -> Z) : forall l1 l2 x y,
  map g1 l1 = map g2 l2 -> In (x, y) (combine l1 l2) -> g1 x = g2 y.
Proof.
  induction l1 as [|a l1 IH]; intros [|b l2] x y E H; cbn [map combine] in *; try contradiction.
  inversion E as [[E1 E2]]. destruct H as [H|H].
  - inversion H; subst. exact E1.
  - eapply IH; eauto.
Qed.

Lemma type_seq_l {T} (s r : list T) : map (nth_error (s ++ r)) (seq 0 (length s)) = map Some s.
Proof.
  rewrite <- (map_nth_error_seq s). apply map_ext_in. intros i Hi. apply in_seq in Hi.
  apply nth_error_app1. lia.
Qed.

Lemma type_seq_m {T} (s t r : list T) :
  map (nth_error (s ++ t ++ r)) (seq (length s) (length t)) = map Some t.
Proof.
  rewrite <- (type_seq_l t r). rewrite (seq_shiftl (length t) (length s)). unfold shiftl.
  rewrite map_map. apply map_ext. intros i. rewrite nth_error_app2 by lia. f_equal. lia.
Qed.

(* ====================================================================== *)
(* the contract: singletons, typed lax composites                          *)
(* ====================================================================== *)
Section Contract.
  Variables O A : Type.
  Notation lohg := (lohg O A).

  (* "g is a well-formed diagram of type s -> t" *)
  Definition good (g : lohg) (s t : list O) : Prop :=
    lwf g /\ ladj_ok g /\ labels_consistent g /\
    lohg_source g = Ok s /\ lohg_target g = Ok t.

  Lemma good_types (g : lohg) s t : good g s t ->
    src_type (labs g) = map Some s /\ tgt_type (labs g) = map Some t.
  Proof.
    intros (_ & _ & _ & Hs & Ht). split; [apply (mapM_get_types _ _ Hs)|apply (mapM_get_types _ _ Ht)].
  Qed.

  Lemma good_of_types (g : lohg) s t : lwf g -> ladj_ok g -> labels_consistent g ->
    src_type (labs g) = map Some s -> tgt_type (labs g) = map Some t -> good g s t.
  Proof.
    intros W L C Hs Ht. split; [exact W|]. split; [exact L|]. split; [exact C|].
    destruct (lohg_source_ok W) as (rs & Es & Es'). destruct (lohg_target_ok W) as (rt & Et & Et').
    rewrite Hs in Es'. rewrite Ht in Et'.
    apply C01Lemmas.map_Some_inj in Es', Et'. subst rs rt. split; assumption.
  Qed.

  Lemma good_singleton (x : A) (s t : list O) : good (lohg_singleton x s t) s t.
  Proof.
    destruct (@C10Thm.lwf_singleton O A x s t) as (W & L & Q).
    apply good_of_types; [exact W|exact L|apply (pending_nil_consistent O A _ Q)| |].
    - rewrite C10Thm.lohg_singleton_ok. unfold src_type, type_of, labs. cbn [p_nodes p_ins lo_h lo_sources l_nodes].
      rewrite <- (map_nth_error_seq s). apply map_ext_in. intros i Hi. apply in_seq in Hi.
      apply nth_error_app1. lia.
    - rewrite C10Thm.lohg_singleton_ok. unfold tgt_type, type_of, labs. cbn [p_nodes p_outs lo_h lo_targets l_nodes].
      rewrite <- (map_nth_error_seq t). rewrite (seq_shiftl (length t) (length s)). unfold shiftl.
      rewrite map_map. apply map_ext. intros i. rewrite nth_error_app2 by lia. f_equal. lia.
  Qed.

  Lemma lc_lax_compose (f g : lohg) : lwf f -> lwf g -> labels_consistent f -> labels_consistent g ->
    tgt_type (labs f) = src_type (labs g) -> labels_consistent (lax_compose_pure f g).
  Proof.
    intros Wf Wg Cf Cg Hty i j _ _ Hc. rewrite (pending_lax_compose Wf Wg) in Hc.
    change (l_nodes (lo_h (lax_compose_pure f g))) with (l_nodes (lo_h f) ++ l_nodes (lo_h g)).
    revert i j Hc.
    apply (@C01Lemmas.conn_glue_impl _
             (fun x y => nth_error (l_nodes (lo_h f) ++ l_nodes (lo_h g)) x
                         = nth_error (l_nodes (lo_h f) ++ l_nodes (lo_h g)) y)); try congruence.
    intros x y Hin. apply in_app_or in Hin. destruct Hin as [Hin|Hin]; [|apply in_app_or in Hin; destruct Hin as [Hin|Hin]].
    - destruct (pending_range O A f Wf x y Hin) as [Hx Hy]. unfold nn in Hx, Hy.
      rewrite !nth_error_app1 by assumption. apply Cf; try assumption. apply conn_step. exact Hin.
    - apply in_map_iff in Hin. destruct Hin as ([a b] & E & Hin). inversion E; subst x y. cbn [fst snd].
      destruct (pending_range O A g Wg a b Hin) as [Ha Hb]. unfold nn.
      rewrite !nth_error_app2 by lia.
      replace (a + length (l_nodes (lo_h f)) - length (l_nodes (lo_h f))) with a by lia.
      replace (b + length (l_nodes (lo_h f)) - length (l_nodes (lo_h f))) with b by lia.
      apply Cg; try assumption. apply conn_step. exact Hin.
    - unfold boundary_pairs, shift in Hin. apply in_combine_map_r in Hin. destruct Hin as (y' & -> & Hin).
      destruct Wf as (_ & _ & Wt). destruct Wg as (_ & Ws & _).
      assert (Hx : x < nn f) by (eapply C01Lemmas.all_lt_In; [exact Wt|]; eapply in_combine_l; eauto).
      assert (Hy : y' < nn g) by (eapply C01Lemmas.all_lt_In; [exact Ws|]; eapply in_combine_r; eauto).
      unfold nn in *.
      rewrite nth_error_app1 by exact Hx. rewrite nth_error_app2 by lia.
      replace (y' + length (l_nodes (lo_h f)) - length (l_nodes (lo_h f))) with y' by lia.
      exact (combine_map_eq_In _ _ _ _ x y' Hty Hin).
  Qed.

  Theorem good_lax_compose (f g : lohg) s m t : good f s m -> good g m t ->
    lohg_lax_compose f g = Some (lax_compose_pure f g) /\ good (lax_compose_pure f g) s t.
  Proof.
    intros Gf Gg. destruct (good_types Gf) as [Sf Tf]. destruct (good_types Gg) as [Sg Tg].
    destruct Gf as (Wf & Lf & Cf & _). destruct Gg as (Wg & Lg & Cg & _).
    assert (Hlen : length (lo_targets f) = length (lo_sources g)).
    { apply (f_equal (@length _)) in Tf, Sg. unfold tgt_type, src_type, type_of in Tf, Sg.
      rewrite !map_length in Tf, Sg. cbn [labs p_outs p_ins] in Tf, Sg. congruence. }
    split; [apply lax_compose_ok; exact Hlen|].
    pose proof Wf as (_ & Hfs & _). pose proof Wg as (_ & _ & Hgt).
    apply good_of_types.
    - apply lwf_lax_compose; assumption.
    - apply ladj_ok_lax_compose; assumption.
    - apply lc_lax_compose; try assumption. congruence.
    - rewrite (labs_lax_compose g Lf). unfold src_type. cbn [pjoin p_ins].
      rewrite C01Lemmas.type_pjoin_l by exact Hfs. exact Sf.
    - rewrite (labs_lax_compose g Lf). unfold tgt_type. cbn [pjoin p_outs].
      rewrite C01Lemmas.type_pjoin_r. exact Tg.
  Qed.
End Contract.

(* a lax functor all of whose images are good meets the contract *)
Lemma contract_of_good O1 A1 O2 A2 (F : lfunctor O1 A1 O2 A2) :
  (forall a s t, good (lf_map_operation F a s t) (flat_map (lf_map_object F) s) (flat_map (lf_map_object F) t)) ->
  F_wf F /\ F_src_tgt F.
Proof.
  intros H. split; intros a s t; destruct (H a s t) as (W & L & C & Hs & Ht); auto.
Qed.

(* the lax identity functor meets the contract *)
Theorem identity_contract O A : F_wf (l_identity_functor O A) /\ F_src_tgt (l_identity_functor O A).
Proof.
  apply contract_of_good. intros a s t. cbn [l_identity_functor lf_map_object lf_map_operation].
  replace (flat_map (fun o : O => [o]) s) with s by (induction s as [|x s IH]; cbn; congruence).
  replace (flat_map (fun o : O => [o]) t) with t by (induction t as [|x t IH]; cbn; congruence).
  apply good_singleton.
Qed.

(* ====================================================================== *)
(* example                                                                 *)
(* ====================================================================== *)
(* objects: 10 |-> [], 11 |-> [21], 12 |-> [22; 23] (lengths 0, 1, 2);
   operations: a : s -> t  |->  (a : F s -> 30 :: F s) ; (a + 100 : 30 :: F s -> F t), a lax composite
   with one pending pair per wire of the intermediate type *)
Definition Fo3 (o : nat) : list nat := if o =? 10 then [] else if o =? 11 then [21] else [22; 23].
Definition mid3 (s : list nat) : list nat := 30 :: flat_map Fo3 s.
Definition Fa3 (a : nat) (s t : list nat) : lohg nat nat :=
  match lohg_lax_compose (lohg_singleton a (flat_map Fo3 s) (mid3 s))
                         (lohg_singleton (a + 100) (mid3 s) (flat_map Fo3 t)) with
  | Some c => c
  | None => lohg_empty
  end.
Definition F3 : lfunctor nat nat nat nat := mkLF Fo3 Fa3.

(* four nodes 10 11 12 11 (the last one only on the boundary), 100 : [n1; n2] -> [n2] and
   101 : [] -> [n0]; interfaces [n0; n1; n2] and [n2; n0; n3] *)
Definition f3 : lohg nat nat :=
  mkLOHG [0; 1; 2] [2; 0; 3] (mkLHG [10; 11; 12; 11] [100; 101] [([1; 2], [2]); ([], [0])] ([], [])).

Example F3_contract : F_wf F3 /\ F_src_tgt F3.
Proof.
  apply contract_of_good. intros a s t. cbn [F3 lf_map_object lf_map_operation]. unfold Fa3.
  destruct (good_lax_compose (good_singleton a (flat_map Fo3 s) (mid3 s))
                             (good_singleton (a + 100) (mid3 s) (flat_map Fo3 t))) as [E G].
  rewrite E. exact G.
Qed.

Example f3_hyps : lwf f3 /\ ladj_ok f3 /\ pending f3 = [].
Proof.
  split; [|split; reflexivity]. unfold lwf, hwf, nn, hn, all_lt.
  cbn [f3 lo_h lo_sources lo_targets l_nodes l_adj l_q fst snd length].
  split; [split|split].
  - intros e He. destruct He as [<-|[<-|[]]]; cbn [fst snd]; split; repeat constructor.
  - split; [constructor|split; [constructor|reflexivity]].
  - repeat constructor.
  - repeat constructor.
Qed.

(* an image: pending pairs 3~7, 4~8, 5~9, 6~10 between the two singletons *)
Example F3_image :
  Fa3 100 [11; 12] [12]
  = mkLOHG [0; 1; 2] [11; 12]
      (mkLHG [21; 22; 23; 30; 21; 22; 23; 30; 21; 22; 23; 22; 23] [100; 200]
             [([0; 1; 2], [3; 4; 5; 6]); ([7; 8; 9; 10], [11; 12])]
             ([3; 4; 5; 6], [7; 8; 9; 10])).
Proof. vm_compute. reflexivity. Qed.

(* the native result (27 nodes, 18 pending pairs), its quotient, the witness *)
Definition r3 : lohg nat nat :=
  mkLOHG [0; 1; 2] [24; 25; 26]
    (mkLHG [21; 22; 23; 21;  21; 22; 23; 21;  21; 22; 23; 30; 21; 22; 23; 30; 21; 22; 23; 22; 23; 30; 30;
            21; 22; 23; 21]
           [100; 200; 101; 201]
           [([8; 9; 10], [11; 12; 13; 14]); ([15; 16; 17; 18], [19; 20]); ([], [21]); ([22], [])]
           ([11; 12; 13; 14; 21;  0; 1; 2; 3; 0; 1; 2;  4; 5; 6; 7; 19; 20],
            [15; 16; 17; 18; 22;  4; 5; 6; 7; 8; 9; 10;  23; 24; 25; 26; 24; 25])).
Definition w3 : icf := mkIC (mkFF [0; 1; 2; 1] 5) (mkFF [4; 5; 6; 7] 27).
Definition q3 : ff :=
  mkFF [0; 1; 2; 3; 0; 1; 2; 3; 0; 1; 2; 4; 5; 6; 7; 4; 5; 6; 7; 1; 2; 8; 8; 0; 1; 2; 3] 9.
Definition h3 : pohg nat nat :=
  mkP [21; 22; 23; 21; 30; 21; 22; 23; 30]
      [mkPE 100 [0; 1; 2] [4; 5; 6; 7]; mkPE 200 [4; 5; 6; 7] [1; 2]; mkPE 101 [] [8]; mkPE 201 [8] []]
      [0; 1; 2] [1; 2; 3].

Example ex3_native :
  l_try_define_map_arrow F3 f3 = Ok (Some r3) /\
  l_map_arrow_witness F3 f3 = Ok (Some (r3, w3)) /\
  C13Thm.result_pure F3 f3 = r3 /\
  match lohg_quotient VecBackend Nat.eqb r3 with
  | Ok (r', inl q) => labs r' = h3 /\ q = q3
  | _ => False
  end.
Proof. vm_compute. repeat split; reflexivity. Qed.

(* the strict path returns (with the Vec back-end) the very same diagram *)
Example ex3_strict :
  match dyn_define_map_arrow F3 VecBackend Nat.eqb Nat.eqb f3 with
  | Ok s => labs s = h3 /\ pending s = []
  | _ => False
  end.
Proof. vm_compute. split; reflexivity. Qed.

(* the witness clause, evaluated: node i |-> its block in the middle copy, then the quotient map *)
Example ex3_witness :
  decode_f w3 = [[]; [4]; [5; 6]; [7]] /\
  map (C09Thm.app q3) (flat_map (fun i => nth i (decode_f w3) []) (lo_sources f3)) = p_ins h3 /\
  map (C09Thm.app q3) (flat_map (fun i => nth i (decode_f w3) []) (lo_targets f3)) = p_outs h3.
Proof. vm_compute. repeat split; reflexivity. Qed.

(* the theorems apply *)
Example ex3_agrees :
  exists r r' q h s',
    l_try_define_map_arrow F3 f3 = Ok (Some r) /\ r = C13Thm.result_pure F3 f3 /\
    lohg_quotient VecBackend Nat.eqb r = Ok (r', inl q) /\
    (sf <- lohg_to_strict VecBackend Nat.eqb f3 ;;
     define_map_arrow VecBackend Nat.eqb (dyn_functor F3 VecBackend Nat.eqb) sf) = Ok h /\
    lohg_from_strict h = Ok s' /\
    dyn_define_map_arrow F3 VecBackend Nat.eqb Nat.eqb f3 = Ok s' /\
    Iso (labs r') (abs h) /\ Iso (labs r') (labs s').
Proof.
  destruct F3_contract as [HW HT]. destruct f3_hyps as (W & L & P).
  exact (C13_agrees VecBackend_ok vec_cc_canonical Nat.eqb Nat.eqb Nat.eqb_eq Nat.eqb_eq HW HT W L P).
Qed.

Example ex3_witness_thm :
  exists r w r' q,
    l_map_arrow_witness F3 f3 = Ok (Some (r, w)) /\ lohg_quotient AdvBackend Nat.eqb r = Ok (r', inl q) /\
    map (C09Thm.app q) (flat_map (fun i => nth i (decode_f w) []) (lo_sources f3)) = lo_sources r' /\
    map (C09Thm.app q) (flat_map (fun i => nth i (decode_f w) []) (lo_targets f3)) = lo_targets r'.
Proof.
  destruct F3_contract as [HW HT]. destruct f3_hyps as (W & L & P).
  exact (C13_witness_defined AdvBackend_ok Nat.eqb Nat.eqb_eq HW HT W L P).
Qed.

(* the contract is needed: an image whose pending pair identifies two differently labelled nodes
   (type-correct on its interfaces) makes the strict path panic and the quotient of the native
   result fail *)
Definition Fbad : lfunctor nat nat nat nat :=
  mkLF (fun o => [o])
       (fun a s t => mkLOHG (seq 0 (length s)) (seq (length s) (length t))
                       (mkLHG (s ++ t ++ [1; 2]) [a] [(seq 0 (length s), seq (length s) (length t))]
                              ([length s + length t], [length s + length t + 1]))).
Example ex_contract_needed :
  F_src_tgt Fbad /\ ~ F_wf Fbad /\
  dyn_define_map_arrow Fbad VecBackend Nat.eqb Nat.eqb f3 = Panic /\
  match l_try_define_map_arrow Fbad f3 with
  | Ok (Some r) => match lohg_quotient VecBackend Nat.eqb r with Ok (_, inr _) => True | _ => False end
  | _ => False
  end.
Proof.
  split; [|split; [|split]].
  - intros a s t. cbn [Fbad lf_map_object lf_map_operation].
    replace (flat_map (fun o : nat => [o]) s) with s by (induction s as [|x s IH]; cbn; congruence).
    replace (flat_map (fun o : nat => [o]) t) with t by (induction t as [|x t IH]; cbn; congruence).
    set (g := mkLOHG _ _ _).
    assert (W : lwf g).
    { unfold lwf, hwf, nn, hn, g, all_lt. cbn [lo_h lo_sources lo_targets l_nodes l_adj l_q fst snd].
      rewrite !app_length. cbn [length].
      assert (H1 : Forall (fun x => x < length s + (length t + 2)) (seq 0 (length s))).
      { apply Forall_forall. intros x Hx. apply in_seq in Hx. lia. }
      assert (H2 : Forall (fun x => x < length s + (length t + 2)) (seq (length s) (length t))).
      { apply Forall_forall. intros x Hx. apply in_seq in Hx. lia. }
      split; [|split; assumption]. split; [intros e [<-|[]]; split; assumption|].
      split; [constructor; [lia|constructor]|]. split; [constructor; [lia|constructor]|reflexivity]. }
    destruct (lohg_source_ok W) as (rs & Es & Es'). destruct (lohg_target_ok W) as (rt & Et & Et').
    unfold src_type, tgt_type, type_of, labs, g in Es', Et'.
    cbn [p_nodes p_ins p_outs lo_h lo_sources lo_targets l_nodes] in Es', Et'.
    rewrite type_seq_l in Es'. rewrite type_seq_m in Et'.
    apply C01Lemmas.map_Some_inj in Es', Et'. subst rs rt. split; assumption.
  - intros H. destruct (H 0 [] []) as (_ & _ & C). specialize (C 0 1). cbn in C.
    assert (E : Some 1 = Some 2) by (apply C; try lia; apply conn_step; left; reflexivity). discriminate.
  - vm_compute. reflexivity.
  - vm_compute. exact I.
Qed.

Print Assumptions good_lax_compose.
Print Assumptions identity_contract.
Print Assumptions F3_contract.
Print Assumptions ex3_agrees.
